#!/bin/bash
# Builds both harness drivers from /repo's working tree (offline).
set -e
export GOFLAGS=-mod=mod GOPROXY=off GOSUMDB=off GOTOOLCHAIN=local
cd "$(dirname "$0")/harness"
mkdir -p ../bin
go build -tags verif -o ../bin/vrun-plain ./cmd/vrun
go build -race -tags verif -gcflags=github.com/cnotch/ipchub/utils/murmur=-d=checkptr=0 -o ../bin/vrun-race ./cmd/vrun
echo setup ok
