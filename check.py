#!/usr/bin/env python3
"""Orchestrator: check.py <PROPERTY> <quick|thorough>

Builds the harness from /repo's current working tree (build tag `verif`), runs the
property's shards as child processes, merges their results, matches violations against
known_findings.txt, writes evidence/<ID>.json and prints KNOWN-FINDING / VIOLATION lines.

exit 0: held on everything explored (known findings are printed, not alarmed)
exit 1: at least one violation that known_findings.txt does not list
exit 2: infrastructure failure / nothing observed (a broken check, never a verdict)
"""
import json, os, re, shutil, subprocess, sys, tempfile, time, hashlib
from concurrent.futures import ThreadPoolExecutor

ROOT = os.path.dirname(os.path.abspath(__file__))
HARNESS = os.path.join(ROOT, "harness")
BIN = os.path.join(ROOT, "bin")
ENV = dict(os.environ, GOFLAGS="-mod=mod", GOPROXY="off", GOSUMDB="off", GOTOOLCHAIN="local",
           CGO_ENABLED="1")
MURMUR = "-gcflags=github.com/cnotch/ipchub/utils/murmur=-d=checkptr=0"

sys.path.insert(0, ROOT)
from props import PROPS  # noqa: E402


def log(*a):
    print(*a, flush=True)


def build(kind):
    os.makedirs(BIN, exist_ok=True)
    out = os.path.join(BIN, "vrun-" + kind)
    cmd = ["go", "build", "-tags", "verif", "-o", out]
    moddir = None
    alt = os.environ.get("VERIF_REPO")  # optional: build against another checkout (sweeps on a snapshot, seeded worktrees)
    if alt and os.path.abspath(alt) != "/repo":
        out = os.path.join(BIN, "vrun-%s-%s" % (kind, hashlib.md5(alt.encode()).hexdigest()[:8]))
        moddir = tempfile.mkdtemp(prefix="verif-mod-", dir=os.environ.get("VERIF_SCRATCH", "/var/tmp"))
        gm = open(os.path.join(HARNESS, "go.mod")).read().replace("=> /repo", "=> " + os.path.abspath(alt))
        open(os.path.join(moddir, "go.mod"), "w").write(gm)
        shutil.copyfile(os.path.join(HARNESS, "go.sum"), os.path.join(moddir, "go.sum"))
        cmd = ["go", "build", "-modfile=" + os.path.join(moddir, "go.mod"), "-tags", "verif", "-o", out]
    if kind == "race":
        cmd += ["-race", MURMUR]
    cmd += ["./cmd/vrun"]
    # go.sum is seeded from the repository so that the build is hermetic
    t0 = time.time()
    p = subprocess.run(cmd, cwd=HARNESS, env=ENV, stdout=subprocess.PIPE, stderr=subprocess.STDOUT, text=True)
    if moddir:
        shutil.rmtree(moddir, ignore_errors=True)
    if p.returncode != 0:
        log("BUILD FAILED (%s):\n%s" % (kind, p.stdout[-6000:]))
        sys.exit(2)
    return out, time.time() - t0


def load_known():
    known, fixed = [], []
    path = os.path.join(ROOT, "known_findings.txt")
    if not os.path.exists(path):
        return known, fixed
    for line in open(path, encoding="utf-8"):
        line = line.strip()
        if not line or line.startswith("#"):
            continue
        m = re.match(r"known:\s+property=(\S+)\s+sig=(\S+)\s+(.*)$", line)
        if m:
            known.append(dict(property=m.group(1), sig=m.group(2), what=m.group(3)))
            continue
        m = re.match(r"fixed:\s+property=(\S+)\s+(\S+)\s+(.*)$", line)
        if m:
            fixed.append(dict(property=m.group(1), commit=m.group(2), what=m.group(3)))
    return known, fixed


RACE_HDR = "WARNING: DATA RACE"


def parse_races(outdir):
    """Return list of race report blocks (text) found in race.* logs and stderr files."""
    blocks = []
    for fn in sorted(os.listdir(outdir)):
        if not (fn.startswith("race.") or fn.startswith("stderr.")):
            continue
        try:
            txt = open(os.path.join(outdir, fn), errors="replace").read()
        except OSError:
            continue
        parts = txt.split(RACE_HDR)
        for p in parts[1:]:
            end = p.find("==================")
            blocks.append(p[:end] if end > 0 else p[:4000])
    return blocks


FUNC_RE = re.compile(r"^\s+(github\.com/cnotch/ipchub/[^\s(]+(?:\([^)]*\))?[^\s(]*)\(", re.M)


def race_sig(block):
    """Deduplicate by the first ipchub frame of each of the two access stacks."""
    secs = re.split(r"\n\n", block)
    tops = []
    for s in secs[:2]:
        m = re.search(r"^\s+(github\.com/cnotch/ipchub/\S+)\(", s, re.M)
        tops.append(re.sub(r"\.func\d+(\.\d+)*", "", m.group(1).replace("github.com/cnotch/ipchub/", "")) if m else "?")
    return " <-> ".join(sorted(tops))


def run_shard(binpath, prop, tier, seed, outdir, shard, nshards, timeout_s, race):
    env = dict(ENV)
    if race:
        env["GORACE"] = "halt_on_error=0 exitcode=0 log_path=%s/race.%d" % (outdir, shard)
    env["GOTRACEBACK"] = "all"
    so = open(os.path.join(outdir, "stdout.%d" % shard), "w")
    se = open(os.path.join(outdir, "stderr.%d" % shard), "w")
    cmd = ["timeout", "-s", "QUIT", "-k", "20", str(timeout_s), binpath, prop, tier, str(seed), outdir, str(shard), str(nshards)]
    t0 = time.time()
    p = subprocess.run(cmd, env=env, stdout=so, stderr=se, cwd=outdir)
    so.close()
    se.close()
    return shard, p.returncode, time.time() - t0


def first_ipchub_frame(txt):
    # first ipchub frame below a panic / fatal error header
    m = re.search(r"(?:^panic: |^fatal error: )(.*)", txt, re.M)
    if not m:
        return None, None
    head = m.group(1).strip()[:160]
    rest = txt[m.end():]
    # only the panicking goroutine's own stack (first goroutine block) decides whether ipchub crashed
    g = re.search(r"^goroutine \d+ \[running\]:\n(.*?)(?:\n\n|\Z)", rest, re.S | re.M)
    if g:
        rest = g.group(1)
    fm = re.search(r"^(github\.com/cnotch/ipchub/\S+)\(", rest, re.M)
    frame = fm.group(1).replace("github.com/cnotch/ipchub/", "") if fm else "no-ipchub-frame"
    frame = re.sub(r"\.func\d+(\.\d+)*", "", frame)
    return head, frame


def main():
    if len(sys.argv) < 3 or sys.argv[1] not in PROPS or sys.argv[2] not in ("quick", "thorough"):
        log("usage: check.py <%s> <quick|thorough>" % "|".join(sorted(PROPS)))
        sys.exit(2)
    prop, tier = sys.argv[1], sys.argv[2]
    tier = os.environ.get("VERIF_TIER", tier) if os.environ.get("VERIF_TIER") in ("quick", "thorough") else tier
    seed = int(os.environ.get("VERIF_SEED", "1") or "1")
    cfg = PROPS[prop]
    t_start = time.time()
    kind = cfg.get("bin", "race")
    binpath, build_s = build(kind)
    nshards = cfg.get("shards", {}).get(tier, 8) if isinstance(cfg.get("shards"), dict) else cfg.get("shards", 8)
    nshards = max(1, min(nshards, int(os.environ.get("VERIF_MAXSHARDS", "16"))))
    timeout_s = cfg.get("timeout", {}).get(tier, 600)
    outdir = tempfile.mkdtemp(prefix="verif-%s-" % prop, dir=os.environ.get("VERIF_SCRATCH", "/var/tmp"))
    results, infra, crashes = [], [], []
    try:
        with ThreadPoolExecutor(max_workers=nshards) as ex:
            futs = [ex.submit(run_shard, binpath, prop, tier, seed, outdir, s, nshards, timeout_s, kind == "race")
                    for s in range(nshards)]
            rcs = [f.result() for f in futs]
        for shard, rc, wall in rcs:
            rp = os.path.join(outdir, "result.%d.json" % shard)
            err_txt = open(os.path.join(outdir, "stderr.%d" % shard), errors="replace").read()
            if rc == 0 and os.path.exists(rp):
                results.append(json.load(open(rp)))
                continue
            cur = ""
            try:
                cur = open(os.path.join(outdir, "cur.%d" % shard), errors="replace").read()
            except OSError:
                pass
            head, frame = first_ipchub_frame(err_txt)
            if rc in (124, 137) or "SIGQUIT" in err_txt[:4000]:
                infra.append("shard %d: watchdog timeout after %.0fs (inconclusive, not a verdict); last case: %s" % (shard, wall, cur[:300]))
            elif head is not None and frame != "no-ipchub-frame":
                crashes.append(dict(shard=shard, head=head, frame=frame, cur=cur, stderr=err_txt[-12000:]))
            else:
                # keep the whole trace: an unexplained shard death must be diagnosable afterwards
                keep = os.path.join(ROOT, "replay", prop)
                os.makedirs(keep, exist_ok=True)
                kp = os.path.join(keep, "infra-%s-seed%d-shard%d.txt" % (tier, seed, shard))
                try:
                    head_txt = err_txt[:60000]
                    open(kp, "w").write("last case: %s\n\n%s\n...\n%s" % (cur, head_txt, err_txt[-60000:] if len(err_txt) > 60000 else ""))
                except OSError:
                    kp = "<not written>"
                infra.append("shard %d: exit %d without result (trace kept in %s); stderr tail: %s" % (shard, rc, kp, err_txt[-1500:]))

        known, fixed = load_known()
        # ---- merge
        evals = sum(r["evaluations"] for r in results)
        hashes = set()
        distinct_n = 0
        samples, counters, sets, notes, inconcl = [], {}, {}, {}, {}
        viol = {}
        for r in results:
            hashes.update(r.get("distinct_hashes") or [])
            distinct_n += r.get("distinct_n", 0)
            for s in (r.get("samples") or []):
                if len(samples) < 8:
                    samples.append(s)
            for k, v in (r.get("counters") or {}).items():
                counters[k] = counters.get(k, 0) + v
            for k, v in (r.get("sets") or {}).items():
                sets.setdefault(k, set()).update(v)
            for k, v in (r.get("notes") or {}).items():
                notes[k] = v
            for k, v in (r.get("inconclusive") or {}).items():
                inconcl[k] = inconcl.get(k, 0) + v
            for v in (r.get("violations") or []):
                if v["sig"] in viol:
                    viol[v["sig"]]["count"] += v["count"]
                else:
                    viol[v["sig"]] = v
        replay_dir = os.path.join(ROOT, "replay", prop)
        for cr in crashes:
            sig = "%s:process-crash:%s" % (prop, cr["frame"])
            os.makedirs(replay_dir, exist_ok=True)
            path = os.path.join(outdir, "replay", "%s-crash-s%d.json" % (prop, cr["shard"]))
            os.makedirs(os.path.dirname(path), exist_ok=True)
            json.dump(dict(property=prop, sig=sig, seed=seed, shard=cr["shard"], last_case=cr["cur"], panic=cr["head"],
                           stderr_tail=cr["stderr"]), open(path, "w"), indent=1)
            if sig in viol:
                viol[sig]["count"] += 1
            else:
                viol[sig] = dict(sig=sig, replay=path, count=1, detail=dict(panic=cr["head"], last_case=cr["cur"][:2000]))

        # ---- race reports
        race_info = {}
        if kind == "race":
            blocks = parse_races(outdir)
            dedup = {}
            for b in blocks:
                dedup.setdefault(race_sig(b), []).append(b)
            race_info = dict(report_blocks=len(blocks), distinct_site_pairs=len(dedup),
                             site_pairs=sorted(dedup)[:40])
            for rx in cfg.get("race_escalate", []):
                for sg, bl in dedup.items():
                    if re.search(rx, sg) or re.search(rx, bl[0]):
                        sig = "%s:data-race:%s" % (prop, sg)
                        path = os.path.join(outdir, "replay", "%s-race-%s.txt" % (prop, hashlib.md5(sg.encode()).hexdigest()[:8]))
                        os.makedirs(os.path.dirname(path), exist_ok=True)
                        open(path, "w").write(RACE_HDR + bl[0])
                        viol.setdefault(sig, dict(sig=sig, replay=path, count=len(bl), detail=dict(race=sg)))

        # ---- classify
        unlisted, listed = [], []
        for sig, v in sorted(viol.items()):
            hit = None
            for k in known:
                if k["property"] == prop and re.fullmatch(k["sig"], sig):
                    hit = k
                    break
            (listed if hit else unlisted).append((sig, v, hit))
        # copy witnesses of violations into /verif/replay/<id>/
        final_paths = {}
        for sig, v, hit in unlisted + listed:
            src = v.get("replay")
            if src and os.path.exists(src):
                os.makedirs(replay_dir, exist_ok=True)
                dst = os.path.join(replay_dir, os.path.basename(src))
                shutil.copyfile(src, dst)
                final_paths[sig] = dst
            else:
                final_paths[sig] = src or ""

        distinct = len(hashes) + distinct_n
        wall = time.time() - t_start
        coverage = dict(evaluations=int(evals), distinct_nontrivial=int(distinct), rule=cfg["rule"],
                        samples=samples or ["<none>"], shards=nshards, shards_completed=len(results),
                        counters=counters, sets={k: sorted(v)[:200] for k, v in sets.items()},
                        set_sizes={k: len(v) for k, v in sets.items()},
                        inconclusive=inconcl, notes=notes, build_s=round(build_s, 1),
                        known_findings_reobserved=[s for s, _, _ in listed],
                        unlisted_violations=[s for s, _, _ in unlisted],
                        infrastructure_problems=infra)
        if cfg.get("exhaustive_note"):
            coverage["exhaustive"] = bool(notes.get("exhaustive", False))
        if race_info:
            coverage["race_detector"] = race_info
        ev = dict(property_id=prop, tier=tier, seed=seed, level=cfg["level"], coverage=coverage,
                  assumptions=cfg.get("assumptions", []), wall_s=round(wall, 2), violations=len(unlisted))
        # evidence describes runs against /repo itself; a run against another checkout (VERIF_REPO: seeded worktrees,
        # snapshots) writes its evidence next to that checkout's scratch instead of replacing the committed file
        evdir = os.path.join(ROOT, "evidence")
        alt_repo = os.environ.get("VERIF_REPO")
        if alt_repo and os.path.abspath(alt_repo) != "/repo":
            evdir = os.path.join(os.environ.get("VERIF_SCRATCH", "/var/tmp"), "verif-evidence-" + hashlib.md5(alt_repo.encode()).hexdigest()[:8])
        os.makedirs(evdir, exist_ok=True)
        with open(os.path.join(evdir, prop + ".json"), "w") as f:
            json.dump(ev, f, indent=1, sort_keys=True, default=str)

        # ---- report
        log("%s %s seed=%d: %d evaluations, %d distinct non-trivial, %d/%d shards, %.1fs (build %.1fs)" %
            (prop, tier, seed, evals, distinct, len(results), nshards, wall, build_s))
        for k, v in sorted(counters.items()):
            log("  counter %-48s %d" % (k, v))
        for k, v in sorted(sets.items()):
            log("  set     %-48s %d distinct" % (k, len(v)))
        if race_info:
            log("  race detector: %d report blocks, %d distinct site pairs (informational unless escalated)" %
                (race_info["report_blocks"], race_info["distinct_site_pairs"]))
        for k, v in sorted(inconcl.items()):
            log("INCONCLUSIVE property=%s count=%d %s" % (prop, v, k))
        for msg in infra:
            log("INFRA: " + msg)
        for sig, v, hit in listed:
            log("KNOWN-FINDING: property=%s %s [sig=%s count=%d]" % (prop, hit["what"], sig, v["count"]))
        for sig, v, hit in unlisted:
            log("VIOLATION property=%s replay=%s sig=%s count=%d" % (prop, final_paths[sig], sig, v["count"]))
        if unlisted:
            sys.exit(1)
        if infra or not results or evals == 0 or distinct < 2:
            log("BROKEN-CHECK property=%s: infrastructure failure or nothing observed" % prop)
            sys.exit(2)
        sys.exit(0)
    finally:
        if not os.environ.get("VERIF_KEEP"):
            shutil.rmtree(outdir, ignore_errors=True)
        else:
            log("kept scratch dir", outdir)


if __name__ == "__main__":
    main()
