package kit

import (
	"math/rand"
	"runtime"
	"sync"
	"sync/atomic"
	"time"

	"github.com/cnotch/ipchub/utils/verifhook"
)

// Hook controller: turns ipchub's verifhook points into recorded events, seeded delays and
// deterministic gates (block the arriving goroutine until the scenario releases it).

// HookEvent is one recorded hook hit.
type HookEvent struct {
	Seq  int64
	Name string
	Args []interface{}
}

type hookRule struct {
	name   string
	match  func(args []interface{}) bool
	action func(name string, args []interface{})
	once   bool
	used   int32
}

// Hooks is the process-wide controller.
type Hooks struct {
	mu     sync.RWMutex
	rules  map[string][]*hookRule
	clock  int64
	counts sync.Map // name -> *int64
}

// H is the global controller, installed by InstallHooks.
var H = &Hooks{rules: map[string][]*hookRule{}}

var hooksInstalled int32

// InstallHooks installs the controller as ipchub's hook handler (idempotent).
func InstallHooks() {
	if atomic.CompareAndSwapInt32(&hooksInstalled, 0, 1) {
		verifhook.Set(H.handle)
	}
}

// Tick returns the next value of the logical clock shared by hooks and recording endpoints.
func (h *Hooks) Tick() int64 { return atomic.AddInt64(&h.clock, 1) }

func (h *Hooks) handle(name string, args []interface{}) {
	if v, ok := h.counts.Load(name); ok {
		atomic.AddInt64(v.(*int64), 1)
	} else {
		var n int64 = 1
		h.counts.LoadOrStore(name, &n)
	}
	h.mu.RLock()
	rs := h.rules[name]
	h.mu.RUnlock()
	for _, r := range rs {
		if r.match != nil && !r.match(args) {
			continue
		}
		if r.once && !atomic.CompareAndSwapInt32(&r.used, 0, 1) {
			continue
		}
		r.action(name, args)
	}
}

// HitCounts returns how often each hook point was reached so far.
func (h *Hooks) HitCounts() map[string]int64 {
	out := map[string]int64{}
	h.counts.Range(func(k, v interface{}) bool {
		out[k.(string)] = atomic.LoadInt64(v.(*int64))
		return true
	})
	return out
}

// Rule handle for removal.
type Rule struct {
	h *Hooks
	r *hookRule
}

// Remove deletes the rule.
func (r *Rule) Remove() {
	r.h.mu.Lock()
	rs := r.h.rules[r.r.name]
	for i, x := range rs {
		if x == r.r {
			r.h.rules[r.r.name] = append(append([]*hookRule{}, rs[:i]...), rs[i+1:]...)
			break
		}
	}
	r.h.mu.Unlock()
}

func (h *Hooks) add(r *hookRule) *Rule {
	h.mu.Lock()
	h.rules[r.name] = append(append([]*hookRule{}, h.rules[r.name]...), r)
	h.mu.Unlock()
	return &Rule{h, r}
}

// On runs fn at every matching hit of the point.
func (h *Hooks) On(name string, match func(args []interface{}) bool, fn func(name string, args []interface{})) *Rule {
	return h.add(&hookRule{name: name, match: match, action: fn})
}

// Arg0Is matches hits whose first argument is the given object.
func Arg0Is(obj interface{}) func([]interface{}) bool {
	return func(a []interface{}) bool { return len(a) > 0 && a[0] == obj }
}

// Gate blocks the first matching goroutine arriving at a point until Release.
type Gate struct {
	rule     *Rule
	arrived  chan struct{}
	release  chan struct{}
	released int32
	hit      int32
}

// Gate installs a one-shot gate on a point.
func (h *Hooks) Gate(name string, match func(args []interface{}) bool) *Gate {
	g := &Gate{arrived: make(chan struct{}), release: make(chan struct{})}
	g.rule = h.add(&hookRule{name: name, match: match, once: true, action: func(string, []interface{}) {
		atomic.StoreInt32(&g.hit, 1)
		close(g.arrived)
		<-g.release
	}})
	return g
}

// WaitArrived waits until a goroutine is parked at the gate; false on watchdog expiry.
func (g *Gate) WaitArrived(d time.Duration) bool {
	select {
	case <-g.arrived:
		return true
	case <-time.After(d):
		return false
	}
}

// Hit reports whether a goroutine reached the gate.
func (g *Gate) Hit() bool { return atomic.LoadInt32(&g.hit) == 1 }

// Release lets the parked goroutine continue (idempotent) and removes the gate.
func (g *Gate) Release() {
	if atomic.CompareAndSwapInt32(&g.released, 0, 1) {
		close(g.release)
		g.rule.Remove()
	}
}

// Perturb installs seeded random yields/sleeps on the named points for matching hits.
// prob is the probability of a perturbation per hit; maxSleep bounds the sleep.
func (h *Hooks) Perturb(names []string, match func(args []interface{}) bool, seed int64, prob float64, maxSleep time.Duration) []*Rule {
	var mu sync.Mutex
	rng := rand.New(rand.NewSource(seed))
	var out []*Rule
	for _, n := range names {
		out = append(out, h.On(n, match, func(string, []interface{}) {
			mu.Lock()
			p := rng.Float64()
			k := rng.Intn(3)
			d := time.Duration(rng.Int63n(int64(maxSleep) + 1))
			mu.Unlock()
			if p >= prob {
				return
			}
			switch k {
			case 0:
				runtime.Gosched()
			case 1:
				for i := 0; i < 20; i++ {
					runtime.Gosched()
				}
			default:
				time.Sleep(d)
			}
		}))
	}
	return out
}

// RemoveAll removes rules.
func RemoveAll(rs []*Rule) {
	for _, r := range rs {
		r.Remove()
	}
}
