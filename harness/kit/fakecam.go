package kit

import (
	"bufio"
	"encoding/base64"
	"fmt"
	"io"
	"net"
	"strconv"
	"strings"
	"sync"
	"sync/atomic"
	"time"
)

// FakeCam is a scriptable RTSP camera (server side), written for the harness.
// It misbehaves at a chosen handshake step in a chosen way.

// CamScript describes one behaviour.
type CamScript struct {
	FaultStep string // "" (none) | OPTIONS | DESCRIBE | SETUP1 | SETUP2 | PLAY | PLAYING
	Fault     string // ok | 4xx | 5xx | badstatus | badsdp | nofmt-sdp | silence | rst | eof | garbage | 401forever
	Auth      string // "" | basic | digest : challenge the first request of the connection once
	User      string
	Pass      string
	Packets   int // for PLAYING faults: fault after this many packets (0 = right away)
	SDP       string
}

// CamConn records what one camera-side connection saw.
type CamConn struct {
	Requests  []string // "METHOD url auth=<none|ok|bad>"
	Closed    bool     // peer closed (EOF / error on read)
	SentPkts  int
	StartedAt time.Time
}

// FakeCam listens on a loopback port.
type FakeCam struct {
	Addr   string
	ln     net.Listener
	mu     sync.Mutex
	script CamScript
	conns  []*CamConn
	socks  []net.Conn
	open   int64
	stop   int32
	hold   int32 // 1: PLAYING faults are postponed (packets keep flowing) until ReleaseFault
	wg     sync.WaitGroup
}

// NewFakeCam starts a camera.
func NewFakeCam() *FakeCam {
	ln, err := net.Listen("tcp", "127.0.0.1:0")
	if err != nil {
		panic(err)
	}
	f := &FakeCam{Addr: ln.Addr().String(), ln: ln}
	go f.acceptLoop()
	return f
}

// HoldFault postpones PLAYING faults: the camera keeps streaming past Packets until ReleaseFault is called, so that
// "the camera goes away during play" is sequenced after "the requester is receiving" by events, not by time.
func (f *FakeCam) HoldFault()    { atomic.StoreInt32(&f.hold, 1) }
func (f *FakeCam) ReleaseFault() { atomic.StoreInt32(&f.hold, 0) }

// SetScript installs the behaviour for subsequent connections and clears the records.
func (f *FakeCam) SetScript(s CamScript) {
	f.mu.Lock()
	f.script = s
	f.conns = nil
	f.mu.Unlock()
}

// Conns returns a snapshot of the per-connection records.
func (f *FakeCam) Conns() []CamConn {
	f.mu.Lock()
	defer f.mu.Unlock()
	out := make([]CamConn, len(f.conns))
	for i, c := range f.conns {
		out[i] = *c
		out[i].Requests = append([]string(nil), c.Requests...)
	}
	return out
}

// Open returns the number of camera-side connections currently open.
func (f *FakeCam) Open() int { return int(atomic.LoadInt64(&f.open)) }

// Close stops the camera.
func (f *FakeCam) Close() {
	atomic.StoreInt32(&f.stop, 1)
	f.ln.Close()
	f.mu.Lock()
	for _, c := range f.socks {
		c.Close()
	}
	f.mu.Unlock()
}

func (f *FakeCam) acceptLoop() {
	for {
		c, err := f.ln.Accept()
		if err != nil {
			return
		}
		f.mu.Lock()
		rec := &CamConn{StartedAt: time.Now()}
		f.conns = append(f.conns, rec)
		f.socks = append(f.socks, c)
		sc := f.script
		f.mu.Unlock()
		atomic.AddInt64(&f.open, 1)
		go func() {
			defer atomic.AddInt64(&f.open, -1)
			f.serve(c, rec, sc)
		}()
	}
}

type camReq struct {
	method, url string
	hdr         map[string]string
}

func camReadRequest(br *bufio.Reader) (*camReq, error) {
	for {
		b, err := br.Peek(1)
		if err != nil {
			return nil, err
		}
		if b[0] == '$' { // interleaved data from the client (RTCP): skip
			var h [4]byte
			if _, err := io.ReadFull(br, h[:]); err != nil {
				return nil, err
			}
			n := int(h[2])<<8 | int(h[3])
			if _, err := io.CopyN(io.Discard, br, int64(n)); err != nil {
				return nil, err
			}
			continue
		}
		break
	}
	line, err := br.ReadString('\n')
	if err != nil {
		return nil, err
	}
	parts := strings.Fields(strings.TrimSpace(line))
	if len(parts) < 3 {
		return nil, fmt.Errorf("bad request line %q", line)
	}
	r := &camReq{method: parts[0], url: parts[1], hdr: map[string]string{}}
	for {
		l, err := br.ReadString('\n')
		if err != nil {
			return nil, err
		}
		l = strings.TrimRight(l, "\r\n")
		if l == "" {
			break
		}
		if i := strings.IndexByte(l, ':'); i > 0 {
			r.hdr[strings.ToLower(strings.TrimSpace(l[:i]))] = strings.TrimSpace(l[i+1:])
		}
	}
	if cl, _ := strconv.Atoi(r.hdr["content-length"]); cl > 0 {
		io.CopyN(io.Discard, br, int64(cl))
	}
	return r, nil
}

func (f *FakeCam) serve(c net.Conn, rec *CamConn, sc CamScript) {
	defer c.Close()
	br := bufio.NewReader(c)
	nonce := "c4m3r4n0nc3"
	challenged := false
	setups := 0
	note := func(s string) {
		f.mu.Lock()
		rec.Requests = append(rec.Requests, s)
		f.mu.Unlock()
	}
	closed := func() {
		f.mu.Lock()
		rec.Closed = true
		f.mu.Unlock()
	}
	reply := func(req *camReq, code int, reason string, hdr map[string]string, body string) error {
		var b strings.Builder
		fmt.Fprintf(&b, "RTSP/1.0 %d %s\r\nCSeq: %s\r\nSession: cam12345;timeout=60\r\n", code, reason, req.hdr["cseq"])
		for k, v := range hdr {
			fmt.Fprintf(&b, "%s: %s\r\n", k, v)
		}
		if body != "" {
			fmt.Fprintf(&b, "Content-Length: %d\r\n", len(body))
		}
		b.WriteString("\r\n")
		b.WriteString(body)
		_, err := c.Write([]byte(b.String()))
		return err
	}
	// waitPeerClose blocks until the peer closes (used by silence scripts)
	waitPeerClose := func() {
		c.SetReadDeadline(time.Time{})
		io.Copy(io.Discard, br)
		closed()
	}
	fault := func(req *camReq) bool { // returns true when the connection is finished
		switch sc.Fault {
		case "4xx":
			reply(req, 404, "Not Found", nil, "")
			return false
		case "5xx":
			reply(req, 500, "Internal Server Error", nil, "")
			return false
		case "badstatus":
			c.Write([]byte("RTSP/1.0 2xx what\r\nCSeq: " + req.hdr["cseq"] + "\r\n\r\n"))
			return false
		case "garbage":
			c.Write([]byte("\x00\x01\x02garbage garbage garbage\r\n\r\n\xff\xfe"))
			return false
		case "silence":
			waitPeerClose()
			return true
		case "rst":
			if tc, ok := c.(*net.TCPConn); ok {
				tc.SetLinger(0)
			}
			return true
		case "eof":
			return true
		case "401forever":
			reply(req, 401, "Unauthorized", map[string]string{"WWW-Authenticate": `Digest realm="cam", nonce="` + nonce + `"`}, "")
			return false
		}
		return false
	}
	for {
		req, err := camReadRequest(br)
		if err != nil {
			closed()
			return
		}
		authState := "none"
		if a := req.hdr["authorization"]; a != "" {
			authState = "bad"
			if strings.HasPrefix(a, "Basic ") {
				if d, err := base64.StdEncoding.DecodeString(a[6:]); err == nil && string(d) == sc.User+":"+sc.Pass {
					authState = "ok"
				}
			} else if strings.HasPrefix(a, "Digest ") {
				resp := between(a, `response="`, `"`)
				uri := between(a, `uri="`, `"`)
				// RFC 2617 3.2.2.5: the uri directive must be the Request-URI (userinfo aside); the hash is over it
				if resp == DigestResponse(sc.User, "cam", sc.Pass, nonce, req.method, uri) && stripUserinfo(uri) == stripUserinfo(req.url) {
					authState = "ok"
				}
			}
		}
		note(fmt.Sprintf("%s %s auth=%s", req.method, req.url, authState))
		step := req.method
		if req.method == "SETUP" {
			// step is named after the track, so that a retried SETUP of the same track is the same step
			setups++
			if strings.HasSuffix(req.url, "streamid=1") {
				step = "SETUP2"
			} else {
				step = "SETUP1"
			}
		}
		if sc.Auth != "" && authState != "ok" {
			if challenged && authState == "bad" {
				reply(req, 401, "Unauthorized", map[string]string{"WWW-Authenticate": `Basic realm="cam"`}, "")
				continue
			}
			challenged = true
			if sc.Auth == "basic" {
				reply(req, 401, "Unauthorized", map[string]string{"WWW-Authenticate": `Basic realm="cam"`}, "")
			} else {
				reply(req, 401, "Unauthorized", map[string]string{"WWW-Authenticate": `Digest realm="cam", nonce="` + nonce + `"`}, "")
			}
			continue
		}
		if sc.FaultStep == step {
			if sc.Fault == "badsdp" && step == "DESCRIBE" {
				reply(req, 200, "OK", map[string]string{"Content-Type": "application/sdp"}, "v=0\r\nthis is not sdp at all\r\nm=\r\n")
				continue
			}
			if sc.Fault == "nofmt-sdp" && step == "DESCRIBE" {
				reply(req, 200, "OK", map[string]string{"Content-Type": "application/sdp"}, "v=0\r\no=- 0 0 IN IP4 127.0.0.1\r\ns=x\r\nt=0 0\r\nm=video 0 RTP/AVP\r\na=control:streamid=0\r\n")
				continue
			}
			if fault(req) {
				return
			}
			continue
		}
		switch req.method {
		case "OPTIONS":
			reply(req, 200, "OK", map[string]string{"Public": "OPTIONS, DESCRIBE, SETUP, PLAY, TEARDOWN"}, "")
		case "DESCRIBE":
			sdp := sc.SDP
			if sdp == "" {
				sdp = SDPH264AAC
			}
			reply(req, 200, "OK", map[string]string{"Content-Type": "application/sdp"}, sdp)
		case "SETUP":
			reply(req, 200, "OK", map[string]string{"Transport": req.hdr["transport"]}, "")
		case "PLAY":
			reply(req, 200, "OK", nil, "")
			// stream until told otherwise
			go func() {
				io.Copy(io.Discard, br) // keep-alive OPTIONS etc. are ignored; detects peer close
				closed()
			}()
			for i := 0; atomic.LoadInt32(&f.stop) == 0; i++ {
				if sc.FaultStep == "PLAYING" && i >= sc.Packets && atomic.LoadInt32(&f.hold) == 0 {
					switch sc.Fault {
					case "silence":
						for atomic.LoadInt32(&f.stop) == 0 {
							f.mu.Lock()
							cl := rec.Closed
							f.mu.Unlock()
							if cl {
								return
							}
							time.Sleep(5 * time.Millisecond)
						}
						return
					case "rst":
						if tc, ok := c.(*net.TCPConn); ok {
							tc.SetLinger(0)
						}
						return
					case "garbage":
						c.Write([]byte("this is not a frame nor a response\r\n\r\n"))
						return
					default:
						return
					}
				}
				typ := byte(1)
				if i%5 == 0 {
					typ = 5
				}
				p := MakeRTP(ChVideo, 96, true, uint16(i), uint32(i)*3600, 0xca, H264NAL(2, typ, 60, uint64(i)+1))
				b := append([]byte{'$', 0, byte(len(p.Data) >> 8), byte(len(p.Data))}, p.Data...)
				if _, err := c.Write(b); err != nil {
					closed()
					return
				}
				f.mu.Lock()
				rec.SentPkts++
				cl := rec.Closed
				f.mu.Unlock()
				if cl {
					return
				}
				time.Sleep(2 * time.Millisecond)
			}
			return
		case "TEARDOWN":
			reply(req, 200, "OK", nil, "")
			return
		default:
			reply(req, 405, "Method Not Allowed", nil, "")
		}
	}
}

func stripUserinfo(u string) string {
	i := strings.Index(u, "://")
	if i < 0 {
		return u
	}
	rest := u[i+3:]
	if j := strings.IndexByte(rest, '/'); j >= 0 {
		if k := strings.LastIndexByte(rest[:j], '@'); k >= 0 {
			return u[:i+3] + rest[k+1:]
		}
	} else if k := strings.LastIndexByte(rest, '@'); k >= 0 {
		return u[:i+3] + rest[k+1:]
	}
	return u
}
