package kit

// Independent bit writer for building codec parameter sets from the standards' syntax tables
// (ITU-T H.264 7.2 / 9.1, ITU-T H.265 7.2 / 9.2, ISO/IEC 14496-3 bit-serial syntax).
// Shares no code with ipchub.

// BitStats records which descriptor shapes were written (coverage evidence).
type BitStats struct {
	UeWidth [34]int64 // index = number of significant bits of codeNum+1 (1..32) for ue(v)
	SeWidth [34]int64 // same for se(v) (width of the mapped codeNum+1)
	SePos   int64     // se(v) values > 0
	SeNeg   int64     // se(v) values < 0
	SeZero  int64
	MaxUe   int // widest ue(v)/se(v) code number written since the caller last reset it (bits of codeNum+1)
}

// BitWriter appends bits MSB first.
type BitWriter struct {
	buf   []byte
	nbits int
	Stats *BitStats // optional
}

// Len returns the number of bits written.
func (w *BitWriter) Len() int { return w.nbits }

// Bit appends one bit.
func (w *BitWriter) Bit(b int) {
	if w.nbits&7 == 0 {
		w.buf = append(w.buf, 0)
	}
	if b != 0 {
		w.buf[w.nbits>>3] |= 0x80 >> uint(w.nbits&7)
	}
	w.nbits++
}

// Flag appends a boolean as one bit.
func (w *BitWriter) Flag(b bool) {
	if b {
		w.Bit(1)
	} else {
		w.Bit(0)
	}
}

// U appends v as an n-bit unsigned integer, n in 0..64, most significant bit first: u(n).
func (w *BitWriter) U(n int, v uint64) {
	for i := n - 1; i >= 0; i-- {
		w.Bit(int((v >> uint(i)) & 1))
	}
}

func bitLen64(v uint64) int {
	n := 0
	for v != 0 {
		n++
		v >>= 1
	}
	return n
}

// Ue appends ue(v): Exp-Golomb code of codeNum v (clause 9.1): with k = floor(log2(v+1)),
// k zero bits, then the (k+1)-bit binary representation of v+1. Valid for v in 0..2^32-2.
func (w *BitWriter) Ue(v uint64) {
	x := v + 1
	k := bitLen64(x) - 1
	for i := 0; i < k; i++ {
		w.Bit(0)
	}
	w.U(k+1, x)
	if w.Stats != nil && k+1 < len(w.Stats.UeWidth) {
		w.Stats.UeWidth[k+1]++
		if k+1 > w.Stats.MaxUe {
			w.Stats.MaxUe = k + 1
		}
	}
}

// SeCodeNum maps a signed value to its codeNum (Table 9-3): k>0 -> 2k-1, k<=0 -> -2k.
func SeCodeNum(v int64) uint64 {
	if v > 0 {
		return uint64(2*v - 1)
	}
	return uint64(-2 * v)
}

// Se appends se(v).
func (w *BitWriter) Se(v int64) {
	cn := SeCodeNum(v)
	st := w.Stats
	w.Stats = nil
	w.Ue(cn)
	w.Stats = st
	if st != nil {
		st.SeWidth[bitLen64(cn+1)]++
		if bl := bitLen64(cn + 1); bl > st.MaxUe {
			st.MaxUe = bl
		}
		switch {
		case v > 0:
			st.SePos++
		case v < 0:
			st.SeNeg++
		default:
			st.SeZero++
		}
	}
}

// TrailingBits appends rbsp_trailing_bits(): a one bit then zero bits up to the byte boundary.
func (w *BitWriter) TrailingBits() {
	w.Bit(1)
	for w.nbits&7 != 0 {
		w.Bit(0)
	}
}

// AlignZero pads with zero bits to the byte boundary.
func (w *BitWriter) AlignZero() {
	for w.nbits&7 != 0 {
		w.Bit(0)
	}
}

// Bytes returns the written bytes (last byte zero padded).
func (w *BitWriter) Bytes() []byte { return append([]byte(nil), w.buf...) }

// EmulationPrevent builds a NAL unit from header bytes and an RBSP per H.264 7.4.1 / H.265 7.4.2:
// inside the payload every 00 00 followed by a byte <= 03 gets an emulation_prevention_three_byte
// inserted before the third byte. The positions (byte offsets in the output) of the inserted bytes
// are returned.
func EmulationPrevent(header, rbsp []byte) (nal []byte, epbAt []int) {
	nal = append(nal, header...)
	zeros := 0
	for _, b := range rbsp {
		if zeros >= 2 && b <= 3 {
			epbAt = append(epbAt, len(nal))
			nal = append(nal, 3)
			zeros = 0
		}
		nal = append(nal, b)
		if b == 0 {
			zeros++
		} else {
			zeros = 0
		}
	}
	return nal, epbAt
}
