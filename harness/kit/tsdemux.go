package kit

// Independent MPEG-2 transport stream demultiplexer, written from ISO/IEC 13818-1 (TS, PSI, PES),
// ISO/IEC 14496-10 Annex B (byte stream format) and ISO/IEC 13818-7 / 14496-3 (ADTS).
// It shares no code with ipchub and never panics on malformed input: every structural problem is
// reported as a TSError with a stable Code.
//
// Typical use:
//
//	res := kit.DemuxTS(data)
//	for _, e := range res.Errors { ... e.Code ... }
//	for _, p := range res.PESOf(res.PIDOfStreamType(0x1b)) { nals := kit.SplitAnnexB(p.Data) ... }
//	frames, err := kit.ParseADTS(audioPES.Data)

import (
	"fmt"
)

// Stable error codes reported by DemuxTS.
const (
	TSErrSize              = "ts.size-not-multiple-of-188"  // trailing partial packet
	TSErrSync              = "ts.sync-byte"                 // packet does not start with 0x47
	TSErrTEI               = "ts.transport-error-indicator" // TEI set
	TSErrScrambled         = "ts.scrambled"                 // transport_scrambling_control != 0
	TSErrAFCReserved       = "ts.afc-reserved"              // adaptation_field_control == 0
	TSErrAFLength          = "ts.af-length"                 // adaptation_field_length out of range for the AFC value
	TSErrAFOverflow        = "ts.af-fields-overflow"        // flagged optional fields do not fit into adaptation_field_length
	TSErrPCRReserved       = "ts.pcr-ext-range"             // PCR extension >= 300
	TSErrCC                = "ts.cc-discontinuity"          // continuity_counter is not last+1 (mod 16) on a payload packet
	TSErrCCNoPayload       = "ts.cc-increment-without-payload"
	TSErrCCDuplicate       = "ts.cc-duplicate-differs" // same CC as previous payload packet but different content / repeated more than once
	TSErrPIDUnannounced    = "ts.pid-unannounced"      // packet on a PID that is neither PSI, nor in the PMT, nor null
	TSErrPATMissing        = "psi.pat-missing"
	TSErrPMTMissing        = "psi.pmt-missing"
	TSErrPSIPointer        = "psi.pointer-field"
	TSErrPSISectionLength  = "psi.section-length"
	TSErrPSISyntax         = "psi.section-syntax" // section_syntax_indicator / '0' bit / table_id wrong for the PID
	TSErrPSICRC            = "psi.crc"
	TSErrPSITruncated      = "psi.section-truncated"
	TSErrPSIInconsistent   = "psi.table-changed" // same version_number, different content
	TSErrPMTBody           = "psi.pmt-body"      // descriptor / ES loop lengths inconsistent
	TSErrPESNoStart        = "pes.payload-before-first-unit-start"
	TSErrPESStartCode      = "pes.start-code-prefix"
	TSErrPESTruncated      = "pes.header-truncated"
	TSErrPESMarker         = "pes.marker-10" // the '10' bits after PES_packet_length
	TSErrPESFlagsForbidden = "pes.pts-dts-flags-01"
	TSErrPESHeaderDataLen  = "pes.header-data-length" // PES_header_data_length smaller than the flagged fields, or beyond the packet
	TSErrPESTSPrefix       = "pes.timestamp-prefix"   // 4-bit prefix of PTS/DTS wrong ('0010', '0011', '0001')
	TSErrPESTSMarker       = "pes.timestamp-marker-bit"
	TSErrPESLength         = "pes.length-mismatch" // non-zero PES_packet_length != bytes actually carried
	TSErrPESLengthZero     = "pes.length-zero-on-non-video"
	TSErrPESScrambled      = "pes.scrambled"
)

// TSError is one structural problem found in the stream.
type TSError struct {
	Code   string `json:"code"`
	Packet int    `json:"packet"` // index of the TS packet, -1 when not tied to one
	PID    int    `json:"pid"`    // -1 when not tied to one
	Msg    string `json:"msg"`
}

func (e TSError) String() string {
	return fmt.Sprintf("%s pkt=%d pid=%d %s", e.Code, e.Packet, e.PID, e.Msg)
}

// TSPacket is the decoded header / adaptation field of one 188-byte packet.
type TSPacket struct {
	Index         int
	SyncOK        bool
	TEI           bool
	PUSI          bool
	Priority      bool
	PID           int
	Scrambling    uint8
	AFC           uint8 // adaptation_field_control
	CC            uint8
	AFLen         int // adaptation_field_length, -1 when there is no adaptation field
	Discontinuity bool
	RandomAccess  bool
	ESPriority    bool
	HasPCR        bool
	PCRBase       uint64 // 33 bit, 90 kHz
	PCRExt        uint16 // 9 bit, 27 MHz
	HasOPCR       bool
	Splicing      bool
	StuffingBytes int // number of stuffing bytes in the adaptation field
	StuffingNotFF int // how many of them are not 0xFF (informational; decoders discard them)
	PayloadOff    int // offset of the payload inside the packet, 188 when there is none
	Duplicate     bool
	Bad           bool // header unusable, packet skipped
}

// PCR27 returns the PCR in 27 MHz units.
func (p *TSPacket) PCR27() uint64 { return p.PCRBase*300 + uint64(p.PCRExt) }

// PATInfo is one decoded program_association_section.
type PATInfo struct {
	PacketIndex       int
	TransportStreamID uint16
	Version           uint8
	CurrentNext       bool
	SectionNumber     uint8
	LastSectionNumber uint8
	Programs          []PATProgram
	CRC               uint32
	CRCOK             bool
}

// PATProgram is one PAT loop entry (program_number 0 = network PID).
type PATProgram struct {
	ProgramNumber uint16
	PID           int
}

// PMTStream is one elementary stream entry of a PMT.
type PMTStream struct {
	StreamType  uint8
	PID         int
	Descriptors []byte
}

// PMTInfo is one decoded TS_program_map_section.
type PMTInfo struct {
	PacketIndex   int
	PID           int
	ProgramNumber uint16
	Version       uint8
	CurrentNext   bool
	PCRPID        int
	ProgramInfo   []byte
	Streams       []PMTStream
	CRC           uint32
	CRCOK         bool
}

// PES is one reassembled PES packet.
type PES struct {
	PID              int
	StreamType       uint8 // from the PMT
	StreamID         uint8
	PacketIndex      int // TS packet that carries the PES start
	NPackets         int // TS packets (with payload) that carry this PES
	HeaderOK         bool
	HasOptionalHdr   bool
	PacketLength     int // PES_packet_length field (0 = unbounded)
	DataAlignment    bool
	HasPTS           bool
	HasDTS           bool
	PTS              uint64 // 33 bit, 90 kHz
	DTS              uint64 // == PTS when HasDTS is false
	HeaderDataLength int
	RandomAccess     bool    // random_access_indicator of the TS packet that starts the PES
	PCR              *uint64 // PCR (27 MHz) of the TS packet that starts the PES, nil when absent
	PCRBase          uint64  // 90 kHz part of that PCR
	LastAFLen        int     // adaptation_field_length of the last TS packet of the PES (-1 none)
	FirstAFLen       int     // same for the first packet
	FirstStuffing    int     // stuffing bytes in the first packet
	LastStuffing     int     // stuffing bytes in the last packet
	Data             []byte  // elementary stream bytes
	raw              []byte
}

// TSResult is what DemuxTS returns.
type TSResult struct {
	Size          int
	NPackets      int
	TrailingBytes int
	Errors        []TSError
	Packets       []TSPacket
	PATs          []PATInfo // every PAT section seen, in order
	PMTs          []PMTInfo // every PMT section seen, in order
	PAT           *PATInfo  // first PAT
	PMT           *PMTInfo  // first PMT
	StreamTypes   map[int]uint8
	PES           []*PES // all PES packets in order of their first TS packet
	PacketsPerPID map[int]int
	StuffingNotFF int // total adaptation-field stuffing bytes that are not 0xFF (informational)
	Duplicates    int // legal duplicate packets dropped
}

// HasError reports whether an error with the given code was recorded.
func (r *TSResult) HasError(code string) bool {
	for _, e := range r.Errors {
		if e.Code == code {
			return true
		}
	}
	return false
}

// ErrorCodes returns the distinct error codes with their counts.
func (r *TSResult) ErrorCodes() map[string]int {
	m := map[string]int{}
	for _, e := range r.Errors {
		m[e.Code]++
	}
	return m
}

// PESOf returns the PES packets of one PID in order.
func (r *TSResult) PESOf(pid int) []*PES {
	var out []*PES
	for _, p := range r.PES {
		if p.PID == pid {
			out = append(out, p)
		}
	}
	return out
}

// PIDsOfStreamType lists the PIDs announced with the given stream_type (ascending PMT order).
func (r *TSResult) PIDsOfStreamType(st uint8) []int {
	var out []int
	seen := map[int]bool{}
	for _, m := range r.PMTs {
		for _, s := range m.Streams {
			if s.StreamType == st && !seen[s.PID] {
				seen[s.PID] = true
				out = append(out, s.PID)
			}
		}
	}
	return out
}

// PIDOfStreamType returns the first PID announced with the stream type, or -1.
func (r *TSResult) PIDOfStreamType(st uint8) int {
	p := r.PIDsOfStreamType(st)
	if len(p) == 0 {
		return -1
	}
	return p[0]
}

const maxTSErrors = 400

func (r *TSResult) errf(code string, pkt, pid int, format string, a ...interface{}) {
	if len(r.Errors) >= maxTSErrors {
		return
	}
	r.Errors = append(r.Errors, TSError{Code: code, Packet: pkt, PID: pid, Msg: fmt.Sprintf(format, a...)})
}

// CRC32MPEG2 computes CRC-32/MPEG-2 (poly 0x04C11DB7, init 0xFFFFFFFF, no reflection, no final xor).
func CRC32MPEG2(b []byte) uint32 {
	crc := uint32(0xFFFFFFFF)
	for _, x := range b {
		crc ^= uint32(x) << 24
		for i := 0; i < 8; i++ {
			if crc&0x80000000 != 0 {
				crc = crc<<1 ^ 0x04C11DB7
			} else {
				crc <<= 1
			}
		}
	}
	return crc
}

// DemuxTS parses a complete transport stream held in memory.
func DemuxTS(data []byte) *TSResult {
	r := &TSResult{Size: len(data), StreamTypes: map[int]uint8{}, PacketsPerPID: map[int]int{}}
	r.NPackets = len(data) / 188
	r.TrailingBytes = len(data) % 188
	if r.TrailingBytes != 0 {
		r.errf(TSErrSize, -1, -1, "stream length %d = %d packets + %d bytes", len(data), r.NPackets, r.TrailingBytes)
	}
	r.Packets = make([]TSPacket, r.NPackets)
	for i := 0; i < r.NPackets; i++ {
		r.parsePacketHeader(i, data[i*188:(i+1)*188])
	}
	r.checkContinuity(data)

	// PSI: PAT on PID 0, then the PMT PIDs it names.
	for _, s := range r.collectSections(data, 0) {
		r.parsePAT(s)
	}
	if len(r.PATs) > 0 {
		r.PAT = &r.PATs[0]
	} else {
		r.errf(TSErrPATMissing, -1, 0, "no program_association_section found")
	}
	pmtPIDs := map[int]uint16{}
	var pmtOrder []int
	for _, pat := range r.PATs {
		for _, p := range pat.Programs {
			if p.ProgramNumber != 0 {
				if _, ok := pmtPIDs[p.PID]; !ok {
					pmtPIDs[p.PID] = p.ProgramNumber
					pmtOrder = append(pmtOrder, p.PID)
				}
			}
		}
	}
	var allPMT []PMTInfo
	for _, pid := range pmtOrder {
		for _, s := range r.collectSections(data, pid) {
			if m, ok := r.parsePMT(s, pid); ok {
				allPMT = append(allPMT, m)
			}
		}
	}
	// order PMTs by packet index (stable insertion sort, tiny lists)
	for i := 1; i < len(allPMT); i++ {
		for j := i; j > 0 && allPMT[j].PacketIndex < allPMT[j-1].PacketIndex; j-- {
			allPMT[j], allPMT[j-1] = allPMT[j-1], allPMT[j]
		}
	}
	r.PMTs = allPMT
	if len(r.PMTs) > 0 {
		r.PMT = &r.PMTs[0]
	} else if len(r.PATs) > 0 {
		r.errf(TSErrPMTMissing, -1, -1, "no TS_program_map_section found on the PIDs named by the PAT")
	}
	for _, m := range r.PMTs {
		for _, s := range m.Streams {
			if _, ok := r.StreamTypes[s.PID]; !ok {
				r.StreamTypes[s.PID] = s.StreamType
			}
		}
	}

	// PES on the elementary PIDs.
	r.reassemblePES(data, pmtPIDs)
	return r
}

func (r *TSResult) parsePacketHeader(i int, p []byte) {
	k := &r.Packets[i]
	k.Index = i
	k.AFLen = -1
	k.PayloadOff = 188
	k.SyncOK = p[0] == 0x47
	k.TEI = p[1]&0x80 != 0
	k.PUSI = p[1]&0x40 != 0
	k.Priority = p[1]&0x20 != 0
	k.PID = int(p[1]&0x1f)<<8 | int(p[2])
	k.Scrambling = p[3] >> 6
	k.AFC = p[3] >> 4 & 3
	k.CC = p[3] & 0x0f
	if !k.SyncOK {
		k.Bad = true
		r.errf(TSErrSync, i, k.PID, "first byte 0x%02x", p[0])
		return
	}
	r.PacketsPerPID[k.PID]++
	if k.TEI {
		r.errf(TSErrTEI, i, k.PID, "transport_error_indicator set")
	}
	if k.PID == 0x1fff {
		return // null packet: rest is undefined
	}
	if k.Scrambling != 0 {
		r.errf(TSErrScrambled, i, k.PID, "transport_scrambling_control=%d", k.Scrambling)
	}
	switch k.AFC {
	case 0:
		k.Bad = true
		r.errf(TSErrAFCReserved, i, k.PID, "adaptation_field_control=00")
		return
	case 1:
		k.PayloadOff = 4
		return
	}
	// adaptation field present
	afl := int(p[4])
	k.AFLen = afl
	if k.AFC == 3 && afl > 182 {
		k.Bad = true
		r.errf(TSErrAFLength, i, k.PID, "adaptation_field_length=%d with payload (max 182)", afl)
		return
	}
	if k.AFC == 2 && afl != 183 {
		// spec: shall be 183 when there is no payload
		r.errf(TSErrAFLength, i, k.PID, "adaptation_field_length=%d without payload (must be 183)", afl)
		if afl > 183 {
			k.Bad = true
			return
		}
	}
	if k.AFC == 3 {
		k.PayloadOff = 5 + afl
	}
	if afl == 0 {
		return
	}
	fl := p[5]
	k.Discontinuity = fl&0x80 != 0
	k.RandomAccess = fl&0x40 != 0
	k.ESPriority = fl&0x20 != 0
	k.HasPCR = fl&0x10 != 0
	k.HasOPCR = fl&0x08 != 0
	k.Splicing = fl&0x04 != 0
	private := fl&0x02 != 0
	ext := fl&0x01 != 0
	end := 5 + afl // first byte after the adaptation field
	q := 6
	over := func(n int, what string) bool {
		if q+n > end {
			r.errf(TSErrAFOverflow, i, k.PID, "%s needs %d bytes at offset %d, adaptation field ends at %d", what, n, q, end)
			return true
		}
		return false
	}
	if k.HasPCR {
		if over(6, "PCR") {
			k.HasPCR = false
			return
		}
		k.PCRBase = uint64(p[q])<<25 | uint64(p[q+1])<<17 | uint64(p[q+2])<<9 | uint64(p[q+3])<<1 | uint64(p[q+4])>>7
		k.PCRExt = uint16(p[q+4]&1)<<8 | uint16(p[q+5])
		if k.PCRExt >= 300 {
			r.errf(TSErrPCRReserved, i, k.PID, "program_clock_reference_extension=%d", k.PCRExt)
		}
		q += 6
	}
	if k.HasOPCR {
		if over(6, "OPCR") {
			return
		}
		q += 6
	}
	if k.Splicing {
		if over(1, "splice_countdown") {
			return
		}
		q++
	}
	if private {
		if over(1, "transport_private_data_length") {
			return
		}
		n := int(p[q])
		q++
		if over(n, "transport_private_data") {
			return
		}
		q += n
	}
	if ext {
		if over(1, "adaptation_field_extension_length") {
			return
		}
		n := int(p[q])
		q++
		if over(n, "adaptation_field_extension") {
			return
		}
		q += n
	}
	for ; q < end; q++ {
		k.StuffingBytes++
		if p[q] != 0xff {
			k.StuffingNotFF++
		}
	}
	r.StuffingNotFF += k.StuffingNotFF
}

// checkContinuity verifies the continuity_counter per PID (2.4.3.3).
func (r *TSResult) checkContinuity(data []byte) {
	type st struct {
		seen     bool
		cc       uint8
		lastIdx  int
		lastPay  bool
		dupCount int
	}
	m := map[int]*st{}
	for i := range r.Packets {
		k := &r.Packets[i]
		if k.Bad || k.PID == 0x1fff {
			continue
		}
		s := m[k.PID]
		if s == nil {
			s = &st{}
			m[k.PID] = s
		}
		hasPayload := k.AFC&1 != 0
		if !s.seen {
			s.seen, s.cc, s.lastIdx, s.lastPay = true, k.CC, i, hasPayload
			continue
		}
		if !hasPayload {
			if k.CC != s.cc && !k.Discontinuity {
				r.errf(TSErrCCNoPayload, i, k.PID, "cc %d -> %d on a packet without payload", s.cc, k.CC)
			}
			s.cc, s.lastIdx, s.lastPay = k.CC, i, false
			continue
		}
		want := (s.cc + 1) & 0x0f
		switch {
		case k.CC == want:
			s.dupCount = 0
		case k.Discontinuity:
			s.dupCount = 0
		case k.CC == s.cc && s.lastPay:
			// duplicate packet: allowed once, content identical except the PCR
			a, b := data[s.lastIdx*188:(s.lastIdx+1)*188], data[i*188:(i+1)*188]
			same := r.Packets[s.lastIdx].PayloadOff == k.PayloadOff
			if same {
				for x := k.PayloadOff; x < 188; x++ {
					if a[x] != b[x] {
						same = false
						break
					}
				}
			}
			s.dupCount++
			if same && s.dupCount == 1 {
				k.Duplicate = true
				r.Duplicates++
			} else {
				r.errf(TSErrCCDuplicate, i, k.PID, "cc %d repeated (packet %d) with different payload or more than once", k.CC, s.lastIdx)
			}
		default:
			s.dupCount = 0
			r.errf(TSErrCC, i, k.PID, "cc %d after %d (packet %d), expected %d", k.CC, s.cc, s.lastIdx, want)
		}
		s.cc, s.lastIdx, s.lastPay = k.CC, i, true
	}
}

type psiSection struct {
	pkt  int // packet where the section starts
	data []byte
}

// collectSections reassembles the PSI sections carried on one PID (2.4.4).
func (r *TSResult) collectSections(data []byte, pid int) []psiSection {
	var out []psiSection
	var cur []byte
	curPkt := -1
	need := -1 // total bytes of the section being collected, -1 unknown (header incomplete)
	flush := func() {
		if cur != nil && need >= 0 && len(cur) >= need {
			out = append(out, psiSection{curPkt, cur[:need]})
		} else if cur != nil && len(cur) > 0 {
			r.errf(TSErrPSITruncated, curPkt, pid, "section has %d of %d bytes", len(cur), need)
		}
		cur, curPkt, need = nil, -1, -1
	}
	// feed appends bytes to the current section and starts further sections found in the same payload.
	var feed func(b []byte, pkt int)
	feed = func(b []byte, pkt int) {
		for len(b) > 0 {
			if cur == nil {
				if b[0] == 0xff { // stuffing until the end of the packet
					return
				}
				cur = []byte{}
				curPkt = pkt
				need = -1
			}
			if need < 0 {
				// need the first 3 bytes for section_length
				take := 3 - len(cur)
				if take > len(b) {
					take = len(b)
				}
				cur = append(cur, b[:take]...)
				b = b[take:]
				if len(cur) < 3 {
					return
				}
				sl := int(cur[1]&0x0f)<<8 | int(cur[2])
				if sl > 1021 {
					r.errf(TSErrPSISectionLength, curPkt, pid, "section_length=%d > 1021", sl)
					cur, curPkt, need = nil, -1, -1
					return
				}
				need = 3 + sl
			}
			take := need - len(cur)
			if take > len(b) {
				take = len(b)
			}
			cur = append(cur, b[:take]...)
			b = b[take:]
			if len(cur) == need {
				out = append(out, psiSection{curPkt, cur})
				cur, curPkt, need = nil, -1, -1
			}
		}
	}
	for i := range r.Packets {
		k := &r.Packets[i]
		if k.Bad || k.PID != pid || k.Duplicate || k.PayloadOff >= 188 {
			continue
		}
		pl := data[i*188+k.PayloadOff : (i+1)*188]
		if k.PUSI {
			ptr := int(pl[0])
			if 1+ptr > len(pl) {
				r.errf(TSErrPSIPointer, i, pid, "pointer_field=%d beyond the payload (%d bytes)", ptr, len(pl)-1)
				cur, curPkt, need = nil, -1, -1
				continue
			}
			if cur != nil {
				feed(pl[1:1+ptr], i) // tail of the running section
				if cur != nil {
					flush()
				}
			}
			cur, curPkt, need = nil, -1, -1
			feed(pl[1+ptr:], i)
		} else if cur != nil {
			feed(pl, i)
		}
	}
	if cur != nil {
		flush()
	}
	return out
}

// sectionCommon checks the long-form section header + CRC and returns the body between the 8-byte header and the CRC.
func (r *TSResult) sectionCommon(s psiSection, pid int, wantTable uint8) (body []byte, idExt uint16, version uint8, curNext bool, secNo, lastSecNo uint8, crc uint32, crcOK, ok bool) {
	d := s.data
	if len(d) < 3 {
		r.errf(TSErrPSITruncated, s.pkt, pid, "section shorter than 3 bytes")
		return
	}
	if d[0] != wantTable {
		r.errf(TSErrPSISyntax, s.pkt, pid, "table_id=0x%02x, expected 0x%02x", d[0], wantTable)
		return
	}
	if d[1]&0x80 == 0 {
		r.errf(TSErrPSISyntax, s.pkt, pid, "section_syntax_indicator=0")
	}
	if d[1]&0x40 != 0 {
		r.errf(TSErrPSISyntax, s.pkt, pid, "'0' bit after section_syntax_indicator is 1")
	}
	sl := int(d[1]&0x0f)<<8 | int(d[2])
	if d[1]&0x0c != 0 {
		r.errf(TSErrPSISectionLength, s.pkt, pid, "first two bits of section_length not 00 (section_length=%d)", sl)
	}
	if sl < 9 || len(d) != 3+sl {
		r.errf(TSErrPSISectionLength, s.pkt, pid, "section_length=%d, have %d bytes", sl, len(d)-3)
		return
	}
	idExt = uint16(d[3])<<8 | uint16(d[4])
	version = d[5] >> 1 & 0x1f
	curNext = d[5]&1 != 0
	secNo, lastSecNo = d[6], d[7]
	crc = uint32(d[len(d)-4])<<24 | uint32(d[len(d)-3])<<16 | uint32(d[len(d)-2])<<8 | uint32(d[len(d)-1])
	calc := CRC32MPEG2(d[:len(d)-4])
	crcOK = calc == crc
	if !crcOK {
		r.errf(TSErrPSICRC, s.pkt, pid, "table 0x%02x: CRC_32 field %08x, computed %08x", d[0], crc, calc)
	}
	body = d[8 : len(d)-4]
	ok = true
	return
}

func (r *TSResult) parsePAT(s psiSection) {
	body, id, ver, cn, sn, lsn, crc, crcOK, ok := r.sectionCommon(s, 0, 0x00)
	if !ok {
		return
	}
	pat := PATInfo{PacketIndex: s.pkt, TransportStreamID: id, Version: ver, CurrentNext: cn, SectionNumber: sn,
		LastSectionNumber: lsn, CRC: crc, CRCOK: crcOK}
	if len(body)%4 != 0 {
		r.errf(TSErrPSISectionLength, s.pkt, 0, "PAT program loop is %d bytes, not a multiple of 4", len(body))
	}
	for i := 0; i+4 <= len(body); i += 4 {
		pat.Programs = append(pat.Programs, PATProgram{ProgramNumber: uint16(body[i])<<8 | uint16(body[i+1]),
			PID: int(body[i+2]&0x1f)<<8 | int(body[i+3])})
	}
	for _, prev := range r.PATs {
		if prev.Version == pat.Version && prev.SectionNumber == pat.SectionNumber && prev.CRC != pat.CRC {
			r.errf(TSErrPSIInconsistent, s.pkt, 0, "PAT version %d repeated with different content", pat.Version)
			break
		}
	}
	r.PATs = append(r.PATs, pat)
}

func (r *TSResult) parsePMT(s psiSection, pid int) (PMTInfo, bool) {
	body, id, ver, cn, _, _, crc, crcOK, ok := r.sectionCommon(s, pid, 0x02)
	if !ok {
		return PMTInfo{}, false
	}
	m := PMTInfo{PacketIndex: s.pkt, PID: pid, ProgramNumber: id, Version: ver, CurrentNext: cn, CRC: crc, CRCOK: crcOK, PCRPID: -1}
	if len(body) < 4 {
		r.errf(TSErrPMTBody, s.pkt, pid, "PMT body %d bytes", len(body))
		return m, true
	}
	m.PCRPID = int(body[0]&0x1f)<<8 | int(body[1])
	pil := int(body[2]&0x0f)<<8 | int(body[3])
	if 4+pil > len(body) {
		r.errf(TSErrPMTBody, s.pkt, pid, "program_info_length=%d beyond the section", pil)
		return m, true
	}
	m.ProgramInfo = body[4 : 4+pil]
	q := 4 + pil
	for q < len(body) {
		if q+5 > len(body) {
			r.errf(TSErrPMTBody, s.pkt, pid, "ES loop entry truncated at offset %d", q)
			break
		}
		es := PMTStream{StreamType: body[q], PID: int(body[q+1]&0x1f)<<8 | int(body[q+2])}
		eil := int(body[q+3]&0x0f)<<8 | int(body[q+4])
		if q+5+eil > len(body) {
			r.errf(TSErrPMTBody, s.pkt, pid, "ES_info_length=%d beyond the section", eil)
			break
		}
		es.Descriptors = body[q+5 : q+5+eil]
		m.Streams = append(m.Streams, es)
		q += 5 + eil
	}
	return m, true
}

func (r *TSResult) reassemblePES(data []byte, pmtPIDs map[int]uint16) {
	cur := map[int]*PES{}
	warnedNoStart := map[int]bool{}
	warnedUnknown := map[int]bool{}
	finish := func(p *PES) {
		r.parsePES(p)
		p.raw = nil
	}
	for i := range r.Packets {
		k := &r.Packets[i]
		if k.Bad || k.PID == 0x1fff || k.PID == 0 || k.Duplicate {
			continue
		}
		if _, isPMT := pmtPIDs[k.PID]; isPMT {
			continue
		}
		st, known := r.StreamTypes[k.PID]
		if !known {
			if k.PID < 0x10 { // reserved / CAT / TSDT etc.
				continue
			}
			if !warnedUnknown[k.PID] {
				warnedUnknown[k.PID] = true
				r.errf(TSErrPIDUnannounced, i, k.PID, "packet on a PID that is not in the PAT/PMT")
			}
			continue
		}
		if k.PayloadOff >= 188 {
			continue
		}
		pl := data[i*188+k.PayloadOff : (i+1)*188]
		if k.PUSI {
			if p := cur[k.PID]; p != nil {
				finish(p)
			}
			p := &PES{PID: k.PID, StreamType: st, PacketIndex: i, RandomAccess: k.RandomAccess, FirstAFLen: k.AFLen,
				FirstStuffing: k.StuffingBytes}
			if k.HasPCR {
				v := k.PCR27()
				p.PCR = &v
				p.PCRBase = k.PCRBase
			}
			cur[k.PID] = p
			r.PES = append(r.PES, p)
		}
		p := cur[k.PID]
		if p == nil {
			if !warnedNoStart[k.PID] {
				warnedNoStart[k.PID] = true
				r.errf(TSErrPESNoStart, i, k.PID, "payload before the first payload_unit_start_indicator")
			}
			continue
		}
		p.raw = append(p.raw, pl...)
		p.NPackets++
		p.LastAFLen = k.AFLen
		p.LastStuffing = k.StuffingBytes
	}
	for _, p := range r.PES {
		if p.raw != nil {
			finish(p)
		}
	}
}

// streamIDHasOptionalHeader: 2.4.3.7 — these stream_ids carry PES_packet_data_byte right after the length.
func streamIDHasOptionalHeader(id uint8) bool {
	switch id {
	case 0xbc, 0xbe, 0xbf, 0xf0, 0xf1, 0xff, 0xf2, 0xf8:
		return false
	}
	return true
}

func isVideoStreamID(id uint8) bool { return id >= 0xe0 && id <= 0xef }

func (r *TSResult) parsePES(p *PES) {
	b := p.raw
	if len(b) < 6 {
		r.errf(TSErrPESTruncated, p.PacketIndex, p.PID, "PES has %d bytes, fixed header needs 6", len(b))
		return
	}
	if b[0] != 0 || b[1] != 0 || b[2] != 1 {
		r.errf(TSErrPESStartCode, p.PacketIndex, p.PID, "payload at unit start begins %02x %02x %02x", b[0], b[1], b[2])
		return
	}
	p.StreamID = b[3]
	p.PacketLength = int(b[4])<<8 | int(b[5])
	carried := len(b) - 6
	if p.PacketLength != 0 {
		if carried != p.PacketLength {
			r.errf(TSErrPESLength, p.PacketIndex, p.PID, "PES_packet_length=%d but %d bytes follow the field until the next unit start", p.PacketLength, carried)
		}
	} else if !isVideoStreamID(p.StreamID) {
		r.errf(TSErrPESLengthZero, p.PacketIndex, p.PID, "PES_packet_length=0 on stream_id 0x%02x (only allowed for video)", p.StreamID)
	}
	end := len(b)
	if p.PacketLength != 0 && 6+p.PacketLength < end {
		end = 6 + p.PacketLength
	}
	if !streamIDHasOptionalHeader(p.StreamID) {
		p.HeaderOK = true
		p.Data = b[6:end]
		return
	}
	p.HasOptionalHdr = true
	if len(b) < 9 {
		r.errf(TSErrPESTruncated, p.PacketIndex, p.PID, "PES has %d bytes, optional header needs 9", len(b))
		return
	}
	if b[6]&0xc0 != 0x80 {
		r.errf(TSErrPESMarker, p.PacketIndex, p.PID, "byte after PES_packet_length is 0x%02x, top bits must be '10'", b[6])
	}
	if b[6]&0x30 != 0 {
		r.errf(TSErrPESScrambled, p.PacketIndex, p.PID, "PES_scrambling_control=%d", b[6]>>4&3)
	}
	p.DataAlignment = b[6]&0x04 != 0
	flags := b[7]
	hdl := int(b[8])
	p.HeaderDataLength = hdl
	if 9+hdl > end {
		r.errf(TSErrPESHeaderDataLen, p.PacketIndex, p.PID, "PES_header_data_length=%d beyond the PES packet (%d bytes)", hdl, end)
		return
	}
	q := 9
	need := 0
	switch flags >> 6 {
	case 2:
		need = 5
	case 3:
		need = 10
	case 1:
		r.errf(TSErrPESFlagsForbidden, p.PacketIndex, p.PID, "PTS_DTS_flags='01' is forbidden")
	}
	// other optional fields (fixed sizes) that precede stuffing
	other := 0
	if flags&0x20 != 0 {
		other += 6 // ESCR
	}
	if flags&0x10 != 0 {
		other += 3 // ES_rate
	}
	if flags&0x08 != 0 {
		other++ // DSM trick mode
	}
	if flags&0x04 != 0 {
		other++ // additional copy info
	}
	if flags&0x02 != 0 {
		other += 2 // PES CRC
	}
	if flags&0x01 != 0 {
		other++ // at least the PES_extension flags byte
	}
	if need+other > hdl {
		r.errf(TSErrPESHeaderDataLen, p.PacketIndex, p.PID, "PES_header_data_length=%d but flags 0x%02x need at least %d bytes", hdl, flags, need+other)
		return
	}
	readTS := func(o int, wantPrefix uint8, name string) uint64 {
		x := b[o : o+5]
		if x[0]>>4 != wantPrefix {
			r.errf(TSErrPESTSPrefix, p.PacketIndex, p.PID, "%s prefix bits %04b, expected %04b", name, x[0]>>4, wantPrefix)
		}
		if x[0]&1 == 0 || x[2]&1 == 0 || x[4]&1 == 0 {
			r.errf(TSErrPESTSMarker, p.PacketIndex, p.PID, "%s marker bits %d%d%d, expected 111", name, x[0]&1, x[2]&1, x[4]&1)
		}
		return uint64(x[0]>>1&7)<<30 | uint64(x[1])<<22 | uint64(x[2]>>1)<<15 | uint64(x[3])<<7 | uint64(x[4]>>1)
	}
	switch flags >> 6 {
	case 2:
		p.HasPTS = true
		p.PTS = readTS(q, 2, "PTS")
		p.DTS = p.PTS
	case 3:
		p.HasPTS, p.HasDTS = true, true
		p.PTS = readTS(q, 3, "PTS")
		p.DTS = readTS(q+5, 1, "DTS")
	}
	p.HeaderOK = true
	p.Data = b[9+hdl : end]
}

// ---------------------------------------------------------------------------------------------
// H.264 Annex B byte stream

// AnnexBUnit is one NAL unit found in a byte stream.
type AnnexBUnit struct {
	Offset       int // offset of the first NAL byte (after the start code)
	StartCodeLen int // 3, or 4 when a zero_byte precedes the 3-byte prefix (more leading zeros are not counted)
	Data         []byte
}

// SplitAnnexBDetailed splits an Annex-B byte stream at 3-byte start code prefixes (00 00 01); a preceding
// zero byte makes it a 4-byte start code. Trailing zero bytes of a unit (trailing_zero_8bits / the zero_byte of
// the next start code) are not part of the NAL unit. leading holds any non-zero-terminated bytes before the
// first start code (must be empty — or only zeros — in a conforming stream; zeros are dropped).
func SplitAnnexBDetailed(b []byte) (units []AnnexBUnit, leading []byte) {
	n := len(b)
	// positions of 00 00 01
	var starts []int
	for i := 0; i+3 <= n; {
		if b[i] == 0 && b[i+1] == 0 && b[i+2] == 1 {
			starts = append(starts, i)
			i += 3
		} else {
			i++
		}
	}
	trim := func(x []byte) []byte {
		for len(x) > 0 && x[len(x)-1] == 0 {
			x = x[:len(x)-1]
		}
		return x
	}
	if len(starts) == 0 {
		return nil, trim(b)
	}
	leading = trim(b[:starts[0]])
	for si, s := range starts {
		end := n
		if si+1 < len(starts) {
			end = starts[si+1]
		}
		u := AnnexBUnit{Offset: s + 3, StartCodeLen: 3}
		if s > 0 && b[s-1] == 0 {
			u.StartCodeLen = 4
		}
		u.Data = trim(b[s+3 : end])
		units = append(units, u)
	}
	return units, leading
}

// SplitAnnexB returns the NAL units of an Annex-B byte stream (bytes before the first start code are dropped).
func SplitAnnexB(b []byte) [][]byte {
	us, _ := SplitAnnexBDetailed(b)
	out := make([][]byte, 0, len(us))
	for _, u := range us {
		out = append(out, u.Data)
	}
	return out
}

// ---------------------------------------------------------------------------------------------
// ADTS (ISO/IEC 13818-7 6.2 / 14496-3 1.A.2)

// ADTSFrame is one adts_frame().
type ADTSFrame struct {
	Offset           int
	ID               uint8 // 0 = MPEG-4, 1 = MPEG-2
	Layer            uint8
	ProtectionAbsent bool
	Profile          uint8 // profile_ObjectType (audio object type - 1)
	SamplingIndex    uint8
	PrivateBit       bool
	ChannelConfig    uint8
	FrameLength      int // including the header
	BufferFullness   uint16
	NumRawBlocks     uint8 // number_of_raw_data_blocks_in_frame (0 = one block)
	HeaderLen        int   // 7, or 9 with CRC
	Payload          []byte
}

// ADTSError carries a stable code.
type ADTSError struct {
	Code   string // adts.truncated-header | adts.syncword | adts.layer | adts.sampling-index | adts.frame-length | adts.truncated-frame
	Offset int
	Msg    string
}

func (e *ADTSError) Error() string {
	return fmt.Sprintf("%s at offset %d: %s", e.Code, e.Offset, e.Msg)
}

// ParseADTS parses data as a gap-free chain of ADTS frames. Frames parsed before an error are returned with it.
func ParseADTS(b []byte) ([]ADTSFrame, error) {
	var out []ADTSFrame
	o := 0
	for o < len(b) {
		if len(b)-o < 7 {
			return out, &ADTSError{"adts.truncated-header", o, fmt.Sprintf("%d bytes left, header needs 7", len(b)-o)}
		}
		h := b[o:]
		if h[0] != 0xff || h[1]&0xf0 != 0xf0 {
			return out, &ADTSError{"adts.syncword", o, fmt.Sprintf("bytes %02x %02x", h[0], h[1])}
		}
		f := ADTSFrame{Offset: o}
		f.ID = h[1] >> 3 & 1
		f.Layer = h[1] >> 1 & 3
		f.ProtectionAbsent = h[1]&1 != 0
		f.Profile = h[2] >> 6
		f.SamplingIndex = h[2] >> 2 & 0x0f
		f.PrivateBit = h[2]&2 != 0
		f.ChannelConfig = h[2]&1<<2 | h[3]>>6
		f.FrameLength = int(h[3]&3)<<11 | int(h[4])<<3 | int(h[5]>>5)
		f.BufferFullness = uint16(h[5]&0x1f)<<6 | uint16(h[6]>>2)
		f.NumRawBlocks = h[6] & 3
		f.HeaderLen = 7
		if !f.ProtectionAbsent {
			f.HeaderLen = 9
		}
		if f.Layer != 0 {
			return out, &ADTSError{"adts.layer", o, fmt.Sprintf("layer=%d, must be 0", f.Layer)}
		}
		if f.SamplingIndex > 12 {
			return out, &ADTSError{"adts.sampling-index", o, fmt.Sprintf("sampling_frequency_index=%d is reserved", f.SamplingIndex)}
		}
		if f.FrameLength < f.HeaderLen {
			return out, &ADTSError{"adts.frame-length", o, fmt.Sprintf("aac_frame_length=%d smaller than the %d-byte header", f.FrameLength, f.HeaderLen)}
		}
		if o+f.FrameLength > len(b) {
			return out, &ADTSError{"adts.truncated-frame", o, fmt.Sprintf("aac_frame_length=%d but only %d bytes left", f.FrameLength, len(b)-o)}
		}
		f.Payload = b[o+f.HeaderLen : o+f.FrameLength]
		out = append(out, f)
		o += f.FrameLength
	}
	return out, nil
}
