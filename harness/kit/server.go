package kit

import (
	"context"
	"encoding/json"
	"fmt"
	"io"
	"net"
	"net/http"
	"strings"
	"sync"
	"time"

	"github.com/cnotch/ipchub/config"
	"github.com/cnotch/ipchub/media"
	"github.com/cnotch/ipchub/service"
	"github.com/cnotch/ipchub/stats"
	"github.com/cnotch/xlog"
)

// Server is the real ipchub service running inside the harness process on a loopback port.
type Server struct {
	Addr string // host:port
	Svc  *service.Service
}

var (
	srvOnce sync.Mutex
	srv     *Server
)

// FreePort returns a currently free loopback TCP port.
func FreePort() int {
	l, err := net.Listen("tcp", "127.0.0.1:0")
	if err != nil {
		panic(err)
	}
	p := l.Addr().(*net.TCPAddr).Port
	l.Close()
	return p
}

// StartServer brings the real service up once per process: config.VerifSet installs the configuration,
// service.NewService builds the real HTTP mux / RTSP / WSP handlers, VerifListen calls the real listen()
// (real listener.Listener with MatchRTSP / MatchHTTP). Later calls return the same server; the auth
// flag and GOP cache can be switched with config.VerifSet at any time (they are read per request/stream).
func StartServer(authOn, cacheGop bool, netTimeout time.Duration) *Server {
	srvOnce.Lock()
	defer srvOnce.Unlock()
	config.VerifSet(authOn, cacheGop, "", 5)
	if netTimeout > 0 {
		config.VerifSetNetTimeout(netTimeout)
	}
	if srv != nil {
		return srv
	}
	InstallHooks()
	s, err := service.NewService(context.Background(), xlog.L())
	if err != nil {
		panic(err)
	}
	var addr *net.TCPAddr
	for try := 0; try < 20; try++ {
		port := FreePort()
		addr = &net.TCPAddr{IP: net.IPv4(127, 0, 0, 1), Port: port}
		ok := func() (ok bool) {
			defer func() {
				if r := recover(); r != nil {
					ok = false
				}
			}()
			s.VerifListen(addr)
			return true
		}()
		if ok {
			break
		}
	}
	srv = &Server{Addr: addr.String(), Svc: s}
	// wait until the listener accepts
	for i := 0; i < 200; i++ {
		c, err := net.DialTimeout("tcp", srv.Addr, 200*time.Millisecond)
		if err == nil {
			c.Close()
			break
		}
		time.Sleep(5 * time.Millisecond)
	}
	return srv
}

// URL returns rtsp://addr + path.
func (s *Server) URL(path string) string { return "rtsp://" + s.Addr + path }

// HTTP performs an HTTP request against the server and returns status and body (body capped).
// ExtraHTTPHeader, when set, is added to every HTTP request and WebSocket handshake the kit's clients send
// (hostile clients: headers a normal client never sends).
var ExtraHTTPHeader http.Header

func (s *Server) HTTP(method, pathAndQuery string, body string) (int, []byte, error) {
	req, err := http.NewRequest(method, "http://"+s.Addr+pathAndQuery, strings.NewReader(body))
	if err != nil {
		return 0, nil, err
	}
	for k, v := range ExtraHTTPHeader {
		req.Header[k] = v
	}
	cl := &http.Client{Timeout: 60 * time.Second}
	resp, err := cl.Do(req)
	if err != nil {
		return 0, nil, err
	}
	defer resp.Body.Close()
	b, _ := io.ReadAll(io.LimitReader(resp.Body, 8<<20))
	return resp.StatusCode, b, nil
}

// Login obtains an access/refresh token pair through POST /api/v1/login.
func (s *Server) Login(user, pass string) (access, refresh string, code int) {
	b, _ := json.Marshal(map[string]string{"username": user, "password": pass})
	code, body, err := s.HTTP("POST", "/api/v1/login", string(b))
	if err != nil || code != 200 {
		return "", "", code
	}
	var t struct {
		A string `json:"access_token"`
		R string `json:"refresh_token"`
	}
	json.Unmarshal(body, &t)
	return t.A, t.R, code
}

// Counters is a snapshot of the process-wide ledgers the properties talk about.
type Counters struct {
	Rtsp, Flv, Wsp     int64
	Streams, Consumers int
}

// Snapshot reads the connection counters and registry counts directly.
func Snapshot() Counters {
	sc, cc := media.Count()
	return Counters{Rtsp: stats.RtspConns.GetSample().Active, Flv: stats.FlvConns.GetSample().Active,
		Wsp: stats.WspConns.GetSample().Active, Streams: sc, Consumers: cc}
}

func (c Counters) String() string {
	return fmt.Sprintf("rtsp=%d flv=%d wsp=%d streams=%d consumers=%d", c.Rtsp, c.Flv, c.Wsp, c.Streams, c.Consumers)
}
