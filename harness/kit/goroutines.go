package kit

import (
	"regexp"
	"runtime"
	"strings"
)

// GInfo describes one goroutine from a full stack dump.
type GInfo struct {
	ID    string
	State string   // e.g. "sync.Cond.Wait", "chan receive", "IO wait", "running", "runnable", "select"
	Funcs []string // function names, innermost first
	Raw   string
}

var gHdr = regexp.MustCompile(`^goroutine (\d+) \[([^\]]+)\]:`)

// Goroutines parses runtime.Stack(all).
func Goroutines() []GInfo {
	buf := make([]byte, 1<<20)
	for {
		n := runtime.Stack(buf, true)
		if n < len(buf) {
			buf = buf[:n]
			break
		}
		buf = make([]byte, 2*len(buf))
	}
	var out []GInfo
	for _, blk := range strings.Split(string(buf), "\n\n") {
		lines := strings.Split(blk, "\n")
		m := gHdr.FindStringSubmatch(lines[0])
		if m == nil {
			continue
		}
		st := m[2]
		if i := strings.IndexByte(st, ','); i >= 0 {
			st = st[:i]
		}
		g := GInfo{ID: m[1], State: st, Raw: blk}
		for _, l := range lines[1:] {
			if strings.HasPrefix(l, "\t") || strings.HasPrefix(l, "created by") {
				continue
			}
			if i := strings.LastIndexByte(l, '('); i > 0 {
				g.Funcs = append(g.Funcs, l[:i])
			}
		}
		out = append(out, g)
	}
	return out
}

// Has reports whether the goroutine's stack contains a function whose name contains sub.
func (g GInfo) Has(sub string) bool {
	for _, f := range g.Funcs {
		if strings.Contains(f, sub) {
			return true
		}
	}
	return false
}

// FindGoroutines returns goroutines whose stack contains sub.
func FindGoroutines(sub string) []GInfo {
	var out []GInfo
	for _, g := range Goroutines() {
		if g.Has(sub) {
			out = append(out, g)
		}
	}
	return out
}

// CountByFunc counts goroutines per marker substring.
func CountByFunc(markers []string) map[string]int {
	out := map[string]int{}
	for _, g := range Goroutines() {
		for _, m := range markers {
			if g.Has(m) {
				out[m]++
			}
		}
	}
	return out
}
