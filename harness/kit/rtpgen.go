package kit

import (
	"encoding/binary"
	"hash/crc32"
	"math/rand"

	"github.com/cnotch/ipchub/av/format/rtp"
)

// Independent RTP packetiser (RFC 6184 H.264, RFC 7798 H.265, RFC 3640 AAC-hbr), written for
// the harness; shares no logic with ipchub's depacketisers. It only uses ipchub's rtp.Packet
// *type* because that is the input type of the system under test.

// Channel indices as ipchub defines them.
const (
	ChVideo  = 0
	ChVideoC = 1
	ChAudio  = 2
	ChAudioC = 3
)

// SDPs taken from the repository's own test fixtures.
const SDPH264AAC = "v=0\r\no=- 0 0 IN IP4 127.0.0.1\r\ns=No Name\r\nc=IN IP4 127.0.0.1\r\nt=0 0\r\na=tool:libavformat 58.20.100\r\n" +
	"m=video 0 RTP/AVP 96\r\nb=AS:2500\r\na=rtpmap:96 H264/90000\r\n" +
	"a=fmtp:96 packetization-mode=1; sprop-parameter-sets=Z2QAH6zZQFAFuhAAAAMAEAAAAwPI8YMZYA==,aO+8sA==; profile-level-id=64001F\r\na=control:streamid=0\r\n" +
	"m=audio 0 RTP/AVP 97\r\nb=AS:160\r\na=rtpmap:97 MPEG4-GENERIC/44100/2\r\n" +
	"a=fmtp:97 profile-level-id=1;mode=AAC-hbr;sizelength=13;indexlength=3;indexdeltalength=3; config=121056E500\r\na=control:streamid=1\r\n"

const SDPH264Only = "v=0\r\no=- 0 0 IN IP4 127.0.0.1\r\ns=No Name\r\nc=IN IP4 127.0.0.1\r\nt=0 0\r\n" +
	"m=video 0 RTP/AVP 96\r\nb=AS:2500\r\na=rtpmap:96 H264/90000\r\n" +
	"a=fmtp:96 packetization-mode=1; sprop-parameter-sets=Z2QAH6zZQFAFuhAAAAMAEAAAAwPI8YMZYA==,aO+8sA==; profile-level-id=64001F\r\na=control:streamid=0\r\n"

const SDPH265AAC = "v=0\r\no=- 0 0 IN IP4 127.0.0.1\r\ns=No Name\r\nc=IN IP4 127.0.0.1\r\nt=0 0\r\n" +
	"m=video 0 RTP/AVP 96\r\na=rtpmap:96 H265/90000\r\n" +
	"a=fmtp:96 sprop-vps=QAEMAf//BAgAAAMAnQgAAAMAAF26AkA=; sprop-sps=QgEBBAgAAAMAnQgAAAMAAF2wAoCALRZbqSTK4BAAAAMAEAAAAwHggA==; sprop-pps=RAHBcrRiQA==\r\na=control:streamid=0\r\n" +
	"m=audio 0 RTP/AVP 97\r\nb=AS:160\r\na=rtpmap:97 MPEG4-GENERIC/44100/2\r\n" +
	"a=fmtp:97 profile-level-id=1;mode=AAC-hbr;sizelength=13;indexlength=3;indexdeltalength=3; config=121056E500\r\na=control:streamid=1\r\n"

// MakeRTP builds an ipchub rtp.Packet from raw fields (12-byte RTP header, version 2, no CSRC/extension).
func MakeRTP(ch byte, pt uint8, marker bool, seq uint16, ts uint32, ssrc uint32, payload []byte) *rtp.Packet {
	raw := make([]byte, 12+len(payload))
	raw[0] = 0x80
	raw[1] = pt & 0x7f
	if marker {
		raw[1] |= 0x80
	}
	binary.BigEndian.PutUint16(raw[2:], seq)
	binary.BigEndian.PutUint32(raw[4:], ts)
	binary.BigEndian.PutUint32(raw[8:], ssrc)
	copy(raw[12:], payload)
	p := &rtp.Packet{Channel: ch, Data: raw}
	if ch == ChVideo || ch == ChAudio {
		if err := p.Header.Unmarshal(raw); err != nil {
			panic("harness bug: cannot unmarshal own RTP header: " + err.Error())
		}
	}
	return p
}

// MakeControl builds a control-channel (RTCP) packet with opaque data.
func MakeControl(ch byte, data []byte) *rtp.Packet {
	return &rtp.Packet{Channel: ch, Data: append([]byte(nil), data...)}
}

// RTCPSR builds a 28-byte RTCP sender report.
func RTCPSR(ssrc uint32, ntpSec, ntpFrac, rtpTS, pkts, octets uint32) []byte {
	b := make([]byte, 28)
	b[0] = 0x80
	b[1] = 200
	binary.BigEndian.PutUint16(b[2:], 6)
	binary.BigEndian.PutUint32(b[4:], ssrc)
	binary.BigEndian.PutUint32(b[8:], ntpSec)
	binary.BigEndian.PutUint32(b[12:], ntpFrac)
	binary.BigEndian.PutUint32(b[16:], rtpTS)
	binary.BigEndian.PutUint32(b[20:], pkts)
	binary.BigEndian.PutUint32(b[24:], octets)
	return b
}

// FillBody fills b with bytes in 0x10..0xff (no start codes / emulation issues) derived from id,
// and, when there is room, embeds id (8 bytes) and a CRC-32 of the rest so tearing is detectable.
func FillBody(b []byte, id uint64) {
	x := id*0x9E3779B97F4A7C15 + 0x1234567
	for i := range b {
		x ^= x << 13
		x ^= x >> 7
		x ^= x << 17
		b[i] = byte(0x10 + (x>>32)%0xf0)
	}
	if len(b) >= 12 {
		binary.BigEndian.PutUint64(b[0:], id)
		binary.BigEndian.PutUint32(b[8:], crc32.ChecksumIEEE(b[12:]))
	}
}

// CheckBody verifies a body produced by FillBody (len>=12): returns the id and whether the CRC holds.
func CheckBody(b []byte) (id uint64, ok bool) {
	if len(b) < 12 {
		return 0, false
	}
	id = binary.BigEndian.Uint64(b[0:])
	return id, binary.BigEndian.Uint32(b[8:]) == crc32.ChecksumIEEE(b[12:])
}

// H264NAL builds a NAL unit: header (nri, type) + body of n-1 bytes carrying id.
func H264NAL(nri, typ byte, n int, id uint64) []byte {
	if n < 1 {
		n = 1
	}
	b := make([]byte, n)
	b[0] = (nri&3)<<5 | typ&0x1f
	FillBody(b[1:], id)
	return b
}

// H265NAL builds an H.265 NAL unit: 2-byte header (type, layer 0, tid) + body.
func H265NAL(typ byte, tid byte, n int, id uint64) []byte {
	if n < 2 {
		n = 2
	}
	b := make([]byte, n)
	b[0] = (typ & 0x3f) << 1
	b[1] = tid & 7
	if b[1] == 0 {
		b[1] = 1
	}
	FillBody(b[2:], id)
	return b
}

// H264StapA aggregates NAL units into one STAP-A payload (NRI = max of the units, F = 0).
func H264StapA(nals [][]byte) []byte {
	var nri byte
	for _, n := range nals {
		if v := (n[0] >> 5) & 3; v > nri {
			nri = v
		}
	}
	out := []byte{nri<<5 | 24}
	for _, n := range nals {
		out = append(out, byte(len(n)>>8), byte(len(n)))
		out = append(out, n...)
	}
	return out
}

// H264FuA fragments one NAL unit into FU-A payloads with at most frag bytes of NAL data each.
func H264FuA(nal []byte, frag int) [][]byte {
	ind := nal[0]&0xe0 | 28
	typ := nal[0] & 0x1f
	data := nal[1:]
	var out [][]byte
	for off := 0; off < len(data) || off == 0; off += frag {
		end := off + frag
		if end > len(data) {
			end = len(data)
		}
		h := typ
		if off == 0 {
			h |= 0x80
		}
		if end == len(data) {
			h |= 0x40
		}
		p := append([]byte{ind, h}, data[off:end]...)
		out = append(out, p)
		if end == len(data) {
			break
		}
	}
	return out
}

// H265AP aggregates NAL units into one AP payload (type 48, layer 0, tid = min of the units).
func H265AP(nals [][]byte) []byte {
	tid := byte(7)
	for _, n := range nals {
		if t := n[1] & 7; t < tid {
			tid = t
		}
	}
	out := []byte{48 << 1, tid}
	for _, n := range nals {
		out = append(out, byte(len(n)>>8), byte(len(n)))
		out = append(out, n...)
	}
	return out
}

// H265FU fragments one NAL unit into FU payloads (type 49).
func H265FU(nal []byte, frag int) [][]byte {
	typ := (nal[0] >> 1) & 0x3f
	h0 := nal[0]&0x81 | 49<<1
	h1 := nal[1]
	data := nal[2:]
	var out [][]byte
	for off := 0; ; off += frag {
		end := off + frag
		if end > len(data) {
			end = len(data)
		}
		fh := typ
		if off == 0 {
			fh |= 0x80
		}
		if end == len(data) {
			fh |= 0x40
		}
		out = append(out, append([]byte{h0, h1, fh}, data[off:end]...))
		if end == len(data) {
			break
		}
	}
	return out
}

// AACHbr builds an RFC 3640 AAC-hbr payload (sizelength 13, indexlength 3) from AUs.
func AACHbr(aus [][]byte) []byte {
	out := []byte{byte(len(aus) * 16 >> 8), byte(len(aus) * 16)}
	for _, au := range aus {
		h := uint16(len(au)) << 3
		out = append(out, byte(h>>8), byte(h))
	}
	for _, au := range aus {
		out = append(out, au...)
	}
	return out
}

// AACAU builds an AAC access unit body of n bytes carrying id.
func AACAU(n int, id uint64) []byte {
	b := make([]byte, n)
	FillBody(b, id)
	return b
}

// SplitSizes cuts total into random positive chunk sizes.
func SplitSizes(rng *rand.Rand, total, maxChunk int) []int {
	var out []int
	for total > 0 {
		n := 1 + rng.Intn(maxChunk)
		if n > total {
			n = total
		}
		out = append(out, n)
		total -= n
	}
	return out
}
