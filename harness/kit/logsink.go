package kit

import (
	"regexp"
	"strings"
	"sync"

	"github.com/cnotch/xlog"
)

// LogSink captures ipchub's log: the only trace a recovered panic leaves.
type LogSink struct {
	mu     sync.Mutex
	Panics []string // first ipchub frame of each recovered panic
	Errors int
	Warns  int
	Lines  []string // error lines (bounded)
}

var frameRe = regexp.MustCompile(`github\.com/cnotch/ipchub/([\w/\.\(\)\*]+)\(`)

func (s *LogSink) Enabled(l xlog.Level) bool { return l >= xlog.WarnLevel }
func (s *LogSink) Sync() error               { return nil }
func (s *LogSink) Write(e xlog.Entry) error {
	s.mu.Lock()
	defer s.mu.Unlock()
	if e.Level == xlog.WarnLevel {
		s.Warns++
		return nil
	}
	s.Errors++
	if len(s.Lines) < 200 {
		m := e.Message
		if len(m) > 300 {
			m = m[:300]
		}
		s.Lines = append(s.Lines, m)
	}
	if strings.Contains(e.Message, "panic") {
		site := "unknown"
		// first ipchub frame after the runtime panic frames
		idx := strings.Index(e.Message, "panic(")
		msg := e.Message
		if idx >= 0 {
			msg = msg[idx:]
		}
		for _, m := range frameRe.FindAllStringSubmatch(msg, -1) {
			if strings.Contains(m[1], "func1") && strings.Contains(m[1], "process") {
				continue
			}
			site = m[1]
			break
		}
		s.Panics = append(s.Panics, site)
	}
	return nil
}

// Snapshot returns and clears the recorded panic sites.
func (s *LogSink) TakePanics() []string {
	s.mu.Lock()
	defer s.mu.Unlock()
	p := s.Panics
	s.Panics = nil
	return p
}

// NPanics returns the number of recorded panics.
func (s *LogSink) NPanics() int {
	s.mu.Lock()
	defer s.mu.Unlock()
	return len(s.Panics)
}

// Log is the process-wide sink installed by InstallLogSink.
var Log = &LogSink{}

// InstallLogSink routes ipchub's global logger into Log.
func InstallLogSink() {
	xlog.ReplaceGlobal(xlog.New(Log))
}
