package kit

// Independent, bounds-checked bit reader (used by checks to predict the cost of a hostile input before it is
// handed to the system under test; never used to decide a verdict). Shares no code with ipchub.

// BitReader reads bits MSB first; Err is set (and zeros are returned) once the data is exhausted.
type BitReader struct {
	buf []byte
	pos int
	Err bool
}

// NewBitReader reads from b.
func NewBitReader(b []byte) *BitReader { return &BitReader{buf: b} }

// U reads an n-bit unsigned value, n <= 64.
func (r *BitReader) U(n int) uint64 {
	var v uint64
	for i := 0; i < n; i++ {
		if r.pos >= len(r.buf)*8 {
			r.Err = true
			return 0
		}
		v = v<<1 | uint64(r.buf[r.pos>>3]>>(7-uint(r.pos&7))&1)
		r.pos++
	}
	return v
}

// Ue reads ue(v) (9.2). A prefix of 32 or more zero bits is not a valid code; like lenient decoders this reader then
// stops counting at 32, consumes one more bit and wraps the value to 32 bits (used for cost prediction only).
func (r *BitReader) Ue() uint64 {
	k := 0
	for {
		b := r.U(1)
		if r.Err {
			return 0
		}
		if !(b == 0 && k < 32) {
			break
		}
		k++
	}
	return (r.U(k) + (uint64(1)<<uint(k) - 1)) & 0xffffffff
}

// Skip skips n bits.
func (r *BitReader) Skip(n int) {
	r.pos += n
	if r.pos > len(r.buf)*8 {
		r.Err = true
	}
}

// StripEmulationPrevention removes emulation_prevention_three_byte (7.4.1): a 03 following 00 00.
func StripEmulationPrevention(nal []byte) []byte {
	out := make([]byte, 0, len(nal))
	zeros := 0
	for _, b := range nal {
		if zeros >= 2 && b == 3 {
			zeros = 0
			continue
		}
		out = append(out, b)
		if b == 0 {
			zeros++
		} else {
			zeros = 0
		}
	}
	return out
}
