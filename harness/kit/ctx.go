// Package kit holds the instruments shared by all property checks.
package kit

import (
	"encoding/json"
	"fmt"
	"hash/fnv"
	"math/rand"
	"os"
	"path/filepath"
	"sort"
	"sync"
	"time"
)

// Violation is one refuting observation.
type Violation struct {
	Sig    string                 `json:"sig"`    // canonical signature (clause:class[:site])
	Detail map[string]interface{} `json:"detail"` // witness
	Replay string                 `json:"replay"` // file holding the witness
	Count  int                    `json:"count"`
}

// Ctx is handed to every property check.
type Ctx struct {
	Prop    string
	Tier    string // quick | thorough
	Seed    int64
	Shard   int
	NShards int
	OutDir  string
	Rng     *rand.Rand

	mu           sync.Mutex
	evals        int64
	distinct     map[uint64]struct{}
	distinctN    int64
	samples      []interface{}
	maxSamples   int
	violations   map[string]*Violation
	inconclusive map[string]int
	counters     map[string]int64
	sets         map[string]map[string]int
	notes        map[string]interface{}
	start        time.Time
	curFile      *os.File
}

// NewCtx creates a context.
func NewCtx(prop, tier string, seed int64, shard, nshards int, outdir string) *Ctx {
	c := &Ctx{Prop: prop, Tier: tier, Seed: seed, Shard: shard, NShards: nshards, OutDir: outdir,
		Rng:          rand.New(rand.NewSource(seed*1000003 + int64(shard)*7919 + 17)),
		distinct:     map[uint64]struct{}{},
		violations:   map[string]*Violation{},
		inconclusive: map[string]int{},
		counters:     map[string]int64{},
		sets:         map[string]map[string]int{},
		notes:        map[string]interface{}{},
		maxSamples:   6,
		start:        time.Now(),
	}
	os.MkdirAll(filepath.Join(outdir, "replay"), 0o755)
	f, err := os.OpenFile(filepath.Join(outdir, fmt.Sprintf("cur.%d", shard)), os.O_CREATE|os.O_RDWR|os.O_TRUNC, 0o644)
	if err == nil {
		c.curFile = f
	}
	return c
}

// Thorough reports whether the thorough tier runs.
func (c *Ctx) Thorough() bool { return c.Tier == "thorough" }

// Pick returns q in the quick tier and t in the thorough tier.
func (c *Ctx) Pick(q, t int) int {
	if c.Thorough() {
		return t
	}
	return q
}

// SubRng derives a deterministic PRNG for a named sub-task.
func (c *Ctx) SubRng(name string, i int) *rand.Rand {
	h := fnv.New64a()
	fmt.Fprintf(h, "%s/%d/%d/%d", name, i, c.Seed, c.Shard)
	return rand.New(rand.NewSource(int64(h.Sum64() >> 1)))
}

// GlobalRng derives a PRNG that is identical in every shard (for building the shared case list).
func (c *Ctx) GlobalRng(name string, i int) *rand.Rand {
	h := fnv.New64a()
	fmt.Fprintf(h, "global/%s/%d/%d", name, i, c.Seed)
	return rand.New(rand.NewSource(int64(h.Sum64() >> 1)))
}

// Mine reports whether case index i belongs to this shard.
func (c *Ctx) Mine(i int) bool { return c.NShards <= 1 || i%c.NShards == c.Shard }

// Pre records the case about to run so that a process death leaves its input on disk.
func (c *Ctx) Pre(desc string) {
	if c.curFile == nil {
		return
	}
	c.mu.Lock()
	c.curFile.Truncate(0)
	c.curFile.WriteAt([]byte(desc), 0)
	c.mu.Unlock()
}

// Eval counts n evaluated cases.
func (c *Ctx) Eval(n int) {
	c.mu.Lock()
	c.evals += int64(n)
	c.mu.Unlock()
}

// Distinct records a non-trivial case under its distinguishing key.
func (c *Ctx) Distinct(key string) {
	h := fnv.New64a()
	h.Write([]byte(key))
	c.mu.Lock()
	c.distinct[h.Sum64()] = struct{}{}
	c.mu.Unlock()
}

// DistinctN adds n cases that are distinct by construction (enumerations).
func (c *Ctx) DistinctN(n int64) {
	c.mu.Lock()
	c.distinctN += n
	c.mu.Unlock()
}

// Sample keeps a few cases written out for the evidence file.
func (c *Ctx) Sample(v interface{}) {
	c.mu.Lock()
	if len(c.samples) < c.maxSamples {
		c.samples = append(c.samples, v)
	}
	c.mu.Unlock()
}

// Count adds to a named counter shown in the evidence.
func (c *Ctx) Count(name string, d int64) {
	c.mu.Lock()
	c.counters[name] += d
	c.mu.Unlock()
}

// SetAdd adds key to a named set (e.g. interleavings seen).
func (c *Ctx) SetAdd(name, key string) {
	c.mu.Lock()
	m := c.sets[name]
	if m == nil {
		m = map[string]int{}
		c.sets[name] = m
	}
	m[key]++
	c.mu.Unlock()
}

// Note stores a free-form coverage note.
func (c *Ctx) Note(k string, v interface{}) {
	c.mu.Lock()
	c.notes[k] = v
	c.mu.Unlock()
}

// Inconclusive records an inconclusive outcome (never folded into pass or fail).
func (c *Ctx) Inconclusive(reason string) {
	c.mu.Lock()
	c.inconclusive[reason]++
	c.mu.Unlock()
}

// Violation records a refuting observation with its witness.
func (c *Ctx) Violation(sig string, detail map[string]interface{}) {
	c.mu.Lock()
	defer c.mu.Unlock()
	v := c.violations[sig]
	if v != nil {
		v.Count++
		return
	}
	h := fnv.New32a()
	h.Write([]byte(sig))
	name := fmt.Sprintf("%s-%08x-s%d.json", c.Prop, h.Sum32(), c.Shard)
	path := filepath.Join(c.OutDir, "replay", name)
	w := map[string]interface{}{"property": c.Prop, "sig": sig, "seed": c.Seed, "shard": c.Shard,
		"nshards": c.NShards, "tier": c.Tier, "detail": detail}
	b, _ := json.MarshalIndent(w, "", " ")
	os.WriteFile(path, b, 0o644)
	c.violations[sig] = &Violation{Sig: sig, Detail: detail, Replay: path, Count: 1}
}

// NViolations returns the number of distinct violation signatures so far.
func (c *Ctx) NViolations() int {
	c.mu.Lock()
	defer c.mu.Unlock()
	return len(c.violations)
}

// Result is what one shard reports to the orchestrator.
type Result struct {
	Prop         string                 `json:"prop"`
	Shard        int                    `json:"shard"`
	Evaluations  int64                  `json:"evaluations"`
	DistinctHash []uint64               `json:"distinct_hashes"`
	DistinctN    int64                  `json:"distinct_n"`
	Samples      []interface{}          `json:"samples"`
	Violations   []*Violation           `json:"violations"`
	Inconclusive map[string]int         `json:"inconclusive"`
	Counters     map[string]int64       `json:"counters"`
	Sets         map[string][]string    `json:"sets"`
	Notes        map[string]interface{} `json:"notes"`
	WallS        float64                `json:"wall_s"`
	Done         bool                   `json:"done"`
}

// Finish writes the shard result.
func (c *Ctx) Finish() error {
	c.mu.Lock()
	defer c.mu.Unlock()
	if slow, expired := WaitStats(); slow+expired > 0 {
		c.counters["waits_extended_beyond_their_bound_then_satisfied"] += slow
		c.counters["waits_expired_after_extension"] += expired
	}
	r := Result{Prop: c.Prop, Shard: c.Shard, Evaluations: c.evals, DistinctN: c.distinctN,
		Samples: c.samples, Inconclusive: c.inconclusive, Counters: c.counters, Notes: c.notes,
		WallS: time.Since(c.start).Seconds(), Done: true, Sets: map[string][]string{}}
	for h := range c.distinct {
		r.DistinctHash = append(r.DistinctHash, h)
	}
	sort.Slice(r.DistinctHash, func(i, j int) bool { return r.DistinctHash[i] < r.DistinctHash[j] })
	for _, v := range c.violations {
		r.Violations = append(r.Violations, v)
	}
	sort.Slice(r.Violations, func(i, j int) bool { return r.Violations[i].Sig < r.Violations[j].Sig })
	for name, m := range c.sets {
		var ks []string
		for k := range m {
			ks = append(ks, k)
		}
		sort.Strings(ks)
		r.Sets[name] = ks
	}
	b, err := json.Marshal(r)
	if err != nil {
		return err
	}
	return os.WriteFile(filepath.Join(c.OutDir, fmt.Sprintf("result.%d.json", c.Shard)), b, 0o644)
}

// RunFunc is a property check entry point.
type RunFunc func(c *Ctx)

var registry = map[string]RunFunc{}

// Register adds a property check.
func Register(prop string, f RunFunc) { registry[prop] = f }

// Lookup finds a property check.
func Lookup(prop string) RunFunc { return registry[prop] }

// Props lists registered checks.
func Props() []string {
	var ps []string
	for p := range registry {
		ps = append(ps, p)
	}
	sort.Strings(ps)
	return ps
}
