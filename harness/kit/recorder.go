package kit

import (
	"hash/fnv"
	"sync"
	"sync/atomic"

	"github.com/cnotch/ipchub/av/format"
	"github.com/cnotch/ipchub/av/format/flv"
	"github.com/cnotch/ipchub/av/format/rtp"
)

// RecItem is one delivery observed by a recording consumer.
type RecItem struct {
	Tick int64         // logical clock at delivery
	Pack format.Packet // the object delivered (identity)
	Hash uint64        // hash of the bytes as seen at delivery time
	Ch   int           // RTP channel or -1
}

// RecConsumer is a media.Consumer that records everything it is given.
type RecConsumer struct {
	Name string

	mu     sync.Mutex
	items  []RecItem
	Closes int32 // number of Close calls
	CloseT int64 // tick of the first Close

	// behaviour
	Block     chan struct{} // when non-nil, Consume blocks on it (stalled consumer) until it is closed
	BlockFrom int           // start blocking at the k-th delivery (0-based)
	PanicAt   int           // panic at the k-th delivery (0 = never; 1-based)
	OnConsume func(n int)   // optional callback (n = deliveries so far), called outside the lock
	Notify    chan struct{} // optional: receives a token per delivery (non-blocking)
	OnClose   func()
}

// HashPack hashes the wire bytes of a packet.
func HashPack(p format.Packet) (uint64, int) {
	h := fnv.New64a()
	switch v := p.(type) {
	case *rtp.Packet:
		h.Write([]byte{v.Channel})
		h.Write(v.Data)
		return h.Sum64(), int(v.Channel)
	case *flv.Tag:
		h.Write([]byte{v.TagType, byte(v.Timestamp >> 24), byte(v.Timestamp >> 16), byte(v.Timestamp >> 8), byte(v.Timestamp)})
		h.Write(v.Data)
		return h.Sum64(), -1
	}
	return 0, -1
}

// Consume implements media.Consumer.
func (r *RecConsumer) Consume(p format.Packet) {
	hs, ch := HashPack(p)
	r.mu.Lock()
	r.items = append(r.items, RecItem{Tick: H.Tick(), Pack: p, Hash: hs, Ch: ch})
	n := len(r.items)
	r.mu.Unlock()
	if r.Notify != nil {
		select {
		case r.Notify <- struct{}{}:
		default:
		}
	}
	if r.OnConsume != nil {
		r.OnConsume(n)
	}
	if r.PanicAt > 0 && n == r.PanicAt {
		panic("verif: injected consumer panic")
	}
	if r.Block != nil && n > r.BlockFrom {
		<-r.Block
	}
}

// Close implements io.Closer.
func (r *RecConsumer) Close() error {
	if atomic.AddInt32(&r.Closes, 1) == 1 {
		atomic.StoreInt64(&r.CloseT, H.Tick())
		if r.OnClose != nil {
			r.OnClose()
		}
	}
	return nil
}

// NClosed returns how many times Close was called.
func (r *RecConsumer) NClosed() int { return int(atomic.LoadInt32(&r.Closes)) }

// Items returns a copy of the deliveries so far.
func (r *RecConsumer) Items() []RecItem {
	r.mu.Lock()
	defer r.mu.Unlock()
	return append([]RecItem(nil), r.items...)
}

// Len returns the number of deliveries so far.
func (r *RecConsumer) Len() int {
	r.mu.Lock()
	defer r.mu.Unlock()
	return len(r.items)
}
