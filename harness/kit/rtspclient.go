package kit

import (
	"bufio"
	"bytes"
	"crypto/md5"
	"encoding/binary"
	"encoding/hex"
	"errors"
	"fmt"
	"io"
	"net"
	"net/http"
	"sort"
	"strconv"
	"strings"
	"time"

	"github.com/gorilla/websocket"
)

// Independent scripted RTSP/1.0 client (TCP and WebSocket transports). The wire parser below is the
// harness's own; it shares no code with ipchub's av/format/rtsp.

// RTSPResp is a parsed response.
type RTSPResp struct {
	Proto  string
	Code   int
	Reason string
	Header map[string]string // canonical lower-case keys
	Body   string
	Raw    []byte
}

// Get returns a header value (case-insensitive).
func (r *RTSPResp) Get(k string) string { return r.Header[strings.ToLower(k)] }

// RTSPFrame is an interleaved frame.
type RTSPFrame struct {
	Channel int
	Data    []byte
}

// RTSPItem is either a response or a frame.
type RTSPItem struct {
	Resp  *RTSPResp
	Frame *RTSPFrame
}

// ErrTorn is returned when the byte stream is not a sequence of complete responses and frames.
type ErrTorn struct{ Why string }

func (e *ErrTorn) Error() string { return "torn RTSP stream: " + e.Why }

// ParseRTSPItem reads exactly one response or frame from br.
func ParseRTSPItem(br *bufio.Reader) (*RTSPItem, error) {
	b, err := br.Peek(1)
	if err != nil {
		return nil, err
	}
	if b[0] == '$' {
		var h [4]byte
		if _, err := io.ReadFull(br, h[:]); err != nil {
			return nil, err
		}
		n := int(binary.BigEndian.Uint16(h[2:]))
		d := make([]byte, n)
		if _, err := io.ReadFull(br, d); err != nil {
			return nil, err
		}
		return &RTSPItem{Frame: &RTSPFrame{Channel: int(h[1]), Data: d}}, nil
	}
	// response: status line
	var raw bytes.Buffer
	line, err := readCRLFLine(br, &raw)
	if err != nil {
		return nil, err
	}
	if !strings.HasPrefix(line, "RTSP/1.0 ") {
		return nil, &ErrTorn{fmt.Sprintf("expected '$' or 'RTSP/1.0 ', got %q", truncate(line, 60))}
	}
	parts := strings.SplitN(line, " ", 3)
	if len(parts) < 2 {
		return nil, &ErrTorn{"malformed status line " + truncate(line, 60)}
	}
	code, err := strconv.Atoi(parts[1])
	if err != nil {
		return nil, &ErrTorn{"malformed status code " + truncate(line, 60)}
	}
	resp := &RTSPResp{Proto: parts[0], Code: code, Header: map[string]string{}}
	if len(parts) == 3 {
		resp.Reason = parts[2]
	}
	for {
		l, err := readCRLFLine(br, &raw)
		if err != nil {
			return nil, err
		}
		if l == "" {
			break
		}
		i := strings.IndexByte(l, ':')
		if i <= 0 {
			return nil, &ErrTorn{"malformed header line " + truncate(l, 60)}
		}
		k := strings.ToLower(strings.TrimSpace(l[:i]))
		v := strings.TrimSpace(l[i+1:])
		if old, ok := resp.Header[k]; ok {
			v = old + ", " + v
		}
		resp.Header[k] = v
	}
	if cl := resp.Header["content-length"]; cl != "" {
		n, err := strconv.Atoi(cl)
		if err != nil || n < 0 || n > 1<<24 {
			return nil, &ErrTorn{"bad content-length " + cl}
		}
		body := make([]byte, n)
		if _, err := io.ReadFull(br, body); err != nil {
			return nil, err
		}
		raw.Write(body)
		resp.Body = string(body)
	}
	resp.Raw = raw.Bytes()
	return &RTSPItem{Resp: resp}, nil
}

func truncate(s string, n int) string {
	if len(s) > n {
		return s[:n] + "..."
	}
	return s
}

func readCRLFLine(br *bufio.Reader, raw *bytes.Buffer) (string, error) {
	var line []byte
	for {
		frag, err := br.ReadSlice('\n')
		line = append(line, frag...)
		if err == bufio.ErrBufferFull {
			if len(line) > 1<<20 {
				return "", &ErrTorn{"line too long"}
			}
			continue
		}
		if err != nil {
			return "", err
		}
		break
	}
	raw.Write(line)
	s := strings.TrimRight(string(line), "\r\n")
	return s, nil
}

// itemSource abstracts TCP byte streams and WebSocket message streams.
type itemSource interface {
	next() (*RTSPItem, error)
	write(b []byte) error
	close() error
	setDeadline(t time.Time)
}

type tcpSource struct {
	conn net.Conn
	br   *bufio.Reader
}

func (t *tcpSource) next() (*RTSPItem, error) { return ParseRTSPItem(t.br) }
func (t *tcpSource) write(b []byte) error     { _, err := t.conn.Write(b); return err }
func (t *tcpSource) close() error             { return t.conn.Close() }
func (t *tcpSource) setDeadline(d time.Time)  { t.conn.SetReadDeadline(d) }

type wsSource struct {
	ws *websocket.Conn
	// MsgViolations counts messages that were not exactly one response or one frame
	msgViolations []string
	messages      int
}

func (w *wsSource) next() (*RTSPItem, error) {
	_, msg, err := w.ws.ReadMessage()
	if err != nil {
		return nil, err
	}
	w.messages++
	br := bufio.NewReader(bytes.NewReader(msg))
	it, err := ParseRTSPItem(br)
	if err != nil {
		w.msgViolations = append(w.msgViolations, fmt.Sprintf("message %d (len %d) does not parse: %v", w.messages, len(msg), err))
		return nil, &ErrTorn{"websocket message is not one complete response or frame: " + err.Error()}
	}
	if rest, _ := io.ReadAll(br); len(rest) != 0 {
		w.msgViolations = append(w.msgViolations, fmt.Sprintf("message %d carries %d extra bytes after one item", w.messages, len(rest)))
		return nil, &ErrTorn{"websocket message carries more than one item"}
	}
	return it, nil
}
func (w *wsSource) write(b []byte) error    { return w.ws.WriteMessage(websocket.BinaryMessage, b) }
func (w *wsSource) close() error            { return w.ws.Close() }
func (w *wsSource) setDeadline(d time.Time) { w.ws.SetReadDeadline(d) }

// RTSPClient is a scripted client.
type RTSPClient struct {
	src     itemSource
	CSeq    int
	Session string
	Frames  []RTSPFrame // interleaved frames seen while waiting for responses
	User    string
	Pass    string
	realm   string
	nonce   string
	Timeout time.Duration
	Sent    int
	Resps   []*RTSPResp // every response received, in order
}

// DialRTSP connects over TCP.
func DialRTSP(addr string) (*RTSPClient, error) {
	conn, err := net.DialTimeout("tcp", addr, 5*time.Second)
	if err != nil {
		return nil, err
	}
	return &RTSPClient{src: &tcpSource{conn: conn, br: bufio.NewReaderSize(conn, 256*1024)}, Timeout: 60 * time.Second}, nil
}

// DialRTSPWebSocket connects ws://addr/streams<path>[?token=] with sub-protocol "rtsp".
func DialRTSPWebSocket(addr, path, token string) (*RTSPClient, *http.Response, error) {
	u := "ws://" + addr + "/streams" + path
	if token != "" {
		u += "?token=" + token
	}
	d := websocket.Dialer{Subprotocols: []string{"rtsp"}, HandshakeTimeout: 60 * time.Second}
	ws, resp, err := d.Dial(u, ExtraHTTPHeader)
	if err != nil {
		return nil, resp, err
	}
	return &RTSPClient{src: &wsSource{ws: ws}, Timeout: 60 * time.Second}, resp, nil
}

// WSMessageViolations lists WebSocket messages that were not exactly one item (ws transport only).
func (c *RTSPClient) WSMessageViolations() []string {
	if w, ok := c.src.(*wsSource); ok {
		return w.msgViolations
	}
	return nil
}

// Close closes the connection.
func (c *RTSPClient) Close() { c.src.close() }

// TCPConn returns the raw TCP connection (nil for WebSocket).
func (c *RTSPClient) TCPConn() net.Conn {
	if t, ok := c.src.(*tcpSource); ok {
		return t.conn
	}
	return nil
}

// BuildRequest renders a request.
func (c *RTSPClient) BuildRequest(method, uri string, hdr map[string]string, body string) []byte {
	c.CSeq++
	var b bytes.Buffer
	fmt.Fprintf(&b, "%s %s RTSP/1.0\r\n", method, uri)
	fmt.Fprintf(&b, "CSeq: %d\r\n", c.CSeq)
	if c.Session != "" {
		fmt.Fprintf(&b, "Session: %s\r\n", c.Session)
	}
	if c.User != "" && c.nonce != "" {
		fmt.Fprintf(&b, "Authorization: Digest username=\"%s\", realm=\"%s\", nonce=\"%s\", uri=\"%s\", response=\"%s\"\r\n",
			c.User, c.realm, c.nonce, uri, DigestResponse(c.User, c.realm, c.Pass, c.nonce, method, uri))
	}
	keys := make([]string, 0, len(hdr))
	for k := range hdr {
		keys = append(keys, k)
	}
	sort.Strings(keys)
	for _, k := range keys {
		fmt.Fprintf(&b, "%s: %s\r\n", k, hdr[k])
	}
	if body != "" {
		fmt.Fprintf(&b, "Content-Length: %d\r\n", len(body))
	}
	b.WriteString("\r\n")
	b.WriteString(body)
	return b.Bytes()
}

// DigestResponse computes the RFC 2617 (no qop) digest response.
func DigestResponse(user, realm, pass, nonce, method, uri string) string {
	h := func(s string) string { d := md5.Sum([]byte(s)); return hex.EncodeToString(d[:]) }
	return h(h(user+":"+realm+":"+pass) + ":" + nonce + ":" + h(method+":"+uri))
}

// Send writes raw bytes.
func (c *RTSPClient) Send(b []byte) error { c.Sent++; return c.src.write(b) }

// Next reads the next item (response or frame).
func (c *RTSPClient) Next(timeout time.Duration) (*RTSPItem, error) {
	c.src.setDeadline(time.Now().Add(timeout))
	return c.src.next()
}

// ReadResponse reads items until a response arrives; frames are collected in c.Frames.
func (c *RTSPClient) ReadResponse() (*RTSPResp, error) {
	deadline := time.Now().Add(c.Timeout)
	for {
		it, err := c.Next(time.Until(deadline))
		if err != nil {
			return nil, err
		}
		if it.Frame != nil {
			c.Frames = append(c.Frames, *it.Frame)
			continue
		}
		c.Resps = append(c.Resps, it.Resp)
		if s := it.Resp.Get("Session"); s != "" {
			if i := strings.IndexByte(s, ';'); i > 0 {
				s = s[:i]
			}
			c.Session = s
		}
		if wa := it.Resp.Get("WWW-Authenticate"); strings.HasPrefix(wa, "Digest ") {
			c.realm = between(wa, `realm="`, `"`)
			c.nonce = between(wa, `nonce="`, `"`)
		}
		return it.Resp, nil
	}
}

func between(s, a, b string) string {
	i := strings.Index(s, a)
	if i < 0 {
		return ""
	}
	s = s[i+len(a):]
	j := strings.Index(s, b)
	if j < 0 {
		return ""
	}
	return s[:j]
}

// Do sends a request and returns its response. With credentials set, a 401 is retried once with Digest.
func (c *RTSPClient) Do(method, uri string, hdr map[string]string, body string) (*RTSPResp, error) {
	if err := c.Send(c.BuildRequest(method, uri, hdr, body)); err != nil {
		return nil, err
	}
	resp, err := c.ReadResponse()
	if err != nil {
		return nil, err
	}
	if resp.Code == 401 && c.User != "" && c.nonce != "" {
		if err := c.Send(c.BuildRequest(method, uri, hdr, body)); err != nil {
			return nil, err
		}
		return c.ReadResponse()
	}
	return resp, nil
}

// WriteFrame sends an interleaved frame (publisher side).
func (c *RTSPClient) WriteFrame(ch int, data []byte) error {
	b := make([]byte, 4+len(data))
	b[0] = '$'
	b[1] = byte(ch)
	binary.BigEndian.PutUint16(b[2:], uint16(len(data)))
	copy(b[4:], data)
	return c.src.write(b)
}

// Publish performs ANNOUNCE / SETUP(video, audio) / RECORD for an SDP with streamid=0/1 controls.
func (c *RTSPClient) Publish(base, sdp string) (int, error) {
	steps := []struct {
		m, u string
		h    map[string]string
		b    string
	}{
		{"ANNOUNCE", base, map[string]string{"Content-Type": "application/sdp"}, sdp},
		{"SETUP", base + "/streamid=0", map[string]string{"Transport": "RTP/AVP/TCP;unicast;interleaved=0-1;mode=record"}, ""},
		{"SETUP", base + "/streamid=1", map[string]string{"Transport": "RTP/AVP/TCP;unicast;interleaved=2-3;mode=record"}, ""},
		{"RECORD", base, map[string]string{"Range": "npt=0.000-"}, ""},
	}
	for _, s := range steps {
		if s.m == "SETUP" && strings.HasSuffix(s.u, "streamid=1") && !strings.Contains(sdp, "streamid=1") {
			continue
		}
		r, err := c.Do(s.m, s.u, s.h, s.b)
		if err != nil {
			return 0, err
		}
		if r.Code != 200 {
			return r.Code, fmt.Errorf("%s -> %d %s", s.m, r.Code, r.Reason)
		}
	}
	return 200, nil
}

// Play performs DESCRIBE / SETUP(video[, audio]) / PLAY over interleaved TCP with the given channel pairs.
func (c *RTSPClient) Play(base string, vch, ach int) (int, error) {
	r, err := c.Do("DESCRIBE", base, map[string]string{"Accept": "application/sdp"}, "")
	if err != nil {
		return 0, err
	}
	if r.Code != 200 {
		return r.Code, fmt.Errorf("DESCRIBE -> %d", r.Code)
	}
	sdp := r.Body
	r, err = c.Do("SETUP", base+"/streamid=0", map[string]string{"Transport": fmt.Sprintf("RTP/AVP/TCP;unicast;interleaved=%d-%d", vch, vch+1)}, "")
	if err != nil {
		return 0, err
	}
	if r.Code != 200 {
		return r.Code, fmt.Errorf("SETUP video -> %d", r.Code)
	}
	if strings.Contains(sdp, "streamid=1") && ach >= 0 { // ach < 0: set up the video track only
		r, err = c.Do("SETUP", base+"/streamid=1", map[string]string{"Transport": fmt.Sprintf("RTP/AVP/TCP;unicast;interleaved=%d-%d", ach, ach+1)}, "")
		if err != nil {
			return 0, err
		}
		if r.Code != 200 {
			return r.Code, fmt.Errorf("SETUP audio -> %d", r.Code)
		}
	}
	r, err = c.Do("PLAY", base, map[string]string{"Range": "npt=0.000-"}, "")
	if err != nil {
		return 0, err
	}
	if r.Code != 200 {
		return r.Code, fmt.Errorf("PLAY -> %d", r.Code)
	}
	return 200, nil
}

// ErrTimeout reports whether err is a network timeout.
func ErrTimeout(err error) bool {
	var ne net.Error
	return errors.As(err, &ne) && ne.Timeout()
}
