package kit

// Independent FLV reader, written from the Adobe "Video File Format Specification" v10.1 (annex E),
// AMF0 specification (amf0-file-format-specification), ISO/IEC 14496-15 (AVCDecoderConfigurationRecord,
// HEVCDecoderConfigurationRecord) and ITU-T H.265 7.3.3 (profile_tier_level). It shares no code with
// ipchub and never panics on malformed input: everything that is wrong is reported as an FLVError with a
// stable Code string.
//
//	res := kit.ReadFLV(bytes)
//	res.Header            file header fields
//	res.Tags[i]           Type, Timestamp (24+8 bit), Data, and decoded Video / Audio / Script views
//	res.Errors            structural errors (Code, TagIndex, Offset, Msg); res.HasError("tag.prevtagsize-mismatch")
//
// Error codes (stable):
//
//	header.short header.signature header.version header.reserved-flags header.dataoffset
//	prevtagsize0.missing prevtagsize0.nonzero
//	tag.header-truncated tag.data-truncated tag.reserved-bits tag.filtered-unsupported tag.type-unknown
//	tag.streamid-nonzero tag.prevtagsize-missing tag.prevtagsize-mismatch
//	video.empty video.avc-header-short video.nalu-length-truncated video.nalu-length-overrun video.no-nalu
//	video.avcc-invalid video.hvcc-invalid video.packettype-unknown
//	audio.empty audio.aac-header-short audio.aacpackettype-unknown
//	script.amf-invalid script.name-not-string script.trailing-bytes

import (
	"encoding/binary"
	"errors"
	"fmt"
	"math"
)

// FLV tag types.
const (
	FLVTagAudio  = 8
	FLVTagVideo  = 9
	FLVTagScript = 18
)

// FLVHeader is the 9-byte file header.
type FLVHeader struct {
	Signature     string `json:"signature"`
	Version       byte   `json:"version"`
	TypeFlags     byte   `json:"type_flags"` // raw byte
	HasAudio      bool   `json:"has_audio"`  // bit 2 (0x04) is video, bit 0 (0x01) is audio
	HasVideo      bool   `json:"has_video"`
	ReservedFlags byte   `json:"reserved_flags"` // TypeFlags with the two defined bits cleared (must be 0)
	DataOffset    uint32 `json:"data_offset"`
}

// FLVError is one structural defect found while reading.
type FLVError struct {
	Code     string `json:"code"`
	TagIndex int    `json:"tag"`    // -1: file level
	Offset   int    `json:"offset"` // byte offset in the input
	Msg      string `json:"msg"`
}

func (e FLVError) String() string {
	return fmt.Sprintf("%s@tag%d/off%d: %s", e.Code, e.TagIndex, e.Offset, e.Msg)
}

// FLVVideo is the decoded VIDEODATA view of a video tag.
type FLVVideo struct {
	FrameType       byte   // 1 key, 2 inter, 3 disposable inter, 4 generated key, 5 info/command
	CodecID         byte   // 7 AVC, 12 HEVC (CDN convention)
	IsNALCodec      bool   // CodecID 7 or 12: the AVCVIDEOPACKET layout applies
	PacketType      byte   // 0 sequence header, 1 NALU, 2 end of sequence
	CompositionTime int32  // SI24 sign-extended
	Body            []byte // bytes after the 5-byte (NAL codecs) or 1-byte header
	NALUs           [][]byte
	LengthSize      int         // width of the NAL length prefix used for parsing (4 unless told otherwise)
	AVCConfig       *AVCConfig  // PacketType 0, CodecID 7
	HEVCConfig      *HEVCConfig // PacketType 0, CodecID 12
	ConfigErr       string
}

// FLVAudio is the decoded AUDIODATA view of an audio tag.
type FLVAudio struct {
	SoundFormat   byte // 10 AAC
	SoundRate     byte // 0 5.5k 1 11k 2 22k 3 44k
	SoundSize     byte // 0 8 bit 1 16 bit
	SoundType     byte // 0 mono 1 stereo
	IsAAC         bool
	AACPacketType byte   // 0 sequence header (AudioSpecificConfig), 1 raw
	Body          []byte // after the header byte(s)
}

// FLVScript is the decoded SCRIPTDATA view.
type FLVScript struct {
	Name   string
	Values []interface{} // all AMF0 values after the name; Values[0] is the ECMA array / object for onMetaData
	Err    string
}

// FLVTag is one tag.
type FLVTag struct {
	Index         int
	Offset        int // offset of the tag header in the input
	Reserved      byte
	Filter        bool
	Type          byte
	DataSize      uint32
	Timestamp     uint32 // TimestampExtended<<24 | Timestamp
	TimestampLow  uint32
	TimestampExt  byte
	StreamID      uint32
	Data          []byte
	PrevTagSize   uint32 // the PreviousTagSize field that FOLLOWS this tag
	PrevTagSizeOK bool
	Video         *FLVVideo
	Audio         *FLVAudio
	Script        *FLVScript
}

// FLVResult is what ReadFLV returns.
type FLVResult struct {
	Header     FLVHeader
	HeaderRead bool
	Tags       []FLVTag
	Errors     []FLVError
	Consumed   int // bytes understood
	Total      int
}

// HasError reports whether an error with the given code was recorded.
func (r *FLVResult) HasError(code string) bool {
	for _, e := range r.Errors {
		if e.Code == code {
			return true
		}
	}
	return false
}

// ErrorCodes lists the distinct codes in order of first appearance.
func (r *FLVResult) ErrorCodes() []string {
	var out []string
	seen := map[string]bool{}
	for _, e := range r.Errors {
		if !seen[e.Code] {
			seen[e.Code] = true
			out = append(out, e.Code)
		}
	}
	return out
}

func (r *FLVResult) addErr(code string, tag, off int, format string, a ...interface{}) {
	if len(r.Errors) < 256 {
		r.Errors = append(r.Errors, FLVError{Code: code, TagIndex: tag, Offset: off, Msg: fmt.Sprintf(format, a...)})
	}
}

func be24(b []byte) uint32 { return uint32(b[0])<<16 | uint32(b[1])<<8 | uint32(b[2]) }

// ReadFLV parses a complete FLV byte stream (header + PreviousTagSize0 + tags).
// A truncated final tag is reported (tag.header-truncated / tag.data-truncated / tag.prevtagsize-missing).
func ReadFLV(data []byte) *FLVResult {
	r := &FLVResult{Total: len(data)}
	if len(data) < 9 {
		r.addErr("header.short", -1, 0, "only %d bytes", len(data))
		return r
	}
	h := &r.Header
	h.Signature = string(data[0:3])
	h.Version = data[3]
	h.TypeFlags = data[4]
	h.HasAudio = data[4]&0x01 != 0 // TypeFlagsAudio is bit 0
	h.HasVideo = data[4]&0x04 != 0 // TypeFlagsVideo is bit 2
	h.ReservedFlags = data[4] &^ 0x05
	h.DataOffset = binary.BigEndian.Uint32(data[5:9])
	r.HeaderRead = true
	if h.Signature != "FLV" {
		r.addErr("header.signature", -1, 0, "signature % x", data[0:3])
		return r
	}
	if h.Version != 1 {
		r.addErr("header.version", -1, 3, "version %d", h.Version)
	}
	if h.ReservedFlags != 0 {
		r.addErr("header.reserved-flags", -1, 4, "TypeFlags %#02x has reserved bits set", h.TypeFlags)
	}
	off := 9
	if h.DataOffset != 9 {
		r.addErr("header.dataoffset", -1, 5, "DataOffset %d (version 1 requires 9)", h.DataOffset)
		if h.DataOffset > 9 && int64(h.DataOffset) <= int64(len(data)) {
			off = int(h.DataOffset)
		}
	}
	if len(data) < off+4 {
		r.addErr("prevtagsize0.missing", -1, off, "input ends after the header")
		r.Consumed = off
		return r
	}
	if p0 := binary.BigEndian.Uint32(data[off:]); p0 != 0 {
		r.addErr("prevtagsize0.nonzero", -1, off, "PreviousTagSize0 = %d", p0)
	}
	off += 4
	for idx := 0; off < len(data); idx++ {
		if len(data)-off < 11 {
			r.addErr("tag.header-truncated", idx, off, "%d bytes left", len(data)-off)
			break
		}
		t := FLVTag{Index: idx, Offset: off}
		b0 := data[off]
		t.Reserved = b0 >> 6
		t.Filter = b0&0x20 != 0
		t.Type = b0 & 0x1f
		t.DataSize = be24(data[off+1:])
		t.TimestampLow = be24(data[off+4:])
		t.TimestampExt = data[off+7]
		t.Timestamp = uint32(t.TimestampExt)<<24 | t.TimestampLow
		t.StreamID = be24(data[off+8:])
		if t.Reserved != 0 {
			r.addErr("tag.reserved-bits", idx, off, "first byte %#02x", b0)
		}
		if t.StreamID != 0 {
			r.addErr("tag.streamid-nonzero", idx, off+8, "StreamID %d", t.StreamID)
		}
		if t.Type != FLVTagAudio && t.Type != FLVTagVideo && t.Type != FLVTagScript {
			r.addErr("tag.type-unknown", idx, off, "TagType %d", t.Type)
		}
		dataStart := off + 11
		if int64(len(data)-dataStart) < int64(t.DataSize) {
			r.addErr("tag.data-truncated", idx, dataStart, "DataSize %d but %d bytes left", t.DataSize, len(data)-dataStart)
			t.Data = data[dataStart:]
			r.Tags = append(r.Tags, t)
			off = len(data)
			break
		}
		t.Data = data[dataStart : dataStart+int(t.DataSize)]
		off = dataStart + int(t.DataSize)
		if len(data)-off < 4 {
			r.addErr("tag.prevtagsize-missing", idx, off, "%d bytes left after tag data", len(data)-off)
			decodeTagViews(r, &t)
			r.Tags = append(r.Tags, t)
			off = len(data)
			break
		}
		t.PrevTagSize = binary.BigEndian.Uint32(data[off:])
		t.PrevTagSizeOK = t.PrevTagSize == 11+t.DataSize
		if !t.PrevTagSizeOK {
			r.addErr("tag.prevtagsize-mismatch", idx, off, "PreviousTagSize %d, tag is 11+%d", t.PrevTagSize, t.DataSize)
		}
		off += 4
		decodeTagViews(r, &t)
		r.Tags = append(r.Tags, t)
	}
	r.Consumed = off
	return r
}

func decodeTagViews(r *FLVResult, t *FLVTag) {
	if t.Filter {
		r.addErr("tag.filtered-unsupported", t.Index, t.Offset, "Filter bit set: encrypted tag bodies are not decoded")
		return
	}
	switch t.Type {
	case FLVTagVideo:
		t.Video = parseFLVVideo(r, t)
	case FLVTagAudio:
		t.Audio = parseFLVAudio(r, t)
	case FLVTagScript:
		t.Script = parseFLVScript(r, t)
	}
}

func sext24(v uint32) int32 {
	v &= 0xffffff
	if v&0x800000 != 0 {
		return int32(v) - 0x1000000
	}
	return int32(v)
}

func parseFLVVideo(r *FLVResult, t *FLVTag) *FLVVideo {
	d := t.Data
	if len(d) < 1 {
		r.addErr("video.empty", t.Index, t.Offset, "empty VIDEODATA")
		return nil
	}
	v := &FLVVideo{FrameType: d[0] >> 4, CodecID: d[0] & 0x0f, LengthSize: 4}
	v.IsNALCodec = v.CodecID == 7 || v.CodecID == 12
	if !v.IsNALCodec {
		v.Body = d[1:]
		return v
	}
	if len(d) < 5 {
		r.addErr("video.avc-header-short", t.Index, t.Offset, "AVC/HEVC VIDEODATA of %d bytes", len(d))
		return v
	}
	v.PacketType = d[1]
	v.CompositionTime = sext24(be24(d[2:]))
	v.Body = d[5:]
	switch v.PacketType {
	case 0:
		if v.CodecID == 7 {
			c, err := ParseAVCConfig(v.Body)
			v.AVCConfig = c
			if err != nil {
				v.ConfigErr = err.Error()
				r.addErr("video.avcc-invalid", t.Index, t.Offset, "%v", err)
			}
		} else {
			c, err := ParseHEVCConfig(v.Body)
			v.HEVCConfig = c
			if err != nil {
				v.ConfigErr = err.Error()
				r.addErr("video.hvcc-invalid", t.Index, t.Offset, "%v", err)
			}
		}
	case 1:
		nalus, code, msg := SplitLengthPrefixed(v.Body, 4)
		v.NALUs = nalus
		if code != "" {
			r.addErr("video."+code, t.Index, t.Offset, "%s", msg)
		} else if len(nalus) == 0 {
			r.addErr("video.no-nalu", t.Index, t.Offset, "NALU packet without any NAL unit")
		}
	case 2:
		// end of sequence: empty body
	default:
		r.addErr("video.packettype-unknown", t.Index, t.Offset, "AVCPacketType %d", v.PacketType)
	}
	return v
}

// SplitLengthPrefixed splits an AVCC/HVCC sample into NAL units with lengthSize-byte big-endian length prefixes.
// code is "" when the body is exactly a sequence of complete units.
func SplitLengthPrefixed(body []byte, lengthSize int) (nalus [][]byte, code, msg string) {
	off := 0
	for off < len(body) {
		if len(body)-off < lengthSize {
			return nalus, "nalu-length-truncated", fmt.Sprintf("%d stray bytes at body offset %d", len(body)-off, off)
		}
		var n uint64
		for i := 0; i < lengthSize; i++ {
			n = n<<8 | uint64(body[off+i])
		}
		off += lengthSize
		if n > uint64(len(body)-off) {
			return nalus, "nalu-length-overrun", fmt.Sprintf("NAL length %d at body offset %d but %d bytes left", n, off-lengthSize, len(body)-off)
		}
		nalus = append(nalus, body[off:off+int(n)])
		off += int(n)
	}
	return nalus, "", ""
}

func parseFLVAudio(r *FLVResult, t *FLVTag) *FLVAudio {
	d := t.Data
	if len(d) < 1 {
		r.addErr("audio.empty", t.Index, t.Offset, "empty AUDIODATA")
		return nil
	}
	a := &FLVAudio{SoundFormat: d[0] >> 4, SoundRate: (d[0] >> 2) & 3, SoundSize: (d[0] >> 1) & 1, SoundType: d[0] & 1}
	a.IsAAC = a.SoundFormat == 10
	if !a.IsAAC {
		a.Body = d[1:]
		return a
	}
	if len(d) < 2 {
		r.addErr("audio.aac-header-short", t.Index, t.Offset, "AAC AUDIODATA of 1 byte")
		return a
	}
	a.AACPacketType = d[1]
	a.Body = d[2:]
	if a.AACPacketType > 1 {
		r.addErr("audio.aacpackettype-unknown", t.Index, t.Offset, "AACPacketType %d", a.AACPacketType)
	}
	return a
}

func parseFLVScript(r *FLVResult, t *FLVTag) *FLVScript {
	s := &FLVScript{}
	vals, n, err := AMF0DecodeAll(t.Data)
	if err != nil {
		s.Err = err.Error()
		r.addErr("script.amf-invalid", t.Index, t.Offset, "after %d bytes: %v", n, err)
	}
	if len(vals) > 0 {
		if name, ok := vals[0].(string); ok {
			s.Name = name
			s.Values = vals[1:]
		} else {
			s.Values = vals
			r.addErr("script.name-not-string", t.Index, t.Offset, "first SCRIPTDATAVALUE is %T", vals[0])
		}
	}
	return s
}

// ---------------------------------------------------------------------------------------------
// AMF0

// AMFProp is one name/value pair of an object or ECMA array (order preserved).
type AMFProp struct {
	Name  string
	Value interface{}
}

// AMFObject is an AMF0 anonymous object (marker 0x03).
type AMFObject struct{ Props []AMFProp }

// AMFECMAArray is an AMF0 ECMA array (marker 0x08); Count is the declared (approximate) length.
type AMFECMAArray struct {
	Count uint32
	Props []AMFProp
}

// AMFDate is an AMF0 date.
type AMFDate struct {
	Millis float64
	TZ     int16
}

// AMFUndefined is the AMF0 undefined value; AMFUnsupported the unsupported marker.
type AMFUndefined struct{}
type AMFUnsupported struct{}

// Get looks a property up.
func (o *AMFECMAArray) Get(name string) (interface{}, bool) { return amfGet(o.Props, name) }
func (o *AMFObject) Get(name string) (interface{}, bool)    { return amfGet(o.Props, name) }
func amfGet(ps []AMFProp, name string) (interface{}, bool) {
	for _, p := range ps {
		if p.Name == name {
			return p.Value, true
		}
	}
	return nil, false
}

type amfReader struct {
	b   []byte
	off int
}

var errAMFShort = errors.New("amf0: unexpected end of data")

func (r *amfReader) need(n int) error {
	if n < 0 || len(r.b)-r.off < n {
		return errAMFShort
	}
	return nil
}

func (r *amfReader) utf8(lenBytes int) (string, error) {
	if err := r.need(lenBytes); err != nil {
		return "", err
	}
	var n uint64
	for i := 0; i < lenBytes; i++ {
		n = n<<8 | uint64(r.b[r.off+i])
	}
	r.off += lenBytes
	if n > uint64(len(r.b)-r.off) {
		return "", fmt.Errorf("amf0: string length %d exceeds remaining %d bytes", n, len(r.b)-r.off)
	}
	s := string(r.b[r.off : r.off+int(n)])
	r.off += int(n)
	return s, nil
}

func (r *amfReader) props(depth int) ([]AMFProp, error) {
	var ps []AMFProp
	for {
		// object end: empty name + marker 0x09
		if err := r.need(3); err != nil {
			return ps, fmt.Errorf("amf0: object not terminated by 00 00 09: %w", err)
		}
		if r.b[r.off] == 0 && r.b[r.off+1] == 0 && r.b[r.off+2] == 0x09 {
			r.off += 3
			return ps, nil
		}
		name, err := r.utf8(2)
		if err != nil {
			return ps, err
		}
		v, err := r.value(depth + 1)
		if err != nil {
			return ps, fmt.Errorf("property %q: %w", name, err)
		}
		ps = append(ps, AMFProp{name, v})
		if len(ps) > 1<<16 {
			return ps, errors.New("amf0: too many properties")
		}
	}
}

func (r *amfReader) value(depth int) (interface{}, error) {
	if depth > 32 {
		return nil, errors.New("amf0: nesting too deep")
	}
	if err := r.need(1); err != nil {
		return nil, err
	}
	m := r.b[r.off]
	r.off++
	switch m {
	case 0x00: // number
		if err := r.need(8); err != nil {
			return nil, err
		}
		f := math.Float64frombits(binary.BigEndian.Uint64(r.b[r.off:]))
		r.off += 8
		return f, nil
	case 0x01: // boolean
		if err := r.need(1); err != nil {
			return nil, err
		}
		v := r.b[r.off] != 0
		r.off++
		return v, nil
	case 0x02:
		return r.utf8(2)
	case 0x03:
		ps, err := r.props(depth)
		return &AMFObject{Props: ps}, err
	case 0x05:
		return nil, nil
	case 0x06:
		return AMFUndefined{}, nil
	case 0x08:
		if err := r.need(4); err != nil {
			return nil, err
		}
		cnt := binary.BigEndian.Uint32(r.b[r.off:])
		r.off += 4
		ps, err := r.props(depth)
		return &AMFECMAArray{Count: cnt, Props: ps}, err
	case 0x0a: // strict array
		if err := r.need(4); err != nil {
			return nil, err
		}
		cnt := binary.BigEndian.Uint32(r.b[r.off:])
		r.off += 4
		if uint64(cnt) > uint64(len(r.b)-r.off) {
			return nil, fmt.Errorf("amf0: strict array of %d elements in %d bytes", cnt, len(r.b)-r.off)
		}
		arr := make([]interface{}, 0, cnt)
		for i := uint32(0); i < cnt; i++ {
			v, err := r.value(depth + 1)
			if err != nil {
				return arr, err
			}
			arr = append(arr, v)
		}
		return arr, nil
	case 0x0b: // date
		if err := r.need(10); err != nil {
			return nil, err
		}
		d := AMFDate{Millis: math.Float64frombits(binary.BigEndian.Uint64(r.b[r.off:])),
			TZ: int16(binary.BigEndian.Uint16(r.b[r.off+8:]))}
		r.off += 10
		return d, nil
	case 0x0c:
		return r.utf8(4)
	case 0x0d:
		return AMFUnsupported{}, nil
	default:
		return nil, fmt.Errorf("amf0: unsupported marker %#02x at offset %d", m, r.off-1)
	}
}

// AMF0DecodeAll decodes consecutive AMF0 values until the data is exhausted.
// It returns the values decoded so far, the number of bytes consumed, and the first error.
func AMF0DecodeAll(data []byte) ([]interface{}, int, error) {
	r := &amfReader{b: data}
	var vals []interface{}
	for r.off < len(data) {
		start := r.off
		v, err := r.value(0)
		if err != nil {
			return vals, start, err
		}
		vals = append(vals, v)
		if len(vals) > 1024 {
			return vals, r.off, errors.New("amf0: too many top-level values")
		}
	}
	return vals, r.off, nil
}

// ---------------------------------------------------------------------------------------------
// ISO/IEC 14496-15 decoder configuration records

// AVCConfig is an AVCDecoderConfigurationRecord.
type AVCConfig struct {
	Version        byte
	Profile        byte
	Compat         byte
	Level          byte
	ReservedBits1  byte // upper 6 bits of byte 4 (should be 111111b)
	LengthSize     int  // lengthSizeMinusOne + 1
	ReservedBits2  byte // upper 3 bits of byte 5 (should be 111b)
	SPS            [][]byte
	PPS            [][]byte
	HasHighExt     bool // chroma_format / bit depth extension present
	ChromaFormat   byte
	BitDepthLumaM8 byte
	BitDepthChrM8  byte
	SPSExt         [][]byte
	Trailing       int
}

// ParseAVCConfig parses an AVCDecoderConfigurationRecord (ISO/IEC 14496-15 5.2.4.1.1).
func ParseAVCConfig(b []byte) (*AVCConfig, error) {
	c := &AVCConfig{}
	if len(b) < 7 {
		return c, fmt.Errorf("avcC: %d bytes, need at least 7", len(b))
	}
	c.Version, c.Profile, c.Compat, c.Level = b[0], b[1], b[2], b[3]
	c.ReservedBits1 = b[4] >> 2
	c.LengthSize = int(b[4]&3) + 1
	c.ReservedBits2 = b[5] >> 5
	nsps := int(b[5] & 0x1f)
	off := 6
	for i := 0; i < nsps; i++ {
		if len(b)-off < 2 {
			return c, fmt.Errorf("avcC: truncated before SPS %d length", i)
		}
		n := int(binary.BigEndian.Uint16(b[off:]))
		off += 2
		if len(b)-off < n {
			return c, fmt.Errorf("avcC: SPS %d length %d exceeds remaining %d", i, n, len(b)-off)
		}
		c.SPS = append(c.SPS, b[off:off+n])
		off += n
	}
	if len(b)-off < 1 {
		return c, errors.New("avcC: truncated before numOfPictureParameterSets")
	}
	npps := int(b[off])
	off++
	for i := 0; i < npps; i++ {
		if len(b)-off < 2 {
			return c, fmt.Errorf("avcC: truncated before PPS %d length", i)
		}
		n := int(binary.BigEndian.Uint16(b[off:]))
		off += 2
		if len(b)-off < n {
			return c, fmt.Errorf("avcC: PPS %d length %d exceeds remaining %d", i, n, len(b)-off)
		}
		c.PPS = append(c.PPS, b[off:off+n])
		off += n
	}
	// optional extension for profile_idc 100/110/122/144
	if len(b)-off >= 4 && (c.Profile == 100 || c.Profile == 110 || c.Profile == 122 || c.Profile == 144) {
		c.HasHighExt = true
		c.ChromaFormat = b[off] & 3
		c.BitDepthLumaM8 = b[off+1] & 7
		c.BitDepthChrM8 = b[off+2] & 7
		next := int(b[off+3])
		off += 4
		for i := 0; i < next; i++ {
			if len(b)-off < 2 {
				return c, fmt.Errorf("avcC: truncated before SPSExt %d length", i)
			}
			n := int(binary.BigEndian.Uint16(b[off:]))
			off += 2
			if len(b)-off < n {
				return c, fmt.Errorf("avcC: SPSExt %d length %d exceeds remaining %d", i, n, len(b)-off)
			}
			c.SPSExt = append(c.SPSExt, b[off:off+n])
			off += n
		}
	}
	c.Trailing = len(b) - off
	if c.Version != 1 {
		return c, fmt.Errorf("avcC: configurationVersion %d", c.Version)
	}
	if c.Trailing != 0 {
		return c, fmt.Errorf("avcC: %d trailing bytes", c.Trailing)
	}
	return c, nil
}

// HEVCNALArray is one array of an HEVCDecoderConfigurationRecord.
type HEVCNALArray struct {
	Completeness bool
	NALType      byte
	NALUs        [][]byte
}

// HEVCPTL holds the general profile/tier/level fields.
type HEVCPTL struct {
	ProfileSpace byte
	Tier         byte
	ProfileIDC   byte
	Compat       uint32
	Constraint   uint64 // 48 bits
	Level        byte
}

// HEVCConfig is an HEVCDecoderConfigurationRecord (ISO/IEC 14496-15 8.3.3.1.2).
type HEVCConfig struct {
	Version             byte
	PTL                 HEVCPTL
	MinSpatialSegIDC    uint16
	ParallelismType     byte
	ChromaFormat        byte
	BitDepthLumaM8      byte
	BitDepthChromaM8    byte
	AvgFrameRate        uint16
	ConstantFrameRate   byte
	NumTemporalLayers   byte
	TemporalIDNested    byte
	LengthSize          int
	Arrays              []HEVCNALArray
	ReservedBitsCorrect bool // all reserved bit groups carry the prescribed 1s
	Trailing            int
}

// NALs returns all NAL units of the given type from the record's arrays.
func (c *HEVCConfig) NALs(nalType byte) [][]byte {
	var out [][]byte
	for _, a := range c.Arrays {
		if a.NALType == nalType {
			out = append(out, a.NALUs...)
		}
	}
	return out
}

// ParseHEVCConfig parses an HEVCDecoderConfigurationRecord.
func ParseHEVCConfig(b []byte) (*HEVCConfig, error) {
	c := &HEVCConfig{}
	if len(b) < 23 {
		return c, fmt.Errorf("hvcC: %d bytes, need at least 23", len(b))
	}
	c.Version = b[0]
	c.PTL.ProfileSpace = b[1] >> 6
	c.PTL.Tier = (b[1] >> 5) & 1
	c.PTL.ProfileIDC = b[1] & 0x1f
	c.PTL.Compat = binary.BigEndian.Uint32(b[2:])
	c.PTL.Constraint = uint64(binary.BigEndian.Uint16(b[6:]))<<32 | uint64(binary.BigEndian.Uint32(b[8:]))
	c.PTL.Level = b[12]
	c.MinSpatialSegIDC = binary.BigEndian.Uint16(b[13:]) & 0x0fff
	c.ParallelismType = b[15] & 3
	c.ChromaFormat = b[16] & 3
	c.BitDepthLumaM8 = b[17] & 7
	c.BitDepthChromaM8 = b[18] & 7
	c.AvgFrameRate = binary.BigEndian.Uint16(b[19:])
	c.ConstantFrameRate = b[21] >> 6
	c.NumTemporalLayers = (b[21] >> 3) & 7
	c.TemporalIDNested = (b[21] >> 2) & 1
	c.LengthSize = int(b[21]&3) + 1
	c.ReservedBitsCorrect = b[13]&0xf0 == 0xf0 && b[15]&0xfc == 0xfc && b[16]&0xfc == 0xfc && b[17]&0xf8 == 0xf8 && b[18]&0xf8 == 0xf8
	narr := int(b[22])
	off := 23
	for i := 0; i < narr; i++ {
		if len(b)-off < 3 {
			return c, fmt.Errorf("hvcC: truncated before array %d", i)
		}
		a := HEVCNALArray{Completeness: b[off]&0x80 != 0, NALType: b[off] & 0x3f}
		n := int(binary.BigEndian.Uint16(b[off+1:]))
		off += 3
		for j := 0; j < n; j++ {
			if len(b)-off < 2 {
				return c, fmt.Errorf("hvcC: truncated before NAL %d of array %d", j, i)
			}
			l := int(binary.BigEndian.Uint16(b[off:]))
			off += 2
			if len(b)-off < l {
				return c, fmt.Errorf("hvcC: NAL %d of array %d: length %d exceeds remaining %d", j, i, l, len(b)-off)
			}
			a.NALUs = append(a.NALUs, b[off:off+l])
			off += l
		}
		c.Arrays = append(c.Arrays, a)
	}
	c.Trailing = len(b) - off
	if c.Version != 1 {
		return c, fmt.Errorf("hvcC: configurationVersion %d", c.Version)
	}
	if c.Trailing != 0 {
		return c, fmt.Errorf("hvcC: %d trailing bytes", c.Trailing)
	}
	return c, nil
}

// NALUnescape removes emulation prevention bytes (00 00 03 -> 00 00) from a NAL unit.
func NALUnescape(nal []byte) []byte {
	out := make([]byte, 0, len(nal))
	zeros := 0
	for _, b := range nal {
		if zeros >= 2 && b == 3 {
			zeros = 0
			continue
		}
		if b == 0 {
			zeros++
		} else {
			zeros = 0
		}
		out = append(out, b)
	}
	return out
}

// HEVCGeneralPTL extracts the general profile_tier_level fields from an H.265 SPS (NAL type 33) or
// VPS (NAL type 32) NAL unit (with its 2-byte NAL header). In both, profile_tier_level() starts on a byte
// boundary: after 1 byte in the SPS, after 4 bytes in the VPS (H.265 7.3.2.1 / 7.3.2.2).
func HEVCGeneralPTL(nal []byte) (HEVCPTL, bool) {
	var p HEVCPTL
	if len(nal) < 2 {
		return p, false
	}
	typ := (nal[0] >> 1) & 0x3f
	r := NALUnescape(nal)
	off := 0
	switch typ {
	case 33:
		off = 2 + 1
	case 32:
		off = 2 + 4
	default:
		return p, false
	}
	if len(r) < off+12 {
		return p, false
	}
	p.ProfileSpace = r[off] >> 6
	p.Tier = (r[off] >> 5) & 1
	p.ProfileIDC = r[off] & 0x1f
	p.Compat = binary.BigEndian.Uint32(r[off+1:])
	p.Constraint = uint64(binary.BigEndian.Uint16(r[off+5:]))<<32 | uint64(binary.BigEndian.Uint32(r[off+7:]))
	p.Level = r[off+11]
	return p, true
}
