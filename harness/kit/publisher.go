package kit

import (
	"fmt"
	"sync/atomic"
	"time"
)

// Publisher is a real RTSP RECORD session feeding a stream of unique-id frames.
type Publisher struct {
	C        *RTSPClient
	Path     string
	stop     int32
	done     chan struct{}
	Sent     int64
	FastTime bool // advance media time by 1 s per frame so that HLS segments accumulate quickly
}

// StartPublisher connects, performs ANNOUNCE/SETUP/RECORD (with optional Digest credentials) and starts
// sending one video frame every `every` (IDR every 5th frame) plus an audio frame every 3rd.
func StartPublisher(srv *Server, path, user, pass string, fastTime bool, every time.Duration) (*Publisher, int, error) {
	cl, err := DialRTSP(srv.Addr)
	if err != nil {
		return nil, 0, err
	}
	cl.User, cl.Pass = user, pass
	code, err := cl.Publish(srv.URL(path), SDPH264AAC)
	if err != nil {
		cl.Close()
		return nil, code, err
	}
	p := &Publisher{C: cl, Path: path, done: make(chan struct{}), FastTime: fastTime}
	go func() {
		defer close(p.done)
		var vts, ats uint32 = 1000, 1000
		var aseq uint16
		for i := 0; atomic.LoadInt32(&p.stop) == 0; i++ {
			typ := byte(1)
			if i%5 == 0 {
				typ = 5
			}
			pk := MakeRTP(ChVideo, 96, true, uint16(i), vts, 77, H264NAL(2, typ, 80, uint64(i)+1))
			if cl.WriteFrame(0, pk.Data) != nil {
				return
			}
			if i%3 == 0 {
				ap := MakeRTP(ChAudio, 97, true, aseq, ats, 78, AACHbr([][]byte{AACAU(40, uint64(i)+1)}))
				aseq++
				if cl.WriteFrame(2, ap.Data) != nil {
					return
				}
			}
			if fastTime {
				vts += 90000
				ats += 44100 * 3
			} else {
				vts += 3600
				ats += 1024
			}
			atomic.AddInt64(&p.Sent, 1)
			time.Sleep(every)
		}
	}()
	return p, 200, nil
}

// Stop ends the publisher (closing its connection, which unregisters the stream).
func (p *Publisher) Stop() {
	atomic.StoreInt32(&p.stop, 1)
	p.C.Close()
	<-p.done
}

func (p *Publisher) String() string {
	return fmt.Sprintf("publisher(%s sent=%d)", p.Path, atomic.LoadInt64(&p.Sent))
}
