package kit

import (
	"sync/atomic"
	"time"
)

// Waiting for a state that decides a verdict must not make the machine's speed part of the verdict. WaitUntil waits
// the caller's bound d; when the state has not been reached by then and d >= 1 s, it keeps waiting up to Patience more
// (far beyond any scheduling delay measured in this sandbox: loopback round trips of 10-30 s under 16 saturated
// race-instrumented shards) before reporting false. A state that is genuinely never reached is therefore still reported,
// only later; after WaitBudget such reports in one process the extension is dropped so that a tree in which many
// scenarios hang still finishes within the shard's time limit. Both outcomes are counted into the evidence.
var (
	Patience           = 60 * time.Second
	WaitBudget   int64 = 3
	waitsSlow    int64 // extended and then satisfied
	waitsExpired int64 // extended and still not satisfied
)

func poll(cond func() bool, d time.Duration) bool {
	deadline := time.Now().Add(d)
	for i := 0; ; i++ {
		if cond() {
			return true
		}
		if time.Now().After(deadline) {
			return false
		}
		if i < 50 {
			time.Sleep(50 * time.Microsecond)
		} else {
			time.Sleep(time.Millisecond)
		}
	}
}

// WaitUntil polls cond; see the package comment above.
func WaitUntil(cond func() bool, d time.Duration) bool {
	if poll(cond, d) {
		return true
	}
	if d < time.Second || atomic.LoadInt64(&waitsExpired) >= WaitBudget {
		return false
	}
	if poll(cond, Patience) {
		atomic.AddInt64(&waitsSlow, 1)
		return true
	}
	atomic.AddInt64(&waitsExpired, 1)
	return false
}

// WaitStats returns (extended-then-satisfied, extended-and-expired).
func WaitStats() (int64, int64) { return atomic.LoadInt64(&waitsSlow), atomic.LoadInt64(&waitsExpired) }
