package checks

import (
	"fmt"
	"math/rand"

	"verifharness/kit"

	"github.com/cnotch/ipchub/av/format/rtp"
)

// pubPkt is one published packet together with the generator's own knowledge of what it carries
// (ground truth for the reference cache model; never derived from ipchub's classifier).
type pubPkt struct {
	p        *rtp.Packet
	idx      int
	hash     uint64
	video    bool
	hasSPS   bool
	hasPPS   bool
	hasVPS   bool
	hasSlice bool // carries (the start of) a non-parameter-set video NAL
	keyAny   bool // carries the first bytes of an IDR/IRAP slice NAL (single, inside an aggregate, or FU start)
	keyStart bool // ... and that slice is the first slice of its picture (start of a key frame)
	pureParm bool // carries only parameter sets
	desc     string
}

type seqOpts struct {
	codec      string // H264 | H265
	gops       int
	gopLen     int  // pictures per GOP (incl. the key picture)
	audio      bool // interleave audio packets
	rtcp       bool // sprinkle RTCP sender reports
	inbandPS   int  // 0 none, 1 separate packets before each key frame, 2 aggregated with the first IDR slice, 3 aggregated SPS+PPS packet then IDR
	multiSlice int  // slices per picture (1..3)
	fragProb   int  // 0..100: probability a slice is sent as FU
	maxNal     int
	firstNoKey int // number of non-key pictures before the first key frame
}

// genSeq produces a publish sequence.
func genSeq(rng *rand.Rand, o seqOpts, idBase uint64) []pubPkt {
	var out []pubPkt
	seq := uint16(rng.Intn(65536))
	aseq := uint16(rng.Intn(65536))
	ts := uint32(rng.Intn(1 << 24))
	ats := uint32(rng.Intn(1 << 24))
	id := idBase
	h265 := o.codec == "H265"
	nal := func(kind string, size int) []byte {
		id++
		if h265 {
			t := map[string]byte{"sps": 33, "pps": 34, "vps": 32, "idr": []byte{19, 20, 21, 16}[rng.Intn(4)], "p": []byte{1, 0}[rng.Intn(2)], "sei": 39}[kind]
			return kit.H265NAL(t, 1, size, id)
		}
		t := map[string]byte{"sps": 7, "pps": 8, "idr": 5, "p": 1, "sei": 6}[kind]
		return kit.H264NAL(3, t, size, id)
	}
	add := func(pp pubPkt) {
		pp.idx = len(out)
		pp.hash, _ = kit.HashPack(pp.p)
		out = append(out, pp)
	}
	vpkt := func(payload []byte, marker bool, pp pubPkt) {
		pp.p = kit.MakeRTP(kit.ChVideo, 96, marker, seq, ts, 0xabc, payload)
		pp.video = true
		seq++
		add(pp)
	}
	aggregate := func(nals [][]byte) []byte {
		if h265 {
			return kit.H265AP(nals)
		}
		return kit.H264StapA(nals)
	}
	fragment := func(n []byte, frag int) [][]byte {
		if h265 {
			return kit.H265FU(n, frag)
		}
		return kit.H264FuA(n, frag)
	}
	slices := func(kind string, isKey bool, prefix [][]byte, prefixFlags pubPkt) {
		ns := 1
		if o.multiSlice > 1 {
			ns = 1 + rng.Intn(o.multiSlice)
		}
		for s := 0; s < ns; s++ {
			size := 8 + rng.Intn(o.maxNal)
			n := nal(kind, size)
			last := s == ns-1
			flags := pubPkt{hasSlice: true, keyAny: isKey, keyStart: isKey && s == 0}
			if s == 0 && len(prefix) > 0 {
				// parameter sets aggregated with the first slice
				flags.hasSPS, flags.hasPPS, flags.hasVPS = prefixFlags.hasSPS, prefixFlags.hasPPS, prefixFlags.hasVPS
				flags.desc = fmt.Sprintf("agg[ps+%s]", kind)
				vpkt(aggregate(append(append([][]byte{}, prefix...), n)), last, flags)
				continue
			}
			if rng.Intn(100) < o.fragProb && size > 12 {
				frs := fragment(n, 4+rng.Intn(size-6))
				for k, f := range frs {
					fl := pubPkt{hasSlice: k == 0, desc: fmt.Sprintf("fu-%s-%d/%d", kind, k, len(frs))}
					if k == 0 {
						fl.keyAny, fl.keyStart = flags.keyAny, flags.keyStart
					}
					vpkt(f, last && k == len(frs)-1, fl)
				}
				continue
			}
			if rng.Intn(6) == 0 {
				flags.desc = "agg[" + kind + "]"
				vpkt(aggregate([][]byte{n}), last, flags)
			} else {
				flags.desc = kind
				vpkt(n, last, flags)
			}
		}
	}
	audio := func() {
		if !o.audio {
			return
		}
		k := 1 + rng.Intn(3)
		var aus [][]byte
		for j := 0; j < k; j++ {
			id++
			aus = append(aus, kit.AACAU(1+rng.Intn(300), id))
		}
		p := kit.MakeRTP(kit.ChAudio, 97, true, aseq, ats, 0xdef, kit.AACHbr(aus))
		aseq++
		ats += uint32(1024 * k)
		add(pubPkt{p: p, desc: fmt.Sprintf("aac*%d", k)})
	}
	rtcp := func() {
		if !o.rtcp || rng.Intn(4) != 0 {
			return
		}
		ch := byte(kit.ChVideoC)
		if rng.Intn(2) == 0 {
			ch = kit.ChAudioC
		}
		add(pubPkt{p: kit.MakeControl(ch, kit.RTCPSR(0xabc, 3900000000+uint32(len(out)), 0, ts, 1, 1)), desc: "rtcp"})
	}
	picture := func(isKey bool) {
		if isKey {
			var ps [][]byte
			var pf pubPkt
			mk := func() {
				ps = nil
				if h265 {
					ps = append(ps, nal("vps", 20+rng.Intn(10)))
				}
				ps = append(ps, nal("sps", 20+rng.Intn(10)), nal("pps", 6+rng.Intn(4)))
				pf = pubPkt{hasSPS: true, hasPPS: true, hasVPS: h265}
			}
			switch o.inbandPS {
			case 1:
				mk()
				for i, n := range ps {
					f := pubPkt{pureParm: true}
					switch {
					case h265 && i == 0:
						f.hasVPS, f.desc = true, "vps"
					case (h265 && i == 1) || (!h265 && i == 0):
						f.hasSPS, f.desc = true, "sps"
					default:
						f.hasPPS, f.desc = true, "pps"
					}
					vpkt(n, false, f)
				}
				slices("idr", true, nil, pubPkt{})
			case 2:
				mk()
				slices("idr", true, ps, pf)
			case 3:
				mk()
				pf.pureParm = true
				pf.desc = "agg[ps]"
				vpkt(aggregate(ps), false, pf)
				slices("idr", true, nil, pubPkt{})
			default:
				slices("idr", true, nil, pubPkt{})
			}
		} else {
			if rng.Intn(5) == 0 {
				vpkt(nal("sei", 10+rng.Intn(20)), false, pubPkt{hasSlice: true, desc: "sei"})
			}
			slices("p", false, nil, pubPkt{})
		}
		ts += 3000
	}
	for i := 0; i < o.firstNoKey; i++ {
		picture(false)
		audio()
	}
	for g := 0; g < o.gops; g++ {
		for k := 0; k < o.gopLen; k++ {
			picture(k == 0)
			audio()
			rtcp()
		}
	}
	return out
}

func describeSeq(seq []pubPkt) []string {
	var out []string
	for _, p := range seq {
		fl := ""
		if p.keyStart {
			fl += "K"
		} else if p.keyAny {
			fl += "k"
		}
		if p.hasSPS {
			fl += "S"
		}
		if p.hasPPS {
			fl += "P"
		}
		if p.hasVPS {
			fl += "V"
		}
		out = append(out, fmt.Sprintf("%d:%s%s[%d]", p.idx, p.desc, map[bool]string{true: "{" + fl + "}", false: ""}[fl != ""], len(p.p.Data)))
	}
	return out
}
