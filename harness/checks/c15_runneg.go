package checks

import (
	"encoding/base64"
	"encoding/hex"
	"fmt"
	"math/rand"
	"runtime"
	"time"

	"verifharness/kit"

	"github.com/cnotch/ipchub/av/codec"
	"github.com/cnotch/ipchub/av/codec/aac"
	"github.com/cnotch/ipchub/av/codec/h264"
	"github.com/cnotch/ipchub/av/codec/hevc"
	"github.com/cnotch/ipchub/utils"
)

// entry points fed with arbitrary bytes
type c15Entry struct {
	name  string
	codec string
	call  func(b []byte)
}

func c15Entries() []c15Entry {
	return []c15Entry{
		{"h264.RawSPS.Decode", "h264", func(b []byte) {
			var s h264.RawSPS
			if s.Decode(b) == nil {
				_, _, _, _ = s.Width(), s.Height(), s.FrameRate(), s.IsFixedFrameRate()
			}
		}},
		{"hevc.H265RawSPS.Decode", "hevc-sps", func(b []byte) {
			var s hevc.H265RawSPS
			if s.Decode(b) == nil {
				_, _, _, _ = s.Width(), s.Height(), s.FrameRate(), s.IsFixedFrameRate()
			}
		}},
		{"hevc.H265RawVPS.Decode", "hevc-vps", func(b []byte) {
			var s hevc.H265RawVPS
			_ = s.Decode(b)
		}},
		{"aac.AudioSpecificConfig.Decode", "aac", func(b []byte) {
			var a aac.AudioSpecificConfig
			if a.Decode(b) == nil {
				_ = a.ToAdtsHeader(100)
			}
		}},
		{"h264.MetadataIsReady", "h264", func(b []byte) {
			_ = h264.MetadataIsReady(&codec.VideoMeta{Codec: "H264", Sps: b, Pps: c15PPS264})
		}},
		{"hevc.MetadataIsReady", "hevc-sps", func(b []byte) {
			_ = hevc.MetadataIsReady(&codec.VideoMeta{Codec: "H265", Vps: c15VPS265, Sps: b, Pps: c15PPS265})
		}},
		{"aac.MetadataIsReady", "aac", func(b []byte) {
			_ = aac.MetadataIsReady(&codec.AudioMeta{Codec: "AAC", Sps: b})
		}},
		{"utils.RemoveH264or5EmulationBytes", "nal", func(b []byte) {
			out := utils.RemoveH264or5EmulationBytes(b)
			if len(out) > len(b) {
				panic("emulation byte removal grew the buffer")
			}
		}},
		{"h264.RawSPS.DecodeString", "h264", func(b []byte) {
			var s h264.RawSPS
			_ = s.DecodeString(base64.StdEncoding.EncodeToString(b))
			_ = s.DecodeString(string(b))
		}},
		{"hevc.H265RawSPS.DecodeString", "hevc-sps", func(b []byte) {
			var h hevc.H265RawSPS
			_ = h.DecodeString(base64.StdEncoding.EncodeToString(b))
			_ = h.DecodeString(string(b))
		}},
		{"hevc.H265RawVPS.DecodeString", "hevc-vps", func(b []byte) {
			var v hevc.H265RawVPS
			_ = v.DecodeString(string(b))
		}},
		{"aac.AudioSpecificConfig.DecodeString", "aac", func(b []byte) {
			var a aac.AudioSpecificConfig
			_ = a.DecodeString(hex.EncodeToString(b))
			_ = a.DecodeString(string(b))
		}},
	}
}

// c15VpsHrdCount parses b as a VPS per H.265 7.3.2.1 / 7.3.3 up to vps_num_hrd_parameters with an independent reader and
// returns that count (0 when the syntax does not get that far). It is used only to keep inputs that make ipchub
// allocate hundreds of MB (one ~7.6 KB structure per signalled hrd_parameters(), count read as 16 bits) out of the
// bulk runs; such an input is fed once, in shard 0, as a measured probe.
func c15VpsHrdCount(b []byte) int {
	if len(b) >= 4 && b[0] == 0 && b[1] == 0 && b[2] == 0 && b[3] == 1 {
		b = b[4:]
	} else if len(b) >= 3 && b[0] == 0 && b[1] == 0 && b[2] == 1 {
		b = b[3:]
	}
	r := kit.NewBitReader(kit.StripEmulationPrevention(b))
	r.Skip(1)
	if r.U(6) != 32 {
		return 0
	}
	r.Skip(9 + 4 + 2 + 6)
	maxSub := int(r.U(3))
	r.Skip(1 + 16)
	r.Skip(88 + 8) // general profile + level
	var pp, lp [8]bool
	for i := 0; i < maxSub; i++ {
		pp[i], lp[i] = r.U(1) == 1, r.U(1) == 1
	}
	if maxSub > 0 {
		r.Skip(2 * (8 - maxSub))
	}
	for i := 0; i < maxSub; i++ {
		if pp[i] {
			r.Skip(88)
		}
		if lp[i] {
			r.Skip(8)
		}
	}
	start := maxSub
	if r.U(1) == 1 {
		start = 0
	}
	for i := start; i <= maxSub; i++ {
		r.Ue()
		r.Ue()
		r.Ue()
	}
	maxLayerID := int(r.U(6))
	sets := int(r.Ue() & 0xffff)
	if r.Err {
		return 0
	}
	r.Skip(sets * (maxLayerID + 1))
	if r.Err || r.U(1) == 0 {
		return 0
	}
	r.Skip(64)
	if r.U(1) == 1 {
		r.Ue()
	}
	n := int(r.Ue() & 0xffff)
	if r.Err {
		return 0
	}
	return n
}

const c15VpsHrdLimit = 512 // ~4 MB

// feed passes one input to the selected entry points (mask bit i = entry i); returns false when an entry point hung too often.
func (k *c15) feed(entries []c15Entry, mask uint, b []byte, class string) {
	for i := range entries {
		if mask&(1<<uint(i)) == 0 {
			continue
		}
		e := &entries[i]
		if e.codec == "hevc-vps" && c15VpsHrdCount(b) > c15VpsHrdLimit {
			k.count("negative_vps_inputs_withheld(predicted_allocation_of_more_than_512_hrd_structures)", 1)
			continue
		}
		if k.hangs[e.codec] >= 1 {
			k.count("negative_calls_skipped_after_a_hang:"+e.name, 1)
			continue
		}
		in := b
		g := c15Guard(func() { e.call(in) })
		k.negCalls[i]++
		k.guardFinding(e.codec, e.name, g, b, map[string]interface{}{"input_class": class, "len": len(b)})
	}
}

func (k *c15) pre(class string, b []byte) {
	c15Pre(k.c, "negative "+class+" "+hex.EncodeToString(b))
}

// c15Mutate derives a hostile input from a valid set.
func c15Mutate(rng *rand.Rand, valid []byte) ([]byte, string) {
	b := append([]byte(nil), valid...)
	switch rng.Intn(7) {
	case 0:
		for n := 1 + rng.Intn(3); n > 0; n-- {
			p := rng.Intn(len(b) * 8)
			b[p>>3] ^= 0x80 >> uint(p&7)
		}
		return b, "bit-flip"
	case 1:
		return b[:rng.Intn(len(b)+1)], "truncation"
	case 2:
		p := rng.Intn(len(b))
		b[p] = byte(rng.Intn(256))
		return b, "byte-replace"
	case 3:
		p := rng.Intn(len(b) + 1)
		ins := []byte{0, 0, 3}
		if rng.Intn(2) == 0 {
			ins = []byte{0, 0, 0, 1}
		}
		return append(b[:p:p], append(ins, b[p:]...)...), "insert-00-00-03-or-start-code"
	case 4:
		p := rng.Intn(len(b))
		q := p + 1 + rng.Intn(8)
		if q > len(b) {
			q = len(b)
		}
		for i := p; i < q; i++ {
			b[i] = []byte{0x00, 0xff}[rng.Intn(2)]
		}
		return b, "zero-or-ff-run"
	case 5:
		p := rng.Intn(len(b))
		return append(b[:p:p], b[p+1:]...), "byte-delete"
	}
	cut := rng.Intn(len(b) + 1)
	tail := make([]byte, rng.Intn(40))
	rng.Read(tail)
	return append(b[:cut:cut], tail...), "valid-prefix-random-tail"
}

func c15RandomInput(rng *rand.Rand, prefixes [][]byte) ([]byte, string) {
	n := rng.Intn(513)
	if rng.Intn(3) == 0 {
		n = rng.Intn(24)
	}
	b := make([]byte, n)
	class := "random"
	switch rng.Intn(5) {
	case 0:
		rng.Read(b)
	case 1: // sparse: mostly zero with a few bits (long Exp-Golomb prefixes)
		for i := 0; i < 1+n/16; i++ {
			if n > 0 {
				b[rng.Intn(n)] = byte(1 << uint(rng.Intn(8)))
			}
		}
		class = "sparse-zero"
	case 2: // dense ones
		for i := range b {
			b[i] = 0xff
		}
		for i := 0; i < n/16; i++ {
			b[rng.Intn(n)] = byte(rng.Intn(256))
		}
		class = "dense-ff"
	case 3: // random with emulation prevention patterns
		rng.Read(b)
		for i := 0; i+3 <= n && i < 200; i += 3 + rng.Intn(20) {
			b[i], b[i+1], b[i+2] = 0, 0, byte(rng.Intn(4))
		}
		class = "random-with-00-00-0x"
	default:
		rng.Read(b)
	}
	if rng.Intn(10) < 7 && len(prefixes) > 0 {
		p := prefixes[rng.Intn(len(prefixes))]
		b = append(append([]byte(nil), p...), b...)
		if len(b) > 512 {
			b = b[:512]
		}
		class += "+valid-prefix"
	}
	return b, class
}

func (k *c15) runNegative() {
	c := k.c
	entries := c15Entries()
	all := uint(1)<<uint(len(entries)) - 1

	// valid sets used as prefixes / mutation seeds
	rng0 := c.SubRng("c15-neg-seeds", 0)
	var seeds [4][][]byte // h264, hevc sps, hevc vps, asc
	for i := 0; i < 40; i++ {
		a, _ := m264Gen(rng0).encode(nil)
		b, _ := m265Gen(rng0).encode(nil)
		v := m265GenVPS(rng0)
		for v.NumLayerSets > 8 {
			v = m265GenVPS(rng0)
		}
		vv, _ := v.encode(nil)
		d, _, _ := mascGen(rng0).encode()
		seeds[0], seeds[1], seeds[2], seeds[3] = append(seeds[0], a), append(seeds[1], b), append(seeds[2], vv), append(seeds[3], d)
	}
	prefixes := [][]byte{{0x67}, {0x67, 0x64, 0x00, 0x1f}, {0x27, 0x64, 0x00, 0x28, 0xac}, {0x42, 0x01}, {0x40, 0x01}, {0x42, 0x01, 0x01, 0x01, 0x60, 0, 0, 3, 0, 0x90, 0, 0, 3, 0, 0, 3, 0, 0x5d},
		{0x40, 0x01, 0x0c, 0x01, 0xff, 0xff, 0x01, 0x60, 0, 0, 3, 0, 0x90, 0, 0, 3, 0, 0, 3, 0, 0x5d}, {0, 0, 0, 1, 0x67}, {0, 0, 1, 0x42, 0x01}, {0x12, 0x10}, {0x2b, 0x92, 0x08, 0x00}}
	for s := 0; s < 3; s++ {
		for i := 0; i < 6; i++ {
			v := seeds[s][i]
			prefixes = append(prefixes, v[:len(v)/2], v[:len(v)-1])
		}
	}

	// (1) exhaustive short strings, raw and behind structural prefixes
	maxLen := c.Pick(2, 3)
	short := [][]byte{nil, {0x67, 0x64, 0x00, 0x1f}, prefixes[5], prefixes[6], {0x12}, {0xf8}}
	idx := 0
	var total int64
	for pi, pre := range short {
		lim := maxLen
		if pi > 0 && maxLen == 3 {
			lim = 2 // prefixed variants stay at <= 2 free bytes
		}
		for l := 0; l <= lim; l++ {
			cnt := 1 << uint(8*l)
			for base := 0; base < cnt; base += 256 {
				idx++
				if !c.Mine(idx) {
					continue
				}
				c15Pre(k.c, fmt.Sprintf("negative exhaustive prefix=%x len=%d block=%06x..", pre, l, base))
				for v := base; v < base+256 && v < cnt; v++ {
					b := append([]byte(nil), pre...)
					for j := l - 1; j >= 0; j-- {
						b = append(b, byte(v>>uint(8*j)))
					}
					k.feed(entries, all, b, "exhaustive-short")
					total++
				}
			}
		}
	}
	c.Eval(int(total))
	c.DistinctN(total)
	k.count("negative_exhaustive_short_inputs", total)
	c.Note("negative_exhaustive", fmt.Sprintf("all byte strings of length <= %d raw, and of length <= 2 behind %d structural prefixes, to %d entry points", maxLen, len(short)-1, len(entries)))

	// (2) seeded random strings <= 512 bytes
	nr := c.Pick(30000, 1500000)
	for i := 0; i < nr; i++ {
		if !c.Mine(i) {
			continue
		}
		rng := c.SubRng("c15-neg-rand", i)
		b, class := c15RandomInput(rng, prefixes)
		k.pre(class, b)
		k.feed(entries, all, b, class)
		k.count("negative_random_inputs", 1)
		k.c.SetAdd("negative_input_classes", class)
		c.Eval(1)
		c.Distinct(fmt.Sprintf("neg|%s|%d", class, len(b)/8))
	}

	// (3) mutations of valid sets
	nm := c.Pick(20000, 1000000)
	masks := []uint{1<<0 | 1<<4 | 1<<7 | 1<<8, 1<<1 | 1<<5 | 1<<7 | 1<<9, 1<<2 | 1<<7 | 1<<10, 1<<3 | 1<<6 | 1<<11}
	for i := 0; i < nm; i++ {
		if !c.Mine(i) {
			continue
		}
		rng := c.SubRng("c15-neg-mut", i)
		kind := rng.Intn(4)
		var valid []byte
		if rng.Intn(3) == 0 {
			switch kind {
			case 0:
				valid, _ = m264Gen(rng).encode(nil)
			case 1:
				valid, _ = m265Gen(rng).encode(nil)
			default:
				valid = seeds[kind][rng.Intn(len(seeds[kind]))]
			}
		} else {
			valid = seeds[kind][rng.Intn(len(seeds[kind]))]
		}
		b, class := c15Mutate(rng, valid)
		class = []string{"h264", "hevc-sps", "hevc-vps", "asc"}[kind] + ":" + class
		k.pre(class, b)
		mask := masks[kind]
		if rng.Intn(8) == 0 {
			mask = all
		}
		k.feed(entries, mask, b, class)
		k.count("negative_mutated_inputs", 1)
		k.c.SetAdd("negative_input_classes", class)
		c.Eval(1)
		c.Distinct(fmt.Sprintf("mut|%s|%d", class, len(b)/8))
	}

	// (4) SDP carrying hostile sets -> NewStream must return a stream that relays RTP
	ns := c.Pick(1500, 32000)
	for i := 0; i < ns; i++ {
		if !c.Mine(i) {
			continue
		}
		rng := c.SubRng("c15-neg-sdp", i)
		kind := rng.Intn(3)
		var b []byte
		var class string
		switch rng.Intn(3) {
		case 0:
			b, class = c15RandomInput(rng, prefixes)
			if len(b) > 200 {
				b = b[:200]
			}
		case 1:
			b, class = c15Mutate(rng, seeds[[]int{0, 1, 3}[kind]][rng.Intn(40)])
		default:
			b = make([]byte, rng.Intn(4))
			rng.Read(b)
			class = "short"
			if kind < 2 && rng.Intn(2) == 0 {
				b = append([]byte{[]byte{0x67, 0x42}[kind]}, b...)
			}
		}
		var sdp, cn string
		switch kind {
		case 0:
			cn = "h264"
			pps := c15PPS264
			if rng.Intn(4) == 0 {
				pps, _ = c15Mutate(rng, c15PPS264)
			}
			sdp = sdpH264(b, pps, rng.Intn(3))
		case 1:
			cn = "hevc"
			vps, pps := c15VPS265, c15PPS265
			if rng.Intn(3) == 0 {
				vps, _ = c15Mutate(rng, seeds[2][rng.Intn(40)])
				if c15VpsHrdCount(vps) > c15VpsHrdLimit {
					vps = c15VPS265
				}
			}
			if rng.Intn(4) == 0 {
				pps, _ = c15Mutate(rng, c15PPS265)
			}
			sdp = sdpH265(vps, b, pps, rng.Intn(2))
		default:
			cn = "aac"
			sdp = sdpAAC(b, []int{44100, 48000, 0, 8000}[rng.Intn(4)], rng.Intn(3), rng.Intn(3) == 0)
		}
		res, g := k.stream(sdp, cn, true)
		c.Eval(1)
		k.count("negative_sdp_streams:"+cn, 1)
		c.Distinct(fmt.Sprintf("negsdp|%s|%s|%d", cn, class, len(b)/8))
		detail := map[string]interface{}{"case": i, "sdp": sdp, "set_hex": hex.EncodeToString(b), "input_class": class}
		if k.guardFinding("sdp-"+cn, "media.NewStream+relay", g, b, detail) {
			continue
		}
		if res.NilStrm {
			c.Violation("C15:sdp-"+cn+":newstream-returned-nil", detail)
			continue
		}
		k.relayVerdict(cn, res, detail)
	}
	for _, site := range kit.Log.TakePanics() {
		c.SetAdd("recovered_panic_sites_in_converters(hostile_sdp)", site)
	}
	for i := range entries {
		k.count("negative_calls:"+entries[i].name, k.negCalls[i])
	}
	// the withheld class, once, measured (shard 0 only so that the probes do not compete for memory)
	if c.Shard == 0 {
		// 72-byte VPS whose vps_num_hrd_parameters decodes (16-bit) as 65535
		probe, _ := hex.DecodeString("40013c0bffff0b00100000bc8000000300013c0000840502c1ec0000ffffe26921c2848000002000000302240240000003004000000ca10000000400000000000000400000000000")
		var before, after runtime.MemStats
		runtime.ReadMemStats(&before)
		c15Pre(c, "negative vps-allocation-probe "+hex.EncodeToString(probe))
		t0 := time.Now()
		g := c15Guard(func() { entries[2].call(probe) })
		el := time.Since(t0)
		runtime.ReadMemStats(&after)
		g.Slow = 0 // expected to be slow: measured in the note below, not an inconclusive outcome
		k.guardFinding("hevc-vps", entries[2].name, g, probe, map[string]interface{}{"input_class": "vps-allocation-probe"})
		c.Note("vps_allocation_probe(not judged)", map[string]interface{}{"input_hex": hex.EncodeToString(probe), "input_len": len(probe),
			"predicted_hrd_structures": c15VpsHrdCount(probe), "bytes_allocated_by_call": after.TotalAlloc - before.TotalAlloc, "seconds": el.Seconds()})
	}
}
