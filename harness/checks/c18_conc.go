package checks

import (
	"fmt"
	"os"
	"path/filepath"
	"sync/atomic"
	"time"

	"verifharness/kit"

	"github.com/cnotch/ipchub/provider/auth"
	"github.com/cnotch/ipchub/provider/route"
	"github.com/cnotch/ipchub/utils/verifhook"
)

// C18, edits concurrent with a flush: the periodic flush and the management API run on different goroutines. An
// edit that arrives while a flush is writing the file (held at a hook point inside utils.EncodeJSONFile) must not be
// lost: after one more flush (the shutdown flush) a restarted server loads the table including that edit.
//
// Forced ordering with a probe gate: the flush goroutine is held at json.written for at most 200 ms or until the
// concurrent edit has returned, whichever comes first - an implementation that serialises the edit behind the flush is
// observed as "edit-waited-for-the-flush", one that lets it through as "edit-completed-during-the-flush".

func c18ConcurrentFlush(c *kit.Ctx, tmp string) {
	rounds := c.Pick(8, 60)
	for ri := 0; ri < rounds; ri++ {
		if !c.Mine(ri) {
			continue
		}
		kind := []string{c18Route, c18Auth}[ri%2]
		edit := []string{"save-new", "delete-existing"}[(ri/2)%2]
		dir := filepath.Join(tmp, fmt.Sprintf("conc%d", ri))
		os.MkdirAll(dir, 0o755)
		file := filepath.Join(dir, c18FileName(kind))
		scen := fmt.Sprintf("concurrent-flush/%s/%s", kind, edit)
		c.Pre("C18 " + scen)
		if p := c18SutReset(kind, file); p != "" {
			c.Inconclusive("concurrent flush: reset: " + p)
			continue
		}
		save := func(name string) {
			if kind == c18Route {
				route.Save(&route.Route{Pattern: "/c18c/" + name, URL: "rtsp://10.1.1.1/" + name})
			} else {
				auth.Save(&auth.User{Name: "c18c" + name, Password: "pw" + name, PullAccess: "/x/" + name}, true)
			}
		}
		del := func(name string) {
			if kind == c18Route {
				route.Del("/c18c/" + name)
			} else {
				auth.Del("c18c" + name)
			}
		}
		flush := func() error {
			if kind == c18Route {
				return route.Flush()
			}
			return auth.Flush()
		}
		has := func(name string) bool {
			if kind == c18Route {
				return route.Get("/c18c/"+name) != nil
			}
			return auth.Get("c18c"+name) != nil
		}
		// a flushed table with two entries, then one pending edit so that the next flush has something to write
		save("a")
		save("b")
		if err := flush(); err != nil {
			c.Inconclusive("concurrent flush: first flush: " + err.Error())
			continue
		}
		save("pending")
		// hold the flush inside the file write
		var armed int32 = 1
		arrived, release := make(chan struct{}), make(chan struct{})
		verifhook.Set(func(name string, args []interface{}) {
			if name == "json.written" && atomic.CompareAndSwapInt32(&armed, 1, 0) {
				close(arrived)
				select {
				case <-release:
				case <-time.After(2 * time.Second):
				}
			}
		})
		fdone := make(chan error, 1)
		go func() { fdone <- flush() }()
		gate := true
		select {
		case <-arrived:
		case err := <-fdone:
			gate = false
			fdone <- err
		case <-time.After(20 * time.Second):
			gate = false
		}
		if !gate {
			verifhook.Set(nil)
			c.Inconclusive("concurrent flush: the flush did not reach json.written")
			<-fdone
			continue
		}
		edone := make(chan struct{})
		go func() {
			if edit == "save-new" {
				save("during")
			} else {
				del("a")
			}
			close(edone)
		}()
		order := "edit-waited-for-the-flush"
		select {
		case <-edone:
			order = "edit-completed-during-the-flush"
		case <-time.After(200 * time.Millisecond):
		}
		close(release)
		<-fdone
		<-edone
		verifhook.Set(nil)
		c.SetAdd("concurrent_flush_orders", kind+":"+order)
		// the in-memory table has the edit
		wantDuring, wantA := edit == "save-new", edit != "delete-existing"
		detail := map[string]interface{}{"scenario": scen, "order": order}
		if has("during") != wantDuring || has("a") != wantA {
			c.Violation("C18:concurrent-flush:memory-table-lost-the-edit:"+kind, detail)
		}
		// shutdown flush, restart
		if err := flush(); err != nil {
			c.Inconclusive("concurrent flush: shutdown flush: " + err.Error())
			continue
		}
		if p := c18SutReset(kind, file); p != "" {
			detail["panic"] = p
			c.Violation("C18:concurrent-flush:restart-cannot-load:"+kind, detail)
			continue
		}
		c.Eval(1)
		c.Distinct(scen + "/" + order)
		if has("during") != wantDuring || has("a") != wantA || !has("b") || !has("pending") {
			raw, _ := os.ReadFile(file)
			detail["file"] = string(raw)
			detail["after_restart"] = map[string]bool{"a": has("a"), "b": has("b"), "pending": has("pending"), "during": has("during")}
			c.Violation(fmt.Sprintf("C18:concurrent-flush:edit-made-during-a-flush-lost-after-restart:%s:%s", kind, edit), detail)
		}
		os.RemoveAll(dir)
	}
	_ = kit.Patience
}
