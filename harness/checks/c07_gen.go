package checks

import (
	"encoding/binary"
	"fmt"
	"math/rand"

	"verifharness/kit"
)

// C07 workload generator: the valid stream (uniquely identifiable units) and the fault enumeration.
// Everything here is harness-side: packets are built with kit's independent packetiser; nothing is
// derived from ipchub's parsers.

// c07proto is one packet before materialisation (sequence numbers are assigned when a run is built, so
// that the valid FU sequences stay gap-free whatever is injected in front of them).
type c07proto struct {
	ch      byte
	marker  bool
	tsStep  uint32 // RTP timestamp advance applied BEFORE this packet on its channel
	payload []byte // RTP payload (media channels) or the raw RTCP bytes (control channels)
	ids     []uint64
	hostile bool
	desc    string
}

const (
	c07IDBase    = uint64(0xC07) << 40
	c07IDHostile = c07IDBase | 0xD000 // ids of the damaged template units
	c07IDByst    = c07IDBase | 0xB000 // ids of the bystander stream
	c07SSRC      = 0x00c07c07
)

func c07nal(codec string, kind string, n int, id uint64) []byte {
	if codec == "H265" {
		t := map[string]byte{"idr": 19, "p": 1, "sei": 39}[kind]
		return kit.H265NAL(t, 1, n, id)
	}
	t := map[string]byte{"idr": 5, "p": 1, "sei": 6}[kind]
	return kit.H264NAL(2, t, n, id)
}

func c07agg(codec string, nals [][]byte) []byte {
	if codec == "H265" {
		return kit.H265AP(nals)
	}
	return kit.H264StapA(nals)
}

func c07fu(codec string, nal []byte, frag int) [][]byte {
	if codec == "H265" {
		return kit.H265FU(nal, frag)
	}
	return kit.H264FuA(nal, frag)
}

// c07seg is a run of valid packets between two injection points.
type c07valid struct {
	seg [4][]c07proto // prefix, suffix, tail (seg[3] unused, kept for the flush extension)
	ids []uint64      // every valid id in sending order
}

// c07ValidStream builds the valid packets of one codec. idBase separates target and bystander ids.
//
//	seg[0] prefix : IDR, AAC(1), P, P as 3 FU, AAC(2), aggregate(SEI,P)
//	seg[1] suffix : P, AAC(1), IDR as 3 FU, aggregate(P,P), AAC(2), P
//	seg[2] tail   : RTCP SR (video), RTCP SR (audio), P, AAC(1), sentinel IDR, sentinel AAC
//
// Injection points: "first" = before seg[0], "middle" = before seg[1], "last" = before seg[2].
// No sender report precedes an injection point: ipchub decodes sender reports only until the first one
// with a non-zero RTP timestamp has been accepted, so an earlier valid report would mask every RTCP case.
func c07ValidStream(codec string, idBase uint64) *c07valid {
	v := &c07valid{}
	id := idBase
	next := func() uint64 { id++; v.ids = append(v.ids, id); return id }
	vid := func(seg int, payload []byte, ids []uint64, marker bool, step uint32, desc string) {
		v.seg[seg] = append(v.seg[seg], c07proto{ch: kit.ChVideo, marker: marker, tsStep: step, payload: payload, ids: ids, desc: desc})
	}
	single := func(seg int, kind string, n int) {
		i := next()
		vid(seg, c07nal(codec, kind, n, i), []uint64{i}, true, 3000, "single-"+kind)
	}
	fu := func(seg int, kind string, n, frag int) {
		i := next()
		frs := c07fu(codec, c07nal(codec, kind, n, i), frag)
		for k, f := range frs {
			step := uint32(0)
			if k == 0 {
				step = 3000
			}
			vid(seg, f, []uint64{i}, k == len(frs)-1, step, fmt.Sprintf("fu-%s-%d/%d", kind, k, len(frs)))
		}
	}
	agg := func(seg int, kinds []string, n int) {
		var nals [][]byte
		var ids []uint64
		for _, k := range kinds {
			i := next()
			ids = append(ids, i)
			nals = append(nals, c07nal(codec, k, n, i))
		}
		vid(seg, c07agg(codec, nals), ids, true, 3000, fmt.Sprintf("agg%d", len(kinds)))
	}
	aac := func(seg int, n int, size int) {
		var aus [][]byte
		var ids []uint64
		for k := 0; k < n; k++ {
			i := next()
			ids = append(ids, i)
			aus = append(aus, kit.AACAU(size, i))
		}
		v.seg[seg] = append(v.seg[seg], c07proto{ch: kit.ChAudio, marker: true, tsStep: uint32(1024 * n), payload: kit.AACHbr(aus), ids: ids, desc: fmt.Sprintf("aac%d", n)})
	}
	sr := func(seg int, ch byte) {
		v.seg[seg] = append(v.seg[seg], c07proto{ch: ch, payload: kit.RTCPSR(c07SSRC, 0xe0000000, 0x80000000, 123456, 10, 1000), desc: "rtcp-sr"})
	}

	single(0, "idr", 40)
	aac(0, 1, 24)
	single(0, "p", 30)
	fu(0, "p", 61, 20)
	aac(0, 2, 20)
	agg(0, []string{"sei", "p"}, 18)

	single(1, "p", 33)
	aac(1, 1, 30)
	fu(1, "idr", 64, 21)
	agg(1, []string{"p", "p"}, 20)
	aac(1, 2, 16)
	single(1, "p", 26)

	sr(2, kit.ChVideoC)
	sr(2, kit.ChAudioC)
	single(2, "p", 28)
	aac(2, 1, 22)
	single(2, "idr", 44) // sentinel (video): the last video unit
	aac(2, 1, 26)        // sentinel (audio): the last audio unit
	return v
}

// c07inj is one hostile item: the packet(s) to inject. For fragmentation classes the group is the whole
// carrier unit with one fragment damaged (the carrier is the "one damaged unit" and is not judged).
type c07inj struct {
	class string // single | agg | fu-start | fu-mid | fu-end | fu-seq | aac | rtcp-v | rtcp-a
	name  string // structural name of the mutation, e.g. trunc/5, byte/2=ff
	group []c07proto
}

func c07hex(b []byte) string {
	if len(b) > 96 {
		return fmt.Sprintf("%x...(%d bytes)", b[:96], len(b))
	}
	return fmt.Sprintf("%x", b)
}

func c07clone(b []byte) []byte { return append([]byte(nil), b...) }

func c07setByte(b []byte, i int, v byte) []byte {
	o := c07clone(b)
	o[i] = v
	return o
}

// c07Templates are the valid packets the mutations start from (their ids are the damaged units).
type c07tpl struct {
	single []byte
	agg    []byte
	aggN   [][]byte // the aggregated NAL units
	fu     [][]byte // 3 fragments
	aac    []byte
	aacAU  [][]byte
	sr     []byte
}

func c07Templates(codec string, variant int) *c07tpl {
	t := &c07tpl{}
	sz := []int{30, 90, 16}[variant%3]
	an := []int{14, 40, 13}[variant%3]
	fn := []int{49, 130, 22}[variant%3]
	fr := []int{16, 43, 7}[variant%3]
	t.single = c07nal(codec, "p", sz, c07IDHostile|1)
	na := 2 + variant%3%2 // 2,3,2
	for k := 0; k < na; k++ {
		t.aggN = append(t.aggN, c07nal(codec, "p", an, c07IDHostile|uint64(2+k)))
	}
	t.agg = c07agg(codec, t.aggN)
	t.fu = c07fu(codec, c07nal(codec, "p", fn, c07IDHostile|6), fr)
	if len(t.fu) != 3 {
		panic(fmt.Sprintf("harness bug: FU template has %d fragments", len(t.fu)))
	}
	nau := []int{2, 4, 1}[variant%3]
	for k := 0; k < nau; k++ {
		t.aacAU = append(t.aacAU, kit.AACAU(an, c07IDHostile|uint64(8+k)))
	}
	t.aac = kit.AACHbr(t.aacAU)
	t.sr = kit.RTCPSR(c07SSRC, 0xe1000000, 0x40000000, 654321, 20, 2000)
	return t
}

func c07vpkt(payload []byte, marker bool, step uint32, desc string) c07proto {
	return c07proto{ch: kit.ChVideo, marker: marker, tsStep: step, payload: payload, hostile: true, desc: desc}
}

// c07Mutations enumerates the hostile items for one codec. full=false gives the quick list (value set of
// the task), full=true widens byte corruption to all 256 values on the first 4 bytes, adds template
// variants and seeded random garbage.
func c07Mutations(c *kit.Ctx, codec string, full bool) []c07inj {
	var out []c07inj
	nvar := 1
	if full {
		nvar = 3
	}
	for variant := 0; variant < nvar; variant++ {
		t := c07Templates(codec, variant)
		vs := ""
		if variant > 0 {
			vs = fmt.Sprintf("v%d/", variant)
		}
		add := func(class, name string, group ...c07proto) {
			for i := range group {
				if group[i].hostile {
					group[i].desc = class + ":" + vs + name
				}
			}
			out = append(out, c07inj{class: class, name: vs + name, group: group})
		}
		fuGroup := func(k int, mutated []byte) []c07proto {
			var g []c07proto
			for j, f := range t.fu {
				step := uint32(0)
				if j == 0 {
					step = 3000
				}
				p := c07proto{ch: kit.ChVideo, marker: j == 2, tsStep: step, payload: f, desc: fmt.Sprintf("carrier-fu-%d/3", j), hostile: false}
				if j == k {
					p.payload = mutated
					p.hostile = true
				}
				g = append(g, p)
			}
			return g
		}
		// byte-level mutations common to all packet classes
		type base struct {
			class   string
			payload []byte
			wrap    func(mut []byte) []c07proto
		}
		bases := []base{
			{"single", t.single, func(m []byte) []c07proto { return []c07proto{c07vpkt(m, true, 3000, "")} }},
			{"agg", t.agg, func(m []byte) []c07proto { return []c07proto{c07vpkt(m, true, 3000, "")} }},
			{"fu-start", t.fu[0], func(m []byte) []c07proto { return fuGroup(0, m) }},
			{"fu-mid", t.fu[1], func(m []byte) []c07proto { return fuGroup(1, m) }},
			{"fu-end", t.fu[2], func(m []byte) []c07proto { return fuGroup(2, m) }},
			{"aac", t.aac, func(m []byte) []c07proto {
				return []c07proto{{ch: kit.ChAudio, marker: true, tsStep: 2048, payload: m, hostile: true}}
			}},
			{"rtcp-v", t.sr, func(m []byte) []c07proto { return []c07proto{{ch: kit.ChVideoC, payload: m, hostile: true}} }},
			{"rtcp-a", t.sr, func(m []byte) []c07proto { return []c07proto{{ch: kit.ChAudioC, payload: m, hostile: true}} }},
		}
		for _, b := range bases {
			// every truncation length 0..len-1 (0 = zero-length payload)
			if b.class != "rtcp-v" && b.class != "rtcp-a" { // RTCP lengths are enumerated below with every packet type
				for l := 0; l < len(b.payload); l++ {
					add(b.class, fmt.Sprintf("trunc/%d", l), b.wrap(c07clone(b.payload[:l]))...)
				}
			}
			// single-byte corruption of the first 8 payload bytes
			for i := 0; i < 8 && i < len(b.payload); i++ {
				old := b.payload[i]
				var vals []int
				if full && i < 4 && variant == 0 {
					for v := 0; v < 256; v++ {
						vals = append(vals, v)
					}
				} else {
					vals = []int{0x00, 0x7f, 0x80, 0xff, int(old + 1), int(old - 1)}
				}
				seen := map[int]bool{int(old): true}
				for _, v := range vals {
					if seen[v] {
						continue
					}
					seen[v] = true
					add(b.class, fmt.Sprintf("byte/%d=%02x", i, v), b.wrap(c07setByte(b.payload, i, byte(v)))...)
				}
			}
		}

		// ---- NAL type variants on a single NAL unit and on the FU type field, at several lengths
		var types []int
		if codec == "H265" {
			types = append(types, 0)
			for x := 48; x <= 63; x++ {
				types = append(types, x)
			}
		} else {
			types = append(types, 0)
			for x := 24; x <= 31; x++ {
				types = append(types, x)
			}
		}
		// ordinary types (slice, IDR/IRAP, SEI, parameter sets, AUD, filler) as very short units
		ordinary := []int{1, 5, 6, 7, 8, 9, 12}
		if codec == "H265" {
			ordinary = []int{1, 19, 20, 21, 32, 33, 34, 35, 39, 40}
		}
		for _, ty := range ordinary {
			for _, l := range []int{1, 2, 3, 4} {
				p := c07clone(t.single[:l])
				if codec == "H265" {
					p[0] = byte(ty) << 1
				} else {
					p[0] = p[0]&0xe0 | byte(ty)
				}
				add("single", fmt.Sprintf("shortnal/type%d/len%d", ty, l), c07vpkt(p, true, 3000, ""))
			}
		}
		for _, ty := range types {
			for _, l := range []int{1, 2, 3, 4, 5, 6, len(t.single)} {
				p := c07clone(t.single[:l])
				if codec == "H265" {
					p[0] = byte(ty) << 1
				} else {
					p[0] = p[0]&0xe0 | byte(ty)
				}
				add("single", fmt.Sprintf("naltype/%d/len%d", ty, l), c07vpkt(p, true, 3000, ""))
			}
			// FU type field = reserved / aggregation / fragmentation type, on all three fragments
			var g []c07proto
			for j, f := range t.fu {
				m := c07clone(f)
				if codec == "H265" {
					m[2] = m[2]&0xc0 | byte(ty)
				} else {
					m[1] = m[1]&0xe0 | byte(ty)
				}
				step := uint32(0)
				if j == 0 {
					step = 3000
				}
				g = append(g, c07vpkt(m, j == 2, step, ""))
			}
			add("fu-seq", fmt.Sprintf("futype/%d", ty), g...)
		}

		// ---- fragmentation sequences that break the S/E protocol
		fhdr := 1
		if codec == "H265" {
			fhdr = 2
		}
		flag := func(f []byte, set, clr byte) []byte {
			m := c07clone(f)
			m[fhdr] = m[fhdr]&^clr | set
			return m
		}
		hv := func(p []byte, marker bool, first bool) c07proto {
			step := uint32(0)
			if first {
				step = 3000
			}
			return c07vpkt(p, marker, step, "")
		}
		add("fu-start", "S+E", fuGroup(0, flag(t.fu[0], 0xc0, 0))...)
		add("fu-mid", "S+E", fuGroup(1, flag(t.fu[1], 0xc0, 0))...)
		add("fu-end", "S+E", fuGroup(2, flag(t.fu[2], 0xc0, 0))...)
		add("fu-seq", "S+E-alone", hv(flag(t.fu[0], 0xc0, 0), true, true))
		add("fu-seq", "end-without-start", hv(t.fu[2], true, true))
		add("fu-seq", "mid-end-without-start", hv(t.fu[1], false, true), hv(t.fu[2], true, false))
		add("fu-seq", "start-without-end", hv(t.fu[0], false, true))
		add("fu-seq", "start-mid-without-end", hv(t.fu[0], false, true), hv(t.fu[1], false, false))
		add("fu-seq", "start-twice", hv(t.fu[0], false, true), hv(t.fu[0], false, false), hv(t.fu[1], false, false), hv(t.fu[2], true, false))
		add("fu-seq", "end-twice", hv(t.fu[0], false, true), hv(t.fu[1], false, false), hv(t.fu[2], true, false), hv(t.fu[2], true, false))
		add("fu-seq", "no-flags", hv(flag(t.fu[0], 0, 0xc0), false, true), hv(t.fu[1], false, false), hv(flag(t.fu[2], 0, 0xc0), true, false))
		add("fu-seq", "start-is-header-only", hv(c07clone(t.fu[0][:fhdr+1]), false, true), hv(t.fu[1], false, false), hv(t.fu[2], true, false))
		add("fu-seq", "all-header-only", hv(c07clone(t.fu[0][:fhdr+1]), false, true), hv(c07clone(t.fu[1][:fhdr+1]), false, false), hv(c07clone(t.fu[2][:fhdr+1]), true, false))
		add("fu-seq", "end-is-indicator-only", hv(t.fu[0], false, true), hv(t.fu[1], false, false), hv(c07clone(t.fu[2][:fhdr]), true, false))

		// ---- aggregation packets: size fields beyond the packet / zero, dangling bytes
		ah := 1
		if codec == "H265" {
			ah = 2
		}
		n0 := len(t.aggN[0])
		off2 := ah + 2 + n0 // offset of the second size field
		rem1 := len(t.agg) - ah - 2
		rem2 := len(t.agg) - off2 - 2
		setSize := func(off int, v int) []byte {
			m := c07clone(t.agg)
			binary.BigEndian.PutUint16(m[off:], uint16(v))
			return m
		}
		for _, v := range []int{0, 1, n0 - 1, n0 + 1, rem1 - 1, rem1, rem1 + 1, 0x7fff, 0xffff} {
			add("agg", fmt.Sprintf("size1=%d(rem%+d)", v, v-rem1), c07vpkt(setSize(ah, v), true, 3000, ""))
		}
		for _, v := range []int{0, 1, rem2 - 1, rem2 + 1, rem2 + 2, 0x7fff, 0xffff} {
			add("agg", fmt.Sprintf("size2=%d(rem%+d)", v, v-rem2), c07vpkt(setSize(off2, v), true, 3000, ""))
		}
		for _, extra := range [][]byte{{0x00}, {0x01}, {0xff}, {0x00, 0x00}, {0x00, 0x01}, {0x00, 0x05}, {0xff, 0xff}, {0x00, 0x01, 0x41}, {0x00, 0x00, 0x00}} {
			add("agg", "dangling/"+c07hex(extra), c07vpkt(append(c07clone(t.agg), extra...), true, 3000, ""))
		}
		for _, tail := range [][]byte{{}, {0x00}, {0xff}, {0x00, 0x00}, {0x00, 0x01}, {0xff, 0xff}, {0x00, 0x01, 0x41}, {0x00, 0x02, 0x41}, {0xff, 0xff, 0x41}} {
			add("agg", "header+"+c07hex(tail), c07vpkt(append(c07clone(t.agg[:ah]), tail...), true, 3000, ""))
		}

		// ---- AAC-hbr: AU-headers-length and AU sizes beyond the packet
		nau := len(t.aacAU)
		apkt := func(m []byte) c07proto {
			return c07proto{ch: kit.ChAudio, marker: true, tsStep: uint32(1024 * nau), payload: m, hostile: true}
		}
		for _, bits := range []int{0, 1, 8, 15, 16, 16*nau - 1, 16*nau + 1, 16 * (nau + 1), 16 * (nau + 8), 0x7ff0, 0xfff0, 0xffff} {
			m := c07clone(t.aac)
			binary.BigEndian.PutUint16(m, uint16(bits))
			add("aac", fmt.Sprintf("au-headers-length=%d", bits), apkt(m))
		}
		ausz := len(t.aacAU[0])
		total := ausz * nau
		for k := 0; k < nau && k < 2; k++ {
			for _, v := range []int{0, 1, ausz + 1, total, total + 1, 0x1000, 0x1fff} {
				m := c07clone(t.aac)
				binary.BigEndian.PutUint16(m[2+2*k:], uint16(v)<<3)
				add("aac", fmt.Sprintf("au-size%d=%d", k, v), apkt(m))
			}
		}
		add("aac", "headers-only", apkt(c07clone(t.aac[:2+2*nau])))
		add("aac", "count-without-headers", apkt([]byte{byte(16 * nau >> 8), byte(16 * nau)}))
		add("aac", "all-ff/4", apkt([]byte{0xff, 0xff, 0xff, 0xff}))
		add("aac", "all-00/4", apkt([]byte{0, 0, 0, 0}))
		add("aac", "all-ff/64", apkt(c07fill(64, 0xff)))

		// ---- RTCP: every length 0..28 with sender-report and other packet types; control-channel garbage
		if variant == 0 {
			for _, cc := range []struct {
				class string
				ch    byte
			}{{"rtcp-v", kit.ChVideoC}, {"rtcp-a", kit.ChAudioC}} {
				for _, pt := range []int{200, 201, 202, 203, 204, 0, 255} {
					for l := 0; l <= 28; l++ {
						m := c07clone(t.sr[:l])
						if l >= 2 {
							m[1] = byte(pt)
						}
						if l < 2 && pt != 200 {
							continue // identical to the PT 200 case
						}
						add(cc.class, fmt.Sprintf("len/%d/pt%d", l, pt), c07proto{ch: cc.ch, payload: m, hostile: true})
					}
				}
				for _, g := range []struct {
					n string
					b []byte
				}{
					{"ff/1", c07fill(1, 0xff)}, {"ff/2", c07fill(2, 0xff)}, {"ff/19", c07fill(19, 0xff)}, {"ff/20", c07fill(20, 0xff)},
					{"ff/64", c07fill(64, 0xff)}, {"ff/1500", c07fill(1500, 0xff)}, {"00/28", c07fill(28, 0)}, {"c8/8", c07fill(8, 200)}, {"c8/17", c07fill(17, 200)},
					{"sr-len-field-ffff", func() []byte { m := c07clone(t.sr); m[2], m[3] = 0xff, 0xff; return m }()},
					{"sr-ntp-zero", func() []byte { m := c07clone(t.sr); copy(m[8:16], make([]byte, 8)); return m }()},
					{"sr-ntp-ff", func() []byte { m := c07clone(t.sr); copy(m[8:16], c07fill(8, 0xff)); return m }()},
					{"sr-rtptime-ffffffff", func() []byte { m := c07clone(t.sr); copy(m[16:20], c07fill(4, 0xff)); return m }()},
					{"rtp-on-control-channel", func() []byte {
						return kit.MakeRTP(kit.ChVideo, 96, true, 1, 1, c07SSRC, t.single).Data
					}()},
				} {
					add(cc.class, "garbage/"+g.n, c07proto{ch: cc.ch, payload: g.b, hostile: true})
				}
				nr := 8
				if full {
					nr = 400
				}
				for k := 0; k < nr; k++ {
					rng := rand.New(rand.NewSource(c.Seed*7919 + int64(k)*31 + int64(cc.ch)))
					l := rng.Intn(40)
					b := make([]byte, l)
					rng.Read(b)
					if l >= 2 && k%2 == 0 {
						b[1] = 200
					}
					add(cc.class, fmt.Sprintf("random/%d/len%d", k, l), c07proto{ch: cc.ch, payload: b, hostile: true})
				}
			}
			// seeded random payloads on the media channels (structure-free garbage)
			nr := 12
			if full {
				nr = 1500
			}
			for k := 0; k < nr; k++ {
				rng := rand.New(rand.NewSource(c.Seed*104729 + int64(k)))
				l := rng.Intn(48)
				b := make([]byte, l)
				rng.Read(b)
				if k%3 == 0 {
					add("aac", fmt.Sprintf("random/%d/len%d", k, l), c07proto{ch: kit.ChAudio, marker: true, tsStep: 1024, payload: b, hostile: true})
					continue
				}
				if l > 0 && k%3 == 1 { // bias the first byte to the aggregation / fragmentation types
					if codec == "H265" {
						b[0] = byte(48+rng.Intn(2)) << 1
					} else {
						b[0] = b[0]&0xe0 | byte(24+rng.Intn(6))
					}
				}
				add("single", fmt.Sprintf("random/%d/len%d", k, l), c07vpkt(b, true, 3000, ""))
			}
		}
	}
	return out
}

func c07fill(n int, v byte) []byte {
	b := make([]byte, n)
	for i := range b {
		b[i] = v
	}
	return b
}

// c07Bystander is the short valid stream published on the second stream: pre = before the injection,
// post = after the target's suffix.
func c07Bystander() (pre, post []c07proto, ids []uint64) {
	id := c07IDByst
	single := func(kind string, n int) c07proto {
		id++
		ids = append(ids, id)
		return c07proto{ch: kit.ChVideo, marker: true, tsStep: 3000, payload: c07nal("H264", kind, n, id), ids: []uint64{id}, desc: "by-" + kind}
	}
	aac := func() c07proto {
		id++
		ids = append(ids, id)
		return c07proto{ch: kit.ChAudio, marker: true, tsStep: 1024, payload: kit.AACHbr([][]byte{kit.AACAU(20, id)}), ids: []uint64{id}, desc: "by-aac"}
	}
	pre = []c07proto{single("idr", 36), aac(), single("p", 24)}
	post = []c07proto{single("p", 27), aac(), single("idr", 38), aac()}
	return
}
