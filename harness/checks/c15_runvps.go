package checks

import (
	"encoding/hex"
	"fmt"
	"math/rand"
	"strings"

	"verifharness/kit"

	"github.com/cnotch/ipchub/av/codec/hevc"
)

func (k *c15) decodeVPS(nal []byte) (string, *hevc.H265RawVPS, c15Guarded) {
	var errs string
	vps := new(hevc.H265RawVPS)
	c15Pre(k.c, "hevc.H265RawVPS.Decode "+hex.EncodeToString(nal))
	g := c15Guard(func() {
		if err := vps.Decode(nal); err != nil {
			errs = c15ErrBrief(err.Error())
		}
	})
	return errs, vps, g
}

func diffVPS(m *m265VPS, r *hevc.H265RawVPS) c15Diff {
	d := c15Diff{}
	d.cmp("nal-header", "nal_unit_type", 32, int64(r.Nal_unit_header.Nal_unit_type))
	d.cmp("vps-header", "vps_video_parameter_set_id", int64(m.ID), int64(r.Vps_video_parameter_set_id))
	d.cmp("vps-header", "vps_max_layers_minus1", int64(m.MaxLayers), int64(r.Vps_max_layers_minus1))
	d.cmp("vps-header", "vps_max_sub_layers_minus1", int64(m.MaxSubLayers), int64(r.Vps_max_sub_layers_minus1))
	d.cmp("vps-header", "vps_temporal_id_nesting_flag", c15b(m.Nesting), int64(r.Vps_temporal_id_nesting_flag))
	diffPTL(&d, &m.PTL, &r.Profile_tier_level)
	d.cmp("sub-layer-ordering-info", "vps_sub_layer_ordering_info_present_flag", c15b(m.OrderPresent), int64(r.Vps_sub_layer_ordering_info_present_flag))
	for i := 0; i <= m.MaxSubLayers; i++ {
		o := m.Order[i]
		if !m.OrderPresent {
			o = m.Order[m.MaxSubLayers]
		}
		d.cmp("sub-layer-ordering-info", fmt.Sprintf("vps_max_dec_pic_buffering_minus1[%d]", i), int64(o.MaxDec), int64(r.Vps_max_dec_pic_buffering_minus1[i]))
		d.cmp("sub-layer-ordering-info", fmt.Sprintf("vps_max_num_reorder_pics[%d]", i), int64(o.MaxReorder), int64(r.Vps_max_num_reorder_pics[i]))
		d.cmp("sub-layer-ordering-info", fmt.Sprintf("vps_max_latency_increase_plus1[%d]", i), int64(o.MaxLatency), int64(r.Vps_max_latency_increase_plus1[i]))
	}
	d.cmp("layer-sets", "vps_max_layer_id", int64(m.MaxLayerID), int64(r.Vps_max_layer_id))
	d.cmp("layer-sets", "vps_num_layer_sets_minus1", int64(m.NumLayerSets), int64(r.Vps_num_layer_sets_minus1))
	d.cmp("timing-info", "vps_timing_info_present_flag", c15b(m.Timing), int64(r.Vps_timing_info_present_flag))
	if m.Timing {
		d.cmp("timing-info", "vps_num_units_in_tick", int64(m.NumUnits), int64(r.Vps_num_units_in_tick))
		d.cmp("timing-info", "vps_time_scale", int64(m.TimeScale), int64(r.Vps_time_scale))
	}
	return d
}

func (k *c15) evalVPS(m *m265VPS, st *kit.BitStats) *c15Eval {
	e := &c15Eval{}
	var ls kit.BitStats
	e.Nal, e.Epb = m.encode(&ls)
	e.MaxUe = ls.MaxUe
	if st != nil {
		m.encode(st)
	}
	var raw *hevc.H265RawVPS
	e.Out.Err, raw, e.Guard = k.decodeVPS(e.Nal)
	if e.Guard.Hung || e.Guard.Panic != "" {
		return e
	}
	e.Diff = diffVPS(m, raw)
	if e.Out.Err != "" {
		e.Problems = []string{"rejected"}
	} else if e.Diff.Found {
		e.Problems = []string{"field:" + e.Diff.Field}
	}
	return e
}

func directedVPS() []*m265VPS {
	ptl := m265PTL{General: m265SubPTL{Idc: 1, Compat: 1 << 30, Flags4: 9, Level: 93}}
	base := func() *m265VPS {
		return &m265VPS{TidPlus1: 1, BaseInternal: true, BaseAvl: true, Nesting: true, PTL: ptl.clone(), OrderPresent: true,
			Order: []m265Order{{MaxDec: 4, MaxReorder: 2, MaxLatency: 5}}, Timing: true, NumUnits: 1001, TimeScale: 30000}
	}
	var out []*m265VPS
	out = append(out, base())
	// three sub-layers
	v := base()
	v.MaxSubLayers = 2
	v.PTL.Sub = []m265SubPTL{{}, {ProfilePresent: true, LevelPresent: true, Idc: 1, Compat: 1 << 30, Level: 90}}
	v.Order = []m265Order{{MaxDec: 2, MaxReorder: 1, MaxLatency: 3}, {MaxDec: 3, MaxReorder: 2, MaxLatency: 4}, {MaxDec: 4, MaxReorder: 3, MaxLatency: 5}}
	out = append(out, v)
	v = v.clone()
	v.OrderPresent = false
	out = append(out, v)
	// two hrd_parameters(), the second one without common information (inherits NAL HRD presence)
	v = base()
	v.NumLayerSets = 1
	v.Included = [][]bool{{true}}
	mk := func() *m265HRD {
		return &m265HRD{Nal: true, InitLen: 23, AuLen: 23, DpbLn: 23, Layers: []m265HRDLayer{{FixedGeneral: true, ElemDuration: 0, CpbCnt: 1,
			Nal: m265SubHRD{BitRate: []uint64{1000}, CpbSize: []uint64{2000}, CpbSizeDu: []uint64{0}, BitRateDu: []uint64{0}, Cbr: []bool{true}},
			Vcl: m265SubHRD{BitRate: []uint64{1000}, CpbSize: []uint64{2000}, CpbSizeDu: []uint64{0}, BitRateDu: []uint64{0}, Cbr: []bool{true}}}}}
	}
	v.Hrds = []m265VPSHrd{{LayerSetIdx: 0, Cprms: true, Hrd: mk()}, {LayerSetIdx: 1, Cprms: false, Hrd: mk()}}
	out = append(out, v)
	// a generated VPS (fixed generator seed) whose second hrd_parameters() has cprms_present_flag = 0 and whose
	// sub-layer HRD values make a parser that does not inherit the NAL/VCL presence flags run off the end
	out = append(out, m265GenVPS(rand.New(rand.NewSource(91739))))
	for _, v := range out {
		v.normalize()
	}
	return out
}

func (k *c15) runHevcVPS() {
	c := k.c
	feats := m265VPSFeatures()
	dir := directedVPS()
	n := c.Pick(600, 60000)
	for i := 0; i < len(dir)+n; i++ {
		if !c.Mine(i) {
			continue
		}
		var m *m265VPS
		if i < len(dir) {
			m = dir[i]
		} else {
			m = m265GenVPS(c.SubRng("c15-hevc-vps", i))
		}
		e := k.evalVPS(m, &k.stats)
		c.Eval(1)
		act := c15Active(m, feats)
		for _, a := range act {
			k.count("hevc_vps_branch:"+a, 1)
		}
		k.count("hevc_vps_valid_sets", 1)
		c.Distinct("hevc-vps|" + strings.Join(act, ",") + fmt.Sprintf("|%d|%d|%d", m.MaxSubLayers, bitLenU(uint64(m.NumLayerSets)), len(m.Hrds)))
		k.epbCoverage("hevc-vps", e.Nal, e.Epb)
		nalHex := hex.EncodeToString(e.Nal)
		if len(nalHex) > 4000 {
			nalHex = nalHex[:4000] + "...(regenerate from case index)"
		}
		k.sample("hevc-vps-valid", map[string]interface{}{"vps_hex": nalHex, "features": act})
		detail := map[string]interface{}{"case": i, "vps_hex": nalHex, "features": act, "err": e.Out.Err}
		if k.guardFinding("hevc-vps", "H265RawVPS.Decode", e.Guard, e.Nal, detail) {
			continue
		}
		if len(e.Problems) == 0 {
			k.count("hevc_vps_sets_accepted_with_equal_timing", 1)
			continue
		}
		k.count("hevc_vps_sets_with_mismatch", 1)
		detail["mismatch"] = e.Problems
		base := e.progress()
		sig := k.ueSig(e, detail)
		for _, f := range feats {
			if !f.active(m) || sig != "" {
				continue
			}
			v := m.clone()
			f.off(v)
			v.normalize()
			if ev := k.evalVPS(v, nil); ev.progress() > base {
				sig = "C15:hevc-vps:" + f.name
				break
			}
		}
		if sig == "" && e.Diff.Found {
			sig = "C15:hevc-vps:misparse:" + e.Diff.Group
			detail["first_divergent_field"] = e.Diff.Field
		}
		if sig == "" {
			sig = "C15:hevc-vps:valid-vps-rejected"
		}
		c.Violation(sig, detail)
	}
}
