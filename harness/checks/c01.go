package checks

import (
	"fmt"
	"math/rand"
	"sync"
	"sync/atomic"
	"time"

	"verifharness/kit"

	"github.com/cnotch/ipchub/av/format"
	"github.com/cnotch/ipchub/av/format/rtp"
	"github.com/cnotch/ipchub/config"
	"github.com/cnotch/ipchub/media"
)

// C01 — fan-out: every packet once, in order, unmodified, to every consumer (core part).
//
// Every published packet is a distinct object with a unique (ssrc, timestamp) id and a hash taken at
// publish time; recording consumers log (logical clock, object, hash at delivery). Offline oracle per
// consumer: at most once, publish order, hash equality, completeness over the attached interval,
// and equality of a consumer's record with and without the other consumers.

func init() { kit.Register("C01", runC01) }

type c01pkt struct {
	p    *rtp.Packet
	hash uint64
}

func c01Seq(rng *rand.Rand, n int, idBase uint32, keyEvery int) []c01pkt {
	out := make([]c01pkt, 0, n+1)
	var seqs [4]uint16
	for i := 0; i < n; i++ {
		ch := byte([]int{0, 0, 0, 2, 2, 1, 3}[rng.Intn(7)])
		var size int
		switch rng.Intn(12) {
		case 0:
			size = 0
		case 1:
			size = 65523 // 12-byte header + payload = 65535, the largest interleaved frame
		case 2:
			size = 1 + rng.Intn(3)
		case 3:
			size = 1400 + rng.Intn(100)
		default:
			size = 1 + rng.Intn(300)
		}
		var p *rtp.Packet
		if ch == kit.ChVideo {
			body := make([]byte, size)
			if size > 0 {
				// non-key, non-parameter-set first byte so that the GOP machinery stays out of C01's way:
				// dropping is only ever decided at key frames (C04), and these scenarios stay below the limit anyway
				kit.FillBody(body, uint64(idBase)<<32|uint64(i))
				body[0] = 0x41
				if keyEvery > 0 && i%keyEvery == 0 && size >= 3 {
					body[0] = 0x65 // IDR slice: starts a GOP in the cache (replay scenarios only)
				}
			}
			p = kit.MakeRTP(ch, 96, rng.Intn(2) == 0, seqs[ch], uint32(i), idBase, body)
		} else if ch == kit.ChAudio {
			// well-formed AAC-hbr payload (malformed payloads are C07's subject, not C01's)
			if size < 1 {
				size = 1
			}
			if size > 8000 {
				size = 8000
			}
			p = kit.MakeRTP(ch, 97, true, seqs[ch], uint32(i), idBase, kit.AACHbr([][]byte{kit.AACAU(size, uint64(idBase)<<32|uint64(i))}))
		} else {
			body := make([]byte, size)
			kit.FillBody(body, uint64(idBase)<<32|uint64(i))
			p = kit.MakeControl(ch, body)
		}
		seqs[ch]++
		h, _ := kit.HashPack(p)
		out = append(out, c01pkt{p, h})
	}
	// sentinel
	sp := kit.MakeRTP(kit.ChAudio, 97, true, 9, 0xffffffff, idBase, []byte{0, 16, 0, 8, 0xee})
	h, _ := kit.HashPack(sp)
	return append(out, c01pkt{sp, h})
}

var c01pathSeq int64

func c01Stream() *media.Stream {
	return media.NewStream(fmt.Sprintf("/c01/s%d", atomic.AddInt64(&c01pathSeq, 1)), kit.SDPH264AAC)
}

type c01consumer struct {
	r             *kit.RecConsumer
	attachAt      int // sequential mode: attach before publishing this index
	detachAt      int // sequential mode: detach after publishing this index-1 (n+1 = never)
	cid           media.CID
	t0, t1, tStop int64 // racy mode: ticks around attach, tick before stop
	stopped       bool
}

func c01IndexList(items []kit.RecItem, byPtr map[format.Packet]int) ([]int, bool) {
	out := make([]int, len(items))
	for i, it := range items {
		k, ok := byPtr[it.Pack]
		if !ok {
			return nil, false
		}
		out[i] = k
	}
	return out, true
}

// c01Basic checks at-most-once, order, hash.
func c01Basic(c *kit.Ctx, seq []c01pkt, items []kit.RecItem, idx []int, detail map[string]interface{}, where string) bool {
	last := -1
	seen := map[int]bool{}
	for j, k := range idx {
		if seen[k] {
			detail["packet"] = k
			c.Violation("C01:delivered-twice:"+where, detail)
			return false
		}
		seen[k] = true
		if k < last {
			detail["packet"] = k
			detail["after"] = last
			c.Violation("C01:out-of-order:"+where, detail)
			return false
		}
		last = k
		if items[j].Hash != seq[k].hash {
			detail["packet"] = k
			c.Violation("C01:payload-differs-at-delivery:"+where, detail)
			return false
		}
	}
	return true
}

func runC01(c *kit.Ctx) {
	kit.InstallHooks()
	config.VerifSet(false, false, "", 5)
	watch := 15 * time.Second
	nseq := c.Pick(120, 3000)

	// ---------- sequential, exact oracle + differential 1 vs N
	for ci := 0; ci < nseq; ci++ {
		if !c.Mine(ci) {
			continue
		}
		rng := c.SubRng("c01seq", ci)
		n := 20 + rng.Intn(200)
		if ci%10 == 0 {
			n = 700 + rng.Intn(200)
		}
		seq := c01Seq(rng, n, uint32(ci)+1, 0)
		byPtr := map[format.Packet]int{}
		for i, p := range seq {
			byPtr[p.p] = i
		}
		nc := []int{1, 2, 3, 8, 20, 64}[rng.Intn(6)]
		if c.Thorough() && ci%50 == 0 {
			nc = 64
		}
		cons := make([]*c01consumer, nc)
		for k := range cons {
			a := rng.Intn(n)
			d := n + 1
			if rng.Intn(3) == 0 {
				d = a + 1 + rng.Intn(n-a)
			}
			cons[k] = &c01consumer{r: &kit.RecConsumer{}, attachAt: a, detachAt: d}
		}
		cons[0].detachAt = n + 1 // at least one stays to the end
		c.Pre(fmt.Sprintf("C01 sequential %d", ci))
		run := func(only int) ([]*kit.RecConsumer, bool) {
			s := c01Stream()
			recs := make([]*kit.RecConsumer, nc)
			cids := make([]media.CID, nc)
			for i := 0; i <= n; i++ {
				for k, cc := range cons {
					if (only < 0 || only == k) && cc.attachAt == i {
						recs[k] = &kit.RecConsumer{}
						cids[k] = s.StartConsumeNoGopCache(recs[k], media.RTPPacket, "c01")
					}
				}
				s.WriteRtpPacket(seq[i].p)
				for k, cc := range cons {
					if (only < 0 || only == k) && cc.detachAt == i+1 && recs[k] != nil {
						// let the consumer drain first so that completeness up to the detach point is decidable
						want := i + 1 - cc.attachAt
						waitUntil(func() bool { return recs[k].Len() >= want }, watch)
						s.StopConsume(cids[k])
					}
				}
			}
			ok := waitUntil(func() bool {
				for k, cc := range cons {
					if recs[k] == nil || cc.detachAt <= n {
						continue
					}
					it := recs[k].Items()
					if len(it) == 0 || it[len(it)-1].Pack != seq[n].p {
						return false
					}
				}
				return true
			}, watch)
			s.Close()
			return recs, ok
		}
		recs, ok := run(-1)
		c.Eval(nc)
		c.Distinct(fmt.Sprintf("seq/n=%d/consumers=%d", n/50*50, nc))
		c.SetAdd("consumer_counts", fmt.Sprint(nc))
		if !ok {
			c.Inconclusive("sequential: sentinel not delivered")
			continue
		}
		detailBase := func(k int) map[string]interface{} {
			return map[string]interface{}{"case": ci, "consumer": k, "n": n, "consumers": nc, "attach_at": cons[k].attachAt, "detach_at": cons[k].detachAt}
		}
		for k, cc := range cons {
			items := recs[k].Items()
			idx, known := c01IndexList(items, byPtr)
			detail := detailBase(k)
			if !known {
				c.Violation("C01:unknown-packet-delivered:sequential", detail)
				continue
			}
			if !c01Basic(c, seq, items, idx, detail, "sequential") {
				continue
			}
			end := cc.detachAt
			if end > n+1 {
				end = n + 1
			}
			want := end - cc.attachAt
			if len(idx) != want || (len(idx) > 0 && (idx[0] != cc.attachAt || idx[len(idx)-1] != end-1)) {
				detail["got_count"] = len(idx)
				detail["want_count"] = want
				if len(idx) > 0 {
					detail["got_first_last"] = []int{idx[0], idx[len(idx)-1]}
				}
				if len(idx) < want {
					c.Violation("C01:packet-missing-while-attached:sequential", detail)
				} else {
					c.Violation("C01:packet-from-outside-attached-interval:sequential", detail)
				}
			}
		}
		// differential: consumer k alone must see exactly what it saw among N
		if nc > 1 {
			k := rng.Intn(nc)
			alone, ok2 := run(k)
			if !ok2 {
				c.Inconclusive("differential: sentinel not delivered")
			} else {
				a, _ := c01IndexList(alone[k].Items(), byPtr)
				b, _ := c01IndexList(recs[k].Items(), byPtr)
				same := len(a) == len(b)
				for i := 0; same && i < len(a); i++ {
					same = a[i] == b[i]
				}
				if !same {
					d := detailBase(k)
					d["alone_count"], d["among_n_count"] = len(a), len(b)
					c.Violation("C01:record-depends-on-other-consumers", d)
				}
				c.Count("differential_pairs_compared", 1)
			}
		}
		// packets must not have been modified after the fact either
		for i, p := range seq {
			if h, _ := kit.HashPack(p.p); h != p.hash {
				c.Violation("C01:packet-object-mutated", map[string]interface{}{"case": ci, "packet": i})
				break
			}
		}
		if ci < 2 {
			c.Sample(map[string]interface{}{"case": ci, "packets": n, "consumers": nc, "first_sizes": func() []int {
				var v []int
				for _, p := range seq[:8] {
					v = append(v, len(p.p.Data))
				}
				return v
			}()})
		}
	}

	// ---------- stalled peer: one consumer stops reading (its backlog passes the limit, it is dropped from at key frames);
	// the healthy consumers attached next to it must still receive every packet
	nstall := c.Pick(6, 120)
	for si := 0; si < nstall; si++ {
		if !c.Mine(si) {
			continue
		}
		rng := c.SubRng("c01stall", si)
		n := 1300 + rng.Intn(600)
		gop := 20 + rng.Intn(200)
		c.Pre(fmt.Sprintf("C01 stalled-peer %d", si))
		s := c01Stream()
		blocked := &kit.RecConsumer{Block: make(chan struct{})}
		nh := 1 + rng.Intn(8)
		healthy := make([]*kit.RecConsumer, nh)
		// attach order varies: the stalled one first, last or in the middle (sync.Map iteration order is random anyway)
		pos := rng.Intn(nh + 1)
		for k := 0; k <= nh; k++ {
			if k == pos {
				s.StartConsumeNoGopCache(blocked, media.RTPPacket, "blocked")
			}
			if k < nh {
				healthy[k] = &kit.RecConsumer{}
				s.StartConsumeNoGopCache(healthy[k], media.RTPPacket, "healthy")
			}
		}
		pkts := make([]*rtp.Packet, n)
		for i := 0; i < n; i++ {
			typ := byte(1)
			if i%gop == 0 {
				typ = 5
			}
			pkts[i] = kit.MakeRTP(kit.ChVideo, 96, true, uint16(i), uint32(i)*3000+1, uint32(si)+0x20000, kit.H264NAL(2, typ, 40, uint64(i)))
			s.WriteRtpPacket(pkts[i])
			if i%100 == 99 { // relative speed: let the healthy consumers keep up
				waitUntil(func() bool {
					for _, h := range healthy {
						if h.Len() < i-300 {
							return false
						}
					}
					return true
				}, watch)
			}
		}
		ok := waitUntil(func() bool {
			for _, h := range healthy {
				if h.Len() < n {
					it := h.Items()
					if len(it) == 0 || it[len(it)-1].Pack != pkts[n-1] {
						return false
					}
				}
			}
			return true
		}, watch)
		close(blocked.Block)
		s.Close()
		c.Eval(nh)
		c.Distinct(fmt.Sprintf("stalled-peer/healthy=%d/gop=%d", nh, gop/50*50))
		if !ok {
			c.Inconclusive("stalled-peer: last packet not delivered to every healthy consumer")
			continue
		}
		for k, h := range healthy {
			it := h.Items()
			exact := len(it) == n
			for i := 0; exact && i < n; i++ {
				exact = it[i].Pack == pkts[i]
			}
			if !exact {
				c.Violation("C01:healthy-consumer-misses-packets-while-a-peer-is-dropped-for-backlog", map[string]interface{}{
					"case": si, "consumer": k, "healthy_consumers": nh, "published": n, "received": len(it), "gop": gop})
				break
			}
		}
		c.Count("stalled_peer_scenarios", 1)
	}

	// ---------- racy: publisher × attach × detach with perturbation; interval oracle on the logical clock
	nrace := c.Pick(60, 2000)
	for ri := 0; ri < nrace; ri++ {
		if !c.Mine(ri) {
			continue
		}
		rng := c.SubRng("c01race", ri)
		n := 100 + rng.Intn(500)
		replay := ri%2 == 1 // joiners ask for the cache replay (parameter sets + current GOP), GOP cache on
		keyEvery := 0
		if replay {
			keyEvery = 10 + rng.Intn(30)
		}
		config.VerifSet(false, replay, "", 5)
		seq := c01Seq(rng, n, uint32(ri)+0x10000, keyEvery)
		byPtr := map[format.Packet]int{}
		for i, p := range seq {
			byPtr[p.p] = i
		}
		c.Pre(fmt.Sprintf("C01 racy %d", ri))
		s := c01Stream()
		pert := kit.H.Perturb([]string{"media.write.cached", "media.write.sent", "media.join.begin", "media.join.snapshotted", "media.join.registered",
			"media.consume.beforePop", "media.remove.loaded", "media.cclose.flagged"}, nil, int64(ri)*13+c.Seed, 0.3, 100*time.Microsecond)
		pubStart := make([]int64, n+1)
		pubEnd := make([]int64, n+1)
		var progress int64
		nc := 2 + rng.Intn(10)
		cons := make([]*c01consumer, nc)
		var wg sync.WaitGroup
		for k := range cons {
			cc := &c01consumer{r: &kit.RecConsumer{}, attachAt: rng.Intn(n), detachAt: n + 1}
			if rng.Intn(2) == 0 {
				cc.detachAt = cc.attachAt + rng.Intn(n-cc.attachAt)
			}
			cons[k] = cc
			wg.Add(1)
			go func(cc *c01consumer) {
				defer wg.Done()
				for atomic.LoadInt64(&progress) < int64(cc.attachAt) {
					time.Sleep(10 * time.Microsecond)
				}
				cc.t0 = kit.H.Tick()
				if replay {
					cc.cid = s.StartConsume(cc.r, media.RTPPacket, "race")
				} else {
					cc.cid = s.StartConsumeNoGopCache(cc.r, media.RTPPacket, "race")
				}
				cc.t1 = kit.H.Tick()
				if cc.detachAt <= n {
					for atomic.LoadInt64(&progress) < int64(cc.detachAt) {
						time.Sleep(10 * time.Microsecond)
					}
					cc.tStop = kit.H.Tick()
					s.StopConsume(cc.cid)
					cc.stopped = true
				}
			}(cc)
		}
		for i := 0; i < n; i++ {
			pubStart[i] = kit.H.Tick()
			s.WriteRtpPacket(seq[i].p)
			pubEnd[i] = kit.H.Tick()
			atomic.StoreInt64(&progress, int64(i+1))
		}
		atomic.StoreInt64(&progress, int64(n+1))
		wg.Wait()
		pubStart[n] = kit.H.Tick()
		s.WriteRtpPacket(seq[n].p)
		pubEnd[n] = kit.H.Tick()
		ok := waitUntil(func() bool {
			for _, cc := range cons {
				if cc.stopped {
					continue
				}
				it := cc.r.Items()
				if len(it) == 0 || it[len(it)-1].Pack != seq[n].p {
					return false
				}
			}
			return true
		}, watch)
		kit.RemoveAll(pert)
		s.Close()
		c.Eval(nc)
		c.Distinct(fmt.Sprintf("race/n=%d/consumers=%d/replay=%v", n/100*100, nc, replay))
		if !ok {
			c.Inconclusive("racy: sentinel not delivered")
			continue
		}
		for k, cc := range cons {
			items := cc.r.Items()
			idx, known := c01IndexList(items, byPtr)
			detail := map[string]interface{}{"case": ri, "consumer": k, "n": n, "consumers": nc, "stopped": cc.stopped}
			if !known {
				c.Violation("C01:unknown-packet-delivered:racy", detail)
				continue
			}
			if !c01Basic(c, seq, items, idx, detail, "racy") {
				continue
			}
			got := map[int]bool{}
			for _, i := range idx {
				got[i] = true
			}
			// nothing published entirely before the attach began may be delivered (no replay requested)
			for _, i := range idx {
				if replay {
					break // the replayed GOP legitimately predates the attach (its shape is C02's subject)
				}
				if pubEnd[i] < cc.t0 {
					detail["packet"] = i
					c.Violation("C01:packet-from-before-attach-delivered:racy", detail)
					break
				}
			}
			// completeness: published after attach returned (and, for stopped consumers, contiguity up to the last delivered one)
			lastGot := -1
			if len(idx) > 0 {
				lastGot = idx[len(idx)-1]
			}
			for i := 0; i <= n; i++ {
				if pubStart[i] <= cc.t1 {
					continue
				}
				if cc.stopped {
					if i > lastGot {
						break
					}
				}
				if !got[i] {
					detail["packet"] = i
					c.Violation("C01:packet-missing-while-attached:racy", detail)
					break
				}
			}
			// a stopped consumer must not get anything published after the stop returned... (stop happened-before publish)
			if cc.stopped {
				c.Count("racy_stopped_consumers", 1)
			} else {
				c.Count("racy_consumers_to_the_end", 1)
			}
		}
	}
	config.VerifSet(false, false, "", 5)
	c01RunTransports(c)
}
