package checks

import (
	"fmt"
	"strings"
	"time"

	"verifharness/kit"

	"github.com/cnotch/ipchub/media"
)

// C12 over WSP: RTSP requests wrapped in WSP WRAP commands on the control channel, media on the data channel.
// Same oracle as c12.go with the automaton restricted to what a WSP session can do (play only).

type c12wState struct {
	phase     string // init | ready | playing | closed
	described bool
}

func c12wExpect(st c12wState, sym string) (string, func(int) c12wState) {
	same := func(int) c12wState { return st }
	switch sym {
	case "OPTIONS":
		return "200", same
	case "TEARDOWN":
		return "200", func(int) c12wState { return c12wState{phase: "closed"} }
	case "DESCRIBE":
		if st.phase != "init" {
			return "455", same
		}
		return "200", func(c int) c12wState {
			if c == 200 {
				return c12wState{phase: "init", described: true}
			}
			return st
		}
	case "SETUP_v", "SETUP_a":
		if st.phase == "playing" {
			return "455", same
		}
		if !st.described {
			return "refuse", same
		}
		return "200", func(c int) c12wState {
			if c == 200 {
				return c12wState{phase: "ready", described: true}
			}
			return st
		}
	case "SETUP_udp", "SETUP_record":
		if st.phase == "playing" {
			return "455", same
		}
		return "refuse", same // WebSocket sessions only do interleaved play
	case "PLAY":
		switch st.phase {
		case "playing":
			return "any", same
		case "ready":
			return "200", func(c int) c12wState {
				if c == 200 {
					return c12wState{phase: "playing", described: true}
				}
				return st
			}
		default:
			return "455", same
		}
	case "PAUSE":
		if st.phase == "playing" {
			return "any", same // WSP implements PAUSE while playing; the statement does not fix its code
		}
		return "refuse", same
	case "ANNOUNCE", "RECORD", "FOO":
		return "refuse", same
	}
	return "refuse", same
}

func c12wRun(c *kit.Ctx, env *c12env, seq []string) {
	names := strings.Join(seq, ",")
	c.Pre("C12 wsp " + names)
	w, err := wspDial(env.srv.Addr, env.srcPath)
	if err != nil {
		c.Inconclusive("wsp dial: " + err.Error())
		return
	}
	defer w.close()
	// data-channel monitor: frames before a successful PLAY are a violation
	frames := make(chan int, 1024)
	go func() {
		for {
			w.data.SetReadDeadline(time.Now().Add(60 * time.Second))
			_, msg, err := w.data.ReadMessage()
			if err != nil {
				close(frames)
				return
			}
			select {
			case frames <- len(msg):
			default:
			}
		}
	}()
	cl := &kit.RTSPClient{}
	base := env.srv.URL(env.srcPath)
	st := c12wState{phase: "init"}
	detail := map[string]interface{}{"transport": "wsp", "sequence": seq}
	var trail []string
	played := false
	session := ""
	for i, sym := range seq {
		if st.phase == "closed" {
			break
		}
		want, next := c12wExpect(st, sym)
		method, uri, hdr := sym, base, map[string]string{}
		switch sym {
		case "SETUP_v":
			method, uri, hdr["Transport"] = "SETUP", base+"/streamid=0", "RTP/AVP/TCP;unicast;interleaved=0-1"
		case "SETUP_a":
			method, uri, hdr["Transport"] = "SETUP", base+"/streamid=1", "RTP/AVP/TCP;unicast;interleaved=2-3"
		case "SETUP_udp":
			method, uri, hdr["Transport"] = "SETUP", base+"/streamid=0", "RTP/AVP;unicast;client_port=41000-41001"
		case "SETUP_record":
			method, uri, hdr["Transport"] = "SETUP", base+"/streamid=0", "RTP/AVP/TCP;unicast;interleaved=0-1;mode=record"
		}
		req := cl.BuildRequest(method, uri, hdr, "")
		// drain frames seen so far
		nBefore := 0
		for len(frames) > 0 {
			<-frames
			nBefore++
		}
		if nBefore > 0 && !played {
			detail["trail"] = trail
			c.Violation("C12:media-before-successful-play:wsp", detail)
			return
		}
		resp, raw, err := w.wrap(req)
		detail["step"], detail["state"] = i, fmt.Sprint(st)
		if err != nil {
			detail["error"], detail["raw"] = err.Error(), raw
			detail["trail"] = trail
			if kit.ErrTimeout(err) {
				c.Violation(fmt.Sprintf("C12:no-response:%s:in-%s:wsp", sym, st.phase), detail)
			} else if strings.Contains(err.Error(), "exactly one") || strings.Contains(err.Error(), "extra bytes") || strings.Contains(err.Error(), "is not one complete WSP response") {
				c.Violation("C12:wsp-response-not-exactly-one-rtsp-response:"+sym, detail)
			} else {
				c.Violation(fmt.Sprintf("C12:connection-closed-without-response:%s:in-%s:wsp", sym, st.phase), detail)
			}
			return
		}
		trail = append(trail, fmt.Sprintf("%s->%d", sym, resp.Code))
		if got, _ := atoiSafe(resp.Get("CSeq")); got != cl.CSeq {
			detail["trail"] = trail
			c.Violation("C12:cseq-not-echoed:"+sym+":wsp", detail)
			return
		}
		if sid := resp.Get("Session"); sid == "" || (session != "" && sid != session) {
			detail["trail"] = trail
			c.Violation("C12:session-header-missing-or-changed:"+sym+":wsp", detail)
			return
		} else {
			session = sid
		}
		ok := false
		switch want {
		case "200":
			ok = resp.Code == 200
		case "455":
			ok = resp.Code == 455
		case "refuse":
			ok = resp.Code < 200 || resp.Code >= 300
		case "any":
			ok = true
		}
		if !ok {
			detail["status"], detail["admissible"], detail["trail"] = resp.Code, want, trail
			cls := "accepted-what-automaton-forbids"
			if want == "200" {
				cls = "refused-what-automaton-allows"
			} else if want == "455" && (resp.Code < 200 || resp.Code >= 300) {
				cls = "refused-with-other-status-than-455"
			}
			c.Violation(fmt.Sprintf("C12:%s:%s:in-%s:wsp", cls, sym, st.phase), detail)
			return
		}
		st = next(resp.Code)
		if sym == "PLAY" && resp.Code == 200 {
			played = true
		}
	}
	w.close()
	if !waitUntil(func() bool {
		return kit.Snapshot().Wsp == env.baseline.Wsp && env.src.ConsumerCount() == 0
	}, 6*time.Second) {
		detail["counters"], detail["trail"] = kit.Snapshot().String(), trail
		if env.src.ConsumerCount() != 0 {
			c.Violation("C12:release:consumer-left-attached:wsp", detail)
		} else {
			c.Violation("C12:release:connection-counter-not-restored:wsp", detail)
		}
	}
	c.Eval(1)
	c.Distinct("wsp/" + names)
	c.SetAdd("final_states", "wsp:"+st.phase)
	for _, t := range trail {
		c.SetAdd("transitions_observed", "wsp:"+t)
	}
	_ = media.StreamOK
}

func c12RunWSP(c *kit.Ctx, env *c12env) {
	alpha := []string{"OPTIONS", "DESCRIBE", "SETUP_v", "SETUP_a", "SETUP_udp", "SETUP_record", "PLAY", "PAUSE", "TEARDOWN", "ANNOUNCE", "RECORD", "FOO"}
	var jobs [][]string
	var gen func(prefix []string, depth int)
	gen = func(prefix []string, depth int) {
		if len(prefix) > 0 {
			jobs = append(jobs, append([]string{}, prefix...))
		}
		if depth == 0 {
			return
		}
		for _, a := range alpha {
			gen(append(prefix, a), depth-1)
		}
	}
	gen(nil, c.Pick(2, 3))
	// the legal path and a few deep sequences
	jobs = append(jobs, []string{"DESCRIBE", "SETUP_v", "SETUP_a", "PLAY", "PAUSE", "PLAY", "OPTIONS", "SETUP_v", "TEARDOWN"},
		[]string{"DESCRIBE", "SETUP_v", "PLAY", "DESCRIBE", "ANNOUNCE", "RECORD", "PLAY", "TEARDOWN"},
		[]string{"DESCRIBE", "SETUP_record", "SETUP_v", "PLAY", "FOO", "PAUSE", "PAUSE", "PLAY"})
	for i := 0; i < c.Pick(100, 4000); i++ {
		r := c.GlobalRng("c12wsp", i)
		var s []string
		for k := 0; k < 3+r.Intn(8); k++ {
			s = append(s, alpha[r.Intn(len(alpha))])
		}
		jobs = append(jobs, s)
	}
	c.Note("wsp_sequences_total", len(jobs))
	for ji, j := range jobs {
		if c.Mine(ji) {
			c12wRun(c, env, j)
		}
	}
}
