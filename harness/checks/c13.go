package checks

import (
	"bufio"
	"bytes"
	"fmt"
	"os"
	"runtime"
	"strings"
	"sync"
	"sync/atomic"
	"time"

	"verifharness/kit"

	"github.com/cnotch/ipchub/media"
	"github.com/gorilla/websocket"
)

// C13 — concurrent writers never tear messages on an interleaved connection.
//
// A real RECORD publisher pushes checksummed frames at full speed through the in-process server; a real
// player (TCP, ws-rtsp, WSP) keeps issuing OPTIONS / PLAY while media is delivered. The hook point
// between the 4-byte frame prefix and the payload carries seeded delays, so that a response would be forced
// into the gap if the session write lock did not span both writes. Oracle: the byte stream parses as
// complete responses and complete frames whose payload checksums verify; on WebSocket every message is
// exactly one item. Race-detector reports inside buffered.Conn reached from the two writers are escalated.

func init() { kit.Register("C13", runC13) }

func c13Frame(i int, size int) []byte {
	typ := byte(1)
	if i%25 == 0 {
		typ = 5
	}
	nal := kit.H264NAL(2, typ, size, uint64(i)+1)
	return kit.MakeRTP(kit.ChVideo, 96, true, uint16(i), uint32(i)*3000, 9, nal).Data
}

// c13CheckFrame verifies an RTP frame produced by c13Frame (12-byte header + NAL header + body with id/crc).
func c13CheckFrame(d []byte) (ok bool, why string) {
	if len(d) < 13 {
		return false, fmt.Sprintf("frame shorter than an RTP header + NAL header (%d)", len(d))
	}
	if d[0] != 0x80 {
		return false, fmt.Sprintf("RTP version byte %02x", d[0])
	}
	body := d[13:]
	if len(body) < 12 {
		return true, "" // too small to carry a checksum
	}
	if _, ok := kit.CheckBody(body); !ok {
		return false, "payload checksum mismatch"
	}
	return true, ""
}

type c13result struct {
	frames, responses, requests int
	torn                        string
	wsViol                      []string
}

func c13PlayerTCPorWS(c *kit.Ctx, srv *kit.Server, path, transport string, nreq int, stopPub *int32, videoOnly bool) c13result {
	var res c13result
	var cl *kit.RTSPClient
	var err error
	if transport == "ws" {
		cl, _, err = kit.DialRTSPWebSocket(srv.Addr, path, "")
	} else {
		cl, err = kit.DialRTSP(srv.Addr)
	}
	if err != nil {
		res.torn = "dial: " + err.Error()
		return res
	}
	defer cl.Close()
	vch, ach := 4, 6 // client-chosen channel numbers
	if videoOnly {
		ach = -1 // the audio track is never set up: its packets must simply not be sent
	}
	if code, err := cl.Play(srv.URL(path), vch, ach); err != nil {
		res.torn = fmt.Sprintf("handshake %d %v", code, err)
		return res
	}
	// writer: requests at a seeded pace
	var wg sync.WaitGroup
	var lastCSeq int64
	var wmu sync.Mutex
	wg.Add(1)
	firstFrame := make(chan struct{})
	go func() {
		defer wg.Done()
		select { // requests start once media is flowing, so that they overlap it
		case <-firstFrame:
		case <-time.After(5 * time.Second):
		}
		for i := 0; i < nreq; i++ {
			m := "OPTIONS"
			if i%3 == 1 {
				m = "PLAY"
			} else if i%3 == 2 {
				m = "GET_PARAMETER"
			}
			wmu.Lock()
			b := cl.BuildRequest(m, srv.URL(path), nil, "")
			atomic.StoreInt64(&lastCSeq, int64(cl.CSeq))
			err := cl.Send(b)
			wmu.Unlock()
			if err != nil {
				return
			}
			if i%5 == 0 {
				time.Sleep(100 * time.Microsecond)
			}
		}
	}()
	// reader: parse everything until the response to the last request arrived
	deadline := time.Now().Add(60 * time.Second)
	writerDone := make(chan struct{})
	go func() { wg.Wait(); close(writerDone) }()
	for {
		it, err := cl.Next(time.Until(deadline))
		if err != nil {
			if _, torn := err.(*kit.ErrTorn); torn {
				res.torn = err.Error()
			} else if kit.ErrTimeout(err) {
				res.torn = "" // decided by the caller as inconclusive
				res.requests = -1
			} else {
				res.torn = "connection error while playing: " + err.Error()
			}
			break
		}
		if it.Frame != nil {
			res.frames++
			if res.frames == 1 {
				close(firstFrame)
			}
			if it.Frame.Channel != vch && it.Frame.Channel != vch+1 && (ach < 0 || (it.Frame.Channel != ach && it.Frame.Channel != ach+1)) {
				res.torn = fmt.Sprintf("frame on channel %d which was never negotiated", it.Frame.Channel)
				break
			}
			if it.Frame.Channel == vch {
				if ok, why := c13CheckFrame(it.Frame.Data); !ok {
					res.torn = "frame payload damaged: " + why
					break
				}
			}
			continue
		}
		res.responses++
		select {
		case <-writerDone:
			if n, _ := atoiSafe(it.Resp.Get("CSeq")); int64(n) == atomic.LoadInt64(&lastCSeq) {
				atomic.StoreInt32(stopPub, 1)
				res.requests = nreq
				res.wsViol = cl.WSMessageViolations()
				return res
			}
		default:
		}
	}
	atomic.StoreInt32(stopPub, 1)
	res.wsViol = cl.WSMessageViolations()
	return res
}

// ---- minimal WSP client (html5_rtsp_player protocol) ----

type wspClient struct {
	ctl, data  *websocket.Conn
	seq        int
	channel    string
	maxLatency time.Duration
	onSlow     func() // diagnostics: called when a response is outstanding for 5 s
}

// wspWrapTimeout is a watchdog, not an oracle: its expiry is INCONCLUSIVE / "no response" only after a time no
// scheduling delay explains.
var wspWrapTimeout = 120 * time.Second

func wspDial(addr, path string) (w *wspClient, err error) {
	d := websocket.Dialer{Subprotocols: []string{"control"}, HandshakeTimeout: 120 * time.Second}
	ctl, _, err := d.Dial("ws://"+addr+"/streams"+path, nil)
	if err != nil {
		return nil, err
	}
	w = &wspClient{ctl: ctl}
	built := w // "return nil, err" clears the named result before the deferred function runs
	defer func() {
		if err != nil { // a half-built client must not leave its sessions open on the server
			built.close()
			w = nil
		}
	}()
	w.seq++
	ctl.WriteMessage(websocket.TextMessage, []byte(fmt.Sprintf("WSP/1.1 INIT\r\nproto: rtsp\r\nhost: 127.0.0.1\r\nport: 554\r\nseq: %d\r\n\r\n", w.seq)))
	ctl.SetReadDeadline(time.Now().Add(wspWrapTimeout))
	_, msg, err := ctl.ReadMessage()
	if err != nil {
		return nil, err
	}
	for _, l := range strings.Split(string(msg), "\r\n") {
		if strings.HasPrefix(l, "channel:") {
			w.channel = strings.TrimSpace(l[len("channel:"):])
		}
	}
	if w.channel == "" {
		return nil, fmt.Errorf("no channel in INIT response %q", msg)
	}
	d2 := websocket.Dialer{Subprotocols: []string{"data"}, HandshakeTimeout: 120 * time.Second}
	data, _, err := d2.Dial("ws://"+addr+"/streams"+path, nil)
	if err != nil {
		return nil, err
	}
	w.data = data
	// the server answers INIT before it has stored the new session, so a JOIN sent at once can still get 404:
	// retry on a fresh data connection (the server closes the data connection after a 404)
	for try := 0; ; try++ {
		w.seq++
		data.WriteMessage(websocket.TextMessage, []byte(fmt.Sprintf("WSP/1.1 JOIN\r\nchannel: %s\r\nseq: %d\r\n\r\n", w.channel, w.seq)))
		data.SetReadDeadline(time.Now().Add(wspWrapTimeout))
		_, msg, err = data.ReadMessage()
		if err == nil && strings.Contains(string(msg), " 200 ") {
			data.SetReadDeadline(time.Time{})
			return w, nil
		}
		if try >= 5 || err != nil || !strings.Contains(string(msg), " 404 ") {
			return nil, fmt.Errorf("JOIN failed: %q %v", msg, err)
		}
		data.Close()
		time.Sleep(10 * time.Millisecond)
		if data, _, err = d2.Dial("ws://"+addr+"/streams"+path, nil); err != nil {
			return nil, err
		}
		w.data = data
	}
}

// wrap sends an RTSP request inside WRAP and returns the RTSP response carried by the WSP response.
func (w *wspClient) wrap(rtspReq []byte) (*kit.RTSPResp, string, error) {
	w.seq++
	msg := fmt.Sprintf("WSP/1.1 WRAP\r\ncontentLength: %d\r\nseq: %d\r\n\r\n%s", len(rtspReq), w.seq, rtspReq)
	if err := w.ctl.WriteMessage(websocket.TextMessage, []byte(msg)); err != nil {
		return nil, "", err
	}
	t0 := time.Now()
	w.ctl.SetReadDeadline(t0.Add(wspWrapTimeout))
	var tm *time.Timer
	if w.onSlow != nil {
		tm = time.AfterFunc(5*time.Second, w.onSlow)
	}
	_, rm, err := w.ctl.ReadMessage()
	if tm != nil {
		tm.Stop()
	}
	if d := time.Since(t0); d > w.maxLatency {
		w.maxLatency = d
	}
	if err != nil {
		return nil, "", err
	}
	i := bytes.Index(rm, []byte("\r\n\r\n"))
	if i < 0 || !bytes.HasPrefix(rm, []byte("WSP/1.1 ")) {
		// not a WSP response at all (e.g. an interleaved frame or a fragment on the control channel)
		return nil, string(rm), fmt.Errorf("control-channel message is not one complete WSP response")
	}
	if !bytes.HasPrefix(rm, []byte("WSP/1.1 200")) {
		return nil, string(rm), fmt.Errorf("bad WSP response")
	}
	body := rm[i+4:]
	br := bufio.NewReader(bytes.NewReader(body))
	it, err := kit.ParseRTSPItem(br)
	if err != nil || it.Resp == nil {
		return nil, string(rm), fmt.Errorf("WSP response does not carry exactly one RTSP response: %v", err)
	}
	if br.Buffered() != 0 {
		return nil, string(rm), fmt.Errorf("WSP response carries %d extra bytes after the RTSP response", br.Buffered())
	}
	return it.Resp, string(rm), nil
}

func (w *wspClient) close() {
	if w.ctl != nil {
		w.ctl.Close()
	}
	if w.data != nil {
		w.data.Close()
	}
}

func c13PlayerWSP(c *kit.Ctx, srv *kit.Server, path string, nreq int, stopPub *int32) (res c13result) {
	w, err := wspDial(srv.Addr, path)
	if err != nil {
		res.torn = "wsp dial: " + err.Error()
		return res
	}
	defer w.close()
	if os.Getenv("VERIF_KEEP") != "" {
		w.onSlow = func() {
			buf := make([]byte, 8<<20)
			os.WriteFile(fmt.Sprintf("%s/slow-%d-%d.txt", c.OutDir, c.Shard, time.Now().UnixNano()), buf[:runtime.Stack(buf, true)], 0o644)
		}
	}
	cl := &kit.RTSPClient{}
	do := func(m, uri string, hdr map[string]string) (*kit.RTSPResp, error) {
		r, raw, err := w.wrap(cl.BuildRequest(m, uri, hdr, ""))
		if err != nil {
			return nil, fmt.Errorf("%v (%q)", err, raw)
		}
		if s := r.Get("Session"); s != "" {
			cl.Session = s
		}
		return r, nil
	}
	base := srv.URL(path)
	steps := []struct {
		m, u string
		h    map[string]string
	}{
		{"DESCRIBE", base, map[string]string{"Accept": "application/sdp"}},
		{"SETUP", base + "/streamid=0", map[string]string{"Transport": "RTP/AVP/TCP;unicast;interleaved=0-1"}},
		{"SETUP", base + "/streamid=1", map[string]string{"Transport": "RTP/AVP/TCP;unicast;interleaved=2-3"}},
		{"PLAY", base, map[string]string{"Range": "npt=0.000-"}},
	}
	for _, s := range steps {
		r, err := do(s.m, s.u, s.h)
		if err != nil || r.Code != 200 {
			res.torn = fmt.Sprintf("wsp handshake %s: %v %v", s.m, r, err)
			return res
		}
	}
	// data channel reader
	done := make(chan struct{})
	var dmu sync.Mutex
	go func() {
		defer close(done)
		for {
			w.data.SetReadDeadline(time.Now().Add(60 * time.Second))
			_, msg, err := w.data.ReadMessage()
			if err != nil {
				return
			}
			br := bufio.NewReader(bytes.NewReader(msg))
			it, err := kit.ParseRTSPItem(br)
			dmu.Lock()
			switch {
			case err != nil || it.Frame == nil:
				res.wsViol = append(res.wsViol, fmt.Sprintf("data-channel message (len %d) is not one interleaved frame: %v", len(msg), err))
			case br.Buffered() != 0:
				res.wsViol = append(res.wsViol, fmt.Sprintf("data-channel message carries %d extra bytes", br.Buffered()))
			default:
				res.frames++
				if it.Frame.Channel == 0 {
					if ok, why := c13CheckFrame(it.Frame.Data); !ok {
						res.wsViol = append(res.wsViol, "frame payload damaged: "+why)
					}
				}
			}
			dmu.Unlock()
		}
	}()
	// session churn: other WSP sessions on the same stream come and go while this one plays (sessions that end are
	// what returns pooled response/frame buffers; their messages are checked like ours)
	churnStop := make(chan struct{})
	churnDone := make(chan struct{})
	var churnViol []string
	churned := 0
	go func() {
		defer close(churnDone)
		for {
			select {
			case <-churnStop:
				return
			default:
			}
			cw, err := wspDial(srv.Addr, path)
			if err != nil {
				time.Sleep(5 * time.Millisecond)
				continue
			}
			ccl := &kit.RTSPClient{}
			for k := 0; k < 6; k++ {
				if _, raw, err := cw.wrap(ccl.BuildRequest("OPTIONS", base, nil, "")); err != nil {
					if strings.Contains(err.Error(), "is not one complete WSP response") || strings.Contains(err.Error(), "does not carry exactly one") || strings.Contains(err.Error(), "extra bytes") {
						churnViol = append(churnViol, fmt.Sprintf("churn session: %v (%q)", err, raw[:min(200, len(raw))]))
					}
					break
				}
			}
			cw.close()
			churned++
		}
	}()
	defer func() {
		close(churnStop)
		<-churnDone
		dmu.Lock()
		res.wsViol = append(res.wsViol, churnViol...)
		dmu.Unlock()
		c.Count("wsp_churn_sessions", int64(churned))
	}()
	for i := 0; i < nreq; i++ {
		m := []string{"OPTIONS", "PLAY", "PAUSE", "PLAY"}[i%4]
		r, err := do(m, base, nil)
		if err != nil {
			if strings.Contains(err.Error(), "i/o timeout") && os.Getenv("VERIF_KEEP") != "" {
				buf := make([]byte, 8<<20)
				os.WriteFile(fmt.Sprintf("%s/stall-%d-%s-%d.txt", c.OutDir, c.Shard, m, i), buf[:runtime.Stack(buf, true)], 0o644)
			}
			res.torn = "control channel: " + err.Error()
			break
		}
		if r == nil {
			break
		}
		res.responses++
	}
	res.requests = nreq
	c.SetAdd("wsp_max_response_latency_bucket", latencyBucket(w.maxLatency))
	atomic.StoreInt32(stopPub, 1)
	w.data.Close()
	<-done
	return res
}

func runC13(c *kit.Ctx) {
	srv := kit.StartServer(false, false, 0)
	nruns := c.Pick(24, 600)
	sizes := [][]int{{40, 200}, {1000, 1400}, {20000, 60000}, {40, 60000}}
	for ri := 0; ri < nruns; ri++ {
		if !c.Mine(ri) {
			continue
		}
		rng := c.SubRng("c13", ri)
		transport := []string{"tcp", "tcp", "ws", "wsp"}[ri%4]
		sz := sizes[(ri/4)%len(sizes)]
		path := fmt.Sprintf("/c13/s%d-%d", c.Shard, ri)
		scen := fmt.Sprintf("%s/sizes=%d-%d/videoOnly=%v", transport, sz[0], sz[1], (ri/4)%2 == 1 && transport != "wsp")
		c.Pre("C13 " + scen)
		pub, err := kit.DialRTSP(srv.Addr)
		if err != nil {
			c.Inconclusive("dial publisher")
			continue
		}
		if _, err := pub.Publish(srv.URL(path), kit.SDPH264AAC); err != nil {
			c.Inconclusive("publisher handshake: " + err.Error())
			pub.Close()
			continue
		}
		waitUntil(func() bool { return media.Get(path) != nil }, 5*time.Second)
		// seeded delays between the frame prefix and the frame payload (inside the session write lock by design)
		pert := kit.H.Perturb([]string{"rtp.write.prefixed"}, nil, int64(ri)*131+c.Seed, 0.25, 300*time.Microsecond)
		var stopPub int32
		var published int64
		pdone := make(chan struct{})
		go func() {
			defer close(pdone)
			burst := 0
			for i := 0; atomic.LoadInt32(&stopPub) == 0 && i < 200000; i++ {
				size := sz[0] + rng.Intn(sz[1]-sz[0]+1)
				if pub.WriteFrame(0, c13Frame(i, size)) != nil {
					return
				}
				if i%3 == 0 {
					ap := kit.MakeRTP(kit.ChAudio, 97, true, uint16(i), uint32(i)*1024, 10, kit.AACHbr([][]byte{kit.AACAU(50, uint64(i)+1)}))
					if pub.WriteFrame(2, ap.Data) != nil {
						return
					}
				}
				atomic.AddInt64(&published, 1)
				// paced, not flat out: the oracle needs responses interleaved with frames, not throughput, and 16
				// shards pushing gigabytes through the race detector starve each other into watchdog expiries
				// (<= 50 000 frames/s and <= 32 MB/s per shard)
				burst += size
				if burst >= 256<<10 {
					burst = 0
					time.Sleep(8 * time.Millisecond)
				} else if i%50 == 0 {
					time.Sleep(time.Millisecond)
				}
			}
		}()
		nreq := c.Pick(600, 4000)
		var res c13result
		if transport == "wsp" {
			res = c13PlayerWSP(c, srv, path, nreq/4, &stopPub)
		} else {
			res = c13PlayerTCPorWS(c, srv, path, transport, nreq, &stopPub, (ri/4)%2 == 1)
		}
		atomic.StoreInt32(&stopPub, 1)
		<-pdone
		pub.Close()
		kit.RemoveAll(pert)
		c.Eval(1)
		c.Distinct(scen)
		c.Count("frames_parsed_by_players", int64(res.frames))
		c.Count("responses_parsed_by_players", int64(res.responses))
		c.Count("frames_published", atomic.LoadInt64(&published))
		c.SetAdd("transports", transport)
		detail := map[string]interface{}{"run": ri, "scenario": scen, "frames": res.frames, "responses": res.responses}
		if ri < 3 {
			c.Sample(detail)
		}
		if res.requests == -1 {
			c.Inconclusive("player watchdog expired before the last response")
			continue
		}
		if res.torn != "" {
			detail["why"] = res.torn[:min(800, len(res.torn))]
			switch {
			case strings.Contains(res.torn, "torn RTSP stream"), strings.Contains(res.torn, "damaged"), strings.Contains(res.torn, "never negotiated"):
				c.Violation("C13:torn-byte-stream:"+transport, detail)
			case strings.Contains(res.torn, "does not carry exactly one"), strings.Contains(res.torn, "extra bytes"), strings.Contains(res.torn, "is not one complete WSP response"):
				c.Violation("C13:websocket-message-not-one-item:"+transport, detail)
			default:
				c.Inconclusive("player could not complete: " + res.torn[:min(200, len(res.torn))])
			}
			continue
		}
		if len(res.wsViol) > 0 {
			detail["messages"] = res.wsViol[:min(5, len(res.wsViol))]
			c.Violation("C13:websocket-message-not-one-item:"+transport, detail)
		}
		if res.frames == 0 {
			c.Inconclusive("no media frames overlapped the requests: " + scen)
		}
	}
	c.Note("hook_hits", kit.H.HitCounts())
}

func latencyBucket(d time.Duration) string {
	switch {
	case d < 100*time.Millisecond:
		return "<100ms"
	case d < time.Second:
		return "<1s"
	case d < 5*time.Second:
		return "<5s"
	case d < 10*time.Second:
		return "<10s"
	case d < 30*time.Second:
		return "<30s"
	case d < 60*time.Second:
		return "<60s"
	}
	return ">=60s"
}
