package checks

import (
	"bytes"
	"encoding/base64"
	"encoding/hex"
	"fmt"
	"math/rand"
	"sort"
	"strings"
	"sync"
	"time"

	"verifharness/kit"

	"github.com/cnotch/ipchub/av/codec"
	"github.com/cnotch/ipchub/av/format/flv"
	"github.com/cnotch/ipchub/config"
	"github.com/cnotch/ipchub/media"
	"github.com/cnotch/ipchub/utils/verifhook"
	"github.com/cnotch/xlog"
)

// C08 — FLV output is valid FLV and carries the source frames faithfully.
//
// System under test: flv.Muxer -> (media.Stream + cache.FlvCache + consumption ->) flv.Writer, exactly the
// chain service/flv/httpflv.go builds for an HTTP-FLV client. Observation: the bytes the client's
// flv.Writer produced. Oracle: kit.ReadFLV (independent FLV / AMF0 / avcC / hvcC reader) plus the
// comparison with the generated source frames written below from the property statement.
//
// Three client kinds are judged:
//   direct   flv.Muxer with a TagWriter that owns a flv.Writer (client present from the first tag)
//   stream   media.NewStream + StartConsume(FLVPacket) before the first frame (same, through the stream)
//   joiner   StartConsume at EVERY frame index of the sequence, GOP cache on and off (late joiner:
//            replayed headers + cached GOP + live tags)
//
// Quiescence: the muxer is asynchronous. The harness counts the SUT's own "flvmuxer.beforePop" hook
// points (build tag verif) to know that frame k has been fully muxed, cached and dispatched before a
// joiner is attached, and ends every sequence with a unique sentinel frame that every client must see.
// No sleeps; watchdogs lead to Inconclusive.

func init() { kit.Register("C08", runC08) }

// ---------------------------------------------------------------------------------------------
// test data: real parameter sets (from SDPs of ffmpeg / a TP-LINK camera), AudioSpecificConfigs

type c08PSet struct {
	codec         string
	vps, sps, pps []byte // as the stream's actual parameter sets (no start code)
	sdpV, sdpS    string // base64 as they appear in the SDP (may carry a start code)
	sdpP          string
}

func c08b64(s string) []byte {
	b, err := base64.StdEncoding.DecodeString(s)
	if err != nil {
		panic(err)
	}
	return b
}

func c08strip(b []byte) []byte {
	if bytes.HasPrefix(b, []byte{0, 0, 0, 1}) {
		return b[4:]
	}
	if bytes.HasPrefix(b, []byte{0, 0, 1}) {
		return b[3:]
	}
	return b
}

func c08mkPS(codec, v, s, p string) c08PSet {
	ps := c08PSet{codec: codec, sdpV: v, sdpS: s, sdpP: p}
	if v != "" {
		ps.vps = c08strip(c08b64(v))
	}
	ps.sps = c08strip(c08b64(s))
	ps.pps = c08strip(c08b64(p))
	return ps
}

var c08H264Sets = []c08PSet{
	c08mkPS("H264", "", "Z2QAH6zZQFAFuhAAAAMAEAAAAwPI8YMZYA==", "aO+8sA=="),
	c08mkPS("H264", "", "Z3oAH7y0AoAt0IAAAAMAgAAAHkeMGVA=", "aO8Pyw=="),
	c08mkPS("H264", "", "Z2QAM6wspADwAQ+wFSAgICgAAB9IAAdTBO0LFok=", "aOtzUlA="),
	c08mkPS("H264", "", "Z0IAKeKQFAe2AtwEBAaQeJEV", "aM48gA=="), // baseline 4.1 (no high-profile extension)
}

var c08H265Sets = []c08PSet{
	c08mkPS("H265", "QAEMAf//BAgAAAMAnQgAAAMAAF26AkA=", "QgEBBAgAAAMAnQgAAAMAAF2wAoCALRZbqSTK4BAAAAMAEAAAAwHggA==", "RAHBcrRiQA=="),
	c08mkPS("H265", "AAAAAUABDAH//wFgAAADAAADAAADAAADAJasCQ==", "AAAAAUIBAQFgAAADAAADAAADAAADAJagAWggBln3ja5JMmuWMAgAAAMACAAAAwB4QA==", "AAAAAUQB4HawJkA="),
}

type c08ASC struct {
	hex      string
	rate, ch int
}

var c08ASCs = []c08ASC{{"121056E500", 44100, 2}, {"1190", 48000, 2}, {"1210", 44100, 2}, {"1208", 44100, 1}}

// ---------------------------------------------------------------------------------------------
// source sequences

type c08Frame struct {
	Audio   bool
	NalType int
	PS      bool // in-band parameter set (what the statement is silent about)
	DtsNs   int64
	PtsNs   int64
	Payload []byte
}

type c08Seq struct {
	Idx         int
	Directed    string
	Codec       string
	PSIdx       int
	ASCIdx      int  // -1: no audio
	Mode        int  // 0 direct, 1 stream+cache, 2 stream no cache
	NonAACAudio bool // the stream announces a PCMA audio track (no AAC: no audio flag, no audio tags)
	Frames      []c08Frame
	Magic       []byte
	Classes     map[string]string
	ps          c08PSet
	asc         []byte
}

var c08ModeNames = []string{"direct", "stream-gopcache-on", "stream-gopcache-off"}

func (q *c08Seq) replay() map[string]interface{} {
	fr := make([]string, 0, len(q.Frames))
	for i, f := range q.Frames {
		if i >= 80 {
			fr = append(fr, "...")
			break
		}
		k := "v"
		if f.Audio {
			k = "a"
		}
		fr = append(fr, fmt.Sprintf("%s t%d n%d dts%d pts%d", k, f.NalType, len(f.Payload), f.DtsNs, f.PtsNs))
	}
	return map[string]interface{}{"case": q.Idx, "directed": q.Directed, "codec": q.Codec, "pset": q.PSIdx, "asc": q.ASCIdx,
		"mode": c08ModeNames[q.Mode], "classes": q.Classes, "frames(kind nal-type size dts_ns pts_ns)": fr}
}

func floorDiv(a, b int64) int64 {
	q := a / b
	if (a%b != 0) && ((a < 0) != (b < 0)) {
		q--
	}
	return q
}

func c08ms(ns int64) int64 { return floorDiv(ns, 1000000) }

func c08IsKey(codec string, nalType int) bool {
	if codec == "H264" {
		return nalType == 5
	}
	return nalType >= 16 && nalType <= 21
}

func c08IsPS(codec string, nalType int) bool {
	if codec == "H264" {
		return nalType == 7 || nalType == 8
	}
	return nalType >= 32 && nalType <= 34
}

// c08NAL builds a NAL unit of exactly n bytes of the given type with pseudo-random content.
func c08NAL(rng *rand.Rand, codec string, nalType, n int) []byte {
	b := make([]byte, n)
	if n > 64 {
		rng.Read(b)
	} else {
		for i := range b {
			b[i] = byte(rng.Intn(256))
		}
	}
	if codec == "H264" {
		refidc := 0
		if nalType == 5 || nalType == 7 || nalType == 8 {
			refidc = 1 + rng.Intn(3)
		} else if nalType == 1 {
			refidc = rng.Intn(4)
		}
		b[0] = byte(refidc<<5 | nalType)
	} else {
		b[0] = byte(nalType << 1)
		if n > 1 {
			b[1] = 1
		}
	}
	return b
}

const (
	c08SmallSizes = 300
)

var c08BigSizes = []int{65535, 65536, 70000, 1 << 20}

// c08Generate builds case i. Everything derives from (seed, i).
func c08Generate(c *kit.Ctx, i int) *c08Seq {
	// the rng must not depend on the shard: a case is identified by (seed, tier, index)
	rng := rand.New(rand.NewSource(c.Seed*7919 + int64(i)*104729 + 13))
	q := &c08Seq{Idx: i, Classes: map[string]string{}}
	q.Codec = []string{"H264", "H265"}[i%2]
	hasAAC := (i/2)%2 == 1
	q.Mode = (i / 4) % 3
	if q.Codec == "H264" {
		q.PSIdx = (i / 12) % len(c08H264Sets)
		q.ps = c08H264Sets[q.PSIdx]
	} else {
		q.PSIdx = (i / 12) % len(c08H265Sets)
		q.ps = c08H265Sets[q.PSIdx]
	}
	q.ASCIdx = -1
	if hasAAC {
		q.ASCIdx = (i / 24) % len(c08ASCs)
		q.asc, _ = hex.DecodeString(c08ASCs[q.ASCIdx].hex)
	}
	q.Magic = make([]byte, 16)
	rng.Read(q.Magic)
	copy(q.Magic, fmt.Sprintf("C08#%06d", i%1000000))

	nVideo := 10 + rng.Intn(14)
	if q.Mode == 0 {
		nVideo = 16 + rng.Intn(40)
	}
	// --- time grid
	timeClass := []string{"zero", "small", "ext-byte-2^24", "sign-2^31", "wrap-2^32", "random-40bit", "sub-ms"}[rng.Intn(7)]
	step := int64([]int{40, 33, 20, 1, 100}[rng.Intn(5)])
	var baseMs int64
	switch timeClass {
	case "zero":
		baseMs = 0
	case "small":
		baseMs = int64(rng.Intn(1000000))
	case "ext-byte-2^24":
		baseMs = (1 << 24) - int64(rng.Intn(nVideo))*step - int64(rng.Intn(3))
	case "sign-2^31":
		baseMs = (1 << 31) - int64(rng.Intn(nVideo))*step - int64(rng.Intn(3))
	case "wrap-2^32":
		baseMs = (1 << 32) - int64(rng.Intn(nVideo))*step - int64(rng.Intn(3))
	case "random-40bit":
		baseMs = rng.Int63n(1 << 40)
	case "sub-ms":
		baseMs = int64(rng.Intn(100000))
	}
	subMs := timeClass == "sub-ms" || rng.Intn(4) == 0
	ctsClass := []string{"zero", "positive", "negative", "mixed", "large", "beyond-24bit"}[rng.Intn(6)]
	if ctsClass == "beyond-24bit" && rng.Intn(3) != 0 {
		ctsClass = "mixed"
	}
	audioClass := "none"
	var audioOffMs int64
	if hasAAC {
		audioClass = []string{"same-origin", "jitter", "earlier-4.5s", "later-4.5s", "earlier-1ms", "later-far", "earlier-20ms"}[rng.Intn(7)]
		switch audioClass {
		case "same-origin":
			audioOffMs = 0
		case "earlier-4.5s":
			audioOffMs = -4500
		case "later-4.5s":
			audioOffMs = 4500
		case "earlier-1ms":
			audioOffMs = -1
		case "earlier-20ms":
			audioOffMs = -20
		case "later-far":
			audioOffMs = 50000000 + int64(rng.Intn(1000))
		}
	}
	startClass := []string{"key-first", "ps-then-key", "inter-first"}[rng.Intn(3)]
	gop := 3 + rng.Intn(6)
	q.Classes["time"] = timeClass
	q.Classes["cts"] = ctsClass
	q.Classes["audio"] = audioClass
	q.Classes["start"] = startClass
	q.Classes["step_ms"] = fmt.Sprint(step)

	// --- NAL type plan
	var interTypes, keyTypes, otherTypes []int
	if q.Codec == "H264" {
		interTypes, keyTypes, otherTypes = []int{1, 1, 1, 2}, []int{5}, []int{6, 9, 12, 6, 9, 14, 20, 21}
	} else {
		interTypes, keyTypes, otherTypes = []int{1, 1, 0, 9, 8}, []int{19, 20, 21, 16, 17, 18}, []int{39, 35, 40}
	}
	bigAt, bigSize := -1, 0
	if r := rng.Intn(16); r < 4 {
		bigAt = rng.Intn(nVideo)
		bigSize = c08BigSizes[rng.Intn(3)]
		if r == 0 {
			bigSize = c08BigSizes[3]
		}
	}
	sizeCursor := (i*53 + 7) % c08SmallSizes
	nextSize := func() int {
		s := 1 + sizeCursor%c08SmallSizes
		sizeCursor += 17 // 17 is coprime with 300: every size 1..300 recurs every 300 frames
		return s
	}
	addVideo := func(k int, nalType int, payload []byte) {
		dtsNs := (baseMs + int64(k)*step) * 1000000
		if subMs {
			dtsNs += int64(rng.Intn(1000000))
		}
		var ctsMs int64
		switch ctsClass {
		case "positive":
			ctsMs = int64(rng.Intn(4)) * step
		case "negative":
			ctsMs = -int64(1 + rng.Intn(200))
		case "mixed":
			ctsMs = int64(rng.Intn(401) - 200)
		case "large":
			ctsMs = int64(rng.Intn(2*8388000) - 8388000)
		case "beyond-24bit":
			ctsMs = int64(8388608 + rng.Intn(100000))
			if rng.Intn(2) == 0 {
				ctsMs = -ctsMs - 1
			}
		}
		ptsNs := dtsNs + ctsMs*1000000
		if subMs {
			ptsNs += int64(rng.Intn(1000000)) - 500000
		}
		q.Frames = append(q.Frames, c08Frame{NalType: nalType, PS: c08IsPS(q.Codec, nalType), DtsNs: dtsNs, PtsNs: ptsNs, Payload: payload})
	}
	addPS := func(k int) {
		if q.Codec == "H265" {
			addVideo(k, 32, q.ps.vps)
			addVideo(k, 33, q.ps.sps)
			addVideo(k, 34, q.ps.pps)
		} else {
			addVideo(k, 7, q.ps.sps)
			addVideo(k, 8, q.ps.pps)
		}
	}
	audioSeq := 0
	addAudio := func(k int) {
		aMs := baseMs + int64(k)*step + audioOffMs
		if audioClass == "jitter" {
			aMs += int64(rng.Intn(61) - 30)
		}
		aMs += int64(audioSeq%2) * 23
		audioSeq++
		if aMs < 0 {
			aMs = int64(audioSeq)
		}
		ns := aMs * 1000000
		if subMs {
			ns += int64(rng.Intn(1000000))
		}
		n := nextSize()
		p := make([]byte, n)
		for j := range p {
			p[j] = byte(rng.Intn(256))
		}
		p[0] = 0x21 // never equal to the first byte of an AudioSpecificConfig used here
		q.Frames = append(q.Frames, c08Frame{Audio: true, NalType: -1, DtsNs: ns, PtsNs: ns, Payload: p})
	}
	sinceKey := gop
	if startClass == "inter-first" {
		sinceKey = gop - 1 - rng.Intn(3)
		if sinceKey < 1 {
			sinceKey = 1
		}
	}
	for k := 0; k < nVideo; k++ {
		var t int
		isKey := sinceKey >= gop
		if isKey {
			sinceKey = 0
			if startClass == "ps-then-key" || rng.Intn(3) == 0 {
				if rng.Intn(2) == 0 {
					ot := otherTypes[rng.Intn(len(otherTypes))]
					addVideo(k, ot, c08NAL(rng, q.Codec, ot, nextSize()))
				}
				addPS(k)
			}
			t = keyTypes[rng.Intn(len(keyTypes))]
			if q.Codec == "H265" && rng.Intn(3) != 0 {
				t = 19 + rng.Intn(2)
			}
		} else {
			t = interTypes[rng.Intn(len(interTypes))]
			if rng.Intn(8) == 0 {
				t = otherTypes[rng.Intn(len(otherTypes))]
			}
		}
		sinceKey++
		n := nextSize()
		if k == bigAt {
			n = bigSize
		}
		addVideo(k, t, c08NAL(rng, q.Codec, t, n))
		if hasAAC {
			for a := rng.Intn(3); a > 0; a-- {
				addAudio(k)
			}
		}
	}
	c08AddSentinel(q, (baseMs+int64(nVideo)*step)*1000000)
	return q
}

func c08AddSentinel(q *c08Seq, dtsNs int64) {
	p := make([]byte, 2+len(q.Magic))
	if q.Codec == "H264" {
		p[0] = 0x41
		p[1] = 0x9a
	} else {
		p[0] = 1 << 1
		p[1] = 1
	}
	copy(p[2:], q.Magic)
	q.Frames = append(q.Frames, c08Frame{NalType: 1, DtsNs: dtsNs, PtsNs: dtsNs, Payload: p})
}

// c08Directed builds the hand-written minimal cases (indices 0..c08NDirected-1 of the case list).
const c08NDirected = 10

func c08DirectedCase(c *kit.Ctx, i int) *c08Seq {
	q := &c08Seq{Idx: i, Classes: map[string]string{}, ASCIdx: 0, Codec: "H264", PSIdx: 0}
	q.Magic = []byte(fmt.Sprintf("C08-directed-%03d", i))
	ms := int64(1000000)
	v := func(t int, dtsMs, ptsMs int64, n int) {
		rng := rand.New(rand.NewSource(int64(len(q.Frames)) + 99))
		q.Frames = append(q.Frames, c08Frame{NalType: t, PS: c08IsPS(q.Codec, t), DtsNs: dtsMs * ms, PtsNs: ptsMs * ms, Payload: c08NAL(rng, q.Codec, t, n)})
	}
	a := func(dtsMs int64, n int) {
		p := bytes.Repeat([]byte{0x21}, n)
		q.Frames = append(q.Frames, c08Frame{Audio: true, NalType: -1, DtsNs: dtsMs * ms, PtsNs: dtsMs * ms, Payload: p})
	}
	switch i {
	case 0: // late joiner, GOP cache on: an audio frame 10 ms older than the cached key frame follows it
		q.Directed, q.Mode = "audio-older-than-cached-keyframe", 1
		v(5, 1000, 1000, 20)
		a(990, 8)
		v(1, 1040, 1040, 10)
	case 1: // audio clock origin 4.5 s behind the video clock (RTCP-SR based audio vs wall clock video DTS)
		q.Directed, q.Mode = "audio-origin-4.5s-earlier", 1
		v(5, 60000, 60000, 20)
		a(55500, 8)
		v(1, 60040, 60040, 10)
		a(55523, 8)
	case 2: // same without GOP cache (headers replayed at 0)
		q.Directed, q.Mode = "audio-older-no-gopcache", 2
		v(5, 1000, 1000, 20)
		a(990, 8)
		v(1, 1040, 1040, 10)
	case 3: // direct client, negative composition time, DTS crossing 2^32 ms
		q.Directed, q.Mode = "direct-wrap-2^32-negative-cts", 0
		v(5, (1<<32)-40, (1<<32)-40, 20)
		v(1, 1<<32, (1<<32)-10, 10)
		a((1<<32)+3, 8)
		v(1, (1<<32)+40, (1<<32)+120, 10)
	case 4: // H.265 IRAP types
		q.Directed, q.Mode, q.Codec, q.ASCIdx = "h265-irap-types", 0, "H265", -1
		for k, t := range []int{19, 1, 20, 0, 21, 9, 16, 17, 18, 15, 22, 39, 32, 33, 34} {
			if t == 22 { // reserved IRAP: statement says 16-21, skip
				continue
			}
			v(t, int64(k)*40, int64(k)*40+80, 5+k)
		}
	case 5: // big NAL units
		q.Directed, q.Mode = "big-nals", 0
		v(5, 0, 0, 65535)
		v(1, 40, 40, 65536)
		v(1, 80, 80, 70000)
		v(5, 120, 120, 1<<20)
	case 6: // late joiner across the 2^32 ms boundary, H.265 + AAC
		q.Directed, q.Mode, q.Codec = "h265-join-across-2^32", 1, "H265"
		v(19, (1<<32)-50, (1<<32)-50, 30)
		a((1<<32)-45, 9)
		v(1, (1<<32)-10, (1<<32)-10, 7)
		v(1, (1<<32)+30, (1<<32)+30, 7)
		a((1<<32)+31, 9)
	case 7: // 1-, 2-, 3-byte NAL units
		q.Directed, q.Mode, q.ASCIdx = "tiny-nals", 0, -1
		v(5, 0, 0, 1)
		v(1, 40, 40, 1)
		v(1, 80, 80, 2)
		v(5, 120, 120, 3)
	case 8, 9: // an audio track that is not AAC: the audio type flag must stay clear
		q.Directed, q.Mode, q.ASCIdx, q.NonAACAudio = "non-aac-audio-track", i-8, -1, true
		v(5, 0, 0, 10)
		v(1, 40, 40, 10)
	}
	if q.Codec == "H264" {
		q.ps = c08H264Sets[0]
	} else {
		q.ps = c08H265Sets[0]
	}
	if q.ASCIdx >= 0 {
		q.asc, _ = hex.DecodeString(c08ASCs[q.ASCIdx].hex)
	}
	// in-band parameter sets must be the real ones
	for k := range q.Frames {
		f := &q.Frames[k]
		if f.PS {
			switch f.NalType {
			case 7, 33:
				f.Payload = q.ps.sps
			case 8, 34:
				f.Payload = q.ps.pps
			case 32:
				f.Payload = q.ps.vps
			}
		}
	}
	var lastVideoDts int64
	for _, f := range q.Frames {
		if !f.Audio && f.DtsNs > lastVideoDts {
			lastVideoDts = f.DtsNs
		}
	}
	c08AddSentinel(q, lastVideoDts+40*ms)
	q.Classes["directed"] = q.Directed
	return q
}

func c08SDP(q *c08Seq) string {
	var b strings.Builder
	b.WriteString("v=0\r\no=- 0 0 IN IP4 127.0.0.1\r\ns=No Name\r\nc=IN IP4 127.0.0.1\r\nt=0 0\r\n")
	b.WriteString("m=video 0 RTP/AVP 96\r\nb=AS:2500\r\n")
	if q.Codec == "H264" {
		b.WriteString("a=rtpmap:96 H264/90000\r\n")
		fmt.Fprintf(&b, "a=fmtp:96 packetization-mode=1; sprop-parameter-sets=%s,%s; profile-level-id=%02X%02X%02X\r\n",
			q.ps.sdpS, q.ps.sdpP, q.ps.sps[1], q.ps.sps[2], q.ps.sps[3])
	} else {
		b.WriteString("a=rtpmap:96 H265/90000\r\n")
		fmt.Fprintf(&b, "a=fmtp:96 sprop-vps=%s; sprop-sps=%s; sprop-pps=%s\r\n", q.ps.sdpV, q.ps.sdpS, q.ps.sdpP)
	}
	b.WriteString("a=control:streamid=0\r\n")
	if q.ASCIdx >= 0 {
		a := c08ASCs[q.ASCIdx]
		fmt.Fprintf(&b, "m=audio 0 RTP/AVP 97\r\nb=AS:160\r\na=rtpmap:97 MPEG4-GENERIC/%d/%d\r\n", a.rate, a.ch)
		fmt.Fprintf(&b, "a=fmtp:97 profile-level-id=1;mode=AAC-hbr;sizelength=13;indexlength=3;indexdeltalength=3; config=%s\r\n", a.hex)
		b.WriteString("a=control:streamid=1\r\n")
	} else if q.NonAACAudio {
		b.WriteString("m=audio 0 RTP/AVP 8\r\na=rtpmap:8 PCMA/8000\r\na=control:streamid=1\r\n")
	}
	return b.String()
}

// ---------------------------------------------------------------------------------------------
// clients and muxer progress monitor

type c08Client struct {
	mu          sync.Mutex
	name        string
	joinIdx     int
	w           *flv.Writer
	buf         bytes.Buffer
	nTags       int
	magic       []byte
	sawSentinel bool
	werr        string
	panicked    string
	notify      chan struct{}
	closed      bool
}

func c08NewClient(name string, joinIdx int, magic []byte) *c08Client {
	return &c08Client{name: name, joinIdx: joinIdx, magic: magic, notify: make(chan struct{}, 1)}
}

func (cl *c08Client) write(tag *flv.Tag) {
	cl.mu.Lock()
	defer cl.mu.Unlock()
	defer func() {
		if r := recover(); r != nil {
			cl.panicked = fmt.Sprint(r)
		}
		select {
		case cl.notify <- struct{}{}:
		default:
		}
	}()
	if cl.closed || cl.w == nil {
		return
	}
	if err := cl.w.WriteFlvTag(tag); err != nil && cl.werr == "" {
		cl.werr = err.Error()
	}
	cl.nTags++
	if bytes.HasSuffix(tag.Data, cl.magic) {
		cl.sawSentinel = true
	}
}

// WriteFlvTag makes the client a flv.TagWriter (direct mode).
func (cl *c08Client) WriteFlvTag(tag *flv.Tag) error { cl.write(tag); return nil }

// Consume / Close make it a media.Consumer (what httpFlvConsumer does).
func (cl *c08Client) Consume(p media.Pack) {
	if tag, ok := p.(*flv.Tag); ok {
		cl.write(tag)
	}
}
func (cl *c08Client) Close() error {
	cl.mu.Lock()
	cl.closed = true
	cl.mu.Unlock()
	return nil
}

func (cl *c08Client) waitSentinel(d time.Duration) bool {
	deadline := time.NewTimer(d)
	defer deadline.Stop()
	for {
		cl.mu.Lock()
		ok := cl.sawSentinel
		cl.mu.Unlock()
		if ok {
			return true
		}
		select {
		case <-cl.notify:
		case <-deadline.C:
			return false
		}
	}
}

func (cl *c08Client) bytes() []byte {
	cl.mu.Lock()
	defer cl.mu.Unlock()
	return append([]byte(nil), cl.buf.Bytes()...)
}

// c08Mon follows one flv.Muxer goroutine through the SUT's verif hook points.
type c08Mon struct {
	mu     sync.Mutex
	armed  bool
	mux    interface{}
	pops   int
	exited bool
	ch     chan struct{}
}

var c08mon = &c08Mon{ch: make(chan struct{}, 1)}

func (m *c08Mon) handle(name string, args []interface{}) {
	if !strings.HasPrefix(name, "flvmuxer.") || len(args) == 0 {
		return
	}
	m.mu.Lock()
	switch name {
	case "flvmuxer.enter":
		if m.armed && m.mux == nil {
			m.mux = args[0]
		}
	case "flvmuxer.beforePop":
		if m.mux != nil && args[0] == m.mux {
			m.pops++
		}
	case "flvmuxer.exit":
		if m.mux != nil && args[0] == m.mux {
			m.exited = true
		}
	}
	m.mu.Unlock()
	select {
	case m.ch <- struct{}{}:
	default:
	}
}

func (m *c08Mon) arm() {
	m.mu.Lock()
	m.armed, m.mux, m.pops, m.exited = true, nil, 0, false
	m.mu.Unlock()
}

func (m *c08Mon) disarm() {
	m.mu.Lock()
	m.armed = false
	m.mu.Unlock()
}

// waitPops waits until the muxer goroutine reached its Pop for the n-th time (n-1 frames fully processed).
// Returns "ok", "exited" (muxer goroutine ended) or "timeout".
func (m *c08Mon) waitPops(n int, d time.Duration) string {
	deadline := time.NewTimer(d)
	defer deadline.Stop()
	for {
		m.mu.Lock()
		p, ex := m.pops, m.exited
		m.mu.Unlock()
		if p >= n {
			return "ok"
		}
		if ex {
			return "exited"
		}
		select {
		case <-m.ch:
		case <-deadline.C:
			return "timeout"
		}
	}
}

const c08Watchdog = 30 * time.Second

// ---------------------------------------------------------------------------------------------
// running a sequence

type c08Output struct {
	name    string
	joinIdx int // -1: present from the start
	data    []byte
	werr    string
	panic   string
}

func c08Frame2Codec(f *c08Frame) *codec.Frame {
	mt := codec.MediaTypeVideo
	if f.Audio {
		mt = codec.MediaTypeAudio
	}
	return &codec.Frame{MediaType: mt, Dts: f.DtsNs, Pts: f.PtsNs, Payload: f.Payload}
}

func c08MuxerDied(c *kit.Ctx, q *c08Seq, where string) {
	sites := kit.Log.TakePanics()
	site := "unknown"
	if len(sites) > 0 {
		site = sites[0]
	}
	d := q.replay()
	d["where"] = where
	d["panic_sites"] = sites
	c.Violation("C08:panic:muxer-goroutine-died:"+site, d)
}

func c08RunDirect(c *kit.Ctx, q *c08Seq) (outs []c08Output, ok bool) {
	vm := &codec.VideoMeta{Codec: q.Codec, ClockRate: 90000,
		Sps: append([]byte(nil), q.ps.sps...), Pps: append([]byte(nil), q.ps.pps...), Vps: append([]byte(nil), q.ps.vps...)}
	am := &codec.AudioMeta{}
	if q.NonAACAudio {
		am = &codec.AudioMeta{Codec: "PCMA", SampleRate: 8000, SampleSize: 16, Channels: 1}
	}
	if q.ASCIdx >= 0 {
		a := c08ASCs[q.ASCIdx]
		am = &codec.AudioMeta{Codec: "AAC", SampleRate: a.rate, SampleSize: 16, Channels: a.ch, Sps: append([]byte(nil), q.asc...)}
	}
	cl := c08NewClient("direct", -1, q.Magic)
	c08mon.arm()
	defer c08mon.disarm()
	mux, err := flv.NewMuxer(vm, am, cl, xlog.L())
	if err != nil {
		d := q.replay()
		d["err"] = err.Error()
		c.Violation("C08:setup:newmuxer-failed", d)
		return nil, false
	}
	defer mux.Close()
	w, err := flv.NewWriter(&cl.buf, mux.TypeFlags())
	if err != nil {
		d := q.replay()
		d["err"] = err.Error()
		c.Violation("C08:setup:newwriter-failed", d)
		return nil, false
	}
	cl.w = w
	for k := range q.Frames {
		mux.WriteFrame(c08Frame2Codec(&q.Frames[k]))
	}
	switch c08mon.waitPops(len(q.Frames)+1, c08Watchdog) {
	case "exited":
		c08MuxerDied(c, q, "direct")
		return nil, false
	case "timeout":
		c.Inconclusive("watchdog: direct muxer did not drain its queue")
		return nil, false
	}
	if !cl.waitSentinel(c08Watchdog) {
		c.Inconclusive("watchdog: sentinel tag did not reach the direct client")
		return nil, false
	}
	return []c08Output{{name: "direct", joinIdx: -1, data: cl.bytes(), werr: cl.werr, panic: cl.panicked}}, true
}

var c08StreamSerial int

func c08RunStream(c *kit.Ctx, q *c08Seq) (outs []c08Output, ok bool) {
	config.VerifSet(false, q.Mode == 1, "", 5)
	c08mon.arm()
	defer c08mon.disarm()
	c08StreamSerial++
	s := media.NewStream(fmt.Sprintf("/c08/s%d/n%d", c.Shard, c08StreamSerial), c08SDP(q))
	defer s.Close()
	tf := s.FlvTypeFlags()
	if tf == 0 {
		d := q.replay()
		d["sdp"] = c08SDP(q)
		c.Violation("C08:setup:stream-has-no-flv-muxer", d)
		return nil, false
	}
	var clients []*c08Client
	join := func(name string, idx int) bool {
		cl := c08NewClient(name, idx, q.Magic)
		w, err := flv.NewWriter(&cl.buf, tf) // as ConsumeByHTTP: header first, then StartConsume
		if err != nil {
			return false
		}
		cl.w = w
		s.StartConsume(cl, media.FLVPacket, "c08")
		clients = append(clients, cl)
		return true
	}
	if st := c08mon.waitPops(1, c08Watchdog); st != "ok" {
		c.Inconclusive("watchdog: stream muxer goroutine did not start (" + st + ")")
		return nil, false
	}
	join("stream", -1)
	for k := range q.Frames {
		if k > 0 {
			join(fmt.Sprintf("joiner@%d", k), k)
		}
		s.WriteFrame(c08Frame2Codec(&q.Frames[k]))
		switch c08mon.waitPops(k+2, c08Watchdog) {
		case "exited":
			c08MuxerDied(c, q, "stream")
			return nil, false
		case "timeout":
			c.Inconclusive("watchdog: stream muxer did not finish a frame")
			return nil, false
		}
	}
	for _, cl := range clients {
		if !cl.waitSentinel(c08Watchdog) {
			c.Inconclusive("watchdog: sentinel tag did not reach a stream client")
			return nil, false
		}
	}
	for _, cl := range clients {
		outs = append(outs, c08Output{name: cl.name, joinIdx: cl.joinIdx, data: cl.bytes(), werr: cl.werr, panic: cl.panicked})
	}
	return outs, true
}

// ---------------------------------------------------------------------------------------------
// the oracle

const (
	c08KindScript = iota
	c08KindVConf
	c08KindAConf
	c08KindVEnd
	c08KindVideo
	c08KindAudio
	c08KindOther
)

func c08Kind(t *kit.FLVTag) int {
	switch t.Type {
	case kit.FLVTagScript:
		return c08KindScript
	case kit.FLVTagVideo:
		if t.Video != nil && t.Video.IsNALCodec {
			switch t.Video.PacketType {
			case 0:
				return c08KindVConf
			case 2:
				return c08KindVEnd
			}
		}
		return c08KindVideo
	case kit.FLVTagAudio:
		if t.Audio != nil && t.Audio.IsAAC && t.Audio.AACPacketType == 0 {
			return c08KindAConf
		}
		return c08KindAudio
	}
	return c08KindOther
}

func c08EqualLists(a [][]byte, b ...[]byte) bool {
	if len(a) != len(b) {
		return false
	}
	for i := range a {
		if !bytes.Equal(a[i], b[i]) {
			return false
		}
	}
	return true
}

func c08Hex(b []byte) string {
	if len(b) > 48 {
		return hex.EncodeToString(b[:48]) + fmt.Sprintf("...(%d bytes)", len(b))
	}
	return hex.EncodeToString(b)
}

type c08Pair struct{ tag, frame int }

// c08Judge decides the property for one client's byte stream.
func c08Judge(c *kit.Ctx, q *c08Seq, o c08Output) {
	c.Eval(1)
	full := o.joinIdx < 0
	viol := func(sig string, extra map[string]interface{}) {
		d := q.replay()
		d["client"] = o.name
		d["join_before_frame"] = o.joinIdx
		for k, v := range extra {
			d[k] = v
		}
		c.Violation(sig, d)
	}
	if o.panic != "" {
		viol("C08:panic:flv-writer", map[string]interface{}{"panic": o.panic})
	}
	if o.werr != "" {
		viol("C08:writer:error", map[string]interface{}{"err": o.werr})
	}
	res := kit.ReadFLV(o.data)
	c.Count("client_streams_parsed", 1)
	c.Count("tags_parsed", int64(len(res.Tags)))

	// ---- decoder configuration first: it defines the NAL length prefix width
	lengthSize := 4
	for i := range res.Tags {
		t := &res.Tags[i]
		if c08Kind(t) == c08KindVConf {
			if t.Video.AVCConfig != nil && t.Video.ConfigErr == "" {
				lengthSize = t.Video.AVCConfig.LengthSize
			}
			if t.Video.HEVCConfig != nil && t.Video.ConfigErr == "" {
				lengthSize = t.Video.HEVCConfig.LengthSize
			}
			break
		}
	}
	if lengthSize != 4 {
		c.Count("config_length_size_not_4", 1)
		for i := range res.Tags {
			t := &res.Tags[i]
			if c08Kind(t) == c08KindVideo && t.Video != nil && t.Video.IsNALCodec {
				nalus, code, msg := kit.SplitLengthPrefixed(t.Video.Body, lengthSize)
				t.Video.NALUs = nalus
				if code != "" {
					viol("C08:structure:video."+code, map[string]interface{}{"tag": i, "msg": msg, "length_size_from_config": lengthSize})
				}
			}
		}
	}
	// ---- structure: every reader error is a refutation of "parses as FLV"
	seenCodes := map[string]bool{}
	for _, e := range res.Errors {
		if lengthSize != 4 && strings.HasPrefix(e.Code, "video.nalu-") {
			continue // re-judged above with the width the record announces
		}
		if seenCodes[e.Code] {
			continue
		}
		seenCodes[e.Code] = true
		viol("C08:structure:"+e.Code, map[string]interface{}{"error": e.String(), "stream_prefix": c08Hex(o.data)})
	}
	if !res.HeaderRead || res.Header.Signature != "FLV" {
		return
	}
	wantAudio := q.ASCIdx >= 0
	if !res.Header.HasVideo || res.Header.HasAudio != wantAudio {
		viol("C08:header:typeflags-wrong", map[string]interface{}{"type_flags": res.Header.TypeFlags, "want_audio": wantAudio})
	}
	if len(res.Tags) == 0 {
		viol("C08:order:no-tags", nil)
		return
	}
	// ---- leading tags: onMetaData, video config, (audio config)
	nLead := 2
	if wantAudio {
		nLead = 3
	}
	wantCodec := byte(7)
	if q.Codec == "H265" {
		wantCodec = 12
	}
	orderOK := len(res.Tags) >= nLead
	if orderOK {
		orderOK = c08Kind(&res.Tags[0]) == c08KindScript && c08Kind(&res.Tags[1]) == c08KindVConf &&
			(!wantAudio || c08Kind(&res.Tags[2]) == c08KindAConf)
	}
	if !orderOK {
		var kinds []string
		for i := 0; i < len(res.Tags) && i < 5; i++ {
			kinds = append(kinds, []string{"script", "video-config", "audio-config", "video-eos", "video", "audio", "other"}[c08Kind(&res.Tags[i])])
		}
		viol("C08:order:headers-not-first", map[string]interface{}{"first_tags": kinds, "want_audio_config": wantAudio})
	} else {
		c.Count("header_order_ok", 1)
		// metadata
		sc := res.Tags[0].Script
		mdOK := sc != nil && sc.Err == "" && sc.Name == "onMetaData" && len(sc.Values) >= 1
		if mdOK {
			switch sc.Values[0].(type) {
			case *kit.AMFECMAArray, *kit.AMFObject:
			default:
				mdOK = false
			}
		}
		if !mdOK {
			viol("C08:metadata:not-a-decodable-onMetaData", map[string]interface{}{"data": c08Hex(res.Tags[0].Data)})
		} else {
			c.Count("metadata_decoded", 1)
			if ea, ok := sc.Values[0].(*kit.AMFECMAArray); ok && int(ea.Count) != len(ea.Props) {
				c.Count("unjudged_ecma_array_count_differs_from_properties", 1)
			}
		}
		// video config
		v := res.Tags[1].Video
		if v.CodecID != wantCodec {
			viol("C08:config:video-codec-id-wrong", map[string]interface{}{"codec_id": v.CodecID, "want": wantCodec})
		} else if v.ConfigErr == "" {
			if q.Codec == "H264" {
				r := v.AVCConfig
				if !c08EqualLists(r.SPS, q.ps.sps) || !c08EqualLists(r.PPS, q.ps.pps) {
					viol("C08:config:avc-record-parameter-sets-differ", map[string]interface{}{"record": c08Hex(v.Body), "sps": c08Hex(q.ps.sps), "pps": c08Hex(q.ps.pps)})
				} else if r.Profile != q.ps.sps[1] || r.Compat != q.ps.sps[2] || r.Level != q.ps.sps[3] {
					viol("C08:config:avc-record-profile-level-differ", map[string]interface{}{"record": c08Hex(v.Body), "sps": c08Hex(q.ps.sps)})
				} else {
					c.Count("avc_config_matches_parameter_sets", 1)
				}
				if (r.Profile == 100 || r.Profile == 110 || r.Profile == 122 || r.Profile == 144) && !r.HasHighExt {
					c.Count("unjudged_avcc_high_profile_extension_absent", 1)
				}
				if r.ReservedBits1 != 0x3f || r.ReservedBits2 != 7 {
					c.Count("unjudged_avcc_reserved_bits_not_ones", 1)
				}
			} else {
				r := v.HEVCConfig
				extra := 0
				for _, a := range r.Arrays {
					if a.NALType < 32 || a.NALType > 34 {
						extra++
					}
				}
				if extra > 0 {
					c.Count("unjudged_hvcc_other_nal_arrays", int64(extra))
				}
				if !c08EqualLists(r.NALs(32), q.ps.vps) || !c08EqualLists(r.NALs(33), q.ps.sps) || !c08EqualLists(r.NALs(34), q.ps.pps) {
					viol("C08:config:hevc-record-parameter-sets-differ", map[string]interface{}{"record": c08Hex(v.Body), "vps": c08Hex(q.ps.vps), "sps": c08Hex(q.ps.sps), "pps": c08Hex(q.ps.pps)})
				} else {
					sp, ok1 := kit.HEVCGeneralPTL(q.ps.sps)
					vp, ok2 := kit.HEVCGeneralPTL(q.ps.vps)
					if ok1 && ok2 && sp == vp {
						if r.PTL != sp {
							viol("C08:config:hevc-record-profile-tier-level-differ", map[string]interface{}{"record": c08Hex(v.Body), "record_ptl": fmt.Sprintf("%+v", r.PTL), "sps_ptl": fmt.Sprintf("%+v", sp)})
						} else {
							c.Count("hevc_config_matches_parameter_sets", 1)
						}
					} else {
						c.Count("unjudged_hevc_vps_and_sps_ptl_differ", 1)
					}
				}
			}
		}
		if wantAudio {
			a := res.Tags[2].Audio
			if !bytes.Equal(a.Body, q.asc) {
				viol("C08:config:aac-audiospecificconfig-differs", map[string]interface{}{"got": c08Hex(a.Body), "want": c08Hex(q.asc)})
			} else {
				c.Count("aac_config_matches", 1)
			}
			if a.SoundRate != 3 || a.SoundType != 1 || a.SoundSize != 1 {
				c.Count("unjudged_aac_sound_bits_not_44k_16bit_stereo", 1)
			}
		}
	}
	// ---- first tag is zero
	if res.Tags[0].Timestamp != 0 {
		viol("C08:timestamp:first-tag-not-zero", map[string]interface{}{"first_tag_timestamp": res.Tags[0].Timestamp})
	}
	// ---- media tags against the source, aligned from the end (everyone receives the sentinel last)
	var mediaTags []int
	for i := range res.Tags {
		k := c08Kind(&res.Tags[i])
		switch k {
		case c08KindVideo, c08KindAudio:
			mediaTags = append(mediaTags, i)
		default:
			if orderOK && i >= nLead {
				c.Count("unjudged_header_or_eos_tags_midstream", 1)
			}
			if i < nLead && i > 0 && res.Tags[i].Timestamp != 0 {
				c.Count("unjudged_leading_config_tag_timestamp_nonzero", 1)
				if res.Tags[i].Timestamp >= 1<<31 && res.Tags[0].Timestamp == 0 {
					// a replayed configuration tag stamped earlier than the first tag: shown ~49 days ahead
					viol("C08:timestamp:config-tag-wraps", map[string]interface{}{"tag": i, "shown_timestamp": res.Tags[i].Timestamp})
				}
			}
		}
	}
	var pairs []c08Pair
	fi := len(q.Frames) - 1
	aligned := true
	for mi := len(mediaTags) - 1; mi >= 0 && aligned; mi-- {
		t := &res.Tags[mediaTags[mi]]
		for {
			if fi < 0 {
				viol("C08:fidelity:tag-without-source-frame", map[string]interface{}{"tag": mediaTags[mi], "data": c08Hex(t.Data)})
				aligned = false
				break
			}
			f := &q.Frames[fi]
			match := false
			if f.Audio && t.Type == kit.FLVTagAudio && t.Audio != nil {
				match = bytes.Equal(t.Audio.Body, f.Payload)
			} else if !f.Audio && t.Type == kit.FLVTagVideo && t.Video != nil {
				match = len(t.Video.NALUs) == 1 && bytes.Equal(t.Video.NALUs[0], f.Payload)
			}
			if match {
				pairs = append(pairs, c08Pair{mediaTags[mi], fi})
				fi--
				break
			}
			if f.PS { // in-band parameter set not passed through as a tag: the statement is silent
				c.Count("unjudged_inband_parameter_set_not_emitted_as_tag", 1)
				fi--
				continue
			}
			det := map[string]interface{}{"tag": mediaTags[mi], "frame": fi, "tag_data": c08Hex(t.Data), "source": c08Hex(f.Payload), "source_len": len(f.Payload)}
			switch {
			case f.Audio != (t.Type == kit.FLVTagAudio):
				viol("C08:fidelity:tag-kind-differs-from-source", det)
			case f.Audio:
				viol("C08:audio:frame-differs-from-source", det)
			case t.Video != nil && len(t.Video.NALUs) != 1:
				det["nal_units_in_tag"] = len(t.Video.NALUs)
				viol("C08:video:not-exactly-one-nal", det)
			default:
				viol("C08:video:nal-differs-from-source", det)
			}
			aligned = false
			break
		}
	}
	if aligned {
		missing := 0
		for k := 0; k <= fi; k++ {
			if !q.Frames[k].PS {
				missing++
			}
		}
		if full {
			if missing > 0 {
				viol("C08:fidelity:source-frame-missing", map[string]interface{}{"frames_without_tag_at_head": missing, "first_tag_matches_frame": fi + 1})
			}
		} else {
			start := fi + 1
			switch {
			case start == o.joinIdx:
				c.SetAdd("joiner_first_media_tag", "live-frame-at-join-point")
			case start < o.joinIdx && c08IsKey(q.Codec, q.Frames[start].NalType) && !q.Frames[start].Audio:
				c.SetAdd("joiner_first_media_tag", "cached-key-frame")
			case start < o.joinIdx:
				c.SetAdd("joiner_first_media_tag", "cached-non-key-frame(unjudged)")
			default:
				c.SetAdd("joiner_first_media_tag", "later-than-join-point(unjudged)")
			}
			c.Count("joiner_replayed_gop_tags", int64(maxInt(0, o.joinIdx-start)))
		}
	}
	// pairs are in reverse order
	sort.Slice(pairs, func(a, b int) bool { return pairs[a].tag < pairs[b].tag })
	// ---- per tag: codec id, packet type, key flag, composition time, audio packet type
	for _, p := range pairs {
		t := &res.Tags[p.tag]
		f := &q.Frames[p.frame]
		if f.Audio {
			c.Count("audio_tags_equal_source", 1)
			if !t.Audio.IsAAC || t.Audio.AACPacketType != 1 {
				viol("C08:audio:not-aac-raw", map[string]interface{}{"tag": p.tag, "sound_format": t.Audio.SoundFormat, "aac_packet_type": t.Audio.AACPacketType})
			}
			continue
		}
		c.Count("video_tags_equal_source", 1)
		c08SizeClass(c, len(f.Payload))
		if f.PS {
			c.Count("unjudged_inband_parameter_set_passed_through_as_tag", 1)
			continue
		}
		v := t.Video
		if v.CodecID != wantCodec || !v.IsNALCodec || v.PacketType != 1 {
			viol("C08:video:codec-or-packet-type-wrong", map[string]interface{}{"tag": p.tag, "codec_id": v.CodecID, "packet_type": v.PacketType})
			continue
		}
		wantFT := byte(2)
		if c08IsKey(q.Codec, f.NalType) {
			wantFT = 1
		}
		c.SetAdd("nal_types_judged_"+q.Codec, fmt.Sprintf("%02d", f.NalType))
		if v.FrameType != wantFT {
			viol("C08:video:key-frame-flag-wrong:"+strings.ToLower(q.Codec), map[string]interface{}{"tag": p.tag, "nal_type": f.NalType, "frame_type": v.FrameType, "want": wantFT})
		} else {
			c.Count("key_flag_ok", 1)
		}
		wantCTS := c08ms(f.PtsNs) - c08ms(f.DtsNs)
		if wantCTS >= 1<<23 || wantCTS < -(1<<23) {
			c.Count("unjudged_cts_not_representable_in_24_bits", 1)
		} else {
			d := int64(v.CompositionTime) - wantCTS
			switch {
			case d == 0:
				c.Count("cts_ok", 1)
				if wantCTS < 0 {
					c.Count("cts_ok_negative", 1)
				}
			case d == 1 || d == -1:
				c.Count("unjudged_cts_off_by_one_rounding", 1)
			default:
				viol("C08:cts:wrong", map[string]interface{}{"tag": p.tag, "cts": v.CompositionTime, "want": wantCTS, "pts_ns": f.PtsNs, "dts_ns": f.DtsNs})
			}
		}
	}
	// ---- timestamps
	if len(pairs) == 0 {
		return
	}
	if !aligned {
		// the tags before the mismatch are not identified, so the client's first media tag is unknown
		c.Count("timestamps_not_judged_after_fidelity_violation", 1)
		return
	}
	const two32 = int64(1) << 32
	mod32 := func(x int64) uint32 { return uint32(((x % two32) + two32) % two32) }
	near := func(a, b uint32) int { // 0 equal, 1 off by one, 2 different
		d := int32(a - b)
		if d == 0 {
			return 0
		}
		if d == 1 || d == -1 {
			return 1
		}
		return 2
	}
	d0 := c08ms(q.Frames[pairs[0].frame].DtsNs)
	s0 := res.Tags[pairs[0].tag].Timestamp
	// The statement fixes the client's first tag at zero but header tags carry no source time, so the time
	// the first tag stands for is either 0 (headers stamped 0: timestamps are absolute) or implied by the
	// first media tag. Both hypotheses are scored against all tags; the better one is judged.
	type hyp struct {
		base   int64
		regime string
	}
	hyps := []hyp{{0, "absolute(headers-at-0)"}}
	if s0 < 1<<31 {
		if d0-int64(s0) != 0 {
			hyps = append(hyps, hyp{d0 - int64(s0), "rebased"})
		}
	} else {
		hyps = append(hyps, hyp{d0 + (two32 - int64(s0)), "rebased-first-media-tag-older-than-first-tag"})
	}
	var base int64
	regime := ""
	bestCost := int64(-1)
	for _, h := range hyps {
		var cost int64
		for _, p := range pairs {
			rel := c08ms(q.Frames[p.frame].DtsNs) - h.base
			ts := res.Tags[p.tag].Timestamp
			if rel < 0 {
				if ts >= 1<<31 {
					cost += 1000
				}
				continue
			}
			switch near(ts, mod32(rel)) {
			case 1:
				cost++
			case 2:
				cost += 1000
			}
		}
		if bestCost < 0 || cost < bestCost {
			bestCost, base, regime = cost, h.base, h.regime
		}
	}
	if base == 0 && s0 == 0 {
		regime = "absolute==rebased"
	}
	c.SetAdd("timestamp_regime", regime)
	if base != 0 {
		// the base must be the decode time of some tag this client received (the statement: rebased so
		// that the client's first tag is zero); header tags carry no source time of their own
		okBase := false
		for _, p := range pairs {
			dd := c08ms(q.Frames[p.frame].DtsNs) - base
			if dd >= -1 && dd <= 1 {
				okBase = true
				break
			}
		}
		if !okBase {
			viol("C08:timestamp:base-is-not-a-received-tags-time", map[string]interface{}{"first_media_tag": pairs[0].tag,
				"shown": s0, "source_dts_ms": d0, "implied_base_ms": base})
			return
		}
	}
	for _, p := range pairs {
		t := &res.Tags[p.tag]
		f := &q.Frames[p.frame]
		d := c08ms(f.DtsNs)
		rel := d - base
		if rel < 0 {
			if t.Timestamp >= 1<<31 {
				viol("C08:timestamp:older-than-first-wraps", map[string]interface{}{"tag": p.tag, "shown_timestamp": t.Timestamp,
					"source_dts_ms": d, "client_first_tag_time_ms": base, "older_by_ms": -rel, "audio": f.Audio})
				c.SetAdd("older_than_first_wrap_witnesses", fmt.Sprintf("%s/%s/audio-origin=%s/tag-is-audio=%v",
					c08ModeNames[q.Mode], map[bool]string{true: "present-from-start", false: "late-joiner"}[full], q.Classes["audio"]+q.Classes["directed"], f.Audio))
			} else {
				c.Count("unjudged_older_than_first_tag_shown_without_wrap", 1)
			}
			continue
		}
		switch near(t.Timestamp, mod32(rel)) {
		case 0:
			c.Count("timestamp_ok", 1)
			if t.TimestampExt != 0 {
				c.Count("timestamp_ok_with_extension_byte", 1)
			}
		case 1:
			c.Count("unjudged_timestamp_off_by_one_rounding", 1)
		default:
			sig := "C08:timestamp:wrong"
			if mod32(d0) == 0xffffffff && s0 == 0 && !full {
				// input class: the replayed first tag carries the raw 32-bit time 0xFFFFFFFF
				sig = "C08:timestamp:wrong:first-tag-time-0xffffffff"
			}
			viol(sig, map[string]interface{}{"tag": p.tag, "shown_timestamp": t.Timestamp, "want": mod32(rel),
				"source_dts_ms": d, "client_first_tag_time_ms": base, "regime": regime})
		}
	}
}

var c08SmallSeen = map[int]bool{}

func c08SizeClass(c *kit.Ctx, n int) {
	switch {
	case n <= c08SmallSizes:
		if !c08SmallSeen[n] {
			c08SmallSeen[n] = true
			c.Count("distinct_nal_sizes_1_to_300_seen_in_this_shard", 1)
		}
		c.Count("nal_size_1_to_300", 1)
	case n == 65535 || n == 65536 || n == 70000 || n == 1<<20:
		c.SetAdd("big_nal_sizes", fmt.Sprint(n))
		c.Count("nal_size_big", 1)
	default:
		c.Count("nal_size_other", 1)
	}
}

// c08WriterProbe is the smallest reproduction of the rebasing arithmetic: the tag list a late joiner's
// queue holds after FlvCache.PushTo (headers stamped with the key frame's time, then the GOP) written
// through flv.Writer, with one audio tag 10 ms older than the key frame.
func c08WriterProbe(c *kit.Ctx) {
	var buf bytes.Buffer
	w, err := flv.NewWriter(&buf, 5)
	if err != nil {
		return
	}
	script := []byte{2, 0, 10, 'o', 'n', 'M', 'e', 't', 'a', 'D', 'a', 't', 'a', 8, 0, 0, 0, 0, 0, 0, 9}
	tags := []*flv.Tag{
		{TagType: 18, Timestamp: 1000, Data: script},
		{TagType: 9, Timestamp: 1000, Data: []byte{0x17, 1, 0, 0, 0, 0, 0, 0, 1, 0x65}},
		{TagType: 8, Timestamp: 990, Data: []byte{0xaf, 1, 0x21}},
	}
	func() {
		defer func() { recover() }()
		for _, t := range tags {
			w.WriteFlvTag(t)
		}
	}()
	c.Eval(1)
	res := kit.ReadFLV(buf.Bytes())
	if len(res.Tags) == 3 && len(res.Errors) == 0 {
		if ts := res.Tags[2].Timestamp; ts >= 1<<31 {
			c.Violation("C08:timestamp:older-than-first-wraps", map[string]interface{}{
				"directed":        "flv.Writer probe: WriteFlvTag(script@1000), WriteFlvTag(video key@1000), WriteFlvTag(audio@990)",
				"shown_timestamp": ts, "client_first_tag_time_ms": 1000, "source_dts_ms": 990, "older_by_ms": 10})
		}
		c.Count("writer_probe_runs", 1)
	}
	// second probe: the replayed first tag carries the raw time 0xFFFFFFFF (key frame at 2^32-1 ms)
	buf.Reset()
	w, err = flv.NewWriter(&buf, 5)
	if err != nil {
		return
	}
	tags = []*flv.Tag{
		{TagType: 18, Timestamp: 0xffffffff, Data: script},
		{TagType: 9, Timestamp: 0xffffffff, Data: []byte{0x17, 1, 0, 0, 0, 0, 0, 0, 1, 0x65}},
		{TagType: 9, Timestamp: 39, Data: []byte{0x27, 1, 0, 0, 0, 0, 0, 0, 1, 0x41}}, // 40 ms after the key frame
		{TagType: 9, Timestamp: 79, Data: []byte{0x27, 1, 0, 0, 0, 0, 0, 0, 1, 0x41}}, // 80 ms after
	}
	func() {
		defer func() { recover() }()
		for _, t := range tags {
			w.WriteFlvTag(t)
		}
	}()
	c.Eval(1)
	res = kit.ReadFLV(buf.Bytes())
	if len(res.Tags) == 4 && len(res.Errors) == 0 {
		if res.Tags[2].Timestamp != 40 || res.Tags[3].Timestamp != 80 {
			c.Violation("C08:timestamp:wrong:first-tag-time-0xffffffff", map[string]interface{}{
				"directed":         "flv.Writer probe: WriteFlvTag(script@0xFFFFFFFF), (video key@0xFFFFFFFF), (video@39), (video@79)",
				"shown_timestamps": []uint32{res.Tags[0].Timestamp, res.Tags[1].Timestamp, res.Tags[2].Timestamp, res.Tags[3].Timestamp},
				"want":             []uint32{0, 0, 40, 80}})
		}
		c.Count("writer_probe_runs", 1)
	}
}

func runC08(c *kit.Ctx) {
	verifhook.Set(c08mon.handle)
	defer verifhook.Set(nil)
	c08LateParameterSets(c)
	n := c.Pick(1200, 30000)
	for i := 0; i < n; i++ {
		if !c.Mine(i) {
			continue
		}
		var q *c08Seq
		if i < c08NDirected {
			q = c08DirectedCase(c, i)
		} else {
			q = c08Generate(c, i)
		}
		c.Pre(fmt.Sprintf("C08 case %d seed %d tier %s mode %s codec %s", i, c.Seed, c.Tier, c08ModeNames[q.Mode], q.Codec))
		var outs []c08Output
		var ok bool
		func() {
			defer func() {
				if r := recover(); r != nil {
					d := q.replay()
					d["panic"] = fmt.Sprint(r)
					c.Violation("C08:panic:harness-thread", d)
				}
			}()
			switch {
			case q.Mode == 0:
				outs, ok = c08RunDirect(c, q)
			case i%8 == 3: // every eighth stream case goes through the real HTTP / WebSocket service (c08_service.go)
				outs, ok = c08RunService(c, q, []string{"http-flv", "ws-flv"}[(i/8)%2])
			default:
				outs, ok = c08RunStream(c, q)
			}
		}()
		// recovered panics in flv code paths that did not kill the muxer (consumer goroutines)
		for _, site := range kit.Log.TakePanics() {
			if strings.Contains(site, "flv") {
				d := q.replay()
				d["site"] = site
				c.Violation("C08:panic:"+site, d)
			} else {
				c.SetAdd("unjudged_recovered_panics_outside_flv", site)
			}
		}
		if !ok {
			continue
		}
		var shape []string
		for _, k := range []string{"time", "cts", "audio", "start", "step_ms", "directed"} {
			if v, ok := q.Classes[k]; ok {
				shape = append(shape, k+"="+v)
			}
		}
		var types strings.Builder
		for _, f := range q.Frames {
			if f.Audio {
				types.WriteString("a,")
			} else {
				fmt.Fprintf(&types, "%d:%d,", f.NalType, len(f.Payload))
			}
		}
		key := fmt.Sprintf("%s/ps%d/asc%d/%s/%s/%s", q.Codec, q.PSIdx, q.ASCIdx, c08ModeNames[q.Mode], strings.Join(shape, ","), types.String())
		c.SetAdd("modes", c08ModeNames[q.Mode]+"/"+q.Codec+map[bool]string{true: "+AAC", false: ""}[q.ASCIdx >= 0])
		c.SetAdd("time_classes", q.Classes["time"])
		c.SetAdd("cts_classes", q.Classes["cts"])
		c.SetAdd("audio_origin_classes", q.Classes["audio"])
		c.Count("sequences_run", 1)
		c.Count("source_frames", int64(len(q.Frames)))
		for _, o := range outs {
			c.Distinct(fmt.Sprintf("%s/join%d", key, o.joinIdx))
			if o.joinIdx >= 0 {
				c.Count("joiner_streams_judged", 1)
			} else {
				c.Count("full_streams_judged", 1)
			}
			c08Judge(c, q, o)
		}
		if i < c08NDirected+3 {
			s := q.replay()
			s["clients"] = len(outs)
			c.Sample(s)
		}
	}
	if c.Shard == 0 {
		c08WriterProbe(c)
	}
	c.Note("case_list", fmt.Sprintf("%d sequences (first %d hand-written), index i -> codec i%%2, AAC (i/2)%%2, mode (i/4)%%3, parameter set (i/12), ASC (i/24); NAL sizes cycle 1..300 with stride 17, 1/4 of the sequences carry one NAL of 65535/65536/70000 bytes or 1 MiB", n, c08NDirected))
}
