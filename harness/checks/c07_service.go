package checks

import (
	"fmt"
	"sort"
	"strings"
	"sync"
	"sync/atomic"
	"time"

	"verifharness/kit"

	"github.com/cnotch/ipchub/media"
)

// C07, service level: a real RECORD publisher on the real server sends a valid stream with ONE hostile interleaved
// frame in it, while real players (RTSP/TCP, RTSP/UDP, ws-rtsp, HTTP-FLV) are attached to that stream and a second
// publisher with its own player runs a bystander stream in the same server.
//
// Oracle (state, not time: every wait is kit.WaitUntil):
//   - the bystander's player keeps receiving and its session is never ended ("cannot disturb other streams or sessions");
//   - as long as the target stream itself is still live (registered, publisher connection open), none of its players
//     is thrown out and each of them keeps receiving the well-formed packets that follow ("the same stream continues
//     to relay RTP and to produce FLV ... for subsequent well-formed packets");
//   - whether the server keeps or ends the PUBLISHER's session after a framing-level violation (unknown channel,
//     RTP shorter than its header) is recorded, not judged: the statement does not say that a peer which breaks the
//     framing must be kept;
//   - after everything is closed the connection counters and the registry are back to their prior values.

type c07svcItem struct {
	name    string
	channel int
	data    func(seq uint16) []byte
	// payloadLevel: a frame that is well-formed as a frame on a negotiated channel; only its RTP content is hostile.
	// After such an item the publisher's session must survive as well.
	payloadLevel bool
}

func c07svcItems() []c07svcItem {
	rtp := func(seq uint16, n int) []byte {
		return kit.MakeRTP(kit.ChVideo, 96, true, seq, uint32(seq)*3000, 0x77, kit.H264NAL(2, 1, n, uint64(seq)+1)).Data
	}
	return []c07svcItem{
		{"oversized-rtp-65522", 0, func(s uint16) []byte { return rtp(s, 65522-12) }, true},
		{"rtp-header-only-12-bytes", 0, func(s uint16) []byte { return rtp(s, 40)[:12] }, true},
		{"rtp-shorter-than-header-11", 0, func(s uint16) []byte { return rtp(s, 40)[:11] }, false},
		{"rtp-1-byte", 0, func(s uint16) []byte { return []byte{0x80} }, false},
		{"zero-length-frame", 0, func(s uint16) []byte { return nil }, false},
		{"rtcp-garbage-3-bytes", 1, func(s uint16) []byte { return []byte{0x80, 200, 0} }, true},
		{"audio-rtp-bad-au-header", 2, func(s uint16) []byte {
			return kit.MakeRTP(kit.ChAudio, 97, true, s, uint32(s)*1024, 0x78, []byte{0xff, 0xff, 0xff}).Data
		}, true},
		{"unknown-channel-9", 9, func(s uint16) []byte { return rtp(s, 20) }, false},
	}
}

type c07svcFeeder struct {
	cl    *kit.RTSPClient
	seq   uint32
	stop  int32
	dead  int32
	done  chan struct{}
	inj   chan func()
	audio bool
}

func c07svcFeed(cl *kit.RTSPClient) *c07svcFeeder {
	f := &c07svcFeeder{cl: cl, done: make(chan struct{}), inj: make(chan func(), 1)}
	go func() {
		defer close(f.done)
		for atomic.LoadInt32(&f.stop) == 0 {
			select {
			case fn := <-f.inj:
				fn()
			default:
			}
			s := uint16(atomic.AddUint32(&f.seq, 1))
			typ := byte(1)
			if s%10 == 1 {
				typ = 5
			}
			p := kit.MakeRTP(kit.ChVideo, 96, true, s, uint32(s)*3000, 0x77, kit.H264NAL(2, typ, 200, uint64(s)+1))
			if cl.WriteFrame(0, p.Data) != nil {
				atomic.StoreInt32(&f.dead, 1)
				return
			}
			if s%4 == 0 {
				ap := kit.MakeRTP(kit.ChAudio, 97, true, s, uint32(s)*1024, 0x78, kit.AACHbr([][]byte{kit.AACAU(40, uint64(s)+1)}))
				if cl.WriteFrame(2, ap.Data) != nil {
					atomic.StoreInt32(&f.dead, 1)
					return
				}
			}
			time.Sleep(2 * time.Millisecond)
		}
	}()
	return f
}

func c07ServiceLevel(c *kit.Ctx) {
	items := c07svcItems()
	var mine []c07svcItem
	for i, it := range items {
		if c.Mine(i) {
			mine = append(mine, it)
		}
	}
	srv := kit.StartServer(false, false, 0)
	base := kit.Snapshot()
	for _, it := range mine {
		c07svcRun(c, srv, it)
	}
	c07svcHostileSDP(c, srv, base)
	if !waitUntil(func() bool {
		k := kit.Snapshot()
		return k.Rtsp == base.Rtsp && k.Flv == base.Flv && k.Wsp == base.Wsp
	}, 8*time.Second) {
		c.Violation("C07:service:connection-counters-not-restored", map[string]interface{}{"baseline": base.String(), "after": kit.Snapshot().String()})
	}
	c.Note("service_level", "RECORD session with one hostile interleaved frame, four players on the stream, bystander stream (c07_service.go); hostile ANNOUNCE SDP and pulled cameras are covered by C14 / C20")
}

func c07svcRun(c *kit.Ctx, srv *kit.Server, it c07svcItem) {
	scen := "service/" + it.name
	c.Pre("C07 " + scen)
	path := fmt.Sprintf("/c07svc/s%d/%s", c.Shard, it.name)
	byPath := path + "-bystander"
	detail := map[string]interface{}{"scenario": scen}

	dial := func(p string) (*kit.RTSPClient, *c07svcFeeder, bool) {
		cl, err := kit.DialRTSP(srv.Addr)
		if err != nil {
			c.Inconclusive("service level: dial publisher: " + err.Error())
			return nil, nil, false
		}
		if _, err := cl.Publish(srv.URL(p), kit.SDPH264AAC); err != nil {
			cl.Close()
			c.Inconclusive("service level: publisher handshake: " + err.Error())
			return nil, nil, false
		}
		return cl, c07svcFeed(cl), true
	}
	pub, feed, ok := dial(path)
	if !ok {
		return
	}
	defer func() { atomic.StoreInt32(&feed.stop, 1); <-feed.done; pub.Close() }()
	bpub, bfeed, ok := dial(byPath)
	if !ok {
		return
	}
	defer func() { atomic.StoreInt32(&bfeed.stop, 1); <-bfeed.done; bpub.Close() }()
	if !waitUntil(func() bool { return media.Get(path) != nil && media.Get(byPath) != nil }, 8*time.Second) {
		c.Inconclusive("service level: streams did not appear")
		return
	}
	var players []*c03client
	defer func() {
		for _, p := range players {
			p.close()
		}
	}()
	for _, k := range []string{"rtsp-tcp", "rtsp-udp", "ws-rtsp", "http-flv"} {
		p, err := c03Attach(srv, path, k)
		if err != nil {
			c.Inconclusive("service level: attach " + k + ": " + err.Error())
			return
		}
		players = append(players, p)
	}
	by, err := c03Attach(srv, byPath, "rtsp-tcp")
	if err != nil {
		c.Inconclusive("service level: attach bystander player: " + err.Error())
		return
	}
	by.name = "bystander-rtsp-tcp"
	defer by.close()
	for _, p := range append(append([]*c03client{}, players...), by) {
		p := p
		if !waitUntil(func() bool { return atomic.LoadInt64(&p.rx) > 3 }, 20*time.Second) {
			c.Inconclusive("service level: no media on " + p.name + " before the injection")
			return
		}
	}
	// ---- the hostile frame, written by the publisher's own goroutine between two valid frames
	injected := make(chan struct{})
	feed.inj <- func() {
		s := uint16(atomic.AddUint32(&feed.seq, 1))
		pub.WriteFrame(it.channel, it.data(s))
		close(injected)
	}
	select {
	case <-injected:
	case <-feed.done:
	case <-time.After(kit.Patience):
		c.Inconclusive("service level: injection not performed")
		return
	}
	c.Eval(1)
	c.Distinct(scen)
	marks := map[*c03client]int64{}
	for _, p := range append(append([]*c03client{}, players...), by) {
		marks[p] = atomic.LoadInt64(&p.rx)
	}
	sentAt := atomic.LoadUint32(&feed.seq)
	// let at least 60 more well-formed frames be written (or the publisher be disconnected)
	waitUntil(func() bool {
		return atomic.LoadUint32(&feed.seq) >= sentAt+60 || atomic.LoadInt32(&feed.dead) != 0
	}, 20*time.Second)
	ended := func(p *c03client) bool {
		select {
		case <-p.ended:
			return true
		default:
			return false
		}
	}
	// bystander first: nothing that happens on the target stream may touch it
	if !waitUntil(func() bool { return ended(by) || atomic.LoadInt64(&by.rx) > marks[by]+10 }, 8*time.Second) || ended(by) {
		detail["bystander_ended"] = ended(by)
		c.Violation("C07:service:bystander-stream-disturbed:"+it.name, detail)
	}
	// the target stream: still live?
	pubAlive := atomic.LoadInt32(&feed.dead) == 0 && media.Get(path) != nil
	if pubAlive {
		// one more probe write settles whether the server has closed the publisher's connection meanwhile
		time.Sleep(20 * time.Millisecond)
		pubAlive = atomic.LoadInt32(&feed.dead) == 0 && media.Get(path) != nil
	}
	if pubAlive {
		c.SetAdd("service_publisher_session_kept_after", it.name)
	} else {
		c.SetAdd("service_publisher_session_ended_after", it.name)
		if it.payloadLevel {
			detail["stream_registered"] = media.Get(path) != nil
			c.Violation("C07:service:publisher-session-ended-by-hostile-payload:"+it.name, detail)
		}
		return
	}
	for _, p := range players {
		p := p
		progressed := waitUntil(func() bool {
			return ended(p) || atomic.LoadInt64(&p.rx) > marks[p]+10 || atomic.LoadInt32(&feed.dead) != 0 || media.Get(path) == nil
		}, 8*time.Second)
		if atomic.LoadInt32(&feed.dead) != 0 || media.Get(path) == nil {
			c.SetAdd("service_publisher_session_ended_after", it.name+"(late)")
			return
		}
		if ended(p) {
			detail["player"] = p.name
			c.Violation(fmt.Sprintf("C07:service:player-thrown-out-although-stream-is-live:%s:%s", it.name, p.name), detail)
			continue
		}
		if !progressed || atomic.LoadInt64(&p.rx) <= marks[p]+10 {
			detail["player"], detail["received_since"] = p.name, atomic.LoadInt64(&p.rx)-marks[p]
			c.Violation(fmt.Sprintf("C07:service:player-stopped-receiving-although-stream-is-live:%s:%s", it.name, p.name), detail)
			continue
		}
		c.SetAdd("service_players_still_served_after_hostile_frame", it.name+":"+p.name)
	}
}

// ---- hostile SDP in ANNOUNCE ---------------------------------------------------------------------------------

// c07svcSDPs: single-field corruptions and truncations of the parameter fields of a valid H.264+AAC description.
func c07svcSDPs() map[string]string {
	v := kit.SDPH264AAC
	rep := func(old, new string) string { return strings.Replace(v, old, new, 1) }
	return map[string]string{
		"aac-config-1-byte":         rep("config=121056E500", "config=12"),
		"aac-config-empty":          rep("config=121056E500", "config="),
		"aac-config-odd-hex":        rep("config=121056E500", "config=121"),
		"aac-config-rate-escape":    rep("config=121056E500", "config=17"), // sampling index 0xF without the 24-bit rate
		"aac-rtpmap-no-channels":    rep("MPEG4-GENERIC/44100/2", "MPEG4-GENERIC/44100"),
		"aac-rtpmap-no-rate":        rep("MPEG4-GENERIC/44100/2", "MPEG4-GENERIC"),
		"h264-sprop-truncated-sps":  rep("Z2QAH6zZQFAFuhAAAAMAEAAAAwPI8YMZYA==", "Z2QA"),
		"h264-sprop-one-byte":       rep("Z2QAH6zZQFAFuhAAAAMAEAAAAwPI8YMZYA==,aO+8sA==", "Zw==,aA=="),
		"h264-sprop-not-base64":     rep("Z2QAH6zZQFAFuhAAAAMAEAAAAwPI8YMZYA==", "!!!!"),
		"h264-sprop-empty":          rep("sprop-parameter-sets=Z2QAH6zZQFAFuhAAAAMAEAAAAwPI8YMZYA==,aO+8sA==", "sprop-parameter-sets="),
		"h264-rtpmap-clock-garbage": rep("H264/90000", "H264/x"),
		"sizelength-huge":           rep("sizelength=13", "sizelength=4000000000"),
	}
}

func c07svcHostileSDP(c *kit.Ctx, srv *kit.Server, base kit.Counters) {
	sdps := c07svcSDPs()
	var names []string
	for n := range sdps {
		names = append(names, n)
	}
	sort.Strings(names)
	// ledger of converter goroutines by identity (hook enter/exit): whatever a session started must be gone when it is gone
	var lmu sync.Mutex
	liveSet := map[interface{}]string{}
	liveN := func() int { lmu.Lock(); defer lmu.Unlock(); return len(liveSet) }
	rules := []*kit.Rule{}
	for _, n := range []string{"rtpdemuxer", "flvmuxer", "tsmuxer"} {
		n := n
		rules = append(rules, kit.H.On(n+".enter", nil, func(_ string, a []interface{}) {
			if len(a) > 0 {
				lmu.Lock()
				liveSet[a[0]] = n
				lmu.Unlock()
			}
		}), kit.H.On(n+".exit", nil, func(_ string, a []interface{}) {
			if len(a) > 0 {
				lmu.Lock()
				delete(liveSet, a[0])
				lmu.Unlock()
			}
		}))
	}
	defer kit.RemoveAll(rules)
	for ni, name := range names {
		if !c.Mine(100 + ni) {
			continue
		}
		scen := "service/hostile-sdp/" + name
		c.Pre("C07 " + scen)
		detail := map[string]interface{}{"scenario": scen, "sdp": sdps[name]}
		path := fmt.Sprintf("/c07sdp/s%d/%s", c.Shard, name)
		// start from a quiet server: what earlier scenarios held has been released
		if !waitUntil(func() bool { k := kit.Snapshot(); return k.Rtsp == base.Rtsp && k.Flv == base.Flv && liveN() == 0 }, 8*time.Second) {
			c.Inconclusive("hostile sdp: server not quiet before the scenario")
			continue
		}
		before := kit.Snapshot()
		cl, err := kit.DialRTSP(srv.Addr)
		if err != nil {
			c.Inconclusive("hostile sdp: dial: " + err.Error())
			continue
		}
		code, perr := cl.Publish(srv.URL(path), sdps[name])
		outcome := "refused"
		if perr == nil {
			outcome = "accepted"
			// the stream was accepted: well-formed video that follows must be relayed
			pl, err := c03Attach(srv, path, "rtsp-tcp")
			if err != nil {
				c.SetAdd("service_hostile_sdp_player_attach", name+":"+err.Error())
			} else {
				stopFeed := int32(0)
				fd := make(chan struct{})
				go func() {
					defer close(fd)
					for s := uint16(1); atomic.LoadInt32(&stopFeed) == 0 && s < 3000; s++ {
						typ := byte(1)
						if s%10 == 1 {
							typ = 5
						}
						p := kit.MakeRTP(kit.ChVideo, 96, true, s, uint32(s)*3000, 0x79, kit.H264NAL(2, typ, 200, uint64(s)+1))
						if cl.WriteFrame(0, p.Data) != nil {
							return
						}
						time.Sleep(2 * time.Millisecond)
					}
				}()
				got := waitUntil(func() bool { return atomic.LoadInt64(&pl.rx) > 5 }, 8*time.Second)
				atomic.StoreInt32(&stopFeed, 1)
				<-fd
				pl.close()
				if !got {
					c.Violation("C07:service:accepted-stream-does-not-relay-after-hostile-sdp:"+name, detail)
				}
			}
		} else if code == 0 {
			outcome = "connection-closed-during-handshake"
		}
		c.SetAdd("service_hostile_sdp_outcomes", name+":"+outcome)
		cl.Close()
		c.Eval(1)
		c.Distinct(scen)
		// nothing of the hostile session may stay behind: converter goroutines, registration, connection counters
		if !waitUntil(func() bool {
			k := kit.Snapshot()
			return liveN() == 0 && media.Get(path) == nil && k.Rtsp == before.Rtsp
		}, 8*time.Second) {
			detail["converter_goroutines_left"] = liveN()
			detail["registered"] = media.Get(path) != nil
			detail["counters_before"], detail["counters_now"] = before.String(), kit.Snapshot().String()
			what := "connection-counter"
			if liveN() > 0 {
				what = "converter-goroutines"
			} else if media.Get(path) != nil {
				what = "registration"
			}
			c.Violation("C07:service:left-behind-after-hostile-sdp:"+what+":"+name, detail)
		}
		// and the server still serves: a valid publisher on a fresh path
		ok2, err := kit.DialRTSP(srv.Addr)
		if err == nil {
			if _, err := ok2.Publish(srv.URL(path+"-valid"), kit.SDPH264AAC); err != nil {
				detail["err"] = err.Error()
				c.Violation("C07:service:valid-publisher-refused-after-hostile-sdp:"+name, detail)
			}
			ok2.Close()
			waitUntil(func() bool { return media.Get(path+"-valid") == nil }, 5*time.Second)
		}
	}
}
