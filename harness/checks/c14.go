package checks

import (
	"bufio"
	"bytes"
	"encoding/binary"
	"encoding/hex"
	"errors"
	"fmt"
	"io"
	"net/url"
	"os"
	"regexp"
	"runtime/debug"
	"strconv"
	"strings"
	"sync"
	"time"

	"verifharness/kit"

	"github.com/cnotch/ipchub/av/format/rtp"
	"github.com/cnotch/ipchub/av/format/rtsp"
	srtsp "github.com/cnotch/ipchub/service/rtsp"
)

// C14 — RTSP wire codec round-trips and frames interleaved data exactly.
//
// Oracle: a model message (method/status, URL string, header fields, body; channel, payload) that is
//   (a) written by ipchub's writers, checked against an independent reference decoder, read back by
//       ipchub's readers through a chunking reader and compared with the model;
//   (b) encoded by an independent reference encoder into concatenations that the real dispatcher
//       (service/rtsp.receive via VerifReceive) must split into exactly the model sequence, consuming
//       exactly one item per call (source offset minus bufio.Buffered() is compared with the item
//       boundaries);
//   (c) hostile inputs: no panic, a body shorter than Content-Length is an error, endless header data
//       and an absurd Content-Length are rejected after a bounded amount of input / allocation.
// Comparison is modulo what the writers are specified to normalise: header names are compared
// case-insensitively (known RTSP names must additionally be retrievable under their canonical spelling),
// multi-values after the ", " join, values modulo outer whitespace, Content-Length added/removed from
// len(Body), an empty port ("host:") may come back without the colon.

func init() { kit.Register("C14", runC14) }

// ---- watchdog -------------------------------------------------------------------------------

type c14Watch struct {
	mu    sync.Mutex
	desc  string
	size  int
	start time.Time
}

func (w *c14Watch) set(desc string, size int) {
	w.mu.Lock()
	w.desc, w.size, w.start = desc, size, time.Now()
	w.mu.Unlock()
}

func (w *c14Watch) run(c *kit.Ctx, stop chan struct{}) {
	t := time.NewTicker(time.Second)
	defer t.Stop()
	for {
		select {
		case <-stop:
			return
		case <-t.C:
			w.mu.Lock()
			d, sz, st := w.desc, w.size, w.start
			w.mu.Unlock()
			if d == "" || time.Since(st) < 120*time.Second {
				continue
			}
			if sz <= 1<<20 {
				// a parser still busy after two minutes on at most 1 MiB of in-memory input does not terminate
				c.Violation("C14:nontermination:"+strings.SplitN(d, " ", 2)[0], map[string]interface{}{"case": d, "input_bytes": sz})
			} else {
				c.Inconclusive("watchdog: " + strings.SplitN(d, " ", 2)[0])
			}
			c.Finish()
			os.Exit(0)
		}
	}
}

var c14W = &c14Watch{}

// ---- panic guard ----------------------------------------------------------------------------

var c14FrameRe = regexp.MustCompile(`(?m)^(github\.com/[^\s(]+(?:\(\*?\w+\))?[\w\.]*)\(`)

// c14PanicSite extracts the innermost non-harness github.com frame below the panic.
func c14PanicSite(stack string) string {
	if i := strings.Index(stack, "\npanic("); i >= 0 {
		stack = stack[i+1:]
	}
	for _, m := range c14FrameRe.FindAllStringSubmatch(stack, -1) {
		if strings.Contains(m[1], "verifharness") {
			continue
		}
		f := m[1]
		f = strings.TrimPrefix(f, "github.com/")
		return f
	}
	return "unknown"
}

func c14Hex(b []byte) string {
	if len(b) > 2048 {
		return hex.EncodeToString(b[:2048]) + fmt.Sprintf("...(+%d bytes)", len(b)-2048)
	}
	return hex.EncodeToString(b)
}

// c14Guard runs f; a panic is a finding recorded under the panic site.
func c14Guard(c *kit.Ctx, entry, class string, input []byte, f func()) (panicked bool) {
	defer func() {
		if r := recover(); r != nil {
			panicked = true
			site := c14PanicSite(string(debug.Stack()))
			c.Violation("C14:panic:"+site, map[string]interface{}{"entry": entry, "class": class,
				"panic": fmt.Sprint(r), "input_hex": c14Hex(input), "input_len": len(input)})
			c.SetAdd("panic_entries", entry+" <- "+class)
		}
	}()
	f()
	return false
}

// ---- comparison -----------------------------------------------------------------------------

// c14CmpFields compares parsed header fields with the model; "" = equal.
func c14CmpFields(m *c14Item, got rtsp.Header) (string, string) {
	exp := c14ExpFields(m)
	gf := map[string]string{}
	for k, vs := range got {
		fk := strings.ToLower(k)
		j := strings.TrimSpace(strings.Join(vs, ", "))
		if old, ok := gf[fk]; ok {
			return "header-split-by-case", fmt.Sprintf("field %q present under two spellings (%q and %q)", fk, old, j)
		}
		gf[fk] = j
	}
	for k, v := range exp {
		g, ok := gf[k]
		if !ok {
			return "header-missing", fmt.Sprintf("field %q (value %q) missing; parsed names: %v", k, c14Clip(v, 80), c14HeaderNames(got))
		}
		if g != v {
			return "header-value", fmt.Sprintf("field %q: want %q got %q (first difference at %d)", k, c14Clip(v, 120), c14Clip(g, 120), c14FirstDiff(v, g))
		}
		if canon, known := c14KnownFold[k]; known {
			if _, ok := got[canon]; !ok {
				return "header-not-canonical", fmt.Sprintf("field %q parsed but not stored under %q; parsed names: %v", k, canon, c14HeaderNames(got))
			}
		}
	}
	for k := range gf {
		if _, ok := exp[k]; !ok {
			return "header-extra", fmt.Sprintf("unexpected field %q = %q", k, c14Clip(gf[k], 80))
		}
	}
	return "", ""
}

func c14HeaderNames(h rtsp.Header) []string {
	var ks []string
	for k := range h {
		ks = append(ks, k)
	}
	return ks
}

func c14CmpBody(want, got string) (string, string) {
	if want == got {
		return "", ""
	}
	return "body", fmt.Sprintf("body: want %d bytes got %d bytes, first difference at %d", len(want), len(got), c14FirstDiff(want, got))
}

func c14CmpRequest(m *c14Item, got *rtsp.Request) (string, string) {
	if got == nil {
		return "nil-message", "nil request with nil error"
	}
	if got.Method != m.Method {
		return "method", fmt.Sprintf("method: want %q got %q", m.Method, got.Method)
	}
	if got.URL == nil {
		return "url", "URL is nil"
	}
	if u := got.URL.String(); u != m.URL && (m.URLAlt == "" || u != m.URLAlt) {
		return "url", fmt.Sprintf("url: want %q got %q", m.URL, u)
	}
	if cls, d := c14CmpFields(m, got.Header); cls != "" {
		return cls, d
	}
	return c14CmpBody(m.Body, got.Body)
}

func c14CmpResponse(m *c14Item, got *rtsp.Response) (string, string) {
	if got == nil {
		return "nil-message", "nil response with nil error"
	}
	if got.StatusCode != m.Code {
		return "status-code", fmt.Sprintf("status code: want %d got %d", m.Code, got.StatusCode)
	}
	if want := strconv.Itoa(m.Code) + " " + m.Reason; got.Status != want {
		return "status-text", fmt.Sprintf("status: want %q got %q", want, got.Status)
	}
	if cls, d := c14CmpFields(m, got.Header); cls != "" {
		return cls, d
	}
	return c14CmpBody(m.Body, got.Body)
}

func c14CmpFrame(c *kit.Ctx, m *c14Item, got *rtp.Packet) (string, string) {
	if got == nil {
		return "nil-message", "nil packet with nil error"
	}
	if int(got.Channel) != m.ChIdx {
		return "frame-channel", fmt.Sprintf("channel index: want %d got %d (wire channel %d)", m.ChIdx, got.Channel, m.Wire)
	}
	if !bytes.Equal(got.Data, m.Data) {
		return "frame-payload", fmt.Sprintf("payload: want %d bytes got %d bytes, first difference at %d", len(m.Data), len(got.Data), c14FirstDiff(string(m.Data), string(got.Data)))
	}
	if m.Media && m.ValidRTP {
		// not part of the stated property (channel and payload): counted only
		if got.SequenceNumber != binary.BigEndian.Uint16(m.Data[2:]) || got.Timestamp != binary.BigEndian.Uint32(m.Data[4:]) ||
			got.SSRC != binary.BigEndian.Uint32(m.Data[8:]) || got.PayloadType != m.Data[1]&0x7f {
			c.Count("unjudged_rtp_header_field_differs", 1)
		}
	}
	return "", ""
}

func c14ItemDetail(m *c14Item, wire []byte) map[string]interface{} {
	d := map[string]interface{}{"kind": m.Kind, "shape": m.Shape, "wire_hex": c14Hex(wire), "wire_len": len(wire)}
	switch m.Kind {
	case "request":
		d["method"], d["url"] = m.Method, m.URL
	case "response":
		d["code"], d["reason"] = m.Code, m.Reason
	case "frame":
		d["channel_index"], d["wire_channel"], d["payload_len"] = m.ChIdx, m.Wire, len(m.Data)
	}
	return d
}

// ---- part 1: round trip through ipchub's writers and readers ----------------------------------

func c14Header(m *c14Item) rtsp.Header {
	h := make(rtsp.Header)
	for _, f := range m.Fields {
		for _, v := range f.Values {
			h.Add(f.Name, v) // the way session.go / pull_client.go fill headers (Set/Add)
		}
	}
	return h
}

func c14RoundTripMsg(c *kit.Ctx, i int) {
	rng := c.SubRng("c14rt", i)
	var m *c14Item
	if rng.Intn(2) == 0 {
		m = c14GenRequest(rng, true)
	} else {
		m = c14GenResponse(rng, true)
		switch rng.Intn(5) {
		case 0: // Status filled the conventional way ("200 OK")
			m.Reason = c14Reasons[rng.Intn(len(c14Reasons))]
			m.StatusField = strconv.Itoa(m.Code) + " " + m.Reason
			m.Shape += "/status-full"
		case 1: // Status holds only the phrase
			m.Reason = c14Reasons[rng.Intn(len(c14Reasons))]
			m.StatusField = m.Reason
			m.Shape += "/status-phrase"
		}
	}
	if rng.Intn(10) == 0 { // stale Content-Length in the header map: Write must override / drop it
		m.Fields = append(m.Fields, c14Field{"Content-Length", []string{strconv.Itoa(rng.Intn(99999))}})
		m.Shape += "/stale-cl"
	}
	bs := c14BufSizes[rng.Intn(len(c14BufSizes))]
	k := c14Ks[rng.Intn(len(c14Ks))]
	m.Shape += fmt.Sprintf("/buf%d/%s", bs, c14KClass(k))
	c14W.set("roundtrip "+m.Shape, len(m.Body))

	// write with ipchub
	var buf bytes.Buffer
	var werr error
	if c14Guard(c, "Write", m.Shape, nil, func() {
		if m.Kind == "request" {
			u, err := url.Parse(m.URL)
			if err != nil {
				werr = err
				return
			}
			req := &rtsp.Request{Method: m.Method, URL: u, Header: c14Header(m), Body: m.Body}
			werr = req.Write(&buf)
		} else {
			resp := &rtsp.Response{StatusCode: m.Code, Status: m.StatusField, Header: c14Header(m), Body: m.Body}
			werr = resp.Write(&buf)
		}
	}) {
		return
	}
	c.Eval(1)
	wire := append([]byte(nil), buf.Bytes()...)
	if werr != nil {
		c.Violation("C14:roundtrip:write-error:"+m.Kind, map[string]interface{}{"err": werr.Error(), "item": c14ItemDetail(m, wire)})
		return
	}
	// independent decode of what was written
	ref, rerr := c14RefDecode(wire)
	if rerr != nil || ref.Used != len(wire) || ref.Kind != m.Kind {
		c.Violation("C14:roundtrip:write-malformed:"+m.Kind, map[string]interface{}{"ref_err": fmt.Sprint(rerr), "item": c14ItemDetail(m, wire)})
		return
	}
	if m.Kind == "response" && m.Reason == "" {
		m.Reason = ref.Reason // the emitter chose the phrase; the reader must give back that one
		if ref.Reason == "" {
			c.Count("unjudged_empty_reason_phrase", 1)
		}
	}
	wcls := ""
	switch {
	case m.Kind == "request" && ref.Method != m.Method:
		wcls = "method"
	case m.Kind == "request" && ref.URL != m.URL:
		wcls = "url"
	case m.Kind == "response" && ref.Code != m.Code:
		wcls = "status-code"
	case m.Kind == "response" && ref.Reason != m.Reason:
		wcls = "status-text"
	case ref.Body != m.Body:
		wcls = "body"
	}
	if wcls == "" {
		exp := c14ExpFields(m)
		if len(exp) != len(ref.Fields) {
			wcls = "header-set"
		}
		for k, v := range exp {
			if g, ok := ref.Fields[k]; !ok || g != v {
				wcls = "header-value"
			}
		}
	}
	if wcls != "" {
		c.Violation("C14:roundtrip:write-"+wcls+":"+m.Kind, map[string]interface{}{"item": c14ItemDetail(m, wire), "ref_fields": ref.Fields})
		return
	}

	// read back with ipchub through a chunking reader, a tail behind the message
	tail := []byte("$\x00\x00\x01ZRTSP")[:rng.Intn(10)]
	src := &c14Src{data: append(append([]byte(nil), wire...), tail...), maxK: k, rng: rng}
	br := bufio.NewReaderSize(src, bs)
	var req *rtsp.Request
	var resp *rtsp.Response
	var err error
	if c14Guard(c, "Read"+m.Kind, m.Shape, wire, func() {
		if m.Kind == "request" {
			req, err = rtsp.ReadRequest(br)
		} else {
			resp, err = rtsp.ReadResponse(br)
		}
	}) {
		return
	}
	if err != nil {
		c.Violation("C14:roundtrip:read-error:"+m.Kind, map[string]interface{}{"err": err.Error(), "item": c14ItemDetail(m, wire), "bufio": bs, "k": k})
		return
	}
	var cls, det string
	if m.Kind == "request" {
		cls, det = c14CmpRequest(m, req)
	} else {
		cls, det = c14CmpResponse(m, resp)
	}
	if cls != "" {
		c.Violation("C14:roundtrip:"+cls+":"+m.Kind, map[string]interface{}{"diff": det, "item": c14ItemDetail(m, wire), "bufio": bs, "k": k})
		return
	}
	if used := src.pos - br.Buffered(); used != len(wire) {
		c.Violation("C14:roundtrip:consumed-length:"+m.Kind, map[string]interface{}{"consumed": used, "message_len": len(wire), "item": c14ItemDetail(m, wire), "bufio": bs, "k": k})
		return
	}
	c.Distinct(m.Shape)
	c.Count("roundtrip_"+m.Kind+"s_equal", 1)
	if m.URLAlt != "" && req != nil && req.URL.String() == m.URLAlt {
		c.Count("roundtrip_empty_port_normalised", 1)
	}
	if len(m.Body) > 0 {
		c.SetAdd("roundtrip_body_size_classes", c14SizeClass(len(m.Body)))
	}
	if i < 48 && i%16 == 0 {
		c.Sample(map[string]interface{}{"part": "roundtrip", "shape": m.Shape, "wire": c14Clip(string(wire), 300)})
	}
}

func c14SizeClass(n int) string {
	switch {
	case n == 0:
		return "0"
	case n < 16:
		return "1-15"
	case n <= 300:
		return "16-300"
	case n <= 5000:
		return "301-5000"
	case n < 65535:
		return "5001-65534"
	}
	return ">=65535"
}

func c14RoundTripFrame(c *kit.Ctx, i int) {
	rng := c.SubRng("c14fr", i)
	ch := c14Channels(rng)
	// frame sizes: every length 0..65535 is visited across the case list (i mod 65536 in the thorough
	// tier), plus the class generator
	m := c14GenFrame(rng, ch, 0, true)
	if i%3 == 0 {
		n := (i / 3 * 257) % 65536
		if m.Media {
			if n < 12 {
				n = 12
			}
			m.Data, _ = c14RTP(rng, n)
		} else {
			m.Data = make([]byte, n)
			rng.Read(m.Data)
		}
		m.Shape = fmt.Sprintf("frame/idx%d/sweep%d", m.ChIdx, n)
	}
	bs := c14BufSizes[rng.Intn(len(c14BufSizes))]
	k := c14Ks[rng.Intn(len(c14Ks))]
	c14W.set("roundtrip-frame "+m.Shape, len(m.Data))
	var buf bytes.Buffer
	var werr error
	if c14Guard(c, "Packet.Write", m.Shape, nil, func() {
		p := &rtp.Packet{Channel: byte(m.ChIdx), Data: m.Data}
		werr = p.Write(&buf, ch)
	}) {
		return
	}
	c.Eval(1)
	wire := append([]byte(nil), buf.Bytes()...)
	if werr != nil {
		c.Violation("C14:roundtrip:write-error:frame", map[string]interface{}{"err": werr.Error(), "item": c14ItemDetail(m, wire), "channels": ch})
		return
	}
	if want := c14Encode(m, rng, true); !bytes.Equal(want, wire) {
		c.Violation("C14:roundtrip:write-frame-bytes", map[string]interface{}{"item": c14ItemDetail(m, wire), "channels": ch,
			"want_prefix_hex": hex.EncodeToString(want[:4]), "got_len": len(wire)})
		return
	}
	tail := []byte("$\x00\x00\x01ZRTSP")[:rng.Intn(10)]
	src := &c14Src{data: append(append([]byte(nil), wire...), tail...), maxK: k, rng: rng}
	br := bufio.NewReaderSize(src, bs)
	var got *rtp.Packet
	var err error
	if c14Guard(c, "ReadPacket", m.Shape, wire, func() { got, err = rtp.ReadPacket(br, ch) }) {
		return
	}
	if err != nil {
		c.Violation("C14:roundtrip:read-error:frame", map[string]interface{}{"err": err.Error(), "item": c14ItemDetail(m, wire), "channels": ch})
		return
	}
	if cls, det := c14CmpFrame(c, m, got); cls != "" {
		c.Violation("C14:roundtrip:"+cls, map[string]interface{}{"diff": det, "item": c14ItemDetail(m, wire), "channels": ch})
		return
	}
	if used := src.pos - br.Buffered(); used != len(wire) {
		c.Violation("C14:roundtrip:consumed-length:frame", map[string]interface{}{"consumed": used, "message_len": len(wire), "item": c14ItemDetail(m, wire)})
		return
	}
	c.Distinct(fmt.Sprintf("%s/len%d/wire%d", m.Shape, len(m.Data), m.Wire))
	c.Count("roundtrip_frames_equal", 1)
	c.SetAdd("roundtrip_frame_size_classes", c14SizeClass(len(m.Data)))
	c.SetAdd("roundtrip_frame_channel_index", strconv.Itoa(m.ChIdx))
}

// ---- part 2: framing through the dispatcher ----------------------------------------------------

type c14Got struct {
	kind string
	req  *rtsp.Request
	resp *rtsp.Response
	pack *rtp.Packet
	n    int
}

func c14Framing(c *kit.Ctx, i int) {
	rng := c.SubRng("c14cat", i)
	ch := c14Channels(rng)
	nitems := 1 + rng.Intn(12)
	big := rng.Intn(6) == 0
	var items []*c14Item
	var offs []int
	var stream []byte
	var kinds []string
	for j := 0; j < nitems; j++ {
		var m *c14Item
		switch r := rng.Intn(20); {
		case r < 5:
			m = c14GenRequest(rng, big)
		case r < 10:
			m = c14GenResponse(rng, big)
			m.Reason = c14Reasons[rng.Intn(len(c14Reasons))]
		case r < 17:
			m = c14GenFrame(rng, ch, 0, big)
		case r < 18:
			m = c14GenFrame(rng, ch, 1, big)
		default:
			m = c14GenFrame(rng, ch, 2, big)
		}
		items = append(items, m)
		offs = append(offs, len(stream))
		stream = append(stream, c14Encode(m, rng, rng.Intn(3) == 0)...)
		kinds = append(kinds, c14ShortKind(m))
	}
	offs = append(offs, len(stream))
	bs := c14BufSizes[rng.Intn(len(c14BufSizes))]
	k := c14Ks[rng.Intn(len(c14Ks))]
	shape := fmt.Sprintf("%s/buf%d/%s", strings.Join(kinds, ""), bs, c14KClass(k))
	c14W.set("framing "+shape, len(stream))
	c.Pre(fmt.Sprintf("C14 framing case %d seed %d shard %d: %s", i, c.Seed, c.Shard, shape))
	src := &c14Src{data: stream, maxK: k, rng: rng}
	br := bufio.NewReaderSize(src, bs)
	base := func(j int) map[string]interface{} {
		return map[string]interface{}{"case": i, "sequence": kinds, "item_index": j, "item_offset": offs[j], "item_end": offs[j+1],
			"bufio": bs, "k": k, "channels": ch, "item": c14ItemDetail(items[j], stream[offs[j]:offs[j+1]]), "stream_len": len(stream)}
	}
	c.Eval(1)
	ok := true
	for j, m := range items {
		var got c14Got
		var err error
		if c14Guard(c, "VerifReceive", "framing "+m.Shape, stream[offs[j]:offs[j+1]], func() {
			err = srtsp.VerifReceive(br, ch, func(kind string, req *rtsp.Request, resp *rtsp.Response, pack *rtp.Packet) error {
				got.kind, got.req, got.resp, got.pack = kind, req, resp, pack
				got.n++
				return nil
			})
		}) {
			ok = false
			break
		}
		kcls := c14ShortKindName(m)
		used := src.pos - br.Buffered()
		deliverable := m.Kind != "frame" || (m.Mapped && (!m.Media || m.ValidRTP))
		if deliverable {
			if err != nil {
				d := base(j)
				d["err"] = err.Error()
				c.Violation("C14:framing:error-on-valid-item:"+kcls, d)
				ok = false
				break
			}
			if got.n != 1 || got.kind != m.Kind {
				d := base(j)
				d["got_kind"], d["callbacks"] = got.kind, got.n
				c.Violation("C14:framing:wrong-kind:"+kcls, d)
				ok = false
				break
			}
			var cls, det string
			switch m.Kind {
			case "request":
				cls, det = c14CmpRequest(m, got.req)
			case "response":
				cls, det = c14CmpResponse(m, got.resp)
			default:
				cls, det = c14CmpFrame(c, m, got.pack)
			}
			if cls != "" {
				d := base(j)
				d["diff"] = det
				c.Violation("C14:framing:content-"+cls+":"+kcls, d)
				ok = false
				break
			}
		} else {
			// a frame that cannot be delivered (unknown channel / broken RTP header): error or clean skip,
			// and if something is delivered it must be this payload
			switch {
			case got.n == 0 && err != nil:
				c.Count("framing_undeliverable_frame_reported_as_error", 1)
			case got.n == 0:
				c.Count("framing_undeliverable_frame_skipped", 1)
			case got.kind == "frame" && got.pack != nil && bytes.Equal(got.pack.Data, m.Data):
				c.Count("framing_undeliverable_frame_delivered_anyway", 1)
			default:
				d := base(j)
				d["got_kind"] = got.kind
				c.Violation("C14:framing:wrong-kind:"+kcls, d)
				ok = false
			}
			if !ok {
				break
			}
		}
		if used != offs[j+1] {
			d := base(j)
			d["position_after_item"], d["want_position"], d["source_consumed"], d["buffered"] = used, offs[j+1], src.pos, br.Buffered()
			dir := "over-read"
			if used < offs[j+1] {
				dir = "under-read"
			}
			c.Violation("C14:framing:desync:"+kcls+":"+dir, d)
			ok = false
			break
		}
	}
	if ok {
		// end of stream: nothing more may be delivered
		var got c14Got
		var err error
		if !c14Guard(c, "VerifReceive", "framing end-of-stream", nil, func() {
			err = srtsp.VerifReceive(br, ch, func(kind string, req *rtsp.Request, resp *rtsp.Response, pack *rtp.Packet) error {
				got.n++
				got.kind = kind
				return nil
			})
		}) {
			if got.n != 0 || err == nil {
				c.Violation("C14:framing:no-eof-at-end", map[string]interface{}{"case": i, "sequence": kinds, "callbacks": got.n, "kind": got.kind, "err": fmt.Sprint(err)})
				ok = false
			} else if errors.Is(err, io.EOF) {
				c.Count("framing_end_is_io_EOF", 1)
			} else {
				c.Count("framing_end_is_other_error", 1)
			}
		}
	}
	if ok {
		c.Distinct(shape)
		c.Count("framing_concatenations_exact", 1)
		c.Count("framing_items_exact", int64(len(items)))
		c.SetAdd("framing_chunking", c14KClass(k))
		c.SetAdd("framing_bufio_size", strconv.Itoa(bs))
		for j := 1; j < len(items); j++ {
			c.SetAdd("framing_adjacent_pairs", c14ShortKind(items[j-1])+c14ShortKind(items[j]))
		}
		if i < 64 && i%16 == 0 {
			c.Sample(map[string]interface{}{"part": "framing", "sequence": kinds, "stream_len": len(stream), "bufio": bs, "k": k, "channels": ch})
		}
	}
}

// c14ShortKind: Q request, S response, F deliverable frame, B broken-RTP frame, U unmapped-channel frame.
func c14ShortKind(m *c14Item) string {
	switch {
	case m.Kind == "request":
		return "Q"
	case m.Kind == "response":
		return "S"
	case !m.Mapped:
		return "U"
	case m.Media && !m.ValidRTP:
		return "B"
	}
	return "F"
}

func c14ShortKindName(m *c14Item) string {
	return map[string]string{"Q": "request", "S": "response", "F": "frame", "B": "frame-bad-rtp", "U": "frame-unmapped-channel"}[c14ShortKind(m)]
}

// ---- driver -----------------------------------------------------------------------------------

func runC14(c *kit.Ctx) {
	stop := make(chan struct{})
	go c14W.run(c, stop)
	defer close(stop)

	nmsg := c.Pick(3000, 300000)
	nfr := c.Pick(1500, 200000)
	ncat := c.Pick(500, 50000)
	for i := 0; i < nmsg; i++ {
		if c.Mine(i) {
			c14RoundTripMsg(c, i)
		}
	}
	for i := 0; i < nfr; i++ {
		if c.Mine(i) {
			c14RoundTripFrame(c, i)
		}
	}
	for i := 0; i < ncat; i++ {
		if c.Mine(i) {
			c14Framing(c, i)
		}
	}
	c14Negative(c)
	c14Bounds(c)
	c14W.set("", 0)
	if c.Shard == 0 {
		c.Note("case_lists", map[string]int{"roundtrip_messages": nmsg, "roundtrip_frames": nfr, "concatenations": ncat})
	}
	for _, p := range kit.Log.TakePanics() {
		c.Violation("C14:panic:logged:"+p, map[string]interface{}{"note": "recovered panic reported through ipchub's logger"})
	}
}
