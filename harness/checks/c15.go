package checks

import (
	"encoding/hex"
	"fmt"
	"math"
	"os"
	"regexp"
	"runtime"
	"runtime/debug"
	"sort"
	"strings"
	"sync"
	"sync/atomic"
	"time"

	"verifharness/kit"
)

// C15 — codec parameter parsing is spec-correct and total on arbitrary bytes.
//
// Oracle: independent bit-exact encoders (c15_h264.go, c15_hevc.go, c15_aac.go, kit/bitenc.go) written from the
// standards produce parameter sets together with the standard-defined output values; ipchub's decoders and
// media.NewStream are the system under test. Every judged mismatch is attributed to the narrowest syntax
// feature (hypothesis re-encoding, first divergent syntax group, feature minimisation) to get a canonical sig.
// Negative part: exhaustive short strings, seeded random strings and mutations of valid sets through every
// Decode entry point and through SDP -> media.NewStream, each call under a watchdog.

func init() { kit.Register("C15", runC15) }

// c15Expect holds the standard-defined output values of a video parameter set.
type c15Expect struct {
	W, H        int
	HasFPS      bool // false: the standard defines no frame rate for this set
	FPS         float64
	Fixed       bool
	FixedJudged bool
}

// c15Out is what ipchub reported.
type c15Out struct {
	Err   string
	W, H  int
	FPS   float64
	Fixed bool
}

// c15Diff records the first divergent raw syntax field (in syntax order).
type c15Diff struct {
	Group, Field string
	Want, Got    int64
	Found        bool
	Skip         string // group to ignore (hypothesis tests)
	Seq, At      int    // number of comparisons made / ordinal of the first divergent one
}

func (d *c15Diff) cmp(group, field string, want, got int64) {
	d.Seq++
	if d.Found || want == got || group == d.Skip {
		return
	}
	d.Group, d.Field, d.Want, d.Got, d.Found, d.At = group, field, want, got, true, d.Seq
}

func c15b(b bool) int64 {
	if b {
		return 1
	}
	return 0
}

// c15Guarded is the outcome of one call into ipchub under the watchdog.
type c15Guarded struct {
	Panic   string
	Site    string        // innermost ipchub frame
	Through string        // outermost ipchub Decode / MetadataIsReady frame the panic passed through (else Site)
	Hung    bool          // still running after c15Watchdog + c15Grace
	Slow    time.Duration // finished, but only after the watchdog had fired
	Stack   string
}

var c15FrameRe = regexp.MustCompile(`github\.com/cnotch/ipchub/([\w/\.\(\)\*]+)\(`)

func c15PanicSite(stack []byte) (site, through string) {
	s := string(stack)
	if i := strings.Index(s, "panic("); i >= 0 {
		s = s[i:]
	}
	site = "unknown"
	ms := c15FrameRe.FindAllStringSubmatch(s, -1)
	if len(ms) > 0 {
		site = ms[0][1]
	}
	through = site
	for _, m := range ms { // innermost exported Decode the panic passed through: the function that should have contained it
		if strings.HasSuffix(m[1], ".Decode") {
			through = m[1]
			break
		}
	}
	return site, through
}

const (
	c15Watchdog = 10 * time.Second
	// A call that outlives the watchdog gets this much longer before it is declared non-terminating: an ipchub
	// decoder may allocate hundreds of MB for a tiny input, which in a VM can take seconds without being a loop.
	c15Grace = 590 * time.Second
)

// c15WD is the process-wide watchdog state: the call into ipchub currently running on the check's goroutine.
var c15WD struct {
	mu      sync.Mutex
	running bool
	start   time.Time
	stack   string // goroutine dump taken when the watchdog fired
	lastPre atomic.Value
	onHang  func(desc, stack string) // records the violation, writes the result and ends the process
}

func c15Pre(c *kit.Ctx, desc string) {
	c15WD.lastPre.Store(desc)
	c.Pre(desc)
}

func c15IpchubStack() string {
	buf := make([]byte, 1<<18)
	n := runtime.Stack(buf, true)
	var keep []string
	for _, blk := range strings.Split(string(buf[:n]), "\n\n") {
		if strings.Contains(blk, "cnotch/ipchub") && strings.Contains(blk, "c15Guard") {
			if len(blk) > 1500 {
				blk = blk[:1500]
			}
			keep = append(keep, blk)
		}
	}
	return strings.Join(keep, "\n--\n")
}

// c15StartWatchdog starts the goroutine that watches the guarded calls: a call still running after c15Watchdog gets its
// stack sampled; one still running after c15Watchdog+c15Grace is a non-terminating parser: the violation is recorded,
// the shard result is written and the process ends (the stuck call cannot be interrupted).
func c15StartWatchdog() {
	go func() {
		for {
			time.Sleep(500 * time.Millisecond)
			c15WD.mu.Lock()
			running, start, sampled := c15WD.running, c15WD.start, c15WD.stack != ""
			c15WD.mu.Unlock()
			if !running {
				continue
			}
			el := time.Since(start)
			if el > c15Watchdog && !sampled {
				st := c15IpchubStack()
				if st == "" {
					st = "(no ipchub frame found)"
				}
				c15WD.mu.Lock()
				if c15WD.running && c15WD.start == start {
					c15WD.stack = st
				}
				c15WD.mu.Unlock()
			}
			if el > c15Watchdog+c15Grace {
				desc, _ := c15WD.lastPre.Load().(string)
				st := "sample 1:\n" + c15IpchubStack()
				time.Sleep(time.Second)
				st += "\nsample 2:\n" + c15IpchubStack()
				time.Sleep(time.Second)
				st += "\nsample 3:\n" + c15IpchubStack()
				c15WD.onHang(desc, st)
				return
			}
		}
	}()
}

// c15Guard runs f (a call into ipchub) on the calling goroutine, recovering panics, under the watchdog.
func c15Guard(f func()) (g c15Guarded) {
	c15WD.mu.Lock()
	c15WD.running, c15WD.start, c15WD.stack = true, time.Now(), ""
	start := c15WD.start
	c15WD.mu.Unlock()
	defer func() {
		if r := recover(); r != nil {
			g.Panic = fmt.Sprint(r)
			g.Site, g.Through = c15PanicSite(debug.Stack())
		}
		c15WD.mu.Lock()
		c15WD.running = false
		st := c15WD.stack
		c15WD.mu.Unlock()
		if el := time.Since(start); el > c15Watchdog {
			g.Slow, g.Stack = el, st
		}
	}()
	f()
	return
}

// c15Minimize greedily switches features off while the case keeps failing; the result is 1-minimal.
func c15Minimize[T any](s *T, feats []c15Feat[T], clone func(*T) *T, norm func(*T), fails func(*T) bool) (*T, []string) {
	cur := s
	for changed, rounds := true, 0; changed && rounds < 4; rounds++ {
		changed = false
		for _, f := range feats {
			if !f.active(cur) {
				continue
			}
			v := clone(cur)
			f.off(v)
			norm(v)
			if f.active(v) {
				continue
			}
			if fails(v) {
				cur = v
				changed = true
			}
		}
	}
	var names []string
	for _, f := range feats {
		if f.active(cur) {
			names = append(names, f.name)
		}
	}
	return cur, names
}

func c15Active[T any](s *T, feats []c15Feat[T]) []string {
	var names []string
	for _, f := range feats {
		if f.active(s) {
			names = append(names, f.name)
		}
	}
	return names
}

// c15Parents: container features implied by a more specific one (dropped from sigs).
var c15Parents = map[string][]string{
	"crop-left-right": {"frame-cropping"}, "crop-top-bottom": {"frame-cropping"},
	"chroma-400": {"high-profile-syntax"}, "chroma-422": {"high-profile-syntax"}, "chroma-444": {"high-profile-syntax"},
	"separate-colour-plane": {"high-profile-syntax", "chroma-444"},
	"vui-timing-info":       {"vui"}, "vui-fixed-frame-rate": {"vui", "vui-timing-info"},
	"num-units-in-tick-ge-2^31": {"vui", "vui-timing-info"},
	"conf-win-left-right":       {"conformance-window"}, "conf-win-top-bottom": {"conformance-window"},
	"sub-layer-ordering-info-present": {}, "mbaff": {"field-coded"},
	"sync-extension-sbr-present": {"sync-extension-0x2b7"}, "sync-extension-ps-0x548": {"sync-extension-0x2b7", "sync-extension-sbr-present"},
	"sync-extension-explicit-frequency": {"sync-extension-0x2b7", "sync-extension-sbr-present"},
	"aot-escape-ge-32":                  {"aot-not-aac-lc"},
}

func c15Leaves(names []string) []string {
	drop := map[string]bool{}
	for _, n := range names {
		for _, p := range c15Parents[n] {
			drop[p] = true
		}
	}
	var out []string
	for _, n := range names {
		if !drop[n] {
			out = append(out, n)
		}
	}
	sort.Strings(out)
	return out
}

func c15FpsEq(a, b float64) bool {
	if a == b {
		return true
	}
	if math.IsInf(a, 0) || math.IsInf(b, 0) || math.IsNaN(a) || math.IsNaN(b) {
		return false
	}
	return math.Abs(a-b) <= 1e-9*math.Max(math.Abs(a), math.Abs(b))
}

// c15Judge lists the judged outputs that differ from the standard-defined values.
func c15Judge(e c15Expect, o c15Out) []string {
	var p []string
	if o.Err != "" {
		return []string{"rejected"}
	}
	if o.W != e.W {
		p = append(p, "width")
	}
	if o.H != e.H {
		p = append(p, "height")
	}
	if e.HasFPS {
		if !c15FpsEq(e.FPS, o.FPS) {
			p = append(p, "framerate")
		}
	} else if o.FPS != 0 {
		p = append(p, "framerate-reported-without-timing-info")
	}
	if e.FixedJudged && o.Fixed != e.Fixed {
		p = append(p, "fixed-frame-rate-flag")
	}
	return p
}

func c15ErrBrief(e string) string {
	if i := strings.IndexByte(e, '\n'); i >= 0 {
		e = e[:i]
	}
	if len(e) > 160 {
		e = e[:160]
	}
	return e
}

// c15Unescape removes the emulation prevention bytes our own encoder inserted (positions known).
func c15Unescape(nal []byte, epbAt []int) []byte {
	out := make([]byte, 0, len(nal))
	k := 0
	for i, b := range nal {
		if k < len(epbAt) && epbAt[k] == i {
			k++
			continue
		}
		out = append(out, b)
	}
	return out
}

// c15RawHas003 reports whether the unescaped NAL contains 00 00 03 (then it cannot be fed without escaping).
func c15RawHas003(raw []byte) bool {
	for i := 0; i+2 < len(raw); i++ {
		if raw[i] == 0 && raw[i+1] == 0 && raw[i+2] == 3 {
			return true
		}
	}
	return false
}

// c15 carries the per-shard state of the check.
type c15 struct {
	c        *kit.Ctx
	stats    kit.BitStats
	cov      map[string]int64
	seProbe  string         // "", "zero", "wrong": result of the direct bits.Reader.ReadSe probe
	ueBad    int            // smallest ue(v) width (bits of codeNum+1) the direct bits.Reader.ReadUe probe got wrong; 0 = none
	hangs    map[string]int // per codec
	slow     []map[string]interface{}
	negCalls [16]int64
	samples  map[string]int
}

func (k *c15) count(name string, d int64) { k.cov[name] += d }

func (k *c15) flush() {
	for n, v := range k.cov {
		k.c.Count(n, v)
	}
	for w := 1; w <= 32; w++ {
		k.c.Count(fmt.Sprintf("ue_width_%02d_bits", w), k.stats.UeWidth[w])
		k.c.Count(fmt.Sprintf("se_width_%02d_bits", w), k.stats.SeWidth[w])
	}
	k.c.Count("se_positive", k.stats.SePos)
	k.c.Count("se_negative", k.stats.SeNeg)
	k.c.Count("se_zero", k.stats.SeZero)
}

func (k *c15) epbCoverage(codec string, nal []byte, epb []int) {
	if len(epb) == 0 {
		return
	}
	k.count(codec+"_sets_with_emulation_prevention", 1)
	k.count(codec+"_emulation_prevention_bytes", int64(len(epb)))
	for _, p := range epb {
		cls := fmt.Sprintf("%s@%d", codec, p)
		if p >= 40 {
			cls = fmt.Sprintf("%s@%d..", codec, p/20*20)
		}
		if p == len(nal)-2 {
			cls = codec + "@last-but-one"
		}
		k.c.SetAdd("emulation_prevention_offsets", cls)
	}
	n := len(epb)
	if n > 6 {
		n = 6
	}
	k.c.SetAdd("emulation_prevention_per_set", fmt.Sprintf("%s:%d", codec, n))
}

func (k *c15) sample(kind string, v map[string]interface{}) {
	if k.samples[kind] < 1 {
		k.samples[kind]++
		v["kind"] = kind
		k.c.Sample(v)
	}
}

func (k *c15) guardFinding(codec, entry string, g c15Guarded, input []byte, extra map[string]interface{}) bool {
	if g.Slow > 0 {
		// finished after the watchdog: not a proof of non-termination -> inconclusive, with the evidence kept
		k.c.Inconclusive("slow-call-finished-after-watchdog:" + entry)
		k.slow = append(k.slow, map[string]interface{}{"entry": entry, "seconds": g.Slow.Seconds(), "input_hex": hex.EncodeToString(input), "where": g.Stack})
		if len(k.slow) <= 4 {
			k.c.Note("slow_calls", k.slow)
		}
	}
	if g.Panic == "" && !g.Hung {
		return false
	}
	d := map[string]interface{}{"entry": entry, "input_hex": hex.EncodeToString(input)}
	for a, b := range extra {
		d[a] = b
	}
	if g.Hung {
		k.hangs[codec]++
		d["stack"] = g.Stack
		d["watchdog_s"] = (c15Watchdog + c15Grace).Seconds()
		k.c.Violation("C15:"+codec+":non-termination", d)
		return true
	}
	d["panic"] = g.Panic
	d["panic_site"] = g.Site
	d["codec"] = codec
	k.c.Violation("C15:panic-escapes:"+g.Through, d)
	return true
}

func runC15(c *kit.Ctx) {
	k := &c15{c: c, cov: map[string]int64{}, hangs: map[string]int{}, samples: map[string]int{}}
	c15WD.onHang = func(desc, stack string) {
		if len(desc) > 6000 {
			desc = desc[:6000]
		}
		c.Violation("C15:non-termination", map[string]interface{}{"call_and_input": desc, "stack": stack,
			"still_running_after_s": (c15Watchdog + c15Grace).Seconds()})
		c.Note("aborted", "a guarded call never returned; the remaining cases of this shard were not run")
		c.Finish()
		os.Exit(0)
	}
	c15StartWatchdog()
	// the orchestrator runs one process per core: keep the Go scheduler/GC of this shard from spreading over all cores
	if c.NShards > 1 {
		runtime.GOMAXPROCS(3)
	}
	phases := map[string]float64{}
	for _, ph := range []struct {
		name string
		f    func()
	}{{"reader-probe", k.probeReader}, {"h264", k.runH264}, {"hevc-sps", k.runHevcSPS}, {"hevc-vps", k.runHevcVPS},
		{"asc", k.runAAC}, {"sdp", k.runSDP}, {"negative", k.runNegative}} {
		t0 := time.Now()
		ph.f()
		phases[ph.name] = math.Round(time.Since(t0).Seconds()*10) / 10
	}
	c.Note("phase_wall_seconds(informative only)", phases)
	k.flush()
	c.Note("judged_outputs", "h264: width,height,framerate,fixed flag; hevc sps: width,height,framerate (fixed flag unjudged: no such syntax element); hevc vps: accepted + timing fields; asc: core/extension sample rate, channels (channelConfiguration 1..7), object type")
}
