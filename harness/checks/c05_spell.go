package checks

import (
	"fmt"
	"math/rand"
	"strings"
	"time"

	"verifharness/kit"

	"github.com/cnotch/ipchub/media"
)

// C05, spellings part: "differently-cased and non-canonical spellings of the same path" name ONE registry key.
// Spellings are generated from a key by transformations that leave the path the same (case, surrounding blanks,
// missing leading slash, doubled slashes, "." elements anywhere including last, "x/.." detours anywhere including
// last); an independent canonicaliser confirms that. For every spelling: the stream created under it carries the
// key, lookups by other spellings find it, a second publisher under another spelling retires it, and the registry
// counts one stream for the path.

func c05RefCanon(p string) string {
	p = strings.ToLower(strings.TrimSpace(p))
	if p == "" {
		return "/"
	}
	trailing := strings.HasSuffix(p, "/")
	var out []string
	for _, e := range strings.Split(p, "/") {
		switch e {
		case "", ".":
		case "..":
			if len(out) > 0 {
				out = out[:len(out)-1]
			}
		default:
			out = append(out, e)
		}
	}
	r := "/" + strings.Join(out, "/")
	if trailing && r != "/" {
		r += "/"
	}
	return r
}

func c05Spelling(rng *rand.Rand, key string) string {
	elems := strings.Split(strings.TrimPrefix(key, "/"), "/")
	var b strings.Builder
	if rng.Intn(4) != 0 {
		b.WriteString("/")
	}
	for i, e := range elems {
		// detours before the element
		for rng.Intn(4) == 0 {
			switch rng.Intn(3) {
			case 0:
				b.WriteString("./")
			case 1:
				b.WriteString("/") // doubled slash
			default:
				b.WriteString([]string{"tmp", "X", "a.b"}[rng.Intn(3)] + "/../")
			}
		}
		var eb strings.Builder
		for _, ch := range e {
			if rng.Intn(3) == 0 {
				eb.WriteString(strings.ToUpper(string(ch)))
			} else {
				eb.WriteRune(ch)
			}
		}
		b.WriteString(eb.String())
		if i < len(elems)-1 {
			b.WriteString("/")
		}
	}
	// a dot element or a detour as the LAST element
	switch rng.Intn(6) {
	case 0:
		b.WriteString("/.")
	case 1:
		b.WriteString("/sub/..")
	case 2:
		b.WriteString("/./.")
	}
	s := b.String()
	switch rng.Intn(5) {
	case 0:
		s = " " + s
	case 1:
		s = s + "  "
	case 2:
		s = "\t" + s + " "
	}
	return s
}

func c05RunSpellings(c *kit.Ctx) {
	keys := []string{"/c05sp/live/a", "/c05sp/x", "/c05sp/room/12/main"}
	n := c.Pick(400, 20000)
	for i := 0; i < n; i++ {
		if !c.Mine(i) {
			continue
		}
		rng := c.SubRng("c05spell", i)
		key := keys[i%len(keys)]
		sp1, sp2, sp3 := c05Spelling(rng, key), c05Spelling(rng, key), c05Spelling(rng, key)
		if c05RefCanon(sp1) != key || c05RefCanon(sp2) != key || c05RefCanon(sp3) != key {
			c.Count("spellings_rejected_by_reference(generator)", 1)
			continue
		}
		c.Pre(fmt.Sprintf("C05 spellings %q %q %q", sp1, sp2, sp3))
		detail := map[string]interface{}{"key": key, "first_publisher": sp1, "lookup": sp2, "second_publisher": sp3}
		base, _ := media.Count()
		s1 := media.NewStream(sp1, kit.SDPH264Only)
		c.Eval(1)
		c.Distinct(fmt.Sprintf("spell/%s|%s|%s", sp1, sp2, sp3))
		cls := "plain"
		for _, sp := range []string{sp1, sp2, sp3} {
			t := strings.TrimSpace(sp)
			if strings.HasSuffix(t, "/.") || strings.HasSuffix(t, "/..") {
				cls = "dot-element-last"
			}
		}
		c.SetAdd("spelling_classes", cls)
		if s1.Path() != key {
			detail["stream_path"] = s1.Path()
			c.Violation("C05:spelling:stream-key-differs-from-canonical-path", detail)
			s1.Close()
			continue
		}
		media.Regist(s1)
		if g := media.Get(sp2); g != s1 {
			detail["got_nil"] = g == nil
			c.Violation("C05:spelling:lookup-by-other-spelling-misses-live-stream", detail)
		}
		s2 := media.NewStream(sp3, kit.SDPH264Only)
		media.Regist(s2)
		if g := media.Get(sp1); g != s2 {
			detail["got_old"] = g == s1
			c.Violation("C05:spelling:lookup-does-not-return-most-recent-registration", detail)
		}
		if media.VerifStatus(s1) == media.StreamOK {
			c.Violation("C05:spelling:previous-holder-not-retired-by-publisher-under-other-spelling", detail)
		}
		if now, _ := media.Count(); now != base+1 {
			detail["streams_for_one_path"] = now - base
			c.Violation("C05:spelling:count-differs-from-one-stream-for-one-path", detail)
		}
		media.Unregist(s1) // retired: must not remove the successor
		if g := media.Get(sp2); g != s2 {
			c.Violation("C05:spelling:unregistering-retired-stream-removed-successor", detail)
		}
		media.Unregist(s2)
		s1.Close()
		if g := media.Get(key); g != nil {
			c.Violation("C05:spelling:unregistered-stream-still-returned", detail)
			media.Unregist(g)
		}
	}
}

// c05CountsUnderConcurrentStop: "the reported ... consumer counts and listings always match the set of live streams" also
// when one consumer is detached twice at the same moment (an administrative stop racing the client's own disconnect):
// the first StopConsume is held after it has looked the consumer up (hook point media.remove.loaded, outside any lock),
// the second runs to completion, then the first is released. Afterwards the count must equal the number of consumers
// the listing shows, and a stream that still has a viewer must not be idle-closed.
func c05CountsUnderConcurrentStop(c *kit.Ctx) {
	kit.InstallHooks()
	rounds := c.Pick(6, 60)
	for ri := 0; ri < rounds; ri++ {
		if !c.Mine(ri) {
			continue
		}
		nCons := 2 + ri%3
		kind := []media.PacketType{media.RTPPacket, media.FLVPacket}[ri%2]
		path := fmt.Sprintf("/c05cnt/s%d/%d", c.Shard, ri)
		c.Pre(fmt.Sprintf("C05 counts under concurrent stop: %d consumers", nCons))
		s := media.NewStream(path, kit.SDPH264AAC)
		media.Regist(s)
		var cids []media.CID
		for k := 0; k < nCons; k++ {
			cids = append(cids, s.StartConsume(&kit.RecConsumer{}, kind, "c05"))
		}
		g := kit.H.Gate("media.remove.loaded", nil)
		first := make(chan struct{})
		go func() { s.StopConsume(cids[0]); close(first) }()
		if !g.WaitArrived(5 * time.Second) {
			g.Release()
			<-first
			c.Inconclusive("counts under concurrent stop: hook point not reached")
			media.Unregist(s)
			continue
		}
		s.StopConsume(cids[0]) // the second detach of the same consumer, complete
		g.Release()
		<-first
		c.Eval(1)
		c.Distinct(fmt.Sprintf("concurrent-stop/%d/%v", nCons, kind))
		info := s.Info(true)
		listed := len(info.Consumptions)
		detail := map[string]interface{}{"attached_before": nCons, "listed_after": listed, "ConsumerCount": s.ConsumerCount(), "info_count": info.ConsumptionCount}
		if s.ConsumerCount() != listed || listed != nCons-1 {
			c.Violation("C05:counts:consumer-count-differs-from-attached-consumers-after-concurrent-stop", detail)
		} else if closed := media.VerifIdleDecision(s, media.StreamNoConsumer, 0); closed {
			c.Violation("C05:idle:closed-although-audience-present:after-concurrent-stop", detail)
		}
		media.Unregist(s)
	}
}
