package checks

import (
	"fmt"
	"math/rand"
	"sync"
	"sync/atomic"
	"time"

	"verifharness/kit"

	"github.com/cnotch/ipchub/av/format"
	"github.com/cnotch/ipchub/av/format/flv"
	"github.com/cnotch/ipchub/config"
	"github.com/cnotch/ipchub/media"
)

// C02 — late joiners start with parameter sets and the current GOP, contiguous with live.
//
// Oracle: reference cache model. The received sequence must be writable as P ++ G ++ L for some
// cut c inside the join window: P ⊇ latest SPS/PPS(/VPS) carrying packets before c, G = (cache on) the
// video packets from the start of the most recent key frame up to c, L = exactly the packets from c on.

func init() { kit.Register("C02", runC02) }

type c02model struct {
	perSliceRestart bool // relaxation r1: every IDR slice NAL restarts the GOP
	oneClassPerPkt  bool // relaxation r2: a packet has exactly one class, precedence vps > sps > pps > slice
}

// c02Pre validates the replayed prefix for cut c under a model; returns "" when valid.
func c02Pre(seq []pubPkt, pre []int, c int, cacheOn, h265 bool, m c02model) string {
	cls := func(p pubPkt) (sps, pps, vps, key, keyStart, pure bool) {
		sps, pps, vps, key, keyStart, pure = p.hasSPS, p.hasPPS, p.hasVPS, p.keyAny, p.keyStart, p.pureParm
		if m.oneClassPerPkt && (sps || pps || vps) {
			switch {
			case vps:
				sps, pps = false, false
			case sps:
				pps = false
			}
			key, keyStart, pure = false, false, true
		}
		if m.perSliceRestart {
			keyStart = key
		}
		return
	}
	ks, ls, lp, lv := -1, -1, -1, -1
	for i := 0; i < c; i++ {
		sps, pps, vps, _, keyStart, _ := cls(seq[i])
		if keyStart {
			ks = i
		}
		if sps {
			ls = i
		}
		if pps {
			lp = i
		}
		if vps && h265 {
			lv = i
		}
	}
	seen := map[int]int{}
	for pos, i := range pre {
		if i >= c {
			return fmt.Sprintf("replayed part contains packet %d which is not before the cut %d", i, c)
		}
		if _, dup := seen[i]; dup {
			return fmt.Sprintf("packet %d replayed twice", i)
		}
		seen[i] = pos
	}
	demandedParams := map[int]bool{}
	for _, i := range []int{ls, lp, lv} {
		if i >= 0 {
			demandedParams[i] = true
		}
	}
	var g []int
	if cacheOn && ks >= 0 {
		for i := ks; i < c; i++ {
			_, _, _, _, _, pure := cls(seq[i])
			if seq[i].video && !pure {
				g = append(g, i)
			}
		}
	}
	inG := map[int]bool{}
	for _, i := range g {
		inG[i] = true
	}
	firstG := len(pre)
	last := -1
	for _, i := range g {
		pos, ok := seen[i]
		if !ok {
			return fmt.Sprintf("GOP packet %d (%s) missing from the replay (GOP starts at %d)", i, seq[i].desc, ks)
		}
		if pos < last {
			return fmt.Sprintf("GOP packet %d out of order in the replay", i)
		}
		last = pos
		if pos < firstG {
			firstG = pos
		}
	}
	for i := range demandedParams {
		pos, ok := seen[i]
		if !ok {
			return fmt.Sprintf("latest parameter-set packet %d (%s) missing from the replay", i, seq[i].desc)
		}
		if !inG[i] && pos > firstG {
			return fmt.Sprintf("parameter-set packet %d comes after the start of the GOP replay", i)
		}
	}
	for _, i := range pre {
		if demandedParams[i] || inG[i] {
			continue
		}
		// extras: non-video packets inside the GOP range are tolerated (audio replay is allowed, not demanded)
		if cacheOn && ks >= 0 && i >= ks && !seq[i].video {
			continue
		}
		return fmt.Sprintf("unexpected packet %d (%s) in the replay", i, seq[i].desc)
	}
	return ""
}

// c02Judge searches the cut. total = number of packets published incl. sentinel (idx total-1).
func c02Judge(seq []pubPkt, rec []int, lo, hi int, cacheOn, h265 bool, m c02model, liveSkew int) (bool, string) {
	total := len(seq)
	why := ""
	for c := lo; c <= hi && c <= total; c++ {
		nlive := total - c
		nlive -= liveSkew // diagnostic: >0 live part lacks its first packets, <0 it repeats the last replayed ones
		mcut := len(rec) - nlive
		if nlive < 0 || mcut > len(rec) {
			continue // (only reachable from c02Classify's relaxed windows)
		}
		if mcut < 0 {
			why = "fewer packets than the live part alone"
			continue
		}
		okLive := true
		start := c + liveSkew
		for j := 0; j < nlive; j++ {
			if start+j < 0 || start+j >= total || rec[mcut+j] != start+j {
				okLive = false
				break
			}
		}
		if !okLive {
			why = fmt.Sprintf("live part is not exactly packets %d.. in order", c)
			continue
		}
		if w := c02Pre(seq, rec[:mcut], c, cacheOn, h265, m); w != "" {
			why = w
			continue
		}
		return true, ""
	}
	return false, why
}

// c02Classify attributes a failed judgement to the narrowest relaxation that explains it.
func c02Classify(seq []pubPkt, rec []int, lo, hi int, cacheOn, h265 bool) (class string) {
	defer func() { // the relaxed windows are explored on records the model already rejected: never let that end the shard
		if recover() != nil {
			class = "no-valid-cut"
		}
	}()
	if ok, _ := c02Judge(seq, rec, lo, hi, cacheOn, h265, c02model{perSliceRestart: true}, 0); ok {
		return "gop-replay-starts-mid-keyframe:multi-slice-key-picture"
	}
	if ok, _ := c02Judge(seq, rec, lo, hi, cacheOn, h265, c02model{oneClassPerPkt: true}, 0); ok {
		return "keyframe-aggregated-with-parameter-sets-not-treated-as-key-or-full-paramset"
	}
	if ok, _ := c02Judge(seq, rec, lo, hi, cacheOn, h265, c02model{perSliceRestart: true, oneClassPerPkt: true}, 0); ok {
		return "multi-slice-and-aggregated-paramset-classification"
	}
	for _, m := range []c02model{{}, {perSliceRestart: true, oneClassPerPkt: true}} {
		for k := 1; k <= 12; k++ {
			if ok, _ := c02Judge(seq, rec, max(0, lo-k), hi, cacheOn, h265, m, +k); ok {
				return "join-window:packet-lost-between-cache-snapshot-and-live"
			}
			if ok, _ := c02Judge(seq, rec, lo, hi+k, cacheOn, h265, m, -k); ok {
				return "join-window:packet-repeated-in-cache-replay-and-live"
			}
		}
	}
	return "no-valid-cut"
}

// ---------- FLV variant: forced interleavings of one WriteFlvTag with one FLV join, and seeded stress.
// Tags are identified by an id inside their data because the cache replays re-stamped COPIES of the header tags.

type c02flvItem struct {
	tag *flv.Tag
	pp  pubPkt
}

func c02FlvBuild(rng *rand.Rand, idBase uint64) []c02flvItem {
	var out []c02flvItem
	id := idBase
	add := func(tagType byte, b0, b1 byte, ts uint32, pp pubPkt, script bool) {
		id++
		body := make([]byte, 24)
		kit.FillBody(body, id)
		var d []byte
		if script {
			// AMF0 string "onMetaData" + the id bytes (only IsMetadata() matters to the cache)
			d = append([]byte{0x02, 0x00, 0x0a}, []byte("onMetaData")...)
			d = append(d, body...)
		} else {
			d = append([]byte{b0, b1, 0, 0, 0}, body...)
		}
		pp.idx = len(out)
		pp.desc = fmt.Sprintf("%s@%d", pp.desc, ts)
		out = append(out, c02flvItem{&flv.Tag{TagType: tagType, DataSize: uint32(len(d)), Timestamp: ts, Data: d}, pp})
	}
	ts := uint32(1000 + rng.Intn(5000))
	// first AudioTagHeader byte as ipchub's own packetiser writes it: AAC (10) << 4 | rate index << 2 | 16 bit | mono/stereo
	// (0xaf only for stereo at 44.1/48/16 kHz; mono or 5.5/11/22 kHz streams give other values)
	ab := []byte{0xaf, 0xae, 0xab, 0xaa, 0xa7, 0xa6, 0xa3, 0xa2}[rng.Intn(8)]
	headers := func() {
		add(flv.TagTypeAmf0Data, 0, 0, ts, pubPkt{hasVPS: true, pureParm: true, video: true, desc: "META"}, true)
		add(flv.TagTypeVideo, 0x17, 0, ts, pubPkt{hasSPS: true, pureParm: true, video: true, desc: "VHDR"}, false)
		add(flv.TagTypeAudio, ab, 0, ts, pubPkt{hasPPS: true, pureParm: true, video: true, desc: "AHDR"}, false)
	}
	headers()
	for g := 0; g < 2+rng.Intn(3); g++ {
		if g > 0 && rng.Intn(2) == 0 {
			headers() // refreshed sequence headers
		}
		add(flv.TagTypeVideo, 0x17, 1, ts, pubPkt{video: true, hasSlice: true, keyAny: true, keyStart: true, desc: "K"}, false)
		ts += 40
		for k := 0; k < 1+rng.Intn(4); k++ {
			if rng.Intn(3) == 0 {
				add(flv.TagTypeAudio, ab, 1, ts, pubPkt{desc: "A"}, false)
			}
			add(flv.TagTypeVideo, 0x27, 1, ts, pubPkt{video: true, hasSlice: true, desc: "P"}, false)
			ts += 40
		}
	}
	add(flv.TagTypeAudio, ab, 1, ts, pubPkt{desc: "sentinel"}, false)
	return out
}

func c02FlvID(t *flv.Tag) (uint64, bool) {
	d := t.Data
	if t.TagType == flv.TagTypeAmf0Data {
		if len(d) < 13+12 {
			return 0, false
		}
		return kit.CheckBody(d[13:])
	}
	if len(d) < 5+12 {
		return 0, false
	}
	return kit.CheckBody(d[5:])
}

func c02RunFLV(c *kit.Ctx, watch time.Duration) {
	type ordering struct {
		name, heldPoint string
		holdJoin        bool
	}
	ords := []ordering{
		{"flv-join-held-at-begin|publish-complete", "media.join.begin", true},
		{"flv-join-held-after-snapshot|publish-complete", "media.join.snapshotted", true},
		{"flv-join-held-after-register|publish-complete", "media.join.registered", true},
		{"flv-publish-held-after-cache|join-complete", "media.flvwrite.cached", false},
		{"flv-publish-held-after-broadcast|join-complete", "media.flvwrite.sent", false},
	}
	nrep := c.Pick(6, 150)
	fcase := 0
	for rep := 0; rep < nrep; rep++ {
		for _, od := range ords {
			for _, cacheOn := range []bool{true, false} {
				fcase++
				if !c.Mine(fcase) {
					continue
				}
				rng := c.SubRng("c02flv", fcase)
				items := c02FlvBuild(rng, uint64(fcase)<<24|1<<62)
				n := len(items) - 1
				seq := make([]pubPkt, len(items))
				byID := map[uint64]int{}
				for i, it := range items {
					seq[i] = it.pp
					id, _ := c02FlvID(it.tag)
					byID[id] = i
				}
				k := 3 + rng.Intn(n-3) // the tag racing with the join (after the initial headers)
				scen := fmt.Sprintf("forced/%s/cache=%v", od.name, cacheOn)
				c.Pre(scen)
				s := c02Stream("H264", cacheOn)
				for i := 0; i < k; i++ {
					s.WriteFlvTag(items[i].tag)
				}
				r := &kit.RecConsumer{}
				join := func() { s.StartConsume(r, media.FLVPacket, "flv") }
				publish := func() { s.WriteFlvTag(items[k].tag) }
				var match func([]interface{}) bool
				held, other := join, publish
				if od.holdJoin {
					match = func(a []interface{}) bool { return len(a) > 1 && a[1] == r }
				} else {
					held, other = publish, join
					match = func(a []interface{}) bool { return len(a) > 1 && a[1] == items[k].tag }
				}
				g := kit.H.Gate(od.heldPoint, match)
				done := make(chan struct{})
				go func() { held(); close(done) }()
				if !g.WaitArrived(watch) {
					g.Release()
					<-done
					s.Close()
					c.Inconclusive("gate not reached: " + scen)
					continue
				}
				odone := make(chan struct{})
				go func() { other(); close(odone) }()
				select {
				case <-odone:
					c.SetAdd("forced_outcomes", od.heldPoint+":counterpart-ran-inside-window")
				case <-time.After(150 * time.Millisecond):
					c.SetAdd("forced_outcomes", od.heldPoint+":counterpart-blocked-until-release(serialised)")
				}
				g.Release()
				<-done
				<-odone
				for i := k + 1; i <= n; i++ {
					s.WriteFlvTag(items[i].tag)
				}
				sentID, _ := c02FlvID(items[n].tag)
				drained := waitUntil(func() bool {
					it := r.Items()
					if len(it) == 0 {
						return false
					}
					id, _ := c02FlvID(it[len(it)-1].Pack.(*flv.Tag))
					return id == sentID
				}, watch)
				s.Close()
				c.Eval(1)
				c.Distinct(fmt.Sprintf("%s/racing=%s", scen, items[k].pp.desc[:1]))
				c.SetAdd("interleavings_seen", scen)
				if !drained {
					c.Inconclusive("sentinel not delivered: " + scen)
					continue
				}
				var rec []int
				bad := false
				var tss []uint32
				for _, it := range r.Items() {
					t := it.Pack.(*flv.Tag)
					id, ok := c02FlvID(t)
					i, known := byID[id]
					if !ok || !known {
						bad = true
						break
					}
					rec = append(rec, i)
					tss = append(tss, t.Timestamp)
				}
				detail := map[string]interface{}{"ordering": od.name, "cache_gop": cacheOn, "racing_tag": k, "sequence": describeSeq2(seq), "received": rec}
				if bad {
					c.Violation("C02:flv:unknown-or-damaged-tag-delivered", detail)
					continue
				}
				if ok, why := c02Judge(seq, rec, k, k+1, cacheOn, true, c02model{}, 0); !ok {
					detail["why"] = why
					c.Violation("C02:flv:"+c02Classify(seq, rec, k, k+1, cacheOn, true)+":forced", detail)
					continue
				}
				// replayed headers carry the timestamp of the first replayed media tag (when a GOP is replayed)
				firstMedia := -1
				for j, i := range rec {
					if !seq[i].pureParm {
						firstMedia = j
						break
					}
				}
				if cacheOn && firstMedia > 0 && rec[firstMedia] < k {
					for j := 0; j < firstMedia; j++ {
						if tss[j] != tss[firstMedia] {
							detail["header_ts"], detail["first_media_ts"] = tss[j], tss[firstMedia]
							c.Violation("C02:flv:replayed-header-timestamp-differs-from-first-replayed-media-tag", detail)
							break
						}
					}
				}
			}
		}
	}

	// two FLV joiners: A joins in GOP 1 and does not read yet; B joins after a later key frame; A then reads.
	// A's replayed headers must still carry the timestamp of A's own first replayed media tag.
	for rep := 0; rep < c.Pick(4, 60); rep++ {
		fcase++
		if !c.Mine(fcase) {
			continue
		}
		rng := c.SubRng("c02flv2", rep)
		items := c02FlvBuild(rng, uint64(rep)<<24|3<<60)
		scen := "flv/two-joiners-first-one-slow"
		c.Pre(scen)
		s := c02Stream("H264", true)
		// positions of the key tags
		var keys []int
		for i, it := range items {
			if it.pp.keyStart {
				keys = append(keys, i)
			}
		}
		if len(keys) < 2 {
			s.Close()
			continue
		}
		ja := keys[0] + 1 + rng.Intn(keys[1]-keys[0]) // A joins inside GOP 1 (after its key tag)
		jb := keys[len(keys)-1] + 1                   // B joins right after the last key tag
		a := &kit.RecConsumer{Block: make(chan struct{}), BlockFrom: 0}
		b := &kit.RecConsumer{}
		for i := range items {
			if i == ja {
				s.StartConsume(a, media.FLVPacket, "A")
			}
			if i == jb {
				s.StartConsume(b, media.FLVPacket, "B")
			}
			s.WriteFlvTag(items[i].tag)
		}
		close(a.Block)
		sentID, _ := c02FlvID(items[len(items)-1].tag)
		drained := waitUntil(func() bool {
			it := a.Items()
			if len(it) == 0 {
				return false
			}
			id, _ := c02FlvID(it[len(it)-1].Pack.(*flv.Tag))
			return id == sentID
		}, watch)
		s.Close()
		c.Eval(1)
		c.Distinct(scen)
		c.SetAdd("interleavings_seen", scen)
		if !drained {
			c.Inconclusive("sentinel not delivered: " + scen)
			continue
		}
		var hdrTs []uint32
		firstMediaTs := uint32(0)
		found := false
		for _, it := range a.Items() {
			t := it.Pack.(*flv.Tag)
			if t.IsMetadata() || t.IsH2645SequenceHeader() || t.IsAACSequenceHeader() {
				if !found {
					hdrTs = append(hdrTs, t.Timestamp)
				}
				continue
			}
			if !found {
				found = true
				firstMediaTs = t.Timestamp
			}
		}
		for _, ts := range hdrTs {
			if found && ts != firstMediaTs {
				c.Violation("C02:flv:replayed-header-timestamp-differs-from-first-replayed-media-tag:two-joiners", map[string]interface{}{
					"header_timestamps": hdrTs, "first_media_timestamp": firstMediaTs, "a_joins_at": ja, "b_joins_at": jb})
				break
			}
		}
	}
}

func describeSeq2(seq []pubPkt) []string {
	var out []string
	for _, p := range seq {
		out = append(out, fmt.Sprintf("%d:%s", p.idx, p.desc))
	}
	return out
}

func c02Indices(seq []pubPkt, items []kit.RecItem, byPtr map[format.Packet]int) ([]int, bool) {
	out := make([]int, 0, len(items))
	for _, it := range items {
		i, ok := byPtr[it.Pack]
		if !ok {
			return nil, false
		}
		out = append(out, i)
	}
	return out, true
}

var c02pathSeq int64

func c02Stream(codecName string, cacheOn bool) *media.Stream {
	config.VerifSet(false, cacheOn, "", 5)
	sdp := kit.SDPH264AAC
	if codecName == "H265" {
		sdp = kit.SDPH265AAC
	}
	return media.NewStream(fmt.Sprintf("/c02/s%d", atomic.AddInt64(&c02pathSeq, 1)), sdp)
}

func c02Sentinel(seq []pubPkt) []pubPkt {
	p := kit.MakeRTP(kit.ChAudio, 97, true, 1, 1, 0xfff, kit.AACHbr([][]byte{kit.AACAU(20, 0xfffffff)}))
	pp := pubPkt{p: p, idx: len(seq), desc: "sentinel"}
	pp.hash, _ = kit.HashPack(p)
	return append(seq, pp)
}

func c02Opts(rng interface{ Intn(int) int }, ci int) seqOpts {
	o := seqOpts{codec: []string{"H264", "H265"}[ci%2], gops: 1 + rng.Intn(3), gopLen: 1 + rng.Intn(5),
		audio: rng.Intn(3) != 0, rtcp: rng.Intn(3) == 0, inbandPS: (ci / 2) % 4, multiSlice: 1 + (ci/8)%3,
		fragProb: []int{0, 30, 70}[(ci/24)%3], maxNal: 60, firstNoKey: rng.Intn(3)}
	return o
}

func runC02(c *kit.Ctx) {
	c02FlvPipeline(c) // FLV through the real depacketiser and muxer (c02_flvpipe.go)
	kit.InstallHooks()
	nseq := c.Pick(96, 2400)
	watch := 10 * time.Second

	// ---------- 1. sequential: a consumer joins after exactly k packets, for every k
	for ci := 0; ci < nseq; ci++ {
		if !c.Mine(ci) {
			continue
		}
		rng := c.SubRng("c02seq", ci)
		o := c02Opts(rng, ci)
		cacheOn := (ci/48)%2 == 0 || ci%5 == 0
		seq := c02Sentinel(genSeq(rng, o, uint64(ci)<<24))
		n := len(seq) - 1
		byPtr := map[format.Packet]int{}
		for _, p := range seq {
			byPtr[p.p] = p.idx
		}
		c.Pre(fmt.Sprintf("C02 sequential case %d", ci))
		s := c02Stream(o.codec, cacheOn)
		recs := make([]*kit.RecConsumer, n+1)
		for k := 0; k <= n; k++ {
			recs[k] = &kit.RecConsumer{}
			s.StartConsume(recs[k], media.RTPPacket, "k")
			s.WriteRtpPacket(seq[k].p)
		}
		drained := waitUntil(func() bool {
			for _, r := range recs {
				it := r.Items()
				if len(it) == 0 || it[len(it)-1].Pack != seq[n].p {
					return false
				}
			}
			return true
		}, watch)
		s.Close()
		c.Eval(n + 1)
		shape := fmt.Sprintf("seq/%s/cache=%v/ps=%d/slices=%d/frag=%d/audio=%v", o.codec, cacheOn, o.inbandPS, o.multiSlice, o.fragProb, o.audio)
		c.Distinct(shape + fmt.Sprintf("/gops=%d/len=%d", o.gops, o.gopLen))
		c.SetAdd("sequence_shapes", shape)
		if ci < 2 {
			c.Sample(map[string]interface{}{"shape": shape, "sequence": describeSeq(seq)})
		}
		if !drained {
			c.Inconclusive("sentinel not delivered to every joiner")
			continue
		}
		for k := 0; k <= n; k++ {
			items := recs[k].Items()
			rec, ok := c02Indices(seq, items, byPtr)
			detail := map[string]interface{}{"case": ci, "join_after": k, "cache_gop": cacheOn, "shape": shape, "sequence": describeSeq(seq)}
			if !ok {
				c.Violation("C02:unknown-packet-delivered", detail)
				continue
			}
			detail["received"] = rec
			for j, it := range items {
				if it.Hash != seq[rec[j]].hash {
					c.Violation("C02:payload-modified", detail)
					break
				}
			}
			if ok, why := c02Judge(seq, rec, k, k, cacheOn, o.codec == "H265", c02model{}, 0); !ok {
				detail["why"] = why
				c.Violation("C02:"+c02Classify(seq, rec, k, k, cacheOn, o.codec == "H265")+":"+o.codec, detail)
			}
		}
	}

	// ---------- 2. forced interleavings of one publish with one join
	type ordering struct {
		name string
		run  func(s *media.Stream, r *kit.RecConsumer, pk pubPkt) bool
	}
	joinArg := func(r *kit.RecConsumer) func([]interface{}) bool {
		return func(a []interface{}) bool { return len(a) > 1 && a[1] == r }
	}
	pubArg := func(pk pubPkt) func([]interface{}) bool {
		return func(a []interface{}) bool { return len(a) > 1 && a[1] == pk.p }
	}
	hold := func(point string, match func([]interface{}) bool, held func(), other func()) bool {
		g := kit.H.Gate(point, match)
		done := make(chan struct{})
		go func() { held(); close(done) }()
		if !g.WaitArrived(watch) {
			g.Release()
			<-done
			return false
		}
		// the counterpart runs in its own goroutine: if the code serialises the two operations with a lock,
		// it cannot finish while the first is held — that is an observation ("serialised"), not a hang
		odone := make(chan struct{})
		go func() { other(); close(odone) }()
		select {
		case <-odone:
			c.SetAdd("forced_outcomes", point+":counterpart-ran-inside-window")
		case <-time.After(150 * time.Millisecond):
			c.SetAdd("forced_outcomes", point+":counterpart-blocked-until-release(serialised)")
		}
		g.Release()
		<-done
		<-odone
		return true
	}
	orderings := []ordering{
		{"join-held-at-begin|publish-complete", func(s *media.Stream, r *kit.RecConsumer, pk pubPkt) bool {
			return hold("media.join.begin", joinArg(r), func() { s.StartConsume(r, media.RTPPacket, "g") }, func() { s.WriteRtpPacket(pk.p) })
		}},
		{"join-held-after-snapshot|publish-complete", func(s *media.Stream, r *kit.RecConsumer, pk pubPkt) bool {
			return hold("media.join.snapshotted", joinArg(r), func() { s.StartConsume(r, media.RTPPacket, "g") }, func() { s.WriteRtpPacket(pk.p) })
		}},
		{"join-held-after-register|publish-complete", func(s *media.Stream, r *kit.RecConsumer, pk pubPkt) bool {
			return hold("media.join.registered", joinArg(r), func() { s.StartConsume(r, media.RTPPacket, "g") }, func() { s.WriteRtpPacket(pk.p) })
		}},
		{"publish-held-after-cache|join-complete", func(s *media.Stream, r *kit.RecConsumer, pk pubPkt) bool {
			return hold("media.write.cached", pubArg(pk), func() { s.WriteRtpPacket(pk.p) }, func() { s.StartConsume(r, media.RTPPacket, "g") })
		}},
		{"publish-held-after-broadcast|join-complete", func(s *media.Stream, r *kit.RecConsumer, pk pubPkt) bool {
			return hold("media.write.sent", pubArg(pk), func() { s.WriteRtpPacket(pk.p) }, func() { s.StartConsume(r, media.RTPPacket, "g") })
		}},
	}
	nforced := c.Pick(6, 200)
	fcase := 0
	for rep := 0; rep < nforced; rep++ {
		for oi, od := range orderings {
			for _, cacheOn := range []bool{true, false} {
				fcase++
				if !c.Mine(fcase) {
					continue
				}
				rng := c.SubRng("c02forced", fcase)
				o := seqOpts{codec: []string{"H264", "H265"}[rep%2], gops: 2, gopLen: 3, audio: true, inbandPS: 1, multiSlice: 1, maxNal: 40}
				seq := c02Sentinel(genSeq(rng, o, uint64(fcase)<<24|1<<60))
				n := len(seq) - 1
				k := 1 + rng.Intn(n-1) // the packet racing with the join
				byPtr := map[format.Packet]int{}
				for _, p := range seq {
					byPtr[p.p] = p.idx
				}
				scen := fmt.Sprintf("forced/%s/cache=%v", od.name, cacheOn)
				c.Pre(scen)
				s := c02Stream(o.codec, cacheOn)
				for i := 0; i < k; i++ {
					s.WriteRtpPacket(seq[i].p)
				}
				r := &kit.RecConsumer{}
				if !od.run(s, r, seq[k]) {
					c.Inconclusive("gate not reached: " + scen)
					s.Close()
					continue
				}
				for i := k + 1; i <= n; i++ {
					s.WriteRtpPacket(seq[i].p)
				}
				drained := waitUntil(func() bool {
					it := r.Items()
					return len(it) > 0 && it[len(it)-1].Pack == seq[n].p
				}, watch)
				s.Close()
				c.Eval(1)
				c.Distinct(fmt.Sprintf("%s/%s/racing=%s", scen, o.codec, seq[k].desc))
				c.SetAdd("interleavings_seen", scen)
				if !drained {
					c.Inconclusive("sentinel not delivered: " + scen)
					continue
				}
				rec, ok := c02Indices(seq, r.Items(), byPtr)
				detail := map[string]interface{}{"ordering": od.name, "ordering_index": oi, "cache_gop": cacheOn, "racing_packet": k, "sequence": describeSeq(seq), "received": rec}
				if !ok {
					c.Violation("C02:unknown-packet-delivered", detail)
					continue
				}
				// the join overlaps exactly the publish of packet k: the cut may be k or k+1
				if ok, why := c02Judge(seq, rec, k, k+1, cacheOn, o.codec == "H265", c02model{}, 0); !ok {
					detail["why"] = why
					c.Violation("C02:"+c02Classify(seq, rec, k, k+1, cacheOn, o.codec == "H265")+":forced", detail)
				}
			}
		}
	}

	// ---------- 3. random-delay stress: joins racing a running publisher
	nstress := c.Pick(40, 1500)
	for si := 0; si < nstress; si++ {
		if !c.Mine(si) {
			continue
		}
		rng := c.SubRng("c02stress", si)
		o := seqOpts{codec: []string{"H264", "H265"}[si%2], gops: 3 + rng.Intn(3), gopLen: 2 + rng.Intn(5), audio: true, rtcp: true, inbandPS: 1, multiSlice: 1, fragProb: 30, maxNal: 80}
		cacheOn := si%3 != 0
		seq := c02Sentinel(genSeq(rng, o, uint64(si)<<24|1<<61))
		n := len(seq) - 1
		byPtr := map[format.Packet]int{}
		for _, p := range seq {
			byPtr[p.p] = p.idx
		}
		c.Pre(fmt.Sprintf("C02 stress %d", si))
		s := c02Stream(o.codec, cacheOn)
		pert := kit.H.Perturb([]string{"media.write.cached", "media.write.sent", "media.join.begin", "media.join.snapshotted", "media.join.registered"},
			kit.Arg0Is(s), int64(si)+c.Seed*77, 0.6, 200*time.Microsecond)
		var started, finished int64 // publish progress (number of WriteRtpPacket calls started / returned)
		var wg sync.WaitGroup
		nj := 2 + rng.Intn(5)
		recs := make([]*kit.RecConsumer, nj)
		lo := make([]int, nj)
		hi := make([]int, nj)
		joinAt := make([]int, nj)
		for j := range recs {
			recs[j] = &kit.RecConsumer{}
			joinAt[j] = rng.Intn(n)
		}
		wg.Add(1)
		go func() {
			defer wg.Done()
			for i := 0; i < n; i++ {
				atomic.AddInt64(&started, 1)
				s.WriteRtpPacket(seq[i].p)
				atomic.AddInt64(&finished, 1)
			}
		}()
		for j := range recs {
			wg.Add(1)
			go func(j int) {
				defer wg.Done()
				for atomic.LoadInt64(&finished) < int64(joinAt[j]) {
					time.Sleep(20 * time.Microsecond)
				}
				lo[j] = int(atomic.LoadInt64(&finished))
				s.StartConsume(recs[j], media.RTPPacket, "s")
				hi[j] = int(atomic.LoadInt64(&started))
			}(j)
		}
		wg.Wait()
		s.WriteRtpPacket(seq[n].p)
		drained := waitUntil(func() bool {
			for _, r := range recs {
				it := r.Items()
				if len(it) == 0 || it[len(it)-1].Pack != seq[n].p {
					return false
				}
			}
			return true
		}, watch)
		kit.RemoveAll(pert)
		s.Close()
		c.Eval(nj)
		if !drained {
			c.Inconclusive("stress: sentinel not delivered")
			continue
		}
		for j, r := range recs {
			rec, ok := c02Indices(seq, r.Items(), byPtr)
			c.Distinct(fmt.Sprintf("stress/%s/cache=%v/window=%d", o.codec, cacheOn, hi[j]-lo[j]))
			c.SetAdd("stress_join_window_sizes", fmt.Sprint(hi[j]-lo[j]))
			detail := map[string]interface{}{"case": si, "cache_gop": cacheOn, "window": []int{lo[j], hi[j]}, "sequence": describeSeq(seq), "received": rec}
			if !ok {
				c.Violation("C02:unknown-packet-delivered", detail)
				continue
			}
			if ok, why := c02Judge(seq, rec, lo[j], hi[j], cacheOn, o.codec == "H265", c02model{}, 0); !ok {
				detail["why"] = why
				c.Violation("C02:"+c02Classify(seq, rec, lo[j], hi[j], cacheOn, o.codec == "H265")+":stress", detail)
			}
		}
	}
	c02RunFLV(c, watch)
	config.VerifSet(false, false, "", 5)
}
