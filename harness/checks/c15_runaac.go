package checks

import (
	"encoding/hex"
	"fmt"
	"strings"

	"github.com/cnotch/ipchub/av/codec"
	"github.com/cnotch/ipchub/av/codec/aac"
)

type mascGot struct {
	Err                    string
	Core, Ext, Chan, Obj   int
	StreamRate, StreamChan int
	StreamReady            bool
}

func (k *c15) decodeASC(cfg []byte) (mascGot, c15Guarded) {
	var o mascGot
	c15Pre(k.c, "aac.AudioSpecificConfig.Decode "+hex.EncodeToString(cfg))
	g := c15Guard(func() {
		var asc aac.AudioSpecificConfig
		if err := asc.Decode(cfg); err != nil {
			o.Err = c15ErrBrief(err.Error())
			return
		}
		o.Core, o.Ext, o.Chan, o.Obj = asc.SampleRate, asc.ExtSampleRate, int(asc.Channels), int(asc.ObjectType)
		am := codec.AudioMeta{Codec: "AAC", Sps: cfg}
		o.StreamReady = aac.MetadataIsReady(&am)
		o.StreamRate, o.StreamChan = am.SampleRate, am.Channels
	})
	return o, g
}

// judgeASC lists the mismatching outputs. Stream-level sample rate with SBR signalled: the standard defines both the
// core samplingFrequency and the extensionSamplingFrequency (the output rate); which one is "the" stream rate
// is not defined, so either is accepted there; the two decoded fields themselves are judged exactly.
func judgeASC(e mascExpect, o mascGot) []string {
	if o.Err != "" {
		return []string{"rejected"}
	}
	var p []string
	if o.Core != e.CoreRate {
		p = append(p, "samplerate")
	}
	if o.Ext != e.ExtRate {
		p = append(p, "ext-samplerate")
	}
	if o.Obj != e.ObjectType {
		p = append(p, "object-type")
	}
	if e.Channels >= 0 && o.Chan != e.Channels {
		p = append(p, "channels")
	}
	if !o.StreamReady {
		p = append(p, "stream-metadata-not-ready")
		return p
	}
	if !(o.StreamRate == e.CoreRate || (e.ExtRate > 0 && o.StreamRate == e.ExtRate)) {
		p = append(p, "stream-samplerate")
	}
	if e.Channels >= 0 && o.StreamChan != e.Channels && !(e.ChannelsPS && e.Channels == 1 && o.StreamChan == 2) {
		p = append(p, "stream-channels")
	}
	return p
}

// mascFalseSync reports whether the 11-bit pattern 0x2b7 occurs inside [from,to) bit range of cfg at a position where
// at least 16 bits remain (a scanning parser would take it for the syncExtensionType).
func mascFalseSync(cfg []byte, from, to int) bool {
	total := len(cfg) * 8
	for p := from; p+11 <= to+10 && p < to; p++ {
		if total-p <= 15 {
			break
		}
		v := 0
		for i := 0; i < 11; i++ {
			q := p + i
			if q >= total {
				return false
			}
			v = v<<1 | int(cfg[q>>3]>>(7-uint(q&7))&1)
		}
		if v == 0x2b7 {
			return true
		}
	}
	return false
}

func directedASC() []*mASC {
	var out []*mASC
	out = append(out, &mASC{AOT: 2, FreqIdx: 4, ChanCfg: 2})                                               // AAC-LC 44.1k stereo
	out = append(out, &mASC{AOT: 2, FreqIdx: 15, Freq: 37800, ChanCfg: 1})                                 // explicit frequency
	out = append(out, &mASC{AOT: 5, FreqIdx: 6, ChanCfg: 2, ExtFreqIdx: 3, InnerAOT: 2})                   // explicit SBR 24k -> 48k
	out = append(out, &mASC{AOT: 29, FreqIdx: 6, ChanCfg: 1, ExtFreqIdx: 3, InnerAOT: 2})                  // explicit PS
	out = append(out, &mASC{AOT: 2, FreqIdx: 6, ChanCfg: 2, Sync: true, SbrPresent: true, SyncFreqIdx: 3}) // backward compatible SBR
	out = append(out, &mASC{AOT: 2, FreqIdx: 6, ChanCfg: 1, Sync: true, SbrPresent: true, SyncFreqIdx: 3, PsSync: true, PsPresent: true})
	out = append(out, &mASC{AOT: 39, FreqIdx: 3, ChanCfg: 2})                                                // escape: ER AAC ELD
	out = append(out, &mASC{AOT: 2, FreqIdx: 3, ChanCfg: 7})                                                 // 7.1
	out = append(out, &mASC{AOT: 2, FreqIdx: 3, ChanCfg: 2, DependsCore: true, CoreDelay: 0b01011011100101}) // coreCoderDelay containing the 0x2b7 pattern
	// ER AAC LC whose coreCoderDelay + resilience flags spell syncExtensionType/AOT 5/sbrPresentFlag
	out = append(out, &mASC{AOT: 17, FreqIdx: 3, ChanCfg: 2, DependsCore: true, CoreDelay: 0b01011011100101, Resilience: 2})
	for _, a := range out {
		a.normalize()
	}
	return out
}

func (k *c15) runAAC() {
	c := k.c
	feats := mascFeatures()
	dir := directedASC()
	n := c.Pick(1200, 90000)
	for i := 0; i < len(dir)+n; i++ {
		if !c.Mine(i) {
			continue
		}
		var m *mASC
		if i < len(dir) {
			m = dir[i]
		} else {
			m = mascGen(c.SubRng("c15-asc", i))
		}
		cfg, gaFrom, gaTo := m.encode()
		exp := m.expect()
		got, g := k.decodeASC(cfg)
		c.Eval(1)
		act := c15Active(m, feats)
		for _, a := range act {
			k.count("asc_branch:"+a, 1)
		}
		k.count(fmt.Sprintf("asc_core_aot_%02d", m.coreAOT()), 1)
		k.count(fmt.Sprintf("asc_channel_configuration_%d", m.ChanCfg), 1)
		k.count("asc_valid_configs", 1)
		c.Distinct("asc|" + strings.Join(act, ",") + fmt.Sprintf("|%d|%d|%d", m.coreAOT(), m.FreqIdx, m.ChanCfg))
		k.sample("asc-valid", map[string]interface{}{"config_hex": hex.EncodeToString(cfg), "features": act, "expect": fmt.Sprintf("%+v", exp)})
		detail := map[string]interface{}{"case": i, "config_hex": hex.EncodeToString(cfg), "features": act,
			"expect": fmt.Sprintf("%+v", exp), "got": fmt.Sprintf("%+v", got)}
		if k.guardFinding("aac", "AudioSpecificConfig.Decode", g, cfg, detail) {
			continue
		}
		if exp.Channels < 0 {
			k.count("asc_unjudged_channels_channelConfiguration_0_pce", 1)
		}
		if exp.ExtRate > 0 {
			k.count("asc_unjudged_which_rate_is_the_stream_rate_with_sbr(core_or_extension_accepted)", 1)
		}
		probs := judgeASC(exp, got)
		if len(probs) == 0 {
			k.count("asc_configs_all_judged_outputs_equal", 1)
			continue
		}
		k.count("asc_configs_with_mismatch", 1)
		detail["mismatch"] = probs
		field := probs[0]
		fails := func(v *mASC) bool {
			vc, _, _ := v.encode()
			vo, vg := k.decodeASC(vc)
			if vg.Panic != "" || vg.Hung {
				return true
			}
			for _, p := range judgeASC(v.expect(), vo) {
				if p == field {
					return true
				}
			}
			return false
		}
		min, names := c15Minimize(m, feats, (*mASC).clone, (*mASC).normalize, fails)
		mc, mFrom, mTo := min.encode()
		detail["minimal_features"] = names
		detail["minimal_config_hex"] = hex.EncodeToString(mc)
		sig := "C15:aac:" + field + ":" + strings.Join(c15Leaves(names), "+")
		if mascFalseSync(mc, mFrom, mTo) || (len(names) == 0 && mascFalseSync(cfg, gaFrom, gaTo)) {
			sig = "C15:aac:sync-extension-pattern-matched-inside-specific-config"
		}
		if len(c15Leaves(names)) == 0 && !strings.Contains(sig, "sync-extension-pattern") {
			sig = "C15:aac:" + field + ":plain-config"
		}
		c.Violation(sig, detail)
	}
}
