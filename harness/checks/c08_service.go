package checks

import (
	"bytes"
	"context"
	"fmt"
	"net/http"
	"sync"
	"time"

	"verifharness/kit"

	"github.com/cnotch/ipchub/config"
	"github.com/cnotch/ipchub/media"
	"github.com/cnotch/ipchub/utils/verifhook"
	"github.com/gorilla/websocket"
)

// C08, service path: the same sequences and the same oracle as the stream path, but the clients are real ones —
// GET /streams/{path}.flv (chunked HTTP body) and a WebSocket on the same URL (binary messages, concatenated) —
// served by service/flv/httpflv.go and wsflv.go from a registered media.Stream. Frames are fed in lockstep with the
// stream's FLV muxer goroutine; a client "joins at frame k" by connecting after frame k-1 was muxed and is known to
// be attached (consumer count went up) before frame k is written.

type c08NetClient struct {
	mu      sync.Mutex
	name    string
	joinIdx int
	data    []byte
	end     int // offset just after the sentinel tag's PreviousTagSize, 0 until seen
	err     string
	done    chan struct{}
	closeFn func()
}

func (cl *c08NetClient) add(b []byte, magic []byte) {
	cl.mu.Lock()
	defer cl.mu.Unlock()
	if cl.end != 0 {
		return // fillers after the sentinel are not part of the judged stream
	}
	from := len(cl.data) - len(magic) - 4
	if from < 0 {
		from = 0
	}
	cl.data = append(cl.data, b...)
	if i := bytes.Index(cl.data[from:], magic); i >= 0 && len(cl.data) >= from+i+len(magic)+4 {
		cl.end = from + i + len(magic) + 4
	}
}

func (cl *c08NetClient) sawSentinel() bool {
	cl.mu.Lock()
	defer cl.mu.Unlock()
	return cl.end != 0
}

func c08DialNet(srv *kit.Server, kind, path, name string, joinIdx int, magic []byte) (*c08NetClient, error) {
	cl := &c08NetClient{name: name, joinIdx: joinIdx, done: make(chan struct{})}
	switch kind {
	case "http-flv":
		// the handler never flushes, so the response header itself only arrives once enough tags were written:
		// the request runs in its own goroutine and "attached" is decided by the stream's consumer count
		ctx, cancel := context.WithCancel(context.Background())
		cl.closeFn = cancel
		go func() {
			defer close(cl.done)
			req, _ := http.NewRequestWithContext(ctx, "GET", "http://"+srv.Addr+"/streams"+path+".flv", nil)
			resp, err := (&http.Client{}).Do(req)
			if err != nil {
				cl.mu.Lock()
				cl.err = "request failed: " + err.Error()
				cl.mu.Unlock()
				return
			}
			defer resp.Body.Close()
			if resp.StatusCode != 200 {
				cl.mu.Lock()
				cl.err = fmt.Sprintf("http status %d", resp.StatusCode)
				cl.mu.Unlock()
				return
			}
			buf := make([]byte, 512) // small reads: the chunked reader hands over what it has
			for {
				n, err := resp.Body.Read(buf)
				if n > 0 {
					cl.add(buf[:n], magic)
				}
				if err != nil {
					return
				}
			}
		}()
	case "ws-flv":
		d := websocket.Dialer{HandshakeTimeout: 20 * time.Second}
		ws, _, err := d.Dial("ws://"+srv.Addr+"/streams"+path+".flv", nil)
		if err != nil {
			return nil, err
		}
		cl.closeFn = func() { ws.Close() }
		go func() {
			defer close(cl.done)
			for {
				mt, msg, err := ws.ReadMessage()
				if err != nil {
					return
				}
				if mt != websocket.BinaryMessage {
					cl.mu.Lock()
					cl.err = fmt.Sprintf("websocket message of type %d", mt)
					cl.mu.Unlock()
				}
				cl.add(msg, magic)
			}
		}()
	}
	return cl, nil
}

var c08SvcSerial int

func c08RunService(c *kit.Ctx, q *c08Seq, kind string) (outs []c08Output, ok bool) {
	srv := kit.StartServer(false, q.Mode == 1, 0)
	verifhook.Set(c08mon.handle) // the first StartServer installs the kit dispatcher; this check follows the muxer itself
	config.VerifSet(false, q.Mode == 1, "", 5)
	c08mon.arm()
	defer c08mon.disarm()
	c08SvcSerial++
	s := media.NewStream(fmt.Sprintf("/c08svc/s%d/n%d", c.Shard, c08SvcSerial), c08SDP(q))
	if s.FlvTypeFlags() == 0 {
		s.Close()
		return nil, false // reported by the stream path
	}
	media.Regist(s)
	defer media.Unregist(s)
	if st := c08mon.waitPops(1, c08Watchdog); st != "ok" {
		c08mon.mu.Lock()
		state := fmt.Sprintf("armed=%v mux=%v pops=%d exited=%v", c08mon.armed, c08mon.mux != nil, c08mon.pops, c08mon.exited)
		c08mon.mu.Unlock()
		c.Inconclusive("watchdog: stream muxer goroutine did not start (" + st + "; " + state + ")")
		return nil, false
	}
	var clients []*c08NetClient
	defer func() {
		for _, cl := range clients {
			cl.closeFn()
		}
	}()
	join := func(idx int) bool {
		before := s.ConsumerCount()
		name := kind
		if idx >= 0 {
			name = fmt.Sprintf("%s-joiner@%d", kind, idx)
		}
		cl, err := c08DialNet(srv, kind, s.Path(), name, idx, q.Magic)
		if err != nil {
			c.Inconclusive("service path: cannot attach " + kind + ": " + err.Error())
			return false
		}
		clients = append(clients, cl)
		// attached == registered as a consumer of the stream (the handler wrote the FLV header before that)
		if !waitUntil(func() bool { return s.ConsumerCount() > before }, 60*time.Second) {
			c.Inconclusive("service path: " + kind + " client not attached within 60 s")
			return false
		}
		return true
	}
	// join points: from the start, and at up to three later frames chosen by the case index
	joins := map[int]bool{}
	if n := len(q.Frames); n > 2 {
		for _, k := range []int{1 + q.Idx%(n-1), 1 + (q.Idx/7)%(n-1), n - 1} {
			joins[k] = true
		}
	}
	if !join(-1) {
		return nil, false
	}
	pops := 1
	feed := func(f *c08Frame) string {
		s.WriteFrame(c08Frame2Codec(f))
		pops++
		return c08mon.waitPops(pops, c08Watchdog)
	}
	for k := range q.Frames {
		if joins[k] && !join(k) {
			return nil, false
		}
		switch feed(&q.Frames[k]) {
		case "exited":
			c08MuxerDied(c, q, "service")
			return nil, false
		case "timeout":
			c.Inconclusive("watchdog: stream muxer did not finish a frame")
			return nil, false
		}
	}
	// The HTTP handler never flushes: the sentinel can sit in net/http's buffers. Push it out with filler frames
	// (not judged: each client's stream is cut right after the sentinel tag).
	last := q.Frames[len(q.Frames)-1]
	all := func() bool {
		for _, cl := range clients {
			if !cl.sawSentinel() {
				return false
			}
		}
		return true
	}
	for k := 1; !all() && k <= 400; k++ {
		f := c08Frame{NalType: 1, DtsNs: last.DtsNs + int64(k)*40_000_000, PtsNs: last.DtsNs + int64(k)*40_000_000, Payload: make([]byte, 1500)}
		if q.Codec == "H264" {
			f.Payload[0] = 0x41
		} else {
			f.Payload[0], f.Payload[1] = 1<<1, 1
		}
		if feed(&f) != "ok" {
			break
		}
		waitUntil(all, 20*time.Millisecond)
	}
	if !waitUntil(all, 30*time.Second) {
		c.Inconclusive("service path: sentinel tag did not reach every " + kind + " client")
		return nil, false
	}
	for _, cl := range clients {
		cl.mu.Lock()
		outs = append(outs, c08Output{name: cl.name, joinIdx: cl.joinIdx, data: append([]byte(nil), cl.data[:cl.end]...), werr: cl.err})
		cl.mu.Unlock()
	}
	c.Count("service_clients_judged_"+kind, int64(len(outs)))
	return outs, true
}
