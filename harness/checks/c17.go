package checks

import (
	"fmt"
	"path"
	"sort"
	"strings"

	"verifharness/kit"

	"github.com/cnotch/ipchub/provider/route"
)

// C17 — route resolution: exact, else longest directory prefix; URL joined with exactly one '/'.
//
// Oracle: reference resolver written from the property statement, compared with route.Match after
// save/delete histories; every lookup is repeated (Go randomises map iteration, so an order-dependent
// tie-break shows up inside one run); table entries are compared before/after each lookup.

func init() { kit.Register("C17", runC17) }

func refCanon(p string) string {
	p = strings.ToLower(strings.TrimSpace(p))
	if p == "" {
		return "/"
	}
	if p[0] != '/' {
		p = "/" + p
	}
	c := path.Clean(p)
	if strings.HasSuffix(p, "/") && c != "/" {
		c += "/"
	}
	return c
}

type refRoute struct {
	URL       string
	KeepAlive bool
}

// refResolve returns (pattern-of-result, url, found)
func refResolve(table map[string]refRoute, reqPath string) (string, string, bool, bool) {
	cp := refCanon(reqPath)
	if strings.HasSuffix(cp, "/") {
		return "", "", false, false
	}
	if r, ok := table[cp]; ok {
		return cp, r.URL, r.KeepAlive, true
	}
	best := ""
	for pat := range table {
		if strings.HasSuffix(pat, "/") && strings.HasPrefix(cp, pat) && len(pat) > len(best) {
			best = pat
		}
	}
	if best == "" {
		return "", "", false, false
	}
	r := table[best]
	rest := cp[len(best):] // remainder without leading slash
	u := r.URL
	if strings.HasSuffix(u, "/") {
		u += rest
	} else {
		u += "/" + rest
	}
	return cp, u, r.KeepAlive, true
}

func c17Reset() {
	for _, r := range route.All() {
		route.Del(r.Pattern)
	}
}

func runC17(c *kit.Ctx) {
	patterns := []string{"/a", "/a/", "/a/b", "/a/b/", "/", "/A/", "/a/b/c/", "/ab/", "/b/", "/a/c"}
	segs := []string{"a", "b", "c", "ab", "A"}
	var reqs []string
	for _, s1 := range segs {
		reqs = append(reqs, "/"+s1, s1, "/"+s1+"/")
		for _, s2 := range segs {
			reqs = append(reqs, "/"+s1+"/"+s2, "/"+s1+"//"+s2, " /"+s1+"/"+s2+" ", "/"+s1+"/"+s2+"/")
			for _, s3 := range segs {
				reqs = append(reqs, "/"+s1+"/"+s2+"/"+s3)
				if s3 == "c" {
					reqs = append(reqs, "/"+s1+"/"+s2+"/"+s3+"/d/e")
				}
			}
		}
	}
	reqs = append(reqs, "/", "", "/abc", "/a/../b/x", "/ab/x", "/abx", "/a/bx")
	urls := []string{"rtsp://cam%d/base", "rtsp://cam%d/base/", "rtsp://u:p@cam%d:8554", "rtsp://cam%d/"}

	c17Concurrent(c) // lookups concurrent with table edits (c17_conc.go)
	reps := c.Pick(16, 64)
	ntables := c.Pick(2500, 60000)
	exhaustiveSubsets := 0
	for ti := 0; ti < ntables; ti++ {
		if !c.Mine(ti) {
			continue
		}
		rng := c.SubRng("c17", ti)
		c17Reset()
		model := map[string]refRoute{}
		// choose subset: the first 2^len(patterns[:8]) tables enumerate all subsets of the first 8 patterns with <=4 entries
		var chosen []string
		if ti < 256 {
			for b := 0; b < 8; b++ {
				if ti&(1<<b) != 0 {
					chosen = append(chosen, patterns[b])
				}
			}
			if len(chosen) > 4 {
				chosen = chosen[:0]
				for k := 0; k < 1+rng.Intn(5); k++ {
					chosen = append(chosen, patterns[rng.Intn(len(patterns))])
				}
			} else {
				exhaustiveSubsets++
			}
		} else {
			for k := 0; k < 1+rng.Intn(5); k++ {
				chosen = append(chosen, patterns[rng.Intn(len(patterns))])
			}
		}
		// history: saves (in random order, some with non-canonical spelling), updates, deletes
		var hist []string
		rng.Shuffle(len(chosen), func(i, j int) { chosen[i], chosen[j] = chosen[j], chosen[i] })
		steps := len(chosen) + rng.Intn(4)
		for s := 0; s < steps; s++ {
			var pat string
			if s < len(chosen) {
				pat = chosen[s]
			} else {
				pat = patterns[rng.Intn(len(patterns))]
			}
			op := rng.Intn(5)
			if s < len(chosen) {
				op = 0
			}
			switch {
			case op <= 2: // save / update
				spelled := pat
				if rng.Intn(3) == 0 {
					spelled = strings.ToUpper(pat)
				}
				if rng.Intn(4) == 0 && len(pat) > 1 {
					spelled = strings.TrimPrefix(spelled, "/")
				}
				u := fmt.Sprintf(urls[rng.Intn(len(urls))], rng.Intn(9))
				ka := rng.Intn(2) == 0
				if err := route.Save(&route.Route{Pattern: spelled, URL: u, KeepAlive: ka}); err != nil {
					c.Violation("C17:save-error", map[string]interface{}{"pattern": spelled, "url": u, "err": err.Error()})
				}
				model[refCanon(spelled)] = refRoute{u, ka}
				hist = append(hist, fmt.Sprintf("save %q -> %s", spelled, u))
			default:
				route.Del(pat)
				delete(model, refCanon(pat))
				hist = append(hist, fmt.Sprintf("del %q", pat))
			}
		}
		// table listing must equal the model
		all := route.All()
		if len(all) != len(model) {
			c.Violation("C17:table-size-differs-from-model", map[string]interface{}{"history": hist, "got": len(all), "want": len(model)})
		}
		var keys []string
		for k := range model {
			keys = append(keys, k)
		}
		sort.Strings(keys)
		if ti < 3 {
			c.Sample(map[string]interface{}{"history": hist, "table": keys, "lookups": reqs[:6]})
		}
		dirs := 0
		for _, k := range keys {
			if strings.HasSuffix(k, "/") {
				dirs++
			}
		}
		c.Distinct(strings.Join(hist, ";"))
		for _, rq := range reqs {
			wantPat, wantURL, wantKA, wantOK := refResolve(model, rq)
			// snapshot entries
			before := map[string]route.Route{}
			for _, k := range keys {
				if e := route.Get(k); e != nil {
					before[k] = *e
				}
			}
			for rep := 0; rep < reps; rep++ {
				var got *route.Route
				func() {
					defer func() {
						if r := recover(); r != nil {
							c.Violation("C17:panic", map[string]interface{}{"history": hist, "path": rq, "panic": fmt.Sprint(r)})
						}
					}()
					got = route.Match(rq)
				}()
				c.Eval(1)
				if (got != nil) != wantOK {
					cls := "resolves-where-reference-does-not"
					if wantOK {
						cls = "misses-where-reference-resolves"
					}
					c.Violation("C17:"+cls, map[string]interface{}{"history": hist, "table": keys, "path": rq, "want_url": wantURL})
					break
				}
				if got == nil {
					continue
				}
				if got.URL != wantURL {
					c.Violation("C17:wrong-url", map[string]interface{}{"history": hist, "table": keys, "path": rq, "got": got.URL, "want": wantURL})
					break
				}
				if got.Pattern != wantPat {
					c.Violation("C17:wrong-publish-path", map[string]interface{}{"history": hist, "path": rq, "got": got.Pattern, "want": wantPat})
					break
				}
				if got.KeepAlive != wantKA {
					c.Violation("C17:wrong-keepalive", map[string]interface{}{"history": hist, "path": rq})
					break
				}
				// mutate the returned copy: must not reach the table
				got.URL = "mutated"
				got.Pattern = "mutated"
			}
			for _, k := range keys {
				e := route.Get(k)
				if e == nil || *e != before[k] || e.Pattern != k || e.URL != model[k].URL {
					c.Violation("C17:table-entry-modified-by-lookup", map[string]interface{}{"history": hist, "path": rq, "entry": k})
				}
			}
			if wantOK {
				c.SetAdd("resolution_kinds", map[bool]string{true: "exact", false: "directory"}[func() bool { _, ok := model[refCanon(rq)]; return ok }()])
			} else {
				c.SetAdd("resolution_kinds", "none")
			}
		}
	}
	c17Reset()
	c.Count("subsets_of_first8_patterns_with_le4_entries_enumerated", int64(exhaustiveSubsets))
	if c.Shard == 0 {
		c.Count("request_paths_per_table", int64(len(reqs)))
	}
	c.Note("lookup_repetitions", reps)
}
