package checks

import (
	"bufio"
	"bytes"
	"encoding/binary"
	"errors"
	"fmt"
	"math/rand"
	"runtime"
	"runtime/debug"
	"strconv"
	"strings"

	"verifharness/kit"

	"github.com/cnotch/ipchub/av/format/rtp"
	"github.com/cnotch/ipchub/av/format/rtsp"
	srtsp "github.com/cnotch/ipchub/service/rtsp"
)

// C14 negative part: hostile byte strings and resource bounds.

// c14Trunc describes an input that is, by construction, an intact header block announcing
// Content-Length cl followed by only avail (< cl) body bytes and then end of stream.
type c14Trunc struct {
	kind  string // request | response
	cl    int
	avail int
}

var c14DefaultChannels = []int{0, 1, 2, 3}

// c14Hostile feeds one input to the four entry points. Judged: no panic; with tr != nil additionally
// that the truncated body is not reported as a successfully parsed message.
func c14Hostile(c *kit.Ctx, class string, in []byte, tr *c14Trunc, slow *rand.Rand) {
	c14W.set("negative "+class, len(in))
	mk := func() *bufio.Reader {
		if slow != nil {
			return bufio.NewReaderSize(&c14Src{data: in, maxK: 1 + slow.Intn(3), rng: slow}, 16)
		}
		return bufio.NewReader(bytes.NewReader(in))
	}
	judge := func(entry string, kind string, err error, bodyLen int, body string) {
		c.Eval(1)
		if err != nil {
			c.Count("negative_"+entry+"_error", 1)
		} else {
			c.Count("negative_"+entry+"_message", 1)
		}
		if tr != nil && (entry == "VerifReceive" || kind == tr.kind) {
			c.Count("negative_truncated_body_cases_judged", 1)
		}
		if tr == nil || err != nil || kind != tr.kind {
			return
		}
		pad := 0
		for i := tr.avail; i < len(body); i++ {
			if body[i] == 0 {
				pad++
			}
		}
		site := map[string]string{"request": "ReadRequest", "response": "ReadResponse"}[kind]
		c.Violation("C14:truncated-body:reported-as-success:"+site, map[string]interface{}{"entry": entry, "class": class,
			"content_length": tr.cl, "body_bytes_on_wire": tr.avail, "returned_body_len": bodyLen, "returned_body_nul_padding": pad,
			"input_hex": c14Hex(in), "input_len": len(in)})
	}
	{
		var req *rtsp.Request
		var err error
		if !c14Guard(c, "ReadRequest", class, in, func() { req, err = rtsp.ReadRequest(mk()) }) {
			bl, b := 0, ""
			if req != nil {
				bl, b = len(req.Body), req.Body
			}
			judge("ReadRequest", "request", err, bl, b)
		}
	}
	{
		var resp *rtsp.Response
		var err error
		if !c14Guard(c, "ReadResponse", class, in, func() { resp, err = rtsp.ReadResponse(mk()) }) {
			bl, b := 0, ""
			if resp != nil {
				bl, b = len(resp.Body), resp.Body
			}
			judge("ReadResponse", "response", err, bl, b)
		}
	}
	{
		var err error
		if !c14Guard(c, "ReadPacket", class, in, func() { _, err = rtp.ReadPacket(mk(), c14DefaultChannels) }) {
			judge("ReadPacket", "frame", err, 0, "")
		}
	}
	{
		var err error
		var kind, body string
		n := 0
		if !c14Guard(c, "VerifReceive", class, in, func() {
			err = srtsp.VerifReceive(mk(), c14DefaultChannels, func(k string, req *rtsp.Request, resp *rtsp.Response, pack *rtp.Packet) error {
				n++
				kind = k
				if req != nil {
					body = req.Body
				}
				if resp != nil {
					body = resp.Body
				}
				return nil
			})
		}) {
			if n == 0 && err == nil {
				c.Count("negative_VerifReceive_nil_error_without_delivery", 1)
			}
			judge("VerifReceive", kind, err, len(body), body)
		}
	}
}

var c14Soup = []string{"RTSP/1.0", " ", "\r\n", "\r\n\r\n", ":", "$", "Content-Length", "content-length: ", "CSeq: ", "\n", "\r", "\x00",
	"rtsp://", "*", "OPTIONS", "DESCRIBE", "200", "OK", "[::1]", "%", "%zz", "@", "?", "#", "\xff", "\x80", "-1", "2147483647", "4294967296",
	"\t", ",", "RTSP", "RTS", "$\x00\x00\x00", "$\x02\xff\xff", "\x90\x60", "\xbe\xde", "\x10\x00", "/", "//", ";"}

func c14RandomGarbage(rng *rand.Rand) ([]byte, string) {
	n := rng.Intn(601)
	switch rng.Intn(4) {
	case 0:
		b := make([]byte, n)
		rng.Read(b)
		return b, "uniform"
	case 1:
		b := make([]byte, n)
		for i := range b {
			switch r := rng.Intn(20); {
			case r == 0:
				b[i] = '\r'
			case r == 1:
				b[i] = '\n'
			case r == 2:
				b[i] = ':'
			case r == 3:
				b[i] = ' '
			case r == 4:
				b[i] = byte(rng.Intn(256))
			default:
				b[i] = byte(0x21 + rng.Intn(0x5e))
			}
		}
		return b, "ascii-biased"
	case 2:
		var b []byte
		for len(b) < n {
			b = append(b, c14Soup[rng.Intn(len(c14Soup))]...)
			if rng.Intn(3) == 0 {
				b = append(b, c14Token(rng, 1+rng.Intn(6))...)
			}
		}
		return b, "token-soup"
	}
	// starts like a message, continues as garbage
	heads := []string{"RTSP/1.0 200 OK\r\n", "OPTIONS * RTSP/1.0\r\n", "RTSP", "RTSP/1.0 ", "$\x00", "$\x02\x00\x10", "DESCRIBE rtsp://", "SETUP rtsp://[::1]:554/a RTSP/1.0\r\nTransport"}
	b := []byte(heads[rng.Intn(len(heads))])
	t := make([]byte, rng.Intn(200))
	rng.Read(t)
	return append(b, t...), "valid-head+garbage"
}

func c14SmallValid(rng *rand.Rand, wantBody bool) (*c14Item, []byte) {
	var m *c14Item
	for tries := 0; ; tries++ {
		if rng.Intn(2) == 0 {
			m = c14GenRequest(rng, false)
		} else {
			m = c14GenResponse(rng, false)
			m.Reason = c14Reasons[rng.Intn(len(c14Reasons))]
		}
		if wantBody && len(m.Body) == 0 {
			n := 1 + rng.Intn(120)
			m.Body, _ = c14Body(rng, n)
			m.EmitCL = true
		}
		w := c14Encode(m, rng, true)
		if len(w) <= 900 || tries > 20 {
			return m, w
		}
	}
}

var c14BadCL = []string{"-1", "-2147483648", "4294967296", "4294967297", "99999999999999999999", "abc", "", "0x10", "1e3", "+5", "5 5",
	"\u0665", "2147483648", "00000000000000000005", "5,5", "5;q=1", "١٢", " ", "\xff\xfe", "18446744073709551616", "-0", "0"}

// c14Mutate derives a hostile input from a valid message; tr != nil when the result is a truncated body
// by construction.
func c14Mutate(rng *rand.Rand) ([]byte, string, *c14Trunc) {
	op := rng.Intn(17)
	m, w := c14SmallValid(rng, op == 2 || op == 10 || op == 12 || op == 13)
	s := string(w)
	replaceLine := func(prefix, val string) string {
		i := strings.Index(s, "\r\n"+prefix)
		if i < 0 {
			return s
		}
		i += 2 + len(prefix)
		j := strings.Index(s[i:], "\r\n")
		return s[:i] + val + s[i+j:]
	}
	headEnd := strings.Index(s, "\r\n\r\n") + 4
	switch op {
	case 0:
		return w[:rng.Intn(len(w)+1)], "truncate", nil
	case 1:
		b := append([]byte(nil), w...)
		for k := 1 + rng.Intn(4); k > 0; k-- {
			b[rng.Intn(len(b))] ^= 1 << uint(rng.Intn(8))
		}
		return b, "bitflip", nil
	case 2:
		return []byte(replaceLine("Content-Length: ", c14BadCL[rng.Intn(len(c14BadCL))])), "content-length-garbage", nil
	case 3:
		g := make([]byte, rng.Intn(40))
		for i := range g {
			g[i] = byte(rng.Intn(256))
			if g[i] == '\n' {
				g[i] = 0x80
			}
		}
		v := string(g)
		if rng.Intn(3) == 0 {
			v = strings.Repeat("9", 1+rng.Intn(400))
		}
		return []byte(replaceLine("CSeq: ", v)), "cseq-garbage", nil
	case 4:
		var idx []int
		for i := 0; i+1 < len(s); i++ {
			if s[i] == '\r' && s[i+1] == '\n' {
				idx = append(idx, i)
			}
		}
		i := idx[rng.Intn(len(idx))]
		return []byte(s[:i] + s[i+2:]), "missing-crlf", nil
	case 5:
		return []byte(strings.ReplaceAll(s[:headEnd], "\r\n", "\n") + s[headEnd:]), "lf-only", nil
	case 6:
		return []byte(strings.ReplaceAll(s[:headEnd], "\r\n", "\r") + s[headEnd:]), "cr-only", nil
	case 7:
		i := strings.Index(s, "\r\n") + 2
		return []byte(s[:i] + "this line has no colon\r\n" + s[i:]), "no-colon-line", nil
	case 8:
		b := append([]byte(nil), w...)
		a := rng.Intn(len(b))
		for k := a; k < len(b) && k < a+1+rng.Intn(12); k++ {
			b[k] = byte(0x80 + rng.Intn(0x80))
		}
		return b, "8bit", nil
	case 9:
		a := rng.Intn(len(s) + 1)
		return []byte(s[:a] + strings.Repeat("\x00", 1+rng.Intn(5)) + s[a:]), "nul-insert", nil
	case 10:
		i := strings.Index(s, "\r\n") + 2
		return []byte(s[:i] + "Content-Length: " + c14BadCL[rng.Intn(len(c14BadCL))] + "\r\n" + s[i:]), "duplicate-content-length", nil
	case 11:
		i := strings.Index(s, "\r\n") + 2
		return []byte(s[:i] + " folded: continuation\r\n\tmore\r\n" + s[i:]), "continuation-line", nil
	case 12: // announced body longer than what follows before end of stream
		cl := len(m.Body) + 1 + rng.Intn(5000)
		return []byte(replaceLine("Content-Length: ", strconv.Itoa(cl))), "content-length-beyond-eof", &c14Trunc{m.Kind, cl, len(m.Body)}
	case 13: // body cut
		avail := rng.Intn(len(m.Body))
		return w[:headEnd+avail], "body-cut", &c14Trunc{m.Kind, len(m.Body), avail}
	case 14:
		lines := []string{"OPTIONS *\r\n", "OPTIONS  * RTSP/1.0\r\n", " rtsp://h/p RTSP/1.0\r\n", "$PLAY rtsp://h/p RTSP/1.0\r\n", "PLAY * RTSP/1.0\r\n",
			"PLAY rtsp://[::1 RTSP/1.0\r\n", "PLAY http://%zz/ RTSP/1.0\r\n", "PLAY rtsp://h:port/ RTSP/1.0\r\n", "PLAY rtsp://h/p\x7f RTSP/1.0\r\n",
			"RTSP/1.0 99 Low\r\n", "RTSP/1.0 -12 Neg\r\n", "RTSP/1.0 2000 Big\r\n", "RTSP/1.0  200  OK\r\n", "RTSP/1.0 200\r\n", "RTSP/1.0\r\n",
			"RTSP/1.0 +20 Plus\r\n", "RTSP/1.0 ٢٠٠ OK\r\n", "PLAY rtsp://h:/p RTSP/1.0\r\n", "PLAY rtsp://[::1]:/p RTSP/1.0\r\n", "PLAY rtsp://:/ RTSP/1.0\r\n",
			"PLAY rtsp://]:[/ RTSP/1.0\r\n", "PLAY   RTSP/1.0\r\n", "   \r\n", "\r\n"}
		i := strings.Index(s, "\r\n") + 2
		return []byte(lines[rng.Intn(len(lines))] + s[i:]), "first-line-variants", nil
	case 15:
		g, _ := c14RandomGarbage(rng)
		return append(append([]byte(nil), w...), g...), "valid+garbage", nil
	}
	i := strings.Index(s, "\r\n") + 2
	return []byte(s[:i] + "X-Long: " + strings.Repeat("v", 5000+rng.Intn(20000)) + "\r\n" + s[i:]), "long-header-20k", nil
}

// c14RTPFuzz builds interleaved frames on media channels whose RTP header is hostile: CSRC counts and
// header extensions (RFC 3550 generic, RFC 8285 one-byte 0xBEDE and two-byte 0x1000 profiles) whose
// element lengths run past the block or the packet.
func c14RTPFuzz(rng *rand.Rand) ([]byte, string) {
	n := rng.Intn(64)
	if rng.Intn(4) == 0 {
		n = 12 + rng.Intn(8)
	}
	d := make([]byte, n)
	rng.Read(d)
	cls := "random"
	if n >= 1 {
		cc := 0
		if rng.Intn(3) == 0 {
			cc = rng.Intn(16)
		}
		d[0] = 0x80 | byte(cc)
		ext := rng.Intn(4) != 0
		if ext {
			d[0] |= 0x10
		}
		off := 12 + 4*cc
		if ext && n >= off+4 {
			prof := []uint16{0xBEDE, 0xBEDE, 0x1000, 0x1000, 0xABAC, uint16(rng.Intn(65536))}[rng.Intn(6)]
			binary.BigEndian.PutUint16(d[off:], prof)
			words := rng.Intn(5)
			if rng.Intn(3) == 0 {
				words = (n - off - 4) / 4 // block ends exactly with the packet
			}
			if rng.Intn(10) == 0 {
				words = rng.Intn(65536)
			}
			binary.BigEndian.PutUint16(d[off+2:], uint16(words))
			cls = fmt.Sprintf("ext-%04x", prof)
			if prof != 0xBEDE && prof != 0x1000 && prof != 0xABAC {
				cls = "ext-other"
			}
		} else if ext {
			cls = "ext-cut"
		} else {
			cls = "noext"
		}
	}
	ch := []byte{0, 2, 1, 3, 9}[rng.Intn(5)]
	ln := len(d)
	switch rng.Intn(8) {
	case 0:
		ln += 1 + rng.Intn(40) // frame length beyond the stream
		cls += "/len-beyond-eof"
	case 1:
		if ln > 0 {
			ln -= 1 + rng.Intn(ln) // shorter frame, rest looks like the next item
			cls += "/len-short"
		}
	}
	out := []byte{'$', ch, byte(ln >> 8), byte(ln)}
	return append(out, d...), "rtp-fuzz/" + cls
}

func c14Negative(c *kit.Ctx) {
	// N1: every byte string of length <= 2
	var nle2 int64
	for i := 0; i < 1+256+65536; i++ {
		if !c.Mine(i) {
			continue
		}
		var in []byte
		switch {
		case i == 0:
		case i <= 256:
			in = []byte{byte(i - 1)}
		default:
			in = []byte{byte((i - 257) >> 8), byte(i - 257)}
		}
		c14Hostile(c, "all-strings-le2", in, nil, nil)
		nle2++
	}
	c.DistinctN(nle2)
	c.Count("negative_inputs_all_strings_le2", nle2)

	run := func(name string, total int, gen func(rng *rand.Rand) ([]byte, string, *c14Trunc)) {
		for i := 0; i < total; i++ {
			if !c.Mine(i) {
				continue
			}
			rng := c.SubRng("c14neg-"+name, i)
			in, cls, tr := gen(rng)
			var slow *rand.Rand
			if i%8 == 0 {
				slow = rng
			}
			if i%64 == 0 {
				c.Pre(fmt.Sprintf("C14 negative %s case %d seed %d shard %d (%s, %d bytes)", name, i, c.Seed, c.Shard, cls, len(in)))
			}
			c14Hostile(c, name+"/"+cls, in, tr, slow)
			c.Count("negative_inputs_"+name, 1)
			c.SetAdd("negative_classes", name+"/"+cls)
			c.Distinct(fmt.Sprintf("%s/%s/%d", name, cls, len(in)))
		}
	}
	run("random", c.Pick(8000, 800000), func(rng *rand.Rand) ([]byte, string, *c14Trunc) {
		b, cls := c14RandomGarbage(rng)
		return b, cls, nil
	})
	run("mutation", c.Pick(8000, 800000), c14Mutate)
	run("rtp", c.Pick(4000, 400000), func(rng *rand.Rand) ([]byte, string, *c14Trunc) {
		b, cls := c14RTPFuzz(rng)
		return b, cls, nil
	})

	// N5: every truncation offset of a few valid messages (body cuts are judged)
	nmsg := c.Pick(16, 320)
	for i := 0; i < nmsg; i++ {
		if !c.Mine(i) {
			continue
		}
		rng := c.SubRng("c14trunc", i)
		m, w := c14SmallValid(rng, i%2 == 0)
		headEnd := bytes.Index(w, []byte("\r\n\r\n")) + 4
		for cut := 0; cut < len(w); cut++ {
			var tr *c14Trunc
			if len(m.Body) > 0 && cut >= headEnd {
				tr = &c14Trunc{m.Kind, len(m.Body), cut - headEnd}
			}
			c14Hostile(c, "every-offset-truncation", w[:cut], tr, nil)
		}
		c.DistinctN(int64(len(w)))
		c.Count("negative_inputs_every_offset_truncation", int64(len(w)))
		// the same for a frame
		f := c14GenFrame(rng, c14DefaultChannels, 0, false)
		fw := c14Encode(f, rng, true)
		if len(fw) > 400 {
			fw = fw[:400]
		}
		for cut := 0; cut < len(fw); cut++ {
			c14Hostile(c, "every-offset-truncation-frame", fw[:cut], nil, nil)
		}
		c.DistinctN(int64(len(fw)))
	}
}

func maxInt(a, b int) int {
	if a > b {
		return a
	}
	return b
}

// ---- resource bounds ----------------------------------------------------------------------------

var errC14Cutoff = errors.New("c14: endless reader cut off by the harness")

// c14Endless yields prefix, then pat forever; it fails with errC14Cutoff once limit bytes were taken.
type c14Endless struct {
	prefix []byte
	pat    []byte
	n      int64
	limit  int64
}

func (e *c14Endless) Read(p []byte) (int, error) {
	if e.n >= e.limit {
		return 0, errC14Cutoff
	}
	for i := range p {
		pos := e.n + int64(i)
		if pos < int64(len(e.prefix)) {
			p[i] = e.prefix[pos]
		} else {
			p[i] = e.pat[(pos-int64(len(e.prefix)))%int64(len(e.pat))]
		}
	}
	e.n += int64(len(p))
	return len(p), nil
}

const (
	c14ConsumeBound = 8 << 20
	c14Cutoff       = 16 << 20 // twice the bound: enough to decide, keeps the unfixed tree cheap (fresh pages are slow in the sandbox)
	c14AllocBound   = 256 << 20
)

func c14CallEntry(entry string, br *bufio.Reader) (delivered bool, bodyLen int, err error) {
	switch entry {
	case "ReadRequest":
		var r *rtsp.Request
		r, err = rtsp.ReadRequest(br)
		if r != nil {
			delivered, bodyLen = true, len(r.Body)
		}
	case "ReadResponse":
		var r *rtsp.Response
		r, err = rtsp.ReadResponse(br)
		if r != nil {
			delivered, bodyLen = true, len(r.Body)
		}
	default:
		err = srtsp.VerifReceive(br, c14DefaultChannels, func(k string, req *rtsp.Request, resp *rtsp.Response, pack *rtp.Packet) error {
			delivered = true
			if req != nil {
				bodyLen = len(req.Body)
			}
			if resp != nil {
				bodyLen = len(resp.Body)
			}
			return nil
		})
	}
	return
}

func c14Bounds(c *kit.Ctx) {
	filler := []byte("X-Filler: " + strings.Repeat("a", 188) + "\r\n")
	type bcase struct {
		entry, what, sig string
		prefix           string
		pat              []byte
	}
	cases := []bcase{
		{"ReadRequest", "endless first line", "C14:unbounded:header-line", "", []byte("A")},
		{"ReadResponse", "endless status line", "C14:unbounded:header-line", "RTSP/1.0 200 ", []byte("A")},
		{"ReadRequest", "endless header line", "C14:unbounded:header-line", "OPTIONS * RTSP/1.0\r\nCSeq: 1\r\nX-Long: ", []byte("A")},
		{"ReadResponse", "endless header line", "C14:unbounded:header-line", "RTSP/1.0 200 OK\r\nCSeq: 1\r\nX-Long: ", []byte("A")},
		{"VerifReceive", "endless first line", "C14:unbounded:header-line", "", []byte("A")},
		{"VerifReceive", "endless header line in a response", "C14:unbounded:header-line", "RTSP/1.0 200 OK\r\nCSeq: 1\r\nX-Long: ", []byte("A")},
		{"ReadRequest", "endless stream of 200-byte header lines", "C14:unbounded:header-count", "OPTIONS * RTSP/1.0\r\nCSeq: 1\r\n", filler},
		{"ReadResponse", "endless stream of 200-byte header lines", "C14:unbounded:header-count", "RTSP/1.0 200 OK\r\nCSeq: 1\r\n", filler},
		{"VerifReceive", "endless stream of 200-byte header lines", "C14:unbounded:header-count", "DESCRIBE rtsp://h/p RTSP/1.0\r\nCSeq: 1\r\n", filler},
	}
	for i, bc := range cases {
		if !c.Mine(i) {
			continue
		}
		desc := fmt.Sprintf("%s: %s", bc.entry, bc.what)
		c.Pre("C14 bounds " + desc)
		c14W.set("bounds "+desc, c14Cutoff)
		src := &c14Endless{prefix: []byte(bc.prefix), pat: bc.pat, limit: c14Cutoff}
		br := bufio.NewReader(src)
		var err error
		var delivered bool
		// the collector is parked while the parser runs: with it on, the ever larger line buffers make the
		// unfixed tree take ~15x longer (non-preemptible copies); the verdict only reads the byte count
		gcp := debug.SetGCPercent(-1)
		panicked := c14Guard(c, bc.entry, "bounds "+bc.what, []byte(bc.prefix), func() { delivered, _, err = c14CallEntry(bc.entry, br) })
		debug.SetGCPercent(gcp)
		if panicked {
			continue
		}
		c.Eval(1)
		c.DistinctN(1)
		c.Note("bounds/"+desc, map[string]interface{}{"bytes_consumed_before_return": src.n, "err": fmt.Sprint(err), "delivered": delivered})
		if src.n > c14ConsumeBound {
			c.Violation(bc.sig, map[string]interface{}{"entry": bc.entry, "input": fmt.Sprintf("%q followed by %q repeated forever", bc.prefix, c14Clip(string(bc.pat), 40)),
				"bytes_consumed_before_return": src.n, "bound": c14ConsumeBound, "stopped_only_by_harness_cutoff": errors.Is(err, errC14Cutoff), "err": fmt.Sprint(err)})
		} else {
			c.Count("bounds_rejected_within_bound", 1)
		}
		runtime.GC()
		debug.FreeOSMemory()
	}

	// absurd Content-Length with no body following
	heads := []struct{ entry, head string }{
		{"ReadRequest", "ANNOUNCE rtsp://h/p RTSP/1.0\r\nCSeq: 1\r\nContent-Length: %d\r\n\r\n"},
		{"ReadResponse", "RTSP/1.0 200 OK\r\nCSeq: 1\r\nContent-Length: %d\r\n\r\n"},
		{"VerifReceive", "ANNOUNCE rtsp://h/p RTSP/1.0\r\nCSeq: 1\r\nContent-Length: %d\r\n\r\n"},
	}
	for i, h := range heads {
		if !c.Mine(len(cases) + i) {
			continue
		}
		// staged so that an unfixed tree is not asked for 2x2 GiB: 260 MiB already exceeds the bound
		for _, cl := range []int{260 << 20, 2147483647} {
			in := []byte(fmt.Sprintf(h.head, cl))
			desc := fmt.Sprintf("%s: Content-Length %d, no body", h.entry, cl)
			c.Pre("C14 bounds " + desc)
			c14W.set("bounds "+desc, 1<<30)
			runtime.GC()
			var before, after runtime.MemStats
			runtime.ReadMemStats(&before)
			var err error
			var delivered bool
			var bodyLen int
			gcp := debug.SetGCPercent(-1)
			panicked := c14Guard(c, h.entry, "bounds content-length", in, func() {
				delivered, bodyLen, err = c14CallEntry(h.entry, bufio.NewReader(bytes.NewReader(in)))
			})
			debug.SetGCPercent(gcp)
			runtime.ReadMemStats(&after)
			delta := after.TotalAlloc - before.TotalAlloc
			runtime.GC()
			debug.FreeOSMemory()
			if panicked {
				break
			}
			c.Eval(1)
			c.DistinctN(1)
			c.Note("bounds/"+desc, map[string]interface{}{"alloc_delta_bytes": delta, "err": fmt.Sprint(err), "delivered": delivered, "returned_body_len": bodyLen})
			if delta > c14AllocBound {
				c.Violation("C14:unbounded:content-length-alloc", map[string]interface{}{"entry": h.entry, "input": string(in), "content_length": cl,
					"total_alloc_delta_bytes": delta, "bound": c14AllocBound, "err": fmt.Sprint(err), "returned_body_len": bodyLen})
				break
			}
			c.Count("bounds_content_length_within_alloc_bound", 1)
			if err == nil && delivered {
				kind := map[string]string{"ReadRequest": "ReadRequest", "ReadResponse": "ReadResponse", "VerifReceive": "ReadRequest"}[h.entry]
				c.Violation("C14:truncated-body:reported-as-success:"+kind, map[string]interface{}{"entry": h.entry, "input": string(in), "returned_body_len": bodyLen})
			}
		}
	}
}
