package checks

import (
	"encoding/json"
	"fmt"
	"os"
	"sort"
	"strings"
	"syscall"
	"time"

	"github.com/cnotch/ipchub/provider/auth"
	"github.com/cnotch/ipchub/provider/route"
	"github.com/cnotch/ipchub/utils/verifhook"
)

// Child-process side of C18 and the thin adapter onto ipchub's auth / route packages.
// A child stands for one server process: it loads the table from the file the way main.go does
// (Configure + Reset of the JSON provider), edits it through the package API and flushes.

const c18ChildEnv = "VERIF_C18_CHILD"

// c18Instr is the instruction file handed to a child.
type c18Instr struct {
	Mode   string       `json:"mode"` // flush | load | probe
	Kind   string       `json:"kind"` // auth | route
	File   string       `json:"file"`
	A      []c18Rec     `json:"a"`
	B      []c18Rec     `json:"b"`
	Point  string       `json:"point"`          // crash point ("" = none: flush and exit)
	K      string       `json:"k"`              // torn-write size for json.beforeWrite: 0 | 1 | half | len-1
	Marker string       `json:"marker"`         // written just before the child kills itself
	Jobs   []c18LoadJob `json:"jobs,omitempty"` // mode load: files to restart on, one after the other
}

// c18LoadJob is one restart: Configure + Reset on the file; optionally one more Save + Flush afterwards
// (does a server restarted after the crash still manage to store its table?).
type c18LoadJob struct {
	Kind string  `json:"kind"`
	File string  `json:"file"`
	Add  *c18Rec `json:"add,omitempty"`
}

// c18Hit is the marker a child leaves when it reached its crash point.
type c18Hit struct {
	Point   string `json:"point"`
	K       int    `json:"k"`
	Len     int    `json:"len"`
	Content string `json:"content,omitempty"`
	Path    string `json:"path,omitempty"`
}

// c18LoadOut is what a load child prints.
type c18LoadOut struct {
	Panic      string   `json:"panic,omitempty"`
	Table      []c18Rec `json:"table"`
	FileExists bool     `json:"file_exists"`
	Flushed    bool     `json:"flushed,omitempty"`
	FlushErr   string   `json:"flush_err,omitempty"`
}

// child exit codes
const (
	c18ExitSurvived   = 0
	c18ExitBadInstr   = 10
	c18ExitLoadPanic  = 11
	c18ExitLoadDiffer = 12
	c18ExitEditDiffer = 13
	c18ExitFlushErr   = 14
	c18ExitHookShape  = 15
	c18ExitSaveErr    = 16
)

// ---- adapter onto the system under test ----

func c18SutReset(kind, file string) (panicked string) {
	defer func() {
		if r := recover(); r != nil {
			panicked = fmt.Sprint(r)
		}
	}()
	cfg := map[string]interface{}{"file": file}
	if kind == c18Auth {
		if err := auth.JSON.Configure(cfg); err != nil {
			return "configure: " + err.Error()
		}
		auth.Reset(auth.JSON)
	} else {
		if err := route.JSON.Configure(cfg); err != nil {
			return "configure: " + err.Error()
		}
		route.Reset(route.JSON)
	}
	return ""
}

func c18FromUser(u *auth.User) c18Rec {
	return c18Rec{Name: u.Name, Password: u.Password, Admin: u.Admin, Push: u.PushAccess, Pull: u.PullAccess}
}

func c18FromRoute(r *route.Route) c18Rec {
	return c18Rec{Pattern: r.Pattern, URL: r.URL, KeepAlive: r.KeepAlive}
}

func c18SutAll(kind string) []c18Rec {
	var out []c18Rec
	if kind == c18Auth {
		for _, u := range auth.All() {
			if u == nil {
				out = append(out, c18Rec{Name: "<nil>"})
				continue
			}
			out = append(out, c18FromUser(u))
		}
	} else {
		for _, r := range route.All() {
			if r == nil {
				out = append(out, c18Rec{Pattern: "<nil>"})
				continue
			}
			out = append(out, c18FromRoute(r))
		}
	}
	return out
}

func c18SutGet(kind, spelling string) (c18Rec, bool) {
	if kind == c18Auth {
		u := auth.Get(spelling)
		if u == nil {
			return c18Rec{}, false
		}
		return c18FromUser(u), true
	}
	r := route.Get(spelling)
	if r == nil {
		return c18Rec{}, false
	}
	return c18FromRoute(r), true
}

func c18SutSave(kind string, r c18Rec, updatePassword bool) (err error, panicked string) {
	defer func() {
		if x := recover(); x != nil {
			panicked = fmt.Sprint(x)
		}
	}()
	if kind == c18Auth {
		return auth.Save(&auth.User{Name: r.Name, Password: r.Password, Admin: r.Admin, PushAccess: r.Push, PullAccess: r.Pull}, updatePassword), ""
	}
	return route.Save(&route.Route{Pattern: r.Pattern, URL: r.URL, KeepAlive: r.KeepAlive}), ""
}

func c18SutDel(kind, spelling string) (err error, panicked string) {
	defer func() {
		if x := recover(); x != nil {
			panicked = fmt.Sprint(x)
		}
	}()
	if kind == c18Auth {
		return auth.Del(spelling), ""
	}
	return route.Del(spelling), ""
}

func c18SutFlush(kind string) (err error, panicked string) {
	defer func() {
		if x := recover(); x != nil {
			panicked = fmt.Sprint(x)
		}
	}()
	if kind == c18Auth {
		return auth.Flush(), ""
	}
	return route.Flush(), ""
}

// ---- child modes ----

func c18Child(instrPath string) {
	b, err := os.ReadFile(instrPath)
	var in c18Instr
	if err == nil {
		err = json.Unmarshal(b, &in)
	}
	if err != nil {
		fmt.Fprintln(os.Stderr, "c18 child: bad instruction file:", err)
		os.Exit(c18ExitBadInstr)
	}
	switch in.Mode {
	case "load":
		c18ChildLoad(in)
	case "probe":
		c18ChildProbe(in)
	case "flush":
		c18ChildFlush(in)
	}
	fmt.Fprintln(os.Stderr, "c18 child: unknown mode", in.Mode)
	os.Exit(c18ExitBadInstr)
}

// load: what a restarted server would hold (one job after the other; Reset drops all earlier state).
func c18ChildLoad(in c18Instr) {
	var outs []c18LoadOut
	for _, j := range in.Jobs {
		out := c18LoadOut{}
		if _, err := os.Stat(j.File); err == nil {
			out.FileExists = true
		}
		out.Panic = c18SutReset(j.Kind, j.File)
		if out.Panic == "" {
			out.Table = c18SutAll(j.Kind)
			if j.Add != nil {
				err, p := c18SutSave(j.Kind, *j.Add, true)
				if err == nil && p == "" {
					err, p = c18SutFlush(j.Kind)
				}
				out.Flushed = true
				if err != nil {
					out.FlushErr = err.Error()
				} else if p != "" {
					out.FlushErr = "panic: " + p
				}
			}
		}
		outs = append(outs, out)
	}
	json.NewEncoder(os.Stdout).Encode(outs)
	os.Exit(0)
}

// probe: which json.* points does one flush of each provider pass, in which order.
func c18ChildProbe(in c18Instr) {
	var seq []string
	verifhook.Set(func(name string, args []interface{}) {
		if strings.HasPrefix(name, "json.") {
			seq = append(seq, name)
		}
	})
	seqs := [][]string{}
	for _, j := range in.Jobs {
		seq = []string{}
		if p := c18SutReset(j.Kind, j.File); p != "" {
			fmt.Fprintln(os.Stderr, "c18 probe: load panic:", p)
			os.Exit(c18ExitLoadPanic)
		}
		if j.Add != nil {
			c18SutSave(j.Kind, *j.Add, true)
		}
		if err, p := c18SutFlush(j.Kind); err != nil || p != "" {
			fmt.Fprintln(os.Stderr, "c18 probe: flush:", err, p)
			os.Exit(c18ExitFlushErr)
		}
		seqs = append(seqs, seq)
	}
	json.NewEncoder(os.Stdout).Encode(seqs)
	os.Exit(0)
}

// flush: load A, edit it into B, flush, die at the crash point.
func c18ChildFlush(in c18Instr) {
	if p := c18SutReset(in.Kind, in.File); p != "" {
		fmt.Fprintln(os.Stderr, "c18 child: load panic:", p)
		os.Exit(c18ExitLoadPanic)
	}
	a, bt := map[string]c18Rec{}, map[string]c18Rec{}
	for _, r := range in.A {
		a[c18Key(in.Kind, r)] = r
	}
	for _, r := range in.B {
		bt[c18Key(in.Kind, r)] = r
	}
	if cls, d := c18Compare(in.Kind, c18SutAll(in.Kind), a); cls != "" {
		fmt.Fprintln(os.Stderr, "c18 child: loaded table differs from A:", cls, d)
		os.Exit(c18ExitLoadDiffer)
	}
	var ak []string
	for k := range a {
		ak = append(ak, k)
	}
	sort.Strings(ak)
	for _, k := range ak {
		if _, keep := bt[k]; !keep {
			c18SutDel(in.Kind, k)
		}
	}
	for _, r := range c18List(bt) {
		if old, ok := a[c18Key(in.Kind, r)]; ok && old == r {
			continue
		}
		if err, p := c18SutSave(in.Kind, r, true); err != nil || p != "" {
			fmt.Fprintln(os.Stderr, "c18 child: save failed:", err, p)
			os.Exit(c18ExitSaveErr)
		}
	}
	if cls, d := c18Compare(in.Kind, c18SutAll(in.Kind), bt); cls != "" {
		fmt.Fprintln(os.Stderr, "c18 child: edited table differs from B:", cls, d)
		os.Exit(c18ExitEditDiffer)
	}
	if in.Point != "" {
		verifhook.Set(func(name string, args []interface{}) {
			if name != in.Point {
				return
			}
			hit := c18Hit{Point: name}
			if len(args) > 0 {
				if p, ok := args[0].(string); ok {
					hit.Path = p
				}
			}
			if name == "json.beforeWrite" {
				if len(args) < 3 {
					os.Exit(c18ExitHookShape)
				}
				f, ok1 := args[1].(*os.File)
				content, ok2 := args[2].([]byte)
				if !ok1 || !ok2 {
					os.Exit(c18ExitHookShape)
				}
				k := 0
				switch in.K {
				case "0":
					k = 0
				case "1":
					k = 1
				case "half":
					k = len(content) / 2
				default: // len-1
					k = len(content) - 1
				}
				if k > len(content) {
					k = len(content)
				}
				if k < 0 {
					k = 0
				}
				if k > 0 {
					f.Write(content[:k]) // the torn write: only the first k bytes reach the file
				}
				hit.K, hit.Len, hit.Content = k, len(content), string(content)
			}
			if in.Marker != "" {
				mb, _ := json.Marshal(hit)
				os.WriteFile(in.Marker, mb, 0o644)
			}
			syscall.Kill(os.Getpid(), syscall.SIGKILL)
			for {
				time.Sleep(time.Hour)
			}
		})
	}
	if err, p := c18SutFlush(in.Kind); err != nil || p != "" {
		fmt.Fprintln(os.Stderr, "c18 child: flush failed:", err, p)
		os.Exit(c18ExitFlushErr)
	}
	os.Exit(c18ExitSurvived)
}
