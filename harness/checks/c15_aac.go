package checks

import (
	"math/rand"

	"verifharness/kit"
)

// Independent MPEG-4 AudioSpecificConfig model + encoder, written from ISO/IEC 14496-3:2009
// 1.6.2.1 (AudioSpecificConfig, GetAudioObjectType), 4.4.1 (GASpecificConfig, program_config_element),
// 4.6.20 (ELDSpecificConfig), with Table 1.18 (sampling frequency index) and Table 1.19 (channel configuration).

var mascFreqTable = [13]uint32{96000, 88200, 64000, 48000, 44100, 32000, 24000, 22050, 16000, 12000, 11025, 8000, 7350}

// channel count per channelConfiguration 1..7 (Table 1.19)
var mascChannels = [8]int{0, 1, 2, 3, 4, 5, 6, 8}

type mascPCEElem struct {
	Cpe bool
	Tag uint8
}

type mascPCE struct {
	InstanceTag, ObjectType, FreqIdx uint8
	Front, Side, Back                []mascPCEElem
	Lfe, Assoc                       []uint8
	CC                               []mascPCEElem // Cpe field = cc_element_is_ind_sw
	MonoMix, StereoMix, MatrixMix    bool
	MonoNum, StereoNum, MatrixIdx    uint8
	Pseudo                           bool
	Comment                          []byte
}

func (p *mascPCE) channels() int {
	n := len(p.Lfe)
	for _, l := range [][]mascPCEElem{p.Front, p.Side, p.Back} {
		for _, e := range l {
			if e.Cpe {
				n += 2
			} else {
				n++
			}
		}
	}
	return n
}

func (p *mascPCE) write(w *kit.BitWriter) {
	w.U(4, uint64(p.InstanceTag))
	w.U(2, uint64(p.ObjectType))
	w.U(4, uint64(p.FreqIdx))
	w.U(4, uint64(len(p.Front)))
	w.U(4, uint64(len(p.Side)))
	w.U(4, uint64(len(p.Back)))
	w.U(2, uint64(len(p.Lfe)))
	w.U(3, uint64(len(p.Assoc)))
	w.U(4, uint64(len(p.CC)))
	w.Flag(p.MonoMix)
	if p.MonoMix {
		w.U(4, uint64(p.MonoNum))
	}
	w.Flag(p.StereoMix)
	if p.StereoMix {
		w.U(4, uint64(p.StereoNum))
	}
	w.Flag(p.MatrixMix)
	if p.MatrixMix {
		w.U(2, uint64(p.MatrixIdx))
		w.Flag(p.Pseudo)
	}
	for _, l := range [][]mascPCEElem{p.Front, p.Side, p.Back} {
		for _, e := range l {
			w.Flag(e.Cpe)
			w.U(4, uint64(e.Tag))
		}
	}
	for _, t := range p.Lfe {
		w.U(4, uint64(t))
	}
	for _, t := range p.Assoc {
		w.U(4, uint64(t))
	}
	for _, e := range p.CC {
		w.Flag(e.Cpe)
		w.U(4, uint64(e.Tag))
	}
	w.AlignZero() // byte_alignment() relative to the start of the AudioSpecificConfig
	w.U(8, uint64(len(p.Comment)))
	for _, b := range p.Comment {
		w.U(8, uint64(b))
	}
}

type mASC struct {
	AOT     uint8 // audioObjectType as first written (5 / 29 = explicit hierarchical SBR / PS signalling)
	FreqIdx uint8
	Freq    uint32 // explicit samplingFrequency when FreqIdx == 15
	ChanCfg uint8

	// hierarchical signalling (AOT 5 / 29)
	ExtFreqIdx uint8
	ExtFreq    uint32
	InnerAOT   uint8 // audioObjectType read after the extension fields
	ExtChanCfg uint8 // when InnerAOT == 22

	// GASpecificConfig (core AOT 1,2,3,4,6,7,17,19,20,21,22,23)
	FrameLen    bool
	DependsCore bool
	CoreDelay   uint16
	PCE         *mascPCE
	LayerNr     uint8
	NumSubFrame uint8
	LayerLength uint16
	Resilience  uint8 // three flags
	ExtFlag3    bool
	EpConfig    uint8 // 0 or 1 for ER types

	// backward compatible explicit signalling (syncExtensionType 0x2b7)
	Sync        bool
	SbrPresent  bool
	SyncFreqIdx uint8
	SyncFreq    uint32
	PsSync      bool // second syncExtensionType 0x548 present
	PsPresent   bool
}

func (a *mASC) clone() *mASC {
	c := *a
	if a.PCE != nil {
		p := *a.PCE
		c.PCE = &p
	}
	return &c
}

func (a *mASC) hierarchical() bool { return a.AOT == 5 || a.AOT == 29 }

// coreAOT is the audioObjectType that selects the specific config.
func (a *mASC) coreAOT() uint8 {
	if a.hierarchical() {
		return a.InnerAOT
	}
	return a.AOT
}

func mascIsGA(aot uint8) bool {
	switch aot {
	case 1, 2, 3, 4, 6, 7, 17, 19, 20, 21, 22, 23:
		return true
	}
	return false
}

func mascHasEp(aot uint8) bool {
	switch aot {
	case 17, 19, 20, 21, 22, 23, 24, 25, 26, 27, 39:
		return true
	}
	return false
}

func mascFreq(idx uint8, explicit uint32) uint32 {
	if idx == 15 {
		return explicit
	}
	return mascFreqTable[idx]
}

func mascWriteAOT(w *kit.BitWriter, aot uint8) {
	if aot < 32 {
		w.U(5, uint64(aot))
		return
	}
	w.U(5, 31)
	w.U(6, uint64(aot-32))
}

func mascWriteFreq(w *kit.BitWriter, idx uint8, f uint32) {
	w.U(4, uint64(idx))
	if idx == 15 {
		w.U(24, uint64(f))
	}
}

func (a *mASC) normalize() {
	if !a.hierarchical() {
		a.InnerAOT = a.AOT
	}
	core := a.coreAOT()
	if !mascIsGA(core) {
		a.PCE, a.Sync, a.DependsCore = nil, false, false
	}
	if a.ChanCfg != 0 {
		a.PCE = nil
	} else if mascIsGA(core) && a.PCE == nil {
		a.ChanCfg = 2
	}
	if a.hierarchical() {
		a.Sync = false // extensionAudioObjectType == 5: no backward compatible extension
	}
	if !a.Sync {
		a.SbrPresent, a.PsSync, a.PsPresent = false, false, false
	}
	if !a.SbrPresent {
		a.PsSync, a.PsPresent = false, false
	}
}

// gaRange returns the bit range [from,to) occupied by the specific config inside the encoding (diagnostics).
func (a *mASC) encode() (out []byte, gaFrom, gaTo int) {
	w := &kit.BitWriter{}
	mascWriteAOT(w, a.AOT)
	mascWriteFreq(w, a.FreqIdx, a.Freq)
	w.U(4, uint64(a.ChanCfg))
	core := a.AOT
	if a.hierarchical() {
		mascWriteFreq(w, a.ExtFreqIdx, a.ExtFreq)
		mascWriteAOT(w, a.InnerAOT)
		core = a.InnerAOT
		if core == 22 {
			w.U(4, uint64(a.ExtChanCfg))
		}
	}
	gaFrom = w.Len()
	switch {
	case mascIsGA(core):
		extFlag := core >= 17
		w.Flag(a.FrameLen)
		w.Flag(a.DependsCore)
		if a.DependsCore {
			w.U(14, uint64(a.CoreDelay))
		}
		w.Flag(extFlag)
		if a.ChanCfg == 0 {
			a.PCE.write(w)
		}
		if core == 6 || core == 20 {
			w.U(3, uint64(a.LayerNr))
		}
		if extFlag {
			if core == 22 {
				w.U(5, uint64(a.NumSubFrame))
				w.U(11, uint64(a.LayerLength))
			}
			if core == 17 || core == 19 || core == 20 || core == 23 {
				w.U(3, uint64(a.Resilience))
			}
			w.Flag(a.ExtFlag3)
		}
	case core == 32 || core == 33 || core == 34:
		w.Flag(false) // MPEG_1_2_SpecificConfig: extension
	case core == 39:
		w.Flag(a.FrameLen)
		w.U(3, uint64(a.Resilience))
		w.Flag(false) // ldSbrPresentFlag
		w.U(4, 0)     // ELDEXT_TERM
	}
	if mascHasEp(core) {
		w.U(2, uint64(a.EpConfig))
	}
	gaTo = w.Len()
	if a.Sync {
		w.U(11, 0x2b7)
		mascWriteAOT(w, 5)
		w.Flag(a.SbrPresent)
		if a.SbrPresent {
			mascWriteFreq(w, a.SyncFreqIdx, a.SyncFreq)
			if a.PsSync {
				w.U(11, 0x548)
				w.Flag(a.PsPresent)
			}
		}
	}
	w.AlignZero()
	return w.Bytes(), gaFrom, gaTo
}

type mascExpect struct {
	CoreRate   int
	ExtRate    int // 0 = no extension sampling frequency signalled
	Channels   int // -1 = not judged (channelConfiguration 0 -> PCE)
	ObjectType int
	ChannelsPS bool // explicit PS: core is mono, output stereo: 1 or 2 both defensible
}

func (a *mASC) expect() mascExpect {
	e := mascExpect{CoreRate: int(mascFreq(a.FreqIdx, a.Freq)), ObjectType: int(a.coreAOT())}
	if a.ChanCfg >= 1 && a.ChanCfg <= 7 {
		e.Channels = mascChannels[a.ChanCfg]
	} else {
		e.Channels = -1
	}
	if a.hierarchical() {
		e.ExtRate = int(mascFreq(a.ExtFreqIdx, a.ExtFreq))
		e.ChannelsPS = a.AOT == 29
	} else if a.Sync && a.SbrPresent {
		e.ExtRate = int(mascFreq(a.SyncFreqIdx, a.SyncFreq))
		e.ChannelsPS = a.PsSync && a.PsPresent
	}
	return e
}

func mascGenPCE(rng *rand.Rand) *mascPCE {
	p := &mascPCE{InstanceTag: uint8(rng.Intn(16)), ObjectType: uint8(rng.Intn(4)), FreqIdx: uint8(rng.Intn(12))}
	el := func(n int) []mascPCEElem {
		var o []mascPCEElem
		for i := 0; i < n; i++ {
			o = append(o, mascPCEElem{rng.Intn(2) == 0, uint8(rng.Intn(16))})
		}
		return o
	}
	p.Front, p.Side, p.Back = el(1+rng.Intn(3)), el(rng.Intn(3)), el(rng.Intn(3))
	for i := 0; i < rng.Intn(3); i++ {
		p.Lfe = append(p.Lfe, uint8(rng.Intn(16)))
	}
	for i := 0; i < rng.Intn(3); i++ {
		p.Assoc = append(p.Assoc, uint8(rng.Intn(16)))
	}
	p.CC = el(rng.Intn(3))
	p.MonoMix, p.StereoMix, p.MatrixMix = rng.Intn(3) == 0, rng.Intn(3) == 0, rng.Intn(3) == 0
	p.MonoNum, p.StereoNum, p.MatrixIdx, p.Pseudo = uint8(rng.Intn(16)), uint8(rng.Intn(16)), uint8(rng.Intn(4)), rng.Intn(2) == 0
	for i := 0; i < rng.Intn(6); i++ {
		p.Comment = append(p.Comment, byte(0x20+rng.Intn(0x5f)))
	}
	return p
}

var mascCoreAOTs = []uint8{1, 2, 2, 2, 3, 4, 6, 7, 17, 19, 20, 21, 22, 23, 32, 33, 34, 39}

func mascGen(rng *rand.Rand) *mASC {
	b := func(p int) bool { return rng.Intn(100) < p }
	a := &mASC{}
	freq := func() (uint8, uint32) {
		if b(25) {
			f := []uint32{44100, 48000, 1, 0xffffff, 8000, 96000, 192000, 37800, 0x2b7 << 5, 22050}[rng.Intn(10)]
			if b(30) {
				f = uint32(1 + rng.Intn(1<<24-1))
			}
			return 15, f
		}
		return uint8(rng.Intn(13)), 0
	}
	core := mascCoreAOTs[rng.Intn(len(mascCoreAOTs))]
	a.AOT, a.InnerAOT = core, core
	a.FreqIdx, a.Freq = freq()
	a.ChanCfg = uint8(1 + rng.Intn(7))
	if b(8) {
		a.ChanCfg = 0
	}
	switch rng.Intn(5) {
	case 0: // explicit hierarchical SBR
		a.AOT = 5
		a.ExtFreqIdx, a.ExtFreq = freq()
	case 1: // explicit hierarchical PS
		a.AOT = 29
		a.ExtFreqIdx, a.ExtFreq = freq()
		if b(60) {
			a.ChanCfg = 1
		}
	case 2: // backward compatible
		a.Sync = true
		a.SbrPresent = b(75)
		a.SyncFreqIdx, a.SyncFreq = freq()
		a.PsSync = b(50)
		a.PsPresent = b(60)
	}
	a.ExtChanCfg = uint8(rng.Intn(8))
	a.FrameLen = b(30)
	if a.DependsCore = b(25); a.DependsCore {
		a.CoreDelay = uint16(rng.Intn(1 << 14))
	}
	if a.ChanCfg == 0 {
		a.PCE = mascGenPCE(rng)
	}
	a.LayerNr = uint8(rng.Intn(8))
	a.NumSubFrame = uint8(rng.Intn(32))
	a.LayerLength = uint16(rng.Intn(2048))
	a.Resilience = uint8(rng.Intn(8))
	a.ExtFlag3 = false
	a.EpConfig = uint8(rng.Intn(2))
	a.normalize()
	return a
}

func mascFeatures() []c15Feat[mASC] {
	return []c15Feat[mASC]{
		{"sync-extension-ps-0x548", func(a *mASC) bool { return a.Sync && a.PsSync }, func(a *mASC) { a.PsSync = false }},
		{"sync-extension-explicit-frequency", func(a *mASC) bool { return a.Sync && a.SbrPresent && a.SyncFreqIdx == 15 }, func(a *mASC) { a.SyncFreqIdx = 3 }},
		{"sync-extension-sbr-present", func(a *mASC) bool { return a.Sync && a.SbrPresent }, func(a *mASC) { a.SbrPresent = false }},
		{"sync-extension-0x2b7", func(a *mASC) bool { return a.Sync }, func(a *mASC) { a.Sync = false }},
		{"program-config-element", func(a *mASC) bool { return a.PCE != nil }, func(a *mASC) { a.PCE = nil; a.ChanCfg = 2 }},
		{"depends-on-core-coder", func(a *mASC) bool { return a.DependsCore }, func(a *mASC) { a.DependsCore = false }},
		{"ext-explicit-frequency", func(a *mASC) bool { return a.hierarchical() && a.ExtFreqIdx == 15 }, func(a *mASC) { a.ExtFreqIdx = 3 }},
		{"explicit-ps-aot29", func(a *mASC) bool { return a.AOT == 29 }, func(a *mASC) { a.AOT = 5 }},
		{"explicit-sbr-aot5", func(a *mASC) bool { return a.AOT == 5 }, func(a *mASC) { a.AOT = a.InnerAOT }},
		{"aot-escape-ge-32", func(a *mASC) bool { return a.coreAOT() >= 32 }, func(a *mASC) {
			if a.hierarchical() {
				a.InnerAOT = 2
			} else {
				a.AOT = 2
			}
		}},
		{"aot-not-aac-lc", func(a *mASC) bool { return a.coreAOT() != 2 }, func(a *mASC) {
			if a.hierarchical() {
				a.InnerAOT = 2
			} else {
				a.AOT = 2
			}
		}},
		{"explicit-frequency", func(a *mASC) bool { return a.FreqIdx == 15 }, func(a *mASC) { a.FreqIdx = 4 }},
		{"channel-config-7", func(a *mASC) bool { return a.ChanCfg == 7 }, func(a *mASC) { a.ChanCfg = 2 }},
	}
}
