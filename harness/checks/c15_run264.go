package checks

import (
	"encoding/hex"
	"fmt"
	"strings"

	"verifharness/kit"

	"github.com/cnotch/ipchub/av/codec/h264"
	"github.com/cnotch/ipchub/utils/bits"
)

// probeReader feeds our own ue(v)/se(v) codes of every width to bits.Reader (attribution aid + coverage).
func (k *c15) probeReader() {
	var ueBad, seBad, seZero, seN int
	for i, u := range c15UeEdges {
		w := &kit.BitWriter{}
		w.Ue(u)
		w.Se(c15SeEdges[i])
		w.U(16, 0xffff)
		buf := w.Bytes()
		var gu uint32
		var gs int32
		g := c15Guard(func() {
			r := bits.NewReader(buf)
			gu = r.ReadUe()
			gs = r.ReadSe()
		})
		if g.Panic != "" || g.Hung {
			ueBad++
			continue
		}
		if uint64(gu) != u {
			ueBad++
			if wd := bitLenU(u + 1); k.ueBad == 0 || wd < k.ueBad {
				k.ueBad = wd
			}
		}
		if c15SeEdges[i] != 0 {
			seN++
			if int64(gs) != c15SeEdges[i] {
				seBad++
				if gs == 0 {
					seZero++
				}
			}
		}
	}
	if seBad > 0 {
		k.seProbe = "wrong"
		if seZero == seN {
			k.seProbe = "zero"
		}
	}
	if k.c.Shard == 0 {
		k.count("reader_probe_ue_values", int64(len(c15UeEdges)))
		k.count("reader_probe_ue_wrong", int64(ueBad))
		k.count("reader_probe_se_values", int64(seN))
		k.count("reader_probe_se_wrong", int64(seBad))
	}
}

func (k *c15) decode264(nal []byte) (c15Out, *h264.RawSPS, c15Guarded) {
	var o c15Out
	sps := new(h264.RawSPS)
	c15Pre(k.c, "h264.RawSPS.Decode "+hex.EncodeToString(nal))
	g := c15Guard(func() {
		if err := sps.Decode(nal); err != nil {
			o.Err = c15ErrBrief(err.Error())
			return
		}
		o.W, o.H, o.FPS, o.Fixed = sps.Width(), sps.Height(), sps.FrameRate(), sps.IsFixedFrameRate()
	})
	return o, sps, g
}

// diff264 compares ipchub's raw syntax fields with the model in syntax order, up to the last judged element.
// se(v)-valued elements are not compared (they do not steer parsing).
func diff264(m *m264SPS, r *h264.RawSPS, skip string) c15Diff {
	d := c15Diff{Skip: skip}
	d.cmp("nal-header", "nal_ref_idc", int64(m.NalRefIdc), int64(r.NalUnitHeader.NalRefIdc))
	d.cmp("nal-header", "nal_unit_type", 7, int64(r.NalUnitHeader.NalUnitType))
	d.cmp("profile-level", "profile_idc", int64(m.ProfileIdc), int64(r.ProfileIdc))
	cs := int64(r.ConstraintSet0Flag)<<5 | int64(r.ConstraintSet1Flag)<<4 | int64(r.ConstraintSet2Flag)<<3 |
		int64(r.ConstraintSet3Flag)<<2 | int64(r.ConstraintSet4Flag)<<1 | int64(r.ConstraintSet5Flag)
	d.cmp("profile-level", "constraint_set_flags", int64(m.Constraint), cs)
	d.cmp("profile-level", "level_idc", int64(m.LevelIdc), int64(r.LevelIdc))
	d.cmp("sps-id", "seq_parameter_set_id", int64(m.ID), int64(r.SeqParameterSetID))
	if m264HighSyntax(m.ProfileIdc) {
		d.cmp("chroma-format", "chroma_format_idc", int64(m.Chroma), int64(r.ChromaFormatIdc))
		d.cmp("chroma-format", "separate_colour_plane_flag", c15b(m.SepPlane), int64(r.SeparateColourPlaneFlag))
		d.cmp("bit-depth", "bit_depth_luma_minus8", int64(m.BitDepthL), int64(r.BitDepthLumaMinus8))
		d.cmp("bit-depth", "bit_depth_chroma_minus8", int64(m.BitDepthC), int64(r.BitDepthChromaMinus8))
		d.cmp("qpprime", "qpprime_y_zero_transform_bypass_flag", c15b(m.QpPrime), int64(r.QpprimeYZeroTransformBypassFlag))
		d.cmp("scaling-matrix", "seq_scaling_matrix_present_flag", c15b(m.ScalingMatrix), int64(r.SeqScalingMatrixPresentFlag))
		if m.ScalingMatrix {
			n := 8
			if m.Chroma == 3 {
				n = 12
			}
			for i := 0; i < n; i++ {
				d.cmp("scaling-matrix", fmt.Sprintf("seq_scaling_list_present_flag[%d]", i), c15b(m.Lists[i] != nil), int64(r.SeqScalingListPresentFlag[i]))
			}
		}
	} else {
		d.cmp("chroma-format-inferred", "chroma_format_idc", 1, int64(r.ChromaFormatIdc))
	}
	d.cmp("log2-max-frame-num", "log2_max_frame_num_minus4", int64(m.Log2MaxFrameNum), int64(r.Log2MaxFrameNumMinus4))
	d.cmp("pic-order-cnt", "pic_order_cnt_type", int64(m.PocType), int64(r.PicOrderCntType))
	switch m.PocType {
	case 0:
		d.cmp("pic-order-cnt", "log2_max_pic_order_cnt_lsb_minus4", int64(m.Log2MaxPocLsb), int64(r.Log2MaxPicOrderCntLsbMinus4))
	case 1:
		d.cmp("pic-order-cnt", "delta_pic_order_always_zero_flag", c15b(m.DeltaAlwaysZero), int64(r.DeltaPicOrderAlwaysZeroFlag))
		d.cmp("pic-order-cnt", "num_ref_frames_in_pic_order_cnt_cycle", int64(len(m.RefOffsets)), int64(r.NumRefFramesInPicOrderCntCycle))
	}
	d.cmp("max-num-ref-frames", "max_num_ref_frames", int64(m.MaxRefFrames), int64(r.MaxNumRefFrames))
	d.cmp("max-num-ref-frames", "gaps_in_frame_num_value_allowed_flag", c15b(m.Gaps), int64(r.GapsInFrameNumAllowedFlag))
	d.cmp("pic-size", "pic_width_in_mbs_minus1", int64(m.WidthMbs-1), int64(r.PicWidthInMbsMinus1))
	d.cmp("pic-size", "pic_height_in_map_units_minus1", int64(m.HeightMU-1), int64(r.PicHeightInMapUnitsMinus1))
	d.cmp("frame-mbs-only", "frame_mbs_only_flag", c15b(m.FrameMbsOnly), int64(r.FrameMbsOnlyFlag))
	d.cmp("frame-mbs-only", "mb_adaptive_frame_field_flag", c15b(m.Mbaff), int64(r.MbAdaptiveFrameFieldFlag))
	d.cmp("frame-mbs-only", "direct_8x8_inference_flag", c15b(m.Direct8x8), int64(r.Direct8x8InferenceFlag))
	d.cmp("frame-cropping", "frame_cropping_flag", c15b(m.Crop), int64(r.FrameCroppingFlag))
	d.cmp("frame-cropping", "frame_crop_left_offset", int64(m.CL), int64(r.FrameCropLeftOffset))
	d.cmp("frame-cropping", "frame_crop_right_offset", int64(m.CR), int64(r.FrameCropRightOffset))
	d.cmp("frame-cropping", "frame_crop_top_offset", int64(m.CT), int64(r.FrameCropTopOffset))
	d.cmp("frame-cropping", "frame_crop_bottom_offset", int64(m.CB), int64(r.FrameCropBottomOffset))
	d.cmp("vui-present", "vui_parameters_present_flag", c15b(m.VUI != nil), int64(r.VuiParametersPresentFlag))
	if v := m.VUI; v != nil {
		u := &r.Vui
		d.cmp("vui-aspect-ratio", "aspect_ratio_info_present_flag", c15b(v.Aspect), int64(u.AspectRatioInfoPresentFlag))
		if v.Aspect {
			d.cmp("vui-aspect-ratio", "aspect_ratio_idc", int64(v.AspectIdc), int64(u.AspectRatioIdc))
			if v.AspectIdc == 255 {
				d.cmp("vui-aspect-ratio", "sar_width", int64(v.SarW), int64(u.SarWidth))
				d.cmp("vui-aspect-ratio", "sar_height", int64(v.SarH), int64(u.SarHeight))
			}
		}
		d.cmp("vui-overscan", "overscan_info_present_flag", c15b(v.Overscan), int64(u.OverscanInfoPresentFlag))
		if v.Overscan {
			d.cmp("vui-overscan", "overscan_appropriate_flag", c15b(v.OverscanApp), int64(u.OverscanAppropriateFlag))
		}
		d.cmp("vui-video-signal-type", "video_signal_type_present_flag", c15b(v.VideoSignal), int64(u.VideoSignalTypePresentFlag))
		if v.VideoSignal {
			d.cmp("vui-video-signal-type", "video_format", int64(v.VideoFormat), int64(u.VideoFormat))
			d.cmp("vui-video-signal-type", "video_full_range_flag", c15b(v.FullRange), int64(u.VideoFullRangeFlag))
			d.cmp("vui-video-signal-type", "colour_description_present_flag", c15b(v.ColourDesc), int64(u.ColourDescriptionPresentFlag))
			if v.ColourDesc {
				d.cmp("vui-video-signal-type", "colour_primaries", int64(v.Prim), int64(u.ColourPrimaries))
				d.cmp("vui-video-signal-type", "transfer_characteristics", int64(v.Trans), int64(u.TransferCharacteristics))
				d.cmp("vui-video-signal-type", "matrix_coefficients", int64(v.Matrix), int64(u.MatrixCoefficients))
			}
		}
		d.cmp("vui-chroma-loc", "chroma_loc_info_present_flag", c15b(v.ChromaLoc), int64(u.ChromaLocInfoPresentFlag))
		if v.ChromaLoc {
			d.cmp("vui-chroma-loc", "chroma_sample_loc_type_top_field", int64(v.LocTop), int64(u.ChromaSampleLocTypeTopField))
			d.cmp("vui-chroma-loc", "chroma_sample_loc_type_bottom_field", int64(v.LocBottom), int64(u.ChromaSampleLocTypeBottomField))
		}
		d.cmp("vui-timing-info", "timing_info_present_flag", c15b(v.Timing), int64(u.TimingInfoPresentFlag))
		if v.Timing {
			d.cmp("vui-timing-info", "num_units_in_tick", int64(v.NumUnits), int64(u.NumUnitsInTick))
			d.cmp("vui-timing-info", "time_scale", int64(v.TimeScale), int64(u.TimeScale))
			d.cmp("vui-timing-info", "fixed_frame_rate_flag", c15b(v.Fixed), int64(u.FixedFrameRateFlag))
		}
	}
	return d
}

type c15Eval struct {
	Out      c15Out
	Problems []string
	Diff     c15Diff
	Guard    c15Guarded
	Nal      []byte
	Epb      []int
	MaxUe    int // widest Exp-Golomb code in the set
}

// ueSig: a judged mismatch on a set containing Exp-Golomb codes at least as wide as the narrowest one the
// direct reader probe got wrong is attributed to the reader.
func (k *c15) ueSig(e *c15Eval, extra map[string]interface{}) string {
	if k.ueBad > 0 && e.MaxUe >= k.ueBad {
		extra["reader_ue_probe_first_wrong_width_bits"] = k.ueBad
		extra["widest_exp_golomb_in_set_bits"] = e.MaxUe
		return "C15:bits:ue-decoded-wrong"
	}
	return ""
}

func (e *c15Eval) fails() bool {
	return len(e.Problems) > 0 || e.Diff.Found || e.Guard.Panic != "" || e.Guard.Hung
}
func (e *c15Eval) parseBad() bool { return e.Diff.Found || e.Out.Err != "" }

// progress: how far (in syntax order) ipchub's parse agrees with the model; larger is better.
func (e *c15Eval) progress() int {
	switch {
	case e.Guard.Hung || e.Guard.Panic != "":
		return 0
	case e.Diff.Found:
		return e.Diff.At
	case e.Out.Err != "":
		return 1 << 29
	}
	return 1 << 30
}

func (k *c15) eval264(m *m264SPS, st *kit.BitStats) *c15Eval {
	e := &c15Eval{}
	var ls kit.BitStats
	e.Nal, e.Epb = m.encode(&ls)
	e.MaxUe = ls.MaxUe
	if st != nil {
		m.encode(st)
	}
	var raw *h264.RawSPS
	e.Out, raw, e.Guard = k.decode264(e.Nal)
	if e.Guard.Hung || e.Guard.Panic != "" {
		return e
	}
	e.Problems = c15Judge(m.expect(), e.Out)
	e.Diff = diff264(m, raw, "")
	return e
}

// aliases for formula-level findings: the minimal feature set -> canonical class
func alias264(field string, leaves []string) string {
	has := func(n string) bool {
		for _, l := range leaves {
			if l == n {
				return true
			}
		}
		return false
	}
	chroma := has("chroma-400") || has("chroma-422") || has("chroma-444") || has("separate-colour-plane")
	crop := has("crop-left-right") || has("crop-top-bottom")
	only := func(allowed ...string) bool {
		for _, l := range leaves {
			ok := false
			for _, a := range allowed {
				if l == a {
					ok = true
				}
			}
			if !ok {
				return false
			}
		}
		return true
	}
	switch {
	case field == "height" && has("crop-top-bottom") && has("field-coded") && only("crop-top-bottom", "field-coded"):
		return "C15:h264:height:field-coded-crop"
	case (field == "width" || field == "height") && chroma && crop &&
		only("chroma-400", "chroma-422", "chroma-444", "separate-colour-plane", "crop-left-right", "crop-top-bottom", "profile-idc-other-high"):
		return "C15:h264:crop-unit-ignores-chroma-format"
	}
	return "C15:h264:" + field + ":" + strings.Join(leaves, "+")
}

func (k *c15) attribute264(m *m264SPS, e *c15Eval) (sig string, extra map[string]interface{}) {
	extra = map[string]interface{}{}
	feats := m264Features()
	tryOff := func(names ...string) *c15Eval {
		v := m.clone()
		for _, f := range feats {
			for _, n := range names {
				if f.name == n && f.active(v) {
					f.off(v)
				}
			}
		}
		v.normalize()
		return k.eval264(v, nil)
	}
	if e.parseBad() {
		if s := k.ueSig(e, extra); s != "" {
			return s, extra
		}
		base := e.progress()
		// hypothesis: emulation prevention bytes not removed correctly
		if len(e.Epb) > 0 {
			raw := c15Unescape(e.Nal, e.Epb)
			if !c15RawHas003(raw) {
				o, r, g := k.decode264(raw)
				v := &c15Eval{Out: o, Guard: g, Diff: diff264(m, r, "")}
				if v.progress() > base {
					return "C15:h264:emulation-prevention-bytes-not-removed", extra
				}
			}
		}
		// hypothesis: profile_idc not recognised as carrying the high-profile syntax
		if m264HighSyntax(m.ProfileIdc) && m.ProfileIdc != 100 {
			if v := tryOff("profile-idc-other-high"); v.progress() > base {
				extra["profile_idc"] = m.ProfileIdc
				return "C15:h264:profile-idc-not-recognised-as-high-profile-syntax", extra
			}
		}
		// hypothesis: scaling_list() terminated early (nextScale == 0) is over-read
		if v := tryOff("scaling-list-use-default-first-delta", "scaling-list-early-termination"); v.progress() > base {
			extra["reader_se_probe"] = k.seProbe
			switch k.seProbe {
			case "zero":
				return "C15:h264:se-decoded-as-zero", extra
			case "wrong":
				return "C15:h264:se-decoded-wrong", extra
			}
			return "C15:h264:scaling-list-early-termination", extra
		}
		if v := tryOff("scaling-list-use-default-first-delta", "scaling-list-early-termination", "scaling-list-negative-delta"); v.progress() > base {
			extra["reader_se_probe"] = k.seProbe
			return "C15:h264:scaling-list-delta-scale", extra
		}
		if e.Diff.Found {
			extra["first_divergent_field"] = e.Diff.Field
			extra["want"], extra["got"] = e.Diff.Want, e.Diff.Got
			return "C15:h264:misparse:" + e.Diff.Group, extra
		}
		return "C15:h264:valid-sps-rejected", extra
	}
	// formula regime: syntax parsed correctly, derived value wrong
	field := e.Problems[0]
	min, names := c15Minimize(m, feats, (*m264SPS).clone, (*m264SPS).normalize, func(v *m264SPS) bool {
		ev := k.eval264(v, nil)
		for _, p := range ev.Problems {
			if p == field {
				return true
			}
		}
		return false
	})
	extra["minimal_features"] = names
	mn, _ := min.encode(nil)
	extra["minimal_sps_hex"] = hex.EncodeToString(mn)
	me := min.expect()
	extra["minimal_expect"] = fmt.Sprintf("%dx%d fps=%v fixed=%v", me.W, me.H, me.FPS, me.Fixed)
	return alias264(field, c15Leaves(names)), extra
}

func diffFound264(m *m264SPS, r *h264.RawSPS) bool {
	d := diff264(m, r, "")
	return d.Found
}

// directed264: minimal reproductions of the defects predicted in the design (and others found).
func directed264() []*m264SPS {
	base := func() *m264SPS {
		return &m264SPS{NalRefIdc: 3, ProfileIdc: 66, LevelIdc: 30, Chroma: 1, WidthMbs: 20, HeightMU: 15, FrameMbsOnly: true, Direct8x8: true, MaxRefFrames: 1}
	}
	var out []*m264SPS
	// 0: plain baseline 320x240
	out = append(out, base())
	// 1: 1920x1080 progressive 4:2:0 with crop bottom 4 (the common case: must pass)
	s := base()
	s.ProfileIdc, s.WidthMbs, s.HeightMU, s.Crop, s.CB = 100, 120, 68, true, 4
	out = append(out, s)
	// 2: field coded 1920x1080 (PicHeightInMapUnits 34), crop bottom 2 -> CropUnitY = 4
	s = base()
	s.ProfileIdc, s.WidthMbs, s.HeightMU, s.FrameMbsOnly, s.Crop, s.CB = 100, 120, 34, false, true, 2
	out = append(out, s)
	// 3: 4:4:4 with crop right 8 -> CropUnitX = 1
	s = base()
	s.ProfileIdc, s.Chroma, s.Crop, s.CR = 244, 3, true, 8
	out = append(out, s)
	// 4: 4:2:2 with crop bottom 8 -> CropUnitY = 1
	s = base()
	s.ProfileIdc, s.Chroma, s.Crop, s.CB = 122, 2, true, 8
	out = append(out, s)
	// 5: monochrome crop left 3
	s = base()
	s.ProfileIdc, s.Chroma, s.Crop, s.CL = 100, 0, true, 3
	out = append(out, s)
	// 6: scaling list with early termination (delta_scale = -8 after one coefficient)
	s = base()
	s.ProfileIdc, s.ScalingMatrix = 100, true
	s.Lists[0] = []int64{2, -10}
	out = append(out, s)
	// 7: scaling list flat, full length, negative deltas, no termination
	s = base()
	s.ProfileIdc, s.ScalingMatrix = 100, true
	s.Lists[0] = []int64{-1, 1, -1, 1, -1, 1, -1, 1, -1, 1, -1, 1, -1, 1, -1, 1}
	out = append(out, s)
	// 8: pic_order_cnt_type 1 with negative offsets
	s = base()
	s.PocType, s.OffNonRef, s.OffTopBottom, s.RefOffsets = 1, -3, -1<<31+1, []int64{-2, 5}
	out = append(out, s)
	// 9: VUI timing 25 fps fixed
	s = base()
	s.VUI = &m264VUI{Timing: true, NumUnits: 1, TimeScale: 50, Fixed: true}
	out = append(out, s)
	// 10: VUI timing num_units_in_tick = 2^31
	s = base()
	s.VUI = &m264VUI{Timing: true, NumUnits: 1 << 31, TimeScale: 0xffffffff, Fixed: false}
	out = append(out, s)
	// 11: profile_idc 128 (Stereo High) carries chroma_format_idc etc. (7.3.2.1.1)
	s = base()
	s.ProfileIdc, s.Chroma = 128, 1
	out = append(out, s)
	// 12: NAL + VCL HRD with 32-bit-wide ue(v)
	s = base()
	h := &m264HRD{BitRate: []uint64{1<<32 - 2}, CpbSize: []uint64{1 << 31}, Cbr: []bool{true}, InitLen: 23, RemLen: 23, OutLen: 23, TimeOffLen: 24}
	s.VUI = &m264VUI{NalHrd: h, VclHrd: h.clone(), Timing: true, NumUnits: 1001, TimeScale: 60000, Fixed: true, PicStruct: true}
	out = append(out, s)
	for _, s := range out {
		s.normalize()
	}
	return out
}

func (k *c15) runH264() {
	c := k.c
	feats := m264Features()
	dir := directed264()
	n := c.Pick(2000, 240000)
	for i := 0; i < len(dir)+n; i++ {
		if !c.Mine(i) {
			continue
		}
		var m *m264SPS
		directed := i < len(dir)
		if directed {
			m = dir[i]
		} else {
			m = m264Gen(c.SubRng("c15-h264", i))
		}
		// generator self-check: coded scaling lists must be exactly what 7.3.2.1.1.1 reads
		okGen := true
		for li, l := range m.Lists {
			if l == nil {
				continue
			}
			size := 16
			if li >= 6 {
				size = 64
			}
			if nn, _ := m264ListCodedLen(l, size); nn != len(l) {
				okGen = false
			}
		}
		if !okGen {
			c.Inconclusive("generator-self-check-failed:h264-scaling-list")
			continue
		}
		e := k.eval264(m, &k.stats)
		c.Eval(1)
		act := c15Active(m, feats)
		for _, a := range act {
			k.count("h264_branch:"+a, 1)
		}
		k.count("h264_valid_sets", 1)
		if directed {
			k.count("h264_directed_sets", 1)
		}
		c.Distinct("h264|" + strings.Join(act, ",") + fmt.Sprintf("|%d|%d", bitLenU(m.WidthMbs), bitLenU(m.HeightMU)))
		k.epbCoverage("h264", e.Nal, e.Epb)
		exp := m.expect()
		k.sample("h264-valid", map[string]interface{}{"sps_hex": hex.EncodeToString(e.Nal), "features": act,
			"expect": fmt.Sprintf("%dx%d fps=%v fixed=%v", exp.W, exp.H, exp.FPS, exp.Fixed)})
		detail := map[string]interface{}{"case": i, "sps_hex": hex.EncodeToString(e.Nal), "features": act,
			"expect": fmt.Sprintf("%dx%d hasfps=%v fps=%v fixed=%v", exp.W, exp.H, exp.HasFPS, exp.FPS, exp.Fixed),
			"got":    fmt.Sprintf("%dx%d fps=%v fixed=%v err=%q", e.Out.W, e.Out.H, e.Out.FPS, e.Out.Fixed, e.Out.Err)}
		if k.guardFinding("h264", "RawSPS.Decode", e.Guard, e.Nal, detail) {
			continue
		}
		if !exp.HasFPS {
			k.count("h264_unjudged_framerate_no_timing_info(only_nonzero_report_flagged)", 1)
		}
		if len(e.Problems) == 0 {
			k.count("h264_sets_all_judged_outputs_equal", 1)
			continue
		}
		k.count("h264_sets_with_mismatch", 1)
		sig, extra := k.attribute264(m, e)
		detail["mismatch"] = e.Problems
		for a, b := range extra {
			detail[a] = b
		}
		c.Violation(sig, detail)
	}
}

func bitLenU(v uint64) int {
	n := 0
	for v != 0 {
		n++
		v >>= 1
	}
	return n
}
