package checks

import (
	"encoding/binary"
	"fmt"
	"io"
	"math/rand"
	"net/url"
	"sort"
	"strconv"
	"strings"
)

// C14 generators and the independent reference codec (no ipchub code on this side).

// c14Field is one header field of the model: a name as spelled by the emitter and its values.
type c14Field struct {
	Name   string
	Values []string
}

// c14Item is one model message or interleaved frame.
type c14Item struct {
	Kind string // request | response | frame

	Method string
	URL    string // string form the emitter puts on the wire
	URLAlt string // accepted normalised form (empty port removed), "" when none

	Code        int
	Reason      string // reason phrase on the wire; "" = left to the emitter (ipchub Write path only)
	StatusField string // Response.Status handed to ipchub's Write

	Fields []c14Field
	Body   string
	EmitCL bool // a Content-Length field with len(Body) is on the wire

	// frames
	ChIdx    int    // logical channel index (0 video,1 video-ctl,2 audio,3 audio-ctl); -1 when unmapped
	Wire     int    // channel byte on the wire
	Data     []byte // frame payload
	Media    bool   // logical channel carries RTP (index 0 or 2)
	ValidRTP bool   // payload starts with a well-formed RTP header
	Mapped   bool   // wire channel is in the channels table

	Shape string // distinguishing key (sizes/flags, no random bytes)
}

var c14Methods = []string{"OPTIONS", "DESCRIBE", "ANNOUNCE", "SETUP", "PLAY", "PAUSE", "TEARDOWN",
	"GET_PARAMETER", "SET_PARAMETER", "RECORD", "REDIRECT"}

// status codes of the table in response.go (numbers only; the reason phrases used by the
// reference encoder are RFC 2326's, ipchub's own phrases are never consulted).
var c14Codes = []int{100, 200, 201, 250, 300, 301, 302, 303, 304, 305, 400, 401, 402, 403, 404, 405, 406, 407, 408,
	410, 411, 412, 413, 414, 415, 451, 452, 453, 454, 455, 456, 457, 458, 459, 460, 461, 462, 500, 501, 502, 503, 504, 505, 551}

var c14Reasons = []string{"OK", "Not Found", "Unauthorized", "Session Not Found", "Method Not Valid in This State",
	"Option not supported", "Low on Storage Space", "X", "Moved Temporarily", "Really Long Reason Phrase With: colon, comma; and = signs"}

// header names the server / pull client emit or consume (RFC 2326 spelling).
var c14Known = []string{"CSeq", "Session", "Transport", "Content-Type", "Content-Base", "Public", "Range", "Require",
	"Accept", "User-Agent", "Authorization", "WWW-Authenticate", "RTP-Info", "Server", "Date", "Cache-Control",
	"Expires", "Scale", "Speed", "Bandwidth", "Blocksize", "Content-Encoding", "Content-Language", "Allow", "Via"}

var c14KnownFold = func() map[string]string {
	m := map[string]string{}
	for _, k := range c14Known {
		m[strings.ToLower(k)] = k
	}
	return m
}()

var c14Unknown = []string{"X-Custom", "x-lower-only", "X_Under_Score", "Foo", "x-Accept-Dynamic-Rate", "Location", "Timestamp"}

func c14FoldSpelling(rng *rand.Rand, name string) (string, string) {
	switch rng.Intn(5) {
	case 0:
		return strings.ToLower(name), "lower"
	case 1:
		return strings.ToUpper(name), "upper"
	case 2:
		b := []byte(name)
		for i := range b {
			if rng.Intn(2) == 0 {
				b[i] = strings.ToUpper(string(b[i]))[0]
			} else {
				b[i] = strings.ToLower(string(b[i]))[0]
			}
		}
		return string(b), "mixed"
	}
	return name, "canon"
}

func c14Token(rng *rand.Rand, n int) string {
	const al = "abcdefghijklmnopqrstuvwxyzABCDEFGHIJKLMNOPQRSTUVWXYZ0123456789"
	b := make([]byte, n)
	for i := range b {
		b[i] = al[rng.Intn(len(al))]
	}
	return string(b)
}

// c14Value produces one header value (no CR/LF, no outer whitespace unless cls says so).
func c14Value(rng *rand.Rand, name string) (string, string) {
	switch strings.ToLower(name) {
	case "cseq":
		return strconv.Itoa(rng.Intn(100000)), "num"
	case "session":
		if rng.Intn(2) == 0 {
			return c14Token(rng, 8+rng.Intn(24)), "tok"
		}
		return c14Token(rng, 12) + ";timeout=" + strconv.Itoa(1+rng.Intn(120)), "param"
	case "transport":
		a := rng.Intn(250)
		return fmt.Sprintf("RTP/AVP/TCP;unicast;interleaved=%d-%d;mode=record;ssrc=%08X", a, a+1, rng.Uint32()), "param"
	case "content-type", "accept":
		return "application/sdp", "tok"
	case "authorization":
		return fmt.Sprintf(`Digest username="admin", realm="IP Camera(%d)", nonce="%s", uri="rtsp://h:554/a?b=c", response="%s"`,
			rng.Intn(99999), c14Token(rng, 32), c14Token(rng, 32)), "quoted"
	case "www-authenticate":
		return fmt.Sprintf(`Digest realm="ipchub 摄像头",nonce="%s"`, c14Token(rng, 32)), "quoted-utf8"
	case "rtp-info":
		return fmt.Sprintf("url=rtsp://h/p/trackID=0;seq=%d;rtptime=%d,url=rtsp://h/p/trackID=1;seq=1;rtptime=2", rng.Intn(65536), rng.Uint32()), "param"
	case "range":
		return "npt=0.000-", "tok"
	case "date", "expires":
		return "Wed, 23 Sep 2026 00:00:00 GMT", "date"
	}
	switch rng.Intn(9) {
	case 0:
		return "", "empty"
	case 1:
		return c14Token(rng, 1), "one"
	case 2:
		return "a:b: c::", "colons"
	case 3:
		return "two  spaces\tand tab", "inner-ws"
	case 4:
		return "héllo wörld ✓", "utf8"
	case 5:
		n := []int{100, 1000, 4090, 4096, 5000, 10000}[rng.Intn(6)]
		return c14Token(rng, n), "long" + strconv.Itoa(n)
	case 6:
		return "  padded  ", "outer-ws"
	case 7:
		return "$RTSP/1.0 200 OK", "lookalike"
	}
	return c14Token(rng, 3+rng.Intn(30)), "tok"
}

func c14Fields(rng *rand.Rand) ([]c14Field, string) {
	n := rng.Intn(7)
	seen := map[string]bool{"content-length": true}
	var out []c14Field
	spell := map[string]bool{}
	vcls := map[string]bool{}
	multi, block := 0, 0
	// CSeq is always there (the server copies it, the client counts it)
	names := []string{"CSeq"}
	for i := 0; i < n; i++ {
		if rng.Intn(4) == 0 {
			names = append(names, c14Unknown[rng.Intn(len(c14Unknown))])
		} else {
			names = append(names, c14Known[rng.Intn(len(c14Known))])
		}
	}
	for _, nm := range names {
		if seen[strings.ToLower(nm)] {
			continue
		}
		seen[strings.ToLower(nm)] = true
		sp, scls := nm, "asis"
		if _, ok := c14KnownFold[strings.ToLower(nm)]; ok {
			sp, scls = c14FoldSpelling(rng, nm)
		}
		spell[scls] = true
		nv := 1
		if rng.Intn(4) == 0 {
			nv = 2 + rng.Intn(3)
			multi++
		}
		f := c14Field{Name: sp}
		line := 0
		for k := 0; k < nv; k++ {
			var v, cls string
			if strings.EqualFold(nm, "public") || strings.EqualFold(nm, "allow") {
				v, cls = c14Methods[rng.Intn(len(c14Methods))], "method"
			} else {
				v, cls = c14Value(rng, nm)
			}
			// the grammar stays clear of any sane length limit: a header line <= 12 KiB, a header block <= 24 KiB
			if room := minInt(c14MaxLine-line, c14MaxBlock-block); len(v) > room {
				v, cls = c14Token(rng, maxInt(room, 1)), "clipped"
			}
			line += len(v) + 2
			block += len(v) + 2
			vcls[cls] = true
			f.Values = append(f.Values, v)
		}
		block += len(sp) + 4
		out = append(out, f)
	}
	return out, fmt.Sprintf("nf%d/multi%d/sp%s/v%s", len(out), multi, c14Keys(spell), c14Keys(vcls))
}

const (
	c14MaxLine  = 12 << 10
	c14MaxBlock = 24 << 10
)

func minInt(a, b int) int {
	if a < b {
		return a
	}
	return b
}

func c14Keys(m map[string]bool) string {
	var ks []string
	for k := range m {
		ks = append(ks, k)
	}
	sort.Strings(ks)
	return strings.Join(ks, "+")
}

var c14Hosts = []struct{ h, cls string }{
	{"example.com", "dns"}, {"cam1", "short"}, {"192.168.1.10", "v4"}, {"[::1]", "v6"}, {"[2001:db8::8a2e:370:7334]", "v6"},
	{"[fe80::1%25eth0]", "v6zone"}, {"a-b.c_d.local", "dns"}, {"127.0.0.1", "v4"},
}
var c14Ports = []struct{ p, cls string }{{"", "noport"}, {"", "noport"}, {":554", "port"}, {":8554", "port"}, {":65535", "port"}, {":", "emptyport"}}
var c14Users = []struct{ u, cls string }{{"", "nouser"}, {"", "nouser"}, {"admin@", "user"}, {"admin:12345@", "userpw"},
	{"u%40x:p%3A%2F%3F@", "userpw-esc"}, {"user:@", "user-emptypw"}}
var c14Paths = []struct{ p, cls string }{{"", "nopath"}, {"/", "root"}, {"/live", "p1"}, {"/live/stream1", "p2"},
	{"/a/b/c/trackID=1", "ctl"}, {"/streamid=0", "ctl"}, {"/with%20space", "pct"}, {"/中文/流", "utf8"}, {"/a;b=c", "semi"},
	{"/a//b/", "dslash"}, {"/a%2Fb", "pct2f"}, {"/~u/x.sdp", "tilde"}, {"/h264/ch1/main/av_stream", "p4"}}
var c14Queries = []struct{ q, cls string }{{"", "noq"}, {"", "noq"}, {"?token=abc", "q1"}, {"?a=1&b=2", "q2"}, {"?x=%3D%26", "qpct"},
	{"?", "qempty"}, {"?q=a+b", "qplus"}, {"?url=rtsp://x/y?z", "qurl"}}

// c14URL returns the emitter's wire form, the accepted alternative, and the class key.
func c14URL(rng *rand.Rand, method string) (string, string, string) {
	if method == "OPTIONS" && rng.Intn(4) == 0 {
		return "*", "", "star"
	}
	h := c14Hosts[rng.Intn(len(c14Hosts))]
	p := c14Ports[rng.Intn(len(c14Ports))]
	u := c14Users[rng.Intn(len(c14Users))]
	pa := c14Paths[rng.Intn(len(c14Paths))]
	q := c14Queries[rng.Intn(len(c14Queries))]
	raw := "rtsp://" + u.u + h.h + p.p + pa.p + q.q
	pu, err := url.Parse(raw)
	if err != nil {
		return "rtsp://example.com/fallback", "", "fallback"
	}
	alt := ""
	if p.cls == "emptyport" {
		if pu2, err := url.Parse("rtsp://" + u.u + h.h + pa.p + q.q); err == nil {
			alt = pu2.String()
		}
	}
	return pu.String(), alt, strings.Join([]string{h.cls, p.cls, u.cls, pa.cls, q.cls}, ".")
}

var c14BodySizes = [][2]int{{0, 0}, {1, 15}, {16, 300}, {301, 5000}, {5001, 65536}}

func c14Size(rng *rand.Rand, big bool) (int, string) {
	if rng.Intn(12) == 0 {
		edge := []int{1, 2, 4, 12, 15, 16, 17, 4095, 4096, 4097, 65535, 65536}
		if !big {
			edge = edge[:10]
		}
		n := edge[rng.Intn(len(edge))]
		return n, "edge" + strconv.Itoa(n)
	}
	w := []int{3, 2, 4, 3, 1}
	if !big {
		w[4] = 0
		w[3] = 1
	}
	t := 0
	for _, x := range w {
		t += x
	}
	r := rng.Intn(t)
	ci := 0
	for i, x := range w {
		if r < x {
			ci = i
			break
		}
		r -= x
	}
	lo, hi := c14BodySizes[ci][0], c14BodySizes[ci][1]
	return lo + rng.Intn(hi-lo+1), "c" + strconv.Itoa(ci)
}

func c14Body(rng *rand.Rand, n int) (string, string) {
	if n == 0 {
		return "", "none"
	}
	b := make([]byte, 0, n)
	kind := rng.Intn(4)
	cls := ""
	switch kind {
	case 0:
		cls = "sdp"
		sdp := fmt.Sprintf("v=0\r\no=- %d 1 IN IP4 127.0.0.1\r\ns=Stream\r\nc=IN IP4 0.0.0.0\r\nt=0 0\r\nm=video 0 RTP/AVP 96\r\na=rtpmap:96 H264/90000\r\na=fmtp:96 packetization-mode=1; sprop-parameter-sets=%s,%s\r\na=control:trackID=0\r\nm=audio 0 RTP/AVP 97\r\na=rtpmap:97 MPEG4-GENERIC/44100/2\r\na=control:trackID=1\r\n",
			rng.Int63(), c14Token(rng, 24), c14Token(rng, 8))
		for len(b) < n {
			b = append(b, sdp...)
		}
	case 1:
		cls = "bytes"
		b = b[:n]
		rng.Read(b)
	case 2:
		cls = "crlf-lookalike"
		parts := []string{"\r\n", "\r\n\r\n", "RTSP/1.0 200 OK\r\n", "$\x00\x00\x04", "Content-Length: 99\r\n", "\n", "\r", "OPTIONS * RTSP/1.0\r\n\r\n", "\x00", "x"}
		for len(b) < n {
			b = append(b, parts[rng.Intn(len(parts))]...)
		}
	default:
		cls = "text"
		for len(b) < n {
			b = append(b, c14Token(rng, 1+rng.Intn(40))...)
			b = append(b, ' ')
		}
	}
	return string(b[:n]), cls
}

func c14GenRequest(rng *rand.Rand, big bool) *c14Item {
	m := &c14Item{Kind: "request"}
	m.Method = c14Methods[rng.Intn(len(c14Methods))]
	var ucls, fcls, bcls, scls string
	m.URL, m.URLAlt, ucls = c14URL(rng, m.Method)
	m.Fields, fcls = c14Fields(rng)
	n := 0
	if rng.Intn(3) == 0 || m.Method == "ANNOUNCE" || m.Method == "SET_PARAMETER" {
		n, scls = c14Size(rng, big)
	}
	m.Body, bcls = c14Body(rng, n)
	m.EmitCL = n > 0
	m.Shape = fmt.Sprintf("req/%s/%s/%s/body-%s-%s", m.Method, ucls, fcls, bcls, scls)
	return m
}

func c14GenResponse(rng *rand.Rand, big bool) *c14Item {
	m := &c14Item{Kind: "response"}
	m.Code = c14Codes[rng.Intn(len(c14Codes))]
	var fcls, bcls, scls string
	m.Fields, fcls = c14Fields(rng)
	n := 0
	if rng.Intn(3) == 0 {
		n, scls = c14Size(rng, big)
	}
	m.Body, bcls = c14Body(rng, n)
	m.EmitCL = n > 0
	m.Shape = fmt.Sprintf("resp/%d/%s/body-%s-%s", m.Code, fcls, bcls, scls)
	return m
}

// c14RTP builds a well-formed RTP packet of exactly total (>=12) bytes: version 2, optional CSRCs,
// optional header extension that fits.
func c14RTP(rng *rand.Rand, total int) ([]byte, string) {
	b := make([]byte, total)
	rng.Read(b)
	cc := 0
	if rng.Intn(4) == 0 {
		cc = rng.Intn(16)
		if 12+4*cc > total {
			cc = (total - 12) / 4
		}
	}
	b[0] = 0x80 | byte(cc)
	cls := "cc" + strconv.Itoa(cc)
	off := 12 + 4*cc
	if rng.Intn(5) == 0 && total >= off+4 {
		words := rng.Intn(4)
		if off+4+4*words > total {
			words = (total - off - 4) / 4
		}
		b[0] |= 0x10
		switch rng.Intn(3) {
		case 0: // RFC 3550 generic profile
			binary.BigEndian.PutUint16(b[off:], 0xABAC)
			cls += "/xgen"
		case 1: // RFC 8285 one-byte, all padding
			binary.BigEndian.PutUint16(b[off:], 0xBEDE)
			for i := 0; i < 4*words; i++ {
				b[off+4+i] = 0
			}
			cls += "/xbede-pad"
		default: // RFC 8285 one-byte, one element filling the block exactly
			binary.BigEndian.PutUint16(b[off:], 0xBEDE)
			if words > 0 {
				b[off+4] = 0x10 | byte(4*words-2)
			}
			cls += "/xbede-el"
		}
		binary.BigEndian.PutUint16(b[off+2:], uint16(words))
		cls += strconv.Itoa(words)
	}
	if rng.Intn(8) == 0 {
		b[0] |= 0x20 // padding bit; trailing pad count stays random (header parsing ignores it)
		cls += "/p"
	}
	return b, cls
}

// c14Channels returns a channels table with distinct wire channels.
func c14Channels(rng *rand.Rand) []int {
	switch rng.Intn(4) {
	case 0:
		return []int{0, 1, 2, 3}
	case 1:
		return []int{2, 3, 0, 1}
	}
	p := rng.Perm(256)
	return []int{p[0], p[1], p[2], p[3]}
}

// c14GenFrame makes a frame for table ch. want: 0 deliverable, 1 media frame with broken RTP header,
// 2 unmapped channel.
func c14GenFrame(rng *rand.Rand, ch []int, want int, big bool) *c14Item {
	m := &c14Item{Kind: "frame", Mapped: true}
	n, scls := c14Size(rng, big)
	if n > 65535 {
		n = 65535
	}
	switch want {
	case 2:
		used := map[int]bool{}
		for _, v := range ch {
			used[v] = true
		}
		w := rng.Intn(256)
		for used[w] {
			w = (w + 1) % 256
		}
		m.Wire, m.ChIdx, m.Mapped = w, -1, false
		m.Data = make([]byte, n)
		rng.Read(m.Data)
		m.Shape = "frame/unmapped/" + scls
	case 1:
		m.ChIdx = []int{0, 2}[rng.Intn(2)]
		m.Wire, m.Media = ch[m.ChIdx], true
		var cls string
		switch rng.Intn(3) {
		case 0: // shorter than an RTP header
			m.Data = make([]byte, rng.Intn(12))
			rng.Read(m.Data)
			cls = "short" + strconv.Itoa(len(m.Data))
		case 1: // CSRC count exceeds the packet
			m.Data = make([]byte, 12+rng.Intn(8))
			rng.Read(m.Data)
			m.Data[0] = 0x80 | 0x0f
			cls = "cc-overrun"
		default: // extension length exceeds the packet (generic profile: a plain length check)
			m.Data = make([]byte, 16+rng.Intn(8))
			rng.Read(m.Data)
			m.Data[0] = 0x90
			binary.BigEndian.PutUint16(m.Data[12:], 0x0101)
			binary.BigEndian.PutUint16(m.Data[14:], 0x4000)
			cls = "ext-overrun"
		}
		m.Shape = "frame/bad-rtp/" + cls
	default:
		m.ChIdx = rng.Intn(4)
		m.Wire = ch[m.ChIdx]
		m.Media = m.ChIdx == 0 || m.ChIdx == 2
		if m.Media {
			if n < 12 {
				n = 12
			}
			var cls string
			m.Data, cls = c14RTP(rng, n)
			m.ValidRTP = true
			m.Shape = fmt.Sprintf("frame/media%d/%s/%s", m.ChIdx, scls, cls)
		} else {
			m.Data = make([]byte, n)
			rng.Read(m.Data)
			if n > 0 && rng.Intn(3) == 0 {
				m.Data[0] = '$' // payload that looks like a frame start
			}
			m.Shape = fmt.Sprintf("frame/ctl%d/%s", m.ChIdx, scls)
		}
	}
	return m
}

// c14Encode is the reference wire encoder. plain=true writes the shape ipchub's own writer is
// specified to produce (canonical names kept as spelled, one line per field, values joined with ", ");
// plain=false varies what a peer may legally vary: whitespace after the colon, repeated lines for
// multi-valued fields, position and case of Content-Length.
func c14Encode(m *c14Item, rng *rand.Rand, plain bool) []byte {
	if m.Kind == "frame" {
		b := make([]byte, 4+len(m.Data))
		b[0] = '$'
		b[1] = byte(m.Wire)
		b[2] = byte(len(m.Data) >> 8)
		b[3] = byte(len(m.Data))
		copy(b[4:], m.Data)
		return b
	}
	var sb strings.Builder
	if m.Kind == "request" {
		sb.WriteString(m.Method + " " + m.URL + " RTSP/1.0\r\n")
	} else {
		sb.WriteString("RTSP/1.0 " + strconv.Itoa(m.Code) + " " + m.Reason + "\r\n")
	}
	var lines []string
	sep := func() string {
		if plain {
			return ": "
		}
		return []string{": ", ":", ":  ", ":\t", ": "}[rng.Intn(5)]
	}
	for _, f := range m.Fields {
		vs := make([]string, len(f.Values))
		for i, v := range f.Values {
			vs[i] = strings.TrimSpace(v) // a peer emits clean values; outer whitespace comes from sep()
		}
		if !plain && len(vs) > 1 && rng.Intn(2) == 0 {
			for _, v := range vs {
				lines = append(lines, f.Name+sep()+v)
			}
			continue
		}
		lines = append(lines, f.Name+sep()+strings.Join(vs, ", "))
	}
	if m.EmitCL {
		name := "Content-Length"
		if !plain {
			name, _ = c14FoldSpelling(rng, name)
		}
		cl := name + sep() + strconv.Itoa(len(m.Body))
		if plain || len(lines) == 0 {
			lines = append(lines, cl)
		} else {
			at := rng.Intn(len(lines) + 1)
			lines = append(lines[:at], append([]string{cl}, lines[at:]...)...)
		}
	}
	for _, l := range lines {
		sb.WriteString(l)
		sb.WriteString("\r\n")
	}
	sb.WriteString("\r\n")
	sb.WriteString(m.Body)
	return []byte(sb.String())
}

// c14ExpFields returns fold(name) -> joined value expected after parsing m.
func c14ExpFields(m *c14Item) map[string]string {
	exp := map[string]string{}
	for _, f := range m.Fields {
		vs := make([]string, len(f.Values))
		for i, v := range f.Values {
			vs[i] = strings.TrimSpace(v) // Header.Add/Set trims each value before it is stored
		}
		exp[strings.ToLower(f.Name)] = strings.TrimSpace(strings.Join(vs, ", "))
	}
	if m.EmitCL {
		exp["content-length"] = strconv.Itoa(len(m.Body))
	} else {
		delete(exp, "content-length")
	}
	return exp
}

// c14RefParsed is what the reference decoder extracts from wire bytes.
type c14RefParsed struct {
	Kind   string
	Method string
	URL    string
	Code   int
	Reason string
	Fields map[string]string // fold(name) -> values of all lines joined with ", "
	Body   string
	Used   int
}

// c14RefDecode is the independent decoder used to check ipchub's writers (and to attribute a
// round-trip difference to the writer or the reader). It accepts exactly the CRLF grammar.
func c14RefDecode(w []byte) (*c14RefParsed, error) {
	s := string(w)
	if len(s) >= 4 && s[0] == '$' {
		n := int(s[2])<<8 | int(s[3])
		if len(s) < 4+n {
			return nil, io.ErrUnexpectedEOF
		}
		return &c14RefParsed{Kind: "frame", Code: int(s[1]), Body: s[4 : 4+n], Used: 4 + n}, nil
	}
	he := strings.Index(s, "\r\n\r\n")
	if he < 0 {
		return nil, fmt.Errorf("no end of header block")
	}
	lines := strings.Split(s[:he], "\r\n")
	p := &c14RefParsed{Fields: map[string]string{}}
	first := lines[0]
	if strings.HasPrefix(first, "RTSP/1.0 ") {
		p.Kind = "response"
		rest := first[len("RTSP/1.0 "):]
		if len(rest) < 4 || rest[3] != ' ' {
			return nil, fmt.Errorf("bad status line %q", first)
		}
		c, err := strconv.Atoi(rest[:3])
		if err != nil {
			return nil, err
		}
		p.Code, p.Reason = c, rest[4:]
	} else {
		p.Kind = "request"
		a := strings.IndexByte(first, ' ')
		b := strings.LastIndexByte(first, ' ')
		if a < 0 || b <= a || first[b+1:] != "RTSP/1.0" {
			return nil, fmt.Errorf("bad request line %q", first)
		}
		p.Method, p.URL = first[:a], first[a+1:b]
	}
	for _, l := range lines[1:] {
		i := strings.IndexByte(l, ':')
		if i < 0 {
			return nil, fmt.Errorf("header line without colon %q", l)
		}
		k := strings.ToLower(strings.TrimSpace(l[:i]))
		v := strings.TrimSpace(l[i+1:])
		if old, ok := p.Fields[k]; ok {
			p.Fields[k] = old + ", " + v
		} else {
			p.Fields[k] = v
		}
	}
	p.Used = he + 4
	if cl, ok := p.Fields["content-length"]; ok {
		n, err := strconv.Atoi(cl)
		if err != nil || n < 0 {
			return nil, fmt.Errorf("bad content-length %q", cl)
		}
		if len(s) < p.Used+n {
			return nil, io.ErrUnexpectedEOF
		}
		p.Body = s[p.Used : p.Used+n]
		p.Used += n
	}
	return p, nil
}

// c14Src hands out the stream in chunks of 1..maxK bytes per Read call.
type c14Src struct {
	data []byte
	pos  int
	maxK int
	rng  *rand.Rand
}

func (s *c14Src) Read(p []byte) (int, error) {
	if s.pos >= len(s.data) {
		return 0, io.EOF
	}
	n := 1
	if s.maxK > 1 {
		n = 1 + s.rng.Intn(s.maxK)
	}
	if n > len(p) {
		n = len(p)
	}
	if n > len(s.data)-s.pos {
		n = len(s.data) - s.pos
	}
	copy(p, s.data[s.pos:s.pos+n])
	s.pos += n
	return n, nil
}

var c14BufSizes = []int{16, 17, 64, 512, 4096, 4096, 65536}
var c14Ks = []int{1, 1, 2, 3, 7, 16, 100, 1500, 1 << 20}

func c14KClass(k int) string {
	switch {
	case k == 1:
		return "k1"
	case k <= 16:
		return "k<=16"
	case k <= 1500:
		return "k<=1500"
	}
	return "kbig"
}

func c14FirstDiff(a, b string) int {
	n := len(a)
	if len(b) < n {
		n = len(b)
	}
	for i := 0; i < n; i++ {
		if a[i] != b[i] {
			return i
		}
	}
	if len(a) != len(b) {
		return n
	}
	return -1
}

func c14Clip(s string, n int) string {
	if len(s) <= n {
		return s
	}
	return s[:n] + fmt.Sprintf("...(+%d bytes)", len(s)-n)
}
