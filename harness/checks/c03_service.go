package checks

import (
	"fmt"
	"io"
	"net"
	"net/http"
	"strings"
	"sync/atomic"
	"time"

	"verifharness/kit"

	"github.com/cnotch/ipchub/media"
	"github.com/gorilla/websocket"
)

// C03, service-level part: real clients on every transport are attached to a stream fed by a real RECORD
// publisher; the stream then ends for each reason (publisher disconnect, replacement by a new publisher followed
// by the old publisher's disconnect, administrative DELETE, UnregistAll as on shutdown). Every client must see
// its connection closed; the per-protocol active-connection counters, the stream's consumer count and the
// registry must be back to their prior values.

type c03client struct {
	name  string
	ended chan struct{} // closed when the client observed the end of its connection
	got   chan struct{} // closed when the client received media
	rx    int64         // media items received so far (atomic)
	close func()
}

func c03Attach(srv *kit.Server, path, kind string) (*c03client, error) {
	cl := &c03client{name: kind, ended: make(chan struct{}), got: make(chan struct{})}
	gotOnce := false
	markGot := func() {
		atomic.AddInt64(&cl.rx, 1)
		if !gotOnce {
			gotOnce = true
			close(cl.got)
		}
	}
	switch kind {
	case "rtsp-tcp", "ws-rtsp", "rtsp-udp":
		var rc *kit.RTSPClient
		var err error
		if kind == "ws-rtsp" {
			rc, _, err = kit.DialRTSPWebSocket(srv.Addr, path, "")
		} else {
			rc, err = kit.DialRTSP(srv.Addr)
		}
		if err != nil {
			return nil, err
		}
		var us *net.UDPConn
		if kind == "rtsp-udp" {
			us, _ = net.ListenUDP("udp", &net.UDPAddr{IP: net.IPv4(127, 0, 0, 1)})
			base := srv.URL(path)
			for _, st := range [][3]string{{"DESCRIBE", base, ""}, {"SETUP", base + "/streamid=0", fmt.Sprintf("RTP/AVP;unicast;client_port=%d-%d", us.LocalAddr().(*net.UDPAddr).Port, us.LocalAddr().(*net.UDPAddr).Port+1)}, {"PLAY", base, ""}} {
				h := map[string]string{}
				if st[2] != "" {
					h["Transport"] = st[2]
				}
				if r, err := rc.Do(st[0], st[1], h, ""); err != nil || r.Code != 200 {
					rc.Close()
					return nil, fmt.Errorf("udp handshake %s", st[0])
				}
			}
			go func() {
				buf := make([]byte, 65536)
				for {
					us.SetReadDeadline(time.Now().Add(120 * time.Second))
					n, _, err := us.ReadFromUDP(buf)
					if err != nil {
						return
					}
					if n > 0 {
						markGot()
					}
				}
			}()
		} else if _, err := rc.Play(srv.URL(path), 0, 2); err != nil {
			rc.Close()
			return nil, err
		}
		cl.close = func() {
			rc.Close()
			if us != nil {
				us.Close()
			}
		}
		go func() {
			defer close(cl.ended)
			for {
				it, err := rc.Next(120 * time.Second)
				if err != nil {
					return
				}
				if it.Frame != nil && kind != "rtsp-udp" {
					markGot()
				}
			}
		}()
	case "multicast", "multicast-2":
		// a multicast member: only its RTSP session is observed (closed by the server when the stream ends); the
		// datagrams themselves are C01's subject
		rc, err := kit.DialRTSP(srv.Addr)
		if err != nil {
			return nil, err
		}
		base := srv.URL(path)
		for _, st := range [][3]string{{"DESCRIBE", base, ""}, {"SETUP", base + "/streamid=0", "RTP/AVP;multicast"}, {"PLAY", base, ""}} {
			h := map[string]string{}
			if st[2] != "" {
				h["Transport"] = st[2]
			}
			if r, err := rc.Do(st[0], st[1], h, ""); err != nil || r.Code != 200 {
				rc.Close()
				return nil, fmt.Errorf("multicast handshake %s", st[0])
			}
		}
		markGot()
		cl.close = func() { rc.Close() }
		go func() {
			defer close(cl.ended)
			for {
				if _, err := rc.Next(10 * time.Minute); err != nil {
					return
				}
			}
		}()
	case "wsp":
		w, err := wspDial(srv.Addr, path)
		if err != nil {
			return nil, err
		}
		rc := &kit.RTSPClient{}
		base := srv.URL(path)
		for _, st := range [][3]string{{"DESCRIBE", base, ""}, {"SETUP", base + "/streamid=0", "RTP/AVP/TCP;unicast;interleaved=0-1"}, {"PLAY", base, ""}} {
			h := map[string]string{}
			if st[2] != "" {
				h["Transport"] = st[2]
			}
			if r, _, err := w.wrap(rc.BuildRequest(st[0], st[1], h, "")); err != nil || r.Code != 200 {
				w.close()
				return nil, fmt.Errorf("wsp handshake %s", st[0])
			}
		}
		cl.close = w.close
		go func() {
			defer close(cl.ended)
			// both channels must be closed by the server
			dataDone := make(chan struct{})
			go func() {
				defer close(dataDone)
				for {
					w.data.SetReadDeadline(time.Now().Add(120 * time.Second))
					if _, _, err := w.data.ReadMessage(); err != nil {
						return
					}
					markGot()
				}
			}()
			for {
				w.ctl.SetReadDeadline(time.Now().Add(120 * time.Second))
				if _, _, err := w.ctl.ReadMessage(); err != nil {
					break
				}
			}
			<-dataDone
		}()
	case "http-flv":
		resp, err := http.Get("http://" + srv.Addr + "/streams" + path + ".flv")
		if err != nil {
			return nil, err
		}
		if resp.StatusCode != 200 {
			resp.Body.Close()
			return nil, fmt.Errorf("http %d", resp.StatusCode)
		}
		cl.close = func() { resp.Body.Close() }
		go func() {
			defer close(cl.ended)
			buf := make([]byte, 512)
			n := 0
			for {
				k, err := resp.Body.Read(buf)
				n += k
				if n > 64 {
					markGot()
				}
				if err != nil {
					return
				}
			}
		}()
	case "ws-flv":
		d := websocket.Dialer{HandshakeTimeout: 60 * time.Second}
		ws, _, err := d.Dial("ws://"+srv.Addr+"/streams"+path+".flv", nil)
		if err != nil {
			return nil, err
		}
		cl.close = func() { ws.Close() }
		go func() {
			defer close(cl.ended)
			k := 0
			for {
				ws.SetReadDeadline(time.Now().Add(120 * time.Second))
				if _, _, err := ws.ReadMessage(); err != nil {
					return
				}
				k++
				if k > 2 {
					markGot()
				}
			}
		}()
	}
	return cl, nil
}

// c03ReplacedClientStops: a stream is displaced by a second publisher on the same path but stays alive (its publisher is
// still connected, consumers attached). Consumers of the OLD stream then stop one by one: each must be released from
// the old stream (count back to zero) and stopping them must not touch the consumers of the NEW stream.
func c03ReplacedClientStops(c *kit.Ctx, srv *kit.Server, n int) {
	path := fmt.Sprintf("/c03svc/r%d-%d", c.Shard, n)
	scen := "service/replaced-then-old-consumers-stop"
	c.Pre("C03 " + scen)
	base := kit.Snapshot()
	pub1, _, err := kit.StartPublisher(srv, path, "", "", false, 2*time.Millisecond)
	if err != nil {
		c.Inconclusive("service part: publisher: " + err.Error())
		return
	}
	defer pub1.Stop()
	waitUntil(func() bool { return media.Get(path) != nil }, 5*time.Second)
	s1 := media.Get(path)
	if s1 == nil {
		c.Inconclusive("service part: stream did not appear")
		return
	}
	kinds := []string{"rtsp-tcp", "ws-rtsp", "wsp", "http-flv", "ws-flv", "rtsp-udp"}
	var olds []*c03client
	for _, k := range kinds {
		cl, err := c03Attach(srv, path, k)
		if err != nil {
			c.Inconclusive("service part: attach " + k + ": " + err.Error())
			continue
		}
		olds = append(olds, cl)
	}
	defer func() {
		for _, cl := range olds {
			cl.close()
		}
	}()
	for _, cl := range olds {
		select {
		case <-cl.got:
		case <-time.After(60 * time.Second):
			c.Inconclusive("service part: no media on " + cl.name)
			return
		}
	}
	pub2, _, err := kit.StartPublisher(srv, path, "", "", false, 2*time.Millisecond)
	if err != nil {
		c.Inconclusive("service part: second publisher: " + err.Error())
		return
	}
	defer pub2.Stop()
	if !waitUntil(func() bool { g := media.Get(path); return g != nil && g != s1 }, 10*time.Second) {
		c.Inconclusive("service part: second publisher did not displace the first")
		return
	}
	s2 := media.Get(path)
	// consumers of the new stream, one per consumer list, attached in the same order so that their ids coincide with old ones
	var news []*c03client
	for _, k := range []string{"rtsp-tcp", "http-flv"} {
		cl, err := c03Attach(srv, path, k)
		if err != nil {
			c.Inconclusive("service part: attach to new stream " + k + ": " + err.Error())
			return
		}
		news = append(news, cl)
	}
	defer func() {
		for _, cl := range news {
			cl.close()
		}
	}()
	for _, cl := range news {
		select {
		case <-cl.got:
		case <-time.After(60 * time.Second):
			c.Inconclusive("service part: no media on new-stream " + cl.name)
			return
		}
	}
	detail := map[string]interface{}{"scenario": scen, "old_consumers_before": s1.ConsumerCount(), "new_consumers_before": s2.ConsumerCount()}
	if s1.ConsumerCount() != len(olds) || s2.ConsumerCount() != len(news) {
		c.Inconclusive(fmt.Sprintf("service part: unexpected consumer counts before the stops: old %d/%d new %d/%d", s1.ConsumerCount(), len(olds), s2.ConsumerCount(), len(news)))
		return
	}
	c.Eval(1)
	c.Distinct(scen)
	for i, cl := range olds {
		cl.close()
		want := len(olds) - i - 1
		if !waitUntil(func() bool { return s1.ConsumerCount() <= want }, 8*time.Second) {
			detail["stopped"], detail["old_consumers_now"], detail["want"] = cl.name, s1.ConsumerCount(), want
			c.Violation("C03:service:stopped-consumer-still-attached-to-displaced-stream:"+cl.name, detail)
			break
		}
		c.SetAdd("service_old_consumers_released_after_replacement", cl.name)
	}
	// the new stream's consumers are untouched: still attached, still receiving
	marks := make([]int64, len(news))
	for i, cl := range news {
		marks[i] = atomic.LoadInt64(&cl.rx)
	}
	for i, cl := range news {
		i, cl := i, cl
		alive := waitUntil(func() bool {
			select {
			case <-cl.ended:
				return true
			default:
			}
			return atomic.LoadInt64(&cl.rx) > marks[i]+5
		}, 8*time.Second)
		ended := false
		select {
		case <-cl.ended:
			ended = true
		default:
		}
		if ended || !alive || s2.ConsumerCount() != len(news) {
			detail["new_consumer"], detail["ended"], detail["new_consumers_now"] = cl.name, ended, s2.ConsumerCount()
			c.Violation("C03:service:stopping-old-consumers-disturbed-consumer-of-new-stream:"+cl.name, detail)
			break
		}
	}
	pub1.Stop()
	pub2.Stop()
	for _, cl := range news {
		cl.close()
	}
	if !waitUntil(func() bool {
		k := kit.Snapshot()
		return k.Rtsp == base.Rtsp && k.Flv == base.Flv && k.Wsp == base.Wsp && media.Get(path) == nil && s1.ConsumerCount() == 0 && s2.ConsumerCount() == 0
	}, 8*time.Second) {
		detail["after"] = kit.Snapshot().String()
		c.Violation("C03:service:not-back-to-baseline:replaced-then-old-consumers-stop", detail)
	}
}

func c03RunService(c *kit.Ctx) {
	srv := kit.StartServer(false, false, 0)
	admin, _, code := srv.Login("admin", "admin")
	if code != 200 {
		c.Inconclusive("service part: admin login failed")
		return
	}
	kinds := []string{"rtsp-tcp", "ws-rtsp", "wsp", "http-flv", "ws-flv", "rtsp-udp", "multicast", "multicast-2"}
	ends := []string{"publisher-disconnect", "replaced-then-old-publisher-disconnect", "rest-delete", "unregist-all"}
	n := 0
	for rep := 0; rep < c.Pick(1, 10); rep++ {
		n++
		if c.Mine(n) {
			c03ReplacedClientStops(c, srv, n)
		}
		for _, end := range ends {
			n++
			if !c.Mine(n) {
				continue
			}
			path := fmt.Sprintf("/c03svc/s%d-%d", c.Shard, n)
			scen := "service/" + end
			c.Pre("C03 " + scen)
			base := kit.Snapshot()
			pub, _, err := kit.StartPublisher(srv, path, "", "", false, 2*time.Millisecond)
			if err != nil {
				c.Inconclusive("service part: publisher: " + err.Error())
				continue
			}
			waitUntil(func() bool { return media.Get(path) != nil }, 5*time.Second)
			stream := media.Get(path)
			var clients []*c03client
			for _, k := range kinds {
				cl, err := c03Attach(srv, path, k)
				if err != nil {
					c.Inconclusive("service part: attach " + k + ": " + err.Error())
					continue
				}
				clients = append(clients, cl)
			}
			// every client must actually be receiving before the stream ends
			for _, cl := range clients {
				select {
				case <-cl.got:
				case <-time.After(15 * time.Second):
					c.Inconclusive("service part: no media on " + cl.name)
				}
			}
			mid := kit.Snapshot()
			detail := map[string]interface{}{"scenario": scen, "baseline": base.String(), "while_attached": mid.String()}
			var pub2 *kit.Publisher
			switch end {
			case "publisher-disconnect":
				pub.Stop()
			case "replaced-then-old-publisher-disconnect":
				pub2, _, err = kit.StartPublisher(srv, path, "", "", false, 2*time.Millisecond)
				if err != nil {
					c.Inconclusive("service part: second publisher: " + err.Error())
				}
				time.Sleep(50 * time.Millisecond)
				pub.Stop()
			case "rest-delete":
				code, _, _ := srv.HTTP("DELETE", "/api/v1/streams"+path+"?token="+admin, "")
				detail["delete_status"] = code
			case "unregist-all":
				media.UnregistAll()
			}
			c.Eval(1)
			c.Distinct(scen)
			c.SetAdd("service_end_kinds", end)
			for _, cl := range clients {
				select {
				case <-cl.ended:
					c.SetAdd("service_clients_released", end+":"+cl.name)
				case <-time.After(10 * time.Second):
					detail["client"] = cl.name
					// state decides: is the stream really gone while the client's connection is still open?
					if stream != nil && media.VerifStatus(stream) != media.StreamOK {
						c.Violation(fmt.Sprintf("C03:service:client-connection-not-closed-after-stream-end:%s:%s", end, cl.name), detail)
					} else {
						c.Violation(fmt.Sprintf("C03:service:stream-not-ended:%s", end), detail)
					}
				}
			}
			pub.Stop()
			if pub2 != nil {
				pub2.Stop()
			}
			for _, cl := range clients {
				cl.close()
			}
			ok := waitUntil(func() bool {
				k := kit.Snapshot()
				return k.Rtsp == base.Rtsp && k.Flv == base.Flv && k.Wsp == base.Wsp && media.Get(path) == nil && (stream == nil || stream.ConsumerCount() == 0)
			}, 8*time.Second)
			if !ok {
				k := kit.Snapshot()
				detail["after"] = k.String()
				what := []string{}
				if k.Rtsp != base.Rtsp {
					what = append(what, "rtsp")
				}
				if k.Flv != base.Flv {
					what = append(what, "flv")
				}
				if k.Wsp != base.Wsp {
					what = append(what, "wsp")
				}
				if stream != nil && stream.ConsumerCount() != 0 {
					what = append(what, "consumer-count")
				}
				if media.Get(path) != nil {
					what = append(what, "registry")
				}
				c.Violation(fmt.Sprintf("C03:service:not-back-to-baseline:%s:%s", end, strings.Join(what, "+")), detail)
			}
		}
	}
	_ = io.EOF
}
