package checks

import (
	"fmt"
	"strings"
	"sync"
	"sync/atomic"
	"time"

	"verifharness/kit"

	"github.com/cnotch/ipchub/av/codec"
	"github.com/cnotch/ipchub/av/format/flv"
	"github.com/cnotch/ipchub/av/format/mpegts"
	"github.com/cnotch/ipchub/av/format/rtp"
	"github.com/cnotch/ipchub/media"
	"github.com/cnotch/xlog"
)

// C03 — every consumer is released when its stream ends or it is stopped.
//
// Core (library-level) part: forced interleavings through the hook gates of
//   stop × delivery goroutine, stream close × attach, Remove × RemoveAndCloseAll,
//   converter Close × converter goroutine,
// plus concurrent random histories with seeded perturbation. The oracle is a ledger:
// Consumer.Close exactly once for every stopped / ended consumer, ConsumerCount back to 0 and never
// negative, delivery and converter goroutines gone (enter/exit hook ledger + goroutine profile).

func init() { kit.Register("C03", runC03) }

// waitUntil: kit.WaitUntil (bound d, extended by kit.Patience before a state that decides a verdict is judged missing).
func waitUntil(cond func() bool, d time.Duration) bool { return kit.WaitUntil(cond, d) }

// parkedIn reports how many goroutines whose stack contains fn are parked in sync.Cond.Wait.
func parkedIn(fn string) int {
	n := 0
	for _, g := range kit.Goroutines() {
		if g.Has(fn) && strings.Contains(g.State, "sync.Cond.Wait") {
			n++
		}
	}
	return n
}

type c03ledger struct {
	mu    sync.Mutex
	enter map[interface{}]int
	exit  map[interface{}]int
	neg   int32 // negative ConsumerCount observations
	rules []*kit.Rule
}

func newC03Ledger() *c03ledger {
	l := &c03ledger{enter: map[interface{}]int{}, exit: map[interface{}]int{}}
	for _, n := range []string{"media.consume", "rtpdemuxer", "flvmuxer", "tsmuxer"} {
		l.rules = append(l.rules, kit.H.On(n+".enter", nil, func(_ string, a []interface{}) {
			l.mu.Lock()
			l.enter[a[0]]++
			l.mu.Unlock()
		}))
		l.rules = append(l.rules, kit.H.On(n+".exit", nil, func(_ string, a []interface{}) {
			l.mu.Lock()
			l.exit[a[0]]++
			l.mu.Unlock()
		}))
	}
	// negative-count monitor at every media hook point that carries the stream
	for _, n := range []string{"media.write.cached", "media.write.sent", "media.join.begin", "media.join.snapshotted", "media.join.registered", "media.close.marked", "media.close.swept"} {
		l.rules = append(l.rules, kit.H.On(n, nil, func(_ string, a []interface{}) {
			if s, ok := a[0].(*media.Stream); ok && s.ConsumerCount() < 0 {
				atomic.AddInt32(&l.neg, 1)
			}
		}))
	}
	return l
}

func (l *c03ledger) exited(obj interface{}) bool {
	l.mu.Lock()
	defer l.mu.Unlock()
	return l.exit[obj] >= 1
}

func (l *c03ledger) open() int {
	l.mu.Lock()
	defer l.mu.Unlock()
	n := 0
	for k, v := range l.enter {
		if l.exit[k] < v {
			n++
		}
	}
	return n
}

func (l *c03ledger) close() { kit.RemoveAll(l.rules) }

var c03pathSeq int64

func c03NewStream() *media.Stream {
	n := atomic.AddInt64(&c03pathSeq, 1)
	return media.NewStream(fmt.Sprintf("/c03/s%d", n), kit.SDPH264AAC)
}

func c03Packet(i int) *rtp.Packet {
	typ := byte(1)
	if i%5 == 0 {
		typ = 5
	}
	return kit.MakeRTP(kit.ChVideo, 96, true, uint16(i), uint32(i)*3000, 7, kit.H264NAL(2, typ, 40, uint64(i)))
}

const c03Watch = 4 * time.Second

// c03Settle decides a scenario: consumer must be closed exactly once, count zero, delivery goroutine gone.
func c03Settle(c *kit.Ctx, l *c03ledger, s *media.Stream, r *kit.RecConsumer, scen string, detail map[string]interface{}) {
	ok := waitUntil(func() bool { return r.NClosed() >= 1 && l.exited(r) }, c03Watch)
	detail["scenario"] = scen
	if !ok {
		// decide on state, not on time
		parked := parkedIn("media.(*consumption).consume")
		detail["closes"] = r.NClosed()
		detail["parked_in_cond_wait"] = parked
		if parked > 0 && r.NClosed() == 0 {
			// the stop/close operation has returned, the flag is set, the consumer is unregistered:
			// nobody can signal this condition variable any more
			c.Violation("C03:consumer-never-closed:delivery-goroutine-parked-forever:"+scenClass(scen), detail)
		} else if r.NClosed() == 0 && !l.exited(r) && len(kit.FindGoroutines("media.(*consumption).consume")) == 0 {
			c.Violation("C03:consumer-never-closed:no-delivery-goroutine:"+scenClass(scen), detail)
		} else if r.NClosed() == 0 {
			c.Violation("C03:consumer-never-closed:"+scenClass(scen), detail)
		} else {
			c.Inconclusive("delivery goroutine exit not observed: " + scen)
		}
		return
	}
	if n := r.NClosed(); n != 1 {
		detail["closes"] = n
		c.Violation("C03:consumer-closed-more-than-once:"+scenClass(scen), detail)
	}
	if !waitUntil(func() bool { return s.ConsumerCount() == 0 }, time.Second) {
		detail["count"] = s.ConsumerCount()
		if s.ConsumerCount() < 0 {
			c.Violation("C03:consumer-count-negative:"+scenClass(scen), detail)
		} else {
			c.Violation("C03:consumer-count-not-zero-after-end:"+scenClass(scen), detail)
		}
	}
	if atomic.LoadInt32(&l.neg) > 0 {
		c.Violation("C03:consumer-count-negative:"+scenClass(scen), detail)
		atomic.StoreInt32(&l.neg, 0)
	}
}

func scenClass(s string) string {
	if i := strings.IndexByte(s, '/'); i > 0 {
		return s[:i]
	}
	return s
}

func runC03(c *kit.Ctx) {
	kit.InstallHooks()
	l := newC03Ledger()
	defer l.close()
	reps := c.Pick(12, 300)
	caseNo := 0
	mine := func() bool { caseNo++; return c.Mine(caseNo) }

	stopKinds := []string{"StopConsume", "Stream.Close", "Unregist"}
	ptypes := []media.PacketType{media.RTPPacket, media.FLVPacket}

	doStop := func(kind string, s *media.Stream, cid media.CID) {
		switch kind {
		case "StopConsume":
			s.StopConsume(cid)
		case "Stream.Close":
			s.Close()
		case "Unregist":
			media.Unregist(s)
		}
	}

	// ---------- A: stop × delivery goroutine
	for rep := 0; rep < reps; rep++ {
		for _, sk := range stopKinds {
			for _, pt := range ptypes {
				for ord := 0; ord < 5; ord++ {
					if !mine() {
						continue
					}
					scen := fmt.Sprintf("A%d-stop-x-delivery/%s/%s", ord, sk, pt)
					c.Pre(scen)
					s := c03NewStream()
					if sk == "Unregist" {
						media.Regist(s)
					}
					r := &kit.RecConsumer{Name: scen}
					detail := map[string]interface{}{"rep": rep}
					var gPop, gFlag *kit.Gate
					switch ord {
					case 0: // consumer already waiting on its empty queue, then stop
						cid := s.StartConsume(r, pt, "x")
						waitUntil(func() bool { return parkedIn("media.(*consumption).consume") > 0 }, c03Watch)
						doStop(sk, s, cid)
					case 1: // stop runs completely between the consumer's closed-check and its pop
						gPop = kit.H.Gate("media.consume.beforePop", kit.Arg0Is(r))
						cid := s.StartConsume(r, pt, "x")
						if !gPop.WaitArrived(c03Watch) {
							c.Inconclusive("gate not reached: " + scen)
							gPop.Release()
							s.Close()
							continue
						}
						doStop(sk, s, cid)
						gPop.Release()
					case 2: // flag set, consumer then goes to wait, then the signal is sent
						gPop = kit.H.Gate("media.consume.beforePop", kit.Arg0Is(r))
						gFlag = kit.H.Gate("media.cclose.flagged", kit.Arg0Is(r))
						cid := s.StartConsume(r, pt, "x")
						if !gPop.WaitArrived(c03Watch) {
							c.Inconclusive("gate not reached: " + scen)
							gPop.Release()
							gFlag.Release()
							s.Close()
							continue
						}
						done := make(chan struct{})
						go func() { doStop(sk, s, cid); close(done) }()
						gFlag.WaitArrived(c03Watch)
						gPop.Release()
						waitUntil(func() bool { return parkedIn("media.(*consumption).consume") > 0 }, 200*time.Millisecond)
						gFlag.Release()
						<-done
					case 3: // consumer busy inside Consume while stop runs
						blk := make(chan struct{})
						r.Block = blk
						cid := s.StartConsume(r, pt, "x")
						if pt == media.RTPPacket {
							s.WriteRtpPacket(c03Packet(5))
							s.WriteRtpPacket(c03Packet(6))
						} else {
							s.WriteFlvTag(&flv.Tag{TagType: flv.TagTypeVideo, Data: []byte{0x17, 1, 0, 0, 0, 1}})
						}
						waitUntil(func() bool { return r.Len() >= 1 }, c03Watch)
						doStop(sk, s, cid)
						close(blk)
					case 4: // packets queued, consumer held before pop, stop, release
						gPop = kit.H.Gate("media.consume.beforePop", kit.Arg0Is(r))
						cid := s.StartConsume(r, pt, "x")
						gPop.WaitArrived(c03Watch)
						if pt == media.RTPPacket {
							for i := 1; i <= 3; i++ {
								s.WriteRtpPacket(c03Packet(i))
							}
						}
						doStop(sk, s, cid)
						gPop.Release()
					}
					c.Eval(1)
					c.Distinct(scen)
					c.SetAdd("interleavings_seen", scen)
					c03Settle(c, l, s, r, scen, detail)
					s.Close()
				}
			}
		}
	}

	// ---------- B: stream end (close | unregister | replacement by a new publisher) × attach
	for rep := 0; rep < reps; rep++ {
		for _, pt := range ptypes {
			for ord := 0; ord < 5; ord++ {
				for _, endKind := range []string{"Close", "Unregist", "Replaced"} {
					if endKind == "Replaced" && ord == 2 {
						// the consumer is already registered when the new publisher arrives: the old stream is then
						// retired, not ended (it closes once its consumers are gone) - nothing to release yet
						continue
					}
					if !mine() {
						continue
					}
					point := []string{"media.join.begin", "media.join.snapshotted", "media.join.registered", "", ""}[ord]
					scen := fmt.Sprintf("B%d-end-x-attach/%s/%s/%s", ord, point, pt, endKind)
					c.Pre(scen)
					s := c03NewStream()
					media.Regist(s)
					endStream := func() {
						switch endKind {
						case "Close":
							s.Close()
						case "Unregist":
							media.Unregist(s)
						case "Replaced":
							// a new publisher registers the same path: the old stream has no consumer and is closed at once
							ns := media.NewStream(s.Path(), kit.SDPH264AAC)
							media.Regist(ns)
							defer media.Unregist(ns)
						}
					}
					r := &kit.RecConsumer{Name: scen}
					detail := map[string]interface{}{"rep": rep}
					switch {
					case ord <= 2: // attach held at point, close runs completely, attach resumes
						g := kit.H.Gate(point, func(a []interface{}) bool { return len(a) > 1 && a[1] == r })
						done := make(chan struct{})
						go func() { s.StartConsume(r, pt, "x"); close(done) }()
						if !g.WaitArrived(c03Watch) {
							c.Inconclusive("gate not reached: " + scen)
							g.Release()
							<-done
							s.Close()
							continue
						}
						endStream()
						g.Release()
						<-done
					case ord == 3: // close held after marking, attach runs completely, close resumes with the sweep
						g := kit.H.Gate("media.close.marked", kit.Arg0Is(s))
						done := make(chan struct{})
						go func() { endStream(); close(done) }()
						g.WaitArrived(c03Watch)
						s.StartConsume(r, pt, "x")
						g.Release()
						<-done
					case ord == 4: // attach to a stream that was looked up before it closed
						endStream()
						s.StartConsume(r, pt, "x")
					}
					c.Eval(1)
					c.Distinct(scen)
					c.SetAdd("interleavings_seen", scen)
					c03Settle(c, l, s, r, scen, detail)
					s.Close()
				}
			}
		}
	}

	// ---------- C: Remove × RemoveAndCloseAll
	for rep := 0; rep < reps; rep++ {
		for _, pt := range ptypes {
			for ord := 0; ord < 2; ord++ {
				if !mine() {
					continue
				}
				scen := fmt.Sprintf("C%d-remove-x-closeall/%s", ord, pt)
				c.Pre(scen)
				s := c03NewStream()
				r := &kit.RecConsumer{Name: scen}
				r2 := &kit.RecConsumer{Name: scen + "/other"}
				cid := s.StartConsume(r, pt, "x")
				s.StartConsume(r2, pt, "y")
				detail := map[string]interface{}{"rep": rep}
				if ord == 0 { // single stop holds after its lookup; stream close removes everybody; stop resumes
					g := kit.H.Gate("media.remove.loaded", nil)
					done := make(chan struct{})
					go func() { s.StopConsume(cid); close(done) }()
					if !g.WaitArrived(c03Watch) {
						c.Inconclusive("gate not reached: " + scen)
					}
					s.Close()
					g.Release()
					<-done
				} else { // close-all holds after deleting; the consumer's own exit path removes itself; resumes
					g := kit.H.Gate("media.closeall.deleted", nil)
					done := make(chan struct{})
					go func() { s.Close(); close(done) }()
					g.WaitArrived(c03Watch)
					s.StopConsume(cid)
					g.Release()
					<-done
				}
				c.Eval(1)
				c.Distinct(scen)
				c.SetAdd("interleavings_seen", scen)
				c03Settle(c, l, s, r, scen, detail)
				if !waitUntil(func() bool { return r2.NClosed() == 1 }, c03Watch) {
					c.Violation("C03:consumer-never-closed:sibling:"+scenClass(scen), detail)
				}
			}
		}
	}

	// ---------- F: the source of a RETIRED stream ends. A stream that was replaced while it had consumers stays open
	// (retired); when its own publisher / pull connection then goes away (Unregist), its consumers must be released
	for rep := 0; rep < reps; rep++ {
		for _, pt := range ptypes {
			if !mine() {
				continue
			}
			scen := fmt.Sprintf("F-retired-stream-source-ends/%s", pt)
			c.Pre(scen)
			s := c03NewStream()
			media.Regist(s)
			r := &kit.RecConsumer{Name: scen}
			s.StartConsume(r, pt, "x")
			ns := media.NewStream(s.Path(), kit.SDPH264AAC)
			media.Regist(ns) // s has a consumer: retired, not closed
			detail := map[string]interface{}{"rep": rep}
			if r.NClosed() != 0 {
				c.Violation("C03:consumer-closed-without-stop-or-stream-end:F-retired", detail)
			}
			media.Unregist(s) // its publisher disconnects
			c.Eval(1)
			c.Distinct(scen)
			c.SetAdd("interleavings_seen", scen)
			c03Settle(c, l, s, r, scen, detail)
			media.Unregist(ns)
			s.Close()
		}
	}

	// ---------- D: converter Close × converter goroutine (lost wake-up in the three converters)
	type conv struct {
		name, fn string
		mk       func() (obj interface{}, closeFn func())
	}
	vm, am := c06Metas("H264")
	convs := []conv{
		{"rtpdemuxer", "rtp.(*Demuxer).process", func() (interface{}, func()) {
			d, _ := rtp.NewDemuxer(vm, am, nopFrameWriter{}, xlog.L())
			return d, func() { d.Close() }
		}},
		{"flvmuxer", "flv.(*Muxer).process", func() (interface{}, func()) {
			m, _ := flv.NewMuxer(vm, am, nopTagWriter{}, xlog.L())
			return m, func() { m.Close() }
		}},
		{"tsmuxer", "mpegts.(*Muxer).process", func() (interface{}, func()) {
			m, _ := mpegts.NewMuxer(vm, am, nopTsWriter{}, xlog.L())
			return m, func() { m.Close() }
		}},
	}
	for rep := 0; rep < reps; rep++ {
		for _, cv := range convs {
			for ord := 0; ord < 3; ord++ {
				if !mine() {
					continue
				}
				scen := fmt.Sprintf("D%d-convclose-x-convloop/%s", ord, cv.name)
				c.Pre(scen)
				var obj interface{}
				var closeFn func()
				detail := map[string]interface{}{"rep": rep, "scenario": scen}
				// the converter goroutine starts inside the constructor: install the gate for "any" object first
				var gPop *kit.Gate
				if ord >= 1 {
					gPop = kit.H.Gate(cv.name+".beforePop", nil)
				}
				obj, closeFn = cv.mk()
				switch ord {
				case 0:
					waitUntil(func() bool { return parkedIn(cv.fn) > 0 }, c03Watch)
					closeFn()
				case 1: // Close runs completely between the loop's closed-check and its pop
					if !gPop.WaitArrived(c03Watch) {
						c.Inconclusive("gate not reached: " + scen)
					}
					closeFn()
					gPop.Release()
				case 2: // flag set, loop goes to wait, then signal
					gFlag := kit.H.Gate(cv.name+".close.flagged", kit.Arg0Is(obj))
					gPop.WaitArrived(c03Watch)
					done := make(chan struct{})
					go func() { closeFn(); close(done) }()
					gFlag.WaitArrived(c03Watch)
					gPop.Release()
					waitUntil(func() bool { return parkedIn(cv.fn) > 0 }, 200*time.Millisecond)
					gFlag.Release()
					<-done
				}
				c.Eval(1)
				c.Distinct(scen)
				c.SetAdd("interleavings_seen", scen)
				if !waitUntil(func() bool { return l.exited(obj) }, c03Watch) {
					detail["parked_in_cond_wait"] = parkedIn(cv.fn)
					if parkedIn(cv.fn) > 0 {
						c.Violation("C03:converter-goroutine-parked-forever:"+cv.name, detail)
					} else {
						c.Inconclusive("converter exit not observed: " + scen)
					}
				}
			}
		}
	}

	// ---------- E: concurrent random histories with perturbation
	nh := c.Pick(250, 5000)
	for hi := 0; hi < nh; hi++ {
		if !c.Mine(hi) {
			continue
		}
		c03History(c, l, hi)
	}
	c03RunService(c)
	c.Note("hook_hits", kit.H.HitCounts())
}

type nopFrameWriter struct{}

func (nopFrameWriter) WriteFrame(*codec.Frame) error { return nil }

type nopTagWriter struct{}

func (nopTagWriter) WriteFlvTag(*flv.Tag) error { return nil }

type nopTsWriter struct{}

func (nopTsWriter) WriteMpegtsFrame(*mpegts.Frame) error { return nil }

type c03cons struct {
	r       *kit.RecConsumer
	s       *media.Stream
	cid     media.CID
	stopped int32
}

func c03History(c *kit.Ctx, l *c03ledger, hi int) {
	rng := c.SubRng("c03hist", hi)
	scen := fmt.Sprintf("E-history/%d", hi)
	c.Pre(scen)
	pert := kit.H.Perturb([]string{"media.consume.beforePop", "media.cclose.flagged", "media.join.snapshotted", "media.join.registered",
		"media.close.marked", "media.remove.loaded", "media.closeall.deleted", "media.write.cached", "rtpdemuxer.beforePop", "flvmuxer.beforePop",
		"tsmuxer.beforePop", "rtpdemuxer.close.flagged", "flvmuxer.close.flagged", "tsmuxer.close.flagged"}, nil, int64(hi)*31+c.Seed, 0.5, 300*time.Microsecond)
	defer kit.RemoveAll(pert)
	before := l.open()
	nstreams := 1 + rng.Intn(3)
	var mu sync.Mutex
	streams := make([]*media.Stream, nstreams)
	ended := map[*media.Stream]bool{}
	var all []*media.Stream
	for i := range streams {
		streams[i] = c03NewStream()
		all = append(all, streams[i])
	}
	var cons []*c03cons
	workers := 2 + rng.Intn(3)
	nops := 6 + rng.Intn(20)
	type op struct{ kind, si, ci int }
	plans := make([][]op, workers)
	var hist []string
	for w := range plans {
		for k := 0; k < nops/workers+1; k++ {
			o := op{kind: rng.Intn(10), si: rng.Intn(nstreams), ci: rng.Intn(64)}
			plans[w] = append(plans[w], o)
			hist = append(hist, fmt.Sprintf("w%d:%s(s%d)", w, []string{"attach", "attach", "attach", "attachflv", "stop", "stop", "publish", "publish", "close", "replace"}[o.kind], o.si))
		}
	}
	var wg sync.WaitGroup
	var prematurely int32
	for w := range plans {
		wg.Add(1)
		go func(w int) {
			defer wg.Done()
			for _, o := range plans[w] {
				mu.Lock()
				s := streams[o.si]
				mu.Unlock()
				switch o.kind {
				case 0, 1, 2, 3:
					pt := media.RTPPacket
					if o.kind == 3 {
						pt = media.FLVPacket
					}
					cc := &c03cons{r: &kit.RecConsumer{}, s: s}
					if o.ci%2 == 0 {
						cc.cid = s.StartConsume(cc.r, pt, "h")
					} else {
						cc.cid = s.StartConsumeNoGopCache(cc.r, pt, "h")
					}
					mu.Lock()
					cons = append(cons, cc)
					mu.Unlock()
				case 4, 5:
					mu.Lock()
					var cc *c03cons
					if len(cons) > 0 {
						cc = cons[o.ci%len(cons)]
					}
					mu.Unlock()
					if cc != nil {
						atomic.StoreInt32(&cc.stopped, 1)
						cc.s.StopConsume(cc.cid)
					}
				case 6, 7:
					for i := 0; i < 1+o.ci%7; i++ {
						s.WriteRtpPacket(c03Packet(o.ci + i))
					}
				case 8:
					mu.Lock()
					ended[s] = true
					mu.Unlock()
					if o.ci%2 == 0 {
						s.Close()
					} else {
						media.Unregist(s)
					}
				case 9:
					ns := c03NewStream()
					mu.Lock()
					streams[o.si] = ns
					all = append(all, ns)
					mu.Unlock()
				}
			}
		}(w)
	}
	wg.Wait()
	// checkpoint: a consumer closed although neither stopped nor its stream ended?
	mu.Lock()
	for _, cc := range cons {
		if cc.r.NClosed() > 0 && atomic.LoadInt32(&cc.stopped) == 0 && !ended[cc.s] {
			atomic.AddInt32(&prematurely, 1)
		}
	}
	mu.Unlock()
	detail := map[string]interface{}{"history": hist, "case": hi}
	if prematurely > 0 {
		c.Violation("C03:consumer-closed-without-stop-or-stream-end", detail)
	}
	// end everything
	for _, s := range all {
		s.Close()
	}
	c.Eval(1)
	c.Distinct(fmt.Sprintf("hist/%d streams/%d workers/%d ops/%d consumers", nstreams, workers, nops, len(cons)))
	if hi < 2 {
		c.Sample(detail)
	}
	ok := waitUntil(func() bool {
		for _, cc := range cons {
			if cc.r.NClosed() < 1 {
				return false
			}
		}
		return l.open() <= before
	}, c03Watch)
	if !ok {
		unclosed := 0
		for _, cc := range cons {
			if cc.r.NClosed() < 1 {
				unclosed++
			}
		}
		detail["unclosed_consumers"] = unclosed
		detail["open_goroutines_in_ledger"] = l.open() - before
		pk := parkedIn("media.(*consumption).consume")
		pc := parkedIn("(*Demuxer).process") + parkedIn("(*Muxer).process")
		detail["parked_delivery"] = pk
		detail["parked_converters"] = pc
		switch {
		case unclosed > 0 && pk > 0:
			c.Violation("C03:consumer-never-closed:delivery-goroutine-parked-forever:E-history", detail)
		case unclosed > 0:
			c.Violation("C03:consumer-never-closed:E-history", detail)
		case pc > 0:
			c.Violation("C03:converter-goroutine-parked-forever:E-history", detail)
		default:
			c.Inconclusive("history quiescence not observed")
		}
		return
	}
	for _, cc := range cons {
		if n := cc.r.NClosed(); n != 1 {
			detail["closes"] = n
			c.Violation("C03:consumer-closed-more-than-once:E-history", detail)
			break
		}
	}
	for _, s := range all {
		if n := s.ConsumerCount(); n != 0 {
			detail["count"] = n
			if n < 0 {
				c.Violation("C03:consumer-count-negative:E-history", detail)
			} else {
				c.Violation("C03:consumer-count-not-zero-after-end:E-history", detail)
			}
			break
		}
	}
	if atomic.LoadInt32(&l.neg) > 0 {
		atomic.StoreInt32(&l.neg, 0)
		c.Violation("C03:consumer-count-negative:E-history", detail)
	}
}
