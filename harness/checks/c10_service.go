package checks

import (
	"bytes"
	"fmt"
	"io"
	"net/http"
	"strconv"
	"strings"
	"sync/atomic"
	"time"

	"verifharness/kit"

	"github.com/cnotch/ipchub/config"
	"github.com/cnotch/ipchub/media"
)

// C10, service path: the same observer and oracle as the package / stream paths, but every playlist and every
// segment is obtained the way a player obtains it — GET /streams/{path}.m3u8[?token=] and GET of the URI text the
// playlist listed — from the real HTTP service (service/streamapis.go, service/hls/hls.go) in front of a registered
// media.Stream. Frames are fed in lockstep with the stream's TS muxer goroutine, exactly as in the stream path.

type c10HTTPPL struct {
	o      *c10Obs
	base   string
	path   string
	inproc c10PL
	uris   map[int]string // URI text by sequence number, as listed by the last playlists served over HTTP
	client *http.Client
}

func (p *c10HTTPPL) M3u8(token string) ([]byte, error) {
	// the HTTP handler waits up to 1.5 x 3 x fragment seconds for the playlist to become available; no frame is
	// fed while we ask, so ask over HTTP only once the generator can answer
	want, err := p.inproc.M3u8(token)
	if err != nil {
		return nil, err
	}
	u := p.base + "/streams" + p.path + ".m3u8"
	if token != "" {
		u += "?token=" + token
	}
	resp, err := p.client.Get(u)
	if err != nil {
		p.o.viol("C10:service:playlist-request-failed", map[string]interface{}{"url": u, "err": err.Error()})
		return nil, err
	}
	body, rerr := io.ReadAll(resp.Body)
	resp.Body.Close()
	if resp.StatusCode != 200 {
		p.o.viol("C10:service:playlist-status", map[string]interface{}{"url": u, "status": resp.StatusCode, "body": string(body)})
		return nil, fmt.Errorf("http %d", resp.StatusCode)
	}
	if rerr != nil {
		p.o.viol("C10:service:playlist-body-shorter-than-content-length", map[string]interface{}{"url": u, "err": rerr.Error(), "read": len(body)})
		return nil, rerr
	}
	if cl := resp.Header.Get("Content-Length"); cl != "" && cl != strconv.Itoa(len(body)) {
		p.o.viol("C10:service:playlist-content-length", map[string]interface{}{"url": u, "header": cl, "read": len(body)})
	}
	if !bytes.Equal(body, want) {
		p.o.viol("C10:service:playlist-over-http-differs-from-generator", map[string]interface{}{"url": u, "http": string(body), "generator": string(want)})
	}
	p.o.c.Count("service_playlists_over_http", 1)
	for _, ln := range strings.Split(string(body), "\n") {
		ln = strings.TrimSpace(ln)
		if ln == "" || ln[0] == '#' {
			continue
		}
		pth, _, _ := c10SplitURI(ln)
		if _, n, _, ok := c10ResolveURI(pth); ok {
			p.uris[n] = ln
		}
	}
	return body, nil
}

func (p *c10HTTPPL) Segment(seq int) (io.Reader, int, error) {
	uri, listed := p.uris[seq]
	if !listed {
		uri = "/streams" + p.path + "/" + strconv.Itoa(seq) + ".ts"
	}
	resp, err := p.client.Get(p.base + uri)
	if err != nil {
		return nil, 0, err
	}
	if resp.StatusCode != 200 {
		io.Copy(io.Discard, resp.Body)
		resp.Body.Close()
		return nil, 0, fmt.Errorf("http %d", resp.StatusCode)
	}
	p.o.c.Count("service_segments_over_http", 1)
	if listed {
		p.o.c.Count("service_segments_by_listed_uri_text", 1)
	}
	if ct := resp.Header.Get("Content-Type"); !strings.Contains(ct, "mp2t") {
		p.o.viol("C10:service:segment-content-type", map[string]interface{}{"uri": uri, "content_type": ct})
	}
	return resp.Body, int(resp.ContentLength), nil
}

func c10DriveService(c *kit.Ctx, o *c10Obs) {
	cs := o.cs
	srv := kit.StartServer(false, false, 0)
	c10InstallHooks()
	config.VerifSet(false, false, o.dir, cs.F)
	o.sps, o.pps = c10SDPParamSets()
	before := c10Mux.known()
	s := media.NewStream(fmt.Sprintf("/c10/svc%d-%d", c.Shard, atomic.AddInt64(&c10PathSeq, 1)), kit.SDPH264AAC)
	h := s.Hlsable()
	if h == nil {
		c.Inconclusive("media.Stream has no HLS capability")
		s.Close()
		return
	}
	media.Regist(s)
	o.path = s.Path()
	o.pl = &c10HTTPPL{o: o, base: "http://" + srv.Addr, path: s.Path(), inproc: h, uris: map[int]string{},
		client: &http.Client{Timeout: 60 * time.Second}}
	var key interface{}
	var pops *int64
	if !c10WaitUntil(20*time.Second, func() bool { key, pops = c10Mux.newest(before); return pops != nil }) {
		c.Inconclusive("ts muxer goroutine of the stream did not start within 20 s")
		media.Unregist(s)
		return
	}
	for i := range o.frames {
		s.WriteFrame(c10ToFrame(&o.frames[i]))
		want := int64(i + 2)
		if !c10WaitUntil(60*time.Second, func() bool { return atomic.LoadInt64(pops) >= want }) {
			if kit.Log.NPanics() > 0 {
				return
			}
			c.Inconclusive("stream ts muxer did not consume a frame within 60 s")
			media.Unregist(s)
			return
		}
		o.fed++
		o.afterFrame()
	}
	o.readHeld(true)
	// an unknown and a malformed segment address
	for _, u := range []string{"/streams" + s.Path() + "/999999.ts", "/streams" + s.Path() + "/x.ts"} {
		if resp, err := http.Get("http://" + srv.Addr + u); err == nil {
			io.Copy(io.Discard, resp.Body)
			resp.Body.Close()
			if resp.StatusCode == 200 {
				o.viol("C10:service:nonexistent-segment-served", map[string]interface{}{"uri": u})
			}
			c.SetAdd("service_bad_segment_status", fmt.Sprint(resp.StatusCode))
		}
	}
	media.Unregist(s) // closes the stream
	if !c10WaitUntil(20*time.Second, func() bool { return c10Mux.exited(key) }) {
		c.Inconclusive("ts muxer goroutine did not exit within 20 s after Unregist")
		return
	}
	c10Mux.forget(key)
	o.afterClose(nil, nil)
}
