package checks

import (
	"encoding/hex"
	"fmt"
	"strings"

	"verifharness/kit"

	"github.com/cnotch/ipchub/av/codec/hevc"
)

func (k *c15) decode265(nal []byte) (c15Out, *hevc.H265RawSPS, c15Guarded) {
	var o c15Out
	sps := new(hevc.H265RawSPS)
	c15Pre(k.c, "hevc.H265RawSPS.Decode "+hex.EncodeToString(nal))
	g := c15Guard(func() {
		if err := sps.Decode(nal); err != nil {
			o.Err = c15ErrBrief(err.Error())
			return
		}
		o.W, o.H, o.FPS, o.Fixed = sps.Width(), sps.Height(), sps.FrameRate(), sps.IsFixedFrameRate()
	})
	return o, sps, g
}

func diffPTL(d *c15Diff, p *m265PTL, r *hevc.H265RawProfileTierLevel) {
	g := &p.General
	d.cmp("profile-tier-level-general", "general_profile_space", int64(g.Space), int64(r.General_profile_space))
	d.cmp("profile-tier-level-general", "general_tier_flag", c15b(g.Tier), int64(r.General_tier_flag))
	d.cmp("profile-tier-level-general", "general_profile_idc", int64(g.Idc), int64(r.General_profile_idc))
	d.cmp("profile-tier-level-general", "general_profile_compatibility_flags", int64(g.Compat), int64(r.GeneralProfileCompatibilityFlags))
	f4 := int64(r.General_progressive_source_flag)<<3 | int64(r.General_interlaced_source_flag)<<2 |
		int64(r.General_non_packed_constraint_flag)<<1 | int64(r.General_frame_only_constraint_flag)
	d.cmp("profile-tier-level-general", "general_source_flags", int64(g.Flags4), f4)
	d.cmp("profile-tier-level-general", "general_level_idc", int64(g.Level), int64(r.General_level_idc))
	for i := range p.Sub {
		s := &p.Sub[i]
		d.cmp("profile-tier-level-sub-layers", fmt.Sprintf("sub_layer_profile_present_flag[%d]", i), c15b(s.ProfilePresent), int64(r.Sub_layer_profile_present_flag[i]))
		d.cmp("profile-tier-level-sub-layers", fmt.Sprintf("sub_layer_level_present_flag[%d]", i), c15b(s.LevelPresent), int64(r.Sub_layer_level_present_flag[i]))
	}
	for i := range p.Sub {
		s := &p.Sub[i]
		if s.ProfilePresent {
			d.cmp("profile-tier-level-sub-layers", fmt.Sprintf("sub_layer_profile_idc[%d]", i), int64(s.Idc), int64(r.Sub_layer_profile_idc[i]))
			d.cmp("profile-tier-level-sub-layers", fmt.Sprintf("sub_layer_tier_flag[%d]", i), c15b(s.Tier), int64(r.Sub_layer_tier_flag[i]))
		}
		if s.LevelPresent {
			d.cmp("profile-tier-level-sub-layers", fmt.Sprintf("sub_layer_level_idc[%d]", i), int64(s.Level), int64(r.Sub_layer_level_idc[i]))
		}
	}
}

// diff265 compares raw syntax fields in syntax order up to the last judged element (VUI timing).
func diff265(m *m265SPS, r *hevc.H265RawSPS, skip string) c15Diff {
	d := c15Diff{Skip: skip}
	d.cmp("nal-header", "nal_unit_type", 33, int64(r.Nal_unit_header.Nal_unit_type))
	d.cmp("nal-header", "nuh_layer_id", int64(m.LayerID), int64(r.Nal_unit_header.Nuh_layer_id))
	d.cmp("nal-header", "nuh_temporal_id_plus1", int64(m.TidPlus1), int64(r.Nal_unit_header.Nuh_temporal_id_plus1))
	d.cmp("sps-header", "sps_video_parameter_set_id", int64(m.VpsID), int64(r.Sps_video_parameter_set_id))
	d.cmp("sps-header", "sps_max_sub_layers_minus1", int64(m.MaxSubLayers), int64(r.Sps_max_sub_layers_minus1))
	d.cmp("sps-header", "sps_temporal_id_nesting_flag", c15b(m.Nesting), int64(r.Sps_temporal_id_nesting_flag))
	diffPTL(&d, &m.PTL, &r.Profile_tier_level)
	d.cmp("sps-id", "sps_seq_parameter_set_id", int64(m.ID), int64(r.Sps_seq_parameter_set_id))
	d.cmp("chroma-format", "chroma_format_idc", int64(m.Chroma), int64(r.Chroma_format_idc))
	d.cmp("chroma-format", "separate_colour_plane_flag", c15b(m.SepPlane), int64(r.Separate_colour_plane_flag))
	d.cmp("pic-size", "pic_width_in_luma_samples", int64(m.W), int64(r.Pic_width_in_luma_samples))
	d.cmp("pic-size", "pic_height_in_luma_samples", int64(m.H), int64(r.Pic_height_in_luma_samples))
	d.cmp("conformance-window", "conformance_window_flag", c15b(m.ConfWin), int64(r.Conformance_window_flag))
	d.cmp("conformance-window", "conf_win_left_offset", int64(m.CL), int64(r.Conf_win_left_offset))
	d.cmp("conformance-window", "conf_win_right_offset", int64(m.CR), int64(r.Conf_win_right_offset))
	d.cmp("conformance-window", "conf_win_top_offset", int64(m.CT), int64(r.Conf_win_top_offset))
	d.cmp("conformance-window", "conf_win_bottom_offset", int64(m.CB), int64(r.Conf_win_bottom_offset))
	d.cmp("bit-depth", "bit_depth_luma_minus8", int64(m.BitDepthL), int64(r.Bit_depth_luma_minus8))
	d.cmp("bit-depth", "bit_depth_chroma_minus8", int64(m.BitDepthC), int64(r.Bit_depth_chroma_minus8))
	d.cmp("log2-max-poc-lsb", "log2_max_pic_order_cnt_lsb_minus4", int64(m.Log2MaxPocLsb), int64(r.Log2_max_pic_order_cnt_lsb_minus4))
	d.cmp("sub-layer-ordering-info", "sps_sub_layer_ordering_info_present_flag", c15b(m.OrderPresent), int64(r.Sps_sub_layer_ordering_info_present_flag))
	for i := 0; i <= m.MaxSubLayers; i++ {
		o := m.Order[i]
		if !m.OrderPresent {
			o = m.Order[m.MaxSubLayers] // 7.4.3.2.1: inferred equal to the values of the highest sub-layer
		}
		d.cmp("sub-layer-ordering-info", fmt.Sprintf("sps_max_dec_pic_buffering_minus1[%d]", i), int64(o.MaxDec), int64(r.Sps_max_dec_pic_buffering_minus1[i]))
		d.cmp("sub-layer-ordering-info", fmt.Sprintf("sps_max_num_reorder_pics[%d]", i), int64(o.MaxReorder), int64(r.Sps_max_num_reorder_pics[i]))
		d.cmp("sub-layer-ordering-info", fmt.Sprintf("sps_max_latency_increase_plus1[%d]", i), int64(o.MaxLatency), int64(r.Sps_max_latency_increase_plus1[i]))
	}
	d.cmp("coding-block-sizes", "log2_min_luma_coding_block_size_minus3", int64(m.Log2MinCb), int64(r.Log2_min_luma_coding_block_size_minus3))
	d.cmp("coding-block-sizes", "log2_diff_max_min_luma_coding_block_size", int64(m.Log2DiffCb), int64(r.Log2_diff_max_min_luma_coding_block_size))
	d.cmp("coding-block-sizes", "log2_min_luma_transform_block_size_minus2", int64(m.Log2MinTb), int64(r.Log2_min_luma_transform_block_size_minus2))
	d.cmp("coding-block-sizes", "log2_diff_max_min_luma_transform_block_size", int64(m.Log2DiffTb), int64(r.Log2_diff_max_min_luma_transform_block_size))
	d.cmp("coding-block-sizes", "max_transform_hierarchy_depth_inter", int64(m.DepthInter), int64(r.Max_transform_hierarchy_depth_inter))
	d.cmp("coding-block-sizes", "max_transform_hierarchy_depth_intra", int64(m.DepthIntra), int64(r.Max_transform_hierarchy_depth_intra))
	d.cmp("scaling-list", "scaling_list_enabled_flag", c15b(m.ScalingEnabled), int64(r.Scaling_list_enabled_flag))
	if m.ScalingEnabled {
		d.cmp("scaling-list", "sps_scaling_list_data_present_flag", c15b(m.SL != nil), int64(r.Sps_scaling_list_data_present_flag))
		if m.SL != nil && r.Scaling_list != nil {
			for sizeID := 0; sizeID < 4; sizeID++ {
				step := 1
				if sizeID == 3 {
					step = 3
				}
				for mi := 0; mi < 6; mi += step {
					d.cmp("scaling-list", fmt.Sprintf("scaling_list_pred_mode_flag[%d][%d]", sizeID, mi), c15b(m.SL.PredMode[sizeID][mi]), int64(r.Scaling_list.Scaling_list_pred_mode_flag[sizeID][mi]))
					if !m.SL.PredMode[sizeID][mi] {
						d.cmp("scaling-list", fmt.Sprintf("scaling_list_pred_matrix_id_delta[%d][%d]", sizeID, mi), int64(m.SL.PredDelta[sizeID][mi]), int64(r.Scaling_list.Scaling_list_pred_matrix_id_delta[sizeID][mi]))
					}
				}
			}
		}
	}
	d.cmp("amp-sao", "amp_enabled_flag", c15b(m.Amp), int64(r.Amp_enabled_flag))
	d.cmp("amp-sao", "sample_adaptive_offset_enabled_flag", c15b(m.Sao), int64(r.Sample_adaptive_offset_enabled_flag))
	d.cmp("pcm", "pcm_enabled_flag", c15b(m.Pcm), int64(r.Pcm_enabled_flag))
	if m.Pcm {
		d.cmp("pcm", "pcm_sample_bit_depth_luma_minus1", int64(m.PcmL), int64(r.Pcm_sample_bit_depth_luma_minus1))
		d.cmp("pcm", "pcm_sample_bit_depth_chroma_minus1", int64(m.PcmC), int64(r.Pcm_sample_bit_depth_chroma_minus1))
		d.cmp("pcm", "log2_min_pcm_luma_coding_block_size_minus3", int64(m.PcmLog2Min), int64(r.Log2_min_pcm_luma_coding_block_size_minus3))
		d.cmp("pcm", "log2_diff_max_min_pcm_luma_coding_block_size", int64(m.PcmLog2Diff), int64(r.Log2_diff_max_min_pcm_luma_coding_block_size))
		d.cmp("pcm", "pcm_loop_filter_disabled_flag", c15b(m.PcmLoopOff), int64(r.Pcm_loop_filter_disabled_flag))
	}
	d.cmp("st-ref-pic-sets", "num_short_term_ref_pic_sets", int64(len(m.RPS)), int64(r.Num_short_term_ref_pic_sets))
	for i := range m.RPS {
		if i >= len(r.St_ref_pic_set) {
			d.cmp("st-ref-pic-sets", "allocated-sets", int64(len(m.RPS)), int64(len(r.St_ref_pic_set)))
			break
		}
		a, b := &m.RPS[i], &r.St_ref_pic_set[i]
		d.cmp("st-ref-pic-sets", fmt.Sprintf("inter_ref_pic_set_prediction_flag[%d]", i), c15b(a.Inter), int64(b.Inter_ref_pic_set_prediction_flag))
		if a.Inter {
			g := "st-ref-pic-set-inter-prediction"
			d.cmp(g, fmt.Sprintf("delta_rps_sign[%d]", i), c15b(a.DeltaRpsSign), int64(b.Delta_rps_sign))
			d.cmp(g, fmt.Sprintf("abs_delta_rps_minus1[%d]", i), int64(a.AbsDeltaRps), int64(b.Abs_delta_rps_minus1))
			for j := range a.UsedFlag {
				if j >= len(b.Used_by_curr_pic_flag) {
					break
				}
				d.cmp(g, fmt.Sprintf("used_by_curr_pic_flag[%d][%d]", i, j), c15b(a.UsedFlag[j]), int64(b.Used_by_curr_pic_flag[j]))
				d.cmp(g, fmt.Sprintf("use_delta_flag[%d][%d]", i, j), c15b(a.UseDelta[j] || a.UsedFlag[j]), int64(b.Use_delta_flag[j]))
			}
			d.cmp(g, fmt.Sprintf("NumNegativePics[%d](derived 7-61)", i), int64(len(a.DeltaPocS0)), int64(b.Num_negative_pics))
			d.cmp(g, fmt.Sprintf("NumPositivePics[%d](derived 7-62)", i), int64(len(a.DeltaPocS1)), int64(b.Num_positive_pics))
			prev := 0
			for j, dp := range a.DeltaPocS0 {
				if j < len(b.Delta_poc_s0_minus1) {
					d.cmp(g, fmt.Sprintf("DeltaPocS0[%d][%d](derived)", i, j), int64(prev-dp-1), int64(b.Delta_poc_s0_minus1[j]))
				}
				prev = dp
			}
			prev = 0
			for j, dp := range a.DeltaPocS1 {
				if j < len(b.Delta_poc_s1_minus1) {
					d.cmp(g, fmt.Sprintf("DeltaPocS1[%d][%d](derived)", i, j), int64(dp-prev-1), int64(b.Delta_poc_s1_minus1[j]))
				}
				prev = dp
			}
		} else {
			g := "st-ref-pic-sets"
			d.cmp(g, fmt.Sprintf("num_negative_pics[%d]", i), int64(len(a.S0)), int64(b.Num_negative_pics))
			d.cmp(g, fmt.Sprintf("num_positive_pics[%d]", i), int64(len(a.S1)), int64(b.Num_positive_pics))
			for j := range a.S0 {
				if j < len(b.Delta_poc_s0_minus1) {
					d.cmp(g, fmt.Sprintf("delta_poc_s0_minus1[%d][%d]", i, j), int64(a.S0[j]), int64(b.Delta_poc_s0_minus1[j]))
					d.cmp(g, fmt.Sprintf("used_by_curr_pic_s0_flag[%d][%d]", i, j), c15b(a.UsedS0[j]), int64(b.Used_by_curr_pic_s0_flag[j]))
				}
			}
			for j := range a.S1 {
				if j < len(b.Delta_poc_s1_minus1) {
					d.cmp(g, fmt.Sprintf("delta_poc_s1_minus1[%d][%d]", i, j), int64(a.S1[j]), int64(b.Delta_poc_s1_minus1[j]))
					d.cmp(g, fmt.Sprintf("used_by_curr_pic_s1_flag[%d][%d]", i, j), c15b(a.UsedS1[j]), int64(b.Used_by_curr_pic_s1_flag[j]))
				}
			}
		}
	}
	d.cmp("long-term-ref-pics", "long_term_ref_pics_present_flag", c15b(m.LongTerm), int64(r.Long_term_ref_pics_present_flag))
	if m.LongTerm {
		d.cmp("long-term-ref-pics", "num_long_term_ref_pics_sps", int64(len(m.LtPoc)), int64(r.Num_long_term_ref_pics_sps))
		for i := range m.LtPoc {
			if i < len(r.Lt_ref_pic_poc_lsb_sps) {
				d.cmp("long-term-ref-pics", fmt.Sprintf("lt_ref_pic_poc_lsb_sps[%d]", i), int64(m.LtPoc[i]), int64(r.Lt_ref_pic_poc_lsb_sps[i]))
				d.cmp("long-term-ref-pics", fmt.Sprintf("used_by_curr_pic_lt_sps_flag[%d]", i), c15b(m.LtUsed[i]), int64(r.Used_by_curr_pic_lt_sps_flag[i]))
			}
		}
	}
	d.cmp("mvp-strong-intra", "sps_temporal_mvp_enabled_flag", c15b(m.Mvp), int64(r.Sps_temporal_mvp_enabled_flag))
	d.cmp("mvp-strong-intra", "strong_intra_smoothing_enabled_flag", c15b(m.Strong), int64(r.Strong_intra_smoothing_enabled_flag))
	d.cmp("vui-present", "vui_parameters_present_flag", c15b(m.VUI != nil), int64(r.Vui_parameters_present_flag))
	if v := m.VUI; v != nil {
		u := &r.Vui
		d.cmp("vui-aspect-ratio", "aspect_ratio_info_present_flag", c15b(v.Aspect), int64(u.Aspect_ratio_info_present_flag))
		if v.Aspect {
			d.cmp("vui-aspect-ratio", "aspect_ratio_idc", int64(v.AspectIdc), int64(u.Aspect_ratio_idc))
			if v.AspectIdc == 255 {
				d.cmp("vui-aspect-ratio", "sar_width", int64(v.SarW), int64(u.Sar_width))
				d.cmp("vui-aspect-ratio", "sar_height", int64(v.SarH), int64(u.Sar_height))
			}
		}
		d.cmp("vui-overscan", "overscan_info_present_flag", c15b(v.Overscan), int64(u.Overscan_info_present_flag))
		if v.Overscan {
			d.cmp("vui-overscan", "overscan_appropriate_flag", c15b(v.OverscanApp), int64(u.Overscan_appropriate_flag))
		}
		d.cmp("vui-video-signal-type", "video_signal_type_present_flag", c15b(v.VideoSignal), int64(u.Video_signal_type_present_flag))
		if v.VideoSignal {
			d.cmp("vui-video-signal-type", "video_format", int64(v.VideoFormat), int64(u.Video_format))
			d.cmp("vui-video-signal-type", "video_full_range_flag", c15b(v.FullRange), int64(u.Video_full_range_flag))
			d.cmp("vui-video-signal-type", "colour_description_present_flag", c15b(v.ColourDesc), int64(u.Colour_description_present_flag))
			if v.ColourDesc {
				d.cmp("vui-video-signal-type", "colour_primaries", int64(v.Prim), int64(u.Colour_primaries))
				d.cmp("vui-video-signal-type", "transfer_characteristics", int64(v.Trans), int64(u.Transfer_characteristics))
				d.cmp("vui-video-signal-type", "matrix_coeffs", int64(v.Matrix), int64(u.Matrix_coefficients))
			}
		}
		d.cmp("vui-chroma-loc", "chroma_loc_info_present_flag", c15b(v.ChromaLoc), int64(u.Chroma_loc_info_present_flag))
		if v.ChromaLoc {
			d.cmp("vui-chroma-loc", "chroma_sample_loc_type_top_field", int64(v.LocTop), int64(u.Chroma_sample_loc_type_top_field))
			d.cmp("vui-chroma-loc", "chroma_sample_loc_type_bottom_field", int64(v.LocBottom), int64(u.Chroma_sample_loc_type_bottom_field))
		}
		d.cmp("vui-field-flags", "neutral_chroma_indication_flag", c15b(v.Neutral), int64(u.Neutral_chroma_indication_flag))
		d.cmp("vui-field-flags", "field_seq_flag", c15b(v.FieldSeq), int64(u.Field_seq_flag))
		d.cmp("vui-field-flags", "frame_field_info_present_flag", c15b(v.FrameFieldInfo), int64(u.Frame_field_info_present_flag))
		d.cmp("vui-default-display-window", "default_display_window_flag", c15b(v.DefDisp), int64(u.Default_display_window_flag))
		if v.DefDisp {
			d.cmp("vui-default-display-window", "def_disp_win_left_offset", int64(v.DL), int64(u.Def_disp_win_left_offset))
			d.cmp("vui-default-display-window", "def_disp_win_right_offset", int64(v.DR), int64(u.Def_disp_win_right_offset))
			d.cmp("vui-default-display-window", "def_disp_win_top_offset", int64(v.DT), int64(u.Def_disp_win_top_offset))
			d.cmp("vui-default-display-window", "def_disp_win_bottom_offset", int64(v.DB), int64(u.Def_disp_win_bottom_offset))
		}
		d.cmp("vui-timing-info", "vui_timing_info_present_flag", c15b(v.Timing), int64(u.Vui_timing_info_present_flag))
		if v.Timing {
			d.cmp("vui-timing-info", "vui_num_units_in_tick", int64(v.NumUnits), int64(u.Vui_num_units_in_tick))
			d.cmp("vui-timing-info", "vui_time_scale", int64(v.TimeScal), int64(u.Vui_time_scale))
		}
	}
	return d
}

func (k *c15) eval265nal(m *m265SPS, nal []byte, epb []int, skip string) *c15Eval {
	e := &c15Eval{Nal: nal, Epb: epb}
	var raw *hevc.H265RawSPS
	e.Out, raw, e.Guard = k.decode265(nal)
	if e.Guard.Hung || e.Guard.Panic != "" {
		return e
	}
	e.Problems = c15Judge(m.expect(), e.Out)
	e.Diff = diff265(m, raw, skip)
	return e
}

func (k *c15) eval265(m *m265SPS, st *kit.BitStats) *c15Eval {
	var ls kit.BitStats
	nal, epb := m.encode(&ls)
	if st != nil {
		m.encode(st)
	}
	e := k.eval265nal(m, nal, epb, "")
	e.MaxUe = ls.MaxUe
	return e
}

func (k *c15) attribute265(m *m265SPS, e *c15Eval) (sig string, extra map[string]interface{}) {
	extra = map[string]interface{}{}
	feats := m265Features()
	tryOff := func(names ...string) *c15Eval {
		v := m.clone()
		for _, f := range feats {
			for _, n := range names {
				if f.name == n && f.active(v) {
					f.off(v)
				}
			}
		}
		v.normalize()
		return k.eval265(v, nil)
	}
	if e.parseBad() {
		if s := k.ueSig(e, extra); s != "" {
			return s, extra
		}
		base := e.progress()
		if len(e.Epb) > 0 {
			raw := c15Unescape(e.Nal, e.Epb)
			if !c15RawHas003(raw) {
				if v := k.eval265nal(m, raw, nil, ""); v.progress() > base {
					return "C15:hevc-sps:emulation-prevention-bytes-not-removed", extra
				}
			}
		}
		// hypothesis: the parser reads the sub-layer ordering info with the presence flag inverted
		if m.MaxSubLayers > 0 {
			nal, epb := m.encodeOpt(nil, true)
			baseSkip := k.eval265nal(m, e.Nal, e.Epb, "sub-layer-ordering-info").progress()
			if v := k.eval265nal(m, nal, epb, "sub-layer-ordering-info"); v.progress() > baseSkip {
				extra["hypothesis"] = "same set re-encoded with the ordering-info loop as a flag-inverted parser expects is parsed consistently"
				return "C15:hevc-sps:sub-layer-ordering-flag-inverted", extra
			}
		}
		// hypothesis: inter RPS prediction is the culprit
		if v := tryOff("st-rps-inter-prediction"); v.progress() > base {
			extra["decode_error"] = e.Out.Err
			if e.Diff.Found {
				extra["first_divergent_field"] = e.Diff.Field
			}
			return "C15:hevc-sps:st-rps-inter-prediction", extra
		}
		if e.Diff.Found {
			extra["first_divergent_field"] = e.Diff.Field
			extra["want"], extra["got"] = e.Diff.Want, e.Diff.Got
			return "C15:hevc-sps:misparse:" + e.Diff.Group, extra
		}
		// accepted-syntax up to the last judged element, yet rejected: find the single feature that matters
		for _, f := range feats {
			if f.active(m) {
				if v := tryOff(f.name); v.Out.Err == "" && !v.Diff.Found {
					return "C15:hevc-sps:valid-sps-rejected:" + f.name, extra
				}
			}
		}
		return "C15:hevc-sps:valid-sps-rejected", extra
	}
	field := e.Problems[0]
	min, names := c15Minimize(m, feats, (*m265SPS).clone, (*m265SPS).normalize, func(v *m265SPS) bool {
		ev := k.eval265(v, nil)
		for _, p := range ev.Problems {
			if p == field {
				return true
			}
		}
		return false
	})
	extra["minimal_features"] = names
	mn, _ := min.encode(nil)
	extra["minimal_sps_hex"] = hex.EncodeToString(mn)
	return "C15:hevc-sps:" + field + ":" + strings.Join(c15Leaves(names), "+"), extra
}

func directed265() []*m265SPS {
	ptl := m265PTL{General: m265SubPTL{Idc: 1, Compat: 1 << 30, Flags4: 9, Level: 93}}
	base := func() *m265SPS {
		return &m265SPS{TidPlus1: 1, Nesting: true, PTL: ptl.clone(), Chroma: 1, W: 1920, H: 1088, ConfWin: true, CB: 4,
			Log2MaxPocLsb: 4, OrderPresent: true, Order: []m265Order{{MaxDec: 4, MaxReorder: 2, MaxLatency: 5}},
			Log2MinCb: 0, Log2DiffCb: 3, Log2MinTb: 0, Log2DiffTb: 3, DepthInter: 1, DepthIntra: 1, Amp: true, Sao: true, Mvp: true, Strong: true,
			VUI: &m265VUI{Timing: true, NumUnits: 1, TimeScal: 25}}
	}
	var out []*m265SPS
	out = append(out, base()) // 0: 1920x1080 25 fps, one sub-layer
	// 1: three sub-layers, ordering info present for all
	s := base()
	s.MaxSubLayers, s.Nesting = 2, true
	s.PTL.Sub = []m265SubPTL{{}, {}}
	s.Order = []m265Order{{MaxDec: 2, MaxReorder: 1, MaxLatency: 3}, {MaxDec: 3, MaxReorder: 2, MaxLatency: 4}, {MaxDec: 4, MaxReorder: 3, MaxLatency: 5}}
	out = append(out, s)
	// 2: three sub-layers, ordering info only for the highest
	s = s.clone()
	s.OrderPresent = false
	out = append(out, s)
	// 3: two explicit-free RPS with inter prediction
	s = base()
	s.RPS = []m265RPS{{S0: []uint64{0, 1}, UsedS0: []bool{true, true}}, {Inter: true, DeltaRpsSign: true, AbsDeltaRps: 0, UsedFlag: []bool{true, true, true}, UseDelta: []bool{true, true, true}}}
	out = append(out, s)
	// 4: 4:2:2 cropping
	s = base()
	s.Chroma, s.CL, s.CR, s.CT, s.CB = 2, 1, 2, 3, 5
	out = append(out, s)
	// 5: 4:4:4 separate planes cropping
	s = base()
	s.Chroma, s.SepPlane, s.CL, s.CR, s.CT, s.CB = 3, true, 1, 2, 3, 5
	out = append(out, s)
	// 6: no VUI
	s = base()
	s.VUI = nil
	out = append(out, s)
	// 7: scaling list data + pcm + long term
	s = base()
	s.ScalingEnabled = true
	s.SL = &m265SL{}
	s.SL.PredMode[0][0] = true
	s.SL.Coef[0][0] = []int64{-3, 3, -3, 3, -3, 3, -3, 3, -3, 3, -3, 3, -3, 3, -3, 3}
	s.Pcm, s.PcmL, s.PcmC = true, 7, 7
	s.LongTerm, s.LtPoc, s.LtUsed = true, []uint64{17, 200}, []bool{true, false}
	out = append(out, s)
	for _, s := range out {
		s.normalize()
	}
	return out
}

func (k *c15) runHevcSPS() {
	c := k.c
	feats := m265Features()
	dir := directed265()
	n := c.Pick(1800, 200000)
	for i := 0; i < len(dir)+n; i++ {
		if !c.Mine(i) {
			continue
		}
		var m *m265SPS
		directed := i < len(dir)
		if directed {
			m = dir[i]
		} else {
			m = m265Gen(c.SubRng("c15-hevc-sps", i))
		}
		e := k.eval265(m, &k.stats)
		c.Eval(1)
		act := c15Active(m, feats)
		for _, a := range act {
			k.count("hevc_sps_branch:"+a, 1)
		}
		k.count(fmt.Sprintf("hevc_sps_sub_layers_%d", m.MaxSubLayers+1), 1)
		k.count("hevc_sps_valid_sets", 1)
		c.Distinct("hevc-sps|" + strings.Join(act, ",") + fmt.Sprintf("|%d|%d|%d|%d", m.MaxSubLayers, len(m.RPS), bitLenU(m.W), bitLenU(m.H)))
		k.epbCoverage("hevc-sps", e.Nal, e.Epb)
		exp := m.expect()
		k.sample("hevc-sps-valid", map[string]interface{}{"sps_hex": hex.EncodeToString(e.Nal), "features": act,
			"expect": fmt.Sprintf("%dx%d fps=%v", exp.W, exp.H, exp.FPS)})
		detail := map[string]interface{}{"case": i, "sps_hex": hex.EncodeToString(e.Nal), "features": act,
			"expect": fmt.Sprintf("%dx%d hasfps=%v fps=%v", exp.W, exp.H, exp.HasFPS, exp.FPS),
			"got":    fmt.Sprintf("%dx%d fps=%v err=%q", e.Out.W, e.Out.H, e.Out.FPS, e.Out.Err)}
		if k.guardFinding("hevc-sps", "H265RawSPS.Decode", e.Guard, e.Nal, detail) {
			continue
		}
		k.count("hevc_sps_unjudged_fixed_frame_rate_flag", 1)
		if len(e.Problems) == 0 {
			k.count("hevc_sps_sets_all_judged_outputs_equal", 1)
			continue
		}
		k.count("hevc_sps_sets_with_mismatch", 1)
		sig, extra := k.attribute265(m, e)
		detail["mismatch"] = e.Problems
		for a, b := range extra {
			detail[a] = b
		}
		c.Violation(sig, detail)
	}
}
