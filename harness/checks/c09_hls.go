package checks

import (
	"bytes"
	"fmt"
	"io"

	"verifharness/kit"

	"github.com/cnotch/ipchub/av/codec"
	"github.com/cnotch/ipchub/av/format/hls"
	"github.com/cnotch/ipchub/av/format/mpegts"
	"github.com/cnotch/xlog"
)

// C09, "the transport stream written for HLS": the packetisers feed hls.SegmentGenerator, which groups ~100 ms of AAC
// frames into one PES and writes through its own mpegts.Writer per segment. The other families of this check write
// straight into one mpegts.Writer, where every AAC frame is its own PES; here the grouped form is judged: per complete
// segment the ADTS frames of every audio PES chain gap-free and their payloads are the source AAC frames in order, and
// every video PES is AUD [+SPS+PPS on key frames] + the source NAL. Source frames are fed synchronously through the
// packetisers (no muxer goroutine), so the segments are complete when the feeding loop returns.

func c09HLS(c *kit.Ctx) {
	n := c.Pick(12, 120)
	for k := 0; k < n; k++ {
		if !c.Mine(k) {
			continue
		}
		ps := k % 2
		asc := k % len(c09ASCs)
		a := c09ASCs[asc]
		rate := c09Rates[a[1]]
		cs := &c09Case{Family: "hls-grouped", Path: "segment-generator", PS: ps, ASC: asc}
		vmeta := &codec.VideoMeta{Codec: "H264", Width: 1280, Height: 720, ClockRate: 90000,
			Sps: append([]byte(nil), c09ParamSets[ps][0]...), Pps: append([]byte(nil), c09ParamSets[ps][1]...)}
		ameta := &codec.AudioMeta{Codec: "AAC", SampleRate: rate, SampleSize: 16, Channels: c09Chans[a[2]], Sps: cs.asc()}
		rng := c.SubRng("c09hls", k)
		pl := hls.NewPlaylist()
		sg, err := hls.NewSegmentGenerator(pl, fmt.Sprintf("/c09/hls%d", k), 1, "", rate, xlog.L())
		if err != nil {
			c.Inconclusive("segment generator: " + err.Error())
			continue
		}
		vp := mpegts.NewH264Packetizer(vmeta, sg)
		ap := mpegts.NewAacPacketizer(ameta, sg)
		// 6.2 s of 25 fps video (key frame every second) and AAC frames of varying size
		type src struct {
			audio bool
			nal   int
			data  []byte
		}
		byID := map[uint32]src{}
		var id uint32
		audioStepNs := int64(1024) * 1_000_000_000 / int64(rate)
		nextA := int64(0)
		viol := func(sig string, d map[string]interface{}) {
			d["case"] = fmt.Sprintf("hls-grouped k=%d ps=%d asc=%d rate=%d", k, ps, asc, rate)
			c.Violation(sig, d)
		}
		c.Pre(fmt.Sprintf("C09 hls-grouped k=%d", k))
		failed := false
		feed := func(f *codec.Frame, audio bool) {
			defer func() {
				if r := recover(); r != nil {
					viol("C09:panic:hls-path", map[string]interface{}{"panic": fmt.Sprint(r)})
					failed = true
				}
			}()
			var e error
			if audio {
				e = ap.Packetize(f)
			} else {
				e = vp.Packetize(f)
			}
			if e != nil {
				viol("C09:run:packetize-error:hls-path", map[string]interface{}{"err": e.Error()})
				failed = true
			}
		}
		for i := 0; i < 156 && !failed; i++ {
			t := int64(i) * 40_000_000
			for nextA <= t && !failed {
				id++
				sz := 8 + rng.Intn(600)
				if k%3 == 0 {
					sz = 150 + rng.Intn(210)
				}
				d := c09Payload(true, 0, id, sz)
				byID[id] = src{audio: true, data: d}
				feed(&codec.Frame{MediaType: codec.MediaTypeAudio, Dts: nextA, Pts: nextA, Payload: d}, true)
				nextA += audioStepNs
			}
			id++
			nal := 1
			if i%25 == 0 {
				nal = 5
			}
			d := c09Payload(false, nal, id, 40+rng.Intn(3000))
			byID[id] = src{nal: nal, data: d}
			feed(&codec.Frame{MediaType: codec.MediaTypeVideo, Dts: t, Pts: t, Payload: d}, false)
		}
		if failed {
			sg.Close()
			continue
		}
		c.Eval(1)
		c.Distinct(fmt.Sprintf("hls-grouped/ps%d/asc%d", ps, asc))
		nseg, naud, nvid, grouped := 0, 0, 0, 0
		lastA, lastV := uint32(0), uint32(0)
		for seq := 0; seq < 12; seq++ {
			r, _, err := pl.Segment(seq)
			if err != nil {
				continue
			}
			data, _ := io.ReadAll(r)
			if cl, ok := r.(io.Closer); ok {
				cl.Close()
			}
			nseg++
			res := kit.DemuxTS(data)
			for code, cnt := range res.ErrorCodes() {
				viol("C09:hls-path:ts:"+code, map[string]interface{}{"segment": seq, "count": cnt})
			}
			for _, p := range res.PESOf(c09AudioPID) {
				frames, err := kit.ParseADTS(p.Data)
				if err != nil {
					viol("C09:hls-path:audio-adts-lengths-do-not-chain", map[string]interface{}{"segment": seq, "pes_bytes": len(p.Data), "frames_before_fault": len(frames), "err": err.Error()})
					continue
				}
				if len(frames) > 1 {
					grouped++
				}
				for _, f := range frames {
					got, ok := c09DecodeID(f.Payload, true)
					s, known := byID[got]
					if !ok || !known || !s.audio || !bytes.Equal(s.data, f.Payload) {
						viol("C09:hls-path:audio-payload-is-no-source-frame", map[string]interface{}{"segment": seq, "len": len(f.Payload), "head": c09Hex(f.Payload, 16)})
						continue
					}
					if lastA != 0 && got <= lastA {
						viol("C09:hls-path:audio-frames-out-of-order", map[string]interface{}{"segment": seq, "id": got, "after": lastA})
					}
					lastA = got
					naud++
				}
			}
			for _, p := range res.PESOf(c09VideoPID) {
				units := kit.SplitAnnexB(p.Data)
				if len(units) == 0 {
					viol("C09:hls-path:video-pes-without-nal", map[string]interface{}{"segment": seq})
					continue
				}
				nalu := units[len(units)-1]
				got, ok := c09DecodeID(nalu, false)
				s, known := byID[got]
				if !ok || !known || s.audio || !bytes.Equal(s.data, nalu) {
					viol("C09:hls-path:video-nal-is-no-source-frame", map[string]interface{}{"segment": seq, "len": len(nalu), "head": c09Hex(nalu, 16)})
					continue
				}
				want := [][]byte{{0x09, 0xf0}}
				if s.nal == 5 {
					want = append(want, c09ParamSets[ps][0], c09ParamSets[ps][1])
				}
				okPrefix := len(units) == len(want)+1
				for i := 0; okPrefix && i < len(want); i++ {
					okPrefix = bytes.Equal(units[i], want[i])
				}
				if !okPrefix {
					viol("C09:hls-path:video-es:aud-sps-pps-prefix", map[string]interface{}{"segment": seq, "nal_type": s.nal, "units": len(units)})
				}
				if lastV != 0 && got <= lastV {
					viol("C09:hls-path:video-frames-out-of-order", map[string]interface{}{"segment": seq, "id": got, "after": lastV})
				}
				lastV = got
				nvid++
			}
		}
		sg.Close()
		c.Count("hls_path_segments_judged", int64(nseg))
		c.Count("hls_path_audio_frames_recovered", int64(naud))
		c.Count("hls_path_video_frames_recovered", int64(nvid))
		c.Count("hls_path_audio_pes_with_more_than_one_adts_frame", int64(grouped))
		if nseg == 0 || grouped == 0 {
			c.Inconclusive("hls-grouped: no complete segment with grouped audio was produced")
		}
	}
}

// c09DecodeID reads the id c09Payload put into bytes 1..4 (video) / 0..4 (audio), base 240.
func c09DecodeID(b []byte, audio bool) (uint32, bool) {
	lo, hi := 1, 4
	if audio {
		lo = 0
	}
	if len(b) <= hi {
		return 0, false
	}
	var id, mul uint32 = 0, 1
	if audio {
		// audio: i==0 is not a NAL header, c09Payload writes the id digits at i<=4 starting with i=0
		lo = 0
	}
	for i := lo; i <= hi; i++ {
		d := int(b[i]) - 0x10
		if d < 0 {
			return 0, false
		}
		id += uint32(d) * mul
		mul *= 240
	}
	return id, true
}
