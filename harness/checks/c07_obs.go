package checks

import (
	"bytes"
	"fmt"
	"regexp"
	"runtime"
	"runtime/debug"
	"strings"
	"sync"
	"time"

	"verifharness/kit"

	"github.com/cnotch/ipchub/av/format/flv"
	"github.com/cnotch/ipchub/av/format/rtp"
	"github.com/cnotch/ipchub/media"
	"github.com/cnotch/xlog"
)

// C07 instruments: hook ledger (who is alive, how far each converter got), log tee (which goroutine
// recovered which panic where), FLV client (what an HTTP-FLV player would have received), quiescence.

// ---------------------------------------------------------------------------------------------
// log tee: ipchub's logger -> kit.Log (unchanged) + a structured record per recovered panic

type c07Panic struct {
	Path  string `json:"path"`  // stream path (logger context)
	Extra string `json:"extra"` // rtp2frame | frame2flv | ts.Muxer | consumer ...
	Pipe  string `json:"pipe"`  // rtpdemuxer | flvmuxer | tsmuxer | consume | other
	Value string `json:"value"` // the recovered value
	Site  string `json:"site"`  // first ipchub frame below the panic, e.g. av/format/rtp.(*SyncClock).Decode
	Line  string `json:"line"`  // file:line of that frame
}

type c07Sink struct {
	mu     sync.Mutex
	panics []c07Panic
}

func (s *c07Sink) Enabled(l xlog.Level) bool { return l >= xlog.WarnLevel }
func (s *c07Sink) Sync() error               { return nil }
func (s *c07Sink) Write(e xlog.Entry) error {
	kit.Log.Write(e)
	if e.Level < xlog.ErrorLevel || !strings.Contains(e.Message, "panic") {
		return nil
	}
	p := c07Panic{Pipe: "other"}
	for _, fs := range [][]xlog.Field{e.Ctx, e.Fields} {
		for _, f := range fs {
			switch f.Key {
			case "path":
				p.Path = fmt.Sprint(f.Val)
			case "extra":
				p.Extra = fmt.Sprint(f.Val)
			}
		}
	}
	switch {
	case strings.HasPrefix(e.Message, "FrameConverter routine panic"):
		p.Pipe = "rtpdemuxer"
	case strings.HasPrefix(e.Message, "flvmuxer routine panic"):
		p.Pipe = "flvmuxer"
	case strings.HasPrefix(e.Message, "ts muxer routine panic"):
		p.Pipe = "tsmuxer"
	case strings.HasPrefix(e.Message, "consume routine panic"):
		p.Pipe = "consume"
	}
	if i := strings.Index(e.Message, "r = "); i >= 0 {
		v := e.Message[i+4:]
		if j := strings.Index(v, "\n"); j >= 0 {
			v = v[:j]
		}
		p.Value = strings.TrimSpace(v)
	}
	p.Site, p.Line = c07SiteFromStack(e.Message)
	s.mu.Lock()
	s.panics = append(s.panics, p)
	s.mu.Unlock()
	return nil
}

func (s *c07Sink) take() []c07Panic {
	s.mu.Lock()
	defer s.mu.Unlock()
	p := s.panics
	s.panics = nil
	return p
}

var c07FrameRe = regexp.MustCompile(`github\.com/cnotch/ipchub/([\w/\.\(\)\*]+)\(.*\n\s+(\S+\.go:\d+)`)

// c07SiteFromStack returns the first ipchub frame below the runtime's panic frame of a stack dump.
func c07SiteFromStack(stack string) (site, line string) {
	site, line = "unknown", ""
	idx := strings.Index(stack, "\npanic(")
	if idx < 0 {
		idx = strings.Index(stack, "panic(")
	}
	if idx >= 0 {
		stack = stack[idx:]
	}
	for _, m := range c07FrameRe.FindAllStringSubmatch(stack, -1) {
		if strings.Contains(m[1], ".func") && strings.Contains(m[1], "process") {
			continue // the deferred recover closure itself
		}
		site = m[1]
		line = m[2]
		if i := strings.Index(line, "/repo"); i >= 0 { // keep the path relative to the repository
			line = line[i:]
			if j := strings.Index(line[1:], "/"); j >= 0 {
				line = line[j+2:]
			}
		}
		break
	}
	return
}

// ---------------------------------------------------------------------------------------------
// hook ledger

type c07Ledger struct {
	mu      sync.Mutex
	kind    map[interface{}]string // converter / consumer object -> pipeline
	pending []interface{}          // converters that entered and are not yet claimed by a stream
	entered map[interface{}]bool
	exited  map[interface{}]bool
	pops    map[interface{}]int
	rtpSent map[interface{}]int // *media.Stream -> packets handed to the RTP consumers
	flvSent map[interface{}]int // *media.Stream -> tags handed to the FLV consumers
	rules   []*kit.Rule
}

func newC07Ledger() *c07Ledger {
	l := &c07Ledger{kind: map[interface{}]string{}, entered: map[interface{}]bool{}, exited: map[interface{}]bool{},
		pops: map[interface{}]int{}, rtpSent: map[interface{}]int{}, flvSent: map[interface{}]int{}}
	for _, n := range []string{"rtpdemuxer", "flvmuxer", "tsmuxer", "media.consume"} {
		n := n
		l.rules = append(l.rules, kit.H.On(n+".enter", nil, func(_ string, a []interface{}) {
			l.mu.Lock()
			l.kind[a[0]] = n
			l.entered[a[0]] = true
			if n != "media.consume" {
				l.pending = append(l.pending, a[0])
			}
			l.mu.Unlock()
		}))
		l.rules = append(l.rules, kit.H.On(n+".exit", nil, func(_ string, a []interface{}) {
			l.mu.Lock()
			l.exited[a[0]] = true
			l.mu.Unlock()
		}))
		l.rules = append(l.rules, kit.H.On(n+".beforePop", nil, func(_ string, a []interface{}) {
			l.mu.Lock()
			l.pops[a[0]]++
			l.mu.Unlock()
		}))
	}
	l.rules = append(l.rules, kit.H.On("media.write.sent", nil, func(_ string, a []interface{}) {
		l.mu.Lock()
		l.rtpSent[a[0]]++
		l.mu.Unlock()
	}))
	l.rules = append(l.rules, kit.H.On("media.flvwrite.sent", nil, func(_ string, a []interface{}) {
		l.mu.Lock()
		l.flvSent[a[0]]++
		l.mu.Unlock()
	}))
	return l
}

func (l *c07Ledger) close() { kit.RemoveAll(l.rules) }

func (l *c07Ledger) isExited(o interface{}) bool {
	l.mu.Lock()
	defer l.mu.Unlock()
	return l.exited[o]
}
func (l *c07Ledger) isEntered(o interface{}) bool {
	l.mu.Lock()
	defer l.mu.Unlock()
	return l.entered[o]
}
func (l *c07Ledger) npops(o interface{}) int {
	l.mu.Lock()
	defer l.mu.Unlock()
	return l.pops[o]
}
func (l *c07Ledger) sent(s *media.Stream) (rtpN, flvN int) {
	l.mu.Lock()
	defer l.mu.Unlock()
	return l.rtpSent[s], l.flvSent[s]
}
func (l *c07Ledger) npending() int {
	l.mu.Lock()
	defer l.mu.Unlock()
	return len(l.pending)
}
func (l *c07Ledger) claim() map[string]interface{} {
	l.mu.Lock()
	defer l.mu.Unlock()
	out := map[string]interface{}{}
	for _, o := range l.pending {
		out[l.kind[o]] = o
	}
	l.pending = nil
	return out
}
func (l *c07Ledger) forget(objs ...interface{}) {
	l.mu.Lock()
	defer l.mu.Unlock()
	for _, o := range objs {
		delete(l.kind, o)
		delete(l.entered, o)
		delete(l.exited, o)
		delete(l.pops, o)
		delete(l.rtpSent, o)
		delete(l.flvSent, o)
	}
}

// ---------------------------------------------------------------------------------------------
// FLV client: what service/flv/httpflv.go builds for a player (flv.Writer over the connection)

type c07FlvClient struct {
	mu       sync.Mutex
	w        *flv.Writer
	buf      bytes.Buffer
	nTags    int
	werr     string
	panicked string
	closed   bool
}

func (cl *c07FlvClient) Consume(p media.Pack) {
	tag, ok := p.(*flv.Tag)
	if !ok {
		return
	}
	cl.mu.Lock()
	defer cl.mu.Unlock()
	defer func() {
		if r := recover(); r != nil && cl.panicked == "" {
			cl.panicked = fmt.Sprint(r)
		}
	}()
	cl.nTags++
	if cl.closed || cl.w == nil {
		return
	}
	if err := cl.w.WriteFlvTag(tag); err != nil && cl.werr == "" {
		cl.werr = err.Error()
	}
}

func (cl *c07FlvClient) Close() error {
	cl.mu.Lock()
	cl.closed = true
	cl.mu.Unlock()
	return nil
}

func (cl *c07FlvClient) tags() int {
	cl.mu.Lock()
	defer cl.mu.Unlock()
	return cl.nTags
}

func (cl *c07FlvClient) bytes() []byte {
	cl.mu.Lock()
	defer cl.mu.Unlock()
	return append([]byte(nil), cl.buf.Bytes()...)
}

// ---------------------------------------------------------------------------------------------
// one stream under observation

type c07Stream struct {
	s      *media.Stream
	path   string
	codec  string
	conv   map[string]interface{} // rtpdemuxer | flvmuxer | tsmuxer -> converter object
	rtp    *kit.RecConsumer
	flv    *c07FlvClient
	pushed int // WriteRtpPacket calls that reached the demuxer queue
	vseq   uint16
	aseq   uint16
	vts    uint32
	ats    uint32

	pubPanic *c07Panic // WriteRtpPacket panicked on the publisher's goroutine
}

var c07Pipes = []string{"rtpdemuxer", "flvmuxer", "tsmuxer"}

const c07Watch = 20 * time.Second

var c07Serial int

// c07Wait polls cond: first yielding (conditions normally hold within microseconds), then sleeping.
// The duration only bounds the wait; callers decide on the state they find afterwards.
func c07Wait(cond func() bool, d time.Duration) bool {
	start := time.Now()
	for i := 0; ; i++ { // a sleep costs >1 ms on this kind of host, a yield 100 ns
		if cond() {
			return true
		}
		runtime.Gosched()
		if i%64 == 63 && time.Since(start) > 5*time.Millisecond {
			break
		}
	}
	deadline := start.Add(d)
	for i := 0; ; i++ {
		if cond() {
			return true
		}
		if time.Now().After(deadline) {
			return false
		}
		if i < 200 {
			time.Sleep(20 * time.Microsecond)
		} else {
			time.Sleep(time.Millisecond)
		}
	}
}

// c07NewStream creates a stream with its two consumers and learns its converter objects from the ledger.
func c07NewStream(c *kit.Ctx, l *c07Ledger, codec string, role string) (*c07Stream, string) {
	c07Serial++
	st := &c07Stream{codec: codec, path: fmt.Sprintf("/c07/%s/s%d/n%d", role, c.Shard, c07Serial)}
	sdp := kit.SDPH264AAC
	want := 3
	if codec == "H265" {
		sdp = kit.SDPH265AAC
		want = 2 // no TS muxer for H.265
	}
	if n := l.npending(); n != 0 {
		l.claim()
	}
	st.s = media.NewStream(st.path, sdp)
	if !c07Wait(func() bool { return l.npending() >= want }, c07Watch) {
		st.s.Close()
		return nil, fmt.Sprintf("stream %s: %d of %d converter goroutines started", codec, l.npending(), want)
	}
	st.conv = l.claim()
	tf := st.s.FlvTypeFlags()
	if tf == 0 {
		st.s.Close()
		return nil, "stream has no FLV muxer"
	}
	st.rtp = &kit.RecConsumer{Name: st.path}
	st.flv = &c07FlvClient{}
	w, err := flv.NewWriter(&st.flv.buf, tf) // as ConsumeByHTTP: header first, then StartConsume
	if err != nil {
		st.s.Close()
		return nil, "flv.NewWriter: " + err.Error()
	}
	st.flv.w = w
	st.s.StartConsume(st.rtp, media.RTPPacket, "c07")
	st.s.StartConsume(st.flv, media.FLVPacket, "c07")
	st.vseq, st.aseq = 65530, 100 // the video sequence number wraps inside the prefix
	st.vts, st.ats = 90000, 44100
	return st, ""
}

// materialise turns a proto into the packet object that is published.
func (st *c07Stream) materialise(p *c07proto) *rtp.Packet {
	switch p.ch {
	case kit.ChVideo:
		st.vts += p.tsStep
		pkt := kit.MakeRTP(kit.ChVideo, 96, p.marker, st.vseq, st.vts, c07SSRC, p.payload)
		st.vseq++
		return pkt
	case kit.ChAudio:
		st.ats += p.tsStep
		pkt := kit.MakeRTP(kit.ChAudio, 97, p.marker, st.aseq, st.ats, c07SSRC+1, p.payload)
		st.aseq++
		return pkt
	default:
		return kit.MakeControl(p.ch, p.payload)
	}
}

// write publishes one packet the way the RTSP session does; a panic here would end the publishing session.
func (st *c07Stream) write(pkt *rtp.Packet) (ok bool) {
	defer func() {
		if r := recover(); r != nil {
			site, line := c07SiteFromStack(string(debug.Stack()))
			st.pubPanic = &c07Panic{Path: st.path, Pipe: "publisher", Value: fmt.Sprint(r), Site: site, Line: line}
			ok = false
		}
	}()
	if err := st.s.WriteRtpPacket(pkt); err != nil {
		return false
	}
	st.pushed++
	return true
}

type c07Stuck struct {
	Pipe  string `json:"pipe"`
	State string `json:"state"`
	Top   string `json:"top"`
	Stack string `json:"stack"`
}

// c07Dump is kit.Goroutines with a reused buffer (the stock helper allocates 1 MiB per call, which
// dominates the run time when it is polled).
var c07DumpBuf = make([]byte, 64<<10)

type c07G struct {
	State string
	Raw   string
}

var c07Dumps int64

func c07Dump() []c07G {
	c07Dumps++
	for {
		n := runtime.Stack(c07DumpBuf, true)
		if n < len(c07DumpBuf) {
			var out []c07G
			for _, blk := range strings.Split(string(c07DumpBuf[:n]), "\n\n") {
				if !strings.HasPrefix(blk, "goroutine ") {
					continue
				}
				st := ""
				if i := strings.IndexByte(blk, '['); i >= 0 {
					if j := strings.IndexAny(blk[i:], ",]"); j > 0 {
						st = blk[i+1 : i+j]
					}
				}
				out = append(out, c07G{State: st, Raw: blk})
			}
			return out
		}
		c07DumpBuf = make([]byte, 2*len(c07DumpBuf))
	}
}

func (g *c07G) has(sub string) bool { return g != nil && strings.Contains(g.Raw, sub) }

// top returns the innermost ipchub function of the goroutine.
func (g *c07G) top() string {
	for _, l := range strings.Split(g.Raw, "\n") {
		if strings.HasPrefix(l, "github.com/cnotch/ipchub/") {
			if i := strings.LastIndexByte(l, '('); i > 0 {
				return strings.TrimPrefix(l[:i], "github.com/cnotch/ipchub/")
			}
		}
	}
	return ""
}

func c07FindByPtr(snap []c07G, fn string, obj interface{}) *c07G {
	a := fmt.Sprintf("%s(%p)", fn, obj)
	b := fmt.Sprintf("%s(%p,", fn, obj)
	for i := range snap {
		if strings.Contains(snap[i].Raw, a) || strings.Contains(snap[i].Raw, b) {
			return &snap[i]
		}
	}
	return nil
}

var c07ProcFn = map[string]string{
	"rtpdemuxer": "rtp.(*Demuxer).process",
	"flvmuxer":   "flv.(*Muxer).process",
	"tsmuxer":    "mpegts.(*Muxer).process",
}

func c07Parked(g *c07G) bool {
	return g != nil && strings.Contains(g.State, "sync.Cond.Wait") && g.has("SyncQueue).Pop(")
}

// quiesce waits until everything published so far has been fully processed: the demuxer has popped every
// packet, every converter goroutine of the stream is parked on its empty queue (or has exited), and the
// consumers have been handed everything the stream dispatched. Decided on state (hook counters, goroutine
// profile); the watchdog only bounds the wait.
func (st *c07Stream) quiesce(l *c07Ledger) (stuck []c07Stuck) {
	dem := st.conv["rtpdemuxer"]
	c07Wait(func() bool { return l.isExited(dem) || l.npops(dem) >= st.pushed+1 }, c07Watch)
	ok := c07Wait(func() bool {
		var snap []c07G
		for _, p := range c07Pipes {
			o, has := st.conv[p]
			if !has || l.isExited(o) {
				continue
			}
			if snap == nil {
				snap = c07Dump()
			}
			if !c07Parked(c07FindByPtr(snap, c07ProcFn[p], o)) {
				return false
			}
		}
		return true
	}, c07Watch)
	if !ok {
		snap := c07Dump()
		for _, p := range c07Pipes {
			o, has := st.conv[p]
			if !has || l.isExited(o) {
				continue
			}
			g := c07FindByPtr(snap, c07ProcFn[p], o)
			if c07Parked(g) {
				continue
			}
			sk := c07Stuck{Pipe: p, State: "goroutine-not-found"}
			if g != nil {
				sk.State = g.State
				sk.Stack = g.Raw
				sk.Top = g.top()
			}
			stuck = append(stuck, sk)
		}
		return
	}
	// consumers: everything dispatched by the stream has been delivered (or the delivery goroutine ended)
	c07Wait(func() bool {
		rn, fn := l.sent(st.s)
		return (st.rtp.Len() >= rn || l.isExited(st.rtp)) && (st.flv.tags() >= fn || l.isExited(st.flv))
	}, c07Watch)
	return nil
}

// alive lists the converter pipelines whose goroutine has left the ledger.
func (st *c07Stream) dead(l *c07Ledger) []string {
	var out []string
	for _, p := range c07Pipes {
		if o, has := st.conv[p]; has && l.isExited(o) {
			out = append(out, p)
		}
	}
	return out
}

// closeAndReap closes the stream and waits for every goroutine it owned to leave the ledger.
func (st *c07Stream) closeAndReap(l *c07Ledger) (left []string) {
	st.s.Close()
	objs := []interface{}{st.rtp, st.flv, st.s}
	for _, p := range c07Pipes {
		if o, has := st.conv[p]; has {
			objs = append(objs, o)
		}
	}
	ok := c07Wait(func() bool {
		for _, o := range objs[:len(objs)] {
			if o == interface{}(st.s) {
				continue
			}
			if l.isEntered(o) && !l.isExited(o) {
				return false
			}
		}
		return true
	}, c07Watch)
	if !ok {
		for _, o := range objs {
			if o != interface{}(st.s) && l.isEntered(o) && !l.isExited(o) {
				left = append(left, fmt.Sprintf("%T", o))
			}
		}
	}
	l.forget(objs...)
	return
}

// ---------------------------------------------------------------------------------------------
// reading the outputs back with the harness's own FLV reader

// c07FlvIDs returns the unit ids found intact in the FLV byte stream, in order, plus the number of tags.
func c07FlvIDs(codec string, data []byte) (ids []uint64, nVideo, nAudio int, errs []string) {
	res := kit.ReadFLV(data)
	hdr := 1
	if codec == "H265" {
		hdr = 2
	}
	for i := range res.Tags {
		t := &res.Tags[i]
		switch {
		case t.Video != nil && t.Video.IsNALCodec && t.Video.PacketType == 1:
			nVideo++
			for _, n := range t.Video.NALUs {
				if len(n) >= hdr+12 {
					if id, ok := kit.CheckBody(n[hdr:]); ok && id&^0xffff == c07IDBase {
						ids = append(ids, id)
					}
				}
			}
		case t.Audio != nil && t.Audio.IsAAC && t.Audio.AACPacketType == 1:
			nAudio++
			if id, ok := kit.CheckBody(t.Audio.Body); ok && id&^0xffff == c07IDBase {
				ids = append(ids, id)
			}
		}
	}
	return ids, nVideo, nAudio, res.ErrorCodes()
}
