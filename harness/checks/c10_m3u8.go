package checks

import (
	"fmt"
	"strconv"
	"strings"
)

// Independent HLS media-playlist reader for C10, written from RFC 8216 section 4 (shares nothing with ipchub).
// It never fails hard: every structural problem becomes a stable code in Errs.

type c10Entry struct {
	DurText       string  `json:"extinf"`
	Dur           float64 `json:"dur"`
	URI           string  `json:"uri"`
	Discontinuity bool    `json:"disc,omitempty"`
	// URI split by c10SplitURI
	Path  string `json:"-"`
	Query string `json:"-"`
	HasQ  bool   `json:"-"`
}

type c10Playlist struct {
	Version      int        `json:"version"`
	Target       int        `json:"target"`
	HasTarget    bool       `json:"has_target"`
	MediaSeq     int        `json:"media_sequence"`
	HasMediaSeq  bool       `json:"has_media_sequence"`
	Entries      []c10Entry `json:"entries"`
	Errs         []string   `json:"errs,omitempty"`
	OtherTags    []string   `json:"other_tags,omitempty"`
	EndList      bool       `json:"endlist,omitempty"`
	TargetChange bool       `json:"-"`
}

func (p *c10Playlist) err(code string) {
	for _, e := range p.Errs {
		if e == code {
			return
		}
	}
	p.Errs = append(p.Errs, code)
}

// c10ParseDecimal accepts decimal-integer or decimal-floating-point (RFC 8216 4.2): digits [ "." digits ].
func c10ParseDecimal(s string) (float64, bool) {
	if s == "" {
		return 0, false
	}
	dots := 0
	for i := 0; i < len(s); i++ {
		switch {
		case s[i] >= '0' && s[i] <= '9':
		case s[i] == '.' && dots == 0 && i > 0 && i < len(s)-1:
			dots++
		default:
			return 0, false
		}
	}
	v, err := strconv.ParseFloat(s, 64)
	return v, err == nil
}

func c10ParseUint(s string) (int, bool) {
	if s == "" || len(s) > 18 {
		return 0, false
	}
	n := 0
	for i := 0; i < len(s); i++ {
		if s[i] < '0' || s[i] > '9' {
			return 0, false
		}
		n = n*10 + int(s[i]-'0')
	}
	return n, true
}

func c10ParseM3U8(b []byte) *c10Playlist {
	p := &c10Playlist{}
	for _, x := range b {
		if x == 0 || (x < 0x20 && x != '\n' && x != '\r' && x != '\t') || x >= 0x7f {
			p.err("control-or-non-ascii-byte")
			break
		}
	}
	if len(b) > 0 && b[len(b)-1] != '\n' {
		p.err("last-line-not-terminated")
	}
	lines := strings.Split(string(b), "\n")
	first := true
	var pending *c10Entry
	disc := false
	for _, ln := range lines {
		ln = strings.TrimSuffix(ln, "\r")
		if ln == "" {
			continue
		}
		if first {
			first = false
			if ln != "#EXTM3U" {
				p.err("first-line-not-extm3u")
			} else {
				continue
			}
		}
		if !strings.HasPrefix(ln, "#") {
			// URI line
			if ln != strings.TrimSpace(ln) {
				p.err("uri-with-surrounding-space")
			}
			if pending == nil {
				p.err("uri-without-extinf")
				continue
			}
			pending.URI = ln
			pending.Discontinuity = disc
			disc = false
			pending.Path, pending.Query, pending.HasQ = c10SplitURI(ln)
			p.Entries = append(p.Entries, *pending)
			pending = nil
			continue
		}
		if !strings.HasPrefix(ln, "#EXT") {
			continue // comment
		}
		tag, val := ln, ""
		if i := strings.IndexByte(ln, ':'); i >= 0 {
			tag, val = ln[:i], ln[i+1:]
		}
		switch tag {
		case "#EXTM3U":
			p.err("extm3u-repeated")
		case "#EXT-X-VERSION":
			v, ok := c10ParseUint(val)
			if !ok {
				p.err("version-syntax")
			}
			p.Version = v
		case "#EXT-X-TARGETDURATION":
			v, ok := c10ParseUint(val)
			if !ok {
				p.err("targetduration-syntax")
			}
			if p.HasTarget {
				p.err("targetduration-repeated")
			}
			p.Target, p.HasTarget = v, true
		case "#EXT-X-MEDIA-SEQUENCE":
			v, ok := c10ParseUint(val)
			if !ok {
				p.err("media-sequence-syntax")
			}
			if p.HasMediaSeq {
				p.err("media-sequence-repeated")
			}
			if len(p.Entries) > 0 || pending != nil {
				p.err("media-sequence-after-first-segment")
			}
			p.MediaSeq, p.HasMediaSeq = v, true
		case "#EXTINF":
			if pending != nil {
				p.err("extinf-without-uri")
			}
			d := val
			if i := strings.IndexByte(val, ','); i >= 0 {
				d = val[:i]
			} else {
				// RFC 8216 4.3.2.1: "#EXTINF:<duration>,[<title>]" - the comma is part of the syntax
				p.err("extinf-no-comma")
			}
			f, ok := c10ParseDecimal(d)
			if !ok {
				p.err("extinf-syntax")
			}
			pending = &c10Entry{DurText: d, Dur: f}
		case "#EXT-X-DISCONTINUITY":
			disc = true
		case "#EXT-X-ENDLIST":
			p.EndList = true
		default:
			p.OtherTags = append(p.OtherTags, tag)
		}
	}
	if first {
		p.err("empty")
	}
	if pending != nil {
		p.err("extinf-without-uri")
	}
	if !p.HasTarget {
		p.err("targetduration-missing")
	}
	return p
}

// c10SplitURI splits at the first '?'.
func c10SplitURI(u string) (path, query string, hasQ bool) {
	if i := strings.IndexByte(u, '?'); i >= 0 {
		return u[:i], u[i+1:], true
	}
	return u, "", false
}

// c10ResolveURI does what a client + the /streams/ HTTP route do with a segment URI: strip the query, require the
// "/streams" prefix and the ".ts" extension, split "<stream path>/<seq>". ok=false when the URI cannot address a segment.
func c10ResolveURI(uriPath string) (streamPath string, seq int, why string, ok bool) {
	const pfx = "/streams"
	if !strings.HasPrefix(uriPath, pfx+"/") {
		return "", 0, "no /streams/ prefix", false
	}
	rest := uriPath[len(pfx):]
	if !strings.HasSuffix(rest, ".ts") {
		return "", 0, "extension is not .ts", false
	}
	rest = strings.TrimSuffix(rest, ".ts")
	i := strings.LastIndexByte(rest, '/')
	if i < 0 {
		return "", 0, "no '/' before the sequence number", false
	}
	n, okn := c10ParseUint(rest[i+1:])
	if !okn {
		return "", 0, fmt.Sprintf("sequence %q is not a decimal number", rest[i+1:]), false
	}
	return rest[:i], n, "", true
}
