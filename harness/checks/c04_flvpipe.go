package checks

import (
	"fmt"
	"time"

	"verifharness/kit"

	"github.com/cnotch/ipchub/av/format/flv"
	"github.com/cnotch/ipchub/config"
	"github.com/cnotch/ipchub/media"
)

// C04 for FLV consumers behind the real pipeline: the FLV patterns in c04.go hand-build their tags (key flag included);
// HTTP-FLV / WebSocket-FLV consumers, however, are fed by RTP -> depacketiser -> FLV muxer -> flvConsumptions, and the
// backlog limit of a stalled FLV consumer only works if that path marks the key pictures it is given - every kind of
// them (H.264 IDR; H.265 IDR_W_RADL, IDR_N_LP, BLA, CRA of open-GOP encoders). One stalled and one healthy FLV consumer
// on a stream with a key picture every G packets: the stalled consumer's queue must stay within limit + GOP (+ the
// three header tags), and what it is given after a gap must start at a key picture.

func c04FlvPipeline(c *kit.Ctx) {
	type kind struct {
		codec string
		key   byte
	}
	kinds := []kind{{"H264", 5}, {"H265", 19}, {"H265", 21}, {"H265", 20}, {"H265", 16}, {"H265", 21}}
	rounds := c.Pick(len(kinds), 4*len(kinds))
	for ri := 0; ri < rounds; ri++ {
		if !c.Mine(ri) {
			continue
		}
		k := kinds[ri%len(kinds)]
		rng := c.SubRng("c04flvpipe", ri)
		g := []int{25, 50, 120}[(ri/len(kinds))%3]
		n := 3000 + rng.Intn(1500)
		config.VerifSet(false, false, "", 5)
		sdp := kit.SDPH264Only
		if k.codec == "H265" {
			sdp = kit.SDPH265AAC
		}
		s := media.NewStream(fmt.Sprintf("/c04fp/s%d/%d", c.Shard, ri), sdp)
		if s.FlvTypeFlags() == 0 {
			c.Inconclusive("flv pipeline: stream has no FLV capability")
			s.Close()
			continue
		}
		scen := fmt.Sprintf("flv-pipeline/%s/key-nal-type-%d/G=%d", k.codec, k.key, g)
		c.Pre("C04 " + scen)
		release := make(chan struct{})
		healthy := &kit.RecConsumer{}
		stalled := &kit.RecConsumer{Block: release, BlockFrom: 10 + rng.Intn(40)}
		hcid := s.StartConsumeNoGopCache(healthy, media.FLVPacket, "healthy")
		scid := s.StartConsumeNoGopCache(stalled, media.FLVPacket, "stalled")
		seq, ts := uint16(rng.Intn(60000)), uint32(rng.Intn(1<<30))
		isKey := map[uint64]bool{}
		var maxQ int
		for i := 0; i < n; i++ {
			id := uint64(ri)<<24 + uint64(i) + 1
			typ := byte(1)
			if i%g == 0 {
				typ = k.key
				isKey[id] = true
			}
			var nal []byte
			if k.codec == "H264" {
				nal = kit.H264NAL(2, typ, 40+rng.Intn(80), id)
			} else {
				nal = kit.H265NAL(typ, 1, 40+rng.Intn(80), id)
			}
			s.WriteRtpPacket(kit.MakeRTP(kit.ChVideo, 96, true, seq, ts, 0x4441, nal))
			seq++
			ts += 3000
			if i == n*2/3 {
				// the stall ends while the publication goes on: dropping must end at a key picture
				if q, _, ok := media.VerifQueueState(s, scid); ok && q > maxQ {
					maxQ = q
				}
				close(release)
			}
			if i%32 == 0 {
				// relative speed: never run far ahead of the muxer / the healthy consumer (never waits on the stalled one)
				for w := 0; w < 20000 && healthy.Len() < i-300; w++ {
					time.Sleep(50 * time.Microsecond)
				}
				if q, _, ok := media.VerifQueueState(s, scid); ok && q > maxQ {
					maxQ = q
				}
			}
		}
		// everything muxed and handed to the healthy consumer: the stalled one's queue now holds what it was left with
		allMuxed := waitUntil(func() bool {
			q, _, ok := media.VerifQueueState(s, hcid)
			return healthy.Len() >= n && ok && q == 0
		}, 30*time.Second)
		drained := waitUntil(func() bool {
			q, _, ok := media.VerifQueueState(s, scid)
			return !ok || q == 0
		}, 30*time.Second)
		time.Sleep(5 * time.Millisecond)
		items := stalled.Items()
		s.Close()
		if !allMuxed || !drained {
			c.Inconclusive("flv pipeline: the muxer or the consumers did not finish within the watchdog")
			continue
		}
		c.Eval(1)
		c.Distinct(scen)
		c.SetAdd("flv_pipeline_key_picture_kinds", fmt.Sprintf("%s/%d", k.codec, k.key))
		detail := map[string]interface{}{"scenario": scen, "packets": n, "max_queue_len_of_stalled_flv_consumer": maxQ}
		bound := 1000 + g + 2 + 3
		if maxQ > bound {
			detail["bound"] = bound
			c.Violation(fmt.Sprintf("C04:flv-pipeline:backlog-exceeds-limit-plus-gop:%s:key-nal-type-%d", k.codec, k.key), detail)
			continue
		}
		// what the stalled consumer was given: ids ascending; after a gap the next video tag is a key picture
		hdr := 1
		if k.codec == "H265" {
			hdr = 2
		}
		var last uint64
		gaps := 0
		for _, it := range items {
			t, ok := it.Pack.(*flv.Tag)
			if !ok || t.TagType != flv.TagTypeVideo || len(t.Data) < 9+hdr+12 || t.Data[1] != 1 {
				continue
			}
			id, good := kit.CheckBody(t.Data[9+hdr:])
			if !good {
				continue
			}
			if last != 0 && id != last+1 {
				gaps++
				if !isKey[id] {
					detail["gap"] = []uint64{last + 1, id}
					c.Violation(fmt.Sprintf("C04:flv-pipeline:drop-ends-mid-gop:%s:key-nal-type-%d", k.codec, k.key), detail)
					break
				}
				if !isKey[last+1] {
					detail["gap"] = []uint64{last + 1, id}
					c.Violation(fmt.Sprintf("C04:flv-pipeline:drop-begins-mid-gop:%s:key-nal-type-%d", k.codec, k.key), detail)
					break
				}
			}
			last = id
		}
		c.Count("flv_pipeline_gaps_in_stalled_consumer", int64(gaps))
	}
}
