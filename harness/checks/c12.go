package checks

import (
	"fmt"
	"io"
	"strings"
	"sync/atomic"
	"time"

	"verifharness/kit"

	"github.com/cnotch/ipchub/media"
)

// C12 — RTSP sessions answer every request once and follow the legal method order.
//
// Real service in-process, scripted clients over real TCP / WebSocket sockets. Every request is sent
// together with an OPTIONS probe: responses come back in order, so "request k got no response" is decided
// on the CSeq of the next response (logical order), never on a timeout. A reference automaton derived
// from the statement gives, per (state, symbol), the admissible status class and the successor state.

func init() { kit.Register("C12", runC12) }

type c12sym struct {
	name   string
	method string
	// SETUP parameters
	track, tr, mode string
	raw             string // tr == "bad": the Transport header verbatim
}

// c12BadTransports: invalid Transport headers - a contradictory or malformed parameter, alone and followed by a
// well-formed parameter (a later parameter must not make an earlier problem forgotten).
var c12BadTransports = map[string]string{
	"tcpmcast":         "RTP/AVP/TCP;multicast;interleaved=0-1",
	"interleaved":      "RTP/AVP/TCP;unicast;interleaved=x-y",
	"clientport":       "RTP/AVP;unicast;client_port=abc",
	"tcpmcast_ttl":     "RTP/AVP/TCP;multicast;interleaved=0-1;ttl=16",
	"interleaved_ttl":  "RTP/AVP/TCP;unicast;interleaved=x-y;ttl=16",
	"clientport_ttl":   "RTP/AVP;unicast;client_port=abc;ttl=16",
	"interleaved_ssrc": "RTP/AVP/TCP;unicast;interleaved=x-y;ssrc=0A0B0C0D",
	"clientport_dest":  "RTP/AVP;unicast;client_port=abc;destination=127.0.0.1",
}

func c12Alphabet() []c12sym {
	a := []c12sym{
		{name: "OPTIONS", method: "OPTIONS"},
		{name: "DESCRIBE", method: "DESCRIBE"},
		{name: "DESCRIBE_missing", method: "DESCRIBE"},
		{name: "ANNOUNCE", method: "ANNOUNCE"},
		{name: "ANNOUNCE_badsdp", method: "ANNOUNCE"},
		{name: "ANNOUNCE_noctype", method: "ANNOUNCE"},
	}
	for _, track := range []string{"v", "a"} {
		for _, tr := range []string{"tcp", "udp", "mcast"} {
			for _, mode := range []string{"play", "record"} {
				a = append(a, c12sym{name: fmt.Sprintf("SETUP_%s_%s_%s", track, tr, mode), method: "SETUP", track: track, tr: tr, mode: mode})
			}
		}
	}
	a = append(a,
		c12sym{name: "SETUP_badtransport", method: "SETUP", track: "v", tr: "bad", mode: "play"},
		c12sym{name: "SETUP_bad_interleaved_ttl", method: "SETUP", track: "v", tr: "bad", mode: "play", raw: c12BadTransports["interleaved_ttl"]},
		c12sym{name: "SETUP_bad_tcpmcast_ttl_record", method: "SETUP", track: "v", tr: "bad", mode: "record", raw: c12BadTransports["tcpmcast_ttl"]},
		c12sym{name: "SETUP_unknowncontrol", method: "SETUP", track: "x", tr: "tcp", mode: "play"},
		c12sym{name: "PLAY", method: "PLAY"},
		c12sym{name: "RECORD", method: "RECORD"},
		c12sym{name: "PAUSE", method: "PAUSE"},
		c12sym{name: "GET_PARAMETER", method: "GET_PARAMETER"},
		c12sym{name: "TEARDOWN", method: "TEARDOWN"},
		c12sym{name: "FOO", method: "FOO"},
	)
	return a
}

// reduced alphabet: one representative per automaton edge
func c12Reduced(full []c12sym) []c12sym {
	want := map[string]bool{"OPTIONS": true, "DESCRIBE": true, "ANNOUNCE": true, "ANNOUNCE_badsdp": true, "SETUP_v_tcp_play": true, "SETUP_v_tcp_record": true,
		"PLAY": true, "RECORD": true, "PAUSE": true, "TEARDOWN": true}
	var out []c12sym
	for _, s := range full {
		if want[s.name] {
			out = append(out, s)
		}
	}
	return out
}

type c12state struct {
	phase     string // init | ready | playing | recording | closed
	mode      string // "" | play | record
	described bool
}

// c12Expect returns the admissible status class: "200", "455", "refuse" (any non-2xx), "any" (exactly one
// response, statement silent on the code), and a function giving the successor state for the observed code.
func c12Expect(st c12state, s c12sym, mcastOK bool, ws bool, announced bool) (string, func(code int) c12state) {
	same := func(int) c12state { return st }
	if ws && s.name == "DESCRIBE_missing" {
		// a WebSocket session's path comes from the ws:// URL; the request URL of DESCRIBE is ignored
		s = c12sym{name: "DESCRIBE", method: "DESCRIBE"}
	}
	switch s.method {
	case "OPTIONS":
		return "200", same
	case "TEARDOWN":
		return "200", func(int) c12state { return c12state{phase: "closed"} }
	case "PAUSE", "GET_PARAMETER", "FOO":
		return "refuse", same
	case "DESCRIBE":
		if st.phase != "init" {
			return "455", same
		}
		if s.name == "DESCRIBE_missing" {
			return "refuse", same
		}
		okc := "200"
		if st.mode == "record" || (ws && announced) {
			okc = "any" // switching from announce to describe inside one session: statement silent
		}
		return okc, func(code int) c12state {
			if code == 200 {
				return c12state{phase: "init", mode: "play", described: true}
			}
			return st
		}
	case "ANNOUNCE":
		if st.phase != "init" {
			return "455", same
		}
		if s.name != "ANNOUNCE" {
			return "refuse", same
		}
		okc2 := "200"
		if st.mode == "play" {
			okc2 = "any" // switching from describe to announce inside one session: statement silent
		}
		return okc2, func(code int) c12state {
			if code == 200 {
				return c12state{phase: "init", mode: "record", described: true}
			}
			return st
		}
	case "SETUP":
		if st.phase == "playing" || st.phase == "recording" {
			return "455", same
		}
		if !st.described || s.tr == "bad" || s.track == "x" {
			return "refuse", same
		}
		if s.mode != st.mode {
			return "refuse", same
		}
		if st.mode == "record" && s.tr != "tcp" {
			return "refuse", same
		}
		ok := "200"
		if s.tr == "mcast" && !mcastOK {
			ok = "any"
		}
		return ok, func(code int) c12state {
			if code == 200 {
				return c12state{phase: "ready", mode: st.mode, described: true}
			}
			return st
		}
	case "PLAY":
		switch {
		case st.phase == "playing":
			return "any", same // statement: exactly one response; code not specified for a repeated PLAY
		case st.phase == "ready" && st.mode == "play":
			return "200", func(code int) c12state {
				if code == 200 {
					return c12state{phase: "playing", mode: "play", described: true}
				}
				return st
			}
		default:
			return "455", same
		}
	case "RECORD":
		switch {
		case st.phase == "recording":
			return "any", same
		case st.phase == "ready" && st.mode == "record":
			return "200", func(code int) c12state {
				if code == 200 {
					return c12state{phase: "recording", mode: "record", described: true}
				}
				return st
			}
		default:
			return "455", same
		}
	}
	return "refuse", same
}

var c12connSeq int64

type c12env struct {
	srv      *kit.Server
	srcPath  string
	src      *media.Stream
	baseline kit.Counters
}

func c12Request(c *kit.RTSPClient, env *c12env, s c12sym, recPath string, curPath string) []byte {
	base := env.srv.URL(curPath)
	hdr := map[string]string{}
	body := ""
	uri := base
	switch s.name {
	case "OPTIONS":
	case "DESCRIBE":
		uri = env.srv.URL(env.srcPath)
		hdr["Accept"] = "application/sdp"
	case "DESCRIBE_missing":
		uri = env.srv.URL("/c12/does/not/exist")
	case "ANNOUNCE":
		uri = env.srv.URL(recPath)
		hdr["Content-Type"] = "application/sdp"
		body = kit.SDPH264AAC
	case "ANNOUNCE_badsdp":
		uri = env.srv.URL(recPath)
		hdr["Content-Type"] = "application/sdp"
		body = "this is not sdp\r\n"
	case "ANNOUNCE_noctype":
		uri = env.srv.URL(recPath)
		body = kit.SDPH264AAC
	}
	if s.method == "SETUP" {
		ctl := map[string]string{"v": "streamid=0", "a": "streamid=1", "x": "streamid=9"}[s.track]
		uri = base + "/" + ctl
		chs := map[string]string{"v": "0-1", "a": "2-3", "x": "4-5"}[s.track]
		var t string
		switch s.tr {
		case "tcp":
			t = "RTP/AVP/TCP;unicast;interleaved=" + chs
		case "udp":
			t = "RTP/AVP;unicast;client_port=" + map[string]string{"v": "41000-41001", "a": "41002-41003", "x": "41004-41005"}[s.track]
		case "mcast":
			t = "RTP/AVP;multicast"
		default:
			t = "BOGUS"
			if s.raw != "" {
				t = s.raw
			}
		}
		if s.mode == "record" {
			t += ";mode=record"
		}
		hdr["Transport"] = t
	}
	if s.method == "PLAY" || s.method == "RECORD" {
		hdr["Range"] = "npt=0.000-"
	}
	return c.BuildRequest(s.method, uri, hdr, body)
}

func c12RunSequence(c *kit.Ctx, env *c12env, transport string, seq []c12sym, caseKey string) {
	n := atomic.AddInt64(&c12connSeq, 1)
	recPath := fmt.Sprintf("/c12/rec/s%d-%d", c.Shard, n)
	var cl *kit.RTSPClient
	var err error
	names := make([]string, len(seq))
	for i, s := range seq {
		names[i] = s.name
	}
	detail := map[string]interface{}{"transport": transport, "sequence": names}
	c.Pre("C12 " + transport + " " + strings.Join(names, ","))
	if transport == "ws" {
		cl, _, err = kit.DialRTSPWebSocket(env.srv.Addr, env.srcPath, "")
	} else {
		cl, err = kit.DialRTSP(env.srv.Addr)
	}
	if err != nil {
		c.Inconclusive("dial failed: " + err.Error())
		return
	}
	defer cl.Close()
	cl.Timeout = 45 * time.Second
	st := c12state{phase: "init"}
	curPath := env.srcPath
	session := ""
	gotPlay200 := false
	announced := false
	trail := []string{}
	fail := func(sig string) {
		detail["trail"] = trail
		c.Violation("C12:"+sig+":"+transport, detail)
	}
	// on TCP the first bytes decide the port multiplexer's routing (C19): an unknown method as the very first
	// request is closed by the multiplexer, which is not this property's subject
	if transport == "tcp" && seq[0].method == "FOO" {
		if r, err := cl.Do("OPTIONS", env.srv.URL(curPath), nil, ""); err != nil || r.Code != 200 {
			c.Inconclusive("preamble OPTIONS failed")
			return
		}
	}
	for i, s := range seq {
		if st.phase == "closed" {
			break
		}
		want, next := c12Expect(st, s, true, transport == "ws", announced)
		if s.method == "ANNOUNCE" {
			announced = true
		}
		req := c12Request(cl, env, s, recPath, curPath)
		reqCSeq := cl.CSeq
		probe := cl.BuildRequest("OPTIONS", env.srv.URL(curPath), nil, "")
		probeCSeq := cl.CSeq
		framesBefore := len(cl.Frames)
		regBefore := media.Get(recPath) != nil
		if transport == "ws" {
			if err := cl.Send(req); err == nil {
				err = cl.Send(probe)
			}
		} else {
			err = cl.Send(append(req, probe...))
		}
		if err != nil {
			fail(fmt.Sprintf("connection-unusable:write-failed-before:%s", s.name))
			return
		}
		r1, err := cl.ReadResponse()
		if err != nil {
			if kit.ErrTimeout(err) {
				c.Inconclusive("no response within watchdog (connection still open)")
				return
			}
			detail["step"] = i
			detail["state"] = fmt.Sprint(st)
			detail["error"] = err.Error()
			if _, torn := err.(*kit.ErrTorn); torn {
				fail("torn-stream:" + s.name)
			} else {
				fail(fmt.Sprintf("connection-closed-without-response:%s:in-%s", s.name, st.phase))
			}
			return
		}
		code := r1.Code
		trail = append(trail, fmt.Sprintf("%s->%d", s.name, code))
		detail["step"] = i
		detail["state"] = fmt.Sprint(st)
		got, _ := atoiSafe(r1.Get("CSeq"))
		if got == probeCSeq {
			fail(fmt.Sprintf("no-response:%s:in-%s", s.name, st.phase))
			return
		}
		if got != reqCSeq {
			detail["cseq_got"], detail["cseq_want"] = r1.Get("CSeq"), reqCSeq
			fail("cseq-not-echoed:" + s.name)
			return
		}
		if sid := r1.Get("Session"); sid == "" {
			fail("session-header-missing:" + s.name)
			return
		} else if session != "" && sid != session {
			fail("session-id-changed:" + s.name)
			return
		} else {
			session = sid
		}
		// status class
		okClass := false
		switch want {
		case "200":
			okClass = code == 200
		case "455":
			okClass = code == 455
		case "refuse":
			okClass = code < 200 || code >= 300
		case "any":
			okClass = true
		}
		if !okClass {
			detail["status"] = code
			detail["admissible"] = want
			cls := "accepted-what-automaton-forbids"
			if want == "200" {
				cls = "refused-what-automaton-allows"
			} else if want == "455" && (code < 200 || code >= 300) {
				cls = "refused-with-other-status-than-455"
			}
			fail(fmt.Sprintf("%s:%s:in-%s-%s", cls, s.name, st.phase, st.mode))
			return
		}
		prev := st
		st = next(code)
		if code == 200 && s.name == "ANNOUNCE" {
			curPath = recPath
		}
		if code == 200 && s.name == "DESCRIBE" {
			curPath = env.srcPath
		}
		// side effects. Frames collected so far arrived BEFORE this response: they are legitimate only if an earlier
		// PLAY had already succeeded (the PLAY response itself must precede the first media)
		if !gotPlay200 && len(cl.Frames) > framesBefore {
			if s.method == "PLAY" && code == 200 {
				fail("media-before-play-response:" + transport)
			} else {
				fail("media-before-successful-play:" + s.name)
			}
			return
		}
		if s.method == "PLAY" && code == 200 {
			gotPlay200 = true
		}
		if st.phase != "recording" && prev.phase != "recording" && (media.Get(recPath) != nil || regBefore) {
			fail("stream-published-before-successful-record:" + s.name)
			return
		}
		if s.method == "RECORD" && code == 200 && prev.phase == "ready" && media.Get(recPath) == nil {
			fail("record-succeeded-but-nothing-published")
			return
		}
		// the probe
		if s.method == "TEARDOWN" {
			// the server closes after answering; the probe may or may not be answered
			// (a watchdog of 3 s plus kit.Patience: only a connection that stays open that long is "not closed")
			for {
				if _, err := cl.Next(3*time.Second + kit.Patience); err != nil {
					if err != io.EOF && !strings.Contains(err.Error(), "closed") && !strings.Contains(err.Error(), "reset") && !strings.Contains(err.Error(), "EOF") {
						if kit.ErrTimeout(err) {
							fail("connection-not-closed-after-teardown")
						}
					}
					break
				}
			}
			break
		}
		r2, err := cl.ReadResponse()
		if err != nil {
			if kit.ErrTimeout(err) {
				c.Inconclusive("probe not answered within watchdog")
				return
			}
			detail["error"] = err.Error()
			fail(fmt.Sprintf("connection-unusable-after:%s:status-%d", s.name, code))
			return
		}
		if g, _ := atoiSafe(r2.Get("CSeq")); g != probeCSeq || r2.Code != 200 {
			detail["probe_cseq_got"] = r2.Get("CSeq")
			fail("extra-or-misordered-response-after:" + s.name)
			return
		}
	}
	// release: disconnect and check that whatever the session held is gone
	cl.Close()
	ok := waitUntil(func() bool {
		k := kit.Snapshot()
		return k.Rtsp == env.baseline.Rtsp && media.Get(recPath) == nil && env.src.ConsumerCount() == 0
	}, 6*time.Second)
	if !ok {
		k := kit.Snapshot()
		detail["counters"] = k.String()
		detail["baseline"] = env.baseline.String()
		detail["trail"] = trail
		switch {
		case media.Get(recPath) != nil:
			c.Violation("C12:release:published-stream-left-registered:"+transport, detail)
		case env.src.ConsumerCount() != 0:
			c.Violation("C12:release:consumer-left-attached:"+transport, detail)
		default:
			// the session goroutine may still be on its way out: decide on state
			if len(kit.FindGoroutines("rtsp.(*Session).process")) > int(env.baseline.Rtsp) {
				c.Inconclusive("session goroutine still running after disconnect")
			} else {
				c.Violation("C12:release:connection-counter-not-restored:"+transport, detail)
			}
		}
	}
	c.Eval(1)
	c.Distinct(caseKey)
	c.SetAdd("final_states", st.phase+"/"+st.mode)
	for _, t := range trail {
		c.SetAdd("transitions_observed", t)
	}
}

func atoiSafe(s string) (int, bool) {
	n := 0
	if s == "" {
		return -1, false
	}
	for _, r := range s {
		if r < '0' || r > '9' {
			return -1, false
		}
		n = n*10 + int(r-'0')
	}
	return n, true
}

func runC12(c *kit.Ctx) {
	srv := kit.StartServer(false, false, 0)
	env := &c12env{srv: srv, srcPath: fmt.Sprintf("/c12/src%d", c.Shard)}
	// a real RECORD publisher keeps a source stream alive (with a multicast proxy, as pushed streams have)
	pub, err := kit.DialRTSP(srv.Addr)
	if err != nil {
		c.Inconclusive("cannot dial server")
		return
	}
	if code, err := pub.Publish(srv.URL(env.srcPath), kit.SDPH264AAC); err != nil {
		c.Inconclusive(fmt.Sprintf("publisher handshake failed: %d %v", code, err))
		return
	}
	stop := make(chan struct{})
	go func() {
		i := 0
		for {
			select {
			case <-stop:
				return
			default:
			}
			typ := byte(1)
			if i%10 == 0 {
				typ = 5
			}
			p := kit.MakeRTP(kit.ChVideo, 96, true, uint16(i), uint32(i)*3000, 5, kit.H264NAL(2, typ, 60, uint64(i)))
			if pub.WriteFrame(0, p.Data) != nil {
				return
			}
			i++
			time.Sleep(2 * time.Millisecond)
		}
	}()
	defer func() { close(stop); pub.Close() }()
	if !waitUntil(func() bool { return media.Get(env.srcPath) != nil }, 5*time.Second) {
		c.Inconclusive("source stream did not appear")
		return
	}
	env.src = media.Get(env.srcPath)
	env.baseline = kit.Snapshot()
	// seeded delay in the goroutine that attached a consumer, right after the consumer's sender goroutine was started:
	// a reply written after attaching is then overtaken by the parameter sets replayed to the joiner
	pert := kit.H.Perturb([]string{"media.join.started"}, nil, c.Seed*977+int64(c.Shard), 0.5, 400*time.Microsecond)
	defer kit.RemoveAll(pert)

	full := c12Alphabet()
	red := c12Reduced(full)
	type job struct {
		seq []c12sym
		key string
	}
	var jobs []job
	var gen func(alpha []c12sym, prefix []c12sym, depth int, tag string)
	gen = func(alpha []c12sym, prefix []c12sym, depth int, tag string) {
		if len(prefix) > 0 {
			names := ""
			for _, s := range prefix {
				names += s.name + ","
			}
			jobs = append(jobs, job{append([]c12sym{}, prefix...), tag + ":" + names})
		}
		if depth == 0 {
			return
		}
		for _, s := range alpha {
			gen(alpha, append(prefix, s), depth-1, tag)
		}
	}
	// directed: every invalid transport between a successful DESCRIBE / ANNOUNCE and PLAY / RECORD
	for _, k := range []string{"tcpmcast", "interleaved", "clientport", "tcpmcast_ttl", "interleaved_ttl", "clientport_ttl", "interleaved_ssrc", "clientport_dest"} {
		bp := c12sym{name: "SETUP_bad_" + k, method: "SETUP", track: "v", tr: "bad", mode: "play", raw: c12BadTransports[k]}
		br := c12sym{name: "SETUP_bad_" + k + "_record", method: "SETUP", track: "v", tr: "bad", mode: "record", raw: c12BadTransports[k]}
		find := func(n string) c12sym {
			for _, x := range full {
				if x.name == n {
					return x
				}
			}
			return c12sym{name: n, method: n}
		}
		jobs = append(jobs, job{[]c12sym{find("DESCRIBE"), bp, find("PLAY"), find("OPTIONS")}, "directed:DESCRIBE," + bp.name + ",PLAY,OPTIONS,"},
			job{[]c12sym{find("ANNOUNCE"), br, find("RECORD"), find("OPTIONS")}, "directed:ANNOUNCE," + br.name + ",RECORD,OPTIONS,"})
	}
	gen(full, nil, c.Pick(2, 3), "full")
	gen(red, nil, c.Pick(4, 5), "reduced")
	nrand := c.Pick(500, 30000)
	for i := 0; i < nrand; i++ {
		r := c.GlobalRng("c12rand", i)
		l := 3 + r.Intn(10)
		var s []c12sym
		names := ""
		for k := 0; k < l; k++ {
			x := full[r.Intn(len(full))]
			// bias towards progress so that deep states are reached
			if r.Intn(3) == 0 {
				x = red[r.Intn(len(red))]
			}
			s = append(s, x)
			names += x.name + ","
		}
		jobs = append(jobs, job{s, "rand:" + names})
	}
	c.Note("sequences_total", len(jobs))
	for ji, j := range jobs {
		if !c.Mine(ji) {
			continue
		}
		transport := "tcp"
		if ji%7 == 3 {
			transport = "ws"
		}
		c12RunSequence(c, env, transport, j.seq, transport+"/"+j.key)
		if ji < 3 {
			names := []string{}
			for _, s := range j.seq {
				names = append(names, s.name)
			}
			c.Sample(map[string]interface{}{"transport": transport, "sequence": names})
		}
	}
	c12RunWSP(c, env)
	if c.Shard == 0 {
		c12Multicast(c, env)
	}
	c.Note("exhaustive", false)
}
