package checks

import (
	"bytes"
	"context"
	"encoding/json"
	"fmt"
	"os"
	"os/exec"
	"path/filepath"
	"strings"
	"syscall"
	"time"

	"verifharness/kit"

	"github.com/cnotch/ipchub/provider/auth"
	"github.com/cnotch/ipchub/provider/route"
)

// C18 — users and routes survive edits, reloads and crashes intact.
//
// Part 1 (histories): random save / update / delete / flush / reload histories through the auth and
// route package API on the JSON providers, compared after every operation with a sequential reference
// table (c18_model.go); after a flush the file is parsed with the harness' own decoder, re-loaded in
// process (Configure + Reset) and re-loaded by a second process.
//
// Part 2 (crash points): a child process (this binary, VERIF_C18_CHILD set) loads table A from the file,
// edits it into table B, flushes and SIGKILLs itself at a verifhook point inside utils.EncodeJSONFile
// (for json.beforeWrite after writing only the first k bytes). The parent then parses the file itself and
// lets another child load it: the outcome must be complete A or complete B.
//
// Assumption: process death only. Data handed to write(2) survives the death of the process; loss or
// re-ordering of un-fsynced data on power failure is out of scope.

func init() { kit.Register("C18", runC18) }

// c18CrashPoints lists the hook points to kill at. Extend here, or at run time with the environment
// variable VERIF_C18_POINTS (comma separated). Every other "json.*" point that a probe flush passes is
// enumerated as well; listed points that a flush does not pass are reported in the notes and skipped.
var c18CrashPoints = []string{"json.opened", "json.beforeWrite", "json.written", "json.synced", "json.renamed"}

// c18TornK are the torn-write sizes tried at json.beforeWrite.
var c18TornK = []string{"0", "1", "half", "len-1"}

const c18PointsEnv = "VERIF_C18_POINTS"

var c18Kinds = []string{c18Auth, c18Route}

var c18Spellings = map[string][]string{
	c18Auth:  {"Alice", "ALICE", "alice", "bob", "Bob", "carol", "Admin", "admin"},
	c18Route: {"/A/b", "a/b/", " /a//b", "/a/b", "/a/b/", "/c", "C/", "/", "/a/B/../b", "/A/B/ "},
}

type c18Driver struct {
	c      *kit.Ctx
	tmp    string
	serial int
}

func runC18(c *kit.Ctx) {
	if p := os.Getenv(c18ChildEnv); p != "" {
		c18Child(p) // never returns
	}
	tmp, err := os.MkdirTemp("/var/tmp", "c18-*")
	if err != nil {
		c.Inconclusive("cannot create temp dir: " + err.Error())
		return
	}
	defer os.RemoveAll(tmp)
	d := &c18Driver{c: c, tmp: tmp}
	os.MkdirAll(filepath.Join(tmp, "childout"), 0o755)

	nh := c.Pick(320, 6000)
	part := os.Getenv("VERIF_C18_PART") // debugging aid: "hist" or "crash" runs one part only
	if part == "crash" {
		nh = 0
	}
	var pend []*c18HistPending
	for hi := 0; hi < nh; hi++ {
		if !c.Mine(hi) {
			continue
		}
		if p := d.history(hi); p != nil {
			pend = append(pend, p)
		}
		if len(pend) >= c18Batch {
			d.historyRestarts(pend)
			pend = pend[:0]
		}
	}
	d.historyRestarts(pend)
	if part == "" {
		c18ConcurrentFlush(c, tmp) // edits concurrent with a flush (c18_conc.go)
	}
	if part != "hist" {
		d.crashes()
	}
}

// c18Batch is how many restarts one load child performs (process start-up dominates the cost).
const c18Batch = 48

// ---------------------------------------------------------------- child processes

type c18Run struct {
	stdout   []byte
	stderr   string
	exit     int
	killed   bool // died from SIGKILL it sent to itself
	watchdog bool
	err      error
}

func (d *c18Driver) spawn(in c18Instr) c18Run {
	d.serial++
	ip := filepath.Join(d.tmp, fmt.Sprintf("instr-%d.json", d.serial))
	b, _ := json.Marshal(in)
	if err := os.WriteFile(ip, b, 0o644); err != nil {
		return c18Run{err: err}
	}
	defer os.Remove(ip)
	args := append([]string{}, os.Args[1:]...)
	if len(args) >= 4 {
		args[3] = filepath.Join(d.tmp, "childout") // the child must not touch the parent's cur/result files
	}
	ctx, cancel := context.WithTimeout(context.Background(), 60*time.Second)
	defer cancel()
	cmd := exec.CommandContext(ctx, os.Args[0], args...)
	cmd.Env = append(os.Environ(), c18ChildEnv+"="+ip)
	var so, se bytes.Buffer
	cmd.Stdout, cmd.Stderr = &so, &se
	err := cmd.Run()
	r := c18Run{stdout: so.Bytes(), stderr: strings.TrimSpace(se.String())}
	if len(r.stderr) > 400 {
		r.stderr = r.stderr[:400]
	}
	if ctx.Err() != nil {
		r.watchdog = true
		return r
	}
	d.c.Count("child_processes", 1)
	if err == nil {
		return r
	}
	if ee, ok := err.(*exec.ExitError); ok {
		if ws, ok := ee.Sys().(syscall.WaitStatus); ok {
			if ws.Signaled() && ws.Signal() == syscall.SIGKILL {
				r.killed = true
				return r
			}
			r.exit = ws.ExitStatus()
			return r
		}
	}
	r.err = err
	return r
}

// restart runs one load child over a batch of files: what would a restarted server hold for each?
func (d *c18Driver) restart(jobs []c18LoadJob) ([]c18LoadOut, string) {
	if len(jobs) == 0 {
		return nil, ""
	}
	d.c.Pre(fmt.Sprintf("C18 restart child over %d files, first %s", len(jobs), jobs[0].File))
	r := d.spawn(c18Instr{Mode: "load", Jobs: jobs})
	if r.watchdog {
		return nil, "load child: watchdog"
	}
	if r.err != nil || r.exit != 0 || r.killed {
		return nil, fmt.Sprintf("load child failed: exit %d err %v stderr %s", r.exit, r.err, r.stderr)
	}
	var outs []c18LoadOut
	if err := json.Unmarshal(r.stdout, &outs); err != nil || len(outs) != len(jobs) {
		return nil, "load child: undecodable output"
	}
	return outs, ""
}

// ---------------------------------------------------------------- part 1: histories

type c18Snap struct {
	users, usersCopy   []*auth.User
	routes, routesCopy []*route.Route
}

func c18TakeSnap(kind string) *c18Snap {
	s := &c18Snap{}
	if kind == c18Auth {
		s.users = auth.All()
		s.usersCopy = append([]*auth.User{}, s.users...)
	} else {
		s.routes = route.All()
		s.routesCopy = append([]*route.Route{}, s.routes...)
	}
	return s
}

func (s *c18Snap) mutated() bool {
	for i := range s.users {
		if s.users[i] != s.usersCopy[i] {
			return true
		}
	}
	for i := range s.routes {
		if s.routes[i] != s.routesCopy[i] {
			return true
		}
	}
	return false
}

type c18HistPending struct {
	hi    int
	kind  string
	dir   string
	file  string
	model map[string]c18Rec
	hist  []string
}

// historyRestarts lets a second process load every flushed history file and compares with the models.
func (d *c18Driver) historyRestarts(pend []*c18HistPending) {
	c := d.c
	var jobs []c18LoadJob
	for _, p := range pend {
		jobs = append(jobs, c18LoadJob{Kind: p.kind, File: p.file})
	}
	outs, perr := d.restart(jobs)
	for i, p := range pend {
		switch {
		case perr != "":
			c.Inconclusive(perr)
		case outs[i].Panic != "":
			c.Violation("C18:history:restart-panic:"+p.kind, map[string]interface{}{"kind": p.kind, "history_index": p.hi,
				"history": p.hist, "what": outs[i].Panic, "model": c18List(p.model)})
		default:
			if cls, desc := c18Compare(p.kind, outs[i].Table, p.model); cls != "" {
				c.Violation(fmt.Sprintf("C18:history:restart-%s:%s", cls, p.kind), map[string]interface{}{"kind": p.kind,
					"history_index": p.hi, "history": p.hist, "what": desc, "model": c18List(p.model), "restarted_table": outs[i].Table})
			} else {
				c.Count("restart_comparisons/"+p.kind, 1)
			}
		}
		os.RemoveAll(p.dir)
	}
}

func (d *c18Driver) history(hi int) (pending *c18HistPending) {
	c := d.c
	kind := c18Kinds[((hi>>4)^hi)&1]
	rng := c.SubRng("c18h", hi)
	dir := filepath.Join(d.tmp, fmt.Sprintf("h%d", hi))
	os.MkdirAll(dir, 0o755)
	defer func() {
		if pending == nil {
			os.RemoveAll(dir)
		}
	}()
	file := filepath.Join(dir, c18FileName(kind))
	spell := c18Spellings[kind]
	m := &c18Model{kind: kind, t: map[string]c18Rec{}}
	var hist []string
	var shape strings.Builder
	serial := 0
	newRec := func(spelling string) c18Rec {
		serial++
		if kind == c18Auth {
			return c18RandUser(rng, spelling, serial)
		}
		return c18RandRoute(rng, spelling, serial)
	}

	// initial state: no file / file with canonical keys / hand-edited file with non-canonical spellings
	iv := rng.Intn(3)
	fmt.Fprintf(&shape, "%s/i%d/", kind, iv)
	if iv == 0 {
		m.t = c18DefaultTable(kind)
		hist = append(hist, "start: file missing")
	} else {
		var init []c18Rec
		used := map[string]bool{}
		for i := 0; i < 1+rng.Intn(3); i++ {
			s := spell[rng.Intn(len(spell))]
			ck := c18Canon(kind, s)
			if used[ck] {
				continue
			}
			used[ck] = true
			if iv == 1 {
				s = ck
			}
			init = append(init, newRec(s))
		}
		os.WriteFile(file, c18Encode(init), 0o644)
		m.t = c18FromListCanon(kind, init)
		hist = append(hist, fmt.Sprintf("start: file %s", c18Encode(init)))
	}

	failed := false
	fail := func(sig, desc string, extra map[string]interface{}) {
		failed = true
		det := map[string]interface{}{"kind": kind, "history_index": hi, "history": hist, "what": desc,
			"model": m.list(), "observed": c18SutAll(kind)}
		for k, v := range extra {
			det[k] = v
		}
		c.Violation(sig, det)
	}
	check := func(stage string) {
		got := c18SutAll(kind)
		if cls, desc := c18Compare(kind, got, m.t); cls != "" {
			fail(fmt.Sprintf("C18:history:%s-%s:%s", stage, cls, kind), desc, nil)
			return
		}
		for _, s := range spell {
			g, ok := c18SutGet(kind, s)
			w, wok := m.t[c18Canon(kind, s)]
			switch {
			case ok && !wok:
				fail(fmt.Sprintf("C18:history:%s-get-finds-absent-entry:%s", stage, kind), fmt.Sprintf("Get(%q) = %+v", s, g), nil)
				return
			case !ok && wok:
				fail(fmt.Sprintf("C18:history:%s-get-misses-entry:%s", stage, kind), fmt.Sprintf("Get(%q) = nil, model has %+v", s, w), nil)
				return
			case ok && c18Lenient(g) != c18Lenient(w):
				fail(fmt.Sprintf("C18:history:%s-get-returns-different-entry:%s", stage, kind), fmt.Sprintf("Get(%q) = %+v, model %+v", s, g, w), nil)
				return
			}
		}
		c.Count("table_comparisons/"+kind, 1)
	}
	flush := func() {
		err, p := c18SutFlush(kind)
		if p != "" {
			fail("C18:history:flush-panic:"+kind, p, nil)
			return
		}
		if err != nil {
			fail("C18:history:flush-error:"+kind, err.Error(), nil)
			return
		}
		b, rerr := os.ReadFile(file)
		if rerr != nil {
			if !os.IsNotExist(rerr) {
				c.Inconclusive("cannot read table file: " + rerr.Error())
				failed = true
				return
			}
			// nothing was ever written: a restart shows the missing-file table
			c.Count("flush_left_no_file/"+kind, 1)
			if !c18Equal(kind, c18DefaultTable(kind), m.t) {
				fail("C18:history:file-missing-after-flush:"+kind, "flush returned nil but there is no file and the table is not the missing-file table", nil)
			}
			return
		}
		state, recs, perr := c18ParseFile(b)
		if state != "table" {
			fail(fmt.Sprintf("C18:history:file-%s-after-flush:%s", state, kind), perr, map[string]interface{}{"file": string(b)})
			return
		}
		ft := c18FromListCanon(kind, recs)
		if len(ft) != len(recs) {
			fail("C18:history:file-duplicate-entry:"+kind, "the file lists a key twice", map[string]interface{}{"file": string(b)})
			return
		}
		if cls, desc := c18Compare(kind, c18List(ft), m.t); cls != "" {
			fail(fmt.Sprintf("C18:history:file-%s:%s", cls, kind), desc, map[string]interface{}{"file": string(b)})
			return
		}
		c.Count("file_comparisons/"+kind, 1)
	}
	reload := func() {
		if p := c18SutReset(kind, file); p != "" {
			fail("C18:history:reload-panic:"+kind, p, nil)
			return
		}
		check("reload")
	}

	if p := c18SutReset(kind, file); p != "" {
		fail("C18:history:initial-load-panic:"+kind, p, nil)
		return nil
	}
	check("initial-load")

	doSave := func(s string, upd bool) {
		r := newRec(s)
		if kind == c18Route && rng.Intn(25) == 0 {
			r.URL = "rtsp://%zz/unparsable" // url.Parse fails: Save may reject it; then nothing may change
		}
		_, existed := m.t[c18Canon(kind, s)]
		hist = append(hist, fmt.Sprintf("save %+v updatePassword=%v", r, upd))
		fmt.Fprintf(&shape, "S%d%v%v,", indexOf(spell, s), upd, existed)
		err, p := c18SutSave(kind, r, upd)
		if p != "" {
			fail("C18:history:save-panic:"+kind, p, nil)
			return
		}
		if err != nil {
			c.Count("save_rejected/"+kind, 1)
			hist[len(hist)-1] += " -> error " + err.Error()
			if !strings.Contains(r.URL, "%zz") {
				fail("C18:history:save-error:"+kind, err.Error(), nil)
			}
			return
		}
		m.save(r, upd)
		switch {
		case !existed:
			c.Count("op_create/"+kind, 1)
		case upd || kind == c18Route:
			c.Count("op_update_with_password_or_route/"+kind, 1)
		default:
			c.Count("op_update_keep_password/"+kind, 1)
		}
	}
	doDel := func(s string) {
		_, existed := m.t[c18Canon(kind, s)]
		hist = append(hist, fmt.Sprintf("del %q", s))
		fmt.Fprintf(&shape, "D%d%v,", indexOf(spell, s), existed)
		snap := c18TakeSnap(kind)
		err, p := c18SutDel(kind, s)
		if p != "" {
			fail("C18:history:delete-panic:"+kind, p, nil)
			return
		}
		if err != nil {
			fail("C18:history:delete-error:"+kind, err.Error(), nil)
			return
		}
		if snap.mutated() {
			c.Count("earlier_All_result_changed_by_delete_unjudged/"+kind, 1)
		}
		m.del(s)
		if existed {
			c.Count("op_delete_existing/"+kind, 1)
		} else {
			c.Count("op_delete_absent/"+kind, 1)
		}
	}

	steps := 1 + rng.Intn(30)
	for st := 0; st < steps && !failed; st++ {
		x := rng.Intn(100)
		s := spell[rng.Intn(len(spell))]
		switch {
		case x < 45:
			doSave(s, rng.Intn(2) == 0)
		case x < 65:
			doDel(s)
		case x < 75: // delete then re-create under another spelling of the same key
			if len(m.t) > 0 {
				ks := c18List(m.t)
				s = c18Key(kind, ks[rng.Intn(len(ks))])
			}
			doDel(s)
			if !failed {
				check("memory")
			}
			if !failed {
				alt := s
				for _, s2 := range spell {
					if c18Canon(kind, s2) == c18Canon(kind, s) && rng.Intn(2) == 0 {
						alt = s2
					}
				}
				doSave(alt, rng.Intn(2) == 0)
				c.Count("op_delete_then_recreate/"+kind, 1)
			}
		case x < 87:
			hist = append(hist, "flush")
			shape.WriteString("F,")
			flush()
		default:
			hist = append(hist, "flush+reload")
			shape.WriteString("R,")
			flush()
			if !failed {
				reload()
			}
		}
		if !failed {
			check("memory")
		}
		c.Eval(1)
	}
	if failed {
		return nil
	}
	// final flush, own parse, in-process reload; the reload by a second process is batched
	hist = append(hist, "flush+restart")
	flush()
	if !failed {
		reload()
	}
	if failed {
		return nil
	}
	c.Distinct(shape.String())
	c.Count("histories/"+kind, 1)
	if hi < 32 && hi%16 == c.Shard%16 {
		c.Sample(map[string]interface{}{"part": "history", "kind": kind, "history": hist, "final_table": m.list()})
	}
	return &c18HistPending{hi: hi, kind: kind, dir: dir, file: file, model: c18Clone(m.t), hist: hist}
}

func indexOf(l []string, s string) int {
	for i, x := range l {
		if x == s {
			return i
		}
	}
	return -1
}

// ---------------------------------------------------------------- part 2: crash points

// probe asks one child which json.* points a flush of each provider passes, in order.
func (d *c18Driver) probe() map[string][]string {
	dir := filepath.Join(d.tmp, "probe")
	os.MkdirAll(dir, 0o755)
	defer os.RemoveAll(dir)
	var jobs []c18LoadJob
	for _, kind := range c18Kinds {
		e := c18GenEntry(kind, 0, d.c.SubRng("c18probe", 0))
		jobs = append(jobs, c18LoadJob{Kind: kind, File: filepath.Join(dir, c18FileName(kind)), Add: &e})
	}
	r := d.spawn(c18Instr{Mode: "probe", Jobs: jobs})
	var seqs [][]string
	if r.watchdog || r.err != nil || r.exit != 0 || r.killed || json.Unmarshal(r.stdout, &seqs) != nil || len(seqs) != len(jobs) {
		d.c.Inconclusive(fmt.Sprintf("probe child failed: exit %d %v %s", r.exit, r.err, r.stderr))
		return nil
	}
	out := map[string][]string{}
	for i, kind := range c18Kinds {
		out[kind] = seqs[i]
	}
	return out
}

// syscallTrace records (evidence only, never a verdict) which file-system calls one plain flush makes on
// the table file and its directory, using strace when the machine has it. Whether data is fsynced before
// it replaces the old file matters for power loss, which this property leaves out of scope.
func (d *c18Driver) syscallTrace(kind string) {
	c := d.c
	st, err := exec.LookPath("strace")
	if err != nil {
		c.SetAdd("flush_syscalls_unjudged", kind+": strace not available")
		return
	}
	dir := filepath.Join(d.tmp, "trace-"+kind)
	data := filepath.Join(dir, "data")
	os.MkdirAll(data, 0o755)
	defer os.RemoveAll(dir)
	file := filepath.Join(data, c18FileName(kind))
	rng := c.SubRng("c18trace", 0)
	a := c18GenTable(kind, 2, rng)
	b := c18Edit(kind, "add", a, rng)
	os.WriteFile(file, c18Encode(c18List(a)), 0o644)
	ip := filepath.Join(dir, "instr.json")
	ib, _ := json.Marshal(c18Instr{Mode: "flush", Kind: kind, File: file, A: c18List(a), B: c18List(b)})
	os.WriteFile(ip, ib, 0o644)
	tr := filepath.Join(dir, "trace.txt")
	args := append([]string{}, os.Args[1:]...)
	if len(args) >= 4 {
		args[3] = filepath.Join(d.tmp, "childout")
	}
	ctx, cancel := context.WithTimeout(context.Background(), 60*time.Second)
	defer cancel()
	cmd := exec.CommandContext(ctx, st, append([]string{"-f", "-qq", "-e", "trace=openat,write,fsync,fdatasync,rename,renameat,renameat2", "-o", tr, os.Args[0]}, args...)...)
	cmd.Env = append(os.Environ(), c18ChildEnv+"="+ip)
	if err := cmd.Run(); err != nil {
		c.SetAdd("flush_syscalls_unjudged", kind+": strace run failed: "+err.Error())
		return
	}
	tb, _ := os.ReadFile(tr)
	name := func(p string) string {
		switch {
		case p == file:
			return "table"
		case p == data || p == data+"/":
			return "dir"
		default:
			return "tmp"
		}
	}
	fds := map[string]string{}
	var seq []string
	synced := map[string]bool{}
	for _, ln := range strings.Split(string(tb), "\n") {
		if i := strings.Index(ln, " "); i > 0 {
			ln = strings.TrimSpace(ln[i:])
		}
		q := strings.Split(ln, "\"")
		switch {
		case strings.HasPrefix(ln, "openat(") && len(q) >= 3 && strings.HasPrefix(q[1], data):
			if j := strings.LastIndex(ln, "= "); j > 0 && !strings.Contains(ln[j:], "-1") {
				n := name(q[1])
				fds[strings.TrimSpace(ln[j+2:])] = n
				t := "open(" + n
				if strings.Contains(q[2], "O_TRUNC") {
					t += ",TRUNC"
				}
				seq = append(seq, t+")")
			}
		case strings.HasPrefix(ln, "write(") || strings.HasPrefix(ln, "fsync(") || strings.HasPrefix(ln, "fdatasync("):
			op := ln[:strings.Index(ln, "(")]
			fd := strings.TrimSpace(strings.SplitN(strings.SplitN(ln[len(op)+1:], ",", 2)[0], ")", 2)[0])
			if n, ok := fds[fd]; ok {
				if op != "write" {
					op = "fsync"
					synced[n] = true
				}
				seq = append(seq, op+"("+n+")")
			}
		case strings.HasPrefix(ln, "rename") && len(q) >= 5 && strings.HasPrefix(q[3], data):
			seq = append(seq, "rename("+name(q[1])+"->"+name(q[3])+")")
			if !synced[name(q[1])] {
				c.Count("rename_of_unsynced_file_over_table_unjudged", 1)
			}
		}
	}
	c.SetAdd("flush_syscalls_unjudged", kind+": "+strings.Join(seq, " > "))
}

type c18CrashCase struct {
	kind  string
	n     int
	edit  string
	tbl   int
	point string
	k     string
}

func (d *c18Driver) crashes() {
	c := d.c
	points := map[string][]string{}
	probed := d.probe()
	if probed == nil {
		return
	}
	for _, kind := range c18Kinds {
		seq := probed[kind]
		c.SetAdd("flush_point_sequence", kind+": "+strings.Join(seq, " > "))
		passed := map[string]bool{}
		for _, p := range seq {
			passed[p] = true
		}
		want := append([]string{}, c18CrashPoints...)
		for _, p := range strings.Split(os.Getenv(c18PointsEnv), ",") {
			if p = strings.TrimSpace(p); p != "" {
				want = append(want, p)
			}
		}
		want = append(want, seq...) // any json.* point a flush passes, listed or not
		seen := map[string]bool{}
		for _, p := range want {
			if seen[p] {
				continue
			}
			seen[p] = true
			if passed[p] {
				points[kind] = append(points[kind], p)
			} else {
				c.SetAdd("listed_points_not_passed_by_a_flush", kind+": "+p)
			}
		}
		if len(points[kind]) == 0 {
			c.Inconclusive("no json.* hook point reached by a flush (" + kind + ")")
		}
		if c.Shard == 0 {
			d.syscallTrace(kind)
		}
	}

	// tables: (entries in A, edit that makes B). Thorough: every size 0..50 with every applicable edit.
	type tblSpec struct {
		n    int
		edit string
	}
	var specs []tblSpec
	if c.Thorough() {
		for n := 0; n <= 50; n++ {
			for _, edit := range []string{"first", "add", "update", "delete", "clear", "shrink", "many"} {
				switch {
				case edit == "first" && n%10 != 0: // "first" has no file yet and ignores n: a few repetitions
				case edit == "add" && n >= 50:
				case (edit == "update" || edit == "delete" || edit == "clear") && n < 1:
				case edit == "shrink" && n < 2:
				default:
					specs = append(specs, tblSpec{n, edit})
				}
			}
		}
	} else {
		specs = []tblSpec{{0, "first"}, {0, "add"}, {1, "update"}, {1, "clear"}, {2, "delete"}, {7, "many"}, {7, "shrink"},
			{49, "add"}, {50, "update"}, {50, "many"}}
	}
	var cases []c18CrashCase
	tbl := 0
	for _, kind := range c18Kinds {
		for _, sp := range specs {
			tbl++
			cases = append(cases, c18CrashCase{kind, sp.n, sp.edit, tbl, "", ""}) // control: no kill
			for _, p := range points[kind] {
				if p == "json.beforeWrite" {
					for _, k := range c18TornK {
						cases = append(cases, c18CrashCase{kind, sp.n, sp.edit, tbl, p, k})
					}
				} else {
					cases = append(cases, c18CrashCase{kind, sp.n, sp.edit, tbl, p, ""})
				}
			}
		}
	}
	c.Note("crash_case_list_length", len(cases))
	// rotate by table so that neighbouring shards do not each get a single crash point
	var pend []*c18CrashPending
	for i, cs := range cases {
		if !c.Mine(i + cs.tbl) {
			continue
		}
		if p := d.crashKill(i, cs); p != nil {
			pend = append(pend, p)
		}
		if len(pend) >= c18Batch {
			d.crashJudge(pend)
			pend = pend[:0]
		}
	}
	d.crashJudge(pend)
}

type c18CrashPending struct {
	idx       int
	cs        c18CrashCase
	key, pk   string
	dir, data string
	file      string
	a, b      map[string]c18Rec
	in        c18Instr
	hit       c18Hit
	state     string
	fileTable map[string]c18Rec
	raw       []byte
	perr      string
	add       *c18Rec
}

// crashKill prepares table A on disk, runs the child that flushes B and dies at the crash point, and
// classifies the file left behind with the parent's own decoder.
func (d *c18Driver) crashKill(idx int, cs c18CrashCase) (pending *c18CrashPending) {
	c := d.c
	kind := cs.kind
	rng := c.SubRng("c18t", cs.tbl)
	dir := filepath.Join(d.tmp, fmt.Sprintf("c%d", idx))
	data := filepath.Join(dir, "data")
	os.MkdirAll(data, 0o755)
	defer func() {
		if pending == nil {
			os.RemoveAll(dir)
		}
	}()
	file := filepath.Join(data, c18FileName(kind))
	marker := filepath.Join(dir, "hit.json")

	var a map[string]c18Rec
	if cs.edit == "first" {
		a = c18DefaultTable(kind)
	} else {
		a = c18GenTable(kind, cs.n, rng)
		if err := os.WriteFile(file, c18Encode(c18List(a)), 0o644); err != nil {
			c.Inconclusive("cannot write table file: " + err.Error())
			return nil
		}
	}
	b := c18Edit(kind, cs.edit, a, rng)
	if b == nil || c18Equal(kind, a, b) {
		c.Count("crash_cases_skipped_no_edit", 1)
		return nil
	}
	pk := cs.point
	if pk == "" {
		pk = "none"
	}
	if cs.k != "" {
		pk += "/k=" + cs.k
	}
	key := fmt.Sprintf("%s/n=%d/%s/%s", kind, cs.n, cs.edit, pk)
	c.Pre("C18 crash case " + key)
	in := c18Instr{Mode: "flush", Kind: kind, File: file, A: c18List(a), B: c18List(b), Point: cs.point, K: cs.k, Marker: marker}
	r := d.spawn(in)
	c.Eval(1)
	switch {
	case r.watchdog:
		c.Inconclusive("flush child: watchdog (" + pk + ")")
		return nil
	case r.err != nil:
		c.Inconclusive("flush child could not run: " + r.err.Error())
		return nil
	case cs.point == "" && (r.killed || r.exit != 0):
		if r.exit == c18ExitFlushErr {
			c.Violation("C18:flush:error-on-plain-flush", map[string]interface{}{"case": key, "stderr": r.stderr, "a": in.A, "b": in.B})
			return nil
		}
		c.Inconclusive(fmt.Sprintf("control child exit %d killed=%v: %s", r.exit, r.killed, r.stderr))
		return nil
	case cs.point != "" && !r.killed:
		if r.exit == c18ExitSurvived {
			c.Inconclusive("crash point not reached: " + cs.point)
		} else {
			c.Inconclusive(fmt.Sprintf("flush child exit %d before the crash point: %s", r.exit, r.stderr))
		}
		return nil
	}
	p := &c18CrashPending{idx: idx, cs: cs, key: key, pk: pk, dir: dir, data: data, file: file, a: a, b: b, in: in}
	if cs.point != "" {
		mb, err := os.ReadFile(marker)
		if err != nil || json.Unmarshal(mb, &p.hit) != nil {
			c.Inconclusive("child killed but left no crash marker: " + pk)
			return nil
		}
	}
	c.Distinct(key)
	p.state, p.fileTable, p.raw, p.perr = d.fileState(kind, file, a, b)
	if (p.state == "unparsable" || p.state == "truncated") && p.hit.Content != "" {
		// the child reported what it was about to write: a strict prefix of it is a truncated file
		if len(p.raw) < len(p.hit.Content) && strings.HasPrefix(p.hit.Content, string(p.raw)) {
			p.state = "truncated"
		} else {
			p.state = "unparsable"
		}
	}
	if p.state == "unreadable" {
		c.Inconclusive("cannot read the table file after the kill: " + p.perr)
		return nil
	}
	strays := 0
	if es, err := os.ReadDir(data); err == nil {
		for _, e := range es {
			if e.Name() != c18FileName(kind) {
				strays++
			}
		}
	}
	if strays > 0 {
		c.Count("stray_files_next_to_table_after_kill_unjudged", int64(strays))
	}
	// a server restarted on a complete file must be able to store its table again
	if cs.point != "" && (p.state == "A" || p.state == "B" || p.state == "missing") {
		e := c18GenEntry(kind, 200, rng)
		p.add = &e
	}
	return p
}

// crashJudge restarts a server on every file left behind (one batched child) and judges the cases.
func (d *c18Driver) crashJudge(pend []*c18CrashPending) {
	var jobs []c18LoadJob
	for _, p := range pend {
		jobs = append(jobs, c18LoadJob{Kind: p.cs.kind, File: p.file, Add: p.add})
	}
	outs, lerr := d.restart(jobs)
	for i, p := range pend {
		var out c18LoadOut
		if lerr == "" {
			out = outs[i]
		}
		d.crashVerdict(p, out, lerr)
		os.RemoveAll(p.dir)
	}
}

func (d *c18Driver) crashVerdict(p *c18CrashPending, out c18LoadOut, lerr string) {
	c := d.c
	cs, kind, a, b, pk, state := p.cs, p.cs.kind, p.a, p.b, p.pk, p.state
	loaded := c18FromListCanon(kind, out.Table)
	restartDesc := ""
	switch {
	case lerr != "":
		restartDesc = "unknown: " + lerr
	case out.Panic != "":
		restartDesc = "panic: " + out.Panic
	case !out.FileExists && kind == c18Auth && c18Equal(kind, loaded, c18DefaultTable(kind)):
		restartDesc = "default admin/admin account (file missing)"
	case c18Equal(kind, loaded, a) && len(out.Table) == len(a):
		restartDesc = "table A"
	case c18Equal(kind, loaded, b) && len(out.Table) == len(b):
		restartDesc = "table B"
	default:
		restartDesc = fmt.Sprintf("another table (%d entries)", len(out.Table))
	}
	c.SetAdd("outcome_by_point", fmt.Sprintf("%s: file=%s restart=%s", pk, state, restartDesc))
	c.Count("crash_cases/"+kind, 1)

	detail := func() map[string]interface{} {
		rawS := string(p.raw)
		if len(rawS) > 600 {
			rawS = rawS[:600] + "..."
		}
		return map[string]interface{}{"case": p.key, "kind": kind, "crash_point": cs.point, "torn_k": p.hit.K, "content_len": p.hit.Len,
			"file_state": state, "file_len": len(p.raw), "file_head": rawS, "parse_error": p.perr, "restart": restartDesc,
			"entries_a": len(a), "entries_b": len(b), "a": p.in.A, "b": p.in.B, "edit": cs.edit,
			"replay": "child: load A, apply A->B, Flush, SIGKILL at " + pk}
	}
	okStates := map[string]bool{"A": true, "B": true}
	if cs.edit == "first" {
		okStates["missing"] = true // no file before, no file after: still the previous state
	}
	if cs.point == "" {
		okStates = map[string]bool{"B": true}
	}
	if !okStates[state] {
		if cs.point == "" {
			c.Violation("C18:flush:file-not-new-table-after-clean-exit:"+state, detail())
			return
		}
		cls := map[string]string{"empty": "file-empty-after-kill", "truncated": "file-truncated", "unparsable": "file-unparsable",
			"other": "file-mixed", "missing": "file-missing-after-kill"}[state]
		c.Violation("C18:crash:"+cls+":"+cs.point, detail())
		return
	}
	// the file is a complete table: the restarted server must hold exactly that table
	if lerr != "" {
		c.Inconclusive(lerr)
		return
	}
	if out.Panic != "" {
		c.Violation("C18:crash:restart-panic-on-complete-file:"+pk, detail())
		return
	}
	if cls, desc := c18Compare(kind, out.Table, p.fileTable); cls != "" {
		dd := detail()
		dd["what"] = desc
		c.Violation("C18:crash:restart-differs-from-file-"+cls+":"+kind, dd)
		return
	}
	c.Count("crash_cases_file_is_"+state, 1)

	// the later flush by the restarted server (e.g. no left-over temp file in the way)
	if p.add != nil {
		nxt := c18Clone(p.fileTable)
		nxt[c18Key(kind, *p.add)] = *p.add
		switch {
		case !out.Flushed:
			c.Inconclusive("follow-up flush was not attempted")
		case out.FlushErr != "":
			dd := detail()
			dd["flush_error"] = out.FlushErr
			c.Violation("C18:crash:flush-fails-after-restart:"+cs.point, dd)
		default:
			st2, _, raw2, perr2 := d.fileState(kind, p.file, p.fileTable, nxt)
			if st2 != "B" {
				dd := detail()
				dd["followup_file_state"], dd["followup_file_len"], dd["followup_parse_error"] = st2, len(raw2), perr2
				c.Violation("C18:crash:flush-after-restart-leaves-wrong-file:"+cs.point, dd)
			} else {
				c.Count("followup_flush_after_restart_ok", 1)
			}
		}
	}
	if p.idx%97 == 0 {
		c.Sample(map[string]interface{}{"part": "crash", "case": p.key, "file_state": state, "restart": restartDesc, "torn_k": p.hit.K, "content_len": p.hit.Len})
	}
}

// fileState reads and classifies the table file with the harness' own decoder:
// missing | empty | truncated | unparsable | A | B | other.
func (d *c18Driver) fileState(kind, file string, a, b map[string]c18Rec) (state string, table map[string]c18Rec, raw []byte, perr string) {
	raw, err := os.ReadFile(file)
	if err != nil {
		if os.IsNotExist(err) {
			return "missing", c18DefaultTable(kind), nil, ""
		}
		return "unreadable", nil, nil, err.Error()
	}
	st, recs, perr := c18ParseFile(raw)
	if st != "table" {
		return st, nil, raw, perr
	}
	t := c18FromListCanon(kind, recs)
	if len(t) == len(recs) {
		if c18Equal(kind, t, a) {
			return "A", t, raw, ""
		}
		if c18Equal(kind, t, b) {
			return "B", t, raw, ""
		}
	}
	return "other", t, raw, ""
}
