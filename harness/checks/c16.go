package checks

import (
	"fmt"
	"strings"

	"verifharness/kit"

	"github.com/cnotch/ipchub/provider/auth"
)

// C16 — permission patterns mean what the configuration guide says.
//
// Oracle: an independently written reference matcher over the judged domain
// (where the guide is unambiguous), compared with auth.Save + auth.Get(..).ValidatePermission
// for every (right string, path) pair of an exhaustive bounded enumeration,
// plus structured random pairs beyond the bound.

func init() { kit.Register("C16", runC16) }

// refPattern is a parsed pattern of the judged domain.
type refPattern struct {
	all  bool
	segs []string // lower-cased; "+" = wildcard
	tail bool     // trailing '*'
}

func isLetters(s string) bool {
	if s == "" {
		return false
	}
	for _, r := range s {
		if !((r >= 'a' && r <= 'z') || (r >= 'A' && r <= 'Z') || (r >= '0' && r <= '9')) {
			return false
		}
	}
	return true
}

// refParseRight parses a right string; judged=false when the guide is silent about some pattern.
func refParseRight(right string) (pats []refPattern, judged bool) {
	judged = true
	for _, p := range strings.Split(right, ";") {
		p = strings.TrimSpace(p)
		if p == "" {
			continue
		}
		if p == "*" {
			pats = append(pats, refPattern{all: true})
			continue
		}
		if strings.HasPrefix(p, "/") {
			p = p[1:]
		}
		if p == "" || strings.HasSuffix(p, "/") {
			return nil, false
		}
		segs := strings.Split(p, "/")
		rp := refPattern{}
		for i, s := range segs {
			switch {
			case s == "+":
				rp.segs = append(rp.segs, "+")
			case s == "*" && i == len(segs)-1:
				rp.tail = true
			case isLetters(s):
				rp.segs = append(rp.segs, strings.ToLower(s))
			default:
				return nil, false
			}
		}
		pats = append(pats, rp)
	}
	return pats, true
}

// refParsePath splits a judged path into lower-cased segments.
func refParsePath(path string) (segs []string, judged bool) {
	if !strings.HasPrefix(path, "/") || len(path) < 2 || strings.HasSuffix(path, "/") {
		return nil, false
	}
	for _, s := range strings.Split(path[1:], "/") {
		if !isLetters(s) && s != "+" {
			return nil, false
		}
		segs = append(segs, strings.ToLower(s))
	}
	return segs, true
}

func refMatch(p refPattern, segs []string) bool {
	if p.all {
		return true
	}
	if len(segs) < len(p.segs) {
		return false
	}
	if len(segs) > len(p.segs) && !p.tail {
		return false
	}
	for i, ps := range p.segs {
		if ps == "+" {
			continue
		}
		if ps != segs[i] {
			return false
		}
	}
	return true
}

func refAllow(pats []refPattern, segs []string) bool {
	for _, p := range pats {
		if refMatch(p, segs) {
			return true
		}
	}
	return false
}

func enumStrings(alpha string, maxLen int) []string {
	out := []string{""}
	prev := []string{""}
	for l := 1; l <= maxLen; l++ {
		var cur []string
		for _, p := range prev {
			for _, a := range alpha {
				cur = append(cur, p+string(a))
			}
		}
		out = append(out, cur...)
		prev = cur
	}
	return out
}

type c16path struct {
	s      string
	segs   []string
	judged bool
}

func c16Check(c *kit.Ctx, uname string, right string, admin bool, rightKind auth.AccessRight, paths []c16path, stats *[4]int64) {
	// fresh user object every time: delete-then-create, so no state from an earlier right survives
	auth.Del(uname)
	u := &auth.User{Name: uname, Password: "x", Admin: admin}
	if rightKind == auth.PullRight {
		u.PullAccess = right
		u.PushAccess = "zzz"
	} else {
		u.PushAccess = right
		u.PullAccess = "zzz"
	}
	if err := auth.Save(u, true); err != nil {
		c.Violation("C16:save-error", map[string]interface{}{"right": right, "err": err.Error()})
		return
	}
	got := auth.Get(uname)
	if got == nil {
		c.Violation("C16:saved-user-missing", map[string]interface{}{"right": right})
		return
	}
	eff := right
	if admin && len(right) == 0 {
		eff = "*"
	}
	pats, rjudged := refParseRight(eff)
	for i := range paths {
		p := &paths[i]
		var allow bool
		func() {
			defer func() {
				if r := recover(); r != nil {
					c.Violation("C16:panic", map[string]interface{}{"right": right, "path": p.s, "panic": fmt.Sprint(r)})
				}
			}()
			allow = got.ValidatePermission(p.s, rightKind)
		}()
		if rjudged && !p.judged && allow && len(p.s) > 0 && p.s[0] == '/' {
			// Outside the judged domain (blank or empty segments, trailing '/') the guide does not say how a path is
			// read - but every reading compares literal pattern segments with the path's segments. If NO reading
			// (segments as split and trimmed; empty segments dropped; only trailing empty segments dropped) lets any
			// pattern match, a grant has no basis in the guide.
			if !c16AnyReadingAllows(pats, p.s) {
				stats[2]++
				c.Violation("C16:allows-what-no-reading-of-the-guide-allows", map[string]interface{}{"right": right, "admin": admin, "path": p.s,
					"kind": int(rightKind)})
				continue
			}
		}
		if !rjudged || !p.judged {
			stats[3]++
			continue
		}
		want := refAllow(pats, p.segs)
		if want {
			stats[0]++
		} else {
			stats[1]++
		}
		if allow != want {
			stats[2]++
			cls := "allows-what-guide-denies"
			if want {
				cls = "denies-what-guide-allows"
			}
			c.Violation("C16:"+cls, map[string]interface{}{"right": right, "admin": admin, "path": p.s,
				"kind": int(rightKind), "impl": allow, "reference": want})
		}
	}
}

// c16AnyReadingAllows: does any lenient reading of an out-of-domain path let a pattern match?
func c16AnyReadingAllows(pats []refPattern, path string) bool {
	raw := strings.Split(path[1:], "/")
	var readings [][]string
	for _, trim := range []bool{true, false} {
		var segs []string
		for _, x := range raw {
			if trim {
				x = strings.TrimSpace(x)
			}
			segs = append(segs, strings.ToLower(x))
		}
		isEmpty := func(x string) bool { return strings.TrimSpace(x) == "" }
		readings = append(readings, segs)
		var noEmpty []string
		for _, x := range segs {
			if !isEmpty(x) {
				noEmpty = append(noEmpty, x)
			}
		}
		readings = append(readings, noEmpty)
		// leading / trailing empty segments dropped one at a time (a trailing '/', a doubled leading '/')
		for lo := 0; lo <= len(segs); lo++ {
			if lo > 0 && !isEmpty(segs[lo-1]) {
				break
			}
			for hi := len(segs); hi >= lo; hi-- {
				if hi < len(segs) && !isEmpty(segs[hi]) {
					break
				}
				readings = append(readings, segs[lo:hi])
			}
		}
	}
	for _, segs := range readings {
		if refAllow(pats, segs) {
			return true
		}
	}
	return false
}

func runC16(c *kit.Ctx) {
	rightAlpha := "aB+*/; "
	pathAlpha := "aAb/ "
	maxR, maxP := 6, 5
	if c.Thorough() {
		maxR, maxP = 7, 6
	}
	rights := enumStrings(rightAlpha, maxR)
	var paths []c16path
	for _, s := range enumStrings(pathAlpha, maxP) {
		segs, j := refParsePath(s)
		paths = append(paths, c16path{s, segs, j})
	}
	// a few extra path shapes outside the small alphabet (unjudged ones are exercised for panics only)
	for _, s := range []string{"/", " /a", "/a ", "/a//b", "/a/", "/+", "/a/+", "/*", "/a/*"} {
		segs, j := refParsePath(s)
		paths = append(paths, c16path{s, segs, j})
	}
	var stats [4]int64 // want-allow, want-deny, disagreements, unjudged
	uname := fmt.Sprintf("c16u%d", c.Shard)
	n := 0
	for i, r := range rights {
		if !c.Mine(i) {
			continue
		}
		kind := auth.PullRight
		if i%3 == 1 {
			kind = auth.PushRight
		}
		c16Check(c, uname, r, false, kind, paths, &stats)
		n++
		if i < 40 || i%997 == 0 { // admin variants: empty right => "*", non-empty => as written
			c16Check(c, uname, r, true, kind, paths, &stats)
			n++
		}
	}
	exh := stats
	c.Count("exhaustive_right_strings", int64(n))
	if c.Shard == 0 {
		c.Count("exhaustive_paths", int64(len(paths)))
	}

	// structured random pairs beyond the exhaustive bound
	rng := c.SubRng("c16", 0)
	words := []string{"a", "B", "cam1", "Rooms", "x9", "+", "live"}
	nrand := c.Pick(3000, 40000) / max(1, c.NShards)
	for k := 0; k < nrand; k++ {
		var pl []string
		for j := 0; j < 1+rng.Intn(3); j++ {
			ns := 1 + rng.Intn(5)
			var segs []string
			for s := 0; s < ns; s++ {
				segs = append(segs, words[rng.Intn(len(words))])
			}
			if rng.Intn(3) == 0 {
				segs = append(segs, "*")
			}
			p := strings.Join(segs, "/")
			if rng.Intn(2) == 0 {
				p = "/" + p
			}
			if rng.Intn(4) == 0 {
				p = " " + p + " "
			}
			pl = append(pl, p)
		}
		if rng.Intn(20) == 0 {
			pl = append(pl, "*")
		}
		right := strings.Join(pl, ";")
		var ps []c16path
		for j := 0; j < 40; j++ {
			ns := 1 + rng.Intn(6)
			var segs []string
			for s := 0; s < ns; s++ {
				w := words[rng.Intn(len(words))]
				if w == "+" {
					w = "q"
				}
				if rng.Intn(2) == 0 {
					w = strings.ToUpper(w)
				}
				segs = append(segs, w)
			}
			s := "/" + strings.Join(segs, "/")
			sg, jd := refParsePath(s)
			ps = append(ps, c16path{s, sg, jd})
		}
		c16Check(c, uname, right, false, auth.PullRight, ps, &stats)
		if k < 3 {
			c.Sample(map[string]interface{}{"right": right, "paths": []string{ps[0].s, ps[1].s}})
		}
	}
	auth.Del(uname)

	judged := stats[0] + stats[1]
	c.Eval(int(judged + stats[3]))
	c.DistinctN(judged)
	c.Count("judged_pairs_expect_allow", stats[0])
	c.Count("judged_pairs_expect_deny", stats[1])
	c.Count("unjudged_pairs_exercised_for_totality_only", stats[3])
	c.Count("exhaustive_judged_pairs", exh[0]+exh[1])
	c.Count("disagreements", stats[2])
	c.Note("exhaustive_bound", fmt.Sprintf("all right strings of <=%d symbols over %q x all paths of <=%d symbols over %q", maxR, rightAlpha, maxP, pathAlpha))
	c.Sample(map[string]interface{}{"right": rights[min(len(rights)-1, 4321)], "path": paths[min(len(paths)-1, 777)].s})
}
