package checks

import (
	"bytes"
	"encoding/base64"
	"fmt"
	"strings"
	"time"

	"verifharness/kit"

	"github.com/cnotch/ipchub/av/format/flv"
	"github.com/cnotch/ipchub/config"
	"github.com/cnotch/ipchub/media"
)

// C08, parameter sets that arrive late: the SDP names H.264 or H.265 + AAC but carries no sprop parameter sets (cameras
// that only send them in-band). RTP goes through the stream's own depacketisers and FLV muxer. Before the parameter
// sets are complete the muxer cannot build the decoder configuration; whatever it does with the frames that arrive in
// that window (audio arrives first: the AAC depacketiser does not wait for the video parameter sets; the sets may
// arrive one by one with audio in between), no FLV client - attached from the start or joining later - may ever be
// handed a media tag before the AVC/HEVC configuration built from the complete in-band parameter sets and the AAC
// configuration. Frames of the waiting window themselves are not judged (a decoder could not use them); timestamps are
// not judged here (this path stamps decode times from the wall clock).

type c08lmCodec struct {
	name string
	sdp  string
	sets [][]byte // in-band parameter sets in sending order (H.264: SPS, PPS; H.265: VPS, SPS, PPS)
	key  byte     // NAL type of a key picture
	nal  func(typ byte, n int, id uint64) []byte
	hdr  int // NAL header bytes
}

func c08lmCodecs() []c08lmCodec {
	dec := func(s string) []byte { b, _ := base64.StdEncoding.DecodeString(s); return b }
	const sps4, pps4 = "Z2QAH6zZQFAFuhAAAAMAEAAAAwPI8YMZYA==", "aO+8sA=="
	const vps5, sps5, pps5 = "QAEMAf//BAgAAAMAnQgAAAMAAF26AkA=", "QgEBBAgAAAMAnQgAAAMAAF2wAoCALRZbqSTK4BAAAAMAEAAAAwHggA==", "RAHBcrRiQA=="
	return []c08lmCodec{
		{name: "H264", sdp: strings.Replace(kit.SDPH264AAC, " sprop-parameter-sets="+sps4+","+pps4+";", "", 1),
			sets: [][]byte{dec(sps4), dec(pps4)}, key: 5, hdr: 1,
			nal: func(typ byte, n int, id uint64) []byte { return kit.H264NAL(2, typ, n, id) }},
		{name: "H265", sdp: strings.Replace(kit.SDPH265AAC, "a=fmtp:96 sprop-vps="+vps5+"; sprop-sps="+sps5+"; sprop-pps="+pps5+"\r\n", "", 1),
			sets: [][]byte{dec(vps5), dec(sps5), dec(pps5)}, key: 19, hdr: 2,
			nal: func(typ byte, n int, id uint64) []byte { return kit.H265NAL(typ, 1, n, id) }},
	}
}

func c08lmConfigMatches(cd *c08lmCodec, body []byte, detail map[string]interface{}) bool {
	ok := false
	var perr error
	if cd.name == "H264" {
		cfg, err := kit.ParseAVCConfig(body)
		perr = err
		ok = err == nil && len(cfg.SPS) == 1 && len(cfg.PPS) == 1 && bytes.Equal(cfg.SPS[0], cd.sets[0]) && bytes.Equal(cfg.PPS[0], cd.sets[1])
	} else {
		cfg, err := kit.ParseHEVCConfig(body)
		perr = err
		if err == nil {
			v, s, p := cfg.NALs(32), cfg.NALs(33), cfg.NALs(34)
			ok = len(v) == 1 && len(s) == 1 && len(p) == 1 && bytes.Equal(v[0], cd.sets[0]) && bytes.Equal(s[0], cd.sets[1]) && bytes.Equal(p[0], cd.sets[2])
		}
	}
	if !ok {
		detail["decoder_configuration"] = fmt.Sprintf("%x (parse error: %v)", body, perr)
		var sets []string
		for _, s := range cd.sets {
			sets = append(sets, fmt.Sprintf("%x", s))
		}
		detail["in_band_parameter_sets"] = sets
	}
	return ok
}

func c08lmJudge(c *kit.Ctx, cd *c08lmCodec, who string, tags []flv.Tag, detail map[string]interface{}) {
	sawMeta, sawCfg, sawAAC, cfgFromInBand := false, false, false, false
	var order []string
	firstMedia := -1
	for i := range tags {
		t := &tags[i]
		switch {
		case t.TagType == 0x12:
			if firstMedia < 0 {
				sawMeta = true
			}
			order = append(order, "metadata")
		case t.TagType == flv.TagTypeVideo && len(t.Data) >= 5 && t.Data[1] == 0:
			order = append(order, "video-configuration")
			if firstMedia < 0 {
				sawCfg = true
				cfgFromInBand = c08lmConfigMatches(cd, t.Data[5:], detail) // the last one before the first media tag counts
			}
		case t.TagType == flv.TagTypeAudio && len(t.Data) >= 2 && t.Data[1] == 0:
			order = append(order, "aac-configuration")
			if firstMedia < 0 {
				sawAAC = true
			}
		case t.TagType == flv.TagTypeVideo || t.TagType == flv.TagTypeAudio:
			if firstMedia < 0 {
				firstMedia = i
				if t.TagType == flv.TagTypeVideo {
					order = append(order, "VIDEO")
				} else {
					order = append(order, "AUDIO")
				}
			}
		}
		if len(order) > 24 {
			break
		}
	}
	if firstMedia < 0 {
		return // nothing to judge: no media tag was handed to this client
	}
	c.Count("late_parameter_sets_clients_judged", 1)
	detail["client"], detail["tags_up_to_first_media"] = who, strings.Join(order, " ")
	switch {
	case !sawCfg:
		c.Violation("C08:late-parameter-sets:media-tag-before-video-configuration:"+cd.name+":"+who, detail)
	case !cfgFromInBand:
		c.Violation("C08:late-parameter-sets:video-configuration-not-built-from-the-complete-in-band-parameter-sets:"+cd.name+":"+who, detail)
	case !sawAAC:
		c.Violation("C08:late-parameter-sets:media-tag-before-aac-configuration:"+cd.name+":"+who, detail)
	case !sawMeta:
		c.Violation("C08:late-parameter-sets:media-tag-before-metadata:"+cd.name+":"+who, detail)
	}
}

func c08LateParameterSets(c *kit.Ctx) {
	codecs := c08lmCodecs()
	for _, cd := range codecs {
		if strings.Contains(cd.sdp, "sprop") {
			c.Inconclusive("late parameter sets: cannot build an SDP without sprop parameter sets")
			return
		}
	}
	rounds := c.Pick(16, 96)
	for ri := 0; ri < rounds; ri++ {
		if !c.Mine(ri) {
			continue
		}
		rng := c.SubRng("c08latemeta", ri)
		cd := &codecs[ri%2]
		cacheGop := (ri/2)%2 == 0
		config.VerifSet(false, cacheGop, "", 5)
		s := media.NewStream(fmt.Sprintf("/c08lm/s%d/%d", c.Shard, ri), cd.sdp)
		if s.FlvTypeFlags() == 0 {
			c.Inconclusive("late parameter sets: stream without sprop parameter sets has no FLV capability")
			s.Close()
			return
		}
		early := &c02tagRec{}
		s.StartConsume(early, media.FLVPacket, "early")
		vseq, aseq := uint16(rng.Intn(60000)), uint16(rng.Intn(60000))
		ts := uint32(rng.Intn(1 << 30))
		var id uint64 = uint64(ri)<<20 + 1
		video := func(nal []byte) {
			s.WriteRtpPacket(kit.MakeRTP(kit.ChVideo, 96, true, vseq, ts, 0x3331, nal))
			vseq++
			ts += 3000
		}
		slice := func(typ byte) uint64 {
			id++
			video(cd.nal(typ, 40+rng.Intn(300), id))
			return id
		}
		audio := func() {
			id++
			s.WriteRtpPacket(kit.MakeRTP(kit.ChAudio, 97, true, aseq, ts/2, 0x3332, kit.AACHbr([][]byte{kit.AACAU(20+rng.Intn(60), id)})))
			aseq++
		}
		// lets the muxer goroutine work through what was written so far (never a verdict: only widens what it can see)
		settle := func() {
			n := len(early.snapshot())
			poll := func() bool { return len(early.snapshot()) > n }
			waitUntil(poll, 150*time.Millisecond)
		}
		// the waiting window: audio and/or inter slices before any parameter set (order by the PRNG)
		window := ""
		for k, n := 0, 1+rng.Intn(5); k < n; k++ {
			if rng.Intn(3) != 0 || k == 0 && ri%8 < 6 {
				audio()
				window += "a"
			} else {
				slice(1)
				window += "v"
			}
		}
		settle()
		// parameter sets in-band: one packet each, one aggregation packet (H.264), or one packet each with audio in
		// between and time for the muxer to look at the half-complete sets
		how := []string{"single", "aggregated", "single+audio-between"}[(ri/4)%3]
		switch how {
		case "single":
			for _, ps := range cd.sets {
				video(ps)
			}
		case "aggregated":
			if cd.name == "H264" {
				video(kit.H264StapA(cd.sets))
			} else {
				video(kit.H265AP(cd.sets))
			}
		default:
			for k, ps := range cd.sets {
				video(ps)
				if k < len(cd.sets)-1 {
					audio()
					settle()
				}
			}
		}
		lastVideo := slice(cd.key)
		for k, n := 0, 2+rng.Intn(6); k < n; k++ {
			if rng.Intn(2) == 0 {
				audio()
			} else {
				lastVideo = slice(1)
			}
		}
		lastVideo = slice(1)
		scen := fmt.Sprintf("%s window=%s sets=%s cache_gop=%v", cd.name, window, how, cacheGop)
		c.Pre("C08 late parameter sets " + scen)
		detail := map[string]interface{}{"scenario": scen, "sdp": cd.name + " without sprop parameter sets + AAC"}
		hasVideo := func(tags []flv.Tag, want uint64) bool {
			for i := range tags {
				t := &tags[i]
				if t.TagType == flv.TagTypeVideo && len(t.Data) > 9+cd.hdr+12 && t.Data[1] == 1 {
					if got, ok := kit.CheckBody(t.Data[9+cd.hdr:]); ok && got == want {
						return true
					}
				}
			}
			return false
		}
		if !waitUntil(func() bool { return hasVideo(early.snapshot(), lastVideo) }, 10*time.Second) {
			c.Inconclusive("late parameter sets: the last video frame did not reach the FLV consumer")
			s.Close()
			kit.Log.TakePanics()
			continue
		}
		c.Eval(1)
		c.Distinct("late-parameter-sets/" + cd.name + "/" + how + "/" + window)
		c08lmJudge(c, cd, "from-start", early.snapshot(), detail)
		// a client that joins now (replay from the cache when cache_gop is on) and then receives live frames
		late := &c02tagRec{}
		s.StartConsume(late, media.FLVPacket, "late")
		audio()
		slice(cd.key)
		lastVideo = slice(1)
		if waitUntil(func() bool { return hasVideo(late.snapshot(), lastVideo) }, 10*time.Second) {
			c08lmJudge(c, cd, "late-joiner", late.snapshot(), detail)
		} else {
			c.Inconclusive("late parameter sets: the last video frame did not reach the late FLV consumer")
		}
		s.Close()
		// the unchanged muxer implements "cannot build the configuration yet" as a recovered panic per waiting frame;
		// those are expected here and must not be attributed to the next case
		for _, site := range kit.Log.TakePanics() {
			c.SetAdd("late_parameter_sets_recovered_panics_in_waiting_window", site)
		}
	}
}
