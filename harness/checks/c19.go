package checks

import (
	"bytes"
	"errors"
	"fmt"
	"hash/fnv"
	"io"
	"math/rand"
	"net"
	"runtime"
	"strings"
	"sync"
	"sync/atomic"
	"time"

	"verifharness/kit"

	"github.com/cnotch/ipchub/network/socket/listener"
	"github.com/cnotch/ipchub/service/rtsp"
)

// C19 — port multiplexing routes each connection to the right protocol, losing no byte.
//
// System under test: a real listener.Listener wired like service.(*Service).listen():
// SetReadTimeout, Match(rtsp.MatchRTSP()) first, Match(listener.MatchHTTP()) second, go Serve().
// Two recording stub services Accept from the two sub-listeners and read every connection to EOF
// with PRNG-chosen read sizes 1..4096.
//
// Oracle (written from the property statement only, shares no code with ipchub):
//   - c19Expect parses the first line of the client's byte stream and says RTSP / HTTP / closed /
//     unjudged (where the statement is silent);
//   - the bytes recorded by the receiving stub are compared with the bytes the client wrote
//     (exact comparison, first differing offset, FNV-64 checksums in the witness);
//   - per connection the set of stubs that accepted it is counted (exactly one, or none when closed).
//
// Wall-clock never decides alone. The matchers are wrapped (and a settings handler ties the serve
// goroutine to the connection's remote address) so that the check sees, per connection, how many
// bytes each matcher obtained and whether one of its Reads ended with the listener's sniff timeout.
// "Request line closed / sent to the other service" is a violation only when no sniff timeout was
// observed for that connection; if the deadline did fire although the client never paused that long
// (starved process on a loaded machine) the case is repeated and, failing that, inconclusive.
// "Still open 10 sniff timeouts later" is reported only when the in-process stall monitor saw no
// stall as long as the sniff timeout.

func init() { kit.Register("C19", runC19) }

const (
	// listener read timeout used by this check (the service uses NetTimeout/3). 2 s, because 16 race-built
	// shard processes stall each other for up to ~1.5 s on the 16-vCPU test machine: a shorter timeout
	// fires on request lines that were merely written slowly and turns judged cases into inconclusive ones.
	c19SniffTimeout = 2 * time.Second
	c19LongPause    = c19SniffTimeout + 300*time.Millisecond
	c19Watchdog     = 10 * c19SniffTimeout // client-side wait for the server to close / the stub to finish
	c19Depth        = 16                   // shapes segmentations only (RTSP matcher looks at up to 16 bytes, HTTP at 8)
	c19MaxInFlight  = 64
	c19HeadRoom     = 512
	c19MaxPayload   = 256 << 10
	c19SmallPayload = 8 << 10 // per-worker buffers hold this much; larger payloads borrow one of c19BigBufs pooled buffers
	c19BigBufs      = 8
)

// ---------------------------------------------------------------------------------------------
// oracle: expected service of a byte stream, from the statement

var c19RTSPMethods = []string{"DESCRIBE", "ANNOUNCE", "SETUP", "PLAY", "PAUSE", "TEARDOWN",
	"GET_PARAMETER", "SET_PARAMETER", "RECORD", "REDIRECT", "OPTIONS"}
var c19HTTPMethods = []string{"GET", "POST", "PUT", "DELETE", "HEAD", "OPTIONS", "PATCH", "CONNECT", "TRACE"}

type c19Target struct{ kind, text string }

var c19Targets = []c19Target{{"rtsp-url", "rtsp://host/path"}, {"RTSP-url", "RTSP://HOST/p"},
	{"star", "*"}, {"abs-path", "/path"}, {"http-url", "http://host/"}}
var c19Versions = []string{"RTSP/1.0", "HTTP/1.1", "HTTP/1.0"}

func c19In(list []string, s string) bool {
	for _, x := range list {
		if x == s {
			return true
		}
	}
	return false
}

// c19Expect returns want in {"rtsp","http","closed","unjudged"} and the reason.
func c19Expect(stream []byte) (want, why string) {
	if len(stream) == 0 {
		return "closed", "no-bytes"
	}
	line := stream
	if i := bytes.IndexAny(line, "\r\n"); i >= 0 {
		line = line[:i]
	}
	parts := strings.Split(string(line), " ")
	if len(parts) == 3 && parts[0] != "" && parts[1] != "" && parts[2] != "" {
		m, t, v := parts[0], parts[1], parts[2]
		isR, isH := c19In(c19RTSPMethods, m), c19In(c19HTTPMethods, m)
		vR := v == "RTSP/1.0"
		vH := v == "HTTP/1.1" || v == "HTTP/1.0"
		if (isR || isH) && (vR || vH) {
			if m == "OPTIONS" {
				rtspURL := strings.HasPrefix(t, "rtsp://") || strings.HasPrefix(t, "RTSP://")
				anyCaseRtspURL := len(t) >= 7 && strings.EqualFold(t[:7], "rtsp://")
				switch {
				case t == "*" && vR:
					return "rtsp", "options-star-rtsp-version"
				case rtspURL && vR:
					return "rtsp", "options-rtsp-url"
				case rtspURL && vH:
					return "unjudged", "options-rtsp-url-with-http-version"
				case anyCaseRtspURL:
					return "unjudged", "options-mixed-case-rtsp-scheme"
				case t == "*" && vH:
					// "RTSP exactly when its target is '*' with an RTSP version or an rtsp:// URL": the asterisk form
					// with an HTTP version is an HTTP request line (server-wide OPTIONS)
					return "http", "options-star-http-version"
				case vH:
					return "http", "options-http"
				default:
					return "unjudged", "options-non-rtsp-target-with-rtsp-version"
				}
			}
			if isR {
				if vR {
					return "rtsp", "rtsp-request-line"
				}
				return "unjudged", "rtsp-method-with-http-version"
			}
			if vH {
				return "http", "http-request-line"
			}
			return "unjudged", "http-method-with-rtsp-version"
		}
	}
	for _, m := range c19RTSPMethods {
		if bytes.HasPrefix(stream, []byte(m)) {
			return "unjudged", "starts-with-method-token-but-not-a-grammar-request-line"
		}
	}
	for _, m := range c19HTTPMethods {
		if bytes.HasPrefix(stream, []byte(m)) {
			return "unjudged", "starts-with-method-token-but-not-a-grammar-request-line"
		}
	}
	return "closed", "no-method-token"
}

func c19Sum(b []byte) string {
	h := fnv.New64a()
	h.Write(b)
	return fmt.Sprintf("%016x", h.Sum64())
}

// c19Diff classifies the difference between what was written and what the service read.
func c19Diff(want, got []byte) (kind string, off int) {
	if bytes.Equal(want, got) {
		return "", -1
	}
	n := len(want)
	if len(got) < n {
		n = len(got)
	}
	off = n
	for i := 0; i < n; i++ {
		if want[i] != got[i] {
			off = i
			break
		}
	}
	d := len(want) - len(got)
	switch {
	case len(got) == 0:
		return "lost-bytes", 0
	case d > 0 && off == len(got):
		return "truncated", off
	case d < 0 && off == len(want):
		return "extra-trailing-bytes", off
	case d > 0 && bytes.Equal(got[off:], want[off+d:]):
		return "lost-bytes", off
	case d < 0 && bytes.Equal(got[off-d:], want[off:]):
		return "duplicated-or-inserted-bytes", off
	}
	return "corrupt-or-reordered", off
}

// ---------------------------------------------------------------------------------------------
// cases

type c19Chunk struct {
	end   int
	pause time.Duration
}

type c19Case struct {
	idx        int
	id         string
	lineClass  string
	firstLine  string // printable form of the first bytes (for the witness)
	method     string
	stream     []byte
	want, why  string
	seg        string
	plan       []c19Chunk
	halfClose  bool
	readClass  string
	readSeed   int64
	payClass   string
	payLen     int
	slowPrefix bool // a pause longer than the sniff timeout before the sniffed bytes were complete
}

var c19ReadClasses = []string{"r1", "r2-7", "r8-16", "r17-256", "r257-4096", "r4096", "rmix"}

func c19NextRead(class string, rng *rand.Rand, off, nreads int) int {
	if off > 2048 && class != "r4096" && class != "rmix" { // far behind the sniffed bytes: bound the number of syscalls
		return 256 + rng.Intn(3841)
	}
	switch class {
	case "r1":
		if nreads < 48 {
			return 1
		}
		return 1 + rng.Intn(64)
	case "r2-7":
		return 2 + rng.Intn(6)
	case "r8-16":
		return 8 + rng.Intn(9)
	case "r17-256":
		return 17 + rng.Intn(240)
	case "r257-4096":
		return 257 + rng.Intn(3840)
	case "r4096":
		return 4096
	}
	return 1 << uint(rng.Intn(13)) // rmix: 1,2,4..4096
}

func c19PayloadLen(rng *rand.Rand) (string, int) {
	switch x := rng.Intn(100); {
	case x < 15:
		return "p0", 0
	case x < 40:
		return "p1-64", 1 + rng.Intn(64)
	case x < 75:
		return "p65-4096", 65 + rng.Intn(4032)
	case x < 93:
		return "p4097-65536", 4097 + rng.Intn(61440)
	case x < 98:
		return "p65537-262143", 65537 + rng.Intn(196607)
	}
	return "p262144", 262144
}

type c19Junk struct {
	class string
	gen   func(rng *rand.Rand) (prefix []byte, tail bool, halfClose int) // halfClose: 0 no, 1 yes, 2 random
}

func c19ValidLine(rng *rand.Rand) string {
	var m string
	if rng.Intn(2) == 0 {
		m = c19RTSPMethods[rng.Intn(len(c19RTSPMethods))]
	} else {
		m = c19HTTPMethods[rng.Intn(len(c19HTTPMethods))]
	}
	return m + " " + c19Targets[rng.Intn(len(c19Targets))].text + " " + c19Versions[rng.Intn(len(c19Versions))] + "\r\n"
}

var c19NearMiss = []string{"DESCRIB", "DESCRIBF rtsp://host/path RTSP/1.0\r\n", "OPTION * RTSP/1.0\r\n", "GE", "G",
	"GEt / HTTP/1.1\r\n", "PLA", "TEARDOWM rtsp://host/path RTSP/1.0\r\n", "SET-PARAMETER rtsp://host/path RTSP/1.0\r\n",
	"RECOR", "PUSH / HTTP/1.1\r\n", "HTTP/1.1 200 OK\r\n", "RTSP/1.0 200 OK\r\nCSeq: 1\r\n\r\n", "OPTION", "PAUS", "ANNOUNC",
	"REDIREC", "GET_PARAMETE", "SET_", "P", "PO", "PATC", "CONNEC", "DELET", "TRAC", "HEA", "SETU"}

var c19Ambiguous = []string{"GETX / HTTP/1.1\r\n", "GET\r\n", "PLAYER one\r\n", "OPTIONS", "OPTIONS * rtsp/1.0\r\n",
	"OPTIONS Rtsp://Host/p RTSP/1.0\r\n", "OPTIONS Rtsp://Host/p HTTP/1.1\r\n", "DESCRIBE", "GET  / HTTP/1.1\r\n",
	"GET /\r\n", "PLAY", "SETUP\r\n", "POST", "OPTIONS *", "OPTIONS * R", "OPTIONS rtsp:/", "GET_PARAMETER"}

var c19Junks = []c19Junk{
	{"junk:random-bytes", func(rng *rand.Rand) ([]byte, bool, int) {
		b := make([]byte, 1+rng.Intn(64))
		rng.Read(b)
		return b, rng.Intn(2) == 0, 2
	}},
	{"junk:lower-case-method", func(rng *rand.Rand) ([]byte, bool, int) {
		return []byte(strings.ToLower(c19ValidLine(rng))), rng.Intn(2) == 0, 2
	}},
	{"junk:leading-space", func(rng *rand.Rand) ([]byte, bool, int) {
		return []byte(" " + c19ValidLine(rng)), rng.Intn(2) == 0, 2
	}},
	{"junk:leading-crlf", func(rng *rand.Rand) ([]byte, bool, int) {
		return []byte("\r\n" + c19ValidLine(rng)), rng.Intn(2) == 0, 2
	}},
	{"junk:tls-client-hello", func(rng *rand.Rand) ([]byte, bool, int) {
		b := []byte{0x16, 0x03, 0x01, 0x02, 0x00, 0x01, 0x00, 0x01, 0xfc, 0x03, 0x03}
		r := make([]byte, 32+rng.Intn(200))
		rng.Read(r)
		return append(b, r...), rng.Intn(2) == 0, 2
	}},
	{"junk:interleaved-$-frame", func(rng *rand.Rand) ([]byte, bool, int) {
		n := rng.Intn(40)
		b := []byte{'$', byte(rng.Intn(4)), byte(n >> 8), byte(n)}
		r := make([]byte, n)
		rng.Read(r)
		return append(b, r...), rng.Intn(3) == 0, 2
	}},
	{"junk:empty-then-half-close", func(rng *rand.Rand) ([]byte, bool, int) { return nil, false, 1 }},
	{"junk:silent", func(rng *rand.Rand) ([]byte, bool, int) { return nil, false, 0 }},
	{"junk:near-miss-method", func(rng *rand.Rand) ([]byte, bool, int) {
		s := c19NearMiss[rng.Intn(len(c19NearMiss))]
		return []byte(s), len(s) > 8 && rng.Intn(3) == 0, 2
	}},
	{"ambiguous", func(rng *rand.Rand) ([]byte, bool, int) {
		s := c19Ambiguous[rng.Intn(len(c19Ambiguous))]
		return []byte(s), strings.HasSuffix(s, "\n") && rng.Intn(2) == 0, 1
	}},
}

func c19Printable(b []byte) string {
	if len(b) > 48 {
		b = b[:48]
	}
	return fmt.Sprintf("%q", b)
}

// c19Build builds case i (deterministic in seed, shard-independent apart from the SubRng salt).
//
// getBuf returns a reusable stream buffer of at least n bytes (the worker's small one or a pooled
// big one): under the race detector every fresh allocation above 16 KiB remaps shadow memory and
// faults it in again, which dominated the run time when each case allocated its own stream.
func c19Build(c *kit.Ctx, i int, getBuf func(n int) []byte) *c19Case {
	rng := c.SubRng("c19", i)
	cs := &c19Case{idx: i, id: fmt.Sprintf("c%d-s%d-%08x", i, c.Seed, rng.Uint32())}
	cs.readClass = c19ReadClasses[rng.Intn(len(c19ReadClasses))]
	cs.readSeed = rng.Int63()
	methods := append(append([]string{}, c19RTSPMethods...), c19HTTPMethods[:5]...) // OPTIONS is shared: 19 methods
	methods = append(methods, c19HTTPMethods[6:]...)
	if i%5 == 4 { // junk / ambiguous prefixes
		j := c19Junks[(i/5)%len(c19Junks)]
		prefix, tail, hc := j.gen(rng)
		cs.lineClass = j.class
		cs.stream = append([]byte{}, prefix...)
		if tail {
			t := make([]byte, 1+rng.Intn(3000))
			rng.Read(t)
			cs.stream = append(cs.stream, t...)
			cs.payClass, cs.payLen = "junk-tail", len(t)
		} else {
			cs.payClass = "none"
		}
		cs.halfClose = hc == 1 || (hc == 2 && rng.Intn(2) == 0)
		cs.firstLine = c19Printable(cs.stream)
		cs.want, cs.why = c19Expect(cs.stream)
		if cs.want == "unjudged" {
			cs.halfClose = true // so that a delivered connection can be read to EOF
		}
		c19PlanJunk(rng, cs)
		return cs
	}
	k := i - (i+1)/5 // index among grammar cases
	combo := k % (len(methods) * len(c19Targets) * len(c19Versions))
	m := methods[combo%len(methods)]
	t := c19Targets[(combo/len(methods))%len(c19Targets)]
	v := c19Versions[combo/(len(methods)*len(c19Targets))]
	cs.method = m
	short := rng.Intn(12) == 0
	if short {
		// first line shorter than the sniff depth, then EOF: only '*' and a one-letter path fit
		st := c19Target{"star", "*"}
		if rng.Intn(2) == 0 {
			st = c19Target{"abs-path", "/p"}
		}
		line := m + " " + st.text + " " + v
		if len(line) < c19Depth {
			if len(line) < c19Depth-1 && rng.Intn(2) == 0 {
				line += "\n"
			}
			cs.lineClass = m + "|" + st.kind + "|" + v + "|short-eof"
			cs.stream = []byte(line)
			cs.payClass = "none"
			cs.halfClose = true
			cs.firstLine = c19Printable(cs.stream)
			cs.want, cs.why = c19Expect(cs.stream)
			c19PlanGrammar(rng, cs, len(m), len(cs.stream))
			return cs
		}
	}
	line := m + " " + t.text + " " + v
	cs.lineClass = m + "|" + t.kind + "|" + v
	cs.payClass, cs.payLen = c19PayloadLen(rng)
	buf := getBuf(c19HeadRoom + cs.payLen)
	payload := buf[c19HeadRoom : c19HeadRoom+cs.payLen]
	rng.Read(payload)
	head := fmt.Sprintf("%s\r\nCSeq: 1\r\nX-Conn: %s\r\nContent-Length: %d\r\nX-Sum: %s\r\n\r\n", line, cs.id, cs.payLen, c19Sum(payload))
	copy(buf[c19HeadRoom-len(head):], head)
	cs.stream = buf[c19HeadRoom-len(head) : c19HeadRoom+cs.payLen]
	cs.halfClose = true
	cs.firstLine = c19Printable([]byte(line))
	cs.want, cs.why = c19Expect(cs.stream)
	c19PlanGrammar(rng, cs, len(m), len(line))
	return cs
}

func c19ms(rng *rand.Rand, lo, hi int) time.Duration {
	return time.Duration(lo+rng.Intn(hi-lo+1)) * time.Millisecond
}

// c19Rest appends chunks covering [from, L): one write or random chunk sizes with a few short pauses.
func c19Rest(rng *rand.Rand, plan []c19Chunk, from, L int, random bool) []c19Chunk {
	if from >= L {
		return plan
	}
	if !random {
		return append(plan, c19Chunk{L, 0})
	}
	pauses := 0
	for off := from; off < L; {
		n := 1 + rng.Intn(1<<uint(1+rng.Intn(12)))
		if L > 65536 {
			n += 1024
		}
		off += n
		if off > L {
			off = L
		}
		ch := c19Chunk{off, 0}
		if pauses < 8 && rng.Intn(10) == 0 {
			ch.pause = c19ms(rng, 1, 2)
			pauses++
		}
		plan = append(plan, ch)
	}
	return plan
}

func c19PlanGrammar(rng *rand.Rand, cs *c19Case, ML, FL int) {
	L := len(cs.stream)
	pick := rng.Intn(100)
	if L < c19Depth { // short stream: only the classes that make sense
		pick = []int{0, 20, 35, 50, 97}[rng.Intn(5)]
	}
	switch {
	case pick < 15:
		cs.seg = "whole"
		cs.plan = []c19Chunk{{L, 0}}
	case pick < 45:
		pausing := pick >= 30
		cs.seg = "1byte-first-N"
		if pausing {
			cs.seg = "1byte-first-N+pauses-in-sniffed-bytes"
		}
		N := []int{ML, 8, 9, 16, 17, FL + 2, 40}[rng.Intn(7)]
		if N > L {
			N = L
		}
		pauseAt := map[int]bool{}
		if pausing {
			if ML > 1 {
				pauseAt[1+rng.Intn(ML-1)] = true // inside the method token
			}
			for k := 0; k < 3; k++ {
				pauseAt[1+rng.Intn(c19Depth)] = true
			}
		}
		for i := 1; i <= N; i++ {
			ch := c19Chunk{i, 0}
			if pauseAt[i] && i < L {
				ch.pause = c19ms(rng, 1, 3)
			}
			cs.plan = append(cs.plan, ch)
		}
		cs.plan = c19Rest(rng, cs.plan, N, L, rng.Intn(2) == 0)
	case pick < 60:
		cs.seg = "split-inside-method+pause"
		k := 1
		if ML > 2 {
			k = 1 + rng.Intn(ML-1)
		}
		if k >= L {
			k = L - 1
		}
		if k < 1 {
			k = 1
		}
		cs.plan = append(cs.plan, c19Chunk{k, c19ms(rng, 1, 5)})
		cs.plan = c19Rest(rng, cs.plan, k, L, rng.Intn(2) == 0)
	case pick < 70:
		cs.seg = "split-at-sniff-depth-boundaries+pause"
		for _, cut := range []int{7, 8, 9, 15, 16, 17} {
			if cut < L && rng.Intn(2) == 0 {
				cs.plan = append(cs.plan, c19Chunk{cut, c19ms(rng, 1, 3)})
			}
		}
		from := 0
		if len(cs.plan) > 0 {
			from = cs.plan[len(cs.plan)-1].end
		}
		cs.plan = c19Rest(rng, cs.plan, from, L, false)
	case pick < 92:
		cs.seg = "random-chunks+pauses"
		cs.plan = c19Rest(rng, nil, 0, L, true)
	case pick < 96:
		lo := FL + 2
		if lo < c19Depth+1 {
			lo = c19Depth + 1
		}
		if L <= lo+1 {
			cs.seg = "whole"
			cs.plan = []c19Chunk{{L, 0}}
			break
		}
		cs.seg = "pause-longer-than-sniff-timeout-after-first-line"
		cut := lo + rng.Intn(L-lo)
		cs.plan = append(cs.plan, c19Chunk{cut, c19LongPause})
		cs.plan = c19Rest(rng, cs.plan, cut, L, rng.Intn(2) == 0)
	default:
		cs.seg = "pause-longer-than-sniff-timeout-inside-sniffed-bytes"
		hi := c19Depth - 1
		if hi > L-1 {
			hi = L - 1
		}
		if hi < 1 {
			cs.seg = "whole"
			cs.plan = []c19Chunk{{L, 0}}
			break
		}
		k := 1 + rng.Intn(hi)
		cs.slowPrefix = true
		cs.plan = append(cs.plan, c19Chunk{k, c19LongPause})
		cs.plan = c19Rest(rng, cs.plan, k, L, false)
	}
}

func c19PlanJunk(rng *rand.Rand, cs *c19Case) {
	L := len(cs.stream)
	if L == 0 {
		cs.seg = "no-bytes"
		return
	}
	switch rng.Intn(3) {
	case 0:
		cs.seg = "whole"
		cs.plan = []c19Chunk{{L, 0}}
	case 1:
		cs.seg = "1byte-first-N"
		N := []int{4, 8, 16, 17, 24}[rng.Intn(5)]
		if N > L {
			N = L
		}
		for i := 1; i <= N; i++ {
			cs.plan = append(cs.plan, c19Chunk{i, 0})
		}
		cs.plan = c19Rest(rng, cs.plan, N, L, false)
	default:
		cs.seg = "random-chunks+pauses"
		cs.plan = c19Rest(rng, nil, 0, L, true)
	}
}

// ---------------------------------------------------------------------------------------------
// stall monitor: how long this process' goroutines were kept from running

type c19Stalls struct {
	mu     sync.Mutex
	events []c19Stall
	stop   chan struct{}
	max    time.Duration
}
type c19Stall struct {
	at  time.Time
	gap time.Duration
}

func (s *c19Stalls) run() {
	const tick = 5 * time.Millisecond
	last := time.Now()
	for {
		select {
		case <-s.stop:
			return
		default:
		}
		time.Sleep(tick)
		now := time.Now()
		if gap := now.Sub(last) - tick; gap > 20*time.Millisecond {
			s.mu.Lock()
			s.events = append(s.events, c19Stall{now, gap})
			if gap > s.max {
				s.max = gap
			}
			s.mu.Unlock()
		}
		last = now
	}
}

func (s *c19Stalls) maxBetween(a, b time.Time) time.Duration {
	s.mu.Lock()
	defer s.mu.Unlock()
	var m time.Duration
	for _, e := range s.events {
		if e.at.After(a) && e.at.Add(-e.gap).Before(b) && e.gap > m {
			m = e.gap
		}
	}
	return m
}

// ---------------------------------------------------------------------------------------------
// harness: listener + stubs + registry

type c19Rec struct {
	stub    string
	data    []byte
	err     error // nil = clean EOF
	nreads  int
	tooMuch bool // stopped reading: already 4 KiB more than the client's whole stream
	minRead int
	maxRead int
}

// c19Sniff is what one matcher call observed on its io.Reader (recorded by the matcher wrapper).
type c19Sniff struct {
	matcher string
	n       int    // bytes the matcher obtained
	data    []byte // those bytes (at most 32)
	timeout bool   // a Read returned a timeout error: the listener's sniff deadline fired
	err     string
	matched bool
	ms      int64
	at      time.Time
}

type c19Tap struct {
	r    io.Reader
	n    int
	data []byte
	err  error
}

func (t *c19Tap) Read(p []byte) (int, error) {
	n, err := t.r.Read(p)
	if n > 0 {
		if room := 32 - len(t.data); room > 0 {
			k := n
			if k > room {
				k = room
			}
			t.data = append(t.data, p[:k]...)
		}
		t.n += n
	}
	if err != nil {
		t.err = err
	}
	return n, err
}

// c19Gid returns the current goroutine's id: listener.serve calls the settings handler (which sees the
// net.Conn) and then the matchers (which see only an io.Reader) on one goroutine, so the id ties them.
func c19Gid() uint64 {
	var b [40]byte
	n := runtime.Stack(b[:], false)
	var id uint64
	for _, ch := range b[len("goroutine "):n] {
		if ch < '0' || ch > '9' {
			break
		}
		id = id*10 + uint64(ch-'0')
	}
	return id
}

type c19Entry struct {
	mu       sync.Mutex
	cs       *c19Case
	sniff    []c19Sniff
	accepts  []string
	recs     []*c19Rec
	done     chan struct{}
	doneOnce sync.Once
	finished bool   // the client has evaluated this connection
	recBuf   []byte // the worker's reusable record buffer, taken by the first stub that accepts
	watchdog bool   // ... after giving up waiting
}

type c19H struct {
	c         *kit.Ctx
	addr      string
	mu        sync.Mutex
	entries   map[string]*c19Entry
	stalls    *c19Stalls
	unmatched int64
	rerunDone map[string]bool
	gaddr     map[uint64]string     // serve goroutine -> remote address of the connection it is sniffing
	pending   map[string][]c19Sniff // matcher calls that ended before the (stalled) client had registered its address
}

func (h *c19H) onAccepted(conn net.Conn) { // listener settings handler: first thing serve() does with a connection
	gid := c19Gid()
	addr := conn.RemoteAddr().String()
	h.mu.Lock()
	h.gaddr[gid] = addr
	h.mu.Unlock()
}

func (h *c19H) noteSniff(name string, tap *c19Tap, matched bool, d time.Duration) {
	gid := c19Gid()
	h.mu.Lock()
	addr, ok := h.gaddr[gid]
	if matched || name == "http" { // last matcher call of this serve goroutine
		delete(h.gaddr, gid)
	}
	e := h.entries[addr]
	sn := c19Sniff{matcher: name, n: tap.n, data: tap.data, matched: matched, ms: d.Milliseconds(), at: time.Now()}
	if tap.err != nil {
		sn.err = tap.err.Error()
		var ne net.Error
		sn.timeout = errors.As(tap.err, &ne) && ne.Timeout()
	}
	stale := false
	if e != nil { // lock order h.mu -> e.mu is used nowhere in reverse
		e.mu.Lock()
		stale = e.finished // entry of an earlier connection from the same port
		e.mu.Unlock()
	}
	if ok && (e == nil || stale) {
		// the kernel completed the handshake, but the client goroutine has not run far enough to register
		// (seen when the machine is overloaded): keep the record until it does
		h.pending[addr] = append(h.pending[addr], sn)
		e = nil
	}
	h.mu.Unlock()
	if !ok || e == nil {
		return
	}
	e.mu.Lock()
	e.sniff = append(e.sniff, sn)
	e.mu.Unlock()
}

func (h *c19H) register(addr string, cs *c19Case, recBuf []byte, dialStart time.Time) *c19Entry {
	e := &c19Entry{cs: cs, done: make(chan struct{}), recBuf: recBuf}
	h.mu.Lock()
	h.entries[addr] = e
	for _, sn := range h.pending[addr] {
		if sn.at.After(dialStart) { // older ones belong to an earlier connection from the same port whose dial failed
			e.sniff = append(e.sniff, sn)
		}
	}
	delete(h.pending, addr)
	h.mu.Unlock()
	return e
}

func (h *c19H) wrapMatcher(name string, m listener.Matcher) listener.Matcher {
	return func(r io.Reader) (ok bool) {
		tap := &c19Tap{r: r}
		t := time.Now()
		defer func() {
			if p := recover(); p != nil {
				h.c.Violation("C19:panic:matcher-"+name, map[string]interface{}{"panic": fmt.Sprint(p), "bytes_read": fmt.Sprintf("%q", tap.data)})
				ok = false
			}
			h.noteSniff(name, tap, ok, time.Since(t))
		}()
		return m(tap)
	}
}

func (h *c19H) stubLoop(stub string, l net.Listener, wg *sync.WaitGroup) {
	defer wg.Done()
	for {
		conn, err := l.Accept()
		if err != nil {
			return
		}
		go h.stubHandle(stub, conn)
	}
}

var errC19Livelock = errors.New("1000 consecutive (0, nil) reads")

func (h *c19H) stubHandle(stub string, conn net.Conn) {
	addr := conn.RemoteAddr().String()
	h.mu.Lock()
	e := h.entries[addr]
	h.mu.Unlock()
	if e == nil {
		h.c.Violation("C19:once:delivery-of-unknown-connection:"+stub, map[string]interface{}{"remote": addr})
		conn.Close()
		return
	}
	e.mu.Lock()
	late, wd := e.finished, e.watchdog
	e.accepts = append(e.accepts, stub)
	cs := e.cs
	recBuf := e.recBuf
	e.recBuf = nil
	e.mu.Unlock()
	if late {
		if wd {
			h.c.Inconclusive("connection delivered to a stub after the client's watchdog had given up")
		} else {
			h.c.Violation("C19:once:delivered-after-the-client-saw-the-connection-closed:"+stub,
				map[string]interface{}{"case": cs.idx, "id": cs.id, "first_bytes": cs.firstLine})
		}
	}
	rec := &c19Rec{stub: stub, minRead: 1 << 30, data: recBuf[:0]}
	rng := rand.New(rand.NewSource(cs.readSeed))
	buf := make([]byte, 4096)
	zero := 0
	func() {
		defer func() {
			if p := recover(); p != nil {
				rec.err = fmt.Errorf("panic in Conn.Read: %v", p)
				h.c.Violation("C19:panic:conn-read", map[string]interface{}{"case": cs.idx, "panic": fmt.Sprint(p)})
			}
		}()
		for {
			n := c19NextRead(cs.readClass, rng, len(rec.data), rec.nreads)
			k, err := conn.Read(buf[:n])
			rec.nreads++
			if k > 0 {
				rec.data = append(rec.data, buf[:k]...)
				if k < rec.minRead {
					rec.minRead = k
				}
				if k > rec.maxRead {
					rec.maxRead = k
				}
				zero = 0
			} else if err == nil {
				if zero++; zero >= 1000 {
					rec.err = errC19Livelock
					return
				}
			}
			if err != nil {
				if err != io.EOF {
					rec.err = err
				}
				return
			}
			if len(rec.data) > len(cs.stream)+4096 { // a replay loop would otherwise feed the stub for ever
				rec.tooMuch = true
				return
			}
		}
	}()
	e.mu.Lock()
	e.recs = append(e.recs, rec)
	e.mu.Unlock()
	e.doneOnce.Do(func() { close(e.done) })
	conn.Close() // only after the record is published: the client's EOF implies the record is there
}

type c19Bufs struct{ stream, rec []byte }

func c19NewBufs(payload int) *c19Bufs {
	return &c19Bufs{stream: make([]byte, c19HeadRoom+payload), rec: make([]byte, 0, c19HeadRoom+payload+2048)}
}

type c19Outcome struct {
	dialErr    error
	entry      *c19Entry
	written    int
	werr       error
	clientEnd  string // eof | reset | deadline
	endErr     string
	srvBytes   int
	t0, tSniff time.Time
	tEnd       time.Time
	accepts    []string
	rec        *c19Rec
	nrecs      int
	recWaitOut bool
	sniff      []c19Sniff
	recBufFree bool // no stub took the worker's record buffer, or the stub that took it has finished
}

// result: "rtsp" | "http" | "closed" | "open" | "multi"
func (o *c19Outcome) result() string {
	switch {
	case len(o.accepts) > 1:
		return "multi"
	case len(o.accepts) == 1:
		return o.accepts[0]
	case o.clientEnd == "deadline":
		return "open"
	}
	return "closed"
}

func (h *c19H) run(cs *c19Case, recBuf []byte) (o c19Outcome) {
	o.t0 = time.Now()
	conn, err := net.DialTimeout("tcp", h.addr, 10*time.Second)
	if err != nil {
		o.dialErr = err
		return
	}
	defer conn.Close()
	tc := conn.(*net.TCPConn)
	e := h.register(conn.LocalAddr().String(), cs, recBuf, o.t0)
	o.entry = e
	sniffEnd := len(cs.stream)
	if sniffEnd > c19Depth {
		sniffEnd = c19Depth
	}
	off := 0
	if sniffEnd == 0 {
		o.tSniff = time.Now()
	}
	for _, ch := range cs.plan {
		if ch.end > off {
			n, werr := conn.Write(cs.stream[off:ch.end])
			off += n
			if o.tSniff.IsZero() && off >= sniffEnd {
				o.tSniff = time.Now()
			}
			if werr != nil {
				o.werr = werr
				break
			}
		}
		if ch.pause > 0 {
			time.Sleep(ch.pause)
		}
	}
	o.written = off
	if o.tSniff.IsZero() {
		o.tSniff = time.Now()
	}
	if cs.halfClose && o.werr == nil {
		_ = tc.CloseWrite()
	}
	// the server never writes: wait until it (or the stub that got the connection) closes
	_ = conn.SetReadDeadline(time.Now().Add(c19Watchdog))
	buf := make([]byte, 256)
	for {
		n, rerr := conn.Read(buf)
		o.srvBytes += n
		if rerr != nil {
			var ne net.Error
			switch {
			case rerr == io.EOF:
				o.clientEnd = "eof"
			case errors.As(rerr, &ne) && ne.Timeout():
				o.clientEnd = "deadline"
			default:
				o.clientEnd = "reset"
			}
			o.endErr = rerr.Error()
			break
		}
	}
	o.tEnd = time.Now()
	e.mu.Lock()
	nacc := len(e.accepts)
	e.mu.Unlock()
	if nacc > 0 && o.clientEnd != "deadline" {
		select {
		case <-e.done:
		case <-time.After(c19Watchdog):
			o.recWaitOut = true
		}
	}
	e.mu.Lock()
	o.accepts = append([]string{}, e.accepts...)
	o.sniff = append([]c19Sniff{}, e.sniff...)
	o.nrecs = len(e.recs)
	if o.nrecs > 0 {
		o.rec = e.recs[0]
	}
	e.finished = true
	e.watchdog = o.clientEnd == "deadline" || o.recWaitOut
	o.recBufFree = e.recBuf != nil || (len(e.accepts) == 1 && o.nrecs == 1)
	e.recBuf = nil
	e.mu.Unlock()
	return
}

func (h *c19H) detail(cs *c19Case, o *c19Outcome) map[string]interface{} {
	var plan []string
	for i, ch := range cs.plan {
		if i >= 24 {
			plan = append(plan, fmt.Sprintf("...(%d chunks)", len(cs.plan)))
			break
		}
		if ch.pause > 0 {
			plan = append(plan, fmt.Sprintf("->%d,sleep %s", ch.end, ch.pause))
		} else {
			plan = append(plan, fmt.Sprintf("->%d", ch.end))
		}
	}
	d := map[string]interface{}{
		"case_index": cs.idx, "conn_id": cs.id, "line_class": cs.lineClass, "first_bytes": cs.firstLine,
		"stream_len": len(cs.stream), "stream_fnv64": c19Sum(cs.stream), "payload_len": cs.payLen,
		"want": cs.want, "want_reason": cs.why, "segmentation": cs.seg, "write_plan_end_offsets": plan,
		"half_close": cs.halfClose, "read_class": cs.readClass, "read_seed": cs.readSeed,
		"sniff_timeout_ms": c19SniffTimeout.Milliseconds(),
		"result":           o.result(), "accepted_by": o.accepts, "client_written": o.written, "client_end": o.clientEnd, "client_end_err": o.endErr,
		"ms_dial_to_sniffed_bytes_written": o.tSniff.Sub(o.t0).Milliseconds(), "ms_total": o.tEnd.Sub(o.t0).Milliseconds(),
		"max_scheduler_stall_ms": h.stalls.maxBetween(o.t0, o.tEnd).Milliseconds(),
	}
	if len(cs.stream) <= 96 {
		d["stream"] = fmt.Sprintf("%q", cs.stream)
	}
	if o.werr != nil {
		d["client_write_err"] = o.werr.Error()
	}
	var sl []string
	for _, sn := range o.sniff {
		sl = append(sl, fmt.Sprintf("%s matcher: read %d bytes %q err=%q matched=%v after %d ms", sn.matcher, sn.n, sn.data, sn.err, sn.matched, sn.ms))
	}
	d["matcher_calls_observed"] = sl
	return d
}

// sniffTimedOut says whether the listener's sniff deadline fired on this connection. Decided by state, not
// by the clock: the matcher wrapper saw the connection's matcher calls and whether one of their Reads
// returned a timeout error. A connection for which no matcher call was observed at all (the kernel reset
// it before the listener accepted it, seen on an overloaded machine) is undecidable as well.
func (h *c19H) sniffTimedOut(o *c19Outcome) bool {
	for _, sn := range o.sniff {
		if sn.timeout {
			return true
		}
	}
	return len(o.sniff) == 0
}

// undecidable: a judged request line was not delivered to the expected stub, and the sniff deadline fired
// although the client never paused that long: the server side did not get the bytes in time (starved
// process, loaded machine). The statement allows closing a connection that is silent past the timeout.
func (h *c19H) undecidable(cs *c19Case, o *c19Outcome) bool {
	if o.dialErr != nil || cs.slowPrefix || (cs.want != "rtsp" && cs.want != "http") {
		return false
	}
	res := o.result()
	return res != cs.want && res != "multi" && res != "open" && h.sniffTimedOut(o)
}

// rerunWhole repeats the stream of cs as one write on a fresh connection and returns the result.
func (h *c19H) rerunWhole(cs *c19Case, sig string) string {
	h.mu.Lock()
	seen := h.rerunDone[sig]
	h.rerunDone[sig] = true
	h.mu.Unlock()
	if seen {
		return "not-rerun"
	}
	cp := *cs
	cp.id += "-rerun"
	cp.seg = "whole"
	cp.plan = nil
	if len(cp.stream) > 0 {
		cp.plan = []c19Chunk{{len(cp.stream), 0}}
	}
	o := h.run(&cp, nil)
	if o.dialErr != nil {
		return "dial-error"
	}
	return o.result()
}

func (h *c19H) judge(cs *c19Case, o *c19Outcome) {
	c := h.c
	c.Eval(1)
	if o.dialErr != nil {
		c.Inconclusive("dial failed: " + o.dialErr.Error())
		return
	}
	res := o.result()
	c.Distinct(cs.lineClass + "|" + cs.seg + "|" + cs.readClass)
	c.SetAdd("first_line_classes", cs.lineClass)
	c.SetAdd("segmentation_classes", cs.seg)
	c.SetAdd("payload_classes", cs.payClass)
	c.SetAdd("want_x_result", cs.want+"("+cs.why+")->"+res)
	c.Count("want_"+cs.want, 1)
	for _, sn := range o.sniff {
		if !bytes.HasPrefix(cs.stream, sn.data) {
			d := h.detail(cs, o)
			c.Violation("C19:bytes:matcher-saw-bytes-the-client-did-not-send:"+sn.matcher, d)
		}
		if sn.timeout {
			c.Count("matcher_calls_ended_by_sniff_timeout", 1)
		}
		c.Count("matcher_calls_observed_"+sn.matcher, 1)
	}
	if len(o.sniff) == 0 {
		c.Count("connections_without_observed_matcher_call", 1)
		c.SetAdd("connections_without_observed_matcher_call", cs.lineClass+"->"+res+"/"+o.clientEnd)
	}
	if o.srvBytes > 0 {
		c.Violation("C19:bytes:server-wrote-to-client-before-any-service-did", h.detail(cs, o))
	}
	site := cs.method
	if site == "" {
		site = cs.lineClass
	}
	switch res {
	case "multi":
		kind := "both-services"
		if o.accepts[0] == o.accepts[1] {
			kind = "same-service-twice"
		}
		c.Violation("C19:once:delivered-to-"+kind, h.detail(cs, o))
		return
	case "open":
		// neither delivered nor closed 10 sniff timeouts after the last client byte
		if h.stalls.maxBetween(o.t0, o.tEnd) < c19SniffTimeout {
			sig := "C19:close:still-open-10-sniff-timeouts-later:" + cs.lineClass
			if cs.want == "rtsp" || cs.want == "http" {
				sig = "C19:once:neither-delivered-nor-closed:" + site
			}
			c.Violation(sig, h.detail(cs, o))
		} else {
			c.Inconclusive("connection still open at the watchdog, but the process was stalled")
		}
		return
	case "closed":
		switch cs.want {
		case "closed":
			c.Count("closed_as_expected", 1)
		case "unjudged":
			c.Count("unjudged_closed", 1)
		default:
			if cs.slowPrefix {
				c.Count("unjudged_slow_prefix_closed", 1)
				return
			}
			if h.sniffTimedOut(o) {
				if len(o.sniff) == 0 {
					c.Inconclusive("request line closed without any matcher call observed for the connection (reset before the listener accepted it?)")
					return
				}
				c.Inconclusive("request line closed after the sniff deadline fired, although the client wrote it without such a pause (server side starved?)")
				return
			}
			sig := "C19:route:want-" + cs.want + ":got-closed:" + site
			d := h.detail(cs, o)
			d["rerun_as_one_write_result"] = h.rerunWhole(cs, sig)
			c.Violation(sig, d)
		}
		return
	}
	// delivered to exactly one stub: res is "rtsp" or "http"
	c.SetAdd("read_classes_on_delivered", cs.readClass)
	judgedRoute := cs.want != "unjudged" && !cs.slowPrefix
	switch {
	case !judgedRoute:
		c.Count("unjudged_delivered_to_"+res, 1)
	case cs.want == "closed":
		sig := "C19:route:want-closed:got-" + res + ":" + cs.lineClass
		d := h.detail(cs, o)
		d["rerun_as_one_write_result"] = h.rerunWhole(cs, sig)
		c.Violation(sig, d)
	case cs.want != res:
		// a sniff timeout that fires on a partial first line can also misroute (e.g. "GET_PAR" -> HTTP): same gate as for "closed"
		if h.sniffTimedOut(o) {
			c.Inconclusive("request line routed to the other service after the sniff deadline fired on a partial line, although the client wrote it without such a pause (server side starved?)")
			break
		}
		sig := "C19:route:want-" + cs.want + ":got-" + res + ":" + site
		d := h.detail(cs, o)
		d["rerun_as_one_write_result"] = h.rerunWhole(cs, sig)
		c.Violation(sig, d)
	default:
		c.Count("routed_as_expected_"+res, 1)
	}
	// byte integrity, whatever the routing verdict
	if o.rec == nil {
		if o.clientEnd == "deadline" && !cs.halfClose {
			return // stub still blocked reading a connection the client never half-closed (reported above)
		}
		if o.clientEnd == "deadline" && o.werr == nil && h.stalls.maxBetween(o.t0, o.tEnd) < c19SniffTimeout {
			// the client half-closed 10 sniff timeouts ago and the service is still inside Read
			c.Violation("C19:bytes:service-never-sees-end-of-stream:"+res, h.detail(cs, o))
			return
		}
		c.Inconclusive("stub accepted the connection but its record did not arrive within the watchdog")
		return
	}
	rec := o.rec
	if rec.err != nil {
		var ne net.Error
		kind := "other"
		if errors.As(rec.err, &ne) && ne.Timeout() {
			kind = "timeout-armed-by-listener-still-active-after-handoff" // the stub never sets a deadline itself
		} else if rec.err == errC19Livelock {
			kind = "zero-byte-reads-forever"
		}
		d := h.detail(cs, o)
		d["service_read_err"] = rec.err.Error()
		d["service_bytes_before_error"] = len(rec.data)
		c.Violation("C19:bytes:service-read-error:"+kind+":"+res, d)
		return
	}
	if o.werr != nil && !rec.tooMuch {
		c.Inconclusive("client write failed on a delivered connection without a service read error")
		return
	}
	want := cs.stream[:o.written]
	kind, off := c19Diff(want, rec.data)
	if rec.tooMuch {
		kind = "more-bytes-than-written"
	}
	if kind != "" {
		d := h.detail(cs, o)
		d["first_diff_offset"] = off
		d["service_len"] = len(rec.data)
		d["service_fnv64"] = c19Sum(rec.data)
		lo, hiW, hiG := off-8, off+24, off+24
		if lo < 0 {
			lo = 0
		}
		if hiW > len(want) {
			hiW = len(want)
		}
		if hiG > len(rec.data) {
			hiG = len(rec.data)
		}
		if lo <= hiW {
			d["client_bytes_around_diff"] = fmt.Sprintf("@%d %q", lo, want[lo:hiW])
		}
		if lo <= hiG {
			d["service_bytes_around_diff"] = fmt.Sprintf("@%d %q", lo, rec.data[lo:hiG])
		}
		d["service_reads"] = rec.nreads
		c.Violation("C19:bytes:"+kind+":"+res, d)
		return
	}
	c.Count("streams_byte_identical", 1)
	c.Count("bytes_compared", int64(len(want)))
	if bytes.Contains(rec.data, []byte("X-Conn: "+cs.id+"\r\n")) {
		c.Count("conn_id_found_in_service_bytes", 1)
	}
	rc := "1"
	switch {
	case rec.minRead >= 17:
		rc = ">=17"
	case rec.minRead >= 8:
		rc = "8-16"
	case rec.minRead >= 2:
		rc = "2-7"
	}
	c.SetAdd("smallest_read_returned_on_delivered", rc)
}

func runC19(c *kit.Ctx) {
	c19RealService(c) // the shared port of the real service (c19_service.go)
	// The race runtime spends most of its time in contention when 16 shard processes each run 16 Ps:
	// 4 Ps per shard give the same wall time at a third of the CPU and far fewer scheduler stalls.
	procs := runtime.NumCPU()
	if c.NShards > 1 && procs > 4 {
		procs = 4
	} else if procs > 8 {
		procs = 8
	}
	defer runtime.GOMAXPROCS(runtime.GOMAXPROCS(procs))
	h := &c19H{c: c, entries: map[string]*c19Entry{}, stalls: &c19Stalls{stop: make(chan struct{})}, rerunDone: map[string]bool{}, gaddr: map[uint64]string{}, pending: map[string][]c19Sniff{}}
	l, err := listener.New("127.0.0.1:0", nil)
	if err != nil {
		c.Inconclusive("listener.New: " + err.Error())
		return
	}
	h.addr = l.Addr().String()
	l.SetReadTimeout(c19SniffTimeout)
	l.HandleError(func(err error) bool { // as in service.listen: log and carry on
		if _, ok := err.(listener.ErrNotMatched); ok {
			atomic.AddInt64(&h.unmatched, 1)
		}
		return true
	})
	l.HandleSettings(h.onAccepted) // observer only (the service leaves the default no-op)
	rl := l.Match(h.wrapMatcher("rtsp", rtsp.MatchRTSP()))
	hl := l.Match(h.wrapMatcher("http", listener.MatchHTTP()))
	var stubs sync.WaitGroup
	stubs.Add(2)
	go h.stubLoop("rtsp", rl, &stubs)
	go h.stubLoop("http", hl, &stubs)
	served := make(chan error, 1)
	go func() { served <- l.Serve() }()
	go h.stalls.run()

	n := c.Pick(4000, 200000)
	work := make(chan int)
	bigPool := make(chan *c19Bufs, c19BigBufs)
	for k := 0; k < c19BigBufs; k++ {
		bigPool <- c19NewBufs(c19MaxPayload)
	}
	var wg sync.WaitGroup
	for w := 0; w < c19MaxInFlight; w++ {
		wg.Add(1)
		go func() {
			defer wg.Done()
			small := c19NewBufs(c19SmallPayload)
			for i := range work {
				var big *c19Bufs
				bufs := small
				cs := c19Build(c, i, func(n int) []byte {
					if n > len(small.stream) {
						big = <-bigPool
						bufs = big
					}
					return bufs.stream
				})
				recBuf := bufs.rec
				c.Pre(fmt.Sprintf("C19 case %d %s seg=%s read=%s len=%d", i, cs.firstLine, cs.seg, cs.readClass, len(cs.stream)))
				var o c19Outcome
				for attempt := 0; ; attempt++ {
					o = h.run(cs, recBuf)
					// a request line that was closed / misrouted while this process was stalled cannot be judged
					// (the sniff timeout may have fired on a partial line): repeat the same case on a fresh connection
					if attempt == 2 || !h.undecidable(cs, &o) {
						break
					}
					c.Count("cases_repeated_because_a_stall_made_them_undecidable", 1)
					if !o.recBufFree {
						bufs.rec = make([]byte, 0, cap(bufs.rec))
						recBuf = bufs.rec
					}
				}
				h.judge(cs, &o)
				if i < 64 && (i%5 == 4 || i%7 == 0) {
					c.Sample(map[string]interface{}{"case": i, "first_bytes": cs.firstLine, "stream_len": len(cs.stream), "want": cs.want,
						"why": cs.why, "segmentation": cs.seg, "chunks": len(cs.plan), "read_class": cs.readClass, "result": o.result()})
				}
				if o.entry != nil {
					o.entry.mu.Lock()
					o.entry.recs = nil // entries stay registered (late deliveries are attributed to them); drop the data
					o.entry.mu.Unlock()
				}
				if o.dialErr == nil && !o.recBufFree { // a stub still owns the record buffer: leave it to it
					bufs.rec = make([]byte, 0, cap(bufs.rec))
				}
				if big != nil {
					bigPool <- big
				}
			}
		}()
	}
	for i := 0; i < n; i++ {
		if c.Mine(i) {
			work <- i
		}
	}
	close(work)
	wg.Wait()

	_ = l.Close()
	select {
	case <-served:
	case <-time.After(10 * time.Second):
		c.Inconclusive("listener.Serve did not return within 10 s of Close")
	}
	stubDone := make(chan struct{})
	go func() { stubs.Wait(); close(stubDone) }()
	select {
	case <-stubDone:
	case <-time.After(5 * time.Second):
		c.Inconclusive("stub accept loops did not end after Serve returned")
	}
	close(h.stalls.stop)
	for _, p := range kit.Log.TakePanics() {
		c.Violation("C19:panic:"+p, map[string]interface{}{"site": p})
	}
	c.Count("listener_reported_unmatched_connections", atomic.LoadInt64(&h.unmatched))
	h.stalls.mu.Lock()
	c.Note("max_scheduler_stall_ms", h.stalls.max.Milliseconds())
	h.stalls.mu.Unlock()
	c.Note("sniff_timeout_ms", c19SniffTimeout.Milliseconds())
	c.Note("max_connections_in_flight", c19MaxInFlight)
	c.Note("gomaxprocs", procs)
	c.Note("wiring", "listener.New(127.0.0.1:0,nil); SetReadTimeout; Match(rtsp.MatchRTSP()) then Match(listener.MatchHTTP()); go Serve()")
}
