package checks

import (
	"math/rand"

	"verifharness/kit"
)

// Independent H.265 VPS / SPS model + bit-exact encoder, written from ITU-T H.265 (02/2018)
// 7.3.1.2 (NAL header), 7.3.2.1 (VPS), 7.3.2.2 (SPS), 7.3.3 (profile_tier_level), 7.3.4 (scaling_list_data),
// 7.3.7 + 7.4.8 (st_ref_pic_set and its derived variables), E.2.1 (VUI), E.2.2/E.2.3 (HRD).

type m265SubPTL struct {
	ProfilePresent, LevelPresent bool
	Space                        uint8
	Tier                         bool
	Idc                          uint8
	Compat                       uint32
	Flags4                       uint8  // progressive, interlaced, non_packed, frame_only
	Bits43                       uint64 // the 43 bits following (constraint flags / reserved), as written
	Inbld                        bool   // the final bit (inbld_flag / reserved_zero_bit)
	Level                        uint8
}

type m265PTL struct {
	General m265SubPTL // ProfilePresent/LevelPresent ignored (always present)
	Sub     []m265SubPTL
}

func (p *m265PTL) clone() m265PTL {
	c := *p
	c.Sub = append([]m265SubPTL(nil), p.Sub...)
	return c
}

func (p *m265SubPTL) writeProfile(w *kit.BitWriter) {
	w.U(2, uint64(p.Space))
	w.Flag(p.Tier)
	w.U(5, uint64(p.Idc))
	w.U(32, uint64(p.Compat)) // general_profile_compatibility_flag[0..31], j=0 first
	w.U(4, uint64(p.Flags4))
	w.U(43, p.Bits43)
	w.Flag(p.Inbld)
}

// write emits profile_tier_level(1, maxSubLayersMinus1); len(p.Sub) == maxSubLayersMinus1.
func (p *m265PTL) write(w *kit.BitWriter) {
	p.General.writeProfile(w)
	w.U(8, uint64(p.General.Level))
	n := len(p.Sub)
	for i := 0; i < n; i++ {
		w.Flag(p.Sub[i].ProfilePresent)
		w.Flag(p.Sub[i].LevelPresent)
	}
	if n > 0 {
		for i := n; i < 8; i++ {
			w.U(2, 0) // reserved_zero_2bits
		}
	}
	for i := 0; i < n; i++ {
		if p.Sub[i].ProfilePresent {
			p.Sub[i].writeProfile(w)
		}
		if p.Sub[i].LevelPresent {
			w.U(8, uint64(p.Sub[i].Level))
		}
	}
}

func m265GenSubPTL(rng *rand.Rand) m265SubPTL {
	p := m265SubPTL{Space: 0, Tier: rng.Intn(2) == 0, Idc: uint8(1 + rng.Intn(11)), Flags4: uint8(rng.Intn(16)),
		Level: []uint8{30, 60, 63, 90, 93, 120, 123, 150, 153, 156, 180, 183, 186}[rng.Intn(13)]}
	p.Compat = 1 << (31 - uint(p.Idc))
	if rng.Intn(2) == 0 {
		p.Compat |= uint32(rng.Intn(1<<11)) << 20
	}
	// constraint flags occupy the first 9/10 of the 43 bits for range-extension style profiles; the rest is reserved zero
	if p.Idc >= 4 {
		p.Bits43 = uint64(rng.Intn(1<<10)) << 33
	} else if p.Idc == 2 && rng.Intn(2) == 0 {
		p.Bits43 = 1 << 35 // general_one_picture_only_constraint_flag
	}
	p.Inbld = rng.Intn(4) == 0
	p.ProfilePresent = rng.Intn(2) == 0
	p.LevelPresent = rng.Intn(2) == 0
	return p
}

func m265GenPTL(rng *rand.Rand, maxSubLayersMinus1 int) m265PTL {
	p := m265PTL{General: m265GenSubPTL(rng)}
	for i := 0; i < maxSubLayersMinus1; i++ {
		p.Sub = append(p.Sub, m265GenSubPTL(rng))
	}
	return p
}

type m265SubHRD struct {
	BitRate, CpbSize, CpbSizeDu, BitRateDu []uint64
	Cbr                                    []bool
}

type m265HRDLayer struct {
	FixedGeneral, FixedCvs bool
	ElemDuration           uint64 // elemental_duration_in_tc_minus1
	LowDelay               bool
	CpbCnt                 int // cpb_cnt_minus1+1
	Nal, Vcl               m265SubHRD
}

type m265HRD struct {
	Nal, Vcl              bool
	SubPic                bool
	TickDiv               uint8
	DuIncLen, DpbOutDuLen uint8
	SubPicInSei           bool
	BitRateScale, CpbSc   uint8
	CpbDuScale            uint8
	InitLen, AuLen, DpbLn uint8
	Layers                []m265HRDLayer // maxNumSubLayersMinus1+1 entries
}

func (h *m265HRD) clone() *m265HRD {
	c := *h
	c.Layers = append([]m265HRDLayer(nil), h.Layers...)
	return &c
}

func (s *m265SubHRD) write(w *kit.BitWriter, subPic bool, n int) {
	for i := 0; i < n; i++ {
		w.Ue(s.BitRate[i])
		w.Ue(s.CpbSize[i])
		if subPic {
			w.Ue(s.CpbSizeDu[i])
			w.Ue(s.BitRateDu[i])
		}
		w.Flag(s.Cbr[i])
	}
}

// write emits hrd_parameters(commonInf, maxNumSubLayersMinus1) (E.2.2). When commonInf is false, nal/vcl/subPic
// of h must already hold the values inherited from the previous structure (E.3.2 inference).
func (h *m265HRD) write(w *kit.BitWriter, commonInf bool) {
	if commonInf {
		w.Flag(h.Nal)
		w.Flag(h.Vcl)
		if h.Nal || h.Vcl {
			w.Flag(h.SubPic)
			if h.SubPic {
				w.U(8, uint64(h.TickDiv))
				w.U(5, uint64(h.DuIncLen))
				w.Flag(h.SubPicInSei)
				w.U(5, uint64(h.DpbOutDuLen))
			}
			w.U(4, uint64(h.BitRateScale))
			w.U(4, uint64(h.CpbSc))
			if h.SubPic {
				w.U(4, uint64(h.CpbDuScale))
			}
			w.U(5, uint64(h.InitLen))
			w.U(5, uint64(h.AuLen))
			w.U(5, uint64(h.DpbLn))
		}
	}
	for i := range h.Layers {
		l := &h.Layers[i]
		w.Flag(l.FixedGeneral)
		fixedCvs := l.FixedCvs
		if !l.FixedGeneral {
			w.Flag(l.FixedCvs)
		} else {
			fixedCvs = true // inferred
		}
		lowDelay := false
		if fixedCvs {
			w.Ue(l.ElemDuration)
		} else {
			w.Flag(l.LowDelay)
			lowDelay = l.LowDelay
		}
		cnt := 1
		if !lowDelay {
			w.Ue(uint64(l.CpbCnt - 1))
			cnt = l.CpbCnt
		}
		if h.Nal {
			l.Nal.write(w, h.SubPic, cnt)
		}
		if h.Vcl {
			l.Vcl.write(w, h.SubPic, cnt)
		}
	}
}

func m265GenSubHRD(rng *rand.Rand, n int) m265SubHRD {
	var s m265SubHRD
	for i := 0; i < n; i++ {
		s.BitRate = append(s.BitRate, c15Ue(rng, 1<<32-2))
		s.CpbSize = append(s.CpbSize, c15Ue(rng, 1<<32-2))
		s.CpbSizeDu = append(s.CpbSizeDu, c15Ue(rng, 1<<32-2))
		s.BitRateDu = append(s.BitRateDu, c15Ue(rng, 1<<32-2))
		s.Cbr = append(s.Cbr, rng.Intn(2) == 0)
	}
	return s
}

func m265GenHRD(rng *rand.Rand, layers int) *m265HRD {
	b := func(p int) bool { return rng.Intn(100) < p }
	h := &m265HRD{Nal: b(55), Vcl: b(40), SubPic: b(35), TickDiv: uint8(rng.Intn(256)), DuIncLen: uint8(rng.Intn(32)),
		DpbOutDuLen: uint8(rng.Intn(32)), SubPicInSei: b(50), BitRateScale: uint8(rng.Intn(16)), CpbSc: uint8(rng.Intn(16)),
		CpbDuScale: uint8(rng.Intn(16)), InitLen: uint8(rng.Intn(32)), AuLen: uint8(rng.Intn(32)), DpbLn: uint8(rng.Intn(32))}
	if !h.Nal && !h.Vcl {
		h.SubPic = false
	}
	for i := 0; i < layers; i++ {
		l := m265HRDLayer{FixedGeneral: b(40), FixedCvs: b(50), ElemDuration: uint64(rng.Intn(2048)), LowDelay: b(40), CpbCnt: 1}
		switch rng.Intn(4) {
		case 0:
			l.CpbCnt = 1 + rng.Intn(32)
		case 1:
			l.CpbCnt = 2
		}
		l.Nal = m265GenSubHRD(rng, l.CpbCnt)
		l.Vcl = m265GenSubHRD(rng, l.CpbCnt)
		h.Layers = append(h.Layers, l)
	}
	return h
}

type m265VUI struct {
	Aspect     bool
	AspectIdc  uint8
	SarW, SarH uint16

	Overscan, OverscanApp bool

	VideoSignal         bool
	VideoFormat         uint8
	FullRange           bool
	ColourDesc          bool
	Prim, Trans, Matrix uint8

	ChromaLoc         bool
	LocTop, LocBottom uint64

	Neutral, FieldSeq, FrameFieldInfo bool

	DefDisp            bool
	DL, DR, DT, DB     uint64
	Timing             bool
	NumUnits, TimeScal uint32
	PocProp            bool
	NumTicksPoc        uint64
	Hrd                *m265HRD

	Restr                                   bool
	TilesFixed, MvOverPic, RestrictedLists  bool
	MinSpatial, MaxBytes, MaxBits, L2H, L2V uint64
}

func (v *m265VUI) write(w *kit.BitWriter) {
	w.Flag(v.Aspect)
	if v.Aspect {
		w.U(8, uint64(v.AspectIdc))
		if v.AspectIdc == 255 {
			w.U(16, uint64(v.SarW))
			w.U(16, uint64(v.SarH))
		}
	}
	w.Flag(v.Overscan)
	if v.Overscan {
		w.Flag(v.OverscanApp)
	}
	w.Flag(v.VideoSignal)
	if v.VideoSignal {
		w.U(3, uint64(v.VideoFormat))
		w.Flag(v.FullRange)
		w.Flag(v.ColourDesc)
		if v.ColourDesc {
			w.U(8, uint64(v.Prim))
			w.U(8, uint64(v.Trans))
			w.U(8, uint64(v.Matrix))
		}
	}
	w.Flag(v.ChromaLoc)
	if v.ChromaLoc {
		w.Ue(v.LocTop)
		w.Ue(v.LocBottom)
	}
	w.Flag(v.Neutral)
	w.Flag(v.FieldSeq)
	w.Flag(v.FrameFieldInfo)
	w.Flag(v.DefDisp)
	if v.DefDisp {
		w.Ue(v.DL)
		w.Ue(v.DR)
		w.Ue(v.DT)
		w.Ue(v.DB)
	}
	w.Flag(v.Timing)
	if v.Timing {
		w.U(32, uint64(v.NumUnits))
		w.U(32, uint64(v.TimeScal))
		w.Flag(v.PocProp)
		if v.PocProp {
			w.Ue(v.NumTicksPoc)
		}
		w.Flag(v.Hrd != nil)
		if v.Hrd != nil {
			v.Hrd.write(w, true)
		}
	}
	w.Flag(v.Restr)
	if v.Restr {
		w.Flag(v.TilesFixed)
		w.Flag(v.MvOverPic)
		w.Flag(v.RestrictedLists)
		w.Ue(v.MinSpatial)
		w.Ue(v.MaxBytes)
		w.Ue(v.MaxBits)
		w.Ue(v.L2H)
		w.Ue(v.L2V)
	}
}

// m265RPS is one st_ref_pic_set() as coded, plus the derived variables of 7.4.8.
type m265RPS struct {
	Inter bool
	// inter
	DeltaRpsSign bool
	AbsDeltaRps  uint64 // abs_delta_rps_minus1
	UsedFlag     []bool // used_by_curr_pic_flag[j], j = 0..NumDeltaPocs[Ref]
	UseDelta     []bool // use_delta_flag[j] (coded only where UsedFlag[j] is false; otherwise inferred 1)
	// explicit
	S0, S1         []uint64 // delta_poc_s0_minus1 / delta_poc_s1_minus1
	UsedS0, UsedS1 []bool
	// derived (7-61 .. 7-71)
	DeltaPocS0, DeltaPocS1 []int
}

func (r *m265RPS) numDeltaPocs() int { return len(r.DeltaPocS0) + len(r.DeltaPocS1) }

// inRange: 7.4.8 requires every DeltaPocS0 / DeltaPocS1 value to be in -2^15 .. 2^15-1.
func (r *m265RPS) inRange() bool {
	for _, l := range [][]int{r.DeltaPocS0, r.DeltaPocS1} {
		for _, d := range l {
			if d < -(1<<15) || d > 1<<15-1 {
				return false
			}
		}
	}
	return true
}

// derive fills DeltaPocS0/S1 from the coded form; ref is the reference set for inter prediction.
func (r *m265RPS) derive(ref *m265RPS) {
	r.DeltaPocS0, r.DeltaPocS1 = nil, nil
	if !r.Inter {
		d := 0
		for _, m := range r.S0 {
			d -= int(m) + 1
			r.DeltaPocS0 = append(r.DeltaPocS0, d)
		}
		d = 0
		for _, m := range r.S1 {
			d += int(m) + 1
			r.DeltaPocS1 = append(r.DeltaPocS1, d)
		}
		return
	}
	deltaRps := int(r.AbsDeltaRps) + 1
	if r.DeltaRpsSign {
		deltaRps = -deltaRps
	}
	nNeg, nPos := len(ref.DeltaPocS0), len(ref.DeltaPocS1)
	// (7-61)
	for j := nPos - 1; j >= 0; j-- {
		d := ref.DeltaPocS1[j] + deltaRps
		if d < 0 && r.UseDelta[nNeg+j] {
			r.DeltaPocS0 = append(r.DeltaPocS0, d)
		}
	}
	if deltaRps < 0 && r.UseDelta[nNeg+nPos] {
		r.DeltaPocS0 = append(r.DeltaPocS0, deltaRps)
	}
	for j := 0; j < nNeg; j++ {
		d := ref.DeltaPocS0[j] + deltaRps
		if d < 0 && r.UseDelta[j] {
			r.DeltaPocS0 = append(r.DeltaPocS0, d)
		}
	}
	// (7-62)
	for j := nNeg - 1; j >= 0; j-- {
		d := ref.DeltaPocS0[j] + deltaRps
		if d > 0 && r.UseDelta[j] {
			r.DeltaPocS1 = append(r.DeltaPocS1, d)
		}
	}
	if deltaRps > 0 && r.UseDelta[nNeg+nPos] {
		r.DeltaPocS1 = append(r.DeltaPocS1, deltaRps)
	}
	for j := 0; j < nPos; j++ {
		d := ref.DeltaPocS1[j] + deltaRps
		if d > 0 && r.UseDelta[nNeg+j] {
			r.DeltaPocS1 = append(r.DeltaPocS1, d)
		}
	}
}

func (r *m265RPS) write(w *kit.BitWriter, idx int) {
	if idx != 0 {
		w.Flag(r.Inter)
	}
	if r.Inter {
		// delta_idx_minus1 only in slice headers (stRpsIdx == num_short_term_ref_pic_sets)
		w.Flag(r.DeltaRpsSign)
		w.Ue(r.AbsDeltaRps)
		for j := range r.UsedFlag {
			w.Flag(r.UsedFlag[j])
			if !r.UsedFlag[j] {
				w.Flag(r.UseDelta[j])
			}
		}
		return
	}
	w.Ue(uint64(len(r.S0)))
	w.Ue(uint64(len(r.S1)))
	for i := range r.S0 {
		w.Ue(r.S0[i])
		w.Flag(r.UsedS0[i])
	}
	for i := range r.S1 {
		w.Ue(r.S1[i])
		w.Flag(r.UsedS1[i])
	}
}

// m265SL is scaling_list_data().
type m265SL struct {
	PredMode  [4][6]bool
	PredDelta [4][6]uint64
	Dc        [4][6]int64 // scaling_list_dc_coef_minus8 (sizeId 2,3)
	Coef      [4][6][]int64
}

func (l *m265SL) write(w *kit.BitWriter) {
	for sizeID := 0; sizeID < 4; sizeID++ {
		step := 1
		if sizeID == 3 {
			step = 3
		}
		for m := 0; m < 6; m += step {
			w.Flag(l.PredMode[sizeID][m])
			if !l.PredMode[sizeID][m] {
				w.Ue(l.PredDelta[sizeID][m])
				continue
			}
			if sizeID > 1 {
				w.Se(l.Dc[sizeID][m])
			}
			for _, d := range l.Coef[sizeID][m] {
				w.Se(d)
			}
		}
	}
}

func m265GenSL(rng *rand.Rand) *m265SL {
	l := &m265SL{}
	for sizeID := 0; sizeID < 4; sizeID++ {
		step := 1
		if sizeID == 3 {
			step = 3
		}
		coefNum := min(64, 1<<(4+(uint(sizeID)<<1)))
		for m := 0; m < 6; m += step {
			if rng.Intn(2) == 0 {
				l.PredDelta[sizeID][m] = uint64(rng.Intn(m/step + 1))
				continue
			}
			l.PredMode[sizeID][m] = true
			l.Dc[sizeID][m] = int64(rng.Intn(255) - 7)
			mode := rng.Intn(3)
			for i := 0; i < coefNum; i++ {
				d := int64(0)
				switch mode {
				case 0:
					d = int64(rng.Intn(256) - 128)
				case 1:
					d = int64(rng.Intn(9) - 4)
				}
				l.Coef[sizeID][m] = append(l.Coef[sizeID][m], d)
			}
		}
	}
	return l
}

type m265Order struct {
	MaxDec, MaxReorder uint64
	MaxLatency         uint64
}

type m265SPS struct {
	LayerID, TidPlus1 uint8
	VpsID             uint8
	MaxSubLayers      int // sps_max_sub_layers_minus1
	Nesting           bool
	PTL               m265PTL
	ID                uint64
	Chroma            uint8
	SepPlane          bool
	W, H              uint64
	ConfWin           bool
	CL, CR, CT, CB    uint64
	BitDepthL         uint64
	BitDepthC         uint64
	Log2MaxPocLsb     uint64 // minus4
	OrderPresent      bool
	Order             []m265Order // MaxSubLayers+1 entries (all kept; only the coded ones are written)
	Log2MinCb         uint64      // minus3
	Log2DiffCb        uint64
	Log2MinTb         uint64 // minus2
	Log2DiffTb        uint64
	DepthInter        uint64
	DepthIntra        uint64
	ScalingEnabled    bool
	SL                *m265SL
	Amp, Sao          bool
	Pcm               bool
	PcmL, PcmC        uint8
	PcmLog2Min        uint64
	PcmLog2Diff       uint64
	PcmLoopOff        bool
	RPS               []m265RPS
	LongTerm          bool
	LtPoc             []uint64
	LtUsed            []bool
	Mvp, Strong       bool
	VUI               *m265VUI
	Ext               bool
	Ext8              uint8 // range, multilayer, 3d, scc, 4bits  (only range allowed to be 1 here)
	RangeExt          uint16
}

func (s *m265SPS) clone() *m265SPS {
	c := *s
	c.PTL = s.PTL.clone()
	c.Order = append([]m265Order(nil), s.Order...)
	c.RPS = append([]m265RPS(nil), s.RPS...) // inner slices are never mutated in place
	c.LtPoc = append([]uint64(nil), s.LtPoc...)
	c.LtUsed = append([]bool(nil), s.LtUsed...)
	if s.VUI != nil {
		v := *s.VUI
		if v.Hrd != nil {
			v.Hrd = v.Hrd.clone()
		}
		c.VUI = &v
	}
	return &c
}

func (s *m265SPS) subWH() (uint64, uint64) {
	switch s.Chroma { // Table 6-1
	case 1:
		return 2, 2
	case 2:
		return 2, 1
	}
	return 1, 1
}

func (s *m265SPS) expect() c15Expect {
	var e c15Expect
	w, h := s.W, s.H
	if s.ConfWin {
		sw, sh := s.subWH()
		w -= sw * (s.CL + s.CR)
		h -= sh * (s.CT + s.CB)
	}
	e.W, e.H = int(w), int(h)
	if s.VUI != nil && s.VUI.Timing {
		e.HasFPS = true
		e.FPS = float64(s.VUI.TimeScal) / float64(s.VUI.NumUnits)
	}
	return e
}

func (s *m265SPS) minCb() uint64 { return 1 << (s.Log2MinCb + 3) }

func (s *m265SPS) deriveRPS() {
	for i := range s.RPS {
		var ref *m265RPS
		if i > 0 {
			ref = &s.RPS[i-1]
		}
		s.RPS[i].derive(ref)
	}
}

func (s *m265SPS) normalize() {
	if s.Chroma != 3 {
		s.SepPlane = false
	}
	if len(s.PTL.Sub) != s.MaxSubLayers {
		if len(s.PTL.Sub) > s.MaxSubLayers {
			s.PTL.Sub = s.PTL.Sub[:s.MaxSubLayers]
		}
	}
	if len(s.Order) > s.MaxSubLayers+1 {
		s.Order = s.Order[len(s.Order)-(s.MaxSubLayers+1):] // keep the highest entry (the one always coded)
	}
	if s.MaxSubLayers == 0 {
		s.Nesting = true
	}
	if s.VUI != nil && s.VUI.Hrd != nil && len(s.VUI.Hrd.Layers) > s.MaxSubLayers+1 {
		s.VUI.Hrd.Layers = s.VUI.Hrd.Layers[:s.MaxSubLayers+1]
	}
	if !s.ScalingEnabled {
		s.SL = nil
	}
	if !s.LongTerm {
		s.LtPoc, s.LtUsed = nil, nil
	}
	if !s.ConfWin {
		s.CL, s.CR, s.CT, s.CB = 0, 0, 0, 0
	} else {
		sw, sh := s.subWH()
		for sw*(s.CL+s.CR) >= s.W {
			s.CL /= 2
			s.CR /= 2
		}
		for sh*(s.CT+s.CB) >= s.H {
			s.CT /= 2
			s.CB /= 2
		}
	}
	for i := range s.LtPoc {
		s.LtPoc[i] &= (1 << (s.Log2MaxPocLsb + 4)) - 1
	}
	if len(s.RPS) > 0 && s.RPS[0].Inter {
		s.RPS[0] = m265RPS{}
	}
	s.deriveRPS()
}

func m265NalHeader(typ, layer, tidPlus1 uint8) []byte {
	// forbidden_zero_bit(1) nal_unit_type(6) nuh_layer_id(6) nuh_temporal_id_plus1(3)
	v := uint16(typ&63)<<9 | uint16(layer&63)<<3 | uint16(tidPlus1&7)
	return []byte{byte(v >> 8), byte(v)}
}

func (s *m265SPS) encode(st *kit.BitStats) ([]byte, []int) {
	return s.encodeOpt(st, false)
}

// encodeOpt with invertOrderFlag=true writes the sub-layer ordering loop as a parser with the presence flag
// inverted would expect it (diagnostic hypothesis only; not a valid bitstream).
func (s *m265SPS) encodeOpt(st *kit.BitStats, invertOrderFlag bool) ([]byte, []int) {
	w := &kit.BitWriter{Stats: st}
	w.U(4, uint64(s.VpsID))
	w.U(3, uint64(s.MaxSubLayers))
	w.Flag(s.Nesting)
	s.PTL.write(w)
	w.Ue(s.ID)
	w.Ue(uint64(s.Chroma))
	if s.Chroma == 3 {
		w.Flag(s.SepPlane)
	}
	w.Ue(s.W)
	w.Ue(s.H)
	w.Flag(s.ConfWin)
	if s.ConfWin {
		w.Ue(s.CL)
		w.Ue(s.CR)
		w.Ue(s.CT)
		w.Ue(s.CB)
	}
	w.Ue(s.BitDepthL)
	w.Ue(s.BitDepthC)
	w.Ue(s.Log2MaxPocLsb)
	w.Flag(s.OrderPresent)
	start := s.MaxSubLayers
	if s.OrderPresent != invertOrderFlag {
		start = 0
	}
	for i := start; i <= s.MaxSubLayers; i++ {
		o := s.Order[i]
		w.Ue(o.MaxDec)
		w.Ue(o.MaxReorder)
		w.Ue(o.MaxLatency)
	}
	w.Ue(s.Log2MinCb)
	w.Ue(s.Log2DiffCb)
	w.Ue(s.Log2MinTb)
	w.Ue(s.Log2DiffTb)
	w.Ue(s.DepthInter)
	w.Ue(s.DepthIntra)
	w.Flag(s.ScalingEnabled)
	if s.ScalingEnabled {
		w.Flag(s.SL != nil)
		if s.SL != nil {
			s.SL.write(w)
		}
	}
	w.Flag(s.Amp)
	w.Flag(s.Sao)
	w.Flag(s.Pcm)
	if s.Pcm {
		w.U(4, uint64(s.PcmL))
		w.U(4, uint64(s.PcmC))
		w.Ue(s.PcmLog2Min)
		w.Ue(s.PcmLog2Diff)
		w.Flag(s.PcmLoopOff)
	}
	w.Ue(uint64(len(s.RPS)))
	for i := range s.RPS {
		s.RPS[i].write(w, i)
	}
	w.Flag(s.LongTerm)
	if s.LongTerm {
		w.Ue(uint64(len(s.LtPoc)))
		for i := range s.LtPoc {
			w.U(int(s.Log2MaxPocLsb+4), s.LtPoc[i])
			w.Flag(s.LtUsed[i])
		}
	}
	w.Flag(s.Mvp)
	w.Flag(s.Strong)
	w.Flag(s.VUI != nil)
	if s.VUI != nil {
		s.VUI.write(w)
	}
	w.Flag(s.Ext)
	if s.Ext {
		w.U(8, uint64(s.Ext8))
		if s.Ext8&0x80 != 0 { // sps_range_extension(): nine flags
			w.U(9, uint64(s.RangeExt))
		}
	}
	w.TrailingBits()
	return kit.EmulationPrevent(m265NalHeader(33, s.LayerID, s.TidPlus1), w.Bytes())
}

func m265GenVUI(rng *rand.Rand, s *m265SPS) *m265VUI {
	v := &m265VUI{}
	b := func(p int) bool { return rng.Intn(100) < p }
	if v.Aspect = b(50); v.Aspect {
		v.AspectIdc = uint8(rng.Intn(17))
		if b(40) {
			v.AspectIdc = 255
			v.SarW, v.SarH = uint16(rng.Intn(65536)), uint16(rng.Intn(65536))
		}
	}
	if v.Overscan = b(40); v.Overscan {
		v.OverscanApp = b(50)
	}
	if v.VideoSignal = b(50); v.VideoSignal {
		v.VideoFormat = uint8(rng.Intn(8))
		v.FullRange = b(50)
		if v.ColourDesc = b(50); v.ColourDesc {
			v.Prim, v.Trans, v.Matrix = uint8(rng.Intn(256)), uint8(rng.Intn(256)), uint8(rng.Intn(256))
		}
	}
	if v.ChromaLoc = b(40); v.ChromaLoc {
		v.LocTop, v.LocBottom = uint64(rng.Intn(6)), uint64(rng.Intn(6))
	}
	v.Neutral, v.FieldSeq, v.FrameFieldInfo = b(30), b(30), b(30)
	if v.DefDisp = b(40); v.DefDisp {
		v.DL, v.DR, v.DT, v.DB = c15Ue(rng, 200), c15Ue(rng, 200), c15Ue(rng, 200), c15Ue(rng, 200)
	}
	if v.Timing = b(80); v.Timing {
		if b(70) {
			v.NumUnits = c15TickValues[rng.Intn(5)]
			v.TimeScal = c15ScaleValues[rng.Intn(6)]
		} else if b(50) {
			v.NumUnits = c15TickValues[rng.Intn(len(c15TickValues))]
			v.TimeScal = c15ScaleValues[rng.Intn(len(c15ScaleValues))]
		} else {
			v.NumUnits = 1 + uint32(rng.Int63n(1<<32-1))
			v.TimeScal = 1 + uint32(rng.Int63n(1<<32-1))
		}
		if v.PocProp = b(40); v.PocProp {
			v.NumTicksPoc = c15Ue(rng, 1<<32-2)
		}
		if b(40) {
			v.Hrd = m265GenHRD(rng, s.MaxSubLayers+1)
		}
	}
	if v.Restr = b(50); v.Restr {
		v.TilesFixed, v.MvOverPic, v.RestrictedLists = b(50), b(50), b(50)
		v.MinSpatial = c15Ue(rng, 4095)
		v.MaxBytes, v.MaxBits = uint64(rng.Intn(17)), uint64(rng.Intn(17))
		v.L2H, v.L2V = uint64(rng.Intn(16)), uint64(rng.Intn(16))
	}
	return v
}

// m265GenRPSList draws num_short_term_ref_pic_sets sets keeping NumDeltaPocs <= maxDpb (7.4.8 constraint).
func m265GenRPSList(rng *rand.Rand, n, maxDpb int, interPct int) []m265RPS {
	var out []m265RPS
	for i := 0; i < n; i++ {
		for try := 0; ; try++ {
			var r m265RPS
			if i > 0 && rng.Intn(100) < interPct && try < 20 {
				ref := &out[i-1]
				r.Inter = true
				r.DeltaRpsSign = rng.Intn(2) == 0
				r.AbsDeltaRps = uint64(rng.Intn(4))
				if rng.Intn(8) == 0 {
					r.AbsDeltaRps = c15Ue(rng, 1<<15-1)
				}
				for j := 0; j <= ref.numDeltaPocs(); j++ {
					u := rng.Intn(2) == 0
					r.UsedFlag = append(r.UsedFlag, u)
					r.UseDelta = append(r.UseDelta, u || rng.Intn(3) != 0)
				}
				r.derive(ref)
			} else {
				nn, np := 0, 0
				if maxDpb > 0 {
					nn = rng.Intn(min(maxDpb, 5) + 1)
					np = rng.Intn(min(maxDpb-nn, 3) + 1)
					if rng.Intn(10) == 0 {
						nn = rng.Intn(maxDpb + 1)
						np = rng.Intn(maxDpb - nn + 1)
					}
				}
				for k := 0; k < nn; k++ {
					m := uint64(rng.Intn(4))
					if rng.Intn(10) == 0 {
						m = c15Ue(rng, 1<<15-1)
					}
					r.S0 = append(r.S0, m)
					r.UsedS0 = append(r.UsedS0, rng.Intn(2) == 0)
				}
				for k := 0; k < np; k++ {
					m := uint64(rng.Intn(4))
					if rng.Intn(10) == 0 {
						m = c15Ue(rng, 1<<15-1)
					}
					r.S1 = append(r.S1, m)
					r.UsedS1 = append(r.UsedS1, rng.Intn(2) == 0)
				}
				r.derive(nil)
			}
			if r.numDeltaPocs() <= maxDpb && r.inRange() {
				out = append(out, r)
				break
			}
		}
	}
	return out
}

var m265Sizes = [][2]uint64{{1920, 1080}, {1280, 720}, {3840, 2160}, {640, 480}, {352, 288}, {7680, 4320}, {720, 576}, {64, 64}, {8, 8}, {16384, 2176}, {2176, 16384}, {8192, 4352}}

func m265Gen(rng *rand.Rand) *m265SPS {
	b := func(p int) bool { return rng.Intn(100) < p }
	s := &m265SPS{TidPlus1: 1, VpsID: uint8(rng.Intn(16)), Chroma: 1}
	if b(55) {
		s.MaxSubLayers = rng.Intn(7)
	}
	s.Nesting = s.MaxSubLayers == 0 || b(50)
	s.PTL = m265GenPTL(rng, s.MaxSubLayers)
	s.ID = uint64(rng.Intn(16))
	if b(50) {
		s.Chroma = uint8(rng.Intn(4))
	}
	if s.Chroma == 3 {
		s.SepPlane = b(50)
	}
	s.Log2MinCb = uint64(rng.Intn(4))                     // MinCbLog2SizeY 3..6
	s.Log2DiffCb = uint64(rng.Intn(4 - int(s.Log2MinCb))) // CtbLog2SizeY <= 6
	if s.Log2MinCb+s.Log2DiffCb+3 < 4 {
		s.Log2DiffCb = 1
	}
	mcb := s.minCb()
	switch rng.Intn(3) {
	case 0:
		wh := m265Sizes[rng.Intn(len(m265Sizes))]
		s.W, s.H = wh[0], wh[1]
		// pad to a multiple of MinCbSizeY as an encoder would (the conformance window then crops back)
		s.W = (s.W + mcb - 1) / mcb * mcb
		s.H = (s.H + mcb - 1) / mcb * mcb
	case 1:
		s.W = mcb * uint64(1+rng.Intn(int(16888/mcb)))
		s.H = mcb * uint64(1+rng.Intn(int(min(16888, 35651584/s.W)/mcb)))
	default:
		s.W = mcb * uint64(1+rng.Intn(300))
		s.H = mcb * uint64(1+rng.Intn(300))
	}
	if s.ConfWin = b(60); s.ConfWin {
		sw, sh := s.subWH()
		pick := func(max uint64) (a, c uint64) {
			switch rng.Intn(4) {
			case 0:
				return 0, 0
			case 1:
				t := min(max, 15)
				a = uint64(rng.Int63n(int64(t) + 1))
				return a, uint64(rng.Int63n(int64(t-a) + 1))
			}
			a = c15Ue(rng, max)
			return a, c15Ue(rng, max-a)
		}
		s.CL, s.CR = pick((s.W - 1) / sw)
		s.CT, s.CB = pick((s.H - 1) / sh)
	}
	if b(40) {
		s.BitDepthL, s.BitDepthC = uint64(rng.Intn(9)), uint64(rng.Intn(9))
	}
	s.Log2MaxPocLsb = uint64(rng.Intn(13))
	s.OrderPresent = b(50)
	maxDpb := 1 + rng.Intn(16)
	for i := 0; i <= s.MaxSubLayers; i++ {
		o := m265Order{MaxDec: uint64(1 + rng.Intn(15)), MaxLatency: c15Ue(rng, 1<<32-2)}
		o.MaxReorder = uint64(rng.Intn(int(o.MaxDec) + 1))
		if i == s.MaxSubLayers {
			o.MaxDec = uint64(maxDpb - 1)
			o.MaxReorder = uint64(rng.Intn(maxDpb))
		}
		s.Order = append(s.Order, o)
	}
	s.Log2MinTb = uint64(rng.Intn(int(s.Log2MinCb) + 1))
	s.Log2DiffTb = uint64(rng.Intn(int(min(s.Log2MinCb+s.Log2DiffCb+3, 5)-(s.Log2MinTb+2)) + 1))
	s.DepthInter, s.DepthIntra = uint64(rng.Intn(5)), uint64(rng.Intn(5))
	if s.ScalingEnabled = b(40); s.ScalingEnabled && b(65) {
		s.SL = m265GenSL(rng)
	}
	s.Amp, s.Sao = b(50), b(50)
	if s.Pcm = b(35); s.Pcm {
		s.PcmL, s.PcmC = uint8(rng.Intn(16)), uint8(rng.Intn(16))
		s.PcmLog2Min = uint64(rng.Intn(3))
		s.PcmLog2Diff = uint64(rng.Intn(3))
		s.PcmLoopOff = b(50)
	}
	nrps := 0
	switch rng.Intn(5) {
	case 1:
		nrps = 1
	case 2:
		nrps = 1 + rng.Intn(6)
	case 3:
		nrps = 1 + rng.Intn(64)
	case 4:
		nrps = 2 + rng.Intn(3)
	}
	interPct := []int{0, 0, 50, 80}[rng.Intn(4)]
	s.RPS = m265GenRPSList(rng, nrps, maxDpb-1, interPct)
	if s.LongTerm = b(35); s.LongTerm {
		n := rng.Intn(5)
		if b(20) {
			n = rng.Intn(33)
		}
		for i := 0; i < n; i++ {
			s.LtPoc = append(s.LtPoc, uint64(rng.Int63n(1<<(s.Log2MaxPocLsb+4))))
			s.LtUsed = append(s.LtUsed, b(50))
		}
	}
	s.Mvp, s.Strong = b(50), b(50)
	if b(75) {
		s.VUI = m265GenVUI(rng, s)
	}
	if s.Ext = b(30); s.Ext {
		s.Ext8 = 0
		if b(50) {
			s.Ext8 = 0x80
			s.RangeExt = uint16(rng.Intn(512))
		}
	}
	s.normalize()
	return s
}

func m265Features() []c15Feat[m265SPS] {
	v := func(f func(*m265VUI) bool) func(*m265SPS) bool {
		return func(s *m265SPS) bool { return s.VUI != nil && f(s.VUI) }
	}
	return []c15Feat[m265SPS]{
		{"sps-extension", func(s *m265SPS) bool { return s.Ext }, func(s *m265SPS) { s.Ext = false }},
		{"vui-bitstream-restriction", v(func(u *m265VUI) bool { return u.Restr }), func(s *m265SPS) { s.VUI.Restr = false }},
		{"vui-hrd-sub-pic-params", v(func(u *m265VUI) bool { return u.Timing && u.Hrd != nil && u.Hrd.SubPic }), func(s *m265SPS) { s.VUI.Hrd.SubPic = false }},
		{"vui-hrd-nal", v(func(u *m265VUI) bool { return u.Timing && u.Hrd != nil && u.Hrd.Nal }), func(s *m265SPS) { s.VUI.Hrd.Nal = false; s.VUI.Hrd.SubPic = s.VUI.Hrd.SubPic && s.VUI.Hrd.Vcl }},
		{"vui-hrd-vcl", v(func(u *m265VUI) bool { return u.Timing && u.Hrd != nil && u.Hrd.Vcl }), func(s *m265SPS) { s.VUI.Hrd.Vcl = false; s.VUI.Hrd.SubPic = s.VUI.Hrd.SubPic && s.VUI.Hrd.Nal }},
		{"vui-hrd-parameters", v(func(u *m265VUI) bool { return u.Timing && u.Hrd != nil }), func(s *m265SPS) { s.VUI.Hrd = nil }},
		{"vui-poc-proportional", v(func(u *m265VUI) bool { return u.Timing && u.PocProp }), func(s *m265SPS) { s.VUI.PocProp = false }},
		{"vui-timing-info", v(func(u *m265VUI) bool { return u.Timing }), func(s *m265SPS) { s.VUI.Timing = false }},
		{"vui-default-display-window", v(func(u *m265VUI) bool { return u.DefDisp }), func(s *m265SPS) { s.VUI.DefDisp = false }},
		{"vui-chroma-loc", v(func(u *m265VUI) bool { return u.ChromaLoc }), func(s *m265SPS) { s.VUI.ChromaLoc = false }},
		{"vui-colour-description", v(func(u *m265VUI) bool { return u.VideoSignal && u.ColourDesc }), func(s *m265SPS) { s.VUI.ColourDesc = false }},
		{"vui-video-signal-type", v(func(u *m265VUI) bool { return u.VideoSignal }), func(s *m265SPS) { s.VUI.VideoSignal = false }},
		{"vui-overscan", v(func(u *m265VUI) bool { return u.Overscan }), func(s *m265SPS) { s.VUI.Overscan = false }},
		{"vui-aspect-extended-sar", v(func(u *m265VUI) bool { return u.Aspect && u.AspectIdc == 255 }), func(s *m265SPS) { s.VUI.AspectIdc = 1 }},
		{"vui-aspect-ratio", v(func(u *m265VUI) bool { return u.Aspect }), func(s *m265SPS) { s.VUI.Aspect = false }},
		{"vui", func(s *m265SPS) bool { return s.VUI != nil }, func(s *m265SPS) { s.VUI = nil }},
		{"long-term-ref-pics", func(s *m265SPS) bool { return s.LongTerm }, func(s *m265SPS) { s.LongTerm = false }},
		{"st-rps-inter-prediction", func(s *m265SPS) bool {
			for i := range s.RPS {
				if s.RPS[i].Inter {
					return true
				}
			}
			return false
		}, func(s *m265SPS) {
			// replace every predicted set by the explicit coding of an empty set
			for i := range s.RPS {
				if s.RPS[i].Inter {
					s.RPS[i] = m265RPS{}
				}
			}
			// later predicted sets would need other flag counts; all are gone now, nothing else to fix
		}},
		{"st-ref-pic-sets", func(s *m265SPS) bool { return len(s.RPS) > 0 }, func(s *m265SPS) { s.RPS = nil }},
		{"pcm", func(s *m265SPS) bool { return s.Pcm }, func(s *m265SPS) { s.Pcm = false }},
		{"scaling-list-data", func(s *m265SPS) bool { return s.SL != nil }, func(s *m265SPS) { s.SL = nil }},
		{"scaling-list-enabled", func(s *m265SPS) bool { return s.ScalingEnabled }, func(s *m265SPS) { s.ScalingEnabled = false }},
		{"sub-layer-ordering-info-present", func(s *m265SPS) bool { return s.OrderPresent }, func(s *m265SPS) { s.OrderPresent = false }},
		{"sub-layer-profile-or-level-present", func(s *m265SPS) bool {
			for _, p := range s.PTL.Sub {
				if p.ProfilePresent || p.LevelPresent {
					return true
				}
			}
			return false
		}, func(s *m265SPS) {
			for i := range s.PTL.Sub {
				s.PTL.Sub[i].ProfilePresent, s.PTL.Sub[i].LevelPresent = false, false
			}
		}},
		{"sub-layers", func(s *m265SPS) bool { return s.MaxSubLayers > 0 }, func(s *m265SPS) { s.MaxSubLayers = 0; s.PTL.Sub = nil }},
		{"bit-depth-gt-8", func(s *m265SPS) bool { return s.BitDepthL+s.BitDepthC > 0 }, func(s *m265SPS) { s.BitDepthL, s.BitDepthC = 0, 0 }},
		{"conf-win-left-right", func(s *m265SPS) bool { return s.ConfWin && s.CL+s.CR > 0 }, func(s *m265SPS) { s.CL, s.CR = 0, 0 }},
		{"conf-win-top-bottom", func(s *m265SPS) bool { return s.ConfWin && s.CT+s.CB > 0 }, func(s *m265SPS) { s.CT, s.CB = 0, 0 }},
		{"conformance-window", func(s *m265SPS) bool { return s.ConfWin }, func(s *m265SPS) { s.ConfWin = false }},
		{"separate-colour-plane", func(s *m265SPS) bool { return s.SepPlane }, func(s *m265SPS) { s.SepPlane = false }},
		{"chroma-400", func(s *m265SPS) bool { return s.Chroma == 0 }, func(s *m265SPS) { s.Chroma = 1 }},
		{"chroma-422", func(s *m265SPS) bool { return s.Chroma == 2 }, func(s *m265SPS) { s.Chroma = 1 }},
		{"chroma-444", func(s *m265SPS) bool { return s.Chroma == 3 }, func(s *m265SPS) { s.Chroma = 1 }},
	}
}

// ---- VPS ----

type m265VPSHrd struct {
	LayerSetIdx uint64
	Cprms       bool // cprms_present_flag (forced true for i == 0)
	Hrd         *m265HRD
}

type m265VPS struct {
	LayerID, TidPlus1     uint8
	ID                    uint8
	BaseInternal, BaseAvl bool
	MaxLayers             uint8 // minus1
	MaxSubLayers          int   // minus1
	Nesting               bool
	PTL                   m265PTL
	OrderPresent          bool
	Order                 []m265Order
	MaxLayerID            uint8
	NumLayerSets          int      // vps_num_layer_sets_minus1
	Included              [][]bool // [1..NumLayerSets][0..MaxLayerID]
	Timing                bool
	NumUnits, TimeScale   uint32
	PocProp               bool
	NumTicksPoc           uint64
	Hrds                  []m265VPSHrd
	ExtFlag               bool
	ExtData               []bool
}

func (v *m265VPS) clone() *m265VPS {
	c := *v
	c.PTL = v.PTL.clone()
	c.Order = append([]m265Order(nil), v.Order...)
	c.Hrds = append([]m265VPSHrd(nil), v.Hrds...)
	return &c
}

func (v *m265VPS) normalize() {
	if len(v.PTL.Sub) > v.MaxSubLayers {
		v.PTL.Sub = v.PTL.Sub[:v.MaxSubLayers]
	}
	if len(v.Order) > v.MaxSubLayers+1 {
		v.Order = v.Order[len(v.Order)-(v.MaxSubLayers+1):]
	}
	if v.MaxSubLayers == 0 {
		v.Nesting = true
	}
	if !v.Timing {
		v.Hrds = nil
	}
	for i := range v.Hrds {
		if len(v.Hrds[i].Hrd.Layers) > v.MaxSubLayers+1 {
			h := v.Hrds[i].Hrd.clone()
			h.Layers = h.Layers[:v.MaxSubLayers+1]
			v.Hrds[i].Hrd = h
		}
	}
	if len(v.Included) > v.NumLayerSets {
		v.Included = v.Included[:v.NumLayerSets]
	}
	if len(v.Hrds) > v.NumLayerSets+1 {
		v.Hrds = v.Hrds[:v.NumLayerSets+1]
	}
	for i := range v.Hrds {
		if v.Hrds[i].LayerSetIdx > uint64(v.NumLayerSets) {
			v.Hrds[i].LayerSetIdx = uint64(v.NumLayerSets)
		}
	}
}

func (v *m265VPS) encode(st *kit.BitStats) ([]byte, []int) {
	w := &kit.BitWriter{Stats: st}
	w.U(4, uint64(v.ID))
	w.Flag(v.BaseInternal)
	w.Flag(v.BaseAvl)
	w.U(6, uint64(v.MaxLayers))
	w.U(3, uint64(v.MaxSubLayers))
	w.Flag(v.Nesting)
	w.U(16, 0xffff)
	v.PTL.write(w)
	w.Flag(v.OrderPresent)
	start := v.MaxSubLayers
	if v.OrderPresent {
		start = 0
	}
	for i := start; i <= v.MaxSubLayers; i++ {
		w.Ue(v.Order[i].MaxDec)
		w.Ue(v.Order[i].MaxReorder)
		w.Ue(v.Order[i].MaxLatency)
	}
	w.U(6, uint64(v.MaxLayerID))
	w.Ue(uint64(v.NumLayerSets))
	for i := 0; i < v.NumLayerSets; i++ {
		for j := 0; j <= int(v.MaxLayerID); j++ {
			w.Flag(v.Included[i][j])
		}
	}
	w.Flag(v.Timing)
	if v.Timing {
		w.U(32, uint64(v.NumUnits))
		w.U(32, uint64(v.TimeScale))
		w.Flag(v.PocProp)
		if v.PocProp {
			w.Ue(v.NumTicksPoc)
		}
		w.Ue(uint64(len(v.Hrds)))
		var prev *m265HRD
		for i := range v.Hrds {
			h := v.Hrds[i]
			w.Ue(h.LayerSetIdx)
			cprms := h.Cprms || i == 0
			if i > 0 {
				w.Flag(h.Cprms)
			}
			hh := h.Hrd
			if !cprms {
				// E.3.2: sub-picture / nal / vcl common information inferred from the previous hrd_parameters()
				c := hh.clone()
				c.Nal, c.Vcl, c.SubPic = prev.Nal, prev.Vcl, prev.SubPic
				hh = c
			}
			hh.write(w, cprms)
			prev = hh
		}
	}
	w.Flag(v.ExtFlag)
	if v.ExtFlag {
		for _, b := range v.ExtData {
			w.Flag(b)
		}
	}
	w.TrailingBits()
	return kit.EmulationPrevent(m265NalHeader(32, v.LayerID, v.TidPlus1), w.Bytes())
}

func m265GenVPS(rng *rand.Rand) *m265VPS {
	b := func(p int) bool { return rng.Intn(100) < p }
	v := &m265VPS{TidPlus1: 1, ID: uint8(rng.Intn(16)), BaseInternal: true, BaseAvl: true}
	if b(55) {
		v.MaxSubLayers = rng.Intn(7)
	}
	v.Nesting = v.MaxSubLayers == 0 || b(50)
	v.PTL = m265GenPTL(rng, v.MaxSubLayers)
	v.OrderPresent = b(50)
	for i := 0; i <= v.MaxSubLayers; i++ {
		o := m265Order{MaxDec: uint64(rng.Intn(16)), MaxLatency: c15Ue(rng, 1<<32-2)}
		o.MaxReorder = uint64(rng.Intn(int(o.MaxDec) + 1))
		v.Order = append(v.Order, o)
	}
	if b(30) {
		v.MaxLayers = uint8(rng.Intn(63))
		v.MaxLayerID = uint8(rng.Intn(63))
	}
	switch rng.Intn(5) {
	case 0:
		v.NumLayerSets = 1 + rng.Intn(4)
	case 1:
		v.NumLayerSets = []int{1, 2, 254, 255, 256, 1023}[rng.Intn(6)]
	}
	for i := 0; i < v.NumLayerSets; i++ {
		row := make([]bool, int(v.MaxLayerID)+1)
		for j := range row {
			row[j] = rng.Intn(2) == 0
		}
		v.Included = append(v.Included, row)
	}
	if v.Timing = b(70); v.Timing {
		if b(70) {
			v.NumUnits = c15TickValues[rng.Intn(5)]
			v.TimeScale = c15ScaleValues[rng.Intn(6)]
		} else {
			v.NumUnits = c15TickValues[rng.Intn(len(c15TickValues))]
			v.TimeScale = c15ScaleValues[rng.Intn(len(c15ScaleValues))]
		}
		if v.PocProp = b(40); v.PocProp {
			v.NumTicksPoc = c15Ue(rng, 1<<32-2)
		}
		n := 0
		if b(45) {
			n = 1 + rng.Intn(min(3, v.NumLayerSets+1))
		}
		for i := 0; i < n; i++ {
			v.Hrds = append(v.Hrds, m265VPSHrd{LayerSetIdx: uint64(rng.Intn(v.NumLayerSets + 1)), Cprms: b(50),
				Hrd: m265GenHRD(rng, v.MaxSubLayers+1)})
		}
	}
	if v.ExtFlag = b(20); v.ExtFlag {
		for i := 0; i < rng.Intn(20); i++ {
			v.ExtData = append(v.ExtData, b(50))
		}
	}
	v.normalize()
	return v
}

func m265VPSFeatures() []c15Feat[m265VPS] {
	return []c15Feat[m265VPS]{
		{"vps-extension", func(v *m265VPS) bool { return v.ExtFlag }, func(v *m265VPS) { v.ExtFlag = false }},
		{"hrd-without-common-info", func(v *m265VPS) bool {
			for i, h := range v.Hrds {
				if i > 0 && !h.Cprms {
					return true
				}
			}
			return false
		}, func(v *m265VPS) {
			for i := range v.Hrds {
				v.Hrds[i].Cprms = true
			}
		}},
		{"vps-hrd-parameters", func(v *m265VPS) bool { return len(v.Hrds) > 0 }, func(v *m265VPS) { v.Hrds = nil }},
		{"poc-proportional", func(v *m265VPS) bool { return v.Timing && v.PocProp }, func(v *m265VPS) { v.PocProp = false }},
		{"timing-info", func(v *m265VPS) bool { return v.Timing }, func(v *m265VPS) { v.Timing = false }},
		{"layer-sets-ge-255", func(v *m265VPS) bool { return v.NumLayerSets >= 255 }, func(v *m265VPS) { v.NumLayerSets = 2 }},
		{"layer-sets", func(v *m265VPS) bool { return v.NumLayerSets > 0 }, func(v *m265VPS) { v.NumLayerSets = 0 }},
		{"sub-layer-ordering-info-present", func(v *m265VPS) bool { return v.OrderPresent }, func(v *m265VPS) { v.OrderPresent = false }},
		{"sub-layer-profile-or-level-present", func(v *m265VPS) bool {
			for _, p := range v.PTL.Sub {
				if p.ProfilePresent || p.LevelPresent {
					return true
				}
			}
			return false
		}, func(v *m265VPS) {
			for i := range v.PTL.Sub {
				v.PTL.Sub[i].ProfilePresent, v.PTL.Sub[i].LevelPresent = false, false
			}
		}},
		{"sub-layers", func(v *m265VPS) bool { return v.MaxSubLayers > 0 }, func(v *m265VPS) { v.MaxSubLayers = 0; v.PTL.Sub = nil }},
	}
}
