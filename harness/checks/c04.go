package checks

import (
	"fmt"
	"strings"
	"sync"
	"sync/atomic"
	"time"

	"verifharness/kit"

	"github.com/cnotch/ipchub/av/format"
	"github.com/cnotch/ipchub/av/format/flv"
	"github.com/cnotch/ipchub/av/format/rtp"
	"github.com/cnotch/ipchub/config"
	"github.com/cnotch/ipchub/media"
)

// C04 — stalled or failing consumers are isolated; backlog bounded; drops align to GOPs.
//
// Workload: a publisher writes N unique-id packets with a key frame every G packets while one consumer
// stalls/resumes on a PRNG schedule, one is slow, one panics and one is healthy. Monitors: the publisher
// finishes its writes (else goroutine-profile decides), the healthy consumer's record is exact, the
// stalled consumer's queue length (sampled through a verif accessor after every write) stays within
// 1000 + G + replay, every gap in its record starts and ends at a key-frame start, the panicking
// consumer is detached and closed.

func init() { kit.Register("C04", runC04) }

type c04item struct {
	p   format.Packet
	key bool // starts a key frame
}

// c04Codec / c04TsBase select the video codec and the first RTP timestamp of the next c04RtpSeq (set per pattern):
// a third of the patterns start shortly below 2^32 so that the timestamp wraps a few hundred packets into the stream.
var (
	c04Codec  = "H264"
	c04TsBase uint32
)

func c04RtpSeq(n, g, slices int, idBase uint32) []c04item {
	out := make([]c04item, 0, n)
	var vseq, aseq uint16
	vcount := 0
	for i := 0; i < n; i++ {
		if i%4 == 3 { // audio every fourth packet
			out = append(out, c04item{p: kit.MakeRTP(kit.ChAudio, 97, true, aseq, uint32(i)*1024, idBase, kit.AACHbr([][]byte{kit.AACAU(20+i%50, uint64(i))}))})
			aseq++
			continue
		}
		key := g > 0 && vcount%g == 0
		typ := byte(1)
		if key {
			typ = 5
		}
		ts := c04TsBase + uint32(i)*3000 + 7
		nal := func(t byte, i int) []byte {
			if c04Codec == "H265" {
				ht := byte(1)
				if t == 5 {
					ht = 19 // IDR_W_RADL
				}
				return kit.H265NAL(ht, 1, 30+i%40, uint64(i))
			}
			return kit.H264NAL(2, t, 30+i%40, uint64(i))
		}
		out = append(out, c04item{p: kit.MakeRTP(kit.ChVideo, 96, !(key && slices > 1), vseq, ts, idBase, nal(typ, i)), key: key})
		vseq++
		vcount++
		if key {
			// further slices of the same key picture: same RTP timestamp, NOT the start of a key frame
			for k := 1; k < slices && len(out) < n; k++ {
				i++
				out = append(out, c04item{p: kit.MakeRTP(kit.ChVideo, 96, k == slices-1, vseq, ts, idBase, nal(5, i))})
				vseq++
			}
		}
	}
	return out
}

func c04FlvSeq(n, g int) []c04item {
	out := make([]c04item, 0, n)
	vcount := 0
	for i := 0; i < n; i++ {
		if i%4 == 3 {
			d := append([]byte{0xaf, 1}, kit.AACAU(20, uint64(i))...)
			out = append(out, c04item{p: &flv.Tag{TagType: flv.TagTypeAudio, DataSize: uint32(len(d)), Timestamp: uint32(i), Data: d}})
			continue
		}
		key := g > 0 && vcount%g == 0
		b0 := byte(0x27)
		if key {
			b0 = 0x17
		}
		d := append([]byte{b0, 1, 0, 0, 0}, kit.AACAU(30, uint64(i))...)
		out = append(out, c04item{p: &flv.Tag{TagType: flv.TagTypeVideo, DataSize: uint32(len(d)), Timestamp: uint32(i), Data: d}, key: key})
		vcount++
	}
	return out
}

// stallConsumer blocks inside Consume according to a schedule released by the publisher.
type stallConsumer struct {
	kit.RecConsumer
	mu      sync.Mutex
	blockAt map[int]chan struct{} // delivery count -> channel to wait on
	sleep   time.Duration
}

func (s *stallConsumer) Consume(p format.Packet) {
	s.RecConsumer.Consume(p)
	n := s.RecConsumer.Len()
	s.mu.Lock()
	ch := s.blockAt[n]
	s.mu.Unlock()
	if ch != nil {
		<-ch
	}
	if s.sleep > 0 {
		time.Sleep(s.sleep)
	}
}

var c04pathSeq int64

// tokenConsumer consumes one packet per token once gating is switched on.
type tokenConsumer struct {
	kit.RecConsumer
	tokens chan struct{}
}

func (t *tokenConsumer) Consume(p format.Packet) {
	<-t.tokens
	t.RecConsumer.Consume(p)
}

// c04Directed drives the backlog to exactly the limit at the first slice of a multi-slice key picture (drop must not
// begin at the second slice) and lets the backlog fall below the limit between two slices (drop must not end there).
func c04Directed(c *kit.Ctx, codecName string, cacheOn bool, slices int, rep int) {
	config.VerifSet(false, cacheOn, "", 5)
	sdp := kit.SDPH264AAC
	if codecName == "H265" {
		sdp = kit.SDPH265AAC
	}
	s := media.NewStream(fmt.Sprintf("/c04/d%d", atomic.AddInt64(&c04pathSeq, 1)), sdp)
	defer s.Close()
	scen := fmt.Sprintf("directed/%s/cache=%v/slices=%d", codecName, cacheOn, slices)
	c.Pre("C04 " + scen)
	tc := &tokenConsumer{tokens: make(chan struct{}, 100000)}
	cid := s.StartConsumeNoGopCache(tc, media.RTPPacket, "token")
	var seq []c04item
	var vseq uint16
	ts := uint32(1000)
	nal := func(key bool, id int) []byte {
		if codecName == "H265" {
			t := byte(1)
			if key {
				t = 19
			}
			return kit.H265NAL(t, 1, 40, uint64(id))
		}
		t := byte(1)
		if key {
			t = 5
		}
		return kit.H264NAL(2, t, 40, uint64(id))
	}
	pub := func(key bool, newPicture bool, start bool) {
		if newPicture {
			ts += 3000
		}
		p := kit.MakeRTP(kit.ChVideo, 96, true, vseq, ts, 3, nal(key, len(seq)))
		vseq++
		seq = append(seq, c04item{p: p, key: start})
		s.WriteRtpPacket(p)
	}
	keyPicture := func(between func()) {
		for k := 0; k < slices; k++ {
			pub(true, k == 0, k == 0)
			if k == 0 && between != nil {
				between()
			}
		}
	}
	qlen := func() int { q, _, _ := media.VerifQueueState(s, cid); return q }
	// phase A: backlog exactly at the limit when the first slice of a key picture arrives
	keyPicture(nil)
	for qlen() < 1000 {
		pub(false, true, false)
	}
	keyPicture(nil) // first slice sees 1000 (not above the limit): nothing may be dropped from this picture
	for i := 0; i < 30; i++ {
		pub(false, true, false)
	}
	keyPicture(nil) // backlog above the limit at a key-frame start: dropping begins here (aligned)
	for i := 0; i < 30; i++ {
		pub(false, true, false)
	}
	// phase B: still dropping; the backlog falls below the limit between the first and the second slice
	keyPicture(func() {
		for i := 0; i < 200; i++ {
			tc.tokens <- struct{}{}
		}
		waitUntil(func() bool { return tc.Len() >= 200 }, 20*time.Second)
	})
	for i := 0; i < 20; i++ {
		pub(false, true, false)
	}
	keyPicture(nil) // aligned end of the drop at the latest here
	for i := 0; i < 10; i++ {
		pub(false, true, false)
	}
	// drain
	for i := 0; i < len(seq)+10; i++ {
		tc.tokens <- struct{}{}
	}
	waitUntil(func() bool { return qlen() == 0 }, 30*time.Second)
	time.Sleep(5 * time.Millisecond)
	byPtr := map[format.Packet]int{}
	for i, it := range seq {
		byPtr[it.p] = i
	}
	c.Eval(1)
	c.Distinct(scen)
	c.SetAdd("directed_scenarios", scen)
	detail := map[string]interface{}{"scenario": scen, "rep": rep, "packets": len(seq)}
	last := -1
	gaps := 0
	for _, it := range tc.Items() {
		k, ok := byPtr[it.Pack]
		if !ok {
			continue
		}
		if k != last+1 {
			gaps++
			detail["gap"] = []int{last + 1, k}
			if !seq[last+1].key {
				c.Violation("C04:drop-begins-mid-gop", detail)
				return
			}
			if !seq[k].key {
				c.Violation("C04:drop-ends-mid-gop", detail)
				return
			}
		}
		last = k
	}
	c.Count("directed_gaps_observed", int64(gaps))
	if gaps == 0 {
		c.Inconclusive("directed scenario produced no drop: " + scen)
	}
}

func runC04(c *kit.Ctx) {
	kit.InstallHooks()
	gs := []int{1, 2, 7, 30, 250, 999, 1000, 1001, 3000, 0}
	npat := c.Pick(40, 500)
	for pi := 0; pi < npat; pi++ {
		if !c.Mine(pi) {
			continue
		}
		rng := c.SubRng("c04", pi)
		g := gs[pi%len(gs)]
		flvMode := (pi/len(gs))%4 == 3
		cacheOn := (pi/len(gs))%2 == 1 && !flvMode
		slices := 1 + (pi/3)%3 // 1..3 slices per key picture
		n := 2500 + rng.Intn(c.Pick(2500, 15000))
		if g >= 999 {
			n += 2 * g
		}
		var seq []c04item
		c04Codec, c04TsBase = []string{"H264", "H265"}[(pi/2)%2], 0
		if pi%3 == 2 {
			c04TsBase = uint32(0) - uint32(3000*(200+rng.Intn(700))) // wraps past 2^32 while the stalled backlog is still small
		}
		if flvMode {
			seq = c04FlvSeq(n, g)
		} else {
			seq = c04RtpSeq(n, g, slices, uint32(pi)+1)
		}
		byPtr := map[format.Packet]int{}
		for i, it := range seq {
			byPtr[it.p] = i
		}
		// largest distance (in packets) between consecutive key-frame starts
		gp, lastKey := 0, -1
		for i, it := range seq {
			if it.key {
				if lastKey >= 0 && i-lastKey > gp {
					gp = i - lastKey
				}
				lastKey = i
			}
		}
		config.VerifSet(false, cacheOn, "", 5)
		sdpText := kit.SDPH264AAC
		if c04Codec == "H265" && !flvMode {
			sdpText = kit.SDPH265AAC
		}
		s := media.NewStream(fmt.Sprintf("/c04/s%d", atomic.AddInt64(&c04pathSeq, 1)), sdpText)
		pt := media.RTPPacket
		if flvMode {
			pt = media.FLVPacket
		}
		scen := fmt.Sprintf("G=%d/flv=%v/cache=%v/slices=%d/%s/ts-wrap=%v", g, flvMode, cacheOn, slices, c04Codec, c04TsBase != 0)
		c.Pre(fmt.Sprintf("C04 pattern %d %s n=%d", pi, scen, n))

		healthy := &kit.RecConsumer{}
		stalled := &stallConsumer{blockAt: map[int]chan struct{}{}}
		slow := &stallConsumer{blockAt: map[int]chan struct{}{}, sleep: 30 * time.Microsecond}
		panicker := &kit.RecConsumer{PanicAt: 5 + rng.Intn(50)}
		// stall schedule: (block when the a-th packet has been delivered, release when the publisher reaches index b)
		type stall struct {
			a, b int
			ch   chan struct{}
		}
		var stalls []stall
		pos := 50 + rng.Intn(300)
		for len(stalls) < 1+rng.Intn(3) && pos < n-1500 {
			dur := 1200 + rng.Intn(2500) // long enough to exceed the limit
			if rng.Intn(4) == 0 {
				dur = 100 + rng.Intn(800) // short stall: must not lose anything
			}
			st := stall{a: pos, b: pos + dur, ch: make(chan struct{})}
			if st.b >= n {
				st.b = n - 1
			}
			stalls = append(stalls, st)
			stalled.blockAt[st.a] = st.ch
			pos = st.a + 200 + rng.Intn(500) // next stall position in *delivery* counts
		}
		releaseAt := map[int][]chan struct{}{}
		for _, st := range stalls {
			releaseAt[st.b] = append(releaseAt[st.b], st.ch)
		}

		hcid := s.StartConsumeNoGopCache(healthy, pt, "healthy")
		scid := s.StartConsumeNoGopCache(stalled, pt, "stalled")
		s.StartConsumeNoGopCache(slow, pt, "slow")
		s.StartConsumeNoGopCache(panicker, pt, "panicker")

		var maxQ int64
		var pubDone int32
		var published int64
		done := make(chan struct{})
		go func() {
			defer close(done)
			for i, it := range seq {
				if flvMode {
					s.WriteFlvTag(it.p.(*flv.Tag))
				} else {
					s.WriteRtpPacket(it.p.(*rtp.Packet))
				}
				atomic.StoreInt64(&published, int64(i+1))
				if q, _, ok := media.VerifQueueState(s, scid); ok && int64(q) > atomic.LoadInt64(&maxQ) {
					atomic.StoreInt64(&maxQ, int64(q))
				}
				for _, ch := range releaseAt[i] {
					close(ch)
				}
				// flow control against the *healthy* consumer only (a relative-speed choice of the workload, so that the
				// healthy consumer is never the one being dropped); never waits on the stalled/slow/panicking ones
				if i%64 == 0 {
					for k := 0; ; k++ {
						q, _, ok := media.VerifQueueState(s, hcid)
						if !ok || q < 400 || k > 20000 {
							break
						}
						time.Sleep(50 * time.Microsecond)
					}
				}
			}
			atomic.StoreInt32(&pubDone, 1)
		}()
		detail := map[string]interface{}{"pattern": pi, "scenario": scen, "n": n, "stalls": fmt.Sprint(stalls), "key_distance": gp}
		select {
		case <-done:
		case <-time.After(120 * time.Second):
			// state decides: is the publisher goroutine parked on something a consumer owns?
			detail["published"] = atomic.LoadInt64(&published)
			blocked := false
			for _, gi := range kit.FindGoroutines("checks.runC04.func") {
				if gi.Has("WriteRtpPacket") || gi.Has("WriteFlvTag") {
					if !strings.Contains(gi.State, "running") && !strings.Contains(gi.State, "runnable") {
						blocked = true
						detail["publisher_state"] = gi.State
						detail["publisher_stack"] = gi.Funcs
					}
				}
			}
			for _, st := range stalls {
				select {
				case <-st.ch:
				default:
					close(st.ch)
				}
			}
			if blocked {
				c.Violation("C04:publisher-blocked-by-consumer", detail)
			} else {
				c.Inconclusive("publisher did not finish within the watchdog (still runnable)")
			}
			<-done
			s.Close()
			continue
		}
		// quiescence: healthy consumer has everything; stalled consumer has drained its queue
		okH := waitUntil(func() bool {
			q, _, ok := media.VerifQueueState(s, hcid)
			return healthy.Len() >= n || (ok && q == 0 && healthy.Len() > 0)
		}, 30*time.Second)
		time.Sleep(5 * time.Millisecond) // the last popped packet may still be inside Consume
		okS := waitUntil(func() bool {
			q, _, ok := media.VerifQueueState(s, scid)
			return !ok || q == 0
		}, 30*time.Second)
		// panicking consumer must be detached and closed
		okP := waitUntil(func() bool { return panicker.NClosed() == 1 }, 5*time.Second)
		cnt := s.ConsumerCount()
		s.Close()
		c.Eval(1)
		c.Distinct(scen + fmt.Sprintf("/stalls=%d", len(stalls)))
		c.SetAdd("key_frame_spacings", fmt.Sprint(g))
		if pi < 2 {
			c.Sample(detail)
		}
		if !okH || !okS {
			c.Inconclusive("consumers did not drain within the watchdog")
			continue
		}
		if !okP {
			detail["panicker_closes"] = panicker.NClosed()
			c.Violation("C04:panicking-consumer-not-closed", detail)
		} else if cnt != 3 {
			detail["consumer_count"] = cnt
			c.Violation("C04:panicking-consumer-still-registered", detail)
		}
		// healthy consumer: exact record
		hi := healthy.Items()
		exact := len(hi) == n
		for i := 0; exact && i < n; i++ {
			exact = hi[i].Pack == seq[i].p
		}
		if !exact {
			detail["healthy_got"] = len(hi)
			c.Violation("C04:healthy-consumer-disturbed", detail)
		}
		// backlog bound
		bound := int64(1000 + gp + 2)
		if g == 0 || gp == 0 {
			bound = -1 // no key frame (or a single one): outside the statement's premise, unjudged
			c.Count("unjudged_no_keyframe_spacing", 1)
		}
		mq := atomic.LoadInt64(&maxQ)
		detail["max_queue_len"] = mq
		c.SetAdd("max_queue_class", fmt.Sprintf("G=%d:%d", g, mq/250*250))
		if bound > 0 && mq > bound {
			detail["bound"] = bound
			c.Violation("C04:backlog-exceeds-limit-plus-gop", detail)
		}
		// stalled consumer: gaps start and end at key-frame starts; order preserved; nothing twice
		si := stalled.Items()
		last := -1
		gaps := 0
		for _, it := range si {
			k, ok := byPtr[it.Pack]
			if !ok {
				c.Violation("C04:unknown-packet-delivered", detail)
				break
			}
			if k <= last {
				detail["packet"] = k
				c.Violation("C04:stalled-consumer-order-or-duplicate", detail)
				break
			}
			if k != last+1 {
				gaps++
				detail["gap"] = []int{last + 1, k}
				if !seq[last+1].key {
					c.Violation("C04:drop-begins-mid-gop", detail)
					break
				}
				if !seq[k].key {
					c.Violation("C04:drop-ends-mid-gop", detail)
					break
				}
			}
			last = k
		}
		if last != n-1 && last >= 0 {
			// tail missing: allowed only if discarding was still on at the end (gap starts at a key frame)
			if !seq[last+1].key {
				detail["gap"] = []int{last + 1, n}
				c.Violation("C04:drop-begins-mid-gop", detail)
			}
			gaps++
		}
		c.Count("gaps_observed_in_stalled_consumer", int64(gaps))
		if gaps > 0 {
			c.Count("patterns_with_drops", 1)
		} else {
			c.Count("patterns_without_drops", 1)
		}
		// short stalls must not lose anything: if the queue never exceeded the limit, no gap may exist
		if mq <= 1000 && gaps > 0 {
			c.Violation("C04:dropped-although-backlog-never-exceeded-limit", detail)
		}
	}
	c04FlvPipeline(c)
	// directed alignment scenarios (multi-slice key pictures, backlog crossing the limit between two slices)
	di := 0
	for rep := 0; rep < c.Pick(1, 10); rep++ {
		for _, codecName := range []string{"H264", "H265"} {
			for _, cacheOn := range []bool{false, true} {
				for _, slices := range []int{1, 2, 3} {
					di++
					if c.Mine(di) {
						c04Directed(c, codecName, cacheOn, slices, rep)
					}
				}
			}
		}
	}
	config.VerifSet(false, false, "", 5)
}
