package checks

import (
	"bytes"
	"crypto/md5"
	"encoding/base64"
	"encoding/binary"
	"encoding/hex"
	"encoding/json"
	"fmt"
	"io"
	"net/http"
	"regexp"
	"strings"
	"time"

	"verifharness/kit"

	"github.com/cnotch/ipchub/media"
	"github.com/cnotch/ipchub/provider/auth"
	"github.com/gorilla/websocket"
)

// C11 — authorization holds on every entry point and follows the rights currently saved.
//
// Real service with auth on. A reference monitor allow(user, action, path) is computed from the user table
// as last saved (reference matcher of C16). Scripted clients try every entry point; outcome classes
// granted / refused are compared with the monitor after every step of a history of user and token edits.
// An attacker strategy derives the process counter from a disclosed session id and guesses tokens.

func init() { kit.Register("C11", runC11) }

type c11user struct {
	pass       string
	admin      bool
	push, pull string
}

type c11world struct {
	c      *kit.Ctx
	srv    *kit.Server
	users  map[string]*c11user // model: as last saved
	tokens map[string][2]string
	paths  []string
	pubs   map[string]*kit.Publisher
	hist   []string
}

func (w *c11world) eff(u *c11user, right string) string {
	if u.admin && right == "" {
		return "*"
	}
	return right
}

// allow is the reference monitor.
func (w *c11world) allow(user, action, path string) bool {
	u := w.users[strings.ToLower(user)]
	if u == nil {
		return false
	}
	right := u.pull
	if action == "push" {
		right = u.push
	}
	pats, judged := refParseRight(w.eff(u, right))
	segs, pj := refParsePath(path)
	if !judged || !pj {
		panic("c11: harness generated an unjudged right/path: " + right + " " + path)
	}
	return refAllow(pats, segs)
}

func (w *c11world) save(name string, u c11user, updatePassword bool) {
	err := auth.Save(&auth.User{Name: name, Password: u.pass, Admin: u.admin, PushAccess: u.push, PullAccess: u.pull}, updatePassword)
	if err != nil {
		w.c.Violation("C11:save-error", map[string]interface{}{"err": err.Error()})
	}
	old := w.users[strings.ToLower(name)]
	nu := u
	if old != nil && !updatePassword {
		nu.pass = old.pass
	}
	w.users[strings.ToLower(name)] = &nu
	w.hist = append(w.hist, fmt.Sprintf("save(%s push=%q pull=%q admin=%v updpw=%v)", name, u.push, u.pull, u.admin, updatePassword))
}

func (w *c11world) del(name string) {
	auth.Del(name)
	delete(w.users, strings.ToLower(name))
	w.hist = append(w.hist, "del("+name+")")
}

// ---- entry points: each returns "granted", "refused", "notfound" or "error:<..>"

func classifyHTTP(code int) string {
	switch {
	case code == 401 || code == 403:
		return "refused"
	case code == 404:
		return "notfound"
	case code >= 200 && code < 300:
		return "granted"
	case code == 400:
		return "granted" // passed the interceptors; the handler itself could not serve (e.g. playlist not ready)
	}
	return fmt.Sprintf("error:http-%d", code)
}

func classifyRTSP(code int, err error) string {
	switch {
	case code == 200 && err == nil:
		return "granted"
	case code == 401 || code == 403:
		return "refused"
	case code == 404:
		return "notfound"
	}
	return fmt.Sprintf("error:rtsp-%d-%v", code, err)
}

func (w *c11world) rtspPlay(user, pass, path string) string {
	cl, err := kit.DialRTSP(w.srv.Addr)
	if err != nil {
		return "error:dial"
	}
	defer cl.Close()
	cl.User, cl.Pass = user, pass
	code, err := cl.Play(w.srv.URL(path), 0, 2)
	out := classifyRTSP(code, err)
	if out == "granted" {
		// media must actually flow
		got := false
		for i := 0; i < 50 && !got; i++ {
			it, err := cl.Next(2 * time.Second)
			if err != nil {
				break
			}
			got = it.Frame != nil
		}
		if !got {
			return "error:granted-but-no-media"
		}
	}
	return out
}

func (w *c11world) rtspPublish(user, pass, path string) string {
	cl, err := kit.DialRTSP(w.srv.Addr)
	if err != nil {
		return "error:dial"
	}
	defer cl.Close()
	cl.User, cl.Pass = user, pass
	// an earlier probe may have published this path a moment ago: wait until its session has gone
	if !waitUntil(func() bool { return media.Get(path) == nil }, 5*time.Second) {
		return "error:path-still-registered-by-an-earlier-probe"
	}
	code, err := cl.Publish(w.srv.URL(path), kit.SDPH264AAC)
	out := classifyRTSP(code, err)
	reg := media.Get(path) != nil
	if out != "granted" && reg && w.pubs[path] == nil {
		return "granted" // a stream got registered although the handshake reported refusal
	}
	return out
}

func wsStatus(resp *http.Response, err error) (string, bool) {
	if err == nil {
		return "", true
	}
	if resp != nil {
		return classifyHTTP(resp.StatusCode), false
	}
	return "error:ws-" + err.Error(), false
}

func (w *c11world) wsRtspPlay(token, path string) string {
	cl, resp, err := kit.DialRTSPWebSocket(w.srv.Addr, path, token)
	if out, ok := wsStatus(resp, err); !ok {
		return out
	}
	defer cl.Close()
	code, err := cl.Play(w.srv.URL(path), 0, 2)
	return classifyRTSP(code, err)
}

// wsRtspPublish connects a ws-rtsp session on connPath and tries to publish pubPath through it.
func (w *c11world) wsRtspPublish(token, connPath, pubPath string) string {
	cl, resp, err := kit.DialRTSPWebSocket(w.srv.Addr, connPath, token)
	if out, ok := wsStatus(resp, err); !ok {
		return out
	}
	defer cl.Close()
	if !waitUntil(func() bool { return media.Get(pubPath) == nil }, 5*time.Second) {
		return "error:path-still-registered-by-an-earlier-probe"
	}
	code, err := cl.Publish(w.srv.URL(pubPath), kit.SDPH264AAC)
	out := classifyRTSP(code, err)
	if media.Get(pubPath) != nil && w.pubs[pubPath] == nil {
		out = "granted"
	}
	return out
}

func (w *c11world) wspPlay(token, path string) string {
	q := ""
	if token != "" {
		q = "?token=" + token
	}
	d := websocket.Dialer{Subprotocols: []string{"control"}, HandshakeTimeout: 60 * time.Second}
	ctl, resp, err := d.Dial("ws://"+w.srv.Addr+"/streams"+path+q, kit.ExtraHTTPHeader)
	if out, ok := wsStatus(resp, err); !ok {
		return out
	}
	ctl.Close()
	return "granted"
}

func (w *c11world) httpFlv(token, path string) string {
	q := ""
	if token != "" {
		q = "?token=" + token
	}
	req, _ := http.NewRequest("GET", "http://"+w.srv.Addr+"/streams"+path+".flv"+q, nil)
	for k, v := range kit.ExtraHTTPHeader {
		req.Header[k] = v
	}
	cl := &http.Client{Timeout: 60 * time.Second}
	resp, err := cl.Do(req)
	if err != nil {
		return "error:http"
	}
	defer resp.Body.Close()
	out := classifyHTTP(resp.StatusCode)
	if out == "granted" && resp.StatusCode == 200 {
		b := make([]byte, 3)
		if _, err := io.ReadFull(resp.Body, b); err != nil || string(b) != "FLV" {
			return "error:granted-but-no-flv"
		}
	}
	return out
}

func (w *c11world) wsFlv(token, path string) string {
	q := ""
	if token != "" {
		q = "?token=" + token
	}
	d := websocket.Dialer{HandshakeTimeout: 60 * time.Second}
	ws, resp, err := d.Dial("ws://"+w.srv.Addr+"/streams"+path+".flv"+q, kit.ExtraHTTPHeader)
	if out, ok := wsStatus(resp, err); !ok {
		return out
	}
	defer ws.Close()
	ws.SetReadDeadline(time.Now().Add(5 * time.Second))
	_, msg, err := ws.ReadMessage()
	if err != nil || !bytes.HasPrefix(msg, []byte("FLV")) {
		return "error:granted-but-no-flv"
	}
	return "granted"
}

// hlsSegmentOddCase asks for a listed segment with the extension spelled in another case (.TS, .Ts). Whatever the
// server makes of such a URL, it must not deliver the segment to somebody without pull rights on the stream.
func (w *c11world) hlsSegmentOddCase(token, path string) string {
	at := w.tokens["admin"][0]
	_, b, err := w.srv.HTTP("GET", "/streams"+path+".m3u8?token="+at, "")
	if err != nil {
		return "error:http"
	}
	m := tsURI.FindStringSubmatch(string(b))
	if m == nil {
		return "error:no-segment-uri"
	}
	out := "notfound"
	for _, ext := range []string{".TS", ".Ts", ".tS"} {
		uri := strings.TrimSuffix(m[1], ".ts") + ext
		q := ""
		if token != "" {
			q = "?token=" + token
		}
		code, body, err := w.srv.HTTP("GET", uri+q, "")
		if err != nil {
			continue
		}
		if code == 200 && len(body) >= 188 && body[0] == 0x47 {
			return "granted"
		}
		if c := classifyHTTP(code); c == "refused" {
			out = "refused"
		}
	}
	return out
}

var tsURI = regexp.MustCompile(`(?m)^(/streams/\S+\.ts)(\?token=\S+)?$`)

func (w *c11world) hls(token, path string, wantSegments bool) (m3u8 string, ts string) {
	q := ""
	if token != "" {
		q = "?token=" + token
	}
	code, body, err := w.srv.HTTP("GET", "/streams"+path+".m3u8"+q, "")
	if err != nil {
		return "error:http", ""
	}
	m3u8 = classifyHTTP(code)
	if !wantSegments {
		return m3u8, ""
	}
	// segment fetch with the same token, using a URI from a playlist obtained by an administrator if ours was refused
	uri := ""
	if code == 200 {
		if m := tsURI.FindStringSubmatch(string(body)); m != nil {
			uri = m[1]
		}
	}
	if uri == "" {
		at := w.tokens["admin"][0]
		if _, b2, err := w.srv.HTTP("GET", "/streams"+path+".m3u8?token="+at, ""); err == nil {
			if m := tsURI.FindStringSubmatch(string(b2)); m != nil {
				uri = m[1]
			}
		}
	}
	if uri == "" {
		return m3u8, "error:no-segment-uri"
	}
	code, body, err = w.srv.HTTP("GET", uri+q, "")
	if err != nil {
		return m3u8, "error:http"
	}
	ts = classifyHTTP(code)
	if ts == "granted" && code == 200 && (len(body) < 188 || body[0] != 0x47) {
		ts = "error:granted-but-no-ts"
	}
	return m3u8, ts
}

func (w *c11world) api(token, method, path, body string) string {
	q := ""
	if token != "" {
		if strings.Contains(path, "?") {
			q = "&token=" + token
		} else {
			q = "?token=" + token
		}
	}
	code, _, err := w.srv.HTTP(method, path+q, body)
	if err != nil {
		return "error:http"
	}
	return classifyHTTP(code)
}

func (w *c11world) login(name string) bool {
	u := w.users[strings.ToLower(name)]
	if u == nil {
		return false
	}
	a, r, code := w.srv.Login(name, u.pass)
	for try := 0; code == 0 && try < 3; try++ { // no HTTP status at all (timeout / connection error): not an answer, ask again
		time.Sleep(200 * time.Millisecond)
		a, r, code = w.srv.Login(name, u.pass)
	}
	if code == 0 {
		w.c.Inconclusive("login could not be evaluated: no HTTP response")
		return false
	}
	if code != 200 || a == "" {
		w.c.Violation("C11:login-refused-with-valid-password", map[string]interface{}{"user": name, "code": code, "history": w.hist})
		return false
	}
	w.tokens[strings.ToLower(name)] = [2]string{a, r}
	w.hist = append(w.hist, "login("+name+")")
	return true
}

func (w *c11world) judge(entry, who, action, path, outcome string, want bool, extra string) {
	w.c.Eval(1)
	w.c.Distinct(fmt.Sprintf("%s/%s/%s/%v/%s", entry, action, extra, want, outcome))
	w.c.SetAdd("entry_points", entry)
	w.c.SetAdd("outcomes", entry+":"+outcome)
	detail := map[string]interface{}{"entry": entry, "user": who, "action": action, "path": path, "outcome": outcome, "reference_allows": want, "history": w.hist, "note": extra}
	switch {
	case strings.HasPrefix(outcome, "error:"):
		w.c.Inconclusive("entry point could not be evaluated: " + entry + " " + outcome)
	case outcome == "notfound":
		// stream not there: no decision observable
		w.c.Count("notfound_outcomes", 1)
	case outcome == "granted" && !want:
		w.c.Violation(fmt.Sprintf("C11:granted-although-reference-denies:%s:%s", entry, extra), detail)
	case outcome == "refused" && want:
		w.c.Violation(fmt.Sprintf("C11:refused-although-reference-allows:%s:%s", entry, extra), detail)
	}
}

func runC11(c *kit.Ctx) {
	srv := kit.StartServer(true, false, 0)
	// the built-in memory provider starts with admin/admin
	w := &c11world{c: c, srv: srv, users: map[string]*c11user{"admin": {pass: "admin", admin: true}}, tokens: map[string][2]string{},
		pubs: map[string]*kit.Publisher{}}
	sh := fmt.Sprintf("s%d", c.Shard)
	pA, pB, pC := "/c11"+sh+"/a/x", "/c11"+sh+"/a/y", "/c11"+sh+"/b"
	// pD is a proper ancestor (two levels up) of the subtrees the wildcard rights below name: a right on a subtree
	// grants nothing on the paths above it
	pD := "/c11" + sh
	w.paths = []string{pA, pB, pC, pD}
	// source streams, published by the administrator (push right '*'); media time runs fast so HLS segments exist
	for _, p := range w.paths {
		pub, code, err := kit.StartPublisher(srv, p, "admin", "admin", true, 3*time.Millisecond)
		if err != nil {
			c.Inconclusive(fmt.Sprintf("admin publisher refused: %d %v", code, err))
			return
		}
		w.pubs[p] = pub
		defer pub.Stop()
	}
	w.login("admin")
	// wait until HLS playlists are ready
	ready := waitUntil(func() bool {
		for _, p := range w.paths {
			code, _, _ := srv.HTTP("GET", "/streams"+p+".m3u8?token="+w.tokens["admin"][0], "")
			if code != 200 {
				return false
			}
		}
		return true
	}, 40*time.Second)
	if !ready {
		c.Note("hls_ready", false)
	}

	rights := []string{"", "*", pA, "/c11" + sh + "/a/+", "/c11" + sh + "/a/*", "/c11" + sh + "/*", pC, pB + ";" + pC, "/c11" + sh + "/+", strings.ToUpper(pA), "/other/*"}
	names := []string{"u1" + sh, "U2" + sh, "u3" + sh}

	nh := c.Pick(10, 400) // histories per shard list (sharded below)
	for hi := 0; hi < nh*16; hi++ {
		if !c.Mine(hi) {
			continue
		}
		rng := c.SubRng("c11", hi)
		w.hist = nil
		// reset users
		for _, n := range names {
			w.del(n)
			delete(w.tokens, strings.ToLower(n))
		}
		steps := 5 + rng.Intn(8)
		for st := 0; st < steps; st++ {
			c.Pre(fmt.Sprintf("C11 history %d step %d", hi, st))
			name := names[rng.Intn(len(names))]
			lname := strings.ToLower(name)
			switch op := rng.Intn(10); {
			case op <= 4: // create / narrow / widen
				u := c11user{pass: "pw" + name, push: rights[rng.Intn(len(rights))], pull: rights[rng.Intn(len(rights))], admin: rng.Intn(8) == 0}
				w.save(name, u, w.users[lname] == nil || rng.Intn(2) == 0)
			case op == 5:
				w.del(name)
			case op == 6:
				w.login(name)
			case op == 7: // refresh: old pair must die
				if t, ok := w.tokens[lname]; ok {
					code, body, _ := srv.HTTP("GET", "/api/v1/refreshtoken?token="+t[1], "")
					w.hist = append(w.hist, "refresh("+name+")")
					if code == 200 {
						var nt struct {
							A string `json:"access_token"`
							R string `json:"refresh_token"`
						}
						json.Unmarshal(body, &nt)
						w.tokens[lname] = [2]string{nt.A, nt.R}
						// superseded access token and refresh-token-as-access must be refused everywhere
						w.judge("api", name, "admin-api", "/api/v1/users", w.api(t[0], "GET", "/api/v1/users", ""), false, "superseded-access-token")
						w.judge("http-flv", name, "pull", pA, w.httpFlv(t[0], pA), false, "superseded-access-token")
						w.judge("http-flv", name, "pull", pA, w.httpFlv(nt.R, pA), false, "refresh-token-as-access-token")
					}
				}
			case op == 8: // expiry through the ageing accessor
				if t, ok := w.tokens[lname]; ok {
					srv.Svc.VerifTokens().VerifAge(t[0], 3*time.Hour)
					w.hist = append(w.hist, "age-3h("+name+")")
					w.judge("http-flv", name, "pull", pA, w.httpFlv(t[0], pA), false, "expired-access-token")
					w.judge("hls-m3u8", name, "pull", pA, func() string { m, _ := w.hls(t[0], pA, false); return m }(), false, "expired-access-token")
					delete(w.tokens, lname)
				}
			default:
				// garbage tokens / wrong passwords
				w.judge("http-flv", "-", "pull", pA, w.httpFlv("deadbeefdeadbeefdeadbeefdeadbeef", pA), false, "invalid-token")
				w.judge("http-flv", "-", "pull", pA, w.httpFlv("", pA), false, "no-token")
				if u := w.users[lname]; u != nil {
					w.judge("rtsp-play", name, "pull", pA, w.rtspPlay(name, u.pass+"x", pA), false, "wrong-password")
				}
				w.judge("rtsp-play", "-", "pull", pA, w.rtspPlay("", "", pA), false, "no-credentials")
			}
			// after every step: probe a sample of the (user x path x entry) matrix
			for probe := 0; probe < 3; probe++ {
				name := names[rng.Intn(len(names))]
				lname := strings.ToLower(name)
				u := w.users[lname]
				path := w.paths[rng.Intn(len(w.paths))]
				entry := rng.Intn(10)
				tok := ""
				if t, ok := w.tokens[lname]; ok {
					tok = t[0]
				}
				if u == nil {
					// deleted / never created user: whatever token or password it had grants nothing
					switch entry % 3 {
					case 0:
						w.judge("rtsp-play", name, "pull", path, w.rtspPlay(name, "pw"+name, path), false, "deleted-user")
					case 1:
						if tok != "" {
							w.judge("http-flv", name, "pull", path, w.httpFlv(tok, path), false, "deleted-user-token")
						}
					case 2:
						w.judge("rtsp-publish", name, "push", path+"/pub", w.rtspPublish(name, "pw"+name, path+"/pub"), false, "deleted-user")
					}
					continue
				}
				// a third of the HTTP-borne probes also claim, in request headers a normal client never sends, to be the
				// administrator: identity comes from the token alone, so the reference verdict does not change
				tokLbl := "token"
				if entry >= 2 && rng.Intn(3) == 0 {
					tokLbl = "token+forged-identity-header"
					kit.ExtraHTTPHeader = http.Header{"user_name_in_token": {"admin"}, "User_name_in_token": {"admin"}, "X-Forwarded-User": {"admin"}, "Username": {"admin"}}
				}
				func() {
					defer func() { kit.ExtraHTTPHeader = nil }()
					switch entry {
					case 0:
						w.judge("rtsp-play", name, "pull", path, w.rtspPlay(name, u.pass, path), w.allow(name, "pull", path), "digest")
					case 1:
						pp := path + "/pub" + fmt.Sprint(rng.Intn(3))
						w.judge("rtsp-publish", name, "push", pp, w.rtspPublish(name, u.pass, pp), w.allow(name, "push", pp), "digest")
					case 2, 3, 4, 5, 6, 7:
						if tok == "" {
							if !w.login(name) {
								return
							}
							tok = w.tokens[lname][0]
						}
						want := w.allow(name, "pull", path)
						switch entry {
						case 2:
							w.judge("http-flv", name, "pull", path, w.httpFlv(tok, path), want, tokLbl)
						case 3:
							w.judge("ws-flv", name, "pull", path, w.wsFlv(tok, path), want, tokLbl)
						case 4:
							w.judge("ws-rtsp-play", name, "pull", path, w.wsRtspPlay(tok, path), want, tokLbl)
						case 5:
							w.judge("wsp-control", name, "pull", path, w.wspPlay(tok, path), want, tokLbl)
						case 6:
							m, ts := w.hls(tok, path, ready)
							w.judge("hls-m3u8", name, "pull", path, m, want, tokLbl)
							if ts != "" {
								w.judge("hls-ts", name, "pull", path, ts, want, tokLbl)
								if !want { // an oddly spelled extension must not open what the plain one refuses
									if o := w.hlsSegmentOddCase(tok, path); o == "granted" {
										w.judge("hls-ts-odd-case-extension", name, "pull", path, o, want, tokLbl)
									} else {
										w.c.SetAdd("outcomes", "hls-ts-odd-case-extension:"+o)
									}
								}
							}
						case 7:
							// publish through a WebSocket RTSP session: needs pull on the connect path AND push on the publish path
							pp := w.paths[rng.Intn(len(w.paths))] + "/wspub" + fmt.Sprint(rng.Intn(3))
							w.judge("ws-rtsp-publish", name, "push", pp, w.wsRtspPublish(tok, path, pp), want && w.allow(name, "push", pp), tokLbl+"+announce-in-websocket")
						}
					case 8:
						if tok == "" {
							if !w.login(name) {
								return
							}
							tok = w.tokens[lname][0]
						}
						w.judge("api", name, "admin-api", "/api/v1/users", w.api(tok, "GET", "/api/v1/users", ""), u.admin, "GET-users:"+tokLbl)
						w.judge("api", name, "admin-api", "/api/v1/routes", w.api(tok, "POST", "/api/v1/routes", `{"pattern":"/c11route/`+sh+`","url":"rtsp://127.0.0.1:1/x"}`), u.admin, "POST-routes:"+tokLbl)
					case 9:
						if tok == "" {
							return
						}
						w.judge("api", name, "admin-api", "/api/v1/streams/x", w.api(tok, "DELETE", "/api/v1/streams/c11-none", ""), u.admin, "DELETE-stream:"+tokLbl)
						w.c.Count("unjudged_stream_query_api_for_non_admin", 1)
						w.api(tok, "GET", "/api/v1/streams", "")
					}
				}()
			}
		}
		if hi < 2 {
			c.Sample(map[string]interface{}{"history": w.hist})
		}
	}

	// ---------- directed: a right that covers "<stream>/<anything>" but not the stream itself, against the segment URLs
	// of that stream in every spelling of the extension
	if ready {
		kid := "kid" + sh
		w.hist = nil
		w.save(kid, c11user{pass: "pwkid", pull: pD + "/+"}, true)
		if w.login(kid) {
			tok := w.tokens[strings.ToLower(kid)][0]
			m, ts := w.hls(tok, pD, true)
			w.judge("hls-m3u8", kid, "pull", pD, m, false, "token:right-on-children-only")
			if ts != "" {
				w.judge("hls-ts", kid, "pull", pD, ts, false, "token:right-on-children-only")
			}
			o := w.hlsSegmentOddCase(tok, pD)
			w.c.SetAdd("outcomes", "hls-ts-odd-case-extension:"+o)
			if o == "granted" {
				w.judge("hls-ts-odd-case-extension", kid, "pull", pD, o, false, "token:right-on-children-only")
			}
		}
		w.del(kid)
	}

	// ---------- attacker strategy: derive the process counter from a disclosed session id, guess tokens
	if c.Shard == 0 || c.Thorough() {
		c11Attacker(c, w)
	}
	// ---------- WSP data channel joining another user's control channel
	c11WspCrossJoin(c, w, names[0], pA, pC)
	c11OpenSessions(c, w, names[1], pA)
	for _, n := range names {
		w.del(n)
	}
}

// c11OpenSessions: a session is opened while the user holds the rights; the administrator then deletes the user,
// deletes and re-creates it with narrower rights, or narrows it by update; requests on the ALREADY OPEN session
// must follow the rights as last saved.
func c11OpenSessions(c *kit.Ctx, w *c11world, name, pathA string) {
	for _, transport := range []string{"ws-rtsp", "rtsp-tcp"} {
		for _, edit := range []string{"none", "delete", "delete-recreate-narrower", "narrow-by-update"} {
			for _, action := range []string{"pull", "push"} {
				w.hist = nil
				w.del(name)
				pubPath := pathA + "/late"
				w.save(name, c11user{pass: "pwopen", pull: pathA, push: pubPath}, true)
				if !w.login(name) {
					continue
				}
				tok := w.tokens[strings.ToLower(name)][0]
				var cl *kit.RTSPClient
				var err error
				if transport == "ws-rtsp" {
					var resp *http.Response
					cl, resp, err = kit.DialRTSPWebSocket(w.srv.Addr, pathA, tok)
					if err != nil {
						st, _ := wsStatus(resp, err)
						c.Inconclusive("open-session: ws connect failed: " + st)
						continue
					}
				} else {
					cl, err = kit.DialRTSP(w.srv.Addr)
					if err != nil {
						continue
					}
					cl.User, cl.Pass = name, "pwopen"
				}
				// the session proves it works before the edit
				if r, err := cl.Do("OPTIONS", w.srv.URL(pathA), nil, ""); err != nil || r.Code != 200 {
					cl.Close()
					continue
				}
				switch edit {
				case "delete":
					w.del(name)
				case "delete-recreate-narrower":
					w.del(name)
					w.save(name, c11user{pass: "pwopen", pull: "/other/x", push: "/other/x"}, true)
				case "narrow-by-update":
					w.save(name, c11user{pass: "pwopen", pull: "/other/x", push: "/other/x"}, false)
				}
				want := edit == "none"
				var code int
				if action == "pull" {
					code, err = cl.Play(w.srv.URL(pathA), 0, 2)
				} else {
					code, err = cl.Publish(w.srv.URL(pubPath), kit.SDPH264AAC)
				}
				out := classifyRTSP(code, err)
				if action == "push" && media.Get(pubPath) != nil {
					out = "granted"
				}
				cl.Close()
				waitUntil(func() bool { return media.Get(pubPath) == nil }, 3*time.Second)
				w.judge(transport+"-open-session", name, action, pathA, out, want, "edit-after-open:"+edit)
			}
		}
	}
	w.del(name)
}

func varintMD5(v uint64) string {
	buf := [10]byte{}
	l := binary.PutUvarint(buf[:], v)
	d := md5.Sum(buf[:l])
	return hex.EncodeToString(d[:])
}

// c11Attacker: an unauthenticated client reads a Session id (disclosed to anyone), then a victim logs in;
// the attacker tries tokens computed from nearby counter values.
func c11Attacker(c *kit.Ctx, w *c11world) {
	cl, err := kit.DialRTSP(w.srv.Addr)
	if err != nil {
		return
	}
	r, err := cl.Do("OPTIONS", "rtsp://"+w.srv.Addr+"/", nil, "")
	cl.Close()
	if err != nil || r.Get("Session") == "" {
		c.Inconclusive("attacker could not obtain a session id")
		return
	}
	raw, err := base64.RawURLEncoding.DecodeString(r.Get("Session"))
	counter, n := binary.Uvarint(raw)
	c.Eval(1)
	c.SetAdd("attacker_strategies", "session-id->counter->md5(varint(counter+k)) as access token, k<=256")
	if err != nil || n <= 0 {
		// session ids no longer disclose a counter in this encoding: strategy not applicable
		c.Count("attacker_counter_not_derivable", 1)
		counter = 0
	}
	w.login("admin") // the victim logs in right after
	hits := 0
	if counter != 0 {
		for k := uint64(0); k <= 256; k++ {
			guess := varintMD5(counter + k)
			if out := w.api(guess, "GET", "/api/v1/users", ""); out == "granted" {
				hits++
				c.Violation("C11:token-computable-from-disclosed-session-id", map[string]interface{}{"session_id": r.Get("Session"), "counter": counter, "k": k,
					"strategy": "token = hex(md5(uvarint(counter+k)))"})
				break
			}
		}
	}
	c.Count("attacker_guesses_tried", 257)
	c.Distinct(fmt.Sprintf("attacker/hits=%d", hits))
}

// c11WspCrossJoin: user A (pull right on pathA only) opens a WSP data channel on pathA and joins the control
// channel id of a session that plays pathC; media of pathC must not be delivered to A.
func c11WspCrossJoin(c *kit.Ctx, w *c11world, name, pathA, pathC string) {
	w.hist = nil
	w.save(name, c11user{pass: "pwx", pull: pathA}, true)
	if !w.login(name) || !w.login("admin") {
		return
	}
	atok := w.tokens["admin"][0]
	utok := w.tokens[strings.ToLower(name)][0]
	// victim (administrator) control channel on pathC
	d := websocket.Dialer{Subprotocols: []string{"control"}, HandshakeTimeout: 60 * time.Second}
	ctl, _, err := d.Dial("ws://"+w.srv.Addr+"/streams"+pathC+"?token="+atok, nil)
	if err != nil {
		c.Inconclusive("wsp control dial failed")
		return
	}
	defer ctl.Close()
	ctl.WriteMessage(websocket.TextMessage, []byte("WSP/1.1 INIT\r\nproto: rtsp\r\nhost: h\r\nport: 554\r\nseq: 1\r\n\r\n"))
	_, msg, err := ctl.ReadMessage()
	if err != nil {
		return
	}
	ch := ""
	for _, l := range strings.Split(string(msg), "\r\n") {
		if strings.HasPrefix(l, "channel:") {
			ch = strings.TrimSpace(l[8:])
		}
	}
	// attacker's data channel: allowed to connect on pathA, joins the victim's channel id
	d2 := websocket.Dialer{Subprotocols: []string{"data"}, HandshakeTimeout: 60 * time.Second}
	data, resp, err := d2.Dial("ws://"+w.srv.Addr+"/streams"+pathA+"?token="+utok, nil)
	if err != nil {
		st, _ := wsStatus(resp, err)
		c.Inconclusive("attacker data channel could not connect on its own path: " + st)
		return
	}
	defer data.Close()
	data.WriteMessage(websocket.TextMessage, []byte("WSP/1.1 JOIN\r\nchannel: "+ch+"\r\nseq: 2\r\n\r\n"))
	data.SetReadDeadline(time.Now().Add(5 * time.Second))
	_, jm, err := data.ReadMessage()
	c.Eval(1)
	c.Distinct("wsp-cross-join")
	c.SetAdd("entry_points", "wsp-data-cross-join")
	joined := err == nil && strings.Contains(string(jm), " 200 ")
	if !joined {
		c.Count("wsp_cross_join_refused", 1)
		return
	}
	// victim starts playing pathC; does the attacker's data channel receive the media?
	cl := &kit.RTSPClient{}
	send := func(m, uri string, h map[string]string) {
		rq := cl.BuildRequest(m, uri, h, "")
		ctl.WriteMessage(websocket.TextMessage, []byte(fmt.Sprintf("WSP/1.1 WRAP\r\nseq: %d\r\n\r\n%s", cl.CSeq+10, rq)))
		ctl.SetReadDeadline(time.Now().Add(5 * time.Second))
		ctl.ReadMessage()
	}
	base := w.srv.URL(pathC)
	send("DESCRIBE", base, nil)
	send("SETUP", base+"/streamid=0", map[string]string{"Transport": "RTP/AVP/TCP;unicast;interleaved=0-1"})
	send("PLAY", base, nil)
	data.SetReadDeadline(time.Now().Add(3 * time.Second))
	_, fm, err := data.ReadMessage()
	if err == nil && len(fm) > 4 && fm[0] == '$' {
		c.Violation("C11:granted-although-reference-denies:wsp-data-channel:joined-foreign-channel", map[string]interface{}{
			"attacker": name, "attacker_pull_right": pathA, "media_of": pathC, "channel_id": ch, "history": w.hist})
	}
}
