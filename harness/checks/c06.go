package checks

import (
	"bytes"
	"fmt"
	"math/rand"
	"sync"
	"time"

	"verifharness/kit"

	"github.com/cnotch/ipchub/av/codec"
	"github.com/cnotch/ipchub/av/format/rtp"
	"github.com/cnotch/ipchub/av/format/sdp"
	"github.com/cnotch/xlog"
)

// C06 — RTP depacketisation reproduces the sender's access units exactly.
//
// Workload: NAL/AU sequences packetised by the harness's own packetiser in every legal way
// (single, STAP-A/AP with any grouping, FU-A/FU with any fragment size, AAC-hbr 1..8 AUs), loss-free
// and with loss/swap patterns inside fragmented units. Oracle: list equality with the source units
// (loss-free) / "only whole source units, in order, none with a missing fragment" (lossy), and PTS
// arithmetic per RTP timestamp.

func init() { kit.Register("C06", runC06) }

type c06unit struct {
	data []byte
	ts   uint32
	au   bool // audio AU
}

type c06rec struct {
	mu       sync.Mutex
	frames   []codec.Frame
	sentinel []byte
	done     chan struct{}
	closed   bool
}

func (r *c06rec) WriteFrame(f *codec.Frame) error {
	r.mu.Lock()
	defer r.mu.Unlock()
	cp := *f
	cp.Payload = append([]byte(nil), f.Payload...)
	r.frames = append(r.frames, cp)
	if !r.closed && r.sentinel != nil && bytes.Equal(f.Payload, r.sentinel) {
		r.closed = true
		close(r.done)
	}
	return nil
}

type c06pkt struct {
	p       *rtp.Packet
	units   []int // indices of source units carried (whole or in part)
	frag    int   // 0 = whole, 1 = start, 2 = middle, 3 = end
	dropped bool
}

// c06Packetise turns units into packets. mode: per-unit decision from rng.
func c06Packetise(rng *rand.Rand, codecName string, units []c06unit, seq0 uint16, forceFrag int) []c06pkt {
	var out []c06pkt
	seq := seq0
	add := func(ch byte, pt uint8, marker bool, ts uint32, payload []byte, us []int, frag int) {
		out = append(out, c06pkt{p: kit.MakeRTP(ch, pt, marker, seq, ts, 0x1234, payload), units: us, frag: frag})
		seq++
	}
	i := 0
	for i < len(units) {
		u := units[i]
		if u.au {
			// group up to 8 AUs with consecutive timestamps (ts, ts+1024, ...)
			n := 1
			maxN, stop := 8, 3
			if c06ManyAUs {
				maxN, stop = 64, 40
			}
			for n < maxN && i+n < len(units) && units[i+n].au && units[i+n].ts == u.ts+uint32(1024*n) && rng.Intn(stop) != 0 {
				n++
			}
			var aus [][]byte
			var idx []int
			for k := 0; k < n; k++ {
				aus = append(aus, units[i+k].data)
				idx = append(idx, i+k)
			}
			add(kit.ChAudio, 97, true, u.ts, kit.AACHbr(aus), idx, 0)
			i += n
			continue
		}
		hdr := 1
		if codecName == "H265" {
			hdr = 2
		}
		choice := rng.Intn(4)
		if forceFrag > 0 && len(u.data) > hdr+1 {
			choice = 3
		}
		// aggregation: consecutive video units of the same timestamp, total < 60000
		if choice == 1 || choice == 2 {
			n := 1
			total := len(u.data) + 2
			for i+n < len(units) && !units[i+n].au && units[i+n].ts == u.ts && total+len(units[i+n].data)+2 < 60000 && rng.Intn(4) != 0 {
				total += len(units[i+n].data) + 2
				n++
			}
			if n >= 1 && total < 60000 && (n > 1 || rng.Intn(2) == 0) {
				var nals [][]byte
				var idx []int
				for k := 0; k < n; k++ {
					nals = append(nals, units[i+k].data)
					idx = append(idx, i+k)
				}
				last := i+n >= len(units) || units[i+n].ts != u.ts
				if codecName == "H265" {
					add(kit.ChVideo, 96, last, u.ts, kit.H265AP(nals), idx, 0)
				} else {
					add(kit.ChVideo, 96, last, u.ts, kit.H264StapA(nals), idx, 0)
				}
				i += n
				continue
			}
		}
		last := i+1 >= len(units) || units[i+1].ts != u.ts
		if choice == 3 && len(u.data) > hdr+1 {
			frag := forceFrag
			if frag <= 0 {
				maxf := len(u.data) - hdr - 1
				if maxf > 1400 && rng.Intn(3) != 0 {
					maxf = 1400
				}
				frag = 1 + rng.Intn(maxf)
			}
			if frag >= len(u.data)-hdr {
				frag = len(u.data) - hdr - 1
			}
			var frs [][]byte
			if codecName == "H265" {
				frs = kit.H265FU(u.data, frag)
			} else {
				frs = kit.H264FuA(u.data, frag)
			}
			for k, f := range frs {
				kind := 2
				if k == 0 {
					kind = 1
				} else if k == len(frs)-1 {
					kind = 3
				}
				add(kit.ChVideo, 96, last && k == len(frs)-1, u.ts, f, []int{i}, kind)
			}
			i++
			continue
		}
		add(kit.ChVideo, 96, last, u.ts, u.data, []int{i}, 0)
		i++
	}
	return out
}

// c06ManyAUs switches the generator to long runs of AAC AUs grouped up to 64 per packet (set per case by runC06).
var c06ManyAUs bool

func c06Units(rng *rand.Rand, codecName string, n int, withAudio bool, sizeClass int, idBase uint64) []c06unit {
	var units []c06unit
	// RTP timestamps start at a random 32-bit value (RFC 3550) and are modular: the sequence may lie anywhere in the
	// range, cross 2^31 and wrap past 2^32 - differences are taken modulo 2^32
	start := func() uint32 {
		switch rng.Intn(5) {
		case 0:
			return uint32(1<<31) - uint32(rng.Intn(40000)) // crosses 0x80000000 within the sequence
		case 1:
			return uint32(0) - uint32(1+rng.Intn(40000)) // wraps past 2^32 within the sequence
		case 2:
			return rng.Uint32()
		}
		return uint32(rng.Intn(1 << 20))
	}
	ts := start()
	ats := start()
	id := idBase
	pickSize := func() int {
		switch sizeClass {
		case 0:
			return 3 + rng.Intn(40)
		case 1:
			return 3 + rng.Intn(1500)
		case 2:
			return []int{3, 4, 5, 1399, 1400, 1401, 4000, 65535, 65536, 70000}[rng.Intn(10)]
		default:
			if codecName == "H265" {
				return 3 + rng.Intn(300)
			}
			return 1 + rng.Intn(12) // includes 1- and 2-byte NAL units (end-of-sequence, access unit delimiter)
		}
	}
	for len(units) < n {
		if withAudio && rng.Intn(3) == 0 {
			k := 1 + rng.Intn(4)
			if c06ManyAUs {
				k = 14 + rng.Intn(50) // long runs: 16 and more AUs per packet need a second AU-headers-length byte
			}
			for j := 0; j < k; j++ {
				id++
				sz := 1 + rng.Intn(800)
				if c06ManyAUs {
					sz = 1 + rng.Intn(300)
				}
				units = append(units, c06unit{data: kit.AACAU(sz, id), ts: ats, au: true})
				ats += 1024
			}
			continue
		}
		// one access unit of 1..4 NAL units sharing a timestamp
		k := 1 + rng.Intn(4)
		for j := 0; j < k; j++ {
			id++
			if codecName == "H265" {
				typ := byte(rng.Intn(41)) // 0..40 (VCL, VPS/SPS/PPS 32-34, AUD 35, SEI 39/40)
				units = append(units, c06unit{data: kit.H265NAL(typ, byte(1+rng.Intn(3)), pickSize(), id), ts: ts})
			} else {
				typ := byte(1 + rng.Intn(23)) // 1..23
				if typ == 12 {                // filler data: dropped by design of the depacketiser, excluded
					typ = 1
				}
				units = append(units, c06unit{data: kit.H264NAL(byte(rng.Intn(4)), typ, pickSize(), id), ts: ts})
			}
		}
		ts += uint32(1 + rng.Intn(9000))
	}
	return units
}

func c06Metas(codecName string) (*codec.VideoMeta, *codec.AudioMeta) {
	var v codec.VideoMeta
	var a codec.AudioMeta
	raw := kit.SDPH264AAC
	if codecName == "H265" {
		raw = kit.SDPH265AAC
	}
	sdp.ParseMetadata(raw, &v, &a)
	return &v, &a
}

// c06Run feeds packets (minus dropped) into a fresh demuxer and returns the frames up to the sentinel.
func c06Run(c *kit.Ctx, codecName string, pkts []c06pkt, sentinel []byte, sentinelPkt *rtp.Packet) ([]codec.Frame, bool) {
	v, a := c06Metas(codecName)
	rec := &c06rec{sentinel: sentinel, done: make(chan struct{})}
	dm, err := rtp.NewDemuxer(v, a, rec, xlog.L())
	if err != nil {
		c.Inconclusive("cannot create demuxer: " + err.Error())
		return nil, false
	}
	defer dm.Close()
	for _, p := range pkts {
		if !p.dropped {
			dm.WriteRtpPacket(p.p)
		}
	}
	dm.WriteRtpPacket(sentinelPkt)
	select {
	case <-rec.done:
	case <-time.After(20 * time.Second):
		// decide on state: did the converter goroutine die (recovered panic)?
		if ps := kit.Log.TakePanics(); len(ps) > 0 {
			c.Violation("C06:converter-died:"+ps[0], map[string]interface{}{"codec": codecName, "panics": ps})
		} else {
			c.Inconclusive("sentinel not observed within watchdog")
		}
		return nil, false
	}
	rec.mu.Lock()
	defer rec.mu.Unlock()
	fr := rec.frames
	return fr[:len(fr)-1], true // strip sentinel
}

func c06Sentinel(codecName string, seq uint16, id uint64) ([]byte, *rtp.Packet) {
	var nal []byte
	if codecName == "H265" {
		nal = kit.H265NAL(1, 1, 40, id)
	} else {
		nal = kit.H264NAL(2, 1, 40, id)
	}
	return nal, kit.MakeRTP(kit.ChVideo, 96, true, seq, 0xfffffff0, 0x1234, nal)
}

func c06DescribeUnits(units []c06unit) []string {
	var out []string
	for _, u := range units {
		k := "nal"
		if u.au {
			k = "au"
		}
		out = append(out, fmt.Sprintf("%s[%d]@%d hdr=%02x", k, len(u.data), u.ts, u.data[0]))
	}
	return out
}

func c06DescribePkts(pkts []c06pkt) []string {
	var out []string
	for _, p := range pkts {
		pl := p.p.Payload()
		h := byte(0)
		if len(pl) > 0 {
			h = pl[0]
		}
		d := ""
		if p.dropped {
			d = " DROPPED"
		}
		out = append(out, fmt.Sprintf("ch%d seq=%d ts=%d len=%d b0=%02x units=%v frag=%d%s", p.p.Channel, p.p.SequenceNumber, p.p.Timestamp, len(pl), h, p.units, p.frag, d))
	}
	return out
}

func c06PtsCheck(c *kit.Ctx, codecName string, units []c06unit, frames []codec.Frame, matchIdx []int, detail map[string]interface{}) {
	// units of one RTP timestamp share one PTS; ΔPTS = ΔRTP * 1e9 / clock (±2 ns rounding)
	type key struct {
		au bool
		ts uint32
	}
	seen := map[key]int64{}
	var firstV, firstA = -1, -1
	for fi, ui := range matchIdx {
		u := units[ui]
		k := key{u.au, u.ts}
		if p, ok := seen[k]; ok {
			if p != frames[fi].Pts {
				c.Violation("C06:pts:same-rtp-timestamp-different-pts", detail)
				return
			}
			continue
		}
		seen[k] = frames[fi].Pts
		clock := int64(90000)
		first := &firstV
		if u.au {
			clock = 44100
			first = &firstA
		}
		if *first < 0 {
			*first = fi
			continue
		}
		u0 := units[matchIdx[*first]]
		dr := int64(int32(u.ts - u0.ts)) // modular difference (sequences span far less than 2^31 ticks)
		want := float64(dr) * 1e9 / float64(clock)
		got := float64(frames[fi].Pts - frames[*first].Pts)
		if d := got - want; d > 2 || d < -2 {
			detail["pts_delta_got"] = got
			detail["pts_delta_want"] = want
			c.Violation("C06:pts:delta-differs-from-rtp-delta", detail)
			return
		}
	}
}

func runC06(c *kit.Ctx) {
	nLossFree := c.Pick(400, 20000)
	nLoss := c.Pick(2500, 200000)

	// ---------- loss-free
	for ci := 0; ci < nLossFree; ci++ {
		if !c.Mine(ci) {
			continue
		}
		rng := c.SubRng("c06lf", ci)
		codecName := []string{"H264", "H265"}[(ci/4)%2]
		sizeClass := ci % 4
		n := 3 + rng.Intn(14)
		if sizeClass == 2 {
			n = 2 + rng.Intn(4)
		}
		c06ManyAUs = ci%3 != 0 && ci%7 == 5
		if c06ManyAUs {
			n += 40
		}
		units := c06Units(rng, codecName, n, ci%3 != 0, sizeClass, uint64(ci)<<20)
		seq0 := uint16(65536 - rng.Intn(40))
		if rng.Intn(3) == 0 {
			seq0 = uint16(rng.Intn(65536))
		}
		pkts := c06Packetise(rng, codecName, units, seq0, 0)
		sent, spkt := c06Sentinel(codecName, seq0+uint16(len(pkts)), uint64(ci)<<20|0xfffff)
		detail := map[string]interface{}{"case": ci, "codec": codecName, "units": c06DescribeUnits(units), "packets": c06DescribePkts(pkts)}
		c.Pre(fmt.Sprintf("C06 lossfree case %d", ci))
		frames, ok := c06Run(c, codecName, pkts, sent, spkt)
		c.Eval(1)
		if !ok {
			continue
		}
		kinds := map[string]bool{}
		for _, p := range pkts {
			pl := p.p.Payload()
			switch {
			case p.p.Channel == kit.ChAudio:
				kinds[fmt.Sprintf("aac%d", len(p.units))] = true
				if len(p.units) >= 16 {
					c.SetAdd("packet_kinds", "AAC:16-or-more-AUs-in-one-packet")
				}
			case p.frag > 0:
				kinds["fu"] = true
			case len(p.units) > 1 || (codecName == "H264" && pl[0]&0x1f == 24) || (codecName == "H265" && (pl[0]>>1)&0x3f == 48):
				kinds[fmt.Sprintf("agg%d", len(p.units))] = true
			default:
				kinds["single"] = true
			}
		}
		ks := ""
		for _, k := range []string{"single", "fu", "agg1", "agg2", "agg3", "agg4", "aac1", "aac2", "aac3", "aac4"} {
			if kinds[k] {
				ks += k + ","
				c.SetAdd("packet_kinds", codecName+":"+k)
			}
		}
		c.Distinct(fmt.Sprintf("lf/%s/%d/%s/n%d/wrap%v", codecName, sizeClass, ks, len(units), int(seq0)+len(pkts) > 65535))
		if ci < 2 {
			c.Sample(detail)
		}
		// oracle: exact list equality
		matchIdx := make([]int, 0, len(frames))
		bad := false
		if len(frames) != len(units) {
			bad = true
		}
		for i := 0; i < len(frames) && i < len(units); i++ {
			if !bytes.Equal(frames[i].Payload, units[i].data) {
				bad = true
				break
			}
			wantMT := codec.MediaTypeVideo
			if units[i].au {
				wantMT = codec.MediaTypeAudio
			}
			if frames[i].MediaType != wantMT {
				bad = true
				break
			}
			matchIdx = append(matchIdx, i)
		}
		if bad {
			c06ClassifyMismatch(c, codecName, units, pkts, frames, detail)
			continue
		}
		c06PtsCheck(c, codecName, units, frames, matchIdx, detail)
	}

	c06ManyAUs = false

	// ---------- loss / swap inside fragmented units
	for ci := 0; ci < nLoss; ci++ {
		if !c.Mine(ci) {
			continue
		}
		rng := c.SubRng("c06loss", ci)
		codecName := []string{"H264", "H265"}[ci%2]
		// two or three fragmented units with small fragments, surrounded by single NALs
		var units []c06unit
		ts := uint32(1000)
		nu := 2 + rng.Intn(3)
		for k := 0; k < nu; k++ {
			sz := 12 + rng.Intn(40)
			id := uint64(ci)<<20 | uint64(k)
			if codecName == "H265" {
				units = append(units, c06unit{data: kit.H265NAL(byte(1+rng.Intn(20)), 1, sz, id), ts: ts})
			} else {
				units = append(units, c06unit{data: kit.H264NAL(byte(rng.Intn(4)), byte(1+rng.Intn(5)), sz, id), ts: ts})
			}
			ts += 3000
		}
		// packetise: unit k fragmented (force) except possibly one single
		var pkts []c06pkt
		seq := uint16(65530 - rng.Intn(30))
		if rng.Intn(2) == 0 {
			seq = uint16(rng.Intn(60000))
		}
		for k := range units {
			frag := 0
			if !(nu > 2 && k == 1 && rng.Intn(3) == 0) {
				frag = 3 + rng.Intn(8)
			}
			sub := c06Packetise(rng, codecName, units[k:k+1], seq, frag)
			if frag == 0 {
				sub = []c06pkt{{p: kit.MakeRTP(kit.ChVideo, 96, true, seq, units[k].ts, 0x1234, units[k].data), units: []int{0}}}
			}
			for i := range sub {
				sub[i].units = []int{k}
			}
			pkts = append(pkts, sub...)
			seq += uint16(len(sub))
		}
		// fault pattern
		pat := ""
		mode := ci % 5
		np := len(pkts)
		switch mode {
		case 0: // single loss at position derived from the case index (enumerates positions)
			i := (ci / 5) % np
			pkts[i].dropped = true
			pat = fmt.Sprintf("drop1@%d/%d", i, pkts[i].frag)
		case 1: // two losses
			i := (ci / 5) % np
			j := (ci / 5 / np) % np
			pkts[i].dropped, pkts[j].dropped = true, true
			pat = fmt.Sprintf("drop2@%d,%d", pkts[i].frag, pkts[j].frag)
		case 2: // run of consecutive losses
			i := rng.Intn(np)
			l := 1 + rng.Intn(4)
			for k := i; k < i+l && k < np; k++ {
				pkts[k].dropped = true
			}
			pat = fmt.Sprintf("run%d@%d", l, pkts[i].frag)
		case 3: // swap two adjacent packets
			i := rng.Intn(np - 1)
			pkts[i], pkts[i+1] = pkts[i+1], pkts[i]
			pat = fmt.Sprintf("swap@%d,%d", pkts[i].frag, pkts[i+1].frag)
		case 4: // random multi-loss
			for k := range pkts {
				if rng.Intn(4) == 0 {
					pkts[k].dropped = true
				}
			}
			pat = "random"
		}
		sent, spkt := c06Sentinel(codecName, seq+7, uint64(ci)<<20|0xfffff)
		detail := map[string]interface{}{"case": ci, "codec": codecName, "pattern": pat, "units": c06DescribeUnits(units), "packets": c06DescribePkts(pkts)}
		c.Pre(fmt.Sprintf("C06 loss case %d", ci))
		frames, ok := c06Run(c, codecName, pkts, sent, spkt)
		c.Eval(1)
		if !ok {
			continue
		}
		c.Distinct(fmt.Sprintf("loss/%s/%s/n%d", codecName, pat, nu))
		c.SetAdd("fault_patterns", codecName+":"+pat)
		if ci < 2 {
			c.Sample(detail)
		}
		// which units are intact: all their packets present and (for mode 3) in original order
		intact := make([]bool, nu)
		missing := make([]bool, nu)
		for k := range intact {
			intact[k] = true
		}
		for i, p := range pkts {
			k := p.units[0]
			if p.dropped {
				intact[k] = false
				missing[k] = true
			}
			if mode == 3 && i > 0 && pkts[i-1].p.SequenceNumber != p.p.SequenceNumber-1 && !p.dropped {
				// order disturbed around here: units touched by the swap are not demanded
				intact[k] = false
				intact[pkts[i-1].units[0]] = false
			}
		}
		// oracle
		next := 0
		if mode == 3 {
			// reordered input: the statement only demands that nothing truncated/spliced is emitted;
			// the relative order of whole units under network reordering is not judged
			seenU := make([]int, nu)
			for _, f := range frames {
				found := -1
				for k := 0; k < nu; k++ {
					if bytes.Equal(f.Payload, units[k].data) {
						found = k
					}
				}
				if found < 0 {
					detail["bad_frame_len"] = len(f.Payload)
					c.Violation("C06:loss:truncated-or-spliced-unit-emitted:"+codecName, detail)
					break
				}
				seenU[found]++
				if seenU[found] > 1 {
					c.Violation("C06:loss:unit-duplicated:"+codecName, detail)
				}
			}
			continue
		}
		for _, f := range frames {
			found := -1
			for k := next; k < nu; k++ {
				if bytes.Equal(f.Payload, units[k].data) {
					found = k
					break
				}
			}
			if found < 0 {
				// not a whole source unit in order: truncated, spliced, duplicated or out of order
				whole := false
				for k := 0; k < nu; k++ {
					if bytes.Equal(f.Payload, units[k].data) {
						whole = true
					}
				}
				detail["bad_frame_len"] = len(f.Payload)
				if whole {
					c.Violation("C06:loss:unit-duplicated-or-reordered:"+codecName, detail)
				} else {
					c.Violation("C06:loss:truncated-or-spliced-unit-emitted:"+codecName, detail)
				}
				next = nu + 1
				break
			}
			if missing[found] {
				c.Violation("C06:loss:unit-with-missing-fragment-emitted:"+codecName, detail)
			}
			for k := next; k < found; k++ {
				if intact[k] {
					detail["dropped_unit"] = k
					c.Violation("C06:loss:intact-unit-not-emitted:"+codecName, detail)
				}
			}
			next = found + 1
		}
		if next <= nu {
			for k := next; k < nu; k++ {
				if intact[k] {
					detail["dropped_unit"] = k
					c.Violation("C06:loss:intact-unit-not-emitted:"+codecName, detail)
				}
			}
		}
	}
}

// c06ClassifyMismatch attributes a loss-free mismatch to the narrowest cause it can identify.
func c06ClassifyMismatch(c *kit.Ctx, codecName string, units []c06unit, pkts []c06pkt, frames []codec.Frame, detail map[string]interface{}) {
	// which packet carried unit i?
	carrier := map[int]c06pkt{}
	for _, p := range pkts {
		for _, u := range p.units {
			if _, ok := carrier[u]; !ok || p.frag == 1 {
				carrier[u] = p
			}
		}
	}
	kindOf := func(i int) string {
		p := carrier[i]
		switch {
		case units[i].au:
			return "aac"
		case p.frag > 0:
			return "fu"
		case len(p.units) > 1 || (len(p.p.Payload()) > len(units[i].data)):
			return "aggregate"
		default:
			return "single"
		}
	}
	n := len(frames)
	if len(units) < n {
		n = len(units)
	}
	for i := 0; i < n; i++ {
		if bytes.Equal(frames[i].Payload, units[i].data) {
			continue
		}
		k := kindOf(i)
		f, u := frames[i].Payload, units[i].data
		detail["first_bad_unit"] = i
		detail["unit_len"] = len(u)
		detail["frame_len"] = len(f)
		if len(f) == len(u) && len(f) > 0 && bytes.Equal(f[1:], u[1:]) {
			detail["unit_b0"] = u[0]
			detail["frame_b0"] = f[0]
			if codecName == "H264" && (f[0]^u[0])&0x9f == 0 {
				c.Violation(fmt.Sprintf("C06:bytes:%s:%s:nri-bits-changed", codecName, k), detail)
				return
			}
			c.Violation(fmt.Sprintf("C06:bytes:%s:%s:header-byte-changed", codecName, k), detail)
			return
		}
		// is frame i equal to a later unit (i.e. unit i missing)?
		for j := i + 1; j < len(units); j++ {
			if bytes.Equal(f, units[j].data) {
				detail["missing_unit_len"] = len(u)
				c.Violation(fmt.Sprintf("C06:missing:%s:%s:len%s", codecName, k, c06LenClass(len(u))), detail)
				return
			}
		}
		c.Violation(fmt.Sprintf("C06:bytes:%s:%s:content-differs", codecName, k), detail)
		return
	}
	if len(frames) < len(units) {
		i := len(frames)
		detail["missing_unit_len"] = len(units[i].data)
		c.Violation(fmt.Sprintf("C06:missing:%s:%s:len%s", codecName, kindOf(i), c06LenClass(len(units[i].data))), detail)
		return
	}
	c.Violation(fmt.Sprintf("C06:invented:%s", codecName), detail)
}

func c06LenClass(n int) string {
	switch {
	case n < 3:
		return "<3"
	case n > 65535:
		return ">65535"
	default:
		return "3..65535"
	}
}
