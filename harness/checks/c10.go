package checks

import (
	"bytes"
	"encoding/base64"
	"fmt"
	"io"
	"os"
	"path/filepath"
	"runtime"
	"runtime/debug"
	"sort"
	"strings"
	"sync"
	"sync/atomic"
	"time"

	"verifharness/kit"

	"github.com/cnotch/ipchub/av/codec"
	"github.com/cnotch/ipchub/av/format/hls"
	"github.com/cnotch/ipchub/av/format/mpegts"
	"github.com/cnotch/ipchub/config"
	"github.com/cnotch/ipchub/media"
	"github.com/cnotch/xlog"
)

// C10 — HLS playlist and segments are consistent, bounded and independently decodable.
//
// System under test: mpegts.Muxer/packetizers -> hls.SegmentGenerator -> hls.Playlist, driven
//   sync    packetizers called directly (deterministic, observation after every frame),
//   muxer   through mpegts.Muxer (queue + goroutine); a tap between muxer and generator observes after every frame,
//   stream  through media.Stream.WriteFrame with config.VerifSet (memory / disk), drained per frame by counting the
//           "tsmuxer.beforePop" hook; observation through Stream.Hlsable().
// Oracle (all independent of ipchub): own RFC 8216 playlist reader (c10_m3u8.go), kit.DemuxTS + Annex-B + ADTS readers,
// golden copies of every segment taken when its number is first listed, source frames carrying unique ids.

func init() { kit.Register("C10", runC10) }

const (
	c10VideoStepNs = int64(40_000_000)
	c10AudioStepNs = int64(23_219_955) // 1024 samples at 44100 Hz
	c10AudioIDBase = 1_000_000_000
	c10Window      = 3
	c10MinSegMs    = 100 // the statement's "sub-100 ms fragments" that may be discarded
)

var c10ParamSets = [][2][]byte{
	{{0x67, 0x64, 0x00, 0x1f, 0xac, 0xd9, 0x40, 0x50, 0x05, 0xbb, 0x01, 0x10, 0x00, 0x00, 0x03, 0x00, 0x10, 0x00, 0x00, 0x03, 0x03, 0xc0, 0xf1, 0x83, 0x19, 0x60},
		{0x68, 0xeb, 0xe3, 0xcb, 0x22, 0xc0}},
	{{0x67, 0x42, 0xc0, 0x1e, 0xd9, 0x00, 0xa0, 0x47, 0xfe, 0x88}, {0x68, 0xce, 0x3c, 0x80}},
}

// ------------------------------------------------------------------------------------------------------------
// source

type c10Frame struct {
	Audio       bool
	Nal         int
	PtsNs       int64
	Idx         int  // index within its media type == id carried in the payload
	Key         bool // IDR slice
	AfterGap    bool // first video frame after a video gap
	ResumeNoKey bool // ... and it is not a key frame: the source itself resumes mid-GOP (segment-start clause unjudged there)
	data        []byte
}

type c10Case struct {
	Index     int        `json:"index"`
	Family    string     `json:"family"`
	Path      string     `json:"path"` // sync | muxer | stream
	Mode      string     `json:"mode"` // memory | disk
	F         int        `json:"fragment_s"`
	Gops      []int      `json:"gop_frames"` // GOP lengths in video frames (40 ms each), cycled
	T0Ms      int64      `json:"t0_ms"`
	Audio     string     `json:"audio"` // none | cont | late
	SkewMs    int64      `json:"audio_skew_ms"`
	VGaps     [][2]int64 `json:"video_gaps_ms,omitempty"` // [start, length] relative to T0
	ResumeKey bool       `json:"resume_with_key"`
	Inband    int        `json:"inband"` // 0 none; 1 SPS+PPS frames before each key frame; 2 + SEI frames
	DurMs     int64      `json:"dur_ms"`
	Token     string     `json:"token"`
	PS        int        `json:"paramset"`
	NoKeyHead int        `json:"head_frames_without_key,omitempty"` // stream starts with this many non-key frames
}

func c10Hash(a, b int) uint32 {
	x := uint32(a)*2654435761 ^ uint32(b)*40503
	x ^= x >> 15
	x *= 2246822519
	x ^= x >> 13
	return x
}

func c10NalHeader(t int) byte {
	switch t {
	case 5, 7, 8:
		return 0x60 | byte(t)
	case 1:
		return 0x40 | byte(t)
	}
	return byte(t)
}

// c10Payload: video = NAL header + 4 id digits (base 240) + LCG bytes; audio = 5 id digits + LCG bytes; all >= 0x10.
func c10Payload(audio bool, nal int, id int, size int) []byte {
	b := make([]byte, size)
	x := uint32(id)*2654435761 + 12345
	v := id
	nd := 4
	o := 1
	if audio {
		nd, o = 5, 0
	} else {
		b[0] = c10NalHeader(nal)
	}
	for i := o; i < size; i++ {
		if i < o+nd {
			b[i] = 0x10 + byte(v%240)
			v /= 240
			continue
		}
		x = x*1664525 + 1013904223
		b[i] = 0x10 + byte((x>>24)%240)
	}
	return b
}

func c10DecodeID(b []byte, audio bool) (int, bool) {
	nd, o := 4, 1
	if audio {
		nd, o = 5, 0
	}
	if len(b) < o+nd {
		return 0, false
	}
	id := 0
	mul := 1
	for i := 0; i < nd; i++ {
		d := int(b[o+i]) - 0x10
		if d < 0 {
			return 0, false
		}
		id += d * mul
		mul *= 240
	}
	return id, true
}

// build generates the source frames in arrival order.
func (cs *c10Case) build() (frames []c10Frame) {
	type ev struct {
		key int64 // arrival time
		ord int
		f   c10Frame
	}
	var evs []ev
	inGap := func(ms int64) bool {
		for _, g := range cs.VGaps {
			if ms >= g[0] && ms < g[0]+g[1] {
				return true
			}
		}
		return false
	}
	t0 := cs.T0Ms * 1_000_000
	vidx := 0
	addV := func(nal int, pts int64, size int, key, afterGap bool) {
		f := c10Frame{Nal: nal, PtsNs: pts, Idx: vidx, Key: key, AfterGap: afterGap, ResumeNoKey: afterGap && !key && nal == 1}
		f.data = c10Payload(false, nal, vidx, size)
		evs = append(evs, ev{pts, len(evs), f})
		vidx++
	}
	gi, pos := 0, 0
	head := cs.NoKeyHead
	wasGap := false
	for k := int64(0); k*40 < cs.DurMs; k++ {
		ms := k * 40
		if inGap(ms) {
			wasGap = true
			continue
		}
		afterGap := wasGap
		if wasGap {
			wasGap = false
			if cs.ResumeKey {
				pos = 0
			}
		}
		pts := t0 + k*c10VideoStepNs
		h := c10Hash(cs.Index, int(k))
		if head > 0 {
			head--
			addV(1, pts, 20+int(h%200), false, afterGap)
			continue
		}
		key := pos == 0
		if key {
			if cs.Inband >= 1 {
				addV(7, pts, 12+int(h%20), false, afterGap)
				addV(8, pts, 8+int(h%8), false, false)
				afterGap = false
			}
			size := 200 + int(h%600)
			if h%37 == 0 {
				size = 5000 + int(h%15000)
			}
			addV(5, pts, size, true, afterGap)
		} else {
			if cs.Inband >= 2 && h%7 == 0 {
				addV(6, pts, 10+int(h%30), false, afterGap)
				afterGap = false
			}
			addV(1, pts, 20+int(h%200), false, afterGap)
		}
		pos++
		if pos >= cs.Gops[gi%len(cs.Gops)] {
			pos = 0
			gi++
		}
	}
	if cs.Audio != "none" {
		start := int64(0)
		if cs.Audio == "late" {
			start = cs.DurMs / 3
		}
		aidx := 0
		for j := int64(0); ; j++ {
			rel := start*1_000_000 + j*c10AudioStepNs
			if rel >= cs.DurMs*1_000_000 {
				break
			}
			h := c10Hash(cs.Index+7777, int(j))
			f := c10Frame{Audio: true, PtsNs: t0 + rel, Idx: aidx}
			f.data = c10Payload(true, 0, c10AudioIDBase+aidx, 8+int(h%250))
			evs = append(evs, ev{t0 + rel + cs.SkewMs*1_000_000, len(evs) + 1<<30, f})
			aidx++
		}
	}
	sort.SliceStable(evs, func(i, j int) bool {
		if evs[i].key != evs[j].key {
			return evs[i].key < evs[j].key
		}
		return evs[i].ord < evs[j].ord
	})
	frames = make([]c10Frame, len(evs))
	for i := range evs {
		frames[i] = evs[i].f
	}
	return frames
}

func (cs *c10Case) maxGop() int {
	m := 0
	for _, g := range cs.Gops {
		if g > m {
			m = g
		}
	}
	return m
}

func (cs *c10Case) gopClass() string {
	g := float64(cs.maxGop()) * 0.04
	f := float64(cs.F)
	switch {
	case g < 0.1:
		return "<0.1s"
	case g < f:
		return "<F"
	case g == f:
		return "=F"
	case g < 2*f:
		return "F..2F"
	case g < 3*f:
		return "2F..3F"
	}
	return ">=3F"
}

func (cs *c10Case) shapeKey() string {
	t0 := "0"
	switch {
	case cs.T0Ms == 0:
	case cs.T0Ms < int64(cs.F)*1000:
		t0 = "<F"
	case cs.T0Ms < 2*int64(cs.F)*1000:
		t0 = "F..2F"
	default:
		t0 = ">=2F"
	}
	return fmt.Sprintf("%s|%s|%s|F%d|gop%s/%d|a=%s/%d|t0%s|gaps%d/%v|ib%d|head%d|tok=%v", cs.Family, cs.Path, cs.Mode, cs.F, cs.gopClass(), len(cs.Gops),
		cs.Audio, cs.SkewMs, t0, len(cs.VGaps), cs.ResumeKey, cs.Inband, cs.NoKeyHead, cs.Token != "")
}

// ------------------------------------------------------------------------------------------------------------
// observer

type c10PL interface {
	M3u8(token string) ([]byte, error)
	Segment(seq int) (io.Reader, int, error)
}

type c10Seg struct {
	Seq       int
	Golden    []byte
	Dur       float64
	V, A      []int
	HasVideo  bool
	FirstVCL  int  // NAL type of the first slice NAL in the segment
	PSBefore  bool // SPS and PPS seen in the segment before that slice
	FirstVIdx int
	MinPts    int64
	MaxPts    int64
	NFrames   int
}

type c10Held struct {
	seq      int
	r        io.Reader
	size     int
	got      []byte
	due      int
	k        int
	listedAt [2]int
	partial  bool
}

type c10Obs struct {
	c        *kit.Ctx
	cs       *c10Case
	frames   []c10Frame
	vsrc     []int // arrival index by video idx
	asrc     []int
	pl       c10PL
	path     string
	dir      string
	sps, pps []byte

	fed       int
	segs      map[int]*c10Seg
	lastFirst int
	lastLast  int
	rolls     int
	nextV     int
	nextA     int
	chained   int
	held      []*c10Held
	polls     int
	served    int
	closed    bool

	// statement-level lower bound on the number of complete segments
	mStarted bool
	mStart   int64
	mPrev    int64
	mCuts    int

	maxFiles int
	nviol    int
	scratch  []byte
}

func (o *c10Obs) viol(sig string, d map[string]interface{}) {
	d["case"] = o.cs
	d["frames_fed"] = o.fed
	o.nviol++
	o.c.Violation(sig, d)
}

func c10SafeM3u8(pl c10PL, tok string) (b []byte, err error, pan string) {
	defer func() {
		if r := recover(); r != nil {
			pan = c10PanicSite(fmt.Sprint(r), debug.Stack())
			b, err = nil, fmt.Errorf("panic in M3u8: %v", r)
		}
	}()
	b, err = pl.M3u8(tok)
	return
}

func c10SafeSegment(pl c10PL, seq int) (r io.Reader, size int, err error, pan string) {
	defer func() {
		if x := recover(); x != nil {
			pan = c10PanicSite(fmt.Sprint(x), debug.Stack())
			r, err = nil, fmt.Errorf("panic in Segment(%d): %v", seq, x)
		}
	}()
	r, size, err = pl.Segment(seq)
	if err == nil && r == nil {
		err = fmt.Errorf("Segment(%d) returned neither a reader nor an error", seq)
	}
	return
}

// c10PanicSite: first ipchub frame of the stack.
func c10PanicSite(msg string, stack []byte) string {
	for _, ln := range strings.Split(string(stack), "\n") {
		if i := strings.Index(ln, "github.com/cnotch/ipchub/"); i >= 0 && !strings.HasPrefix(strings.TrimSpace(ln), "/") {
			s := ln[i+len("github.com/cnotch/ipchub/"):]
			if j := strings.LastIndexByte(s, '('); j > 0 {
				s = s[:j]
			}
			return s
		}
	}
	return "unknown"
}

func c10CloseReader(r io.Reader) {
	if cl, ok := r.(io.Closer); ok {
		cl.Close()
	}
}

// c10ReadInto reads r to its end into *scratch (grown as needed, reused between calls: large allocations are very
// expensive under the race detector) and returns the bytes read.
func c10ReadInto(r io.Reader, scratch *[]byte, hint int) ([]byte, error) {
	if cap(*scratch) < hint+1 {
		*scratch = make([]byte, hint+hint/2+4096)
	}
	buf := (*scratch)[:cap(*scratch)]
	n := 0
	for {
		if n == len(buf) {
			nb := make([]byte, 2*len(buf)+4096)
			copy(nb, buf[:n])
			buf = nb
			*scratch = nb
		}
		m, err := r.Read(buf[n:])
		n += m
		if err == io.EOF {
			return buf[:n], nil
		}
		if err != nil {
			return buf[:n], err
		}
	}
}

// fetch reads one segment completely through Segment(seq); the result lives in o.scratch until the next fetch.
func (o *c10Obs) fetch(seq int) ([]byte, bool) {
	r, size, err, pan := c10SafeSegment(o.pl, seq)
	if pan != "" {
		o.viol("C10:panic:segment:"+pan, map[string]interface{}{"seq": seq})
		return nil, false
	}
	if err != nil {
		return nil, false
	}
	defer c10CloseReader(r)
	b, rerr := c10ReadInto(r, &o.scratch, size)
	if rerr != nil {
		o.viol("C10:segment-bytes:read-error:"+o.cs.Mode, map[string]interface{}{"seq": seq, "err": rerr.Error()})
		return nil, false
	}
	if len(b) != size {
		o.viol("C10:segment-bytes:size-differs-from-announced:"+o.cs.Mode, map[string]interface{}{"seq": seq, "announced": size, "read": len(b)})
	}
	return b, true
}

func (o *c10Obs) tsFiles() []string {
	if o.dir == "" {
		return nil
	}
	ents, err := os.ReadDir(o.dir)
	if err != nil {
		return nil
	}
	var out []string
	for _, e := range ents {
		out = append(out, e.Name())
	}
	return out
}

// checkFiles: disk storage stays bounded (listed window + the open segment, one spare).
func (o *c10Obs) checkFiles() {
	fs := o.tsFiles()
	o.c.Count("disk_directory_listings_checked", 1)
	if len(fs) > o.maxFiles {
		o.maxFiles = len(fs)
	}
	if len(fs) > c10Window+2 {
		o.viol("C10:storage:too-many-files:disk", map[string]interface{}{"files": fs, "bound": c10Window + 2})
	}
}

// feedModel advances the statement-level lower bound: a segment is complete when a key frame arrives after the
// fragment length has been reached (0.5 s slack so that any implementation choice of "reached" is at least as early).
func (o *c10Obs) feedModel(f *c10Frame) {
	if !o.mStarted {
		o.mStarted, o.mStart, o.mPrev = true, f.PtsNs, f.PtsNs
		return
	}
	if !f.Audio && f.Key && o.mPrev-o.mStart >= int64(o.cs.F)*1_000_000_000+500_000_000 {
		o.mCuts++
		o.mStart = f.PtsNs
	}
	// The length reached so far is measured on VIDEO frames only: ipchub holds audio back in its AAC cache, so an audio
	// frame that arrived just before a key frame (audio starting late, right after a video gap) has not advanced the
	// open segment yet. Counting it made this "lower bound" exceed what the statement's cut rule guarantees.
	if !f.Audio {
		o.mPrev = f.PtsNs
	}
}

// afterFrame is called when ipchub has consumed source frame number o.fed-1.
func (o *c10Obs) afterFrame() {
	o.feedModel(&o.frames[o.fed-1])
	if os.Getenv("VERIF_C10_DEBUG") != "" {
		f := &o.frames[o.fed-1]
		b, err := o.pl.M3u8("")
		st := "ERR"
		if err == nil {
			st = strings.ReplaceAll(string(b[strings.Index(string(b), "MEDIA-SEQUENCE"):]), "\n", " ")
		}
		fmt.Fprintf(os.Stderr, "DBG fed=%d audio=%v key=%v pts_ms=%d cuts=%d | %s\n", o.fed, f.Audio, f.Key, f.PtsNs/1e6, o.mCuts, st)
	}
	o.poll()
}

func (o *c10Obs) poll() {
	o.polls++
	tok := o.cs.Token
	if o.polls%4 == 3 {
		tok = "" // the same stream is also asked without a token
	}
	if o.dir != "" && (o.polls%8 == 0 || o.lastLast == 0) {
		o.checkFiles()
	}
	b, err, pan := c10SafeM3u8(o.pl, tok)
	if pan != "" {
		o.viol("C10:panic:m3u8:"+pan, map[string]interface{}{})
		return
	}
	if err != nil {
		if o.mCuts >= c10Window && o.lastLast == 0 {
			o.viol("C10:playlist:unavailable-although-three-segments-complete", map[string]interface{}{"err": err.Error(), "complete_lower_bound": o.mCuts})
		} else if o.lastLast != 0 {
			o.viol("C10:playlist:unavailable-after-it-was-served", map[string]interface{}{"err": err.Error()})
		}
		return
	}
	o.served++
	text := string(b)
	p := c10ParseM3U8(b)
	bad := func(sig string, d map[string]interface{}) {
		d["m3u8"] = text
		d["token"] = tok
		o.viol(sig, d)
	}
	for _, e := range p.Errs {
		bad("C10:m3u8:malformed:"+e, map[string]interface{}{})
	}
	if len(p.Entries) != c10Window {
		bad("C10:playlist:segment-count", map[string]interface{}{"listed": len(p.Entries), "want": c10Window})
	}
	if len(p.Entries) == 0 {
		return
	}
	seqs := make([]int, len(p.Entries))
	okURIs := true
	for i := range p.Entries {
		e := &p.Entries[i]
		sp, n, why, ok := c10ResolveURI(e.Path)
		if !ok || sp != o.path {
			bad("C10:playlist:uri-not-resolvable", map[string]interface{}{"uri": e.URI, "why": why, "stream_path": o.path})
			okURIs = false
			continue
		}
		seqs[i] = n
		switch {
		case tok != "" && (!e.HasQ || e.Query != "token="+tok):
			bad("C10:playlist:uri-token-missing-or-wrong", map[string]interface{}{"uri": e.URI})
		case tok == "" && e.HasQ:
			bad("C10:playlist:uri-has-query-without-token", map[string]interface{}{"uri": e.URI})
		}
		if p.HasTarget && float64(p.Target) < e.Dur {
			bad("C10:playlist:targetduration-below-extinf", map[string]interface{}{"target": p.Target, "extinf": e.DurText})
		}
	}
	if !okURIs {
		return
	}
	for i := 1; i < len(seqs); i++ {
		if seqs[i] != seqs[i-1]+1 {
			bad("C10:playlist:non-consecutive-numbers", map[string]interface{}{"numbers": seqs})
			return
		}
	}
	if !p.HasMediaSeq {
		if seqs[0] != 0 { // RFC 8216: absent tag means 0
			bad("C10:playlist:media-sequence", map[string]interface{}{"media_sequence": "absent", "first": seqs[0]})
		}
	} else if p.MediaSeq != seqs[0] {
		bad("C10:playlist:media-sequence", map[string]interface{}{"media_sequence": p.MediaSeq, "first": seqs[0]})
	}
	first, last := seqs[0], seqs[len(seqs)-1]
	if o.lastLast != 0 {
		switch {
		case last < o.lastLast || first < o.lastFirst:
			bad("C10:playlist:went-backwards", map[string]interface{}{"previous": [2]int{o.lastFirst, o.lastLast}, "now": [2]int{first, last}})
			return
		case last > o.lastLast+1:
			// observed after every frame: a complete segment that was never listed as the most recent one
			bad("C10:playlist:sequence-jump", map[string]interface{}{"previous_last": o.lastLast, "now_last": last})
		}
	}
	if last < o.mCuts {
		bad("C10:playlist:not-most-recent", map[string]interface{}{"last_listed": last, "complete_lower_bound": o.mCuts})
	}
	rolled := last != o.lastLast
	o.lastFirst, o.lastLast = first, last

	// every listed URI resolves; golden copy at first appearance, later fetches compared
	for i, n := range seqs {
		sg := o.segs[n]
		if sg == nil {
			data, ok := o.fetch(n)
			if !ok {
				bad("C10:playlist:listed-segment-not-fetchable:"+o.cs.Mode, map[string]interface{}{"seq": n})
				continue
			}
			sg = o.analyse(n, append([]byte(nil), data...))
			sg.Dur = p.Entries[i].Dur
			o.segs[n] = sg
			o.chain(sg)
			continue
		}
		if rolled || (o.polls%64 == 0 && i == (o.polls/64)%c10Window) {
			data, ok := o.fetch(n)
			if !ok {
				bad("C10:playlist:listed-segment-not-fetchable:"+o.cs.Mode, map[string]interface{}{"seq": n})
				continue
			}
			o.c.Count("refetch_compared", 1)
			if !bytes.Equal(data, sg.Golden) {
				bad("C10:segment-bytes:refetch-differs-while-listed:"+o.cs.Mode, map[string]interface{}{"seq": n, "golden_len": len(sg.Golden), "len": len(data),
					"first_diff": c09FirstDiff(data, sg.Golden)})
			}
		}
	}
	if !rolled {
		return
	}
	o.rolls++
	if o.dir != "" {
		o.checkFiles()
	}
	// slow readers that are due now
	o.readHeld(false)
	// numbers that left the window must be gone
	for n := first - 1; n >= 1 && n >= first-4; n-- {
		if o.dir == "" {
			r, _, err, _ := c10SafeSegment(o.pl, n)
			if err == nil {
				c10CloseReader(r)
				o.viol("C10:storage:evicted-segment-still-served:memory", map[string]interface{}{"seq": n, "listed": seqs})
			} else {
				o.c.Count("evicted_segment_refused", 1)
			}
		} else {
			m, _ := filepath.Glob(filepath.Join(o.dir, fmt.Sprintf("*_%d.ts", n)))
			if len(m) > 0 {
				o.viol("C10:storage:evicted-segment-file-remains:disk", map[string]interface{}{"seq": n, "files": m, "listed": seqs})
			} else {
				o.c.Count("evicted_segment_file_removed", 1)
			}
		}
	}
	// new slow readers on every listed number: to be read after k = 1..5 further rollovers
	for _, n := range seqs {
		r, size, err, pan := c10SafeSegment(o.pl, n)
		if pan != "" {
			o.viol("C10:panic:segment:"+pan, map[string]interface{}{"seq": n})
		}
		if err != nil {
			continue
		}
		k := 1 + (n*7+o.rolls*3)%5
		h := &c10Held{seq: n, r: r, size: size, due: o.rolls + k, k: k, listedAt: [2]int{first, last}}
		if (n+o.rolls)%2 == 0 {
			// a transfer in progress: part of the body has been sent already
			h.partial = true
			pn := 1 + size/3
			if pn > 16384 {
				pn = 16384 - n%4096
			}
			buf := make([]byte, pn)
			m, _ := io.ReadFull(r, buf)
			h.got = buf[:m]
		}
		o.held = append(o.held, h)
	}
}

// readHeld finishes the slow reads that are due (all of them when final) and compares with the golden copy.
func (o *c10Obs) readHeld(final bool) {
	keep := o.held[:0]
	for _, h := range o.held {
		if !final && h.due > o.rolls {
			keep = append(keep, h)
			continue
		}
		rest, err := c10ReadInto(h.r, &o.scratch, h.size)
		c10CloseReader(h.r)
		sg := o.segs[h.seq]
		over := o.rolls - (h.due - h.k)
		cls := fmt.Sprintf("rollovers=%d", over)
		if over > 5 {
			cls = "rollovers>5"
		}
		o.c.SetAdd("slow_read_classes", fmt.Sprintf("%s %s partial=%v pos=%d", o.cs.Mode, cls, h.partial, h.seq-h.listedAt[0]))
		o.c.Count("slow_reads_compared", 1)
		if sg == nil {
			continue
		}
		total := len(h.got) + len(rest)
		same := total == len(sg.Golden) && bytes.Equal(h.got, sg.Golden[:len(h.got)]) && bytes.Equal(rest, sg.Golden[len(h.got):])
		if err != nil || !same {
			got := append(append([]byte(nil), h.got...), rest...)
			d := map[string]interface{}{"seq": h.seq, "reader_obtained_when_listed": h.listedAt, "read_when_listed": [2]int{o.lastFirst, o.lastLast},
				"rollovers_in_between": over, "part_read_before": len(h.got), "golden_len": len(sg.Golden), "len": len(got), "first_diff": c09FirstDiff(got, sg.Golden)}
			if err != nil {
				d["read_error"] = err.Error()
			}
			o.viol("C10:segment-bytes:changed-after-rollover:"+o.cs.Mode, d)
		}
	}
	o.held = keep
}

// analyse demultiplexes a segment with the independent reader and maps its elementary streams to source frames.
func (o *c10Obs) analyse(seq int, data []byte) *c10Seg {
	sg := &c10Seg{Seq: seq, Golden: data, FirstVIdx: -1, MinPts: 1 << 62, MaxPts: -1 << 62}
	res := kit.DemuxTS(data)
	o.c.Count("segments_demultiplexed", 1)
	o.c.Count("segment_ts_packets", int64(res.NPackets))
	seen := map[string]bool{}
	for _, e := range res.Errors {
		if !seen[e.Code] {
			seen[e.Code] = true
			o.viol("C10:segment-ts:"+e.Code, map[string]interface{}{"seq": seq, "error": e.String(), "all": res.ErrorCodes()})
		}
	}
	if res.PAT != nil && res.PMT != nil && (res.PAT.PacketIndex != 0 || res.PMT.PacketIndex != 1) {
		o.viol("C10:segment-ts:pat-pmt-not-first", map[string]interface{}{"seq": seq, "pat": res.PAT.PacketIndex, "pmt": res.PMT.PacketIndex})
	}
	vpid, apid := res.PIDOfStreamType(0x1b), res.PIDOfStreamType(0x0f)
	note := func(f *c10Frame) {
		sg.NFrames++
		if f.PtsNs < sg.MinPts {
			sg.MinPts = f.PtsNs
		}
		if f.PtsNs > sg.MaxPts {
			sg.MaxPts = f.PtsNs
		}
	}
	sawSPS, sawPPS := false, false
	if vpid >= 0 {
		for _, p := range res.PESOf(vpid) {
			if !p.HeaderOK {
				continue
			}
			units, leading := kit.SplitAnnexBDetailed(p.Data)
			if len(leading) > 0 {
				o.viol("C10:segment-es:video-bytes-before-start-code", map[string]interface{}{"seq": seq, "leading": c09Hex(leading, 32)})
			}
			for _, u := range units {
				d := u.Data
				if len(d) == 0 {
					continue
				}
				t := int(d[0] & 0x1f)
				switch {
				case t == 9 && len(d) <= 2:
					continue
				case t == 7 && bytes.Equal(d, o.sps):
					sawSPS = true
					continue
				case t == 8 && bytes.Equal(d, o.pps):
					sawPPS = true
					continue
				}
				id, ok := c10DecodeID(d, false)
				if !ok || id >= len(o.vsrc) || !bytes.Equal(o.frames[o.vsrc[id]].data, d) {
					o.viol("C10:frames:video-nal-is-no-source-frame", map[string]interface{}{"seq": seq, "nal_type": t, "decoded_id": id, "nal": c09Hex(d, 24)})
					continue
				}
				sg.V = append(sg.V, id)
				sg.HasVideo = true
				if sg.FirstVIdx < 0 {
					sg.FirstVIdx = id
				}
				note(&o.frames[o.vsrc[id]])
				if t >= 1 && t <= 5 && sg.FirstVCL == 0 {
					sg.FirstVCL = t
					sg.PSBefore = sawSPS && sawPPS
				}
			}
		}
	}
	if apid >= 0 {
		for _, p := range res.PESOf(apid) {
			if !p.HeaderOK {
				continue
			}
			afs, err := kit.ParseADTS(p.Data)
			if err != nil {
				code := "adts.error"
				if ae, ok := err.(*kit.ADTSError); ok {
					code = ae.Code
				}
				o.viol("C10:segment-es:audio-"+code, map[string]interface{}{"seq": seq, "error": err.Error()})
			}
			for _, fr := range afs {
				id, ok := c10DecodeID(fr.Payload, true)
				ai := id - c10AudioIDBase
				if !ok || ai < 0 || ai >= len(o.asrc) || !bytes.Equal(o.frames[o.asrc[ai]].data, fr.Payload) {
					o.viol("C10:frames:audio-au-is-no-source-frame", map[string]interface{}{"seq": seq, "decoded_id": id, "au": c09Hex(fr.Payload, 24)})
					continue
				}
				sg.A = append(sg.A, ai)
				note(&o.frames[o.asrc[ai]])
			}
		}
	}
	o.c.Eval(sg.NFrames)
	return sg
}

// chain checks "across consecutive segments every source frame appears exactly once" and the segment-start clause.
func (o *c10Obs) chain(sg *c10Seg) {
	if o.chained != 0 && sg.Seq != o.chained+1 {
		// a jump was reported by the playlist check; restart the chain behind it
		o.c.Count("chain_restarted_after_sequence_jump", 1)
		if len(sg.V) > 0 {
			o.nextV = sg.V[0]
		}
		if len(sg.A) > 0 {
			o.nextA = sg.A[0]
		}
	}
	o.chained = sg.Seq
	walk := func(kind string, ids []int, next *int, src []int) {
		for k, id := range ids {
			switch {
			case id == *next:
				*next = id + 1
			case id < *next:
				o.viol("C10:frames:duplicate:"+kind, map[string]interface{}{"seq": sg.Seq, "id": id, "expected_next": *next, "position_in_segment": k})
			default:
				span := o.frames[src[id-1]].PtsNs - o.frames[src[*next]].PtsNs
				where := "inside-segment"
				if k == 0 {
					where = "between-segments"
				}
				if k == 0 && span < int64(c10MinSegMs)*1_000_000 {
					o.c.Count("hole_explained_by_discarded_short_segment", 1)
				} else {
					o.viol("C10:frames:missing:"+kind+":"+where, map[string]interface{}{"seq": sg.Seq, "missing_ids": [2]int{*next, id - 1},
						"missing_span_ms": float64(span) / 1e6})
				}
				*next = id + 1
			}
		}
	}
	walk("video", sg.V, &o.nextV, o.vsrc)
	walk("audio", sg.A, &o.nextA, o.asrc)
	o.c.Count("segments_chained", 1)
	if len(sg.V) == 0 {
		o.c.Count("segments_without_video", 1)
	}
	if len(sg.A) == 0 {
		o.c.Count("segments_without_audio", 1)
	}
	if d := sg.Dur - float64(sg.MaxPts-sg.MinPts)/1e9; sg.NFrames > 0 && (d > 0.5 || d < -0.5) {
		o.c.Count("extinf_differs_from_media_span_by_more_than_0.5s_unjudged", 1)
	}
	// every segment after the first begins its video with a key frame preceded by SPS/PPS
	if sg.Seq <= 1 || !sg.HasVideo {
		return
	}
	if sg.FirstVCL == 0 {
		o.c.Count("segment_video_without_slice_unjudged", 1)
		return
	}
	if sg.FirstVCL == 5 && sg.PSBefore {
		o.c.Count("segment_starts_with_sps_pps_idr", 1)
		return
	}
	// find the first slice frame of the segment in the source
	var ff *c10Frame
	for _, id := range sg.V {
		f := &o.frames[o.vsrc[id]]
		if f.Nal == 1 || f.Nal == 5 {
			ff = f
			break
		}
	}
	if sg.FirstVCL != 5 && ff != nil && c10SourceResumesMidGop(o, ff) {
		o.c.Count("segment_start_source_resumed_without_key_frame_unjudged", 1)
		return
	}
	prev := o.segs[sg.Seq-1]
	d := map[string]interface{}{"seq": sg.Seq, "first_slice_nal_type": sg.FirstVCL, "sps_pps_before": sg.PSBefore, "first_video_id": sg.FirstVIdx}
	if prev != nil {
		d["previous_extinf"] = prev.Dur
		d["previous_media_span_s"] = float64(prev.MaxPts-prev.MinPts) / 1e9
	}
	switch {
	case sg.FirstVCL == 5:
		o.viol("C10:segment-start:keyframe-without-sps-pps", d)
	case prev != nil && prev.Seq == 1 && prev.Dur-float64(prev.MaxPts-prev.MinPts)/1e9 > 0.5:
		// the first segment was closed although its media is shorter than its announced duration: duration counted from PTS 0
		o.viol("C10:segment-start:not-keyframe:first-segment-duration-counted-from-pts-0", d)
	case prev != nil && prev.Dur >= float64(2*o.cs.F)-0.3 && o.cs.Audio != "none":
		o.viol("C10:segment-start:not-keyframe:audio-forced-cut", d)
	default:
		o.viol("C10:segment-start:not-keyframe:other", d)
	}
}

// c10SourceResumesMidGop: the first slice of the segment is itself the source's first frame after a video gap and no key frame
// was sent since (the source never offered a key frame to start with).
func c10SourceResumesMidGop(o *c10Obs, ff *c10Frame) bool {
	// walk back over non-key video frames to the last key frame / gap
	for id := ff.Idx; id >= 0; id-- {
		f := &o.frames[o.vsrc[id]]
		if f.Key {
			return false
		}
		if f.AfterGap || id == 0 {
			return true
		}
	}
	return false
}

// ------------------------------------------------------------------------------------------------------------
// drivers

type c10Tap struct {
	inner mpegts.FrameWriter
	o     *c10Obs
	after func()
	pan   []string
	errs  []string
}

func (t *c10Tap) WriteMpegtsFrame(f *mpegts.Frame) (err error) {
	func() {
		defer func() {
			if r := recover(); r != nil {
				t.pan = append(t.pan, c10PanicSite(fmt.Sprint(r), debug.Stack()))
			}
		}()
		err = t.inner.WriteMpegtsFrame(f)
	}()
	if err != nil && len(t.errs) < 4 {
		t.errs = append(t.errs, err.Error())
	}
	if t.after != nil {
		t.after()
	}
	return nil
}

func c10ToFrame(f *c10Frame) *codec.Frame {
	mt := codec.MediaTypeVideo
	if f.Audio {
		mt = codec.MediaTypeAudio
	}
	return &codec.Frame{MediaType: mt, Dts: f.PtsNs, Pts: f.PtsNs, Payload: f.data}
}

func c10Metas(ps int) (*codec.VideoMeta, *codec.AudioMeta) {
	p := c10ParamSets[ps]
	vmeta := &codec.VideoMeta{Codec: "H264", Width: 1280, Height: 720, ClockRate: 90000,
		Sps: append([]byte(nil), p[0]...), Pps: append([]byte(nil), p[1]...)}
	ameta := &codec.AudioMeta{Codec: "AAC", SampleRate: 44100, SampleSize: 16, Channels: 2, Sps: []byte{0x12, 0x10}}
	return vmeta, ameta
}

var c10PathSeq int64

func c10NewObs(c *kit.Ctx, cs *c10Case) *c10Obs {
	o := &c10Obs{c: c, cs: cs, segs: map[int]*c10Seg{}}
	o.frames = cs.build()
	for i := range o.frames {
		if o.frames[i].Audio {
			o.asrc = append(o.asrc, i)
		} else {
			o.vsrc = append(o.vsrc, i)
		}
	}
	return o
}

// c10RunCase feeds one case and judges it.
func c10RunCase(c *kit.Ctx, cs *c10Case) {
	o := c10NewObs(c, cs)
	c.Pre(fmt.Sprintf("C10 case %+v", *cs))
	if cs.Mode == "disk" {
		dir, err := os.MkdirTemp("/var/tmp", "c10-hls-")
		if err != nil {
			c.Inconclusive("cannot create temp dir: " + err.Error())
			return
		}
		o.dir = dir
		defer os.RemoveAll(dir)
	}
	panBefore := kit.Log.NPanics()
	switch cs.Path {
	case "stream":
		c10DriveStream(c, o)
	case "service":
		c10DriveService(c, o)
	default:
		c10DrivePackage(c, o)
	}
	if kit.Log.NPanics() > panBefore {
		for _, s := range kit.Log.TakePanics() {
			o.viol("C10:panic:recovered:"+s, map[string]interface{}{})
		}
	}
	c.Count("cases_"+cs.Family+"_"+cs.Path+"_"+cs.Mode, 1)
	c.Count("frames_fed", int64(o.fed))
	c.Count("playlist_polls", int64(o.polls))
	c.Count("playlists_served_and_checked", int64(o.served))
	c.Count("rollovers_observed", int64(o.rolls))
	if o.rolls >= 2 {
		c.Distinct(cs.shapeKey())
	} else {
		c.Count("cases_with_fewer_than_2_rollovers_trivial", 1)
	}
	if o.dir != "" {
		c.SetAdd("disk_max_files_seen", fmt.Sprint(o.maxFiles))
	}
	if cs.Index%41 == 0 {
		c.Sample(map[string]interface{}{"case": cs, "frames": len(o.frames), "rollovers": o.rolls, "last_listed": o.lastLast, "violations": o.nviol})
	}
}

func c10DrivePackage(c *kit.Ctx, o *c10Obs) {
	cs := o.cs
	vmeta, ameta := c10Metas(cs.PS)
	o.sps, o.pps = c10ParamSets[cs.PS][0], c10ParamSets[cs.PS][1]
	o.path = fmt.Sprintf("/c10/p%d", atomic.AddInt64(&c10PathSeq, 1))
	pl := hls.NewPlaylist()
	o.pl = pl
	sg, err := hls.NewSegmentGenerator(pl, o.path, cs.F, o.dir, 44100, xlog.L())
	if err != nil {
		c.Inconclusive("NewSegmentGenerator: " + err.Error())
		return
	}
	tap := &c10Tap{inner: sg, o: o}
	finish := func() {
		for _, s := range tap.pan {
			o.viol("C10:panic:write-frame:"+s, map[string]interface{}{})
		}
		if len(tap.errs) > 0 {
			o.viol("C10:write-frame-error", map[string]interface{}{"errs": tap.errs})
		}
	}
	if cs.Path == "sync" {
		vp := mpegts.NewH264Packetizer(vmeta, tap)
		ap := mpegts.NewAacPacketizer(ameta, tap)
		tap.after = func() { o.fed++; o.afterFrame() }
		for i := range o.frames {
			f := &o.frames[i]
			if f.Audio {
				ap.Packetize(c10ToFrame(f))
			} else {
				vp.Packetize(c10ToFrame(f))
			}
		}
		o.readHeld(true)
		finish()
		sg.Close()
		pl.Close()
		o.afterClose(func(f *c10Frame) {
			if f.Audio {
				ap.Packetize(c10ToFrame(f))
			} else {
				vp.Packetize(c10ToFrame(f))
			}
		}, tap)
		return
	}
	done := make(chan struct{})
	n := len(o.frames)
	tap.after = func() {
		if o.closed {
			return
		}
		o.fed++
		o.afterFrame()
		if o.fed == n {
			close(done)
		}
	}
	mux, err := mpegts.NewMuxer(vmeta, ameta, tap, xlog.L())
	if err != nil {
		c.Inconclusive("NewMuxer: " + err.Error())
		return
	}
	for i := range o.frames {
		mux.WriteFrame(c10ToFrame(&o.frames[i]))
	}
	select {
	case <-done:
	case <-time.After(180 * time.Second):
		c.Inconclusive("muxer did not consume all frames within 180 s")
		mux.Close()
		return
	}
	// the muxer goroutine is parked in Pop now: everything below happens-after its last frame
	o.readHeld(true)
	finish()
	o.closed = true
	// same order as media.Stream.close
	mux.Close()
	sg.Close()
	pl.Close()
	vp := mpegts.NewH264Packetizer(vmeta, tap)
	ap := mpegts.NewAacPacketizer(ameta, tap)
	o.afterClose(func(f *c10Frame) {
		if f.Audio {
			ap.Packetize(c10ToFrame(f))
		} else {
			vp.Packetize(c10ToFrame(f))
		}
	}, tap)
}

// afterClose: storage is released; frames still draining out of the muxer queue after Close are harmless.
func (o *c10Obs) afterClose(write func(f *c10Frame), tap *c10Tap) {
	o.closed = true
	if o.dir != "" {
		if fs := o.tsFiles(); len(fs) != 0 {
			o.viol("C10:storage:files-left-after-close:disk", map[string]interface{}{"files": fs})
		} else {
			o.c.Count("disk_empty_after_close", 1)
		}
	}
	if _, err, _ := c10SafeM3u8(o.pl, ""); err == nil {
		o.c.Count("m3u8_served_after_close_unjudged", 1)
	}
	if o.lastLast > 0 {
		if r, _, err, _ := c10SafeSegment(o.pl, o.lastLast); err == nil {
			c10CloseReader(r)
			o.viol("C10:storage:segment-still-served-after-close:"+o.cs.Mode, map[string]interface{}{"seq": o.lastLast})
		}
	}
	if write == nil {
		return
	}
	// late frames (the muxer goroutine may still be draining its queue when the stream closes)
	before := len(tap.pan)
	tap.after = nil
	late := []c10Frame{{Nal: 5, PtsNs: o.frames[len(o.frames)-1].PtsNs + 60_000_000_000, Key: true}, {Audio: true, PtsNs: o.frames[len(o.frames)-1].PtsNs + 60_000_000_000}}
	late[0].data = c10Payload(false, 5, 1, 64)
	late[1].data = c10Payload(true, 0, 2, 64)
	for i := range late {
		write(&late[i])
		write(&late[i])
	}
	for _, s := range tap.pan[before:] {
		o.viol("C10:panic:frame-after-close:"+s, map[string]interface{}{})
	}
	if o.dir != "" {
		if fs := o.tsFiles(); len(fs) != 0 {
			o.viol("C10:storage:files-created-by-frames-after-close:disk", map[string]interface{}{"files": fs})
		}
	}
	o.c.Count("late_frames_after_close_written", int64(2*len(late)))
}

// --- media.Stream path -----------------------------------------------------------------------------------------

type c10MuxCounter struct {
	mu    sync.Mutex
	pops  map[interface{}]*int64
	exits map[interface{}]bool
	order []interface{}
}

var c10Mux = &c10MuxCounter{pops: map[interface{}]*int64{}, exits: map[interface{}]bool{}}
var c10HooksOnce sync.Once

func c10InstallHooks() {
	c10HooksOnce.Do(func() {
		kit.InstallHooks()
		kit.H.On("tsmuxer.beforePop", nil, func(_ string, a []interface{}) {
			if len(a) == 0 {
				return
			}
			c10Mux.mu.Lock()
			p := c10Mux.pops[a[0]]
			if p == nil {
				p = new(int64)
				c10Mux.pops[a[0]] = p
				c10Mux.order = append(c10Mux.order, a[0])
			}
			c10Mux.mu.Unlock()
			atomic.AddInt64(p, 1)
		})
		kit.H.On("tsmuxer.exit", nil, func(_ string, a []interface{}) {
			if len(a) == 0 {
				return
			}
			c10Mux.mu.Lock()
			c10Mux.exits[a[0]] = true
			c10Mux.mu.Unlock()
		})
	})
}

func (m *c10MuxCounter) known() int {
	m.mu.Lock()
	defer m.mu.Unlock()
	return len(m.order)
}

// newest returns the counter of the muxer that appeared after `before` muxers were known.
func (m *c10MuxCounter) newest(before int) (interface{}, *int64) {
	m.mu.Lock()
	defer m.mu.Unlock()
	if len(m.order) <= before {
		return nil, nil
	}
	k := m.order[before]
	return k, m.pops[k]
}

func (m *c10MuxCounter) exited(k interface{}) bool {
	m.mu.Lock()
	defer m.mu.Unlock()
	return m.exits[k]
}

func (m *c10MuxCounter) forget(k interface{}) {
	// keep order (indices are used as epochs) but drop the counters' map entries
	m.mu.Lock()
	delete(m.exits, k)
	m.mu.Unlock()
}

func c10WaitUntil(d time.Duration, cond func() bool) bool {
	dl := time.Now().Add(d)
	for i := 0; ; i++ {
		if cond() {
			return true
		}
		if i < 200 {
			runtime.Gosched()
			continue
		}
		if time.Now().After(dl) {
			return false
		}
		time.Sleep(20 * time.Microsecond)
	}
}

func c10SDPParamSets() (sps, pps []byte) {
	const key = "sprop-parameter-sets="
	s := kit.SDPH264AAC
	i := strings.Index(s, key)
	s = s[i+len(key):]
	j := strings.IndexAny(s, "; \r\n")
	parts := strings.Split(s[:j], ",")
	sps, _ = base64.StdEncoding.DecodeString(parts[0])
	pps, _ = base64.StdEncoding.DecodeString(parts[1])
	return
}

func c10DriveStream(c *kit.Ctx, o *c10Obs) {
	cs := o.cs
	c10InstallHooks()
	config.VerifSet(false, false, o.dir, cs.F)
	o.sps, o.pps = c10SDPParamSets()
	before := c10Mux.known()
	s := media.NewStream(fmt.Sprintf("/c10/s%d", atomic.AddInt64(&c10PathSeq, 1)), kit.SDPH264AAC)
	h := s.Hlsable()
	if h == nil {
		c.Inconclusive("media.Stream has no HLS capability")
		s.Close()
		return
	}
	o.pl = h
	o.path = s.Path()
	var key interface{}
	var pops *int64
	if !c10WaitUntil(20*time.Second, func() bool { key, pops = c10Mux.newest(before); return pops != nil }) {
		c.Inconclusive("ts muxer goroutine of the stream did not start within 20 s")
		s.Close()
		return
	}
	for i := range o.frames {
		s.WriteFrame(c10ToFrame(&o.frames[i]))
		want := int64(i + 2) // one beforePop before the first frame + one after each consumed frame
		if !c10WaitUntil(60*time.Second, func() bool { return atomic.LoadInt64(pops) >= want }) {
			if kit.Log.NPanics() > 0 {
				return // reported by the caller
			}
			c.Inconclusive("stream ts muxer did not consume a frame within 60 s")
			s.Close()
			return
		}
		o.fed++
		o.afterFrame()
	}
	o.readHeld(true)
	s.Close()
	if !c10WaitUntil(20*time.Second, func() bool { return c10Mux.exited(key) }) {
		c.Inconclusive("ts muxer goroutine did not exit within 20 s after Stream.Close")
		return
	}
	c10Mux.forget(key)
	o.afterClose(nil, nil)
}

// ------------------------------------------------------------------------------------------------------------
// case list

type c10Lister struct {
	c     *kit.Ctx
	index int
}

func (l *c10Lister) add(cs c10Case) {
	i := l.index
	l.index++
	if !l.c.Mine(i) {
		return
	}
	cs.Index = i
	if only := os.Getenv("VERIF_C10_ONLY"); only != "" && only != fmt.Sprint(i) { // debugging aid: run one case of the list
		return
	}
	if cs.PS < 0 || cs.PS > 1 {
		cs.PS = 0
	}
	if (cs.Path == "stream" || cs.Path == "service") && cs.F < 5 {
		cs.F = 5
	}
	c10RunCase(l.c, &cs)
}

// c10Dur: enough media for about nseg segments.
func c10Dur(F int, gops []int, audio string, nseg int) int64 {
	g := 0
	for _, x := range gops {
		if x > g {
			g = x
		}
	}
	gopMs := int64(g) * 40
	segMs := int64(F) * 1000
	if gopMs > segMs {
		segMs = gopMs
		if audio != "none" && gopMs >= 2*int64(F)*1000 {
			segMs = 2 * int64(F) * 1000
		}
	} else if gopMs > 0 {
		segMs = (segMs + gopMs - 1) / gopMs * gopMs
	}
	return segMs*int64(nseg) + 400
}

func runC10(c *kit.Ctx) {
	c10TwinStreams(c)
	l := &c10Lister{c: c}
	paths := []string{"sync", "muxer"}
	modes := []string{"memory", "disk"}
	n := 0
	tokFor := func(i int) string {
		if i%3 == 2 {
			return ""
		}
		return fmt.Sprintf("tok-%d.A_z", i)
	}

	// (1) grid: fragment x GOP length (relative to the fragment) x audio x storage mode
	frs := []int{1, 2, 3, 5, 10}
	if !c.Thorough() {
		frs = []int{1, 2, 5}
	}
	for _, F := range frs {
		fr := F * 25
		gl := []int{1, 2, 5, fr / 2, fr - 1, fr, fr + 1, fr * 3 / 2, 2 * fr, 2*fr + 1, 3 * fr}
		if !c.Thorough() && F >= 5 {
			gl = []int{fr / 2, fr + 1, 2*fr + 1}
		}
		for _, g := range gl {
			for _, audio := range []string{"none", "cont"} {
				for mi, mode := range modes {
					n++
					nseg := c.Pick(7, 9)
					if F >= 5 {
						nseg = c.Pick(6, 7)
					}
					l.add(c10Case{Family: "grid", Path: paths[(n+mi)%2], Mode: mode, F: F, Gops: []int{g}, Audio: audio,
						DurMs: c10Dur(F, []int{g}, audio, nseg), Token: tokFor(n), PS: n % 2})
				}
			}
		}
	}

	// (2) first PTS: the stream does not start at PTS 0 (RTP timestamps start at a random value)
	for _, F := range []int{1, 5} {
		f := int64(F) * 1000
		t0s := []int64{0, 500, f - 100, f, 2*f - 100, 2 * f, 2*f + 1000, 1_000_000, 40_000_000}
		if !c.Thorough() && F == 5 {
			t0s = []int64{f, 2 * f, 40_000_000}
		}
		for _, t0 := range t0s {
			for _, audio := range []string{"none", "cont"} {
				n++
				g := []int{F * 25 / 2}
				l.add(c10Case{Family: "t0", Path: paths[n%2], Mode: modes[(n/2)%2], F: F, Gops: g, Audio: audio, T0Ms: t0,
					DurMs: c10Dur(F, g, audio, c.Pick(6, 8)), Token: tokFor(n), PS: n % 2})
			}
		}
	}

	// (3) audio-only gaps: video stops (mid-GOP or at a GOP end) while audio continues, then resumes
	gfs := []int{1, 2, 5}
	if !c.Thorough() {
		gfs = []int{1, 2}
	}
	for _, F := range gfs {
		f := int64(F) * 1000
		for _, glen := range []int64{f / 2, f, 2 * f, 2*f + 1000, 5 * f} {
			for ai, at := range []int64{2*f + 440, 3 * f} {
				for _, rk := range []bool{true, false} {
					if !c.Thorough() && F == 2 && ai == 1 {
						continue
					}
					n++
					g := []int{F * 25 / 2}
					l.add(c10Case{Family: "gap", Path: paths[n%2], Mode: modes[(n/2)%2], F: F, Gops: g, Audio: "cont", VGaps: [][2]int64{{at, glen}},
						ResumeKey: rk, DurMs: at + glen + 6*f + 400, Token: tokFor(n)})
				}
			}
		}
	}
	// video before audio starts / audio arriving late or early relative to video
	for _, F := range []int{1, 2} {
		for _, skew := range []int64{-80, 80, 250} {
			for _, audio := range []string{"cont", "late"} {
				n++
				g := []int{F * 25, F*25/2 + 3}
				l.add(c10Case{Family: "skew", Path: paths[n%2], Mode: modes[n%2], F: F, Gops: g, Audio: audio, SkewMs: skew,
					DurMs: c10Dur(F, g, audio, 8), Token: tokFor(n)})
			}
		}
	}

	// (4) in-band SPS/PPS/SEI frames, stream starting without a key frame, varying GOP lengths
	for _, F := range []int{1, 2} {
		for ib := 1; ib <= 2; ib++ {
			for _, head := range []int{0, 7} {
				for _, audio := range []string{"none", "cont"} {
					n++
					g := []int{F * 25 / 3, F * 25, F*25 + 9, 2}
					l.add(c10Case{Family: "inband", Path: paths[n%2], Mode: modes[(n/2)%2], F: F, Gops: g, Audio: audio, Inband: ib, NoKeyHead: head,
						DurMs: c10Dur(F, g, audio, 9), Token: tokFor(n), PS: n % 2})
				}
			}
		}
	}

	// (5) through media.Stream (fragment >= 5 s enforced by config), memory and disk
	sgops := [][]int{{25}, {2}, {125}, {126, 60}, {190}, {250}, {375}}
	if !c.Thorough() {
		sgops = [][]int{{25}, {126, 60}, {250}}
	}
	for _, g := range sgops {
		for _, audio := range []string{"none", "cont"} {
			for _, mode := range modes {
				n++
				F := 5
				if c.Thorough() && n%5 == 0 {
					F = 7
				}
				l.add(c10Case{Family: "stream", Path: "stream", Mode: mode, F: F, Gops: g, Audio: audio, DurMs: c10Dur(F, g, audio, 6), Token: tokFor(n),
					T0Ms: []int64{0, 500, 3000}[n%3]})
			}
		}
	}

	// (5b) through the real HTTP service in front of a registered stream (c10_service.go)
	for gi, g := range sgops {
		for ai, audio := range []string{"none", "cont"} {
			for mi, mode := range modes {
				n++
				if !c.Thorough() && (gi+ai+mi)%2 == 1 {
					continue
				}
				l.add(c10Case{Family: "service", Path: "service", Mode: mode, F: 5, Gops: g, Audio: audio, DurMs: c10Dur(5, g, audio, 6), Token: tokFor(n),
					T0Ms: []int64{0, 500, 3000}[n%3], Inband: []int{0, 1}[gi%2]})
			}
		}
	}

	// (6) random combinations
	nr := c.Pick(32, 750)
	for ri := 0; ri < nr; ri++ {
		if !c.Mine(l.index) {
			l.index++
			continue
		}
		rng := c.SubRng("c10rand", ri)
		F := 1 + rng.Intn(3)
		if rng.Intn(6) == 0 {
			F = 4 + rng.Intn(7)
		}
		fr := F * 25
		var g []int
		for k := 1 + rng.Intn(3); k > 0; k-- {
			switch rng.Intn(6) {
			case 0:
				g = append(g, 1+rng.Intn(3))
			case 1:
				g = append(g, 2*fr+rng.Intn(fr))
			case 2:
				g = append(g, fr-1+rng.Intn(3))
			default:
				g = append(g, 3+rng.Intn(2*fr))
			}
		}
		cs := c10Case{Family: "random", Path: paths[rng.Intn(2)], Mode: modes[rng.Intn(2)], F: F, Gops: g,
			Audio: []string{"none", "cont", "cont", "late"}[rng.Intn(4)], SkewMs: []int64{0, 0, -60, 120}[rng.Intn(4)],
			T0Ms: []int64{0, 0, 300, int64(F) * 1000, int64(F)*2000 + 40, 5_000_000}[rng.Intn(6)], Inband: []int{0, 0, 1, 2}[rng.Intn(4)],
			ResumeKey: rng.Intn(4) != 0, Token: tokFor(rng.Intn(9)), PS: rng.Intn(2)}
		if rng.Intn(5) == 0 {
			cs.NoKeyHead = 1 + rng.Intn(30)
		}
		nseg := 7 + rng.Intn(4)
		if F >= 4 {
			nseg = 6
			if rng.Intn(3) == 0 {
				cs.Path = "stream"
			}
		}
		cs.DurMs = c10Dur(F, g, cs.Audio, nseg)
		if cs.Audio != "none" && rng.Intn(3) == 0 {
			at := int64(F)*1000 + int64(rng.Intn(3*F*1000))
			cs.VGaps = [][2]int64{{at, 200 + int64(rng.Intn(3*F*1000))}}
			cs.DurMs += cs.VGaps[0][1]
		}
		l.add(cs)
	}

	// (7) directed schedules and real concurrency (c10_conc.go)
	c10Concurrent(c, l)

	c.Note("case_list", fmt.Sprintf("%d cases in the list (this shard runs index %% %d == %d)", l.index, c.NShards, c.Shard))
	c.Note("unjudged", "EXTINF accuracy against the media span (first segment counts from PTS 0); TARGETDURATION changing between playlists; "+
		"#EXT-X-DISCONTINUITY placement; tokens needing URL escaping; PTS values inside the segments (C09); segment start when the source itself resumes without a key frame; "+
		"M3u8 after Close")
}
