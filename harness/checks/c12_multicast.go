package checks

import (
	"fmt"
	"strings"
	"time"

	"verifharness/kit"
)

// C12 over the multicast transport: players that SETUP RTP/AVP;multicast share one proxy object per published stream,
// which is started by the first member and stopped by the last. Members come strictly one after another (each is the
// first and the last member of its group), leaving by TEARDOWN or by disconnecting; after each one "whatever the
// session held" must be released: the stream's consumer count and the connection counter are back where they were.
// (Shard 0 only: multicast groups are allocated from a per-process counter.)

func c12Multicast(c *kit.Ctx, env *c12env) {
	base := env.srv.URL(env.srcPath)
	before := env.src.ConsumerCount()
	rounds := c.Pick(4, 30)
	for k := 0; k < rounds; k++ {
		how := []string{"teardown", "disconnect"}[k%2]
		c.Pre(fmt.Sprintf("C12 multicast member %d leaves by %s", k, how))
		detail := map[string]interface{}{"transport": "multicast", "member": k, "leaves_by": how}
		cl, err := kit.DialRTSP(env.srv.Addr)
		if err != nil {
			c.Inconclusive("multicast: dial: " + err.Error())
			return
		}
		fail := func(sig string) { c.Violation("C12:"+sig+":multicast", detail) }
		steps := []struct {
			m, u string
			h    map[string]string
		}{
			{"DESCRIBE", base, nil},
			{"SETUP", base + "/streamid=0", map[string]string{"Transport": "RTP/AVP;multicast"}},
			{"PLAY", base, nil},
		}
		ok := true
		for _, s := range steps {
			r, err := cl.Do(s.m, s.u, s.h, "")
			if err != nil {
				c.Inconclusive("multicast: " + s.m + ": " + err.Error())
				ok = false
				break
			}
			if r.Code != 200 {
				detail["status"] = r.Code
				fail("refused-what-automaton-allows:" + s.m)
				ok = false
				break
			}
			if s.m == "SETUP" && !strings.Contains(r.Get("Transport"), "destination=") {
				detail["transport_header"] = r.Get("Transport")
				fail("setup-reply-without-multicast-destination")
			}
		}
		if ok {
			if !waitUntil(func() bool { return env.src.ConsumerCount() == before+1 }, 5*time.Second) {
				detail["consumers"], detail["want"] = env.src.ConsumerCount(), before+1
				fail("play-succeeded-but-proxy-not-attached")
			}
			if how == "teardown" {
				if r, err := cl.Do("TEARDOWN", base, nil, ""); err != nil || r.Code != 200 {
					c.Inconclusive(fmt.Sprintf("multicast: TEARDOWN: %v", err))
				}
			}
		}
		cl.Close()
		c.Eval(1)
		c.Distinct("multicast/" + how)
		if !waitUntil(func() bool {
			return env.src.ConsumerCount() == before && kit.Snapshot().Rtsp == env.baseline.Rtsp
		}, 8*time.Second) {
			detail["consumers"], detail["want"] = env.src.ConsumerCount(), before
			detail["counters"] = kit.Snapshot().String()
			if env.src.ConsumerCount() != before {
				fail("release:consumer-left-attached")
			} else {
				fail("release:connection-counter-not-restored")
			}
			return
		}
		c.SetAdd("multicast_members_released", how)
	}
}
