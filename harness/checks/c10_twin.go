package checks

import (
	"bytes"
	"fmt"
	"os"
	"regexp"
	"strconv"

	"verifharness/kit"

	"github.com/cnotch/ipchub/av/codec"
	"github.com/cnotch/ipchub/av/format/hls"
	"github.com/cnotch/ipchub/av/format/mpegts"
	"github.com/cnotch/xlog"
)

// C10 with more than one live stream: every other case drives one stream in its own directory, but a server keeps the
// segment files of ALL its streams in one directory (config hlspath). Two to three streams live at the same time in
// disk mode in one directory - paths that share the last element (/floor1/cam, /floor2/cam), a path that is a prefix of
// another, paths differing in one character - fed in lockstep with the same timing but disjoint frame ids. Whatever a
// stream's playlist lists must resolve, through that stream, to a transport stream holding exactly that stream's frames
// (contiguous ids, its own id range), while the other streams roll over and when one of them is closed; the directory
// holds the listed segments of each stream plus at most one in progress each.

var c10twURI = regexp.MustCompile(`(?m)^[^#\s][^\s]*?/(\d+)\.ts(\?[^\s]*)?$`)

type c10twStream struct {
	path   string
	base   int // id range [base, base+100000)
	pl     *hls.Playlist
	sg     *hls.SegmentGenerator
	vp     mpegts.Packetizer
	closed bool
	lastID map[int]int // sequence number -> last id of that segment (contiguity across segments)
}

func c10TwinStreams(c *kit.Ctx) {
	families := [][]string{
		{"/floor1/cam", "/floor2/cam"},
		{"/c10tw/a/cam", "/c10tw/b/cam", "/c10tw/cam"},
		{"/site/cam", "/site/cam/sub"},
		{"/cam1", "/cam2"},
	}
	rounds := c.Pick(len(families), 4*len(families))
	for ri := 0; ri < rounds; ri++ {
		if !c.Mine(ri) {
			continue
		}
		paths := families[ri%len(families)]
		dir, err := os.MkdirTemp("/var/tmp", "c10-twin-")
		if err != nil {
			c.Inconclusive("twin streams: cannot create temp dir: " + err.Error())
			return
		}
		ps := ri % len(c10ParamSets)
		sps, pps := c10ParamSets[ps][0], c10ParamSets[ps][1]
		fragment := 1 + ri%2
		scen := fmt.Sprintf("twin-streams/%v/fragment=%d", paths, fragment)
		c.Pre("C10 " + scen)
		var streams []*c10twStream
		ok := true
		for k, p := range paths {
			vmeta, _ := c10Metas(ps)
			st := &c10twStream{path: fmt.Sprintf("%s", p), base: (k + 1) * 100000, pl: hls.NewPlaylist(), lastID: map[int]int{}}
			st.sg, err = hls.NewSegmentGenerator(st.pl, st.path, fragment, dir, 44100, xlog.L())
			if err != nil {
				c.Inconclusive("twin streams: NewSegmentGenerator: " + err.Error())
				ok = false
				break
			}
			st.vp = mpegts.NewH264Packetizer(vmeta, st.sg)
			streams = append(streams, st)
		}
		nviol := 0
		viol := func(sig string, d map[string]interface{}) {
			d["scenario"] = scen
			nviol++
			c.Violation(sig, d)
		}
		// judge: everything a stream's playlist lists resolves to that stream's own frames
		judge := func(st *c10twStream, when string) {
			m3, err := st.pl.M3u8("")
			if err != nil {
				return // not yet available (fewer than the minimum number of complete segments)
			}
			for _, m := range c10twURI.FindAllSubmatch(m3, -1) {
				seq, _ := strconv.Atoi(string(m[1]))
				rd, _, err := st.pl.Segment(seq)
				if err != nil {
					viol("C10:twin-streams:listed-segment-does-not-resolve", map[string]interface{}{"stream": st.path, "seq": seq, "when": when, "err": err.Error()})
					continue
				}
				var scratch []byte
				data, rerr := c10ReadInto(rd, &scratch, 0)
				c10CloseReader(rd)
				if rerr != nil {
					viol("C10:twin-streams:listed-segment-unreadable", map[string]interface{}{"stream": st.path, "seq": seq, "when": when, "err": rerr.Error()})
					continue
				}
				c.Count("twin_stream_segments_fetched_and_demultiplexed", 1)
				res := kit.DemuxTS(data)
				for _, e := range res.Errors {
					viol("C10:twin-streams:segment-ts:"+e.Code, map[string]interface{}{"stream": st.path, "seq": seq, "when": when, "error": e.String()})
					break
				}
				vpid := res.PIDOfStreamType(0x1b)
				if vpid < 0 {
					viol("C10:twin-streams:segment-without-video", map[string]interface{}{"stream": st.path, "seq": seq, "when": when})
					continue
				}
				prev, n := -1, 0
				for _, p := range res.PESOf(vpid) {
					units, _ := kit.SplitAnnexBDetailed(p.Data)
					for _, u := range units {
						d := u.Data
						if len(d) == 0 {
							continue
						}
						t := int(d[0] & 0x1f)
						if t == 9 || t == 7 && bytes.Equal(d, sps) || t == 8 && bytes.Equal(d, pps) {
							continue
						}
						id, good := c10DecodeID(d, false)
						if !good || id < st.base || id >= st.base+100000 || !bytes.Equal(d, c10Payload(false, t, id, len(d))) {
							viol("C10:twin-streams:segment-holds-frames-that-are-not-this-streams", map[string]interface{}{"stream": st.path, "seq": seq,
								"when": when, "decoded_id": id, "own_id_range": []int{st.base, st.base + 100000}, "nal": c09Hex(d, 24)})
							prev = -2
							break
						}
						if prev >= 0 && id != prev+1 {
							viol("C10:twin-streams:segment-frames-not-contiguous", map[string]interface{}{"stream": st.path, "seq": seq, "when": when, "id": id, "after": prev})
						}
						prev = id
						n++
					}
					if prev == -2 {
						break
					}
				}
				if prev >= 0 {
					if l, seen := st.lastID[seq]; seen && l != prev {
						viol("C10:twin-streams:listed-segment-changed-between-two-fetches", map[string]interface{}{"stream": st.path, "seq": seq, "when": when, "last_id_before": l, "last_id_now": prev})
					}
					st.lastID[seq] = prev
					if l, seen := st.lastID[seq-1]; seen && prev-n != l {
						viol("C10:twin-streams:segment-does-not-continue-its-predecessor", map[string]interface{}{"stream": st.path, "seq": seq, "when": when, "first_id": prev - n + 1, "predecessor_last_id": l})
					}
				}
			}
		}
		files := func(when string) {
			ents, _ := os.ReadDir(dir)
			n, live := 0, 0
			for _, e := range ents {
				if !e.IsDir() {
					n++
				}
			}
			for _, st := range streams {
				if !st.closed {
					live++
				}
			}
			c.SetAdd("twin_stream_files_in_shared_directory", fmt.Sprint(n))
			if n > live*(c10Window+2) { // same bound as the single-stream cases, per live stream
				viol("C10:twin-streams:more-files-than-the-live-streams-windows", map[string]interface{}{"files": n, "live_streams": live, "when": when})
			}
		}
		if ok {
			// 25 fps, key frame every second, 14 s: several rollovers with fragment 1 and 2
			total := 14 * 25
			for i := 0; i < total && nviol == 0; i++ {
				for k, st := range streams {
					if st.closed {
						continue
					}
					t := 1
					if i%25 == 0 {
						t = 5
					}
					id := st.base + i
					pts := int64(i) * 40_000_000
					st.vp.Packetize(&codec.Frame{MediaType: codec.MediaTypeVideo, Dts: pts, Pts: pts, Payload: c10Payload(false, t, id, 200+(i*37+k*11)%900)})
				}
				if i%25 == 24 {
					when := fmt.Sprintf("after %d frames per stream", i+1)
					for _, st := range streams {
						if !st.closed {
							judge(st, when)
						}
					}
					files(when)
				}
				if i == total*2/3 { // one stream ends while the others go on
					st := streams[0]
					st.sg.Close()
					st.pl.Close()
					st.closed = true
					c.Count("twin_stream_closed_while_others_live", 1)
				}
			}
			c.Eval(1)
			c.Distinct(scen)
		}
		for _, st := range streams {
			if !st.closed {
				st.sg.Close()
				st.pl.Close()
				st.closed = true
			}
		}
		if ok && nviol == 0 {
			ents, _ := os.ReadDir(dir)
			if len(ents) != 0 {
				var names []string
				for _, e := range ents {
					names = append(names, e.Name())
				}
				viol("C10:twin-streams:files-left-after-every-stream-closed", map[string]interface{}{"files": names})
			}
		}
		os.RemoveAll(dir)
	}
}
