package checks

import (
	"encoding/binary"
	"fmt"
	"sync"
	"time"

	"verifharness/kit"

	"github.com/cnotch/ipchub/av/format"
	"github.com/cnotch/ipchub/av/format/flv"
	"github.com/cnotch/ipchub/config"
	"github.com/cnotch/ipchub/media"
)

// C02, FLV through the real pipeline: RTP in, FLV tags out of the stream's own depacketiser and FLV muxer (the forced
// orderings in c02.go hand-build their tags, so the muxer's own key-frame classification is not on their path).
// H.265 streams whose random-access pictures are IDR, BLA or CRA (open GOP); with cache_gop on, a late FLV joiner's
// replay must start - after the headers - at the MOST RECENT random-access picture and must be flagged as a key frame.

type c02tagRec struct {
	mu   sync.Mutex
	tags []flv.Tag
}

func (r *c02tagRec) Consume(p format.Packet) {
	if t, ok := p.(*flv.Tag); ok {
		cp := *t
		cp.Data = append([]byte(nil), t.Data...)
		r.mu.Lock()
		r.tags = append(r.tags, cp)
		r.mu.Unlock()
	}
}
func (r *c02tagRec) Close() error { return nil }
func (r *c02tagRec) snapshot() []flv.Tag {
	r.mu.Lock()
	defer r.mu.Unlock()
	return append([]flv.Tag(nil), r.tags...)
}

// c02VideoID returns the id carried by the NAL unit of an H.265 FLV video tag (0,false for headers / non-video).
func c02VideoID(t *flv.Tag) (id uint64, key bool, ok bool) {
	if t.TagType != flv.TagTypeVideo || len(t.Data) < 9+2+12 || t.Data[1] != 1 {
		return 0, false, false
	}
	n := int(binary.BigEndian.Uint32(t.Data[5:9]))
	if 9+n > len(t.Data) || n < 14 {
		return 0, false, false
	}
	id, good := kit.CheckBody(t.Data[9+2 : 9+n])
	return id, t.Data[0]>>4 == 1, good
}

func c02FlvPipeline(c *kit.Ctx) {
	rounds := c.Pick(6, 60)
	for ri := 0; ri < rounds; ri++ {
		if !c.Mine(ri) {
			continue
		}
		rng := c.SubRng("c02flvpipe", ri)
		config.VerifSet(false, true, "", 5)
		s := media.NewStream(fmt.Sprintf("/c02fp/s%d/%d", c.Shard, ri), kit.SDPH265AAC)
		early := &c02tagRec{}
		s.StartConsume(early, media.FLVPacket, "early")
		// pictures: random-access picture types in a PRNG order, each followed by 2-4 trailing pictures
		rapTypes := []byte{19, 21, 16, 21, 20, 21, 17, 21}
		var id uint64 = uint64(ri)<<20 + 1
		seq, ts := uint16(rng.Intn(60000)), uint32(rng.Intn(1<<30))
		lastKey := uint64(0)
		var lastKeyType byte
		type join struct {
			rec      *c02tagRec
			wantKey  uint64
			wantType byte
			after    int
		}
		var joins []join
		sent := 0
		send := func(typ byte) uint64 {
			id++
			p := kit.MakeRTP(kit.ChVideo, 96, true, seq, ts, 0x2222, kit.H265NAL(typ, 1, 60+rng.Intn(200), id))
			seq++
			ts += 3000
			s.WriteRtpPacket(p)
			sent++
			return id
		}
		nGops := 3 + rng.Intn(4)
		scen := ""
		for g := 0; g < nGops; g++ {
			t := rapTypes[(ri+g)%len(rapTypes)]
			if g == 0 && ri%3 == 0 {
				t = 21 // the stream is picked up at a CRA: no IDR at all
			}
			scen += fmt.Sprintf("%d,", t)
			lastKey, lastKeyType = send(t), t
			for k := 0; k < 2+rng.Intn(3); k++ {
				send(1)
			}
			// wait until the early consumer has the FLV tags of everything sent so far, then a late joiner attaches
			want := sent
			if !waitUntil(func() bool {
				n := 0
				for _, tg := range early.snapshot() {
					if _, _, ok := c02VideoID(&tg); ok {
						n++
					}
				}
				return n >= want
			}, 8*time.Second) {
				break
			}
			j := join{rec: &c02tagRec{}, wantKey: lastKey, wantType: lastKeyType, after: sent}
			s.StartConsume(j.rec, media.FLVPacket, "late")
			joins = append(joins, j)
		}
		c.Pre("C02 flv pipeline " + scen)
		c.Eval(1)
		c.Distinct("flv-pipeline/h265/" + scen)
		for _, j := range joins {
			// the replay is delivered by the joiner's own goroutine: wait for its first media tag
			var first *flv.Tag
			waitUntil(func() bool {
				for _, tg := range j.rec.snapshot() {
					tg := tg
					if _, _, ok := c02VideoID(&tg); ok {
						first = &tg
						return true
					}
				}
				return false
			}, 5*time.Second)
			detail := map[string]interface{}{"random_access_picture_types": scen, "joined_after_packets": j.after, "most_recent_key_nal_type": j.wantType}
			if first == nil {
				c.Violation(fmt.Sprintf("C02:flv-pipeline:late-joiner-replayed-no-media:nal-type-%d", j.wantType), detail)
				continue
			}
			got, key, _ := c02VideoID(first)
			c.SetAdd("flv_pipeline_key_picture_types_joined_after", fmt.Sprint(j.wantType))
			if got != j.wantKey {
				detail["first_media_tag_id"], detail["want_id"] = got, j.wantKey
				c.Violation(fmt.Sprintf("C02:flv-pipeline:replay-does-not-start-at-most-recent-key-picture:nal-type-%d", j.wantType), detail)
			} else if !key {
				c.Violation(fmt.Sprintf("C02:flv-pipeline:most-recent-key-picture-not-flagged-key:nal-type-%d", j.wantType), detail)
			}
		}
		s.Close()
	}
}
