package checks

import (
	"fmt"
	"sync"
	"sync/atomic"

	"verifharness/kit"

	"github.com/cnotch/ipchub/provider/route"
)

// C17, concurrent histories: lookups run while the table is edited. A lookup must answer from ONE state of the table.
// The writer cycles through states in each of which the looked-up path resolves, so that the set of admissible answers
// is closed: {exact route's URL, directory route's URL + remainder}. An answer outside that set - nothing, or a URL
// glued together from an exact route and a remainder - is one that no state of the table yields.
//
//	cycle A:  {dir} -> {dir, exact} -> {dir} ...
//	cycle B:  {dir} -> {dir, exact} -> {exact} -> {dir, exact} -> {dir} ...   (never empty)
func c17Concurrent(c *kit.Ctx) {
	rounds := c.Pick(6, 80)
	for ri := 0; ri < rounds; ri++ {
		if !c.Mine(ri) {
			continue
		}
		c17Reset()
		cycle := []string{"A", "B"}[ri%2]
		dir := fmt.Sprintf("/c17c%d/", ri)
		path := dir + "door"
		dirURL := fmt.Sprintf("rtsp://10.0.%d.1:554/nvr", ri%250)
		exactURL := fmt.Sprintf("rtsp://10.0.%d.2:554/door-hd", ri%250)
		admissible := map[string]bool{exactURL: true, dirURL + "/door": true}
		c.Pre(fmt.Sprintf("C17 concurrent cycle %s path %s", cycle, path))
		route.Save(&route.Route{Pattern: dir, URL: dirURL})
		var stop int32
		var wg sync.WaitGroup
		var writes int64
		wg.Add(1)
		go func() {
			defer wg.Done()
			for atomic.LoadInt32(&stop) == 0 {
				route.Save(&route.Route{Pattern: path, URL: exactURL})
				if cycle == "B" {
					route.Del(dir)
					route.Save(&route.Route{Pattern: dir, URL: dirURL})
				}
				route.Del(path)
				atomic.AddInt64(&writes, 4)
			}
		}()
		var mu sync.Mutex
		bads := map[string]int{}
		var sawExact, sawDir int32
		nlook := c.Pick(150000, 1500000)
		readers := 4
		var looked int64
		var rg sync.WaitGroup
		for r := 0; r < readers; r++ {
			rg.Add(1)
			go func() {
				defer rg.Done()
				for i := 0; i < nlook/readers; i++ {
					got := route.Match(path)
					atomic.AddInt64(&looked, 1)
					key := "<nothing>"
					if got != nil {
						key = got.URL
					}
					switch {
					case key == exactURL:
						atomic.StoreInt32(&sawExact, 1)
					case admissible[key]:
						atomic.StoreInt32(&sawDir, 1)
					default:
						mu.Lock()
						bads[key]++
						mu.Unlock()
					}
				}
			}()
		}
		rg.Wait() // readers finish on their own; then the writer is stopped
		atomic.StoreInt32(&stop, 1)
		wg.Wait()
		c.Eval(nlook)
		c.Distinct("concurrent/cycle-" + cycle)
		c.Count("concurrent_lookups", atomic.LoadInt64(&looked))
		c.Count("concurrent_table_edits", atomic.LoadInt64(&writes))
		if atomic.LoadInt32(&sawExact) != 0 {
			c.SetAdd("concurrent_answers_seen", "exact-route")
		}
		if atomic.LoadInt32(&sawDir) != 0 {
			c.SetAdd("concurrent_answers_seen", "directory-route")
		}
		mu.Lock()
		for k, n := range bads {
			cls := "glued-url"
			if k == "<nothing>" {
				cls = "nothing-although-every-state-resolves"
			}
			c.Violation("C17:concurrent:answer-that-no-table-state-yields:"+cls, map[string]interface{}{
				"cycle": cycle, "path": path, "answer": k, "count": n, "admissible": []string{exactURL, dirURL + "/door"}})
		}
		mu.Unlock()
	}
	c17Reset()
}
