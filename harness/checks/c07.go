package checks

import (
	"fmt"
	"runtime"
	"sort"
	"strings"

	"verifharness/kit"

	"github.com/cnotch/ipchub/av/format/rtp"
	"github.com/cnotch/ipchub/config"
	"github.com/cnotch/ipchub/media"
	"github.com/cnotch/xlog"
)

// C07 — malformed media input is contained and never stops conversion of later good data.
//
// Library level, through media.Stream exactly as the RTSP session drives it (WriteRtpPacket on the
// publisher's goroutine; one RTP consumer; one FLV consumer owning a flv.Writer like service/flv/httpflv.go;
// the TS/HLS pipeline observed through its converter goroutine).
//
// Workload (fault enumeration): a fixed valid stream of uniquely identifiable units per codec
// (H.264+AAC, H.265+AAC); ONE hostile item (c07_gen.go: every truncation, single-byte corruptions, bad
// aggregation sizes, bad AU headers, RTCP of every length, broken FU protocols, reserved NAL types, garbage)
// injected first / in the middle / last, once or twice in a row; a bystander stream in the same process.
//
// Oracle (differential against a control run of the same valid packets without the injection):
//
//	(a) the RTP consumer receives every valid packet published after the injection,
//	(b) the FLV consumer's byte stream, read back with kit.ReadFLV, contains every valid unit published
//	    after the injection that the control run's FLV contains (the damaged unit itself is not judged),
//	(c) the TS muxer goroutine is alive and consumed as many frames after the injection as in the control,
//	(d) the bystander's consumers got everything and its converters are alive,
//	(e) no converter goroutine of the stream left the hook ledger while the stream is open,
//	(f) no converter goroutine is stuck; no lock is left held (attach after a publisher panic),
//	(g) WriteRtpPacket does not panic on the publisher's goroutine.
//
// One root cause = one signature: a converter killed by a panic is reported once as
// "C07:converter-dead-after-panic:<pipeline>:<panic site>" with its consequences (FLV / HLS output stopped)
// in the witness; "flv-output-stops" / "hls-output-stops" are used only when no dead converter explains them.
//
// Service level (c07_service.go): hostile interleaved frames on a real RECORD session (oversized RTP, RTP shorter than
// its header, zero-length frames, RTCP garbage, unknown channels) with real players attached and a bystander stream.

func init() { kit.Register("C07", runC07) }

type c07Control struct {
	flvIDs  map[uint64]bool
	popsAt  [4]map[string]int // converter pops after seg boundary k (0 = before anything)
	rtpN    int
	flvTags int
}

type c07Harness struct {
	c    *kit.Ctx
	l    *c07Ledger
	sink *c07Sink
	ctl  map[string]*c07Control
	val  map[string]*c07valid

	lockProbes int
	sampled    int
}

var c07PosNames = []string{"first", "middle", "last"}

type c07Case struct {
	codec string
	inj   c07inj
	pos   int
	mult  int
}

func runC07(c *kit.Ctx) {
	// The 16 shards are separate processes; inside one shard a single P removes the cross-thread wake-up
	// latency between publisher, converters and consumers (10x faster) and changes no verdict: every
	// decision below is taken on quiescent state.
	defer runtime.GOMAXPROCS(runtime.GOMAXPROCS(1))
	kit.InstallHooks()
	sink := &c07Sink{}
	xlog.ReplaceGlobal(xlog.New(sink)) // tee: kit.Log still sees every entry
	config.VerifSet(false, false, "", 5)
	h := &c07Harness{c: c, l: newC07Ledger(), sink: sink, ctl: map[string]*c07Control{}, val: map[string]*c07valid{}}
	defer h.l.close()

	codecs := []string{"H264", "H265"}
	for _, codec := range codecs {
		h.val[codec] = c07ValidStream(codec, c07IDBase)
		if !h.control(codec) {
			return
		}
	}

	// ---- case list (fixed by seed + tier; split between shards by index)
	var cases []c07Case
	for _, codec := range codecs {
		muts := c07Mutations(c, codec, c.Thorough())
		for i, m := range muts {
			if c.Thorough() {
				for pos := 0; pos < 3; pos++ {
					for mult := 1; mult <= 2; mult++ {
						cases = append(cases, c07Case{codec, m, pos, mult})
					}
				}
			} else {
				// quick: every mutation once single and once doubled, positions rotating
				cases = append(cases, c07Case{codec, m, i % 3, 1}, c07Case{codec, m, (i + 1) % 3, 2})
			}
		}
	}
	c.Note("cases_total", len(cases))
	c.Note("watchdog_s", c07Watch.Seconds())
	for i, cs := range cases {
		if !c.Mine(i) {
			continue
		}
		h.runCase(i, cs)
	}
	c.Count("goroutine_profiles_taken", c07Dumps)
	c07ServiceLevel(c)
}

// send publishes protos on st; false after a publisher panic.
func (h *c07Harness) send(st *c07Stream, ps []c07proto, sentPk *[]*rtp.Packet, sentPr *[]c07proto) bool {
	for i := range ps {
		pkt := st.materialise(&ps[i])
		ok := st.write(pkt)
		*sentPk = append(*sentPk, pkt)
		*sentPr = append(*sentPr, ps[i])
		if !ok && st.pubPanic != nil {
			return false
		}
	}
	return true
}

func (h *c07Harness) popSnap(st *c07Stream) map[string]int {
	m := map[string]int{}
	for p, o := range st.conv {
		m[p] = h.l.npops(o)
	}
	return m
}

// control publishes the valid stream without any injection and records what the observers see.
func (h *c07Harness) control(codec string) bool {
	c := h.c
	kit.Log.TakePanics()
	h.sink.take()
	st, err := c07NewStream(c, h.l, codec, "control")
	if err != "" {
		c.Inconclusive("control: " + err)
		return false
	}
	v := h.val[codec]
	ctl := &c07Control{flvIDs: map[uint64]bool{}}
	var pk []*rtp.Packet
	var pr []c07proto
	ctl.popsAt[0] = h.popSnap(st)
	for k := 0; k < 3; k++ {
		if !h.send(st, v.seg[k], &pk, &pr) {
			break
		}
		if stuck := st.quiesce(h.l); len(stuck) > 0 {
			c.Inconclusive("control: converter not quiescent: " + stuck[0].Pipe)
			st.closeAndReap(h.l)
			return false
		}
		ctl.popsAt[k+1] = h.popSnap(st)
	}
	ids, nv, na, _ := c07FlvIDs(codec, st.flv.bytes())
	for _, id := range ids {
		ctl.flvIDs[id] = true
	}
	ctl.rtpN = st.rtp.Len()
	ctl.flvTags = st.flv.tags()
	dead := st.dead(h.l)
	panics := h.sink.take()
	kit.Log.TakePanics()
	left := st.closeAndReap(h.l)
	clean := st.pubPanic == nil && len(dead) == 0 && len(panics) == 0 && ctl.rtpN == len(pk) && len(left) == 0
	for _, id := range v.ids {
		if !ctl.flvIDs[id] {
			clean = false
		}
	}
	c.Note("control_"+codec, map[string]interface{}{"packets": len(pk), "units": len(v.ids), "rtp_delivered": ctl.rtpN, "flv_tags": ctl.flvTags,
		"flv_video_tags": nv, "flv_audio_tags": na, "flv_units_found": len(ids), "dead": dead, "panics": panics, "pops": ctl.popsAt, "clean": clean})
	if !clean {
		// the valid stream itself is not converted completely: C07 cannot be decided differentially
		c.Inconclusive("control run of the valid " + codec + " stream is not clean (see notes)")
		return false
	}
	h.ctl[codec] = ctl
	return true
}

func (h *c07Harness) runCase(idx int, cs c07Case) {
	c := h.c
	codec, inj, pos, mult := cs.codec, cs.inj, cs.pos, cs.mult
	v := h.val[codec]
	ctl := h.ctl[codec]
	name := fmt.Sprintf("%s/%s/%s/%s/x%d", codec, inj.class, inj.name, c07PosNames[pos], mult)
	var hostHex []string
	for _, g := range inj.group {
		tag := "valid-carrier"
		if g.hostile {
			tag = "HOSTILE"
		}
		hostHex = append(hostHex, fmt.Sprintf("ch%d %s %s", g.ch, tag, c07hex(g.payload)))
	}
	detail := map[string]interface{}{"case": idx, "name": name, "codec": codec, "class": inj.class, "mutation": inj.name,
		"position": c07PosNames[pos], "times": mult, "injected_packets": hostHex,
		"replay": "media.NewStream(kit.SDP" + codec + "AAC); publish segments [0.." + fmt.Sprint(pos) + ") of c07ValidStream, then injected_packets (RTP payloads / RTCP bytes, hex) `times` times, then the remaining segments"}
	c.Pre("C07 " + name + " :: " + strings.Join(hostHex, " | "))
	kit.Log.TakePanics()
	h.sink.take()

	tgt, err := c07NewStream(c, h.l, codec, "target")
	if err != "" {
		c.Inconclusive("setup: " + err)
		return
	}
	by, err := c07NewStream(c, h.l, "H264", "bystander")
	if err != "" {
		tgt.closeAndReap(h.l)
		c.Inconclusive("setup: " + err)
		return
	}
	bpre, bpost, bids := c07Bystander()
	var bpk []*rtp.Packet
	var bpr []c07proto
	h.send(by, bpre, &bpk, &bpr)

	var pk []*rtp.Packet
	var pr []c07proto
	alive := true
	for k := 0; k < pos && alive; k++ {
		alive = h.send(tgt, v.seg[k], &pk, &pr)
	}
	injAt := len(pk)
	for m := 0; m < mult && alive; m++ {
		alive = h.send(tgt, inj.group, &pk, &pr)
	}
	afterAt := len(pk)
	var stuck []c07Stuck
	var injPanics []c07Panic
	popsInj := map[string]int{}
	if alive {
		stuck = tgt.quiesce(h.l)
		injPanics = h.sink.take()
		popsInj = h.popSnap(tgt)
	}
	deadAfterInj := tgt.dead(h.l)
	for k := pos; k < 3 && alive && len(stuck) == 0; k++ {
		alive = h.send(tgt, v.seg[k], &pk, &pr)
	}
	h.send(by, bpost, &bpk, &bpr)
	if alive && len(stuck) == 0 {
		stuck = tgt.quiesce(h.l)
	}
	bstuck := by.quiesce(h.l)
	latePanics := h.sink.take()
	popsEnd := h.popSnap(tgt)
	c.Eval(1)
	c.Distinct(name)
	c.Count("cases/"+codec+"/"+inj.class, 1)
	c.Count(fmt.Sprintf("cases/pos-%s/x%d", c07PosNames[pos], mult), 1)

	// ---------------- judge the target stream
	violated := false
	viol := func(sig string, extra map[string]interface{}) {
		d := map[string]interface{}{}
		for k, x := range detail {
			d[k] = x
		}
		for k, x := range extra {
			d[k] = x
		}
		c.Violation(sig, d)
		violated = true
	}
	split := func(ps []c07Panic, path string) (mine, other []c07Panic) {
		for _, p := range ps {
			if p.Path == path {
				mine = append(mine, p)
			} else {
				other = append(other, p)
			}
		}
		return
	}
	injMine, injOther := split(injPanics, tgt.path)
	lateMine, lateOther := split(latePanics, tgt.path)

	// (g) publisher panic
	if tgt.pubPanic != nil {
		pp := tgt.pubPanic
		viol("C07:publisher-panic:"+pp.Site, map[string]interface{}{"panic": pp, "on_hostile_packet": pr[len(pr)-1].hostile,
			"packet_index": len(pk) - 1, "consequence": "in the server this panic unwinds the RTSP session's goroutine: the publishing session ends"})
		c.SetAdd("publisher_panic_sites", pp.Site+" @ "+pp.Line)
		h.lockProbe(tgt, viol)
		// what would the converters have done with the same item (it never reached them)?
		h.directDemuxer(codec, inj, mult, viol)
	}

	// (f) stuck converters
	for _, sk := range stuck {
		viol(fmt.Sprintf("C07:converter-stuck:%s:%s", sk.Pipe, sk.Top), map[string]interface{}{"stuck": sk})
	}

	if tgt.pubPanic == nil && len(stuck) == 0 {
		// ---- observations
		// (a) RTP relay of later packets
		got := map[*rtp.Packet]bool{}
		for _, it := range tgt.rtp.Items() {
			if p, ok := it.Pack.(*rtp.Packet); ok {
				got[p] = true
			}
		}
		rtpLost := 0
		for i := afterAt; i < len(pk); i++ {
			if !got[pk[i]] {
				rtpLost++
			}
		}
		for i := injAt; i < afterAt; i++ {
			if pr[i].hostile {
				c.Count("hostile_packets_sent", 1)
				if got[pk[i]] {
					c.Count("hostile_packets_relayed_to_rtp_consumer", 1)
				}
			}
		}
		// (b) FLV output for later well-formed units
		ids, nv, na, _ := c07FlvIDs(codec, tgt.flv.bytes())
		have := map[uint64]bool{}
		damagedSeen := false
		for _, id := range ids {
			have[id] = true
			if id&0xf000 == 0xD000 {
				damagedSeen = true
			}
		}
		var missLater []uint64
		missEarlier := 0
		for i, p := range pr {
			if p.hostile {
				continue
			}
			for _, id := range p.ids {
				if id&0xf000 == 0xD000 || !ctl.flvIDs[id] || have[id] {
					continue
				}
				if i >= afterAt {
					missLater = append(missLater, id&0xffff)
				} else if i < injAt {
					missEarlier++
				}
			}
		}
		missLater = c07Uniq(missLater)
		// (c) TS pipeline: frames consumed by the TS muxer after the injection
		_, hasTS := tgt.conv["tsmuxer"]
		tsWant := ctl.popsAt[3]["tsmuxer"] - ctl.popsAt[pos]["tsmuxer"]
		tsGot := popsEnd["tsmuxer"] - popsInj["tsmuxer"]
		consequences := map[string]interface{}{"later_units_expected_in_flv": c07CountLater(pr, afterAt), "later_units_missing_from_flv": missLater,
			"flv_video_tags": nv, "flv_audio_tags": na, "rtp_later_packets_lost": rtpLost}
		if hasTS {
			consequences["ts_frames_consumed_after_injection"] = tsGot
			consequences["ts_frames_consumed_after_injection_control"] = tsWant
		}

		// ---- (e) converters that left the ledger while the stream is open, with the panic that killed them
		deadSites := map[string]string{}
		for _, p := range tgt.dead(h.l) {
			var rec *c07Panic
			for _, set := range [][]c07Panic{injMine, lateMine} {
				for i := range set {
					if set[i].Pipe == p && rec == nil {
						rec = &set[i]
					}
				}
			}
			during := "on-a-later-valid-packet"
			for _, d := range deadAfterInj {
				if d == p {
					during = "on-the-injected-item"
				}
			}
			ex := map[string]interface{}{"died": during, "consequences": consequences}
			if rec != nil {
				deadSites[p] = rec.Site
				c.SetAdd("converter_panic_sites", p+": "+rec.Site+" @ "+rec.Line)
				ex["panic"] = rec
				ex["mechanism"] = "process() recovers once per goroutine and then returns; the stream keeps pushing into the dead converter's queue"
				viol(fmt.Sprintf("C07:converter-dead-after-panic:%s:%s", p, rec.Site), ex)
			} else {
				deadSites[p] = "no-panic-logged"
				viol(fmt.Sprintf("C07:converter-exited-while-stream-open:%s:no-panic-logged", p), ex)
			}
		}
		_, demDead := deadSites["rtpdemuxer"]
		_, flvDead := deadSites["flvmuxer"]
		_, tsDead := deadSites["tsmuxer"]

		// panics that were contained (goroutine survived) are evidence, not a violation — unless a VALID
		// later packet caused them
		for _, p := range injMine {
			if _, isDead := deadSites[p.Pipe]; !isDead {
				c.SetAdd("contained_panic_sites", p.Pipe+": "+p.Site+" @ "+p.Line)
				c.Count("contained_panics", 1)
			}
		}
		for _, p := range lateMine {
			if _, isDead := deadSites[p.Pipe]; !isDead {
				viol(fmt.Sprintf("C07:valid-packet-after-injection-panics:%s:%s", p.Pipe, p.Site), map[string]interface{}{"panic": p})
			}
		}

		if rtpLost > 0 {
			cause := "delivery-goroutine-alive"
			if h.l.isExited(tgt.rtp) {
				cause = "delivery-goroutine-exited"
			}
			viol("C07:rtp-relay-stops:"+cause, map[string]interface{}{"later_packets": len(pk) - afterAt, "lost": rtpLost})
		}
		if damagedSeen {
			c.Count("damaged_unit_passed_through_to_flv", 1)
		} else {
			c.Count("damaged_unit_absent_from_flv", 1)
		}
		if missEarlier > 0 {
			c.Count("unjudged/earlier_units_missing_from_flv", 1)
		}
		if len(missLater) > 0 && !demDead && !flvDead {
			cause := "all-converters-alive:" + codec + "/" + inj.class
			if h.l.isExited(tgt.flv) {
				cause = "flv-delivery-goroutine-exited"
			}
			consequences["flv_writer_error"] = tgt.flv.werr
			consequences["flv_client_panic"] = tgt.flv.panicked
			viol("C07:flv-output-stops:"+cause, consequences)
		}
		if hasTS {
			switch {
			case tsDead || demDead: // reported above with the root cause
			case tsGot < tsWant:
				viol("C07:hls-output-stops:ts-muxer-alive-but-frames-missing:"+codec+"/"+inj.class, consequences)
			default:
				c.Count("ts_pipeline_alive_and_fed", 1)
			}
		}
	}

	// ---------------- (d) bystander
	bMine, stray := split(append(injOther, lateOther...), by.path)
	if len(stray) > 0 {
		c.Count("unjudged/panic_logged_for_another_path", int64(len(stray)))
	}
	if len(bstuck) > 0 {
		viol("C07:bystander-disturbed:converter-stuck:"+bstuck[0].Pipe, map[string]interface{}{"stuck": bstuck})
	} else {
		var why []string
		if by.pubPanic != nil {
			why = append(why, "publisher-panic:"+by.pubPanic.Site)
		}
		for _, p := range by.dead(h.l) {
			why = append(why, "converter-dead:"+p)
		}
		for _, p := range bMine {
			why = append(why, "panic:"+p.Pipe+":"+p.Site)
		}
		got := map[*rtp.Packet]bool{}
		for _, it := range by.rtp.Items() {
			if p, ok := it.Pack.(*rtp.Packet); ok {
				got[p] = true
			}
		}
		for _, p := range bpk {
			if !got[p] {
				why = append(why, "rtp-packet-lost")
				break
			}
		}
		ids, _, _, _ := c07FlvIDs("H264", by.flv.bytes())
		have := map[uint64]bool{}
		for _, id := range ids {
			have[id] = true
		}
		for _, id := range bids {
			if !have[id] {
				why = append(why, "flv-unit-missing")
				break
			}
		}
		if len(why) > 0 {
			viol("C07:bystander-disturbed:"+why[0], map[string]interface{}{"observations": why})
		} else {
			c.Count("bystander_undisturbed", 1)
		}
	}

	if !violated {
		c.Count("contained/"+codec+"/"+inj.class, 1)
	}
	if h.sampled < 3 {
		h.sampled++
		c.Sample(detail)
	}

	// ---------------- teardown: every goroutine of both streams must leave
	left := append(tgt.closeAndReap(h.l), by.closeAndReap(h.l)...)
	if len(left) > 0 {
		c.Inconclusive("goroutines still in the ledger after Stream.Close: " + strings.Join(left, ","))
	}
}

// lockProbe: the publisher panicked between joinLocks[RTPPacket].Lock() and Unlock(). Is the lock left held?
// Decided on state: a StartConsume on the same stream parked in sync.Mutex.Lock can never be released, because
// the only holder has unwound. (Probed a few times per shard only: each proof costs a goroutine.)
func (h *c07Harness) lockProbe(tgt *c07Stream, viol func(string, map[string]interface{})) {
	if h.lockProbes >= 3 {
		return
	}
	h.lockProbes++
	probe := &kit.RecConsumer{Name: "probe"}
	done := make(chan struct{})
	go func() { defer close(done); tgt.s.StartConsume(probe, media.RTPPacket, "c07-probe") }()
	blocked := false
	c07Wait(func() bool {
		select {
		case <-done:
			return true
		default:
		}
		me := fmt.Sprintf("media.(*Stream).startConsume(%p,", tgt.s) // this probe's goroutine, not an earlier one
		for _, g := range c07Dump() {
			if g.has(me) && g.has("sync.(*Mutex).Lock") && strings.Contains(g.State, "sync.Mutex.Lock") {
				blocked = true
				return true
			}
		}
		return false
	}, c07Watch)
	if blocked {
		viol("C07:lock-left-held-after-publisher-panic:media.(*Stream).WriteRtpPacket", map[string]interface{}{"panic": tgt.pubPanic,
			"observed": "StartConsume on the same stream is parked in sync.Mutex.Lock on joinLocks[RTPPacket]; its only holder has unwound with the panic, so every later attach (and write) to this stream blocks forever"})
	}
}

func c07Uniq(a []uint64) []uint64 {
	sort.Slice(a, func(i, j int) bool { return a[i] < a[j] })
	var out []uint64
	for i, x := range a {
		if i == 0 || x != a[i-1] {
			out = append(out, x)
		}
	}
	return out
}

func c07CountLater(pr []c07proto, from int) int {
	seen := map[uint64]bool{}
	for i := from; i < len(pr); i++ {
		for _, id := range pr[i].ids {
			seen[id] = true
		}
	}
	return len(seen)
}
