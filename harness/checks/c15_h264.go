package checks

import (
	"math/rand"

	"verifharness/kit"
)

// Independent H.264 sequence parameter set model + bit-exact encoder, written from
// ITU-T H.264 (04/2017) 7.3.2.1.1 (seq_parameter_set_data), 7.3.2.1.1.1 (scaling_list),
// E.1.1 (vui_parameters), E.1.2 (hrd_parameters), with the derived values of 7.4.2.1.1 / E.2.1.

type m264HRD struct {
	BitRateScale, CpbSizeScale uint8
	BitRate, CpbSize           []uint64 // *_value_minus1, one per CPB (cpb_cnt_minus1+1 entries)
	Cbr                        []bool
	InitLen, RemLen, OutLen    uint8 // *_length_minus1, u(5)
	TimeOffLen                 uint8
}

type m264VUI struct {
	Aspect     bool
	AspectIdc  uint8
	SarW, SarH uint16

	Overscan, OverscanApp bool

	VideoSignal         bool
	VideoFormat         uint8
	FullRange           bool
	ColourDesc          bool
	Prim, Trans, Matrix uint8

	ChromaLoc         bool
	LocTop, LocBottom uint64

	Timing              bool
	NumUnits, TimeScale uint32
	Fixed               bool

	NalHrd, VclHrd *m264HRD
	LowDelay       bool
	PicStruct      bool

	Restr                                            bool
	MvOverPic                                        bool
	MaxBytes, MaxBits, Log2H, Log2V, Reorder, DecBuf uint64
}

type m264SPS struct {
	NalRefIdc  uint8
	ProfileIdc uint8
	Constraint uint8 // constraint_set0..5_flag, bit5 = set0
	LevelIdc   uint8
	ID         uint64

	// present only for the "high" profile_idc list; otherwise inferred
	Chroma        uint8 // chroma_format_idc
	SepPlane      bool
	BitDepthL     uint64
	BitDepthC     uint64
	QpPrime       bool
	ScalingMatrix bool
	Lists         [12][]int64 // coded delta_scale values per present list; nil = list not present

	Log2MaxFrameNum uint64
	PocType         uint8
	Log2MaxPocLsb   uint64
	DeltaAlwaysZero bool
	OffNonRef       int64
	OffTopBottom    int64
	RefOffsets      []int64

	MaxRefFrames uint64
	Gaps         bool
	WidthMbs     uint64 // pic_width_in_mbs_minus1 + 1
	HeightMU     uint64 // pic_height_in_map_units_minus1 + 1
	FrameMbsOnly bool
	Mbaff        bool
	Direct8x8    bool
	Crop         bool
	CL, CR       uint64
	CT, CB       uint64
	VUI          *m264VUI
}

func (s *m264SPS) clone() *m264SPS {
	c := *s
	for i := range c.Lists {
		if s.Lists[i] != nil {
			c.Lists[i] = append([]int64{}, s.Lists[i]...)
		}
	}
	c.RefOffsets = append([]int64(nil), s.RefOffsets...)
	if s.VUI != nil {
		v := *s.VUI
		if v.NalHrd != nil {
			v.NalHrd = v.NalHrd.clone()
		}
		if v.VclHrd != nil {
			v.VclHrd = v.VclHrd.clone()
		}
		c.VUI = &v
	}
	return &c
}

func (h *m264HRD) clone() *m264HRD {
	c := *h
	c.BitRate = append([]uint64(nil), h.BitRate...)
	c.CpbSize = append([]uint64(nil), h.CpbSize...)
	c.Cbr = append([]bool(nil), h.Cbr...)
	return &c
}

// m264HighSyntax: the profile_idc values for which chroma_format_idc .. scaling matrix are present (7.3.2.1.1).
func m264HighSyntax(p uint8) bool {
	switch p {
	case 100, 110, 122, 244, 44, 83, 86, 118, 128, 138, 139, 134, 135:
		return true
	}
	return false
}

func (s *m264SPS) chromaEff() uint8 {
	if m264HighSyntax(s.ProfileIdc) {
		return s.Chroma
	}
	return 1 // 7.4.2.1.1: inferred 1 (4:2:0) when not present
}

// chromaArrayType per 7.4.2.1.1.
func (s *m264SPS) chromaArrayType() uint8 {
	if m264HighSyntax(s.ProfileIdc) && s.SepPlane {
		return 0
	}
	return s.chromaEff()
}

// cropUnits per 7.4.2.1.1 (7-19 .. 7-22).
func (s *m264SPS) cropUnits() (x, y uint64) {
	f := uint64(2)
	if s.FrameMbsOnly {
		f = 1
	}
	switch s.chromaArrayType() {
	case 0:
		return 1, f
	case 1:
		return 2, 2 * f // SubWidthC=2 SubHeightC=2
	case 2:
		return 2, 1 * f // SubWidthC=2 SubHeightC=1
	default:
		return 1, 1 * f
	}
}

func (s *m264SPS) frameHeightMbs() uint64 {
	if s.FrameMbsOnly {
		return s.HeightMU
	}
	return 2 * s.HeightMU
}

// expect computes the standard-defined output values.
func (s *m264SPS) expect() c15Expect {
	var e c15Expect
	cx, cy := s.cropUnits()
	w := 16 * s.WidthMbs
	h := 16 * s.frameHeightMbs()
	if s.Crop {
		w -= cx * (s.CL + s.CR)
		h -= cy * (s.CT + s.CB)
	}
	e.W, e.H = int(w), int(h)
	e.FixedJudged = true
	if s.VUI != nil && s.VUI.Timing {
		e.HasFPS = true
		e.FPS = float64(s.VUI.TimeScale) / (2 * float64(s.VUI.NumUnits))
		e.Fixed = s.VUI.Fixed
	}
	return e
}

// normalize re-establishes the semantic constraints after a feature was switched off.
func (s *m264SPS) normalize() {
	if !m264HighSyntax(s.ProfileIdc) {
		s.Chroma, s.SepPlane, s.BitDepthL, s.BitDepthC, s.QpPrime, s.ScalingMatrix = 1, false, 0, 0, false, false
		s.Lists = [12][]int64{}
	}
	if s.Chroma != 3 {
		s.SepPlane = false
		for i := 8; i < 12; i++ {
			s.Lists[i] = nil
		}
	}
	if !s.ScalingMatrix {
		s.Lists = [12][]int64{}
	}
	if s.FrameMbsOnly {
		s.Mbaff = false
	} else {
		s.Direct8x8 = true
	}
	if s.PocType != 1 {
		s.RefOffsets, s.OffNonRef, s.OffTopBottom, s.DeltaAlwaysZero = nil, 0, 0, false
	}
	if !s.Crop {
		s.CL, s.CR, s.CT, s.CB = 0, 0, 0, 0
	} else {
		cx, cy := s.cropUnits()
		maxX := 16*s.WidthMbs/cx - 1 // left+right <= PicWidthInSamples/CropUnitX - 1
		maxY := 16*s.frameHeightMbs()/cy - 1
		for s.CL+s.CR > maxX {
			s.CL /= 2
			s.CR /= 2
		}
		for s.CT+s.CB > maxY {
			s.CT /= 2
			s.CB /= 2
		}
	}
	if v := s.VUI; v != nil {
		if !v.Timing {
			v.Fixed = false
		}
	}
}

func (h *m264HRD) write(w *kit.BitWriter) {
	w.Ue(uint64(len(h.BitRate) - 1)) // cpb_cnt_minus1
	w.U(4, uint64(h.BitRateScale))
	w.U(4, uint64(h.CpbSizeScale))
	for i := range h.BitRate {
		w.Ue(h.BitRate[i])
		w.Ue(h.CpbSize[i])
		w.Flag(h.Cbr[i])
	}
	w.U(5, uint64(h.InitLen))
	w.U(5, uint64(h.RemLen))
	w.U(5, uint64(h.OutLen))
	w.U(5, uint64(h.TimeOffLen))
}

func (v *m264VUI) write(w *kit.BitWriter) {
	w.Flag(v.Aspect)
	if v.Aspect {
		w.U(8, uint64(v.AspectIdc))
		if v.AspectIdc == 255 { // Extended_SAR
			w.U(16, uint64(v.SarW))
			w.U(16, uint64(v.SarH))
		}
	}
	w.Flag(v.Overscan)
	if v.Overscan {
		w.Flag(v.OverscanApp)
	}
	w.Flag(v.VideoSignal)
	if v.VideoSignal {
		w.U(3, uint64(v.VideoFormat))
		w.Flag(v.FullRange)
		w.Flag(v.ColourDesc)
		if v.ColourDesc {
			w.U(8, uint64(v.Prim))
			w.U(8, uint64(v.Trans))
			w.U(8, uint64(v.Matrix))
		}
	}
	w.Flag(v.ChromaLoc)
	if v.ChromaLoc {
		w.Ue(v.LocTop)
		w.Ue(v.LocBottom)
	}
	w.Flag(v.Timing)
	if v.Timing {
		w.U(32, uint64(v.NumUnits))
		w.U(32, uint64(v.TimeScale))
		w.Flag(v.Fixed)
	}
	w.Flag(v.NalHrd != nil)
	if v.NalHrd != nil {
		v.NalHrd.write(w)
	}
	w.Flag(v.VclHrd != nil)
	if v.VclHrd != nil {
		v.VclHrd.write(w)
	}
	if v.NalHrd != nil || v.VclHrd != nil {
		w.Flag(v.LowDelay)
	}
	w.Flag(v.PicStruct)
	w.Flag(v.Restr)
	if v.Restr {
		w.Flag(v.MvOverPic)
		w.Ue(v.MaxBytes)
		w.Ue(v.MaxBits)
		w.Ue(v.Log2H)
		w.Ue(v.Log2V)
		w.Ue(v.Reorder)
		w.Ue(v.DecBuf)
	}
}

// encode produces the NAL unit (header byte + EBSP) and the offsets of emulation prevention bytes.
func (s *m264SPS) encode(st *kit.BitStats) ([]byte, []int) {
	w := &kit.BitWriter{Stats: st}
	w.U(8, uint64(s.ProfileIdc))
	w.U(6, uint64(s.Constraint))
	w.U(2, 0)
	w.U(8, uint64(s.LevelIdc))
	w.Ue(s.ID)
	if m264HighSyntax(s.ProfileIdc) {
		w.Ue(uint64(s.Chroma))
		if s.Chroma == 3 {
			w.Flag(s.SepPlane)
		}
		w.Ue(s.BitDepthL)
		w.Ue(s.BitDepthC)
		w.Flag(s.QpPrime)
		w.Flag(s.ScalingMatrix)
		if s.ScalingMatrix {
			n := 8
			if s.Chroma == 3 {
				n = 12
			}
			for i := 0; i < n; i++ {
				w.Flag(s.Lists[i] != nil)
				for _, d := range s.Lists[i] {
					w.Se(d)
				}
			}
		}
	}
	w.Ue(s.Log2MaxFrameNum)
	w.Ue(uint64(s.PocType))
	switch s.PocType {
	case 0:
		w.Ue(s.Log2MaxPocLsb)
	case 1:
		w.Flag(s.DeltaAlwaysZero)
		w.Se(s.OffNonRef)
		w.Se(s.OffTopBottom)
		w.Ue(uint64(len(s.RefOffsets)))
		for _, o := range s.RefOffsets {
			w.Se(o)
		}
	}
	w.Ue(s.MaxRefFrames)
	w.Flag(s.Gaps)
	w.Ue(s.WidthMbs - 1)
	w.Ue(s.HeightMU - 1)
	w.Flag(s.FrameMbsOnly)
	if !s.FrameMbsOnly {
		w.Flag(s.Mbaff)
	}
	w.Flag(s.Direct8x8)
	w.Flag(s.Crop)
	if s.Crop {
		w.Ue(s.CL)
		w.Ue(s.CR)
		w.Ue(s.CT)
		w.Ue(s.CB)
	}
	w.Flag(s.VUI != nil)
	if s.VUI != nil {
		s.VUI.write(w)
	}
	w.TrailingBits()
	hdr := byte(s.NalRefIdc&3)<<5 | 7 // forbidden_zero_bit=0, nal_ref_idc, nal_unit_type=7
	return kit.EmulationPrevent([]byte{hdr}, w.Bytes())
}

// m264ListCodedLen runs the scaling_list() loop of 7.3.2.1.1.1 over deltas and returns how many
// delta_scale elements the syntax reads (to self-check generated lists) and whether it stopped early.
func m264ListCodedLen(deltas []int64, size int) (n int, early bool) {
	last, next := 8, 8
	for j := 0; j < size; j++ {
		if next != 0 {
			if n >= len(deltas) {
				return -1, false
			}
			next = (last + int(deltas[n]) + 256) % 256
			n++
		}
		if next != 0 {
			last = next
		}
	}
	return n, next == 0 && n < size
}

// m264GenList makes a coded delta list. mode: 0 full length random, 1 early termination, 2 all-zero deltas (full),
// 3 immediate default (first delta makes nextScale 0).
func m264GenList(rng *rand.Rand, size, mode int) []int64 {
	var out []int64
	last := 8
	stopAt := size // index of the delta that drives nextScale to 0 (size = never)
	switch mode {
	case 1:
		stopAt = 1 + rng.Intn(size-1)
	case 3:
		stopAt = 0
	}
	for j := 0; j < size; j++ {
		if j == stopAt {
			// choose delta with (last+delta) % 256 == 0, in -128..127
			d := -last
			if d < -128 {
				d += 256
			}
			out = append(out, int64(d))
			break
		}
		var d int
		for {
			if mode == 2 {
				d = 0
			} else {
				d = rng.Intn(256) - 128
				if rng.Intn(3) == 0 {
					d = rng.Intn(9) - 4
				}
			}
			if (last+d+256)%256 != 0 {
				break
			}
		}
		out = append(out, int64(d))
		last = (last + d + 256) % 256
	}
	return out
}

var c15UeEdges []uint64 // 0, 2^k-1, 2^k ... up to 2^32-2
var c15SeEdges []int64

func init() {
	c15UeEdges = append(c15UeEdges, 0)
	for k := 1; k <= 32; k++ {
		c15UeEdges = append(c15UeEdges, (uint64(1)<<uint(k))-2, (uint64(1)<<uint(k))-1) // last value of width k, first of width k+1
	}
	c15UeEdges = c15UeEdges[:len(c15UeEdges)-1] // drop 2^32-1 (not a valid ue(v) value)
	for _, u := range c15UeEdges {
		// codeNum u -> signed value
		var v int64
		if u&1 == 1 {
			v = int64((u + 1) / 2)
		} else {
			v = -int64(u / 2)
		}
		c15SeEdges = append(c15SeEdges, v)
	}
}

// c15Ue returns a ue value <= max with every bit width reachable: edge values and random widths.
func c15Ue(rng *rand.Rand, max uint64) uint64 {
	if max == 0 {
		return 0
	}
	switch rng.Intn(3) {
	case 0:
		for tries := 0; tries < 8; tries++ {
			v := c15UeEdges[rng.Intn(len(c15UeEdges))]
			if v <= max {
				return v
			}
		}
		return max
	case 1:
		bl := 0
		for m := max; m != 0; m >>= 1 {
			bl++
		}
		k := 1 + rng.Intn(bl)
		v := rng.Uint64() & ((uint64(1) << uint(k)) - 1)
		if v > max {
			v = max
		}
		return v
	}
	return uint64(rng.Int63n(int64(min(max, 40)) + 1))
}

// c15Se returns a signed value with |v| <= maxAbs, both signs, every width.
func c15Se(rng *rand.Rand, maxAbs uint64) int64 {
	v := int64(c15Ue(rng, maxAbs))
	if rng.Intn(2) == 0 {
		v = -v
	}
	return v
}

func m264GenHRD(rng *rand.Rand) *m264HRD {
	h := &m264HRD{BitRateScale: uint8(rng.Intn(16)), CpbSizeScale: uint8(rng.Intn(16)),
		InitLen: uint8(rng.Intn(32)), RemLen: uint8(rng.Intn(32)), OutLen: uint8(rng.Intn(32)), TimeOffLen: uint8(rng.Intn(32))}
	n := 1
	switch rng.Intn(4) {
	case 0:
		n = 1 + rng.Intn(32) // cpb_cnt_minus1 0..31
	case 1:
		n = 2
	}
	for i := 0; i < n; i++ {
		h.BitRate = append(h.BitRate, c15Ue(rng, 1<<32-2))
		h.CpbSize = append(h.CpbSize, c15Ue(rng, 1<<32-2))
		h.Cbr = append(h.Cbr, rng.Intn(2) == 0)
	}
	return h
}

var m264Profiles = []uint8{66, 77, 88, 100, 110, 122, 244, 44, 83, 86, 118, 128, 138, 139, 134, 135}

var c15TickValues = []uint32{1, 1, 1000, 1001, 1, 3003, 90000, 0x00000300, 0x00010000, 0x7fffffff, 0x80000000, 0xffffffff, 0x01000001}
var c15ScaleValues = []uint32{50, 60, 60000, 30000, 24, 90000, 180000, 0x00000003, 0x02000000, 0x7fffffff, 0x80000001, 0xffffffff, 0x00030000}

func m264GenVUI(rng *rand.Rand) *m264VUI {
	v := &m264VUI{}
	b := func(p int) bool { return rng.Intn(100) < p }
	if v.Aspect = b(50); v.Aspect {
		v.AspectIdc = uint8(rng.Intn(17))
		if b(40) {
			v.AspectIdc = 255
			v.SarW, v.SarH = uint16(rng.Intn(65536)), uint16(rng.Intn(65536))
			if b(30) {
				v.SarW, v.SarH = 0, 0
			}
		}
	}
	if v.Overscan = b(40); v.Overscan {
		v.OverscanApp = b(50)
	}
	if v.VideoSignal = b(50); v.VideoSignal {
		v.VideoFormat = uint8(rng.Intn(8))
		v.FullRange = b(50)
		if v.ColourDesc = b(50); v.ColourDesc {
			v.Prim, v.Trans, v.Matrix = uint8(rng.Intn(256)), uint8(rng.Intn(256)), uint8(rng.Intn(256))
			if b(30) {
				v.Prim, v.Trans, v.Matrix = 0, 0, 1
			}
		}
	}
	if v.ChromaLoc = b(40); v.ChromaLoc {
		v.LocTop, v.LocBottom = uint64(rng.Intn(6)), uint64(rng.Intn(6))
	}
	if v.Timing = b(75); v.Timing {
		if b(70) {
			v.NumUnits = c15TickValues[rng.Intn(5)]
			v.TimeScale = c15ScaleValues[rng.Intn(6)]
		} else if b(50) {
			v.NumUnits = c15TickValues[rng.Intn(len(c15TickValues))]
			v.TimeScale = c15ScaleValues[rng.Intn(len(c15ScaleValues))]
		} else {
			v.NumUnits = 1 + uint32(rng.Int63n(1<<32-1))
			v.TimeScale = 1 + uint32(rng.Int63n(1<<32-1))
		}
		v.Fixed = b(50)
	}
	if b(35) {
		v.NalHrd = m264GenHRD(rng)
	}
	if b(30) {
		v.VclHrd = m264GenHRD(rng)
	}
	v.LowDelay = b(50)
	v.PicStruct = b(50)
	if v.Restr = b(50); v.Restr {
		v.MvOverPic = b(50)
		v.MaxBytes, v.MaxBits = uint64(rng.Intn(17)), uint64(rng.Intn(17))
		v.Log2H, v.Log2V = uint64(rng.Intn(17)), uint64(rng.Intn(17))
		v.Reorder = uint64(rng.Intn(17))
		v.DecBuf = v.Reorder + uint64(rng.Intn(int(17-v.Reorder)))
	}
	return v
}

// m264Gen draws one SPS over the whole syntax space. Level limits of Table A-1 (level 6.2) bound the size:
// PicWidthInMbs, FrameHeightInMbs <= Sqrt(8*139264) = 1055 and their product <= 139264.
func m264Gen(rng *rand.Rand) *m264SPS {
	b := func(p int) bool { return rng.Intn(100) < p }
	s := &m264SPS{NalRefIdc: uint8(1 + rng.Intn(3)), Chroma: 1, Direct8x8: true}
	s.ProfileIdc = m264Profiles[rng.Intn(len(m264Profiles))]
	if b(50) {
		s.ProfileIdc = []uint8{66, 77, 100, 100, 110, 122, 244}[rng.Intn(7)]
	}
	s.Constraint = uint8(rng.Intn(64))
	s.LevelIdc = []uint8{9, 10, 11, 12, 13, 20, 21, 22, 30, 31, 32, 40, 41, 42, 50, 51, 52, 60, 61, 62}[rng.Intn(20)]
	s.ID = uint64(rng.Intn(32))
	if b(50) {
		s.ID = 0
	}
	if m264HighSyntax(s.ProfileIdc) {
		s.Chroma = uint8(rng.Intn(4))
		if b(40) {
			s.Chroma = 1
		}
		if s.Chroma == 3 {
			s.SepPlane = b(50)
		}
		if b(40) {
			s.BitDepthL, s.BitDepthC = uint64(rng.Intn(7)), uint64(rng.Intn(7))
		}
		s.QpPrime = b(30)
		if s.ScalingMatrix = b(45); s.ScalingMatrix {
			n := 8
			if s.Chroma == 3 {
				n = 12
			}
			for i := 0; i < n; i++ {
				if b(45) {
					continue
				}
				size := 16
				if i >= 6 {
					size = 64
				}
				mode := []int{0, 0, 1, 1, 1, 2, 3}[rng.Intn(7)]
				s.Lists[i] = m264GenList(rng, size, mode)
			}
		}
	}
	s.Log2MaxFrameNum = uint64(rng.Intn(13))
	s.PocType = uint8(rng.Intn(3))
	switch s.PocType {
	case 0:
		s.Log2MaxPocLsb = uint64(rng.Intn(13))
	case 1:
		s.DeltaAlwaysZero = b(50)
		s.OffNonRef = c15Se(rng, 1<<31-1)
		s.OffTopBottom = c15Se(rng, 1<<31-1)
		n := 0
		switch rng.Intn(4) {
		case 1:
			n = 1 + rng.Intn(4)
		case 2:
			n = 1 + rng.Intn(255)
		case 3:
			n = 255
			if b(70) {
				n = 1
			}
		}
		for i := 0; i < n; i++ {
			s.RefOffsets = append(s.RefOffsets, c15Se(rng, 1<<31-1))
		}
	}
	s.MaxRefFrames = uint64(rng.Intn(17))
	s.Gaps = b(30)
	// size
	switch rng.Intn(6) {
	case 0:
		s.WidthMbs, s.HeightMU = uint64(1+rng.Intn(8)), uint64(1+rng.Intn(8))
	case 1:
		wh := [][2]uint64{{120, 68}, {80, 45}, {45, 36}, {22, 18}, {240, 135}, {40, 30}, {11, 9}}[rng.Intn(7)]
		s.WidthMbs, s.HeightMU = wh[0], wh[1]
	case 2:
		s.WidthMbs = uint64(1 + rng.Intn(1055))
		s.HeightMU = uint64(1 + rng.Intn(int(min(1055, 139264/s.WidthMbs))))
	case 3:
		s.HeightMU = uint64(1 + rng.Intn(1055))
		s.WidthMbs = uint64(1 + rng.Intn(int(min(1055, 139264/s.HeightMU))))
	default:
		s.WidthMbs, s.HeightMU = uint64(1+rng.Intn(300)), uint64(1+rng.Intn(300))
	}
	s.FrameMbsOnly = b(60)
	if !s.FrameMbsOnly {
		s.Mbaff = b(50)
		s.HeightMU = (s.HeightMU + 1) / 2
		for 2*s.HeightMU > 1055 || 2*s.HeightMU*s.WidthMbs > 139264 {
			s.HeightMU = (s.HeightMU + 1) / 2
		}
	} else {
		s.Direct8x8 = b(70)
	}
	if s.Crop = b(60); s.Crop {
		cx, cy := s.cropUnits()
		maxX := 16*s.WidthMbs/cx - 1
		maxY := 16*s.frameHeightMbs()/cy - 1
		pick := func(max uint64) (a, c uint64) {
			switch rng.Intn(4) {
			case 0:
				return 0, 0
			case 1:
				t := min(max, 15)
				a = uint64(rng.Int63n(int64(t) + 1))
				return a, uint64(rng.Int63n(int64(t-a) + 1))
			}
			a = c15Ue(rng, max)
			return a, c15Ue(rng, max-a)
		}
		s.CL, s.CR = pick(maxX)
		s.CT, s.CB = pick(maxY)
		if b(50) {
			s.CL = 0
		}
		if b(30) {
			s.CT = 0
		}
	}
	if b(70) {
		s.VUI = m264GenVUI(rng)
	}
	s.normalize()
	return s
}

// ---- features (for attribution of formula-level mismatches and coverage) ----

type c15Feat[T any] struct {
	name   string
	active func(*T) bool
	off    func(*T)
}

func m264Features() []c15Feat[m264SPS] {
	v := func(f func(*m264VUI) bool) func(*m264SPS) bool {
		return func(s *m264SPS) bool { return s.VUI != nil && f(s.VUI) }
	}
	anyList := func(s *m264SPS, f func(i int, l []int64) bool) bool {
		for i, l := range s.Lists {
			if l != nil && f(i, l) {
				return true
			}
		}
		return false
	}
	size := func(i int) int {
		if i < 6 {
			return 16
		}
		return 64
	}
	return []c15Feat[m264SPS]{
		{"vui-nal-hrd", v(func(u *m264VUI) bool { return u.NalHrd != nil }), func(s *m264SPS) { s.VUI.NalHrd = nil }},
		{"vui-vcl-hrd", v(func(u *m264VUI) bool { return u.VclHrd != nil }), func(s *m264SPS) { s.VUI.VclHrd = nil }},
		{"vui-bitstream-restriction", v(func(u *m264VUI) bool { return u.Restr }), func(s *m264SPS) { s.VUI.Restr = false }},
		{"vui-pic-struct", v(func(u *m264VUI) bool { return u.PicStruct }), func(s *m264SPS) { s.VUI.PicStruct = false }},
		{"vui-aspect-extended-sar", v(func(u *m264VUI) bool { return u.Aspect && u.AspectIdc == 255 }), func(s *m264SPS) { s.VUI.AspectIdc = 1 }},
		{"vui-aspect-ratio", v(func(u *m264VUI) bool { return u.Aspect }), func(s *m264SPS) { s.VUI.Aspect = false }},
		{"vui-overscan", v(func(u *m264VUI) bool { return u.Overscan }), func(s *m264SPS) { s.VUI.Overscan = false }},
		{"vui-colour-description", v(func(u *m264VUI) bool { return u.VideoSignal && u.ColourDesc }), func(s *m264SPS) { s.VUI.ColourDesc = false }},
		{"vui-video-signal-type", v(func(u *m264VUI) bool { return u.VideoSignal }), func(s *m264SPS) { s.VUI.VideoSignal = false }},
		{"vui-chroma-loc", v(func(u *m264VUI) bool { return u.ChromaLoc }), func(s *m264SPS) { s.VUI.ChromaLoc = false }},
		{"num-units-in-tick-ge-2^31", v(func(u *m264VUI) bool { return u.Timing && u.NumUnits >= 1<<31 }), func(s *m264SPS) { s.VUI.NumUnits &= 1<<31 - 1; s.VUI.NumUnits |= 1 }},
		{"vui-fixed-frame-rate", v(func(u *m264VUI) bool { return u.Timing && u.Fixed }), func(s *m264SPS) { s.VUI.Fixed = false }},
		{"vui-timing-info", v(func(u *m264VUI) bool { return u.Timing }), func(s *m264SPS) { s.VUI.Timing = false }},
		{"vui", func(s *m264SPS) bool { return s.VUI != nil }, func(s *m264SPS) { s.VUI = nil }},
		{"crop-left-right", func(s *m264SPS) bool { return s.Crop && s.CL+s.CR > 0 }, func(s *m264SPS) { s.CL, s.CR = 0, 0 }},
		{"crop-top-bottom", func(s *m264SPS) bool { return s.Crop && s.CT+s.CB > 0 }, func(s *m264SPS) { s.CT, s.CB = 0, 0 }},
		{"frame-cropping", func(s *m264SPS) bool { return s.Crop }, func(s *m264SPS) { s.Crop = false }},
		{"mbaff", func(s *m264SPS) bool { return s.Mbaff }, func(s *m264SPS) { s.Mbaff = false }},
		{"field-coded", func(s *m264SPS) bool { return !s.FrameMbsOnly }, func(s *m264SPS) { s.FrameMbsOnly = true }},
		{"poc-type-1-ref-frame-cycle", func(s *m264SPS) bool { return len(s.RefOffsets) > 0 }, func(s *m264SPS) { s.RefOffsets = nil }},
		{"poc-type-1-negative-offsets", func(s *m264SPS) bool {
			if s.OffNonRef < 0 || s.OffTopBottom < 0 {
				return true
			}
			for _, o := range s.RefOffsets {
				if o < 0 {
					return true
				}
			}
			return false
		}, func(s *m264SPS) {
			ab := func(x int64) int64 {
				if x < 0 {
					return -x
				}
				return x
			}
			s.OffNonRef, s.OffTopBottom = ab(s.OffNonRef), ab(s.OffTopBottom)
			for i := range s.RefOffsets {
				s.RefOffsets[i] = ab(s.RefOffsets[i])
			}
		}},
		{"poc-type-1", func(s *m264SPS) bool { return s.PocType == 1 }, func(s *m264SPS) { s.PocType = 0 }},
		{"poc-type-2", func(s *m264SPS) bool { return s.PocType == 2 }, func(s *m264SPS) { s.PocType = 0 }},
		{"scaling-list-use-default-first-delta", func(s *m264SPS) bool {
			return anyList(s, func(i int, l []int64) bool { return len(l) == 1 })
		}, func(s *m264SPS) {
			for i, l := range s.Lists {
				if len(l) == 1 {
					s.Lists[i] = make([]int64, size(i))
				}
			}
		}},
		{"scaling-list-early-termination", func(s *m264SPS) bool {
			return anyList(s, func(i int, l []int64) bool { return len(l) < size(i) })
		}, func(s *m264SPS) {
			for i, l := range s.Lists {
				if l != nil && len(l) < size(i) {
					s.Lists[i] = make([]int64, size(i)) // full length, all delta_scale = 0
				}
			}
		}},
		{"scaling-list-negative-delta", func(s *m264SPS) bool {
			return anyList(s, func(i int, l []int64) bool {
				for _, d := range l {
					if d < 0 {
						return true
					}
				}
				return false
			})
		}, func(s *m264SPS) {
			for i, l := range s.Lists {
				if l != nil {
					s.Lists[i] = make([]int64, size(i))
				}
			}
		}},
		{"scaling-list-8x8", func(s *m264SPS) bool {
			return anyList(s, func(i int, l []int64) bool { return i >= 6 })
		}, func(s *m264SPS) {
			for i := 6; i < 12; i++ {
				s.Lists[i] = nil
			}
		}},
		{"scaling-list-present", func(s *m264SPS) bool {
			return anyList(s, func(i int, l []int64) bool { return true })
		}, func(s *m264SPS) { s.Lists = [12][]int64{} }},
		{"scaling-matrix", func(s *m264SPS) bool { return s.ScalingMatrix }, func(s *m264SPS) { s.ScalingMatrix = false }},
		{"separate-colour-plane", func(s *m264SPS) bool { return s.SepPlane }, func(s *m264SPS) { s.SepPlane = false }},
		{"chroma-400", func(s *m264SPS) bool { return s.chromaEff() == 0 }, func(s *m264SPS) { s.Chroma = 1 }},
		{"chroma-422", func(s *m264SPS) bool { return s.chromaEff() == 2 }, func(s *m264SPS) { s.Chroma = 1 }},
		{"chroma-444", func(s *m264SPS) bool { return s.chromaEff() == 3 }, func(s *m264SPS) { s.Chroma = 1 }},
		{"bit-depth-gt-8", func(s *m264SPS) bool { return s.BitDepthL+s.BitDepthC > 0 }, func(s *m264SPS) { s.BitDepthL, s.BitDepthC = 0, 0 }},
		{"qpprime-y-zero-bypass", func(s *m264SPS) bool { return s.QpPrime }, func(s *m264SPS) { s.QpPrime = false }},
		{"profile-idc-other-high", func(s *m264SPS) bool { return m264HighSyntax(s.ProfileIdc) && s.ProfileIdc != 100 }, func(s *m264SPS) { s.ProfileIdc = 100 }},
		{"high-profile-syntax", func(s *m264SPS) bool { return m264HighSyntax(s.ProfileIdc) }, func(s *m264SPS) { s.ProfileIdc = 66 }},
		{"sps-id-nonzero", func(s *m264SPS) bool { return s.ID != 0 }, func(s *m264SPS) { s.ID = 0 }},
		{"size-ge-256-mbs", func(s *m264SPS) bool { return s.WidthMbs >= 256 || s.HeightMU >= 256 }, func(s *m264SPS) {
			s.WidthMbs, s.HeightMU = 1+(s.WidthMbs-1)%120, 1+(s.HeightMU-1)%68
		}},
	}
}
