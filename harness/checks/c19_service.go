package checks

import (
	"bufio"
	"fmt"
	"net"
	"strings"
	"time"

	"verifharness/kit"
)

// C19, real service: the matcher sets the check above exercises are the ones service.listen is SUPPOSED to register;
// here the shared port of the real service (service.listen itself) is asked. One connection per request line over
// the method / target / version grammar; the answer tells which service got the connection: an "HTTP/1.x" status
// line, an "RTSP/1.0" status line, or a close without a byte. The expectation comes from the same oracle (c19Expect).

func c19RealService(c *kit.Ctx) {
	srv := kit.StartServer(false, false, 0)
	type probe struct{ line string }
	var probes []probe
	for _, m := range c19RTSPMethods {
		for _, t := range []string{"rtsp://" + srv.Addr + "/c19/none", "*", "/c19/none"} {
			if t == "*" && m != "OPTIONS" {
				continue // routed to RTSP, but the RTSP service closes such a request without a status line: unobservable here
			}
			probes = append(probes, probe{m + " " + t + " RTSP/1.0"})
		}
	}
	for _, m := range c19HTTPMethods {
		for _, t := range []string{"/", "/api/v1/none", "*", "http://" + srv.Addr + "/x"} {
			for _, v := range []string{"HTTP/1.1", "HTTP/1.0"} {
				probes = append(probes, probe{m + " " + t + " " + v})
			}
		}
	}
	for pi, p := range probes {
		if !c.Mine(pi) {
			continue
		}
		req := p.line + "\r\nCSeq: 1\r\nHost: " + srv.Addr + "\r\nContent-Length: 0\r\nConnection: close\r\n\r\n"
		want, why := c19Expect([]byte(req))
		if want == "unjudged" {
			c.Count("real_service_unjudged_request_lines", 1)
			continue
		}
		c.Pre("C19 real service: " + p.line)
		got := "error"
		for try := 0; try < 3; try++ { // a connection-level failure before any byte is not an answer: ask again
			conn, err := net.DialTimeout("tcp", srv.Addr, 60*time.Second)
			if err != nil {
				continue
			}
			conn.Write([]byte(req))
			conn.SetReadDeadline(time.Now().Add(60 * time.Second))
			br := bufio.NewReader(conn)
			first, err := br.ReadString('\n')
			conn.Close()
			switch {
			case strings.HasPrefix(first, "HTTP/1."):
				got = "http"
			case strings.HasPrefix(first, "RTSP/1.0"):
				got = "rtsp"
			case first == "" && err != nil:
				got = "closed"
			default:
				got = "other:" + strings.TrimSpace(first)
			}
			if got != "closed" || want == "closed" {
				break
			}
			time.Sleep(50 * time.Millisecond)
		}
		c.Eval(1)
		c.Distinct("real-service/" + why + "/" + strings.SplitN(p.line, " ", 2)[0])
		c.SetAdd("real_service_routes_observed", want+"<-"+strings.SplitN(p.line, " ", 2)[0])
		if got != want {
			c.Violation(fmt.Sprintf("C19:real-service:want-%s:got-%s:%s", want, strings.SplitN(got, ":", 2)[0], strings.SplitN(p.line, " ", 2)[0]),
				map[string]interface{}{"request_line": p.line, "got": got, "want": want, "why": why})
		}
	}
}
