package checks

import (
	"encoding/base64"
	"encoding/binary"
	"encoding/hex"
	"fmt"
	"strings"
	"sync"
	"time"

	"verifharness/kit"

	"github.com/cnotch/ipchub/av/codec"
	"github.com/cnotch/ipchub/av/format/rtp"
	"github.com/cnotch/ipchub/media"
)

var (
	c15PPS264 = []byte{0x68, 0xce, 0x3c, 0x80}
	c15PPS265 = []byte{0x44, 0x01, 0xc1, 0x72, 0xb4, 0x62, 0x40}
	c15VPS265 = []byte{0x40, 0x01, 0x0c, 0x01, 0xff, 0xff, 0x01, 0x60, 0x00, 0x00, 0x03, 0x00, 0x90, 0x00, 0x00, 0x03, 0x00, 0x00, 0x03, 0x00, 0x5d, 0x95, 0x98, 0x09}
)

const c15SDPHead = "v=0\r\no=- 0 0 IN IP4 127.0.0.1\r\ns=c15\r\nc=IN IP4 127.0.0.1\r\nt=0 0\r\n"

func sdpH264(sps, pps []byte, layout int) string {
	s, p := base64.StdEncoding.EncodeToString(sps), base64.StdEncoding.EncodeToString(pps)
	var fmtp string
	switch layout % 3 {
	case 0:
		fmtp = "packetization-mode=1; sprop-parameter-sets=" + s + "," + p + "; profile-level-id=640028"
	case 1:
		fmtp = "sprop-parameter-sets=" + s + "," + p
	default:
		fmtp = "packetization-mode=1;profile-level-id=42001e;sprop-parameter-sets=" + s + "," + p
	}
	return c15SDPHead + "m=video 0 RTP/AVP 96\r\nb=AS:2500\r\na=rtpmap:96 H264/90000\r\na=fmtp:96 " + fmtp + "\r\na=control:streamid=0\r\n"
}

var sdpH265Layouts = []string{"sprop-first", "sprop-only-nospace", "sprop-last", "sprop-then-other-param"}

func sdpH265(vps, sps, pps []byte, layout int) string {
	v, s, p := base64.StdEncoding.EncodeToString(vps), base64.StdEncoding.EncodeToString(sps), base64.StdEncoding.EncodeToString(pps)
	var fmtp string
	switch layout % 4 {
	case 0:
		fmtp = "sprop-vps=" + v + "; sprop-sps=" + s + "; sprop-pps=" + p
	case 1:
		fmtp = "sprop-vps=" + v + ";sprop-sps=" + s + ";sprop-pps=" + p
	case 2:
		fmtp = "profile-id=1;level-id=93;sprop-vps=" + v + ";sprop-sps=" + s + ";sprop-pps=" + p
	default:
		fmtp = "sprop-vps=" + v + ";sprop-sps=" + s + ";sprop-pps=" + p + ";profile-id=1"
	}
	return c15SDPHead + "m=video 0 RTP/AVP 96\r\na=rtpmap:96 H265/90000\r\na=fmtp:96 " + fmtp + "\r\na=control:streamid=0\r\n"
}

func sdpAAC(cfg []byte, rate, channels int, omitChannels bool) string {
	rm := fmt.Sprintf("MPEG4-GENERIC/%d/%d", rate, channels)
	if omitChannels {
		rm = fmt.Sprintf("MPEG4-GENERIC/%d", rate)
	}
	return c15SDPHead + "m=audio 0 RTP/AVP 97\r\nb=AS:160\r\na=rtpmap:97 " + rm +
		"\r\na=fmtp:97 profile-level-id=1;mode=AAC-hbr;sizelength=13;indexlength=3;indexdeltalength=3; config=" + hex.EncodeToString(cfg) + "\r\na=control:streamid=1\r\n"
}

type c15Consumer struct {
	mu   sync.Mutex
	got  chan struct{}
	once sync.Once
	n    int
}

func (x *c15Consumer) Consume(p media.Pack) {
	x.mu.Lock()
	x.n++
	x.mu.Unlock()
	x.once.Do(func() { close(x.got) })
}
func (x *c15Consumer) Close() error { return nil }

func c15RtpPacket(channel byte, pt byte, payload []byte) (*rtp.Packet, error) {
	data := make([]byte, 12+len(payload))
	data[0] = 0x80
	data[1] = 0x80 | pt
	binary.BigEndian.PutUint16(data[2:], 1)
	binary.BigEndian.PutUint32(data[4:], 90000)
	binary.BigEndian.PutUint32(data[8:], 0x11223344)
	copy(data[12:], payload)
	p := &rtp.Packet{Channel: channel, Data: data}
	if err := p.Header.Unmarshal(data); err != nil {
		return nil, err
	}
	return p, nil
}

type c15StreamRes struct {
	Video   codec.VideoMeta
	Audio   codec.AudioMeta
	NilStrm bool
	Relay   string // "", "ok", or the failure
}

// stream runs media.NewStream on the SDP under the watchdog; with relay it also pushes one RTP packet through.
func (k *c15) stream(sdp string, kind string, relay bool) (c15StreamRes, c15Guarded) {
	var res c15StreamRes
	c15Pre(k.c, "media.NewStream "+sdp)
	var s *media.Stream
	g := c15Guard(func() {
		s = media.NewStream(fmt.Sprintf("/c15/s%d", k.c.Shard), sdp)
		if s == nil {
			res.NilStrm = true
			return
		}
		res.Video, res.Audio = s.Video, s.Audio
	})
	if g.Hung || g.Panic != "" || s == nil {
		return res, g
	}
	if relay {
		var payload []byte
		ch, pt := byte(rtp.ChannelVideo), byte(96)
		switch kind {
		case "h264":
			payload = []byte{0x65, 0x88, 0x84, 0x00, 0x10, 0xff}
		case "hevc":
			payload = []byte{0x26, 0x01, 0xaf, 0x08, 0x40, 0x10}
		default:
			ch, pt = rtp.ChannelAudio, 97
			payload = []byte{0x00, 0x10, 0x00, 0x20, 0x21, 0x10, 0x04, 0x60}
		}
		pkt, err := c15RtpPacket(ch, pt, payload)
		if err != nil {
			res.Relay = "harness: cannot build rtp packet: " + err.Error()
		} else {
			cons := &c15Consumer{got: make(chan struct{})}
			var werr error
			g2 := c15Guard(func() {
				s.StartConsume(cons, media.RTPPacket, "c15")
				werr = s.WriteRtpPacket(pkt)
			})
			switch {
			case g2.Hung || g2.Panic != "":
				g = g2
			case werr != nil:
				res.Relay = "WriteRtpPacket error: " + werr.Error()
			default:
				t := time.NewTimer(c15Watchdog)
				select {
				case <-cons.got:
					res.Relay = "ok"
				case <-t.C:
					res.Relay = "timeout"
				}
				t.Stop()
			}
		}
	}
	g3 := c15Guard(func() { s.Close() })
	if g.Panic == "" && !g.Hung && (g3.Panic != "" || g3.Hung) {
		g = g3
	}
	return res, g
}

func (k *c15) relayVerdict(codecName string, res c15StreamRes, detail map[string]interface{}) {
	switch res.Relay {
	case "", "ok":
		if res.Relay == "ok" {
			k.count("sdp_streams_relayed_rtp_to_consumer", 1)
		}
	case "timeout":
		k.c.Inconclusive("sdp-relay-watchdog:" + codecName)
	default:
		detail["relay"] = res.Relay
		k.c.Violation("C15:sdp-"+codecName+":stream-does-not-relay-rtp", detail)
	}
}

func (k *c15) runSDP() {
	c := k.c
	n := c.Pick(1200, 24000)
	for i := 0; i < n; i++ {
		if !c.Mine(i) {
			continue
		}
		rng := c.SubRng("c15-sdp", i)
		relay := i%4 == 0
		switch i % 3 {
		case 0: // H.264
			var m *m264SPS
			if dir := directed264(); i/3 < len(dir) {
				m = dir[i/3]
			} else {
				m = m264Gen(rng)
			}
			nal, _ := m.encode(nil)
			layout := rng.Intn(3)
			if i/3 < 13 {
				layout = (i / 3) % 3
			}
			sdp := sdpH264(nal, c15PPS264, layout)
			res, g := k.stream(sdp, "h264", relay)
			c.Eval(1)
			k.count("sdp_h264_streams", 1)
			k.count(fmt.Sprintf("sdp_h264_fmtp_layout_%d", layout), 1)
			detail := map[string]interface{}{"case": i, "sdp": sdp}
			if k.guardFinding("sdp-h264", "media.NewStream", g, nal, detail) {
				continue
			}
			k.relayVerdict("h264", res, detail)
			exp := m.expect()
			so := c15Out{W: res.Video.Width, H: res.Video.Height, FPS: res.Video.FrameRate, Fixed: res.Video.FixedFrameRate}
			probs := c15Judge(exp, so)
			if len(probs) == 0 {
				k.count("sdp_h264_stream_metadata_equal", 1)
				continue
			}
			do, _, _ := k.decode264(nal)
			if do.Err != "" {
				do = c15Out{}
			}
			if do.W == so.W && do.H == so.H && c15FpsEq(do.FPS, so.FPS) && do.Fixed == so.Fixed {
				k.count("sdp_h264_mismatch_same_as_direct_decode(reported_there)", 1)
				continue
			}
			detail["mismatch"], detail["stream"], detail["decoder"] = probs, fmt.Sprintf("%+v", so), fmt.Sprintf("%+v", do)
			c.Violation(fmt.Sprintf("C15:sdp-h264:stream-metadata-differs-from-decoder:layout-%d", layout), detail)
		case 1: // H.265
			var m *m265SPS
			if dir := directed265(); i/3 < len(dir) {
				m = dir[i/3]
			} else {
				m = m265Gen(rng)
			}
			nal, _ := m.encode(nil)
			vps := c15VPS265
			vm := m265GenVPS(rng)
			if rng.Intn(2) == 0 && vm.NumLayerSets < 200 {
				vps, _ = vm.encode(nil)
			}
			layout := rng.Intn(4)
			if i/3 < 8 {
				layout = (i / 3) % 4
			}
			sdp := sdpH265(vps, nal, c15PPS265, layout)
			res, g := k.stream(sdp, "hevc", relay)
			c.Eval(1)
			k.count("sdp_hevc_streams", 1)
			k.count("sdp_hevc_fmtp_layout:"+sdpH265Layouts[layout], 1)
			detail := map[string]interface{}{"case": i, "sdp": sdp, "fmtp_layout": sdpH265Layouts[layout]}
			if k.guardFinding("sdp-hevc", "media.NewStream", g, nal, detail) {
				continue
			}
			k.relayVerdict("hevc", res, detail)
			exp := m.expect()
			if !exp.HasFPS && vm.Timing {
				k.count("sdp_hevc_unjudged_framerate_only_in_vps_timing(reported_0_accepted)", 1)
			}
			so := c15Out{W: res.Video.Width, H: res.Video.Height, FPS: res.Video.FrameRate}
			probs := c15Judge(exp, so)
			if len(probs) == 0 {
				k.count("sdp_hevc_stream_metadata_equal", 1)
				continue
			}
			do, _, _ := k.decode265(nal)
			if do.Err != "" {
				do = c15Out{}
			}
			if do.W == so.W && do.H == so.H && c15FpsEq(do.FPS, so.FPS) {
				k.count("sdp_hevc_mismatch_same_as_direct_decode(reported_there)", 1)
				continue
			}
			detail["mismatch"], detail["stream"], detail["decoder"] = probs, fmt.Sprintf("%+v", so), fmt.Sprintf("%+v", do)
			c.Violation("C15:sdp-hevc:stream-metadata-differs-from-decoder:fmtp-"+sdpH265Layouts[layout], detail)
		default: // AAC
			var m *mASC
			if dir := directedASC(); i/3 < len(dir) {
				m = dir[i/3]
			} else {
				m = mascGen(rng)
			}
			cfg, _, _ := m.encode()
			exp := m.expect()
			if exp.Channels < 0 || exp.ExtRate > 0 {
				// rtpmap rate / channel count for SBR/PS or PCE configurations is not defined unambiguously: exercised, not judged
				sdp := sdpAAC(cfg, exp.CoreRate, 2, false)
				res, g := k.stream(sdp, "aac", relay)
				c.Eval(1)
				k.count("sdp_aac_unjudged_sbr_or_pce_configs", 1)
				if !k.guardFinding("sdp-aac", "media.NewStream", g, cfg, map[string]interface{}{"case": i, "sdp": sdp}) {
					k.relayVerdict("aac", res, map[string]interface{}{"case": i, "sdp": sdp})
				}
				continue
			}
			omit := exp.Channels == 1 && (i/3 < 10 || rng.Intn(2) == 0) // RFC 4566: channel count may be omitted when it is 1
			sdp := sdpAAC(cfg, exp.CoreRate, exp.Channels, omit)
			res, g := k.stream(sdp, "aac", relay)
			c.Eval(1)
			k.count("sdp_aac_streams", 1)
			if omit {
				k.count("sdp_aac_rtpmap_without_channel_count", 1)
			}
			detail := map[string]interface{}{"case": i, "sdp": sdp, "expect": fmt.Sprintf("%+v", exp),
				"stream": fmt.Sprintf("rate=%d channels=%d", res.Audio.SampleRate, res.Audio.Channels)}
			if k.guardFinding("sdp-aac", "media.NewStream", g, cfg, detail) {
				continue
			}
			k.relayVerdict("aac", res, detail)
			var probs []string
			if res.Audio.SampleRate != exp.CoreRate {
				probs = append(probs, "samplerate")
			}
			if res.Audio.Channels != exp.Channels {
				probs = append(probs, "channels")
			}
			if len(probs) == 0 {
				k.count("sdp_aac_stream_metadata_equal", 1)
				continue
			}
			detail["mismatch"] = probs
			cls := "rtpmap-with-channel-count"
			if omit {
				cls = "rtpmap-channel-count-omitted-config-not-consulted"
			}
			c.Violation("C15:sdp-aac:"+strings.Join(probs, "+")+":"+cls, detail)
		}
	}
	for _, site := range kit.Log.TakePanics() {
		c.SetAdd("recovered_panic_sites_in_converters(positive_sdp)", site)
	}
}
