package checks

import (
	"bufio"
	"bytes"
	"encoding/binary"
	"fmt"
	"io"
	"net"
	"net/http"
	"os"
	"strings"
	"sync"
	"sync/atomic"
	"time"

	"verifharness/kit"

	"github.com/cnotch/ipchub/media"
	"github.com/gorilla/websocket"
)

// C01, transport part: a real RECORD publisher feeds unique-id packets through the in-process server; real
// clients on every transport record what they receive. Oracle per client: publish order, at most once,
// byte identity with what the publisher sent, no hole between the first packet received and the sentinel
// (reliable transports), channel numbers as negotiated in SETUP.

type c01tRec struct {
	name     string
	reliable bool
	mu       sync.Mutex
	ids      []uint32
	bad      string
}

func (r *c01tRec) add(id uint32) {
	r.mu.Lock()
	r.ids = append(r.ids, id)
	r.mu.Unlock()
}

func (r *c01tRec) fail(why string) {
	r.mu.Lock()
	if r.bad == "" {
		r.bad = why
	}
	r.mu.Unlock()
}

type c01tPub struct {
	mu    sync.Mutex
	video map[uint32][]byte // id -> RTP packet bytes as sent (video channel)
	audio map[uint32][]byte
	nals  map[uint32][]byte // id -> NAL unit
	rtcp  map[uint32][]byte // id -> RTCP packet bytes as sent (video control channel)
}

// c01SSRC identifies this process's publisher: multicast groups and ports are allocated from a per-process counter, so
// two check processes running at the same time on one host send to the same group; the other one's datagrams are foreign.
var c01SSRC = 0x51510000 | uint32(os.Getpid()&0xffff)

// c01RTCP builds a 28-byte sender report whose packet-count field carries the id.
func c01RTCP(id uint32) []byte {
	b := make([]byte, 28)
	b[0], b[1], b[3] = 0x80, 200, 6
	binary.BigEndian.PutUint32(b[4:], c01SSRC)
	binary.BigEndian.PutUint32(b[8:], 0x83aa7e80+1000+id) // NTP seconds
	binary.BigEndian.PutUint32(b[16:], id*3000)           // RTP timestamp
	binary.BigEndian.PutUint32(b[20:], id)                // sender's packet count = id
	binary.BigEndian.PutUint32(b[24:], 0xC0DEC0DE)
	return b
}

// checkRTCP verifies a received control packet against what was published.
func (p *c01tPub) checkRTCP(d []byte) bool {
	if len(d) != 28 || d[1] != 200 {
		return false
	}
	id := binary.BigEndian.Uint32(d[20:])
	p.mu.Lock()
	want, ok := p.rtcp[id]
	p.mu.Unlock()
	return ok && bytes.Equal(want, d)
}

// checkRTP verifies a received RTP packet against what was published; returns the id.
func (p *c01tPub) checkRTP(r *c01tRec, d []byte, audio bool) (uint32, bool) {
	if len(d) < 12 {
		r.fail(fmt.Sprintf("RTP packet of %d bytes", len(d)))
		return 0, false
	}
	id := binary.BigEndian.Uint32(d[4:8]) // RTP timestamp carries the publish index
	p.mu.Lock()
	want := p.video[id]
	if audio {
		want = p.audio[id]
	}
	p.mu.Unlock()
	if want == nil {
		r.fail(fmt.Sprintf("packet with unknown id %d", id))
		return id, false
	}
	if !bytes.Equal(want, d) {
		r.fail(fmt.Sprintf("payload of packet %d differs from what was published (len %d vs %d)", id, len(d), len(want)))
		return id, false
	}
	return id, true
}

func c01RunTransports(c *kit.Ctx) {
	srv := kit.StartServer(false, false, 0)
	nruns := c.Pick(1, 12)
	for run := 0; run < nruns; run++ {
		if !c.Mine(run) {
			continue
		}
		path := fmt.Sprintf("/c01t/s%d-%d", c.Shard, run)
		c.Pre("C01 transports " + path)
		pubc, err := kit.DialRTSP(srv.Addr)
		if err != nil {
			c.Inconclusive("transport part: dial failed")
			return
		}
		if _, err := pubc.Publish(srv.URL(path), kit.SDPH264AAC); err != nil {
			c.Inconclusive("transport part: publish handshake failed: " + err.Error())
			pubc.Close()
			return
		}
		waitUntil(func() bool { return media.Get(path) != nil }, 5*time.Second)
		pub := &c01tPub{video: map[uint32][]byte{}, audio: map[uint32][]byte{}, nals: map[uint32][]byte{}, rtcp: map[uint32][]byte{}}
		var ctlTCP, ctlUDP, ctlPublished int64 // control packets received intact on rtsp-tcp / rtsp-udp, and published
		var ctlMu sync.Mutex
		ctlTCPIDs := map[uint32]bool{}             // ids of the control packets the rtsp-tcp player received intact
		mcLeave := make(chan struct{})             // closed by the publisher when the companion multicast member shall leave
		var mcLeft int32                           // set when it has left
		var mcLeftAt uint32                        // id being published when it had left
		n := 400 + c.SubRng("c01t", run).Intn(300) // video+audio+filler stay below the 1000-packet backlog limit
		sentinel := uint32(n + 1)
		var stop int32
		var recs []*c01tRec
		var wg sync.WaitGroup
		start := func(name string, reliable bool, f func(r *c01tRec)) {
			r := &c01tRec{name: name, reliable: reliable}
			recs = append(recs, r)
			wg.Add(1)
			go func() { defer wg.Done(); f(r) }()
		}
		ready := make(chan string, 16)

		// ---- RTSP over TCP, client-chosen channels 4-5 / 6-7
		start("rtsp-tcp", true, func(r *c01tRec) {
			cl, err := kit.DialRTSP(srv.Addr)
			if err != nil {
				r.fail("dial")
				ready <- r.name
				return
			}
			defer cl.Close()
			if _, err := cl.Play(srv.URL(path), 4, 6); err != nil {
				r.fail("handshake: " + err.Error())
				ready <- r.name
				return
			}
			ready <- r.name
			go func() { // a read that times out in the middle of an item would lose the bytes already taken: end the reader by closing
				for atomic.LoadInt32(&stop) == 0 {
					time.Sleep(20 * time.Millisecond)
				}
				cl.Close()
			}()
			for atomic.LoadInt32(&stop) == 0 {
				it, err := cl.Next(120 * time.Second)
				if err != nil {
					if _, torn := err.(*kit.ErrTorn); torn && atomic.LoadInt32(&stop) == 0 {
						r.fail("torn byte stream: " + err.Error())
					} else if atomic.LoadInt32(&stop) == 0 {
						c.Note("reader_ended_before_stop_rtsp-tcp", err.Error())
					}
					return
				}
				if it.Frame == nil {
					continue
				}
				switch it.Frame.Channel {
				case 4:
					if id, ok := pub.checkRTP(r, it.Frame.Data, false); ok {
						r.add(id)
					}
				case 6:
					pub.checkRTP(r, it.Frame.Data, true)
				case 5:
					if pub.checkRTCP(it.Frame.Data) {
						atomic.AddInt64(&ctlTCP, 1)
						ctlMu.Lock()
						ctlTCPIDs[binary.BigEndian.Uint32(it.Frame.Data[20:])] = true
						ctlMu.Unlock()
					} else {
						r.fail("control-channel packet differs from what was published")
					}
				case 7:
				default:
					r.fail(fmt.Sprintf("frame on channel %d, negotiated 4-7", it.Frame.Channel))
				}
			}
		})
		// ---- RTSP over WebSocket
		start("ws-rtsp", true, func(r *c01tRec) {
			cl, _, err := kit.DialRTSPWebSocket(srv.Addr, path, "")
			if err != nil {
				r.fail("dial")
				ready <- r.name
				return
			}
			defer cl.Close()
			if _, err := cl.Play(srv.URL(path), 0, 2); err != nil {
				r.fail("handshake: " + err.Error())
				ready <- r.name
				return
			}
			ready <- r.name
			go func() { // a gorilla connection must not be read again after a timeout: close it to end the reader
				for atomic.LoadInt32(&stop) == 0 {
					time.Sleep(20 * time.Millisecond)
				}
				cl.Close()
			}()
			for atomic.LoadInt32(&stop) == 0 {
				it, err := cl.Next(120 * time.Second)
				if err != nil {
					if _, torn := err.(*kit.ErrTorn); torn && atomic.LoadInt32(&stop) == 0 {
						r.fail("torn message: " + err.Error())
					}
					return
				}
				if it.Frame != nil && it.Frame.Channel == 0 {
					if id, ok := pub.checkRTP(r, it.Frame.Data, false); ok {
						r.add(id)
					}
				}
			}
		})
		// ---- WSP (control + data channel)
		start("wsp", true, func(r *c01tRec) {
			w, err := wspDial(srv.Addr, path)
			if err != nil {
				r.fail("dial: " + err.Error())
				ready <- r.name
				return
			}
			defer w.close()
			go func() {
				for atomic.LoadInt32(&stop) == 0 {
					time.Sleep(20 * time.Millisecond)
				}
				w.close()
			}()
			cl := &kit.RTSPClient{}
			base := srv.URL(path)
			for _, st := range [][3]string{{"DESCRIBE", base, ""}, {"SETUP", base + "/streamid=0", "RTP/AVP/TCP;unicast;interleaved=0-1"}, {"SETUP", base + "/streamid=1", "RTP/AVP/TCP;unicast;interleaved=2-3"}, {"PLAY", base, ""}} {
				h := map[string]string{}
				if st[2] != "" {
					h["Transport"] = st[2]
				}
				resp, _, err := w.wrap(cl.BuildRequest(st[0], st[1], h, ""))
				if err != nil || resp.Code != 200 {
					r.fail("handshake " + st[0])
					ready <- r.name
					return
				}
			}
			ready <- r.name
			for atomic.LoadInt32(&stop) == 0 {
				w.data.SetReadDeadline(time.Now().Add(120 * time.Second))
				_, msg, err := w.data.ReadMessage()
				if err != nil {
					return
				}
				it, err := kit.ParseRTSPItem(bufio.NewReader(bytes.NewReader(msg)))
				if err != nil || it.Frame == nil {
					r.fail("data-channel message is not a frame")
					continue
				}
				if it.Frame.Channel == 0 {
					if id, ok := pub.checkRTP(r, it.Frame.Data, false); ok {
						r.add(id)
					}
				}
			}
		})
		// ---- RTSP over UDP
		start("rtsp-udp", false, func(r *c01tRec) {
			vs, err1 := net.ListenUDP("udp", &net.UDPAddr{IP: net.IPv4(127, 0, 0, 1)})
			// the RTCP socket: any port the client likes - in even runs one BELOW the RTP port (players that bind two
			// unrelated ephemeral sockets negotiate such pairs), otherwise wherever the system puts it
			var vc *net.UDPConn
			var err2 error
			if err1 == nil && run%2 == 0 {
				for d := 1; d <= 20 && vc == nil; d++ {
					vc, _ = net.ListenUDP("udp", &net.UDPAddr{IP: net.IPv4(127, 0, 0, 1), Port: vs.LocalAddr().(*net.UDPAddr).Port - d})
				}
			}
			if vc == nil {
				vc, err2 = net.ListenUDP("udp", &net.UDPAddr{IP: net.IPv4(127, 0, 0, 1)})
			}
			if err1 != nil || err2 != nil {
				r.fail("udp listen")
				ready <- r.name
				return
			}
			defer vs.Close()
			defer vc.Close()
			vs.SetReadBuffer(4 << 20)
			cl, err := kit.DialRTSP(srv.Addr)
			if err != nil {
				r.fail("dial")
				ready <- r.name
				return
			}
			defer cl.Close()
			base := srv.URL(path)
			p1, p2 := vs.LocalAddr().(*net.UDPAddr).Port, vc.LocalAddr().(*net.UDPAddr).Port
			ok := true
			for _, st := range [][3]string{{"DESCRIBE", base, ""}, {"SETUP", base + "/streamid=0", fmt.Sprintf("RTP/AVP;unicast;client_port=%d-%d", p1, p2)}, {"PLAY", base, ""}} {
				h := map[string]string{}
				if st[2] != "" {
					h["Transport"] = st[2]
				}
				resp, err := cl.Do(st[0], st[1], h, "")
				if err != nil || resp.Code != 200 {
					ok = false
				}
			}
			if !ok {
				r.fail("handshake")
				ready <- r.name
				return
			}
			c.SetAdd("udp_client_port_pairs", map[bool]string{true: "rtcp-port-below-rtp-port", false: "rtcp-port-above-rtp-port"}[p2 < p1])
			go func() { // the negotiated RTCP port
				cb := make([]byte, 2048)
				for atomic.LoadInt32(&stop) == 0 {
					vc.SetReadDeadline(time.Now().Add(500 * time.Millisecond))
					k, _, err := vc.ReadFromUDP(cb)
					if err == nil && pub.checkRTCP(cb[:k]) {
						atomic.AddInt64(&ctlUDP, 1)
					}
				}
			}()
			ready <- r.name
			buf := make([]byte, 70000)
			for atomic.LoadInt32(&stop) == 0 {
				vs.SetReadDeadline(time.Now().Add(500 * time.Millisecond))
				k, _, err := vs.ReadFromUDP(buf)
				if err != nil {
					continue
				}
				if id, ok := pub.checkRTP(r, append([]byte(nil), buf[:k]...), false); ok {
					r.add(id)
				}
			}
		})
		// ---- multicast (only in shard 0: multicast groups/ports are allocated from a per-process counter, so the
		// shard processes would otherwise share groups)
		if c.Shard == 0 {
			start("multicast", false, func(r *c01tRec) {
				base := srv.URL(path)
				// An earlier generation of multicast members: one viewer plays and leaves before the viewer that is
				// judged joins. The proxy is shared per stream and restarted for every new group of members;
				// "what a consumer receives never depends on ... when others attach or detach".
				if g1, err := kit.DialRTSP(srv.Addr); err == nil {
					ok := true
					for _, st := range [][2]string{{"DESCRIBE", base}, {"SETUP", base + "/streamid=0"}, {"PLAY", base}, {"TEARDOWN", base}} {
						h := map[string]string{}
						if st[0] == "SETUP" {
							h["Transport"] = "RTP/AVP;multicast"
						}
						if resp, err := g1.Do(st[0], st[1], h, ""); err != nil || resp.Code != 200 {
							ok = false
							break
						}
					}
					g1.Close()
					if ok {
						c.Count("multicast_earlier_generation_played_and_left", 1)
						time.Sleep(150 * time.Millisecond) // let the server finish the first member's teardown (not verdict-relevant)
					}
				}
				// A companion member of the SAME generation: it joins before the judged member and leaves in the middle of
				// the publication (mcLeave is closed by the publisher). The judged member must go on receiving.
				if comp, err := kit.DialRTSP(srv.Addr); err == nil {
					ok := true
					for _, st := range [][2]string{{"DESCRIBE", base}, {"SETUP", base + "/streamid=0"}, {"PLAY", base}} {
						h := map[string]string{}
						if st[0] == "SETUP" {
							h["Transport"] = "RTP/AVP;multicast"
						}
						if resp, err := comp.Do(st[0], st[1], h, ""); err != nil || resp.Code != 200 {
							ok = false
							break
						}
					}
					if ok {
						go func() {
							<-mcLeave
							comp.Do("TEARDOWN", base, nil, "")
							comp.Close()
							atomic.StoreInt32(&mcLeft, 1)
						}()
					} else {
						comp.Close()
					}
				}
				cl, err := kit.DialRTSP(srv.Addr)
				if err != nil {
					r.fail("dial")
					ready <- r.name
					return
				}
				defer cl.Close()
				if resp, err := cl.Do("DESCRIBE", base, nil, ""); err != nil || resp.Code != 200 {
					r.fail("handshake DESCRIBE")
					ready <- r.name
					return
				}
				resp, err := cl.Do("SETUP", base+"/streamid=0", map[string]string{"Transport": "RTP/AVP;multicast"}, "")
				if err != nil || resp.Code != 200 {
					r.fail("handshake SETUP")
					ready <- r.name
					return
				}
				tr := resp.Get("Transport")
				var group string
				var port int
				for _, kv := range strings.Split(tr, ";") {
					if strings.HasPrefix(kv, "destination=") {
						group = kv[len("destination="):]
					}
					if strings.HasPrefix(kv, "port=") {
						fmt.Sscanf(kv[len("port="):], "%d", &port)
					}
				}
				ifi, _ := net.InterfaceByName("eth0")
				mc, err := net.ListenMulticastUDP("udp4", ifi, &net.UDPAddr{IP: net.ParseIP(group), Port: port})
				if err != nil || group == "" {
					r.fail("handshake multicast join: " + fmt.Sprint(err) + " " + tr)
					ready <- r.name
					return
				}
				defer mc.Close()
				mc.SetReadBuffer(4 << 20)
				if resp, err := cl.Do("PLAY", base, nil, ""); err != nil || resp.Code != 200 {
					r.fail("handshake PLAY")
					ready <- r.name
					return
				}
				ready <- r.name
				buf := make([]byte, 70000)
				var drainUntil time.Time
				for {
					if atomic.LoadInt32(&stop) != 0 {
						if drainUntil.IsZero() {
							drainUntil = time.Now().Add(5 * time.Second)
						} else if time.Now().After(drainUntil) {
							break // foreign traffic on the group can keep the socket busy for ever
						}
					}
					mc.SetReadDeadline(time.Now().Add(500 * time.Millisecond))
					k, _, err := mc.ReadFromUDP(buf)
					if err != nil {
						if atomic.LoadInt32(&stop) != 0 {
							break // drained: what the socket still held when the run ended was read first (a lagging reader is not a cut-off member)
						}
						continue
					}
					if k >= 12 && binary.BigEndian.Uint32(buf[8:12]) != c01SSRC {
						// datagram of some other sender on the same multicast group/port (another process on this host)
						c.Count("foreign_multicast_datagrams_ignored", 1)
						continue
					}
					if id, ok := pub.checkRTP(r, append([]byte(nil), buf[:k]...), false); ok {
						r.add(id)
					}
				}
			})
		}
		// ---- HTTP-FLV and WS-FLV: ids are recovered from the NAL inside each video tag
		flvConsume := func(r *c01tRec, rd io.Reader) {
			br := bufio.NewReaderSize(rd, 512) // small: net/http's chunked reader holds already-read bytes back while it waits for the rest of a partially received chunk
			hdr := make([]byte, 13)
			if _, err := io.ReadFull(br, hdr); err != nil || string(hdr[:3]) != "FLV" {
				r.fail(fmt.Sprintf("no FLV header (%v %q)", err, hdr))
				return
			}
			for atomic.LoadInt32(&stop) == 0 {
				th := make([]byte, 11)
				if _, err := io.ReadFull(br, th); err != nil {
					return
				}
				size := int(th[1])<<16 | int(th[2])<<8 | int(th[3])
				body := make([]byte, size+4)
				if _, err := io.ReadFull(br, body); err != nil {
					return
				}
				c.Count("flv_tags_seen_"+r.name, 1)
				if th[0] == 9 && size > 9 && body[1] == 1 { // AVC NALU
					nal := body[9:size]
					if len(nal) >= 13 {
						if id64, ok := kit.CheckBody(nal[1:]); ok {
							id := uint32(id64)
							pub.mu.Lock()
							want := pub.nals[id]
							pub.mu.Unlock()
							if want == nil || !bytes.Equal(want, nal) {
								r.fail(fmt.Sprintf("FLV video tag NAL of id %d differs from the published NAL", id))
							} else {
								r.add(id)
							}
						} else {
							r.fail("FLV video tag carries a damaged NAL")
						}
					}
				}
			}
		}
		start("http-flv", true, func(r *c01tRec) {
			resp, err := http.Get("http://" + srv.Addr + "/streams" + path + ".flv")
			if err != nil || resp.StatusCode != 200 {
				r.fail("http get")
				ready <- r.name
				return
			}
			defer resp.Body.Close()
			ready <- r.name
			flvConsume(r, resp.Body)
		})
		start("ws-flv", true, func(r *c01tRec) {
			d := websocket.Dialer{HandshakeTimeout: 60 * time.Second}
			ws, _, err := d.Dial("ws://"+srv.Addr+"/streams"+path+".flv", nil)
			if err != nil {
				r.fail("ws dial")
				ready <- r.name
				return
			}
			defer ws.Close()
			ready <- r.name
			pr, pw := io.Pipe()
			go func() {
				for {
					_, msg, err := ws.ReadMessage()
					if err != nil {
						pw.Close()
						return
					}
					pw.Write(msg)
				}
			}()
			flvConsume(r, pr)
		})

		for range recs {
			select {
			case <-ready:
			case <-time.After(15 * time.Second):
			}
		}
		time.Sleep(50 * time.Millisecond) // PLAY responses precede the attach by a few instructions
		// ---- publish
		for i := 1; i <= n+1; i++ {
			id := uint32(i)
			typ := byte(1)
			if i%30 == 1 {
				typ = 5
			}
			size := 40 + (i*37)%1200
			burst := i > n/3 && i <= n/3+48
			if burst {
				// a back-to-back burst of large packets (> the 128 KiB session write buffer within one flush tick):
				// the buffered connection must keep the byte order when a block does not fit the remaining space
				size = 9000 + (i*131)%6000
			}
			nal := kit.H264NAL(2, typ, size, uint64(id))
			pk := kit.MakeRTP(kit.ChVideo, 96, true, uint16(i), id, c01SSRC, nal)
			pub.mu.Lock()
			pub.video[id] = pk.Data
			pub.nals[id] = nal
			pub.mu.Unlock()
			if pubc.WriteFrame(0, pk.Data) != nil {
				break
			}
			if i == n/2 {
				close(mcLeave)
				waitUntil(func() bool { return atomic.LoadInt32(&mcLeft) != 0 }, 900*time.Millisecond)
				if atomic.LoadInt32(&mcLeft) != 0 {
					time.Sleep(100 * time.Millisecond) // the server handles the teardown
					mcLeftAt = id
				}
			}
			if i%10 == 5 { // a sender report on the video control channel
				rp := c01RTCP(id)
				pub.mu.Lock()
				pub.rtcp[id] = rp
				pub.mu.Unlock()
				if pubc.WriteFrame(1, rp) == nil {
					atomic.AddInt64(&ctlPublished, 1)
				}
			}
			if i%4 == 0 {
				ap := kit.MakeRTP(kit.ChAudio, 97, true, uint16(i), id, 0x5152, kit.AACHbr([][]byte{kit.AACAU(30, uint64(id))}))
				pub.mu.Lock()
				pub.audio[id] = ap.Data
				pub.mu.Unlock()
				pubc.WriteFrame(2, ap.Data)
			}
			if i%20 == 0 && !burst {
				time.Sleep(time.Millisecond)
			}
		}
		// spaced filler so that buffered writers flush their tail (excluded from the verdict: ids above the sentinel).
		// The session's buffered connection flushes only on a write that comes later than its flush interval after the
		// previous flush: fillers that reach the server bunched together (a starved server under load) leave the tail
		// in the buffer, so more fillers follow, well spaced, until every reliable reader has the sentinel.
		filler := func(k int) {
			id := uint32(n + 2 + k)
			nal := kit.H264NAL(2, 1, 900, uint64(id))
			pk := kit.MakeRTP(kit.ChVideo, 96, true, uint16(id), id, c01SSRC, nal)
			pub.mu.Lock()
			pub.video[id] = pk.Data
			pub.nals[id] = nal
			pub.mu.Unlock()
			pubc.WriteFrame(0, pk.Data)
		}
		allHaveSentinel := func() bool {
			for _, r := range recs {
				if !r.reliable {
					continue
				}
				r.mu.Lock()
				got := false
				for _, id := range r.ids {
					if id >= sentinel {
						got = true
					}
				}
				bad := r.bad != ""
				r.mu.Unlock()
				if !got && !bad {
					return false
				}
			}
			return true
		}
		for k := 0; k < 12; k++ {
			filler(k)
			time.Sleep(40 * time.Millisecond)
		}
		for k := 12; k < 12+150 && !allHaveSentinel(); k++ {
			filler(k)
			time.Sleep(200 * time.Millisecond)
			c.Count("extra_fillers_to_flush_the_tail", 1)
		}
		waitUntil(allHaveSentinel, 10*time.Second)
		atomic.StoreInt32(&stop, 1)
		pubc.Close()
		wg.Wait()
		// ---- judge
		c.Count("control_packets_published", atomic.LoadInt64(&ctlPublished))
		c.Count("control_packets_received_rtsp-tcp", atomic.LoadInt64(&ctlTCP))
		c.Count("control_packets_received_rtsp-udp", atomic.LoadInt64(&ctlUDP))
		for _, r := range recs {
			if (r.name == "rtsp-tcp" || r.name == "rtsp-udp") && r.bad == "" && len(r.ids) > 0 && atomic.LoadInt64(&ctlPublished) > 10 {
				if r.name == "rtsp-udp" {
					if atomic.LoadInt64(&ctlUDP) == 0 {
						c.Violation("C01:transport:control-channel-packets-not-delivered-to-negotiated-destination:"+r.name,
							map[string]interface{}{"transport": r.name, "published": atomic.LoadInt64(&ctlPublished), "received": 0})
					}
					continue
				}
				// rtsp-tcp is reliable and ordered across channels: every control packet published before the last video
				// packet the player received must have arrived (how far the player got before the run ended is not judged)
				r.mu.Lock()
				lastVideo, firstVideo := uint32(0), r.ids[0]
				for _, id := range r.ids {
					if id > lastVideo {
						lastVideo = id
					}
					if id < firstVideo {
						firstVideo = id
					}
				}
				r.mu.Unlock()
				var missing []uint32
				pub.mu.Lock()
				ctlMu.Lock()
				for id := range pub.rtcp {
					if id > firstVideo && id+2 < lastVideo && !ctlTCPIDs[id] {
						missing = append(missing, id)
					}
				}
				ctlMu.Unlock()
				pub.mu.Unlock()
				if len(missing) > 0 {
					c.Violation("C01:transport:control-channel-packets-not-delivered-to-negotiated-destination:"+r.name,
						map[string]interface{}{"transport": r.name, "published": atomic.LoadInt64(&ctlPublished), "received": atomic.LoadInt64(&ctlTCP),
							"first_video_id_received": firstVideo, "last_video_id_received": lastVideo, "missing_control_ids": missing})
				}
			}
		}
		for _, r := range recs {
			c.Eval(1)
			c.Distinct("transport/" + r.name)
			c.SetAdd("transports_exercised", r.name)
			detail := map[string]interface{}{"transport": r.name, "published": n, "received": len(r.ids)}
			if r.bad != "" {
				detail["why"] = r.bad
				if strings.HasPrefix(r.bad, "dial") || strings.HasPrefix(r.bad, "handshake") || r.bad == "http get" || r.bad == "ws dial" || r.bad == "udp listen" {
					c.Inconclusive("transport client could not attach: " + r.name + ": " + r.bad)
				} else {
					c.Violation("C01:transport:payload-or-channel:"+r.name, detail)
				}
				continue
			}
			last := uint32(0)
			holes := 0
			okOrder := true
			for i, id := range r.ids {
				if i > 0 && id <= last {
					detail["id"], detail["after"] = id, last
					okOrder = false
					break
				}
				if i > 0 && id != last+1 && id <= sentinel {
					holes++
					detail["first_hole"] = []uint32{last + 1, id}
				}
				last = id
			}
			if !okOrder {
				c.Violation("C01:transport:out-of-order-or-duplicate:"+r.name, detail)
				continue
			}
			c.Count("transport_packets_"+r.name, int64(len(r.ids)))
			if len(r.ids) > 0 {
				c.Note("first_last_"+r.name, fmt.Sprintf("%d..%d holes=%d sentinel=%d", r.ids[0], last, holes, sentinel))
			}
			if r.name == "multicast" && mcLeftAt != 0 && len(r.ids) > 0 {
				// the other member of the group left while id mcLeftAt was being published: the judged member must have
				// received packets well after that point (every other transport did)
				if last < mcLeftAt+50 {
					detail["companion_left_at_id"], detail["last_id_received"] = mcLeftAt, last
					c.Violation("C01:transport:multicast-member-cut-off-when-another-member-left", detail)
					continue
				}
				c.Count("multicast_member_kept_receiving_after_companion_left", 1)
			}
			if !r.reliable && len(r.ids) == 0 {
				// datagram transports may lose packets, but a member that attached successfully and is given nothing at
				// all while every other transport is served is not "loss"
				c.Violation("C01:transport:nothing-delivered-to-attached-consumer:"+r.name, detail)
				continue
			}
			if r.reliable {
				if len(r.ids) == 0 || last < sentinel {
					c.Inconclusive("sentinel not received on " + r.name)
				} else if holes > 0 {
					detail["holes"] = holes
					c.Violation("C01:transport:packet-missing-while-attached:"+r.name, detail)
				}
			} else {
				c.Count("udp_holes_unjudged", int64(holes))
				if len(r.ids) == 0 {
					c.Inconclusive("no datagram received on " + r.name + " (loss on an unreliable transport is not judged)")
				}
			}
		}
	}
}
