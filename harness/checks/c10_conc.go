package checks

import (
	"bytes"
	"fmt"
	"io"
	"os"
	"runtime"
	"strings"
	"sync"
	"sync/atomic"
	"time"
	"unsafe"

	"verifharness/kit"

	"github.com/cnotch/ipchub/av/format/hls"
	"github.com/cnotch/ipchub/av/format/mpegts"
	"github.com/cnotch/ipchub/config"
	"github.com/cnotch/ipchub/media"
	"github.com/cnotch/xlog"
)

// C10, schedules: (S1) enumerated two-caller interleavings of M3u8 (caller A's result is consumed after caller B's call /
// after a rollover), (S2) real concurrency: 4 playlist readers with different tokens + 4 slow segment fetchers against a
// feeder that rolls segments over, (S3) Stream.Close while frames are in flight, (S4) streams whose audio is not AAC.

// c10Rig is a small pipeline with synchronous golden-copy capture.
type c10Rig struct {
	mode      string
	dir       string
	path      string
	pl        c10PL
	next      int
	golden    sync.Map // seq -> []byte
	completed int64
	closeFn   func()
}

// step captures every newly completed segment (called from the goroutine that feeds the generator, right after a frame).
func (r *c10Rig) step() {
	for {
		rd, _, err, pan := c10SafeSegment(r.pl, r.next)
		if err != nil || pan != "" {
			return
		}
		b, _ := io.ReadAll(rd)
		c10CloseReader(rd)
		r.golden.Store(r.next, b)
		r.next++
		atomic.AddInt64(&r.completed, 1)
	}
}

// c10JudgeOwn checks a playlist handed to the caller with token tok: only its own token, internally consistent.
// atReturn is the caller's copy taken the moment M3u8 returned. Same clause signatures as the sequential observer; when the
// bytes changed after the return (or are still changing under the caller's hands) the buffer is shared with another caller:
// one root cause, one signature, whatever the text looks like.
func c10JudgeOwn(c *kit.Ctx, where string, tok string, b []byte, atReturn []byte, path string, extra map[string]interface{}) bool {
	snap := append([]byte(nil), b...)
	d := func() map[string]interface{} {
		m := map[string]interface{}{"where": where, "caller_token": tok, "m3u8": string(snap)}
		for k, v := range extra {
			if k != "aliased" && k != "patience" {
				m[k] = v
			}
		}
		return m
	}
	if atReturn != nil && !bytes.Equal(snap, atReturn) {
		m := d()
		m["m3u8_at_return"] = string(atReturn)
		c.Violation("C10:m3u8:foreign-token-bytes", m)
		return false
	}
	p := c10ParseM3U8(snap)
	var sigs []string
	for _, e := range p.Errs {
		sigs = append(sigs, "C10:m3u8:malformed:"+e)
	}
	if len(p.Entries) != c10Window {
		sigs = append(sigs, "C10:playlist:segment-count")
	}
	var seqs []int
	for i, e := range p.Entries {
		sp, n, _, rok := c10ResolveURI(e.Path)
		switch {
		case !rok || sp != path:
			sigs = append(sigs, "C10:playlist:uri-not-resolvable")
		case i > 0 && len(seqs) == i && n != seqs[i-1]+1:
			sigs = append(sigs, "C10:playlist:non-consecutive-numbers")
		}
		switch {
		case tok != "" && (!e.HasQ || e.Query != "token="+tok):
			sigs = append(sigs, "C10:playlist:uri-token-missing-or-wrong")
		case tok == "" && e.HasQ:
			sigs = append(sigs, "C10:playlist:uri-has-query-without-token")
		}
		if p.HasTarget && float64(p.Target) < e.Dur {
			sigs = append(sigs, "C10:playlist:targetduration-below-extinf")
		}
		if rok {
			seqs = append(seqs, n)
		}
	}
	if len(seqs) > 0 && len(seqs) == len(p.Entries) && (!p.HasMediaSeq || p.MediaSeq != seqs[0]) {
		sigs = append(sigs, "C10:playlist:media-sequence")
	}
	if len(sigs) == 0 {
		return true
	}
	m := d()
	m["clauses"] = sigs
	// another caller was handed the very same backing array while this caller still held it: its bytes are theirs now
	if al, ok := extra["aliased"].(func() bool); ok {
		for i := 0; i < 200 && !al(); i++ {
			runtime.Gosched()
		}
		if al() {
			m["same_backing_array_handed_to_another_caller"] = true
			c.Violation("C10:m3u8:foreign-token-bytes", m)
			return false
		}
	}
	// text carrying the exact token of another current caller can only be that caller's bytes
	if others, ok := extra["other_tokens"].([]string); ok {
		for _, ot := range others {
			if ot != "" && ot != tok && strings.Contains(string(snap), "token="+ot+"\n") {
				c.Violation("C10:m3u8:foreign-token-bytes", m)
				return false
			}
		}
	}
	// the other caller may be parked in the middle of rewriting the buffer: for the first few such observations of a case wait
	// (bounded) until it continues or returns; the wait only decides which signature is reported, never pass/fail
	if pat, ok := extra["patience"].(*int32); ok && atomic.AddInt32(pat, -1) >= 0 {
		al, _ := extra["aliased"].(func() bool)
		dl := time.Now().Add(2 * time.Second)
		for time.Now().Before(dl) {
			if (al != nil && al()) || !bytes.Equal(snap, b) {
				m["bytes_now"] = string(b)
				c.Violation("C10:m3u8:foreign-token-bytes", m)
				return false
			}
			time.Sleep(200 * time.Microsecond)
		}
	}
	// a complete, well-formed playlist that carries another current caller's token in every URI is that caller's playlist
	if others, ok := extra["other_tokens"].([]string); ok && len(p.Entries) > 0 {
		q0 := p.Entries[0].Query
		same := true
		for _, e := range p.Entries {
			if e.Query != q0 || e.HasQ != p.Entries[0].HasQ {
				same = false
			}
		}
		for _, ot := range others {
			if same && ot != tok && ((ot == "" && !p.Entries[0].HasQ) || (ot != "" && q0 == "token="+ot)) {
				c.Violation("C10:m3u8:foreign-token-bytes", m)
				return false
			}
		}
	}
	for i := 0; i < 50; i++ {
		runtime.Gosched()
	}
	if !bytes.Equal(snap, b) {
		m["bytes_now"] = string(b)
		c.Violation("C10:m3u8:foreign-token-bytes", m)
		return false
	}
	c.Violation(sigs[0], m)
	return false
}

func c10NewPackageRig(c *kit.Ctx, mode string, F int) (*c10Rig, *hls.SegmentGenerator, bool) {
	r := &c10Rig{mode: mode, next: 1}
	if mode == "disk" {
		dir, err := os.MkdirTemp("/var/tmp", "c10-hls-")
		if err != nil {
			c.Inconclusive("cannot create temp dir: " + err.Error())
			return nil, nil, false
		}
		r.dir = dir
	}
	r.path = fmt.Sprintf("/c10/c%d", atomic.AddInt64(&c10PathSeq, 1))
	pl := hls.NewPlaylist()
	r.pl = pl
	sg, err := hls.NewSegmentGenerator(pl, r.path, F, r.dir, 44100, xlog.L())
	if err != nil {
		c.Inconclusive("NewSegmentGenerator: " + err.Error())
		if r.dir != "" {
			os.RemoveAll(r.dir)
		}
		return nil, nil, false
	}
	r.closeFn = func() {
		sg.Close()
		pl.Close()
		if r.dir != "" {
			os.RemoveAll(r.dir)
		}
	}
	return r, sg, true
}

// ---- S1 ----------------------------------------------------------------------------------------------------------

func c10ScheduleM3u8(c *kit.Ctx, idx int, order string, mode string) {
	c.Pre(fmt.Sprintf("C10 schedule m3u8 %s %s", order, mode))
	r, sg, ok := c10NewPackageRig(c, mode, 1)
	if !ok {
		return
	}
	defer r.closeFn()
	cs := &c10Case{Index: idx, Family: "schedule", Path: "sync", Mode: mode, F: 1, Gops: []int{25}, Audio: "cont", DurMs: 12_000}
	frames := cs.build()
	vmeta, ameta := c10Metas(0)
	vp := mpegts.NewH264Packetizer(vmeta, sg)
	ap := mpegts.NewAacPacketizer(ameta, sg)
	pos := 0
	feedUntil := func(nseg int64) {
		for pos < len(frames) && atomic.LoadInt64(&r.completed) < nseg {
			f := &frames[pos]
			pos++
			if f.Audio {
				ap.Packetize(c10ToFrame(f))
			} else {
				vp.Packetize(c10ToFrame(f))
			}
			r.step()
		}
	}
	feedUntil(4)
	type call struct {
		tok  string
		b    []byte
		snap []byte
	}
	calls := map[byte]*call{'A': {tok: "AAAA-caller-a"}, 'B': {tok: "BBBB-caller-b"}, 'N': {tok: ""}}
	detail := map[string]interface{}{"other_tokens": []string{"AAAA-caller-a", "BBBB-caller-b", ""}, "schedule": order, "mode": mode, "legend": "A/B/N = M3u8 returns to caller A/B/N(no token); a/b/n = that caller consumes (writes out) its result; R = one segment rollover"}
	for _, st := range []byte(order) {
		switch {
		case st == 'R':
			feedUntil(atomic.LoadInt64(&r.completed) + 1)
		case st == 'A' || st == 'B' || st == 'N':
			cl := calls[st]
			b, err, pan := c10SafeM3u8(r.pl, cl.tok)
			if pan != "" || err != nil {
				c.Inconclusive("schedule: M3u8 not available")
				return
			}
			cl.b = b
			cl.snap = append([]byte(nil), b...)
		default:
			cl := calls[st-'a'+'A']
			if cl.b == nil {
				continue
			}
			c.Eval(1)
			// what the caller now writes to its client must be what M3u8 handed to it
			c10JudgeOwn(c, "two-caller-schedule", cl.tok, cl.b, cl.snap, r.path, detail)
		}
	}
	c.Count("m3u8_two_caller_schedules", 1)
	c.Distinct("sched|" + order + "|" + mode)
}

// ---- S2 ----------------------------------------------------------------------------------------------------------

type c10ConcSpec struct {
	Index   int    `json:"index"`
	Via     string `json:"via"` // muxer | stream
	Mode    string `json:"mode"`
	F       int    `json:"fragment_s"`
	Gop     int    `json:"gop_frames"`
	Audio   string `json:"audio"`
	DurMs   int64  `json:"dur_ms"`
	Readers int    `json:"readers"`
	Fetch   int    `json:"fetchers"`
}

func c10ConcurrentCase(c *kit.Ctx, sp c10ConcSpec) {
	c.Pre(fmt.Sprintf("C10 concurrent %+v", sp))
	cs := &c10Case{Index: sp.Index, Family: "concurrent", Path: sp.Via, Mode: sp.Mode, F: sp.F, Gops: []int{sp.Gop}, Audio: sp.Audio, DurMs: sp.DurMs}
	frames := cs.build()
	var rig *c10Rig
	var feed func()
	var cleanup func()
	switch sp.Via {
	case "muxer":
		r, sg, ok := c10NewPackageRig(c, sp.Mode, sp.F)
		if !ok {
			return
		}
		rig = r
		vmeta, ameta := c10Metas(0)
		done := make(chan struct{})
		n := 0
		tap := &c10Tap{inner: sg}
		tap.after = func() {
			rig.step()
			n++
			if n == len(frames) {
				close(done)
			}
		}
		mux, err := mpegts.NewMuxer(vmeta, ameta, tap, xlog.L())
		if err != nil {
			r.closeFn()
			c.Inconclusive("NewMuxer: " + err.Error())
			return
		}
		feed = func() {
			for i := range frames {
				mux.WriteFrame(c10ToFrame(&frames[i]))
				if i%8 == 7 {
					runtime.Gosched()
				}
			}
			select {
			case <-done:
			case <-time.After(180 * time.Second):
				c.Inconclusive("concurrent: muxer did not consume all frames within 180 s")
			}
		}
		cleanup = func() {
			mux.Close()
			r.closeFn()
			for _, s := range tap.pan {
				c.Violation("C10:panic:write-frame:"+s, map[string]interface{}{"spec": sp})
			}
		}
	default:
		c10InstallHooks()
		dir := ""
		if sp.Mode == "disk" {
			d, err := os.MkdirTemp("/var/tmp", "c10-hls-")
			if err != nil {
				c.Inconclusive("cannot create temp dir: " + err.Error())
				return
			}
			dir = d
		}
		config.VerifSet(false, false, dir, sp.F)
		before := c10Mux.known()
		s := media.NewStream(fmt.Sprintf("/c10/cs%d", atomic.AddInt64(&c10PathSeq, 1)), kit.SDPH264AAC)
		h := s.Hlsable()
		if h == nil {
			s.Close()
			c.Inconclusive("media.Stream has no HLS capability")
			return
		}
		rig = &c10Rig{mode: sp.Mode, dir: dir, path: s.Path(), pl: h, next: 1}
		var pops *int64
		var key interface{}
		if !c10WaitUntil(20*time.Second, func() bool { key, pops = c10Mux.newest(before); return pops != nil }) {
			s.Close()
			c.Inconclusive("ts muxer goroutine of the stream did not start within 20 s")
			return
		}
		feed = func() {
			for i := range frames {
				s.WriteFrame(c10ToFrame(&frames[i]))
				want := int64(i + 2)
				if !c10WaitUntil(60*time.Second, func() bool { return atomic.LoadInt64(pops) >= want }) {
					c.Inconclusive("concurrent: stream ts muxer did not consume a frame within 60 s")
					return
				}
				rig.step()
			}
		}
		cleanup = func() {
			s.Close()
			c10WaitUntil(20*time.Second, func() bool { return c10Mux.exited(key) })
			c10Mux.forget(key)
			if dir != "" {
				os.RemoveAll(dir)
			}
		}
	}
	panBefore := kit.Log.NPanics()
	var stop int32
	var wg sync.WaitGroup
	var nPl, nFetch, nFetchLate int64
	rdTok := func(g int) string {
		if g == sp.Readers-1 {
			return "" // one caller without token
		}
		return fmt.Sprintf("rd%d-%s", g, strings.Repeat(string(rune('a'+g)), 6))
	}
	// which backing array each caller currently holds (returned by M3u8, not yet written out)
	nCallers := sp.Readers + sp.Fetch
	inUse := make([]uintptr, nCallers)
	aliased := make([]int32, nCallers)
	took := func(me int, b []byte) {
		p := uintptr(unsafe.Pointer(unsafe.SliceData(b)))
		for h := 0; h < nCallers; h++ {
			if h != me && atomic.LoadUintptr(&inUse[h]) == p {
				atomic.StoreInt32(&aliased[h], 1)
				atomic.StoreInt32(&aliased[me], 1)
			}
		}
		atomic.StoreUintptr(&inUse[me], p)
	}
	done := func(me int) {
		atomic.StoreUintptr(&inUse[me], 0)
		atomic.StoreInt32(&aliased[me], 0)
	}
	patience := int32(40)
	var allToks []string
	for g := 0; g < sp.Readers; g++ {
		allToks = append(allToks, rdTok(g))
	}
	for g := 0; g < sp.Fetch; g++ {
		allToks = append(allToks, fmt.Sprintf("ft%d", g))
	}
	for g := 0; g < sp.Readers; g++ {
		wg.Add(1)
		go func(g int) {
			defer wg.Done()
			tok := rdTok(g)
			for it := 0; atomic.LoadInt32(&stop) == 0; it++ {
				b, err, pan := c10SafeM3u8(rig.pl, tok)
				if pan != "" {
					c.Violation("C10:panic:m3u8:"+pan, map[string]interface{}{"spec": sp})
					return
				}
				if err != nil {
					runtime.Gosched()
					continue
				}
				took(g, b)
				snap := append([]byte(nil), b...)
				// the caller is about to write the body to its client
				for y := it % 3; y > 0; y-- {
					runtime.Gosched()
				}
				atomic.AddInt64(&nPl, 1)
				c10JudgeOwn(c, "concurrent-callers", tok, b, snap, rig.path, map[string]interface{}{"spec": sp, "other_tokens": allToks,
					"aliased": func() bool { return atomic.LoadInt32(&aliased[g]) != 0 }, "patience": &patience})
				done(g)
			}
		}(g)
	}
	for g := 0; g < sp.Fetch; g++ {
		wg.Add(1)
		go func(g int) {
			defer wg.Done()
			tok := fmt.Sprintf("ft%d", g)
			for it := 0; atomic.LoadInt32(&stop) == 0; it++ {
				b, err, _ := c10SafeM3u8(rig.pl, tok)
				if err != nil {
					runtime.Gosched()
					continue
				}
				took(sp.Readers+g, b)
				p := c10ParseM3U8(append([]byte(nil), b...))
				done(sp.Readers + g)
				if len(p.Entries) == 0 {
					continue
				}
				e := p.Entries[(it+g)%len(p.Entries)]
				_, seq, _, ok := c10ResolveURI(e.Path)
				if !ok {
					continue // judged by the readers
				}
				rd, size, err, pan := c10SafeSegment(rig.pl, seq)
				if pan != "" {
					c.Violation("C10:panic:segment:"+pan, map[string]interface{}{"spec": sp})
					return
				}
				if err != nil {
					// listed a moment ago, rolled out meanwhile: legitimate for a client that is late
					atomic.AddInt64(&nFetchLate, 1)
					continue
				}
				start := atomic.LoadInt64(&rig.completed)
				k := int64((it + g) % 5)
				var got []byte
				chunk := make([]byte, 1+size/4)
				// slow transfer: a quarter of the body per rollover
				for part := int64(0); ; part++ {
					m, rerr := rd.Read(chunk)
					got = append(got, chunk[:m]...)
					if rerr != nil {
						break
					}
					if part < k {
						for atomic.LoadInt64(&rig.completed) < start+part+1 && atomic.LoadInt32(&stop) == 0 {
							runtime.Gosched()
						}
					}
				}
				c10CloseReader(rd)
				over := atomic.LoadInt64(&rig.completed) - start
				var gold []byte
				c10WaitUntil(5*time.Second, func() bool {
					v, ok := rig.golden.Load(seq)
					if ok {
						gold = v.([]byte)
					}
					return ok
				})
				if gold == nil {
					c.Count("concurrent_fetch_without_golden_unjudged", 1)
					continue
				}
				atomic.AddInt64(&nFetch, 1)
				if !bytes.Equal(got, gold) {
					c.Violation("C10:segment-bytes:changed-after-rollover:"+sp.Mode, map[string]interface{}{"spec": sp, "seq": seq, "where": "concurrent-fetcher",
						"rollovers_during_read": over, "golden_len": len(gold), "len": len(got), "announced": size, "first_diff": c09FirstDiff(got, gold)})
				}
			}
		}(g)
	}
	feed()
	atomic.StoreInt32(&stop, 1)
	wg.Wait()
	cleanup()
	if kit.Log.NPanics() > panBefore {
		for _, s := range kit.Log.TakePanics() {
			c.Violation("C10:panic:recovered:"+s, map[string]interface{}{"spec": sp})
		}
	}
	c.Eval(int(nPl + nFetch))
	c.Count("concurrent_playlists_judged", nPl)
	c.Count("concurrent_slow_fetches_judged", nFetch)
	c.Count("concurrent_fetch_of_segment_rolled_out_meanwhile", nFetchLate)
	c.Count("concurrent_rollovers", atomic.LoadInt64(&rig.completed))
	if nPl > 0 && atomic.LoadInt64(&rig.completed) > 3 {
		c.Distinct(fmt.Sprintf("conc|%s|%s|F%d|g%d|%s", sp.Via, sp.Mode, sp.F, sp.Gop, sp.Audio))
	}
}

// ---- S3 ----------------------------------------------------------------------------------------------------------

// c10CloseUnderLoad closes a stream while its publisher is still writing frames.
func c10CloseUnderLoad(c *kit.Ctx, idx int, mode string, closeAfter int) {
	c.Pre(fmt.Sprintf("C10 close-under-load idx=%d mode=%s closeAfter=%d", idx, mode, closeAfter))
	c10InstallHooks()
	dir := ""
	if mode == "disk" {
		d, err := os.MkdirTemp("/var/tmp", "c10-hls-")
		if err != nil {
			c.Inconclusive("cannot create temp dir: " + err.Error())
			return
		}
		dir = d
		defer os.RemoveAll(d)
	}
	config.VerifSet(false, false, dir, 5)
	cs := &c10Case{Index: idx, Family: "close-under-load", Path: "stream", Mode: mode, F: 5, Gops: []int{12}, Audio: "cont", DurMs: 40_000}
	frames := cs.build()
	// fat key frames: writing one takes long enough for Close to arrive in the middle (one shared payload: content is not judged here)
	fat := c10Payload(false, 5, 1, 60_000)
	for i := range frames {
		if frames[i].Key {
			frames[i].data = fat
		}
	}
	if closeAfter < 0 {
		// aligned with a rollover: close when the muxer is about to take the (fat) key frame that ends the
		// (-closeAfter)-th segment, i.e. the first key frame at least F seconds after the segment's start
		want, segStart, found := -closeAfter, int64(-1), 0
		for i := range frames {
			if frames[i].Audio || !frames[i].Key {
				continue
			}
			if segStart < 0 {
				segStart = frames[i].PtsNs
				continue
			}
			if frames[i].PtsNs-segStart >= int64(cs.F)*1_000_000_000 {
				found++
				segStart = frames[i].PtsNs
				if found == want {
					closeAfter = i + 1 // pops == i+1: the muxer is at the pop of frame i
					break
				}
			}
		}
		if closeAfter < 0 {
			closeAfter = len(frames) / 2
		}
		c.Count("close_under_load_aligned_with_rollover", 1)
	}
	before := c10Mux.known()
	s := media.NewStream(fmt.Sprintf("/c10/cl%d", atomic.AddInt64(&c10PathSeq, 1)), kit.SDPH264AAC)
	if s.Hlsable() == nil {
		s.Close()
		c.Inconclusive("media.Stream has no HLS capability")
		return
	}
	var pops *int64
	var key interface{}
	if !c10WaitUntil(20*time.Second, func() bool { key, pops = c10Mux.newest(before); return pops != nil }) {
		s.Close()
		c.Inconclusive("ts muxer goroutine of the stream did not start within 20 s")
		return
	}
	panBefore := kit.Log.NPanics()
	var stop int32
	var wg sync.WaitGroup
	wg.Add(1)
	go func() {
		defer wg.Done()
		for i := 0; i < len(frames) && atomic.LoadInt32(&stop) == 0; i++ {
			s.WriteFrame(c10ToFrame(&frames[i]))
			if i%16 == 15 {
				// stay a little ahead of the muxer only
				c10WaitUntil(5*time.Second, func() bool { return atomic.LoadInt64(pops) >= int64(i-8) || atomic.LoadInt32(&stop) != 0 })
			}
		}
	}()
	c10WaitUntil(30*time.Second, func() bool { return atomic.LoadInt64(pops) >= int64(closeAfter) })
	s.Close()
	exited := c10WaitUntil(20*time.Second, func() bool { return c10Mux.exited(key) })
	atomic.StoreInt32(&stop, 1)
	wg.Wait()
	c.Eval(1)
	c.Count("close_under_load_trials_"+mode, 1)
	d := map[string]interface{}{"mode": mode, "close_after_frames": closeAfter, "case": cs, "note": "key frames are 60 kB"}
	if !exited {
		if kit.Log.NPanics() == panBefore {
			c.Inconclusive("close-under-load: ts muxer goroutine did not exit within 20 s")
		}
	}
	if kit.Log.NPanics() > panBefore {
		for _, site := range kit.Log.TakePanics() {
			c.Violation("C10:close-race:frame-in-flight:panic:"+site, d)
		}
	}
	c10Mux.forget(key)
	if dir != "" {
		ents, _ := os.ReadDir(dir)
		if len(ents) > 0 {
			var fs []string
			for _, e := range ents {
				fs = append(fs, e.Name())
			}
			d["files"] = fs
			c.Violation("C10:close-race:frame-in-flight:files-left:disk", d)
		} else {
			c.Count("close_under_load_disk_empty", 1)
		}
	}
	c.Distinct(fmt.Sprintf("close-under-load|%s|%d", mode, closeAfter/25))
}

// ---- S4 ----------------------------------------------------------------------------------------------------------

func c10CountFDs() int {
	ents, err := os.ReadDir("/proc/self/fd")
	if err != nil {
		return -1
	}
	return len(ents)
}

// c10NoHlsStreams: a stream that cannot be served over HLS (H.264 without AAC) must not keep segment storage.
func c10NoHlsStreams(c *kit.Ctx) {
	c.Pre("C10 streams without AAC, disk mode")
	dir, err := os.MkdirTemp("/var/tmp", "c10-hls-")
	if err != nil {
		c.Inconclusive("cannot create temp dir: " + err.Error())
		return
	}
	defer os.RemoveAll(dir)
	config.VerifSet(false, false, dir, 5)
	fd0 := c10CountFDs()
	const n = 12
	hlsable := 0
	for i := 0; i < n; i++ {
		s := media.NewStream(fmt.Sprintf("/c10/noaac%d", atomic.AddInt64(&c10PathSeq, 1)), kit.SDPH264Only)
		if s.Hlsable() != nil {
			hlsable++
		}
		s.Close()
	}
	c.Eval(n)
	ents, _ := os.ReadDir(dir)
	fd1 := c10CountFDs()
	c.Note("streams_without_aac", map[string]interface{}{"streams_created_and_closed": n, "hlsable": hlsable, "files_left": len(ents), "open_fds_before": fd0, "open_fds_after": fd1})
	if hlsable == 0 && len(ents) > 0 {
		var fs []string
		for _, e := range ents {
			fs = append(fs, e.Name())
		}
		c.Violation("C10:storage:files-left-after-close:stream-without-aac:disk", map[string]interface{}{"sdp": "kit.SDPH264Only (H.264 video, no audio)", "streams_created_and_closed": n,
			"files_left": fs, "open_fds_before": fd0, "open_fds_after": fd1})
	}
	c.Distinct("no-aac-stream|disk")
}

// ------------------------------------------------------------------------------------------------------------------

func c10Concurrent(c *kit.Ctx, l *c10Lister) {
	mine := func() (int, bool) {
		i := l.index
		l.index++
		return i, c.Mine(i)
	}
	// S1: every order in which caller A's bytes are consumed after something else happened to the playlist
	orders := []string{"AaBb", "ABab", "ABba", "ARa", "ARBab", "ANan", "NAna", "ABRab", "AaRBbNn"}
	reps := c.Pick(2, 12)
	for rep := 0; rep < reps; rep++ {
		for _, ord := range orders {
			for _, mode := range []string{"memory", "disk"} {
				if i, ok := mine(); ok {
					c10ScheduleM3u8(c, i, ord, mode)
				}
			}
		}
	}
	// S2
	nconc := c.Pick(16, 48)
	for k := 0; k < nconc; k++ {
		i, ok := mine()
		if !ok {
			continue
		}
		sp := c10ConcSpec{Index: i, Via: "muxer", Mode: []string{"memory", "disk"}[k%2], F: 1, Gop: []int{25, 12, 5, 50}[(k/2)%4],
			Audio: []string{"cont", "none"}[(k/8)%2], DurMs: int64(c.Pick(60_000, 200_000)), Readers: 4, Fetch: 4}
		if k%4 == 3 {
			sp.Via, sp.F, sp.Gop, sp.DurMs = "stream", 5, []int{25, 125}[(k/4)%2], int64(c.Pick(60_000, 150_000))
		}
		c10ConcurrentCase(c, sp)
	}
	// S3
	ncl := c.Pick(32, 160)
	for k := 0; k < ncl; k++ {
		i, ok := mine()
		if !ok {
			continue
		}
		rng := c.SubRng("c10close", k)
		ca := 20 + rng.Intn(900)
		if k%4 >= 2 {
			ca = -(1 + rng.Intn(6)) // aligned with the rollover that ends segment 1..6
		}
		c10CloseUnderLoad(c, i, []string{"disk", "memory"}[k%2], ca)
	}
	// S3b: forced "close while a rollover is in flight"
	for k := 0; k < c.Pick(8, 48); k++ {
		if i, ok := mine(); ok {
			c10CloseDuringRollover(c, i, 1+k%5)
		}
	}
	// S4
	if i, ok := mine(); ok {
		_ = i
		c10NoHlsStreams(c)
	}
}

// c10CloseDuringRollover forces the schedule "the stream is closed while a segment rollover is in flight" (disk
// mode): the muxer goroutine is held at hls.segment.finished (the finished file is closed but not yet listed; the
// generator lock is held), Stream.Close runs on another goroutine, and the muxer is released 50 ms after the closer
// has flagged the muxer (or after 2 s at the latest, so nothing can hang). Whatever order the closer takes the
// playlist and the generator in, afterwards no segment file of the stream may be left.
func c10CloseDuringRollover(c *kit.Ctx, idx int, which int) {
	c.Pre(fmt.Sprintf("C10 close-during-rollover idx=%d rollover=%d", idx, which))
	c10InstallHooks()
	dir, err := os.MkdirTemp("/var/tmp", "c10-hls-")
	if err != nil {
		c.Inconclusive("cannot create temp dir: " + err.Error())
		return
	}
	defer os.RemoveAll(dir)
	config.VerifSet(false, false, dir, 5)
	cs := &c10Case{Index: idx, Family: "close-during-rollover", Path: "stream", Mode: "disk", F: 5, Gops: []int{12}, Audio: "cont", DurMs: 60_000}
	frames := cs.build()
	var seen int32
	held, release, flagged := make(chan struct{}), make(chan struct{}), make(chan struct{})
	var flagOnce sync.Once
	rules := []*kit.Rule{
		kit.H.On("hls.segment.finished", nil, func(string, []interface{}) {
			if int(atomic.AddInt32(&seen, 1)) == which {
				close(held)
				select {
				case <-release:
				case <-time.After(2 * time.Second):
				}
			}
		}),
		kit.H.On("tsmuxer.close.flagged", nil, func(string, []interface{}) { flagOnce.Do(func() { close(flagged) }) }),
	}
	defer kit.RemoveAll(rules)
	s := media.NewStream(fmt.Sprintf("/c10/cr%d", atomic.AddInt64(&c10PathSeq, 1)), kit.SDPH264AAC)
	if s.Hlsable() == nil {
		s.Close()
		c.Inconclusive("media.Stream has no HLS capability")
		return
	}
	var stop int32
	var wg sync.WaitGroup
	wg.Add(1)
	go func() {
		defer wg.Done()
		for i := 0; i < len(frames) && atomic.LoadInt32(&stop) == 0; i++ {
			s.WriteFrame(c10ToFrame(&frames[i]))
			if i%64 == 63 {
				time.Sleep(time.Millisecond)
			}
		}
	}()
	select {
	case <-held:
	case <-time.After(60 * time.Second):
		atomic.StoreInt32(&stop, 1)
		wg.Wait()
		s.Close()
		c.Inconclusive("close-during-rollover: the rollover was not reached")
		return
	}
	closed := make(chan struct{})
	go func() { s.Close(); close(closed) }()
	select {
	case <-flagged:
		time.Sleep(50 * time.Millisecond)
	case <-time.After(2 * time.Second):
	}
	close(release)
	select {
	case <-closed:
	case <-time.After(kit.Patience):
		c.Inconclusive("close-during-rollover: Stream.Close did not return")
	}
	atomic.StoreInt32(&stop, 1)
	wg.Wait()
	c.Eval(1)
	c.Distinct(fmt.Sprintf("close-during-rollover|%d", which))
	c.Count("close_during_rollover_forced", 1)
	// the muxer goroutine may still be finishing the frame it held: wait for the directory to settle empty
	if !kit.WaitUntil(func() bool { ents, _ := os.ReadDir(dir); return len(ents) == 0 }, 3*time.Second) {
		ents, _ := os.ReadDir(dir)
		var fs []string
		for _, e := range ents {
			fs = append(fs, e.Name())
		}
		c.Violation("C10:close-race:rollover-in-flight:files-left:disk", map[string]interface{}{"files": fs, "rollover": which, "case": cs})
	}
}
