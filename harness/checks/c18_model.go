package checks

import (
	"encoding/json"
	"fmt"
	"math/rand"
	"sort"
	"strings"
)

// Reference side of C18: record type, sequential table model, own JSON file codec, comparison.
// Nothing in this file imports ipchub.

// c18Rec is one table entry of either kind (user or route). The JSON names are those of the
// users / route-table files, so the same struct decodes and encodes both file formats.
type c18Rec struct {
	Name      string `json:"name,omitempty"`
	Password  string `json:"password,omitempty"`
	Admin     bool   `json:"admin,omitempty"`
	Push      string `json:"push,omitempty"`
	Pull      string `json:"pull,omitempty"`
	Pattern   string `json:"pattern,omitempty"`
	URL       string `json:"url,omitempty"`
	KeepAlive bool   `json:"keepalive,omitempty"`
}

const (
	c18Auth  = "auth"
	c18Route = "route"
)

func c18FileName(kind string) string {
	if kind == c18Auth {
		return "users.json"
	}
	return "routetable.json"
}

// c18Key is the key of an entry exactly as it is spelled in the entry.
func c18Key(kind string, r c18Rec) string {
	if kind == c18Auth {
		return r.Name
	}
	return r.Pattern
}

// c18Canon is the canonical key the property asks for: lower-cased names, canonicalised patterns.
func c18Canon(kind, s string) string {
	if kind == c18Auth {
		return strings.ToLower(s)
	}
	return refCanon(s)
}

// c18Lenient removes a distinction the property is silent about: an administrator without explicit
// access strings is stored with "*" by ipchub; "" and "*" are treated as the same value for admins.
func c18Lenient(r c18Rec) c18Rec {
	if r.Admin {
		if r.Push == "" {
			r.Push = "*"
		}
		if r.Pull == "" {
			r.Pull = "*"
		}
	}
	return r
}

// c18DefaultTable is what a restart shows when the file does not exist (task statement: the built-in
// admin/admin account for users, nothing for routes).
func c18DefaultTable(kind string) map[string]c18Rec {
	if kind == c18Auth {
		return map[string]c18Rec{"admin": {Name: "admin", Password: "admin", Admin: true, Push: "*", Pull: "*"}}
	}
	return map[string]c18Rec{}
}

// c18Model is the sequential reference table.
type c18Model struct {
	kind string
	t    map[string]c18Rec
}

func (m *c18Model) save(r c18Rec, updatePassword bool) {
	if m.kind == c18Auth {
		k := c18Canon(c18Auth, r.Name)
		r.Name = k
		if old, ok := m.t[k]; ok && !updatePassword {
			r.Password = old.Password
		}
		m.t[k] = r
		return
	}
	k := c18Canon(c18Route, r.Pattern)
	r.Pattern = k
	m.t[k] = r
}

func (m *c18Model) del(spelling string) { delete(m.t, c18Canon(m.kind, spelling)) }

func (m *c18Model) list() []c18Rec { return c18List(m.t) }

func c18List(t map[string]c18Rec) []c18Rec {
	ks := make([]string, 0, len(t))
	for k := range t {
		ks = append(ks, k)
	}
	sort.Strings(ks)
	out := make([]c18Rec, 0, len(t))
	for _, k := range ks {
		out = append(out, t[k])
	}
	return out
}

func c18Clone(t map[string]c18Rec) map[string]c18Rec {
	o := make(map[string]c18Rec, len(t))
	for k, v := range t {
		o[k] = v
	}
	return o
}

// c18FromList builds a table from records whose keys get canonicalised (for files written by hand).
func c18FromListCanon(kind string, l []c18Rec) map[string]c18Rec {
	m := &c18Model{kind: kind, t: map[string]c18Rec{}}
	for _, r := range l {
		m.save(r, true)
	}
	return m.t
}

// c18Compare compares an observed entry list (keys as spelled by the system) with the wanted table.
// It returns "" when they agree, else a defect class and a description.
func c18Compare(kind string, got []c18Rec, want map[string]c18Rec) (class, desc string) {
	seen := map[string]c18Rec{}
	var dup, noncanon, unexpected, missing, pw, field []string
	for _, g := range got {
		k := c18Key(kind, g)
		if _, ok := seen[k]; ok {
			dup = append(dup, k)
			continue
		}
		seen[k] = g
		w, ok := want[k]
		if !ok {
			if ck := c18Canon(kind, k); ck != k {
				if _, ok2 := want[ck]; ok2 {
					noncanon = append(noncanon, k)
					continue
				}
			}
			unexpected = append(unexpected, k)
			continue
		}
		gl, wl := c18Lenient(g), c18Lenient(w)
		if gl != wl {
			gp, wp := gl, wl
			gp.Password, wp.Password = "", ""
			if gp == wp {
				pw = append(pw, fmt.Sprintf("%s: got password %q want %q", k, g.Password, w.Password))
			} else {
				field = append(field, fmt.Sprintf("%s: got %+v want %+v", k, g, w))
			}
		}
	}
	for k := range want {
		if _, ok := seen[k]; !ok {
			found := false
			for sk := range seen {
				if c18Canon(kind, sk) == k {
					found = true
				}
			}
			if !found {
				missing = append(missing, k)
			}
		}
	}
	sort.Strings(missing)
	switch {
	case len(dup) > 0:
		return "duplicate-entry", "listed more than once: " + strings.Join(dup, ",")
	case len(noncanon) > 0:
		return "key-not-canonical", "stored under non-canonical key: " + strings.Join(noncanon, ",")
	case len(unexpected) > 0:
		return "unexpected-entry", "present but not in the model: " + strings.Join(unexpected, ",")
	case len(missing) > 0:
		return "missing-entry", "in the model but absent: " + strings.Join(missing, ",")
	case len(pw) > 0:
		return "password-differs", strings.Join(pw, "; ")
	case len(field) > 0:
		return "field-differs", strings.Join(field, "; ")
	}
	return "", ""
}

// c18Encode writes a table file with the harness' own encoder.
func c18Encode(l []c18Rec) []byte {
	if l == nil {
		l = []c18Rec{}
	}
	b, _ := json.MarshalIndent(l, "", "\t")
	return b
}

// c18FileState classifies file bytes: "empty", "truncated", "unparsable" or "table" (+ records).
func c18ParseFile(b []byte) (state string, recs []c18Rec, perr string) {
	if len(b) == 0 {
		return "empty", nil, ""
	}
	if err := json.Unmarshal(b, &recs); err != nil {
		if strings.Contains(err.Error(), "unexpected end of JSON input") || strings.Contains(err.Error(), "unexpected EOF") {
			return "truncated", nil, err.Error()
		}
		return "unparsable", nil, err.Error()
	}
	return "table", recs, ""
}

// ---- generators ----

var c18Passwords = []string{"", "pw", "S3cret!", "p\"q\\r", "päss<&>", "0cc175b9c0f1b6a831c399e269772661", "  sp  ", "x"}
var c18Rights = []string{"", "*", "/a/+", "/live/*;/rooms/+/cam", "/x"}
var c18URLs = []string{"rtsp://cam1/live", "rtsp://cam2/live/", "rtsp://u:p@10.0.0.3:8554/s?a=1&b=<2>", "rtsp://[::1]:554/x", "rtsp://h/"}

func c18RandUser(rng *rand.Rand, name string, serial int) c18Rec {
	r := c18Rec{Name: name, Admin: rng.Intn(4) == 0}
	r.Password = c18Passwords[rng.Intn(len(c18Passwords))]
	if rng.Intn(2) == 0 {
		r.Password = fmt.Sprintf("%s#%d", r.Password, serial)
	}
	r.Push = c18Rights[rng.Intn(len(c18Rights))]
	r.Pull = c18Rights[rng.Intn(len(c18Rights))]
	return r
}

func c18RandRoute(rng *rand.Rand, pattern string, serial int) c18Rec {
	u := c18URLs[rng.Intn(len(c18URLs))]
	if rng.Intn(2) == 0 {
		u = fmt.Sprintf("rtsp://cam%d.example/s%d", rng.Intn(9), serial)
	}
	return c18Rec{Pattern: pattern, URL: u, KeepAlive: rng.Intn(2) == 0}
}

// c18GenTable makes n entries with canonical, pairwise different keys.
func c18GenTable(kind string, n int, rng *rand.Rand) map[string]c18Rec {
	t := map[string]c18Rec{}
	for i := 0; i < n; i++ {
		t2 := c18GenEntry(kind, i, rng)
		t[c18Key(kind, t2)] = t2
	}
	return t
}

func c18GenEntry(kind string, i int, rng *rand.Rand) c18Rec {
	if kind == c18Auth {
		r := c18RandUser(rng, fmt.Sprintf("user%02d", i), i)
		if r.Admin { // keep admins explicit so the lenient rule is not needed for crash tables
			if r.Push == "" {
				r.Push = "*"
			}
			if r.Pull == "" {
				r.Pull = "*"
			}
		}
		return r
	}
	p := fmt.Sprintf("/live/cam%02d", i)
	if i%3 == 1 {
		p = fmt.Sprintf("/site%02d/", i)
	}
	return c18RandRoute(rng, p, i)
}

// c18Edit derives table B from table A. Returns nil when the edit does not apply to this size.
func c18Edit(kind, edit string, a map[string]c18Rec, rng *rand.Rand) map[string]c18Rec {
	b := c18Clone(a)
	keys := make([]string, 0, len(a))
	for k := range a {
		keys = append(keys, k)
	}
	sort.Strings(keys)
	fresh := func(i int) {
		e := c18GenEntry(kind, 100+i, rng)
		b[c18Key(kind, e)] = e
	}
	change := func(k string) {
		e := b[k]
		if kind == c18Auth {
			e.Password = fmt.Sprintf("changed-%d", rng.Intn(1000000))
			e.Pull = "/changed/+"
		} else {
			e.URL = fmt.Sprintf("rtsp://changed%d/x", rng.Intn(1000000))
			e.KeepAlive = !e.KeepAlive
		}
		b[k] = e
	}
	switch edit {
	case "add", "first":
		fresh(0)
	case "update":
		if len(keys) == 0 {
			return nil
		}
		change(keys[rng.Intn(len(keys))])
	case "delete":
		if len(keys) == 0 {
			return nil
		}
		delete(b, keys[rng.Intn(len(keys))])
	case "clear":
		if len(keys) == 0 {
			return nil
		}
		b = map[string]c18Rec{}
	case "shrink":
		if len(keys) < 2 {
			return nil
		}
		rng.Shuffle(len(keys), func(i, j int) { keys[i], keys[j] = keys[j], keys[i] })
		for _, k := range keys[:(len(keys)+1)/2] {
			delete(b, k)
		}
	case "many":
		for i := 0; i < 1+rng.Intn(4); i++ {
			fresh(i)
		}
		for _, k := range keys {
			switch rng.Intn(4) {
			case 0:
				delete(b, k)
			case 1:
				change(k)
			}
		}
	default:
		return nil
	}
	return b
}

func c18Equal(kind string, x, y map[string]c18Rec) bool {
	cls, _ := c18Compare(kind, c18List(x), y)
	return cls == ""
}
