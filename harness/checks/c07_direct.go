package checks

import (
	"bytes"
	"fmt"
	"sync"

	"verifharness/kit"

	"github.com/cnotch/ipchub/av/codec"
	"github.com/cnotch/ipchub/av/format/rtp"
	"github.com/cnotch/ipchub/av/format/sdp"
	"github.com/cnotch/xlog"
)

// C07 second lane: when WriteRtpPacket panics in the packet cache on the publisher's goroutine, the hostile
// item never reaches the stream's converters, so the stream cannot show what they would do with it. The
// same item is therefore also given to a bare rtp.Demuxer (the first converter of the stream's chain,
// constructed exactly as media.Stream constructs it), followed by a valid unit. Panic sites found here are
// masked in the stream today and surface the moment the cache is repaired.

type c07FrameRec struct {
	mu       sync.Mutex
	n        int
	sentinel []byte
	saw      bool
}

func (r *c07FrameRec) WriteFrame(f *codec.Frame) error {
	r.mu.Lock()
	r.n++
	if bytes.Equal(f.Payload, r.sentinel) {
		r.saw = true
	}
	r.mu.Unlock()
	return nil
}

func (h *c07Harness) directDemuxer(codecName string, inj c07inj, mult int, viol func(string, map[string]interface{})) {
	c := h.c
	raw := kit.SDPH264AAC
	if codecName == "H265" {
		raw = kit.SDPH265AAC
	}
	var vm codec.VideoMeta
	var am codec.AudioMeta
	sdp.ParseMetadata(raw, &vm, &am)
	c07Serial++
	path := fmt.Sprintf("/c07/direct/s%d/n%d", c.Shard, c07Serial)
	sent := c07nal(codecName, "p", 32, c07IDBase|0xE001)
	rec := &c07FrameRec{sentinel: sent}
	h.l.claim()
	h.sink.take()
	dm, err := rtp.NewDemuxer(&vm, &am, rec, xlog.L().With(xlog.Fields(xlog.F("path", path), xlog.F("extra", "rtp2frame"))))
	if err != nil {
		c.Inconclusive("direct lane: NewDemuxer: " + err.Error())
		return
	}
	if !c07Wait(func() bool { return h.l.npending() >= 1 }, c07Watch) {
		c.Inconclusive("direct lane: demuxer goroutine did not start")
		dm.Close()
		return
	}
	obj := h.l.claim()["rtpdemuxer"]
	st := &c07Stream{vseq: 7, aseq: 9, vts: 90000, ats: 44100}
	pushed := 0
	pubPanic := ""
	push := func(p *c07proto) {
		defer func() {
			if r := recover(); r != nil {
				pubPanic = fmt.Sprint(r)
			}
		}()
		dm.WriteRtpPacket(st.materialise(p))
		pushed++
	}
	for m := 0; m < mult; m++ {
		for i := range inj.group {
			push(&inj.group[i])
		}
	}
	push(&c07proto{ch: kit.ChVideo, marker: true, tsStep: 3000, payload: sent})
	c07Wait(func() bool { return h.l.isExited(obj) || h.l.npops(obj) >= pushed+1 }, c07Watch)
	c.Count("direct_demuxer_lane_cases", 1)
	var mine []c07Panic
	for _, p := range h.sink.take() {
		if p.Path == path {
			mine = append(mine, p)
		}
	}
	rec.mu.Lock()
	saw := rec.saw
	rec.mu.Unlock()
	lane := "bare rtp.Demuxer fed with the same item; in the stream it is masked by the publisher panic in the cache"
	switch {
	case pubPanic != "":
		viol("C07:publisher-panic:rtp.(*Demuxer).WriteRtpPacket", map[string]interface{}{"lane": lane, "value": pubPanic})
	case h.l.isExited(obj) && len(mine) > 0:
		c.SetAdd("converter_panic_sites", "rtpdemuxer: "+mine[0].Site+" @ "+mine[0].Line+" (direct lane)")
		viol("C07:converter-dead-after-panic:rtpdemuxer:"+mine[0].Site, map[string]interface{}{"lane": lane, "panic": mine[0],
			"consequences": map[string]interface{}{"valid_unit_after_the_item_converted": saw},
			"mechanism":    "process() recovers once per goroutine and then returns"})
	case h.l.isExited(obj):
		viol("C07:converter-exited-while-stream-open:rtpdemuxer:no-panic-logged", map[string]interface{}{"lane": lane})
	case !saw:
		viol("C07:frames-stop:rtpdemuxer-alive:"+codecName+"/"+inj.class, map[string]interface{}{"lane": lane})
	default:
		for _, p := range mine {
			c.SetAdd("contained_panic_sites", p.Pipe+": "+p.Site+" @ "+p.Line+" (direct lane)")
		}
	}
	dm.Close()
	if !c07Wait(func() bool { return h.l.isExited(obj) }, c07Watch) {
		c.Inconclusive("direct lane: demuxer goroutine still in the ledger after Close")
	}
	h.l.forget(obj)
}
