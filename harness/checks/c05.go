package checks

import (
	"fmt"
	"io"
	"sort"
	"sync"
	"sync/atomic"
	"time"

	"verifharness/kit"

	"github.com/anishathalye/porcupine"
	"github.com/cnotch/ipchub/config"
	"github.com/cnotch/ipchub/media"
)

// C05 — one live stream per path; replace/unregister/idle-close keep the registry consistent.
//
// (1) concurrent histories of Regist/Unregist/Close/Get over few paths (several spellings) recorded at the
//     API boundary and checked for linearizability against a sequential registry model with porcupine,
//     partitioned by canonical path; (2) forced Regist x Regist / Unregist x Regist orderings through the
//     hook gate; (3) sequential random histories incl. Count/Infos against the model; (4) the idle-close
//     decision run through a verif accessor for every audience kind.

func init() { kit.Register("C05", runC05) }

type c05in struct {
	Op   string // regist | unregist | close | get
	Key  string // canonical path (partition key)
	Sid  int    // stream id for regist/unregist/close
	Path string // spelling used
}

type c05out struct {
	Sid int // for get: stream id or -1
}

var c05Model = porcupine.Model{
	Partition: func(history []porcupine.Operation) [][]porcupine.Operation {
		m := map[string][]porcupine.Operation{}
		for _, op := range history {
			k := op.Input.(c05in).Key
			m[k] = append(m[k], op)
		}
		var keys []string
		for k := range m {
			keys = append(keys, k)
		}
		sort.Strings(keys)
		var out [][]porcupine.Operation
		for _, k := range keys {
			out = append(out, m[k])
		}
		return out
	},
	Init: func() interface{} { return -1 },
	Step: func(state, input, output interface{}) (bool, interface{}) {
		cur := state.(int)
		in := input.(c05in)
		switch in.Op {
		case "regist":
			return true, in.Sid
		case "unregist", "close":
			// a closed or unregistered stream is never returned by lookup; a retired stream never removes its successor
			if cur == in.Sid {
				return true, -1
			}
			return true, cur
		case "get":
			return output.(c05out).Sid == cur, cur
		}
		return false, cur
	},
	DescribeOperation: func(input, output interface{}) string {
		in := input.(c05in)
		if in.Op == "get" {
			return fmt.Sprintf("get(%q)->%d", in.Path, output.(c05out).Sid)
		}
		return fmt.Sprintf("%s(s%d %q)", in.Op, in.Sid, in.Path)
	},
}

var c05spell = map[string][]string{
	"/c05/live/a": {"/c05/Live/A", "c05/live/a", " /c05/live//a ", "/C05/./live/a"},
	"/c05/live/b": {"/c05/live/b", "/C05/LIVE/B", "c05/live/b"},
	"/c05/x":      {"/c05/x", "/c05/X", " c05/x"},
}

type c05reg struct {
	mu      sync.Mutex
	streams []*media.Stream
	keys    []string
	posted  map[*media.Stream]bool
}

func (r *c05reg) add(s *media.Stream, key string) int {
	r.mu.Lock()
	defer r.mu.Unlock()
	r.streams = append(r.streams, s)
	r.keys = append(r.keys, key)
	return len(r.streams) - 1
}

func (r *c05reg) idOf(s *media.Stream) int {
	r.mu.Lock()
	defer r.mu.Unlock()
	for i, x := range r.streams {
		if x == s {
			return i
		}
	}
	return -2
}

func runC05(c *kit.Ctx) {
	kit.InstallHooks()
	config.VerifSet(false, false, "", 5)
	keys := []string{"/c05/live/a", "/c05/live/b", "/c05/x"}

	cleanup := func() {
		for _, k := range keys {
			if s := media.Get(k); s != nil {
				media.Unregist(s)
			}
		}
	}

	// ---------- (1) concurrent histories, linearizability per canonical path
	nh := c.Pick(300, 20000)
	for hi := 0; hi < nh; hi++ {
		if !c.Mine(hi) {
			continue
		}
		rng := c.SubRng("c05lin", hi)
		cleanup()
		reg := &c05reg{posted: map[*media.Stream]bool{}}
		postRule := kit.H.On("media.idle.task.posted", nil, func(_ string, a []interface{}) {
			reg.mu.Lock()
			reg.posted[a[0].(*media.Stream)] = true
			reg.mu.Unlock()
		})
		pert := kit.H.Perturb([]string{"media.regist.loaded", "media.close.marked"}, nil, int64(hi)*7+c.Seed, 0.5, 150*time.Microsecond)
		nclients := 3 + rng.Intn(5)
		nkeys := 1 + rng.Intn(2)
		var registered sync.Map // id -> true once Regist returned
		var nreg int64
		var mu sync.Mutex
		var ops []porcupine.Operation
		var wg sync.WaitGroup
		plans := make([][]int, nclients)
		for ci := range plans {
			for k := 0; k < 4+rng.Intn(7); k++ {
				plans[ci] = append(plans[ci], rng.Intn(1000))
			}
		}
		withConsumers := hi%4 == 0
		var consumers []*kit.RecConsumer
		var cmu sync.Mutex
		for ci := 0; ci < nclients; ci++ {
			wg.Add(1)
			go func(ci int) {
				defer wg.Done()
				for _, r := range plans[ci] {
					key := keys[r%nkeys]
					sp := c05spell[key][(r/7)%len(c05spell[key])]
					in := c05in{Key: key, Path: sp}
					var out c05out
					kind := (r / 31) % 10
					var target *media.Stream
					pick := func() (int, *media.Stream) {
						n := int(atomic.LoadInt64(&nreg))
						if n == 0 {
							return -1, nil
						}
						// pick a stream of this key whose Regist has returned
						for t := 0; t < 8; t++ {
							id := (r/101 + t) % n
							reg.mu.Lock()
							ok := reg.keys[id] == key
							s := reg.streams[id]
							reg.mu.Unlock()
							if _, done := registered.Load(id); ok && done {
								return id, s
							}
						}
						return -1, nil
					}
					switch {
					case kind <= 2:
						in.Op = "regist"
						sdpk := kit.SDPH264Only
						if r%2 == 0 {
							sdpk = kit.SDPH264AAC // HLS-capable (has a playlist whose access time the idle decision consults)
						}
						s := media.NewStream(sp, sdpk)
						in.Sid = reg.add(s, key)
						atomic.AddInt64(&nreg, 1)
						if withConsumers && r%3 == 0 {
							rc := &kit.RecConsumer{}
							s.StartConsume(rc, media.RTPPacket, "c05")
							cmu.Lock()
							consumers = append(consumers, rc)
							cmu.Unlock()
						}
						target = s
					case kind <= 4:
						in.Op = "unregist"
						in.Sid, target = pick()
					case kind == 5:
						in.Op = "close"
						in.Sid, target = pick()
					default:
						in.Op = "get"
					}
					if in.Op != "get" && target == nil {
						in.Op = "get"
					}
					call := kit.H.Tick()
					switch in.Op {
					case "regist":
						media.Regist(target)
						registered.Store(in.Sid, true)
					case "unregist":
						media.Unregist(target)
					case "close":
						target.Close()
					case "get":
						out.Sid = -1
						if s := media.Get(sp); s != nil {
							out.Sid = reg.idOf(s)
						}
					}
					ret := kit.H.Tick()
					mu.Lock()
					ops = append(ops, porcupine.Operation{ClientId: ci, Input: in, Call: call, Output: out, Return: ret})
					mu.Unlock()
				}
			}(ci)
		}
		wg.Wait()
		kit.RemoveAll(pert)
		c.Eval(1)
		c.Distinct(fmt.Sprintf("lin/clients=%d/keys=%d/ops=%d/consumers=%v", nclients, nkeys, len(ops)/5*5, withConsumers))
		res, info := porcupine.CheckOperationsVerbose(c05Model, ops, 20*time.Second)
		detail := map[string]interface{}{"case": hi, "history": c05Describe(ops)}
		switch res {
		case porcupine.Illegal:
			_ = info
			c.Violation("C05:history-not-linearizable:"+c05Diagnose(ops), detail)
		case porcupine.Unknown:
			c.Inconclusive("porcupine timed out")
		}
		if hi < 2 {
			c.Sample(detail)
		}
		// quiescence: every stream that was registered and is no longer reachable must be closed or have a retire task
		reachable := map[*media.Stream]bool{}
		for _, k := range keys {
			if s := media.Get(k); s != nil {
				reachable[s] = true
				if media.VerifStatus(s) != media.StreamOK {
					c.Violation("C05:lookup-returns-closed-stream:at-quiescence", detail)
				}
			}
		}
		reg.mu.Lock()
		for id, s := range reg.streams {
			if _, done := registered.Load(id); !done || reachable[s] {
				continue
			}
			if media.VerifStatus(s) == media.StreamOK && !reg.posted[s] {
				detail["stream"] = id
				c.Violation("C05:replaced-stream-neither-closed-nor-retired", detail)
				break
			}
		}
		reg.mu.Unlock()
		postRule.Remove()
		// counts must match the live set
		sc, _ := media.Count()
		live := 0
		for _, k := range keys {
			if media.Get(k) != nil {
				live++
			}
		}
		if sc != live {
			c.Violation("C05:count-differs-from-live-set", detail)
		}
		reg.mu.Lock()
		for _, s := range reg.streams {
			s.Close()
		}
		reg.mu.Unlock()
	}

	// ---------- (2) forced orderings
	nf := c.Pick(10, 300)
	for fi := 0; fi < nf*3; fi++ {
		if !c.Mine(fi) {
			continue
		}
		cleanup()
		key := keys[fi%len(keys)]
		ord := fi % 3
		scen := []string{"regist-held-after-load|regist-complete", "unregist-old|regist-new-between-load-and-delete", "close-then-get"}[ord]
		c.Pre("C05 forced " + scen)
		sdp1 := []string{kit.SDPH264Only, kit.SDPH264AAC, kit.SDPH265AAC}[(fi/3)%3]
		s1 := media.NewStream(c05spell[key][0], sdp1)
		s2 := media.NewStream(c05spell[key][1], kit.SDPH264Only)
		posted := map[*media.Stream]bool{}
		var pmu sync.Mutex
		pr := kit.H.On("media.idle.task.posted", nil, func(_ string, a []interface{}) {
			pmu.Lock()
			posted[a[0].(*media.Stream)] = true
			pmu.Unlock()
		})
		detail := map[string]interface{}{"scenario": scen, "key": key}
		switch ord {
		case 0:
			g := kit.H.Gate("media.regist.loaded", kit.Arg0Is(s1))
			done := make(chan struct{})
			go func() { media.Regist(s1); close(done) }()
			if !g.WaitArrived(5 * time.Second) {
				c.Inconclusive("gate not reached: " + scen)
			}
			media.Regist(s2)
			g.Release()
			<-done
			cur := media.Get(key)
			for _, s := range []*media.Stream{s1, s2} {
				pmu.Lock()
				p := posted[s]
				pmu.Unlock()
				if s != cur && media.VerifStatus(s) == media.StreamOK && !p {
					c.Violation("C05:replaced-stream-neither-closed-nor-retired:racing-regist", detail)
				}
			}
			if cur == nil {
				c.Violation("C05:both-registrations-lost", detail)
			}
		case 1:
			media.Regist(s1)
			media.Regist(s2) // s1 retired: it has no consumers, so it must be closed at once
			if media.VerifStatus(s1) == media.StreamOK {
				c.Violation("C05:replaced-stream-without-consumers-not-closed-at-once", detail)
			}
			media.Unregist(s1)
			if media.Get(key) != s2 {
				c.Violation("C05:unregistering-retired-stream-removed-successor", detail)
			}
		case 2:
			media.Regist(s1)
			s1.Close()
			if got := media.Get(key); got != nil && media.VerifStatus(got) != media.StreamOK {
				c.Violation("C05:lookup-returns-closed-stream:after-close", detail)
			}
		}
		pr.Remove()
		c.Eval(1)
		c.Distinct("forced/" + scen + "/" + key)
		c.SetAdd("interleavings_seen", scen)
		s1.Close()
		s2.Close()
	}

	// ---------- (3) sequential histories with Count/Infos against the model
	ns := c.Pick(150, 5000)
	for si := 0; si < ns; si++ {
		if !c.Mine(si) {
			continue
		}
		rng := c.SubRng("c05seq", si)
		cleanup()
		model := map[string]*media.Stream{}
		var all []*media.Stream
		var hist []string
		consCount := map[*media.Stream]int{}
		for step := 0; step < 5+rng.Intn(36); step++ {
			key := keys[rng.Intn(len(keys))]
			sp := c05spell[key][rng.Intn(len(c05spell[key]))]
			switch rng.Intn(7) {
			case 0, 1:
				s := media.NewStream(sp, []string{kit.SDPH264Only, kit.SDPH264AAC, kit.SDPH265AAC}[rng.Intn(3)])
				all = append(all, s)
				if rng.Intn(3) == 0 {
					s.StartConsume(&kit.RecConsumer{}, media.RTPPacket, "seq")
					consCount[s]++
				}
				old := model[key]
				media.Regist(s)
				model[key] = s
				hist = append(hist, fmt.Sprintf("regist(%q)", sp))
				if old != nil && old != s && consCount[old] == 0 && media.VerifStatus(old) == media.StreamOK {
					c.Violation("C05:replaced-stream-without-consumers-not-closed-at-once", map[string]interface{}{"case": si, "history": hist})
				}
			case 2:
				if len(all) > 0 {
					s := all[rng.Intn(len(all))]
					media.Unregist(s)
					if media.VerifStatus(s) == media.StreamOK {
						c.Violation("C05:sequential:unregistered-stream-not-closed", map[string]interface{}{"case": si, "history": hist})
					}
					consCount[s] = 0
					for k, v := range model {
						if v == s {
							delete(model, k)
						}
					}
					hist = append(hist, fmt.Sprintf("unregist(s%d)", len(all)))
				}
			case 3:
				if len(all) > 0 {
					s := all[rng.Intn(len(all))]
					s.Close()
					consCount[s] = 0
					for k, v := range model {
						if v == s {
							delete(model, k)
						}
					}
					hist = append(hist, "close")
				}
			default:
				got := media.Get(sp)
				hist = append(hist, fmt.Sprintf("get(%q)", sp))
				if got != model[key] {
					cls := "wrong-stream"
					if got != nil && media.VerifStatus(got) != media.StreamOK {
						cls = "closed-stream-returned"
					}
					c.Violation("C05:sequential:lookup-"+cls, map[string]interface{}{"case": si, "history": hist})
				}
			}
			// counts and listing match the live set
			sc, cc := media.Count()
			wantCC := 0
			for _, s := range model {
				wantCC += consCount[s]
			}
			total, infos := media.Infos("", 100, false)
			if sc != len(model) || total != len(model) || len(infos) != len(model) {
				c.Violation("C05:sequential:count-or-listing-differs-from-live-set", map[string]interface{}{"case": si, "history": hist, "count": sc, "listing": len(infos), "live": len(model)})
				break
			}
			if cc != wantCC {
				c.Violation("C05:sequential:consumer-count-differs", map[string]interface{}{"case": si, "history": hist, "got": cc, "want": wantCC})
				break
			}
		}
		c.Eval(1)
		c.Distinct(fmt.Sprintf("seq/len=%d", len(hist)))
		for _, s := range all {
			s.Close()
		}
	}

	// ---------- (3b) generated spellings of one path (c05_spell.go)
	cleanup()
	c05RunSpellings(c)
	c05CountsUnderConcurrentStop(c)

	// ---------- (4) idle-close decision per audience kind
	type idleCase struct {
		name      string
		sdp       string
		attach    func(s *media.Stream)
		d         time.Duration
		wantClose bool
	}
	cases := []idleCase{
		{"no-consumer/no-hls(h265)", kit.SDPH265AAC, func(*media.Stream) {}, time.Hour, true},
		{"no-consumer/hls-never-accessed-long-ago", kit.SDPH264AAC, func(*media.Stream) {}, 0, true},
		{"rtp-consumer", kit.SDPH264AAC, func(s *media.Stream) { s.StartConsume(&kit.RecConsumer{}, media.RTPPacket, "i") }, 0, false},
		{"flv-only-consumer", kit.SDPH264AAC, func(s *media.Stream) { s.StartConsume(&kit.RecConsumer{}, media.FLVPacket, "i") }, 0, false},
		{"flv-only-consumer/h265", kit.SDPH265AAC, func(s *media.Stream) { s.StartConsume(&kit.RecConsumer{}, media.FLVPacket, "i") }, time.Hour, false},
		{"hls-recently-accessed", kit.SDPH264AAC, func(s *media.Stream) {
			if h := s.Hlsable(); h != nil {
				h.M3u8("")
			}
		}, time.Hour, false},
		// what a player does: refresh the playlist, then download a segment - the segment request (whether or not the
		// sequence number is still listed) is the most recent HLS access
		{"hls-segment-recently-requested", kit.SDPH264AAC, func(s *media.Stream) {
			if h := s.Hlsable(); h != nil {
				h.M3u8("")
				if r, _, err := h.Segment(0); err == nil {
					if cl, ok := r.(io.Closer); ok {
						cl.Close()
					}
				}
			}
		}, time.Hour, false},
	}
	for rep := 0; rep < c.Pick(3, 40); rep++ {
		for ii, ic := range cases {
			if !c.Mine(rep*len(cases) + ii) {
				continue
			}
			for _, st := range []int32{media.StreamNoConsumer, media.StreamReplaced} {
				s := media.NewStream(fmt.Sprintf("/c05/idle/%d", ii), ic.sdp)
				media.Regist(s) // as a pulled stream is when the idle task runs
				ic.attach(s)
				closed := media.VerifIdleDecision(s, st, ic.d)
				if closed {
					// an idle-closed stream must leave the registry: lookups, counts and listings show live streams only
					if got := media.Get(s.Path()); got == s {
						c.Violation("C05:idle:closed-stream-still-returned-by-lookup:"+ic.name, map[string]interface{}{"case": ic.name, "status": st})
					}
					if _, infos := media.Infos("", 100, false); func() bool {
						for _, inf := range infos {
							if inf.Path == s.Path() {
								return true
							}
						}
						return false
					}() {
						c.Violation("C05:idle:closed-stream-still-listed:"+ic.name, map[string]interface{}{"case": ic.name, "status": st})
					}
				} else if media.Get(s.Path()) != s {
					c.Violation("C05:idle:live-stream-not-returned-by-lookup:"+ic.name, map[string]interface{}{"case": ic.name, "status": st})
				}
				c.Eval(1)
				c.Distinct(fmt.Sprintf("idle/%s/%d", ic.name, st))
				c.SetAdd("idle_cases", ic.name)
				detail := map[string]interface{}{"case": ic.name, "status": st, "period": ic.d.String()}
				if closed != ic.wantClose || (media.VerifStatus(s) != media.StreamOK) != ic.wantClose {
					if ic.wantClose {
						c.Violation("C05:idle:not-closed-although-no-audience:"+ic.name, detail)
					} else {
						c.Violation("C05:idle:closed-although-audience-present:"+ic.name, detail)
					}
				}
				media.Unregist(s)
			}
		}
	}
	cleanup()
}

func c05Describe(ops []porcupine.Operation) []string {
	sort.Slice(ops, func(i, j int) bool { return ops[i].Call < ops[j].Call })
	var out []string
	for _, op := range ops {
		out = append(out, fmt.Sprintf("c%d [%d,%d] %s", op.ClientId, op.Call, op.Return, c05Model.DescribeOperation(op.Input, op.Output)))
	}
	return out
}

// c05Diagnose gives the signature a class: which kind of stale answer made the history illegal.
func c05Diagnose(ops []porcupine.Operation) string {
	// a get that returned a stream whose close/unregist had returned before the get was called
	ended := map[int]int64{}
	for _, op := range ops {
		in := op.Input.(c05in)
		if in.Op == "close" || in.Op == "unregist" {
			if t, ok := ended[in.Sid]; !ok || op.Return < t {
				ended[in.Sid] = op.Return
			}
		}
	}
	for _, op := range ops {
		in := op.Input.(c05in)
		if in.Op == "get" {
			sid := op.Output.(c05out).Sid
			if t, ok := ended[sid]; ok && sid >= 0 && t < op.Call {
				return "lookup-returned-stream-closed-earlier"
			}
		}
	}
	return "other"
}
