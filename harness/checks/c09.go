package checks

import (
	"bytes"
	"encoding/hex"
	"fmt"
	"strings"
	"time"

	"verifharness/kit"

	"github.com/cnotch/ipchub/av/codec"
	"github.com/cnotch/ipchub/av/format/mpegts"
	"github.com/cnotch/xlog"
)

// C09 — MPEG-TS output is structurally valid and carries the source frames faithfully.
//
// System under test: mpegts.Muxer (async queue + goroutine) and the H.264 / AAC packetizers called
// synchronously, both writing through mpegts.Writer into a memory buffer.
// Oracle: kit.DemuxTS — an independent ISO 13818-1 demultiplexer (framing, PAT/PMT + CRC-32/MPEG-2,
// continuity counters, adaptation field, PES reassembly, PTS/DTS) + Annex-B splitter + ADTS chain parser.
// The source frames are synthetic: a NAL header byte followed by bytes from 0x10..0xff (no start code can
// occur by accident) that encode a per-frame id; the expected elementary stream is derived from the
// property statement only.

func init() { kit.Register("C09", runC09) }

// two parameter-set pairs (the first is a real-world SPS containing emulation-prevention bytes 00 00 03).
var c09ParamSets = [][2][]byte{
	{{0x67, 0x64, 0x00, 0x1f, 0xac, 0xd9, 0x40, 0x50, 0x05, 0xbb, 0x01, 0x10, 0x00, 0x00, 0x03, 0x00, 0x10, 0x00, 0x00, 0x03, 0x03, 0xc0, 0xf1, 0x83, 0x19, 0x60},
		{0x68, 0xeb, 0xe3, 0xcb, 0x22, 0xc0}},
	{{0x67, 0x42, 0xc0, 0x1e, 0xd9, 0x00, 0xa0, 0x47, 0xfe, 0x88}, {0x68, 0xce, 0x3c, 0x80}},
}

// AudioSpecificConfig variants: audio object type, sampling_frequency_index, channel_configuration.
var c09ASCs = [][3]uint8{{2, 4, 2}, {2, 3, 1}, {1, 11, 6}, {4, 0, 7}, {2, 12, 4}}
var c09Rates = []int{96000, 88200, 64000, 48000, 44100, 32000, 24000, 22050, 16000, 12000, 11025, 8000, 7350}
var c09Chans = []int{0, 1, 2, 3, 4, 5, 6, 8}

const (
	c09VideoPID = 256
	c09AudioPID = 257
	c09Mask33   = (uint64(1) << 33) - 1
)

// c09Src is one source frame.
type c09Src struct {
	Audio bool   `json:"audio,omitempty"`
	Nal   int    `json:"nal,omitempty"`  // nal_unit_type (video)
	Size  int    `json:"size"`           // payload bytes
	PtsNs int64  `json:"pts_ns"`         // what is handed to ipchub
	DtsNs int64  `json:"dts_ns"`         //
	ID    uint32 `json:"id"`             // encoded into the payload
	Meta  string `json:"meta,omitempty"` // "sps" / "pps": payload is the stream's own parameter set
	data  []byte
}

type c09Case struct {
	Family string   `json:"family"`
	Path   string   `json:"path"` // "sync" (packetizers called directly) | "muxer" (mpegts.Muxer goroutine)
	PS     int      `json:"paramset"`
	ASC    int      `json:"asc"`
	Frames []c09Src `json:"frames"`
	ASCRaw []byte   `json:"asc_raw,omitempty"` // probes only: overrides ASC
	// LateMeta: the muxer is built before the parameter sets are known (SDP without sprop-parameter-sets); they are
	// stored into the shared VideoMeta when they arrive in-band, exactly as the RTP depacketizer does (only if empty).
	LateMeta bool `json:"late_meta,omitempty"`
}

// ticks -> ns such that floor(ns*90000/1e9) == ticks exactly.
func c09Ns(ticks uint64) int64 { return int64((ticks*100000 + 8) / 9) }

// spec-level expectation: floor(ns * 90 / 1e6)
func c09Ticks(ns int64) uint64 { return uint64(ns) * 9 / 100000 }

func c09NalHeader(t int) byte {
	switch t {
	case 5, 7, 8:
		return 0x60 | byte(t)
	case 1, 2, 3, 4:
		return 0x40 | byte(t)
	}
	return byte(t) // nal_ref_idc 0 (SEI, AUD, end of seq, filler ...)
}

// c09Payload: byte 0 = NAL header (video) ; then the id in base 240 ; then an LCG stream; all bytes in 0x10..0xff.
func c09Payload(audio bool, nal int, id uint32, size int) []byte {
	b := make([]byte, size)
	x := id*2654435761 + 12345
	v := id
	for i := range b {
		switch {
		case i == 0 && !audio:
			b[i] = c09NalHeader(nal)
		case i <= 4:
			b[i] = 0x10 + byte(v%240)
			v /= 240
		default:
			x = x*1664525 + 1013904223
			b[i] = 0x10 + byte((x>>24)%240)
		}
	}
	return b
}

func (cs *c09Case) materialize() {
	for i := range cs.Frames {
		f := &cs.Frames[i]
		switch f.Meta {
		case "sps":
			f.data = append([]byte(nil), c09ParamSets[cs.PS][0]...)
			f.Nal, f.Size = 7, len(f.data)
		case "pps":
			f.data = append([]byte(nil), c09ParamSets[cs.PS][1]...)
			f.Nal, f.Size = 8, len(f.data)
		default:
			f.data = c09Payload(f.Audio, f.Nal, f.ID, f.Size)
		}
	}
}

func (cs *c09Case) asc() []byte {
	if cs.ASCRaw != nil {
		return cs.ASCRaw
	}
	a := c09ASCs[cs.ASC]
	return []byte{a[0]<<3 | a[1]>>1, a[1]&1<<7 | a[2]<<3}
}

// c09Tap sits between the muxer and the real mpegts.Writer and tells when the sentinel frame has been written.
type c09Tap struct {
	inner    mpegts.FrameWriter
	sentinel *byte
	done     chan struct{}
	n        int
	errs     []string
}

func (t *c09Tap) WriteMpegtsFrame(f *mpegts.Frame) error {
	err := t.inner.WriteMpegtsFrame(f)
	t.n++
	if err != nil {
		t.errs = append(t.errs, err.Error())
	}
	if len(f.Payload) > 0 && &f.Payload[0] == t.sentinel {
		close(t.done)
	}
	return err
}

// c09Run feeds the case into ipchub and returns the transport stream bytes.
func c09Run(c *kit.Ctx, cs *c09Case) (out []byte, ok bool) {
	ps := c09ParamSets[cs.PS]
	a := c09ASCs[cs.ASC]
	vmeta := &codec.VideoMeta{Codec: "H264", Width: 1280, Height: 720, ClockRate: 90000,
		Sps: append([]byte(nil), ps[0]...), Pps: append([]byte(nil), ps[1]...)}
	ameta := &codec.AudioMeta{Codec: "AAC", SampleRate: c09Rates[a[1]], SampleSize: 16, Channels: c09Chans[a[2]], Sps: cs.asc()}
	if cs.LateMeta {
		vmeta.Sps, vmeta.Pps = nil, nil
	}
	learn := func(f *c09Src) {
		if !cs.LateMeta {
			return
		}
		if f.Meta == "sps" && len(vmeta.Sps) == 0 {
			vmeta.Sps = f.data
		}
		if f.Meta == "pps" && len(vmeta.Pps) == 0 {
			vmeta.Pps = f.data
		}
	}
	var buf bytes.Buffer
	w, err := mpegts.NewWriter(&buf)
	if err != nil {
		c.Violation("C09:run:newwriter-error", map[string]interface{}{"err": err.Error()})
		return nil, false
	}
	toFrame := func(f *c09Src) *codec.Frame {
		mt := codec.MediaTypeVideo
		if f.Audio {
			mt = codec.MediaTypeAudio
		}
		return &codec.Frame{MediaType: mt, Dts: f.DtsNs, Pts: f.PtsNs, Payload: f.data}
	}
	if cs.Path == "sync" {
		vp := mpegts.NewH264Packetizer(vmeta, w)
		ap := mpegts.NewAacPacketizer(ameta, w)
		for i := range cs.Frames {
			f := &cs.Frames[i]
			var perr error
			var pan interface{}
			func() {
				defer func() { pan = recover() }()
				learn(f)
				if f.Audio {
					perr = ap.Packetize(toFrame(f))
				} else {
					perr = vp.Packetize(toFrame(f))
				}
			}()
			if pan != nil {
				c.Violation("C09:panic:packetize", map[string]interface{}{"case": cs, "frame": i, "panic": fmt.Sprint(pan)})
				return nil, false
			}
			if perr != nil {
				c.Violation("C09:run:packetize-error", map[string]interface{}{"case": cs, "frame": i, "err": perr.Error()})
				return nil, false
			}
		}
		return buf.Bytes(), true
	}
	// asynchronous muxer: the last frame of the case is the sentinel
	last := &cs.Frames[len(cs.Frames)-1]
	tap := &c09Tap{inner: w, sentinel: &last.data[0], done: make(chan struct{})}
	panBefore := kit.Log.NPanics()
	mux, err := mpegts.NewMuxer(vmeta, ameta, tap, xlog.L())
	if err != nil {
		c.Violation("C09:run:newmuxer-error", map[string]interface{}{"err": err.Error()})
		return nil, false
	}
	defer mux.Close()
	// LateMeta cases carry both parameter sets first: they are stored after the muxer was built and before it is
	// handed any frame, so the harness never writes the meta while the muxer routine reads it
	for i := range cs.Frames {
		if cs.Frames[i].Meta == "" {
			break
		}
		learn(&cs.Frames[i])
	}
	for i := range cs.Frames {
		mux.WriteFrame(toFrame(&cs.Frames[i]))
	}
	watchdog := time.NewTimer(60 * time.Second)
	defer watchdog.Stop()
	tick := time.NewTicker(25 * time.Millisecond)
	defer tick.Stop()
	for {
		select {
		case <-tap.done:
			if len(tap.errs) > 0 {
				c.Violation("C09:run:write-error", map[string]interface{}{"case": cs, "errs": tap.errs})
				return nil, false
			}
			return buf.Bytes(), true
		case <-tick.C:
			if kit.Log.NPanics() > panBefore {
				sites := kit.Log.TakePanics()
				c.Violation("C09:panic:muxer:"+strings.Join(sites, ","), map[string]interface{}{"case": cs})
				return nil, false
			}
		case <-watchdog.C:
			c.Inconclusive("muxer: sentinel frame not written within 60 s")
			return nil, false
		}
	}
}

func c09Hex(b []byte, max int) string {
	if len(b) > max {
		return hex.EncodeToString(b[:max]) + fmt.Sprintf("...(%d bytes)", len(b))
	}
	return hex.EncodeToString(b)
}

func c09FirstDiff(a, b []byte) int {
	n := len(a)
	if len(b) < n {
		n = len(b)
	}
	for i := 0; i < n; i++ {
		if a[i] != b[i] {
			return i
		}
	}
	if len(a) != len(b) {
		return n
	}
	return -1
}

func c09Diff33(a, b uint64) uint64 {
	d := (a - b) & c09Mask33
	if e := (b - a) & c09Mask33; e < d {
		d = e
	}
	return d
}

// c09AFClass classifies an adaptation_field_length by the writer branch it exercises
// (none / 0 = one stuffing byte / 1 = flags only / 7 = PCR only / anything else = with stuffing bytes).
func c09AFClass(n int) string {
	switch {
	case n < 0:
		return "none"
	case n <= 2 || n == 7 || n == 8:
		return fmt.Sprint(n)
	case n < 7:
		return "3..6"
	}
	return "9+"
}

// c09Judge demultiplexes the output and compares it with what the property statement requires.
func c09Judge(c *kit.Ctx, cs *c09Case, out []byte) {
	res := kit.DemuxTS(out)
	viol := func(sig string, frame int, d map[string]interface{}) {
		d["case"] = cs
		d["frame_index"] = frame
		if len(out) <= 188*6 {
			d["ts_hex"] = hex.EncodeToString(out)
		}
		c.Violation(sig, d)
	}
	// --- structure: framing, sync, CRC, continuity, PES syntax -------------------------------------------
	seen := map[string]bool{}
	for _, e := range res.Errors {
		if seen[e.Code] {
			continue
		}
		seen[e.Code] = true
		viol("C09:ts:"+e.Code, -1, map[string]interface{}{"error": e.String(), "all_codes": res.ErrorCodes()})
	}
	c.Count("ts_packets_checked", int64(res.NPackets))
	c.Count("af_stuffing_bytes_not_0xff_unjudged", int64(res.StuffingNotFF))
	// --- PAT + PMT first, fixed PIDs ----------------------------------------------------------------------
	switch {
	case res.PAT == nil || res.PMT == nil:
		// psi.pat-missing / psi.pmt-missing already reported
	case res.PAT.PacketIndex != 0 || res.PMT.PacketIndex != 1:
		viol("C09:psi:pat-pmt-not-first", -1, map[string]interface{}{"pat_packet": res.PAT.PacketIndex, "pmt_packet": res.PMT.PacketIndex})
	default:
		c.Count("pat_pmt_first_and_crc_ok", 1)
	}
	if res.PMT != nil {
		got := map[string]bool{}
		for _, s := range res.PMT.Streams {
			got[fmt.Sprintf("0x%02x@%d", s.StreamType, s.PID)] = true
		}
		if len(got) != 2 || !got["0x1b@256"] || !got["0x0f@257"] {
			viol("C09:psi:stream-table", -1, map[string]interface{}{"pmt_streams": fmt.Sprint(res.PMT.Streams), "want": "0x1b@256 0x0f@257"})
		}
		if len(res.PATs) != 1 || len(res.PMTs) != 1 {
			c.Count("psi_repeated_unjudged", 1)
		}
	}
	// --- source frames per elementary stream --------------------------------------------------------------
	var vsrc, asrc []int
	for i := range cs.Frames {
		if cs.Frames[i].Audio {
			asrc = append(asrc, i)
		} else {
			vsrc = append(vsrc, i)
		}
	}
	vpes := res.PESOf(c09VideoPID)
	apes := res.PESOf(c09AudioPID)
	if len(vpes) != len(vsrc) {
		viol("C09:pes:video-pes-count", -1, map[string]interface{}{"video_frames": len(vsrc), "video_pes": len(vpes)})
	}
	ps := c09ParamSets[cs.PS]
	checkTS := func(kind string, fi int, p *kit.PES, wantPTS, wantDTS uint64, neq bool) {
		if !p.HasPTS {
			viol("C09:pes-ts:pts-missing", fi, map[string]interface{}{"kind": kind})
			return
		}
		switch d := c09Diff33(p.PTS, wantPTS&c09Mask33); {
		case d == 0:
		case d == 1:
			c.Count("pts_off_by_one_tick_unjudged", 1)
		default:
			viol("C09:pes-ts:pts-value", fi, map[string]interface{}{"kind": kind, "got": p.PTS, "want": wantPTS & c09Mask33,
				"xor": fmt.Sprintf("%09x", p.PTS^(wantPTS&c09Mask33))})
		}
		if neq && !p.HasDTS && c09Diff33(wantPTS, wantDTS) > 1 {
			viol("C09:pes-ts:dts-missing", fi, map[string]interface{}{"kind": kind, "want_pts": wantPTS, "want_dts": wantDTS})
			return
		}
		switch d := c09Diff33(p.DTS, wantDTS&c09Mask33); {
		case d == 0:
		case d == 1:
			c.Count("dts_off_by_one_tick_unjudged", 1)
		default:
			viol("C09:pes-ts:dts-value", fi, map[string]interface{}{"kind": kind, "got": p.DTS, "want": wantDTS & c09Mask33, "has_dts_field": p.HasDTS,
				"xor": fmt.Sprintf("%09x", p.DTS^(wantDTS&c09Mask33))})
		}
	}
	for k := 0; k < len(vsrc) && k < len(vpes); k++ {
		fi := vsrc[k]
		f := &cs.Frames[fi]
		p := vpes[k]
		c.Eval(1)
		key := f.Nal == 5
		wantPTS, wantDTS := c09Ticks(f.PtsNs), c09Ticks(f.DtsNs)
		neq := wantPTS != wantDTS
		c.Distinct(fmt.Sprintf("v|%s|%s|t%d|s%d|neq=%v|ps%d|first=%v", cs.Family, cs.Path, f.Nal, f.Size, neq, cs.PS, k == 0))
		if !p.HeaderOK {
			continue // syntax error already reported
		}
		plc := "exact"
		if p.PacketLength == 0 {
			plc = "zero"
		}
		np := "3+"
		if p.NPackets < 3 {
			np = fmt.Sprint(p.NPackets)
		}
		c.SetAdd("video_pes_shapes", fmt.Sprintf("key=%v dts=%v pkts=%s firstAF=%s lastAF=%s len=%s", key, p.HasDTS, np,
			c09AFClass(p.FirstAFLen), c09AFClass(p.LastAFLen), plc))
		c.SetAdd("video_total_es_mod_184", fmt.Sprint(len(p.Data)%184))
		checkTS("video", fi, p, wantPTS, wantDTS, neq)
		if key {
			if !p.RandomAccess {
				viol("C09:key:no-random-access-indicator", fi, map[string]interface{}{})
			}
			if p.PCR == nil {
				viol("C09:key:no-pcr", fi, map[string]interface{}{})
			} else if p.PCRBase == wantDTS&c09Mask33 {
				c.Count("key_pcr_base_equals_dts", 1)
			} else {
				c.Count("key_pcr_base_differs_from_dts_unjudged", 1)
			}
		} else if p.PCR != nil || p.RandomAccess {
			c.Count("nonkey_with_pcr_or_rai_unjudged", 1)
		}
		// elementary stream content
		units, leading := kit.SplitAnnexBDetailed(p.Data)
		inband := f.Nal >= 7 && f.Nal <= 9
		if len(leading) > 0 {
			if inband && bytes.Equal(p.Data, f.data) {
				viol("C09:video-es:inband-paramset-without-startcode", fi, map[string]interface{}{"nal_type": f.Nal,
					"es_hex": c09Hex(p.Data, 48), "note": "PES payload is the bare NAL unit, no 00 00 01 in front; in the ES it continues the previous NAL unit"})
			} else {
				viol("C09:video-es:bytes-before-first-startcode", fi, map[string]interface{}{"nal_type": f.Nal, "leading_hex": c09Hex(leading, 48), "es_hex": c09Hex(p.Data, 64)})
			}
			continue
		}
		if len(units) == 0 {
			viol("C09:video-es:no-nal-units", fi, map[string]interface{}{"es_len": len(p.Data)})
			continue
		}
		lastU := units[len(units)-1].Data
		if !bytes.Equal(lastU, f.data) {
			viol("C09:video-es:nal-bytes-differ", fi, map[string]interface{}{"nal_type": f.Nal, "src_len": len(f.data), "es_nal_len": len(lastU),
				"first_diff": c09FirstDiff(lastU, f.data), "units": len(units)})
			continue
		}
		pre := units[:len(units)-1]
		switch {
		case f.Nal == 1 || f.Nal == 5 || f.Nal == 6:
			if len(pre) == 0 || len(pre[0].Data) == 0 || pre[0].Data[0]&0x1f != 9 {
				viol("C09:video-es:aud-missing", fi, map[string]interface{}{"nal_type": f.Nal, "es_hex": c09Hex(p.Data, 64)})
				continue
			}
			pre = pre[1:]
			if key {
				if len(pre) != 2 || !bytes.Equal(pre[0].Data, ps[0]) || !bytes.Equal(pre[1].Data, ps[1]) {
					var got []string
					for _, u := range pre {
						got = append(got, c09Hex(u.Data, 40))
					}
					viol("C09:video-es:sps-pps-on-key", fi, map[string]interface{}{"got_between_aud_and_idr": got,
						"want_sps": hex.EncodeToString(ps[0]), "want_pps": hex.EncodeToString(ps[1])})
					continue
				}
			} else if len(pre) != 0 {
				viol("C09:video-es:extra-nal-units", fi, map[string]interface{}{"nal_type": f.Nal, "extra": len(pre), "es_hex": c09Hex(p.Data, 64)})
				continue
			}
			c.Count("video_frames_es_exact", 1)
		default:
			// in-band parameter sets / AUD / other NAL types: the statement's AUD clause is left unjudged here,
			// the NAL unit itself must be a unit of its own.
			extra := 0
			aud := false
			for _, u := range pre {
				if len(u.Data) > 0 && u.Data[0]&0x1f == 9 {
					aud = true
				} else {
					extra++
				}
			}
			if extra > 0 {
				viol("C09:video-es:extra-nal-units", fi, map[string]interface{}{"nal_type": f.Nal, "extra": extra, "es_hex": c09Hex(p.Data, 64)})
				continue
			}
			if aud {
				c.Count("other_nal_types_with_aud", 1)
			} else {
				c.Count("other_nal_types_without_aud_unjudged", 1)
			}
			c.Count("video_frames_es_exact", 1)
		}
	}
	// --- audio ---------------------------------------------------------------------------------------------
	type af struct {
		f   kit.ADTSFrame
		pes *kit.PES
		pos int // index inside the PES
	}
	var afs []af
	audioOK := true
	for _, p := range apes {
		if !p.HeaderOK {
			audioOK = false
			continue
		}
		frames, err := kit.ParseADTS(p.Data)
		if err != nil {
			audioOK = false
			code := "adts.error"
			if ae, ok := err.(*kit.ADTSError); ok {
				code = ae.Code
			}
			viol("C09:audio-es:"+code, -1, map[string]interface{}{"error": err.Error(), "pes_packet": p.PacketIndex, "es_hex": c09Hex(p.Data, 32)})
		}
		if len(frames) == 0 && err == nil {
			audioOK = false
			viol("C09:audio-es:empty-pes", -1, map[string]interface{}{"pes_packet": p.PacketIndex})
		}
		for i, fr := range frames {
			afs = append(afs, af{fr, p, i})
		}
		if p.PacketLength == 0 {
			c.Count("audio_pes_length_zero", 1)
		}
	}
	if audioOK && len(afs) != len(asrc) {
		viol("C09:audio-es:frame-count", -1, map[string]interface{}{"audio_frames": len(asrc), "adts_frames": len(afs), "audio_pes": len(apes)})
	}
	a := c09ASCs[cs.ASC]
	for k := 0; k < len(asrc) && k < len(afs) && audioOK; k++ {
		fi := asrc[k]
		f := &cs.Frames[fi]
		x := afs[k]
		c.Eval(1)
		c.Distinct(fmt.Sprintf("a|%s|%s|s%d|asc%d", cs.Family, cs.Path, f.Size, cs.ASC))
		c.SetAdd("audio_total_es_mod_184", fmt.Sprint(len(x.pes.Data)%184))
		if !bytes.Equal(x.f.Payload, f.data) {
			viol("C09:audio-es:payload-differs", fi, map[string]interface{}{"src_len": len(f.data), "adts_payload_len": len(x.f.Payload),
				"first_diff": c09FirstDiff(x.f.Payload, f.data)})
			continue
		}
		if x.f.Profile != a[0]-1 || x.f.SamplingIndex != a[1] || x.f.ChannelConfig != a[2] {
			viol("C09:audio-es:adts-header-fields", fi, map[string]interface{}{"got_profile": x.f.Profile, "got_sampling_index": x.f.SamplingIndex,
				"got_channel_config": x.f.ChannelConfig, "asc_object_type": a[0], "asc_sampling_index": a[1], "asc_channel_config": a[2]})
			continue
		}
		if x.pos == 0 {
			want := c09Ticks(f.PtsNs)
			checkTS("audio", fi, x.pes, want, want, false)
		} else {
			c.Count("audio_frames_not_first_in_pes_timestamp_unjudged", 1)
		}
		c.Count("audio_frames_exact", 1)
	}
}

// ------------------------------------------------------------------------------------------------------------
// workload

type c09Gen struct {
	c     *kit.Ctx
	index int
	id    uint32
}

func (g *c09Gen) nextID() uint32 { g.id++; return g.id }

func (g *c09Gen) v(nal, size int, pts, dts uint64) c09Src {
	return c09Src{Nal: nal, Size: size, PtsNs: c09Ns(pts), DtsNs: c09Ns(dts), ID: g.nextID()}
}
func (g *c09Gen) a(size int, pts uint64) c09Src {
	return c09Src{Audio: true, Size: size, PtsNs: c09Ns(pts), DtsNs: c09Ns(pts), ID: g.nextID()}
}

// run executes one case if it belongs to this shard.
func (g *c09Gen) run(cs c09Case) {
	i := g.index
	g.index++
	if !g.c.Mine(i) {
		return
	}
	if cs.Path == "muxer" { // sentinel
		lastTs := uint64(0)
		if n := len(cs.Frames); n > 0 {
			lastTs = c09Ticks(cs.Frames[n-1].DtsNs)
		}
		cs.Frames = append(cs.Frames, c09Src{Nal: 1, Size: 16, PtsNs: c09Ns((lastTs + 3000) & c09Mask33), DtsNs: c09Ns((lastTs + 3000) & c09Mask33), ID: 0x7fffffff - uint32(i)})
	}
	cs.materialize()
	var sb strings.Builder
	fmt.Fprintf(&sb, "C09 case %d %s/%s ps=%d asc=%d:", i, cs.Family, cs.Path, cs.PS, cs.ASC)
	for _, f := range cs.Frames {
		fmt.Fprintf(&sb, " [a=%v t=%d n=%d pts=%d dts=%d id=%d %s]", f.Audio, f.Nal, f.Size, f.PtsNs, f.DtsNs, f.ID, f.Meta)
	}
	g.c.Pre(sb.String())
	out, ok := c09Run(g.c, &cs)
	g.c.Count("cases_"+cs.Family+"_"+cs.Path, 1)
	if !ok {
		return
	}
	g.c.Count("ts_bytes_checked", int64(len(out)))
	c09Judge(g.c, &cs, out)
	if i%97 == 0 && len(cs.Frames) <= 8 {
		g.c.Sample(map[string]interface{}{"case": cs, "ts_bytes": len(out)})
	}
}

func runC09(c *kit.Ctx) {
	g := &c09Gen{c: c}
	paths := []string{"sync", "muxer"}
	const T0 = 9000

	// (1) exhaustive size sweep: every size x {IDR, non-IDR} x {PTS==DTS, PTS!=DTS} + one audio frame, both paths.
	maxSize := c.Pick(400, 1200)
	for size := 1; size <= maxSize; size++ {
		for pi, path := range paths {
			for ps := 0; ps < 2; ps++ { // both parameter-set lengths: shifts the IDR header by 20 bytes against the 184-byte grid
				if ps == 1 && pi == 1 && !c.Thorough() {
					continue
				}
				combos := []c09Src{
					g.v(5, size, T0, T0),
					g.v(1, size, T0+3000+6000, T0+3000),
					g.a(size, T0+4000),
					g.v(1, size, T0+6000, T0+6000),
					g.v(5, size, T0+9000+6000, T0+9000),
				}
				// rotate so that every combination is the first PES of a stream for some sizes
				r := size % len(combos)
				fr := append(append([]c09Src{}, combos[r:]...), combos[:r]...)
				g.run(c09Case{Family: "sweep", Path: path, PS: ps, ASC: size % len(c09ASCs), Frames: fr})
			}
		}
	}

	// (2) in-band SPS / PPS / AUD / SEI and other NAL types after a slice, every small size.
	maxIn := c.Pick(64, 400)
	for _, nal := range []int{7, 8, 9, 6, 2, 10, 12} {
		lim := maxIn
		if nal == 2 || nal == 10 || nal == 12 {
			lim = 8
		}
		for size := 1; size <= lim; size++ {
			g.run(c09Case{Family: "inband", Path: paths[size%2], PS: size % 2, ASC: 0, Frames: []c09Src{
				g.v(1, 50, T0, T0), g.v(nal, size, T0+3000, T0+3000), g.v(5, 100, T0+6000, T0+6000)}})
		}
	}
	// minimal directed forms, including the stream's own parameter sets resent in-band (what cameras do before every IDR)
	for ps := 0; ps < 2; ps++ {
		g.run(c09Case{Family: "inband-min", Path: "sync", PS: ps, Frames: []c09Src{{Meta: "sps", PtsNs: c09Ns(T0), DtsNs: c09Ns(T0), ID: g.nextID()}}})
		g.run(c09Case{Family: "inband-min", Path: "sync", PS: ps, Frames: []c09Src{{Meta: "pps", PtsNs: c09Ns(T0), DtsNs: c09Ns(T0), ID: g.nextID()}}})
		g.run(c09Case{Family: "inband-min", Path: "sync", PS: ps, Frames: []c09Src{g.v(9, 2, T0, T0)}})
		g.run(c09Case{Family: "inband-min", Path: "muxer", PS: ps, Frames: []c09Src{
			{Meta: "sps", PtsNs: c09Ns(T0), DtsNs: c09Ns(T0), ID: g.nextID()},
			{Meta: "pps", PtsNs: c09Ns(T0), DtsNs: c09Ns(T0), ID: g.nextID()},
			g.v(5, 300, T0, T0), g.v(1, 120, T0+3000, T0+3000)}})
	}

	// parameter sets unknown when the muxer is built (SDP without sprop-parameter-sets), learned in-band before the first key frame
	for k := 0; k < c.Pick(24, 200); k++ {
		ps, path := k%2, paths[(k/2)%2]
		sp := func() c09Src { return c09Src{Meta: "sps", PtsNs: c09Ns(T0), DtsNs: c09Ns(T0), ID: g.nextID()} }
		pp := func() c09Src { return c09Src{Meta: "pps", PtsNs: c09Ns(T0), DtsNs: c09Ns(T0), ID: g.nextID()} }
		sz := 1 + (k*37)%900
		fr := []c09Src{sp(), pp(), g.v(5, sz, T0, T0), g.v(1, 1+sz/2, T0+3000, T0+3000)}
		if k%3 == 1 {
			fr = []c09Src{sp(), pp(), g.v(1, sz, T0, T0), g.a(100, T0+100), g.v(5, sz+3, T0+3000, T0+3000), sp(), pp(), g.v(5, sz, T0+6000, T0+6000)}
		}
		if k%3 == 2 {
			fr = []c09Src{pp(), sp(), g.v(6, 20, T0, T0), g.v(5, sz, T0, T0), g.v(5, sz+1, T0+3000, T0+3000)}
		}
		g.run(c09Case{Family: "latemeta", Path: path, PS: ps, LateMeta: true, Frames: fr})
	}

	// (3) PES larger than 65535 : the PES_packet_length switch-over, every size in the window.
	var large []int
	for s := 65535 - 200; s <= 65535+200; s++ {
		large = append(large, s)
	}
	large = append(large, 131071, 131072, 199999, 200000, 200001)
	for li, size := range large {
		path := "sync"
		if li%8 == 0 {
			path = "muxer"
		}
		g.run(c09Case{Family: "large", Path: path, PS: li % 2, ASC: 0, Frames: []c09Src{
			g.v(5, size, T0, T0), g.v(1, size, T0+9000, T0+3000), g.v(1, size, T0+6000, T0+6000), g.v(5, size, T0+15000, T0+9000)}})
	}

	// (4) timestamp grid: boundary values + every single bit + alternating patterns, PTS x DTS (DTS <= PTS).
	grid := []uint64{0, 1, 2, 1<<15 - 1, 1 << 15, 1<<15 + 1, 1<<30 - 1, 1 << 30, 1<<30 + 1, 1<<32 - 1, 1 << 32, 1<<32 + 1, 1<<33 - 2, 1<<33 - 1,
		0x155555555, 0x0aaaaaaaa}
	for k := 2; k < 33; k++ {
		if k != 15 && k != 30 && k != 32 {
			grid = append(grid, 1<<uint(k))
		}
	}
	gsizes := []int{1, 37, 150, 184, 500}
	for pi, pts := range grid {
		var fr []c09Src
		n := 0
		for _, dts := range grid {
			if dts > pts {
				continue
			}
			fr = append(fr, g.v(5, gsizes[n%len(gsizes)], pts, dts), g.v(1, gsizes[(n+2)%len(gsizes)], pts, dts))
			n++
		}
		fr = append(fr, g.a(200, pts))
		g.run(c09Case{Family: "tsgrid", Path: paths[pi%2], PS: pi % 2, ASC: pi % len(c09ASCs), Frames: fr})
	}

	// (5) audio sizes 1..1500, bursts of 1..4 AAC frames between video frames, every ASC.
	for size := 1; size <= 1500; size++ {
		var fr []c09Src
		t := uint64(T0)
		for b := 0; b < 1+size%4; b++ {
			fr = append(fr, g.a(size, t))
			t += 2090
		}
		fr = append(fr, g.v(1, 1+size%300, t, t))
		fr = append(fr, g.a(1+(size*7)%1500, t+100))
		g.run(c09Case{Family: "audio", Path: paths[size%2], PS: 0, ASC: size % len(c09ASCs), Frames: fr})
	}

	// ... plus the sizes where the 13-bit aac_frame_length crosses its byte boundaries (2048, 4096) and its maximum (8191 = 8184 + 7)
	for i, size := range []int{2039, 2040, 2041, 2042, 4088, 4089, 4090, 6144, 8183, 8184} {
		g.run(c09Case{Family: "audio-big", Path: paths[i%2], PS: 0, ASC: i % len(c09ASCs), Frames: []c09Src{
			g.a(size, T0), g.v(1, 20, T0+10, T0+10), g.a(size, T0+2090), g.a(7, T0+4180)}})
	}

	// (6) random interleaved sequences with arbitrary (non tick-aligned) nanosecond timestamps.
	nseq := c.Pick(1000, 20000)
	for si := 0; si < nseq; si++ {
		if !c.Mine(g.index) { // generate only the cases of this shard
			g.index++
			continue
		}
		rng := c.SubRng("c09seq", si)
		n := 3 + rng.Intn(38)
		var fr []c09Src
		ns := int64(rng.Intn(2_000_000_000))
		if rng.Intn(6) == 0 {
			ns = c09Ns(1<<33-1) - int64(rng.Intn(3_000_000_000)) - 8_000_000_000 // close to the 33-bit limit, never beyond it (max growth below ~5.6 s)
		}
		for len(fr) < n {
			ns += int64(1 + rng.Intn(40_000_000))
			switch x := rng.Intn(20); {
			case x < 5: // audio burst
				for b := 1 + rng.Intn(4); b > 0; b-- {
					sz := 1 + rng.Intn(1500)
					fr = append(fr, c09Src{Audio: true, Size: sz, PtsNs: ns, DtsNs: ns, ID: g.nextID()})
					ns += 23_219_955
				}
			default:
				nal := 1
				switch {
				case x == 5 || x == 6:
					nal = 5
				case x == 7:
					nal = 6
				case x == 8:
					nal = []int{7, 8, 9}[rng.Intn(3)]
				case x == 9 && rng.Intn(3) == 0:
					nal = []int{2, 3, 4, 10, 11, 12}[rng.Intn(6)]
				}
				var sz int
				switch rng.Intn(4) {
				case 0:
					sz = 1 + rng.Intn(200)
				case 1:
					sz = 1 + rng.Intn(1200)
				case 2:
					sz = 184*(1+rng.Intn(6)) - 40 + rng.Intn(80)
				default:
					sz = 1 + rng.Intn(20000)
				}
				delay := int64(0)
				if rng.Intn(2) == 0 {
					delay = int64(rng.Intn(200_000_000))
				}
				fr = append(fr, c09Src{Nal: nal, Size: sz, PtsNs: ns + delay, DtsNs: ns, ID: g.nextID()})
			}
		}
		g.run(c09Case{Family: "random", Path: paths[si%2], PS: rng.Intn(2), ASC: rng.Intn(len(c09ASCs)), Frames: fr})
	}

	// (7) through the HLS segment generator, which groups AAC frames into one PES (c09_hls.go)
	c09HLS(c)

	if c.Shard == 0 {
		c09Probes(c)
	}
	c.Note("sweep_sizes", fmt.Sprintf("1..%d x {IDR,non-IDR} x {PTS==DTS,PTS!=DTS} x {sync,muxer} x 2 parameter sets (quick: muxer path with one)", maxSize))
	c.Note("large_sizes", "65335..65735, 131071, 131072, 199999..200001")
	c.Note("timestamp_grid_values", len(grid))
	c.Note("unjudged", "stuffing byte values; PCR value / PCR or RAI on non-key frames; PES_packet_length 0 vs exact for video; AUD in front of in-band NAL types other than 1/5/6; +-1 tick rounding; ADTS ID bit; stream_id values; order of PES between PIDs")
}

// c09Probes records observations OUTSIDE the property's quantifier as notes (never as violations):
// timestamps beyond 2^33 ticks and an HE-AAC (explicit SBR signalling) AudioSpecificConfig.
func c09Probes(c *kit.Ctx) {
	obs := map[string]interface{}{}
	for _, pr := range []struct {
		name string
		ns   int64
	}{{"ticks_2^33+5_wraps_to_5", c09Ns(1<<33 + 5)}, {"ns_1.1e14_(30.5h)_int64_overflow_in_ns*90000", 110_000_000_000_000}} {
		cs := c09Case{Family: "probe", Path: "sync", Frames: []c09Src{{Nal: 1, Size: 10, PtsNs: pr.ns, DtsNs: pr.ns, ID: 1}}}
		cs.materialize()
		out, ok := c09Run(c, &cs)
		if !ok {
			obs[pr.name] = "run failed"
			continue
		}
		res := kit.DemuxTS(out)
		if v := res.PESOf(c09VideoPID); len(v) == 1 && v[0].HasPTS {
			obs[pr.name] = map[string]interface{}{"ns": pr.ns, "pts_field": v[0].PTS, "ticks_mod_2^33": c09Ticks(pr.ns) & c09Mask33}
		}
	}
	// AOT 5 (SBR), core index 7 (22050 Hz), 2 channels, extension index 4 (44100 Hz), core AOT 2
	cs := c09Case{Family: "probe", Path: "sync", ASCRaw: []byte{0x2b, 0x92, 0x08, 0x00}, Frames: []c09Src{{Audio: true, Size: 10, PtsNs: c09Ns(9000), DtsNs: c09Ns(9000), ID: 2}}}
	cs.materialize()
	if out, ok := c09Run(c, &cs); ok {
		res := kit.DemuxTS(out)
		if a := res.PESOf(c09AudioPID); len(a) == 1 {
			if fr, err := kit.ParseADTS(a[0].Data); err == nil && len(fr) == 1 {
				obs["he_aac_explicit_asc_2b920800"] = map[string]interface{}{"adts_profile": fr[0].Profile, "adts_sampling_index": fr[0].SamplingIndex,
					"asc_core_sampling_index": 7, "asc_extension_sampling_index": 4, "adts_channel_config": fr[0].ChannelConfig}
			}
		}
	}
	c.Note("probes_outside_quantifier_unjudged", obs)
}
